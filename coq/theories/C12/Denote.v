(* C12/Denote.v -- what a Go value means for a column of a given CQL type, read off the
   documentation table of gocql.Marshal (marshal.go:72-112; "nil is serialized as CQL null", "if value
   is a pointer, the pointed-to value is marshaled"), independently of the encoder's code.
   Some None = CQL null, None = the table gives the combination no meaning (or it is outside the
   modelled universe: string sources for uuid / inet / date / duration, UnsetValue). *)
From GocqlV Require Import Lib.Base.
From GocqlV Require Import C12.Model C12.Spec.      (* Model: the types gval / cqlty and [peel] only *)

Definition dres := option (option cqlval).

(* decimal notation: optional sign, then one or more digits *)
Fixpoint dec_digits (s : bytes) (acc : Z) : option Z :=
  match s with
  | [] => Some acc
  | c :: r => if (48 <=? c) && (c <=? 57) then dec_digits r (10 * acc + (c - 48)) else None
  end.
Definition decimal_value (s : bytes) : option Z :=
  match s with
  | [] => None
  | 45 :: (_ :: _) as r => option_map Z.opp (dec_digits (tl s) 0)
  | 43 :: (_ :: _) as r => dec_digits (tl s) 0
  | 45 :: [] => None
  | 43 :: [] => None
  | _ => dec_digits s 0
  end.

Definition is_text (id : Z) : bool := (id =? Id.ascii) || (id =? Id.text) || (id =? Id.varchar) || (id =? Id.blob).
Definition is_intfam (id : Z) : bool :=
  (id =? Id.tinyint) || (id =? Id.smallint) || (id =? Id.int) || (id =? Id.bigint) || (id =? Id.counter) || (id =? Id.varint).
Definition is_wide (id : Z) : bool := (id =? Id.bigint) || (id =? Id.counter) || (id =? Id.varint).

(* a NaN that passes through a float32 -> float64 conversion comes back quiet (IEEE 754 6.2): this is
   what happens to a value of a defined float32 type on its way through package reflect *)
Definition quiet_nan32 (bits : Z) : Z :=
  if ((bits / 2 ^ 23) mod 256 =? 255) && negb (bits mod 2 ^ 23 =? 0) && ((bits / 2 ^ 22) mod 2 =? 0) then bits + 2 ^ 22 else bits.

Definition zero_time (sec nsec : Z) : bool := (sec =? -62135596800) && (nsec =? 0).
Definition millis_of (sec nsec : Z) : Z := sec * 1000 + nsec / 1000000.       (* rounded towards minus infinity *)
Definition ms_per_day : Z := 86400000.

Definition v4_mapped (b : bytes) : bool :=
  (length b =? 16)%nat && forallb (fun x => x =? 0) (firstn 10 b) && (nth 10 b 0 =? 255) && (nth 11 b 0 =? 255).

Definition denote_native (id : Z) (g : gval) : dres :=
  match g with
  | GNil => Some None
  | GUnset => None
  | _ =>
      if is_text id then
        match g with
        | GStr _ s => Some (Some (VBytes s))
        | GBytes _ (Some b) => Some (Some (VBytes b))
        | GBytes _ None => Some None
        | _ => None
        end
      else if id =? Id.boolean then match g with GBool _ b => Some (Some (VBool b)) | _ => None end
      else if is_intfam id then
        match g with
        | GInt _ _ z => Some (Some (VInt z))
        | GDur z => Some (Some (VInt z))
        | GBig z => if is_wide id then Some (Some (VInt z)) else None
        | GStr false s => match decimal_value s with Some z => Some (Some (VInt z)) | None => None end
        | _ => None
        end
      else if id =? Id.float then
        match g with GF32 named bits => Some (Some (VFloat (if named then quiet_nan32 bits else bits))) | _ => None end
      else if id =? Id.double then match g with GF64 _ bits => Some (Some (VFloat bits)) | _ => None end
      else if id =? Id.decimal then match g with GDec u s => Some (Some (VDecimal u s)) | _ => None end
      else if id =? Id.time then
        match g with GDur z => Some (Some (VInt z)) | GInt I64 _ z => Some (Some (VInt z)) | _ => None end
      else if id =? Id.timestamp then
        match g with
        | GInt I64 _ z => Some (Some (VInt z))
        | GTime sec nsec => if zero_time sec nsec then None else Some (Some (VInt (millis_of sec nsec)))
        | _ => None
        end
      else if id =? Id.date then
        match g with
        | GInt I64 false z => Some (Some (VInt (z / ms_per_day)))
        | GTime sec nsec => if zero_time sec nsec then None else Some (Some (VInt (millis_of sec nsec / ms_per_day)))
        | _ => None
        end
      else if id =? Id.duration then
        match g with
        | GDur z => Some (Some (VDuration 0 0 z))
        | GInt I64 _ z => Some (Some (VDuration 0 0 z))
        | GCqlDur m d n => Some (Some (VDuration m d n))
        | _ => None
        end
      else if (id =? Id.uuid) || (id =? Id.timeuuid) then
        match g with
        | GUUID b => Some (Some (VBytes b))
        | GArr16 b => Some (Some (VBytes b))
        | GBytes false (Some b) => if (length b =? 16)%nat then Some (Some (VBytes b)) else None
        | _ => None
        end
      else if id =? Id.inet then
        match g with
        | GIP b => if v4_mapped b then Some (Some (VBytes (skipn 12 b)))
                   else if (length b =? 4)%nat || (length b =? 16)%nat then Some (Some (VBytes b)) else None
        | _ => None
        end
      else None
  end.

(* all components must have a meaning *)
Fixpoint all_some {A} (l : list (option A)) : option (list A) :=
  match l with
  | [] => Some []
  | None :: _ => None
  | Some x :: r => option_map (cons x) (all_some r)
  end.

(* the sequence a list / set column is filled from *)
Definition seq_items (g : gval) : option (option (list gval)) :=
  match g with
  | GSlice None => Some None
  | GSlice (Some l) => Some (Some l)
  | GArray l => Some (Some l)
  | GIfaces l => Some (Some l)
  | GSetMap l => Some (Some l)
  | _ => None
  end.

Definition tuple_items_of (g : gval) : option (list gval) :=
  match g with
  | GIfaces l => Some l
  | GArray l => Some l
  | GSlice (Some l) => Some l
  | GStruct fs => Some (map snd fs)
  | _ => None
  end.

Fixpoint assoc_name {A} (name : bytes) (l : list (bytes * A)) : option A :=
  match l with
  | [] => None
  | (n, v) :: r => if zlist_eqb n name then Some v else assoc_name name r
  end.
(* "struct fields' cql tags are used for column names", else the field name; the last tagged field wins *)
Fixpoint tagged {A} (name : bytes) (fs : list (bytes * bytes * A)) : option A :=
  match fs with
  | [] => None
  | (_, tag, v) :: r => match tagged name r with
                        | Some x => Some x
                        | None => if negb (zlist_eqb tag []) && zlist_eqb tag name then Some v else None
                        end
  end.
Fixpoint named_field {A} (name : bytes) (fs : list (bytes * bytes * A)) : option A :=
  match fs with
  | [] => None
  | (n, _, v) :: r => if zlist_eqb n name then Some v else named_field name r
  end.
Definition udt_field (g : gval) (name : bytes) : option (option gval) :=   (* None: not a UDT source *)
  match g with
  | GStrMap (Some l) => Some (assoc_name name l)
  | GStrMap None => Some None
  | GStruct fs => Some (match tagged name fs with Some v => Some v | None => named_field name fs end)
  | _ => None
  end.

Fixpoint denote (ty : cqlty) (g : gval) {struct ty} : dres :=
  match peel g with
  | None => Some None
  | Some GNil => Some None
  | Some v =>
      match ty with
      | TNative id => denote_native id v
      | TList e | TSet e =>
          match seq_items v with
          | None => None
          | Some None => Some None
          | Some (Some l) => option_map (fun xs => Some (VList xs)) (all_some (map (denote e) l))
          end
      | TMap k e =>
          match v with
          | GMap None => Some None
          | GMap (Some l) =>
              option_map (fun xs => Some (VMap xs))
                (all_some (map (fun kv => match denote k (fst kv), denote e (snd kv) with
                                          | Some a, Some b => Some (a, b)
                                          | _, _ => None
                                          end) l))
          | _ => None
          end
      | TTuple es =>
          match tuple_items_of v with
          | None => None
          | Some l =>
              if (length l =? length es)%nat then
                option_map (fun xs => Some (VTuple xs))
                  (all_some ((fix go (es : list cqlty) (l : list gval) {struct es} : list dres :=
                                match es, l with
                                | e :: es', x :: l' => denote e x :: go es' l'
                                | _, _ => []
                                end) es l))
              else None
          end
      | TUdt fs =>
          option_map (fun xs => Some (VUdt xs))
            (all_some ((fix go (fs : list (bytes * cqlty)) {struct fs} : list dres :=
                          match fs with
                          | [] => []
                          | (name, e) :: fs' =>
                              (match udt_field v name with
                               | None => None
                               | Some None => Some None            (* absent field: null *)
                               | Some (Some x) => denote e x
                               end) :: go fs'
                          end) fs))
      end
  end.

(* the encoding of a possibly-null value: None = null *)
Definition encode_opt (pv : Z) (ty : cqlty) (x : option cqlval) : option (option bytes) :=
  match x with None => Some None | Some v => option_map Some (encode_value pv ty v) end.

(* ---- well-formed Go values: each component is in the range of its Go type ------------------------------ *)
Definition wf_native (g : gval) : Prop :=
  match g with
  | GInt k _ z => kmin k <= z <= kmax k
  | GF32 _ bits => 0 <= bits < 2 ^ 32
  | GF64 _ bits => 0 <= bits < 2 ^ 64
  | GDec _ scale => - 2 ^ 31 <= scale < 2 ^ 31
  | GTime sec nsec => 0 <= nsec < 1000000000
  | GDur ns => - 2 ^ 63 <= ns < 2 ^ 63
  | GCqlDur m d n => - 2 ^ 31 <= m < 2 ^ 31 /\ - 2 ^ 31 <= d < 2 ^ 31 /\ - 2 ^ 63 <= n < 2 ^ 63
  | GUUID b => length b = 16%nat
  | GArr16 b => length b = 16%nat
  | _ => True
  end.

(* ---- what remains excluded: the one finding that is kept (deliberate reinterpretation of unsigned
   values), and the int64 wrap-around of millisecond timestamps outside any realistic range ---------------- *)
Definition col_signed_max (id : Z) : option Z :=
  if id =? Id.tinyint then Some 127 else if id =? Id.smallint then Some 32767
  else if id =? Id.int then Some 2147483647
  else if (id =? Id.bigint) || (id =? Id.counter) then Some 9223372036854775807 else None.

Definition clean_native (id : Z) (g : gval) : Prop :=
  match g with
  | GInt k named z =>
      (* F-C02-1 (kept): unsigned source above the column's signed maximum *)
      (forall mx, col_signed_max id = Some mx -> is_signed k = false -> z <= mx)
  | GTime sec nsec =>
      (* the millisecond timestamp is computed in int64: instants more than 292 million years away wrap *)
      (id = Id.timestamp \/ id = Id.date -> - 2 ^ 63 <= sec * 1000 /\ millis_of sec nsec < 2 ^ 63)
  | _ => True
  end.
