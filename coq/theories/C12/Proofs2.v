(* C12/Proofs2.v -- fixed-width decoders, zig-zag and vint: model = specification, and the decoders
   invert the specification's encodings. *)
From GocqlV Require Import Lib.Base Lib.Bits Gen.Consts C12.Model C12.Spec C12.Proofs1.

Local Open Scope Z_scope.
Set Default Timeout 60.

Ltac pow_consts :=
  repeat match goal with
         | |- context [2 ^ ?k] => let v := eval compute in (2 ^ k) in change (2 ^ k) with v
         | H : context [2 ^ ?k] |- _ => let v := eval compute in (2 ^ k) in change (2 ^ k) with v in H
         end.

Lemma lor_shift_byte hi b k : 0 <= k -> is_byte b -> Z.lor (hi * 2 ^ (k + 8)) (Z.shiftl b k) = hi * 2 ^ (k + 8) + b * 2 ^ k.
Proof.
  intros Hk Hb. rewrite Z.shiftl_mul_pow2 by lia. unfold is_byte in Hb.
  assert (0 < 2 ^ k) by (apply Z.pow_pos_nonneg; lia).
  apply (lor_disjoint_mod (k + 8)); [lia | apply Z.mod_mul; apply Z.pow_nonzero; lia |].
  rewrite Z.pow_add_r by lia. change (2 ^ 8) with 256. nia.
Qed.

(* ---- fixed-width decoders read the big-endian value ----------------------------------------------- *)
Lemma dec_short_val a b : is_byte a -> is_byte b -> dec_short [a; b] = signed 16 (be_val [a; b]).
Proof.
  intros Ha Hb. unfold dec_short. f_equal. unfold be_val. cbn [fold_left].
  pose proof (lor_shift_byte 0 a 8 ltac:(lia) Ha) as E. rewrite Z.mul_0_l, Z.lor_0_l in E. cbn in E.
  rewrite Z.shiftl_mul_pow2 by lia. unfold is_byte in *.
  rewrite (lor_disjoint_mod 8) by (pow_consts; lia). pow_consts. lia.
Qed.

Lemma dec_int_val a b c d : is_byte a -> is_byte b -> is_byte c -> is_byte d ->
  dec_int [a; b; c; d] = signed 32 (be_val [a; b; c; d]).
Proof.
  intros Ha Hb Hc Hd. unfold dec_int. f_equal. unfold be_val. cbn [fold_left]. unfold is_byte in *.
  rewrite !Z.shiftl_mul_pow2 by lia.
  rewrite (lor_disjoint_mod 24 (a * 2 ^ 24) (b * 2 ^ 16)) by (pow_consts; lia).
  rewrite (lor_disjoint_mod 16 _ (c * 2 ^ 8)) by (pow_consts; lia).
  rewrite (lor_disjoint_mod 8 _ d) by (pow_consts; lia).
  pow_consts. lia.
Qed.

Lemma dec_bigint_val a b c d e f g h :
  is_byte a -> is_byte b -> is_byte c -> is_byte d -> is_byte e -> is_byte f -> is_byte g -> is_byte h ->
  dec_bigint [a; b; c; d; e; f; g; h] = signed 64 (be_val [a; b; c; d; e; f; g; h]).
Proof.
  intros Ha Hb Hc Hd He Hf Hg Hh. unfold dec_bigint. f_equal. unfold be_val. cbn [fold_left]. unfold is_byte in *.
  rewrite !Z.shiftl_mul_pow2 by lia.
  rewrite (lor_disjoint_mod 56 (a * 2 ^ 56) (b * 2 ^ 48)) by (pow_consts; lia).
  rewrite (lor_disjoint_mod 48 _ (c * 2 ^ 40)) by (pow_consts; lia).
  rewrite (lor_disjoint_mod 40 _ (d * 2 ^ 32)) by (pow_consts; lia).
  rewrite (lor_disjoint_mod 32 _ (e * 2 ^ 24)) by (pow_consts; lia).
  rewrite (lor_disjoint_mod 24 _ (f * 2 ^ 16)) by (pow_consts; lia).
  rewrite (lor_disjoint_mod 16 _ (g * 2 ^ 8)) by (pow_consts; lia).
  rewrite (lor_disjoint_mod 8 _ h) by (pow_consts; lia).
  pow_consts. lia.
Qed.

Lemma byte_mod x : is_byte (x mod 256).
Proof. apply Z.mod_pos_bound. lia. Qed.

Lemma signed_mod_fits (w : nat) z : (1 <= w)%nat -> fits_signed w z = true ->
  signed (8 * Z.of_nat w) (z mod 256 ^ Z.of_nat w) = z.
Proof.
  intros Hw Hf. destruct w as [|w]; [lia|]. apply fits_signed_S in Hf. unfold signed.
  replace (2 ^ (8 * Z.of_nat (S w))) with (256 ^ Z.of_nat (S w)) by apply pow256_2.
  rewrite half_pow. rewrite Z.mod_mod by (pose proof (pow256_pos (S w)); lia).
  rewrite pow256_S in *. pose proof (pow256_pos w) as Hp. set (P := 256 ^ Z.of_nat w) in *. clearbody P.
  cbv zeta. destruct (Z.lt_ge_cases z 0).
  - assert (E : z mod (256 * P) = z + 256 * P).
    { replace z with (z + 256 * P + (-1) * (256 * P)) at 1 by ring. rewrite Z.mod_add by lia. apply Z.mod_small. lia. }
    rewrite E. destruct (Z.ltb_spec (z + 256 * P) (128 * P)); lia.
  - rewrite Z.mod_small by lia. destruct (Z.ltb_spec z (128 * P)); lia.
Qed.

Lemma dec_tiny_be_fixed z : fits_signed 1 z = true -> dec_tiny (be_fixed 1 z) = z.
Proof.
  intros Hf. rewrite be_fixed_S, be_fixed_0. unfold dec_tiny, sx8. cbn [Z.of_nat Z.pow]. rewrite Z.div_1_r.
  apply fits_signed_S in Hf. cbn in Hf. destruct (Z.ltb_spec (z mod 256) 128); lia.
Qed.

Lemma dec_short_be_fixed z : fits_signed 2 z = true -> dec_short (be_fixed 2 z) = z.
Proof.
  intros Hf. pose proof (be_val_be_fixed 2 z) as Hv. rewrite !be_fixed_S, be_fixed_0 in *.
  rewrite dec_short_val by apply byte_mod. rewrite Hv. apply (signed_mod_fits 2); [lia|assumption].
Qed.

Lemma dec_int_be_fixed z : fits_signed 4 z = true -> dec_int (be_fixed 4 z) = z.
Proof.
  intros Hf. pose proof (be_val_be_fixed 4 z) as Hv. rewrite !be_fixed_S, be_fixed_0 in *.
  rewrite dec_int_val by apply byte_mod. rewrite Hv. apply (signed_mod_fits 4); [lia|assumption].
Qed.

Lemma dec_bigint_be_fixed z : fits_signed 8 z = true -> dec_bigint (be_fixed 8 z) = z.
Proof.
  intros Hf. pose proof (be_val_be_fixed 8 z) as Hv. rewrite !be_fixed_S, be_fixed_0 in *.
  rewrite dec_bigint_val by apply byte_mod. rewrite Hv. apply (signed_mod_fits 8); [lia|assumption].
Qed.

(* unsigned readings (float / double bits) *)
Lemma wrap_dec_int_be_fixed z : fits_unsigned 4 z = true -> wrap 32 (dec_int (be_fixed 4 z)) = z.
Proof.
  intros Hf. pose proof (be_val_be_fixed 4 z) as Hv. rewrite !be_fixed_S, be_fixed_0 in *.
  rewrite dec_int_val by apply byte_mod. rewrite Hv. unfold fits_unsigned in Hf. unfold wrap, signed. cbn in *.
  destruct (Z.ltb_spec ((z mod 4294967296) mod 4294967296) 2147483648); lia.
Qed.

Lemma wrap_dec_bigint_be_fixed z : fits_unsigned 8 z = true -> wrap 64 (dec_bigint (be_fixed 8 z)) = z.
Proof.
  intros Hf. pose proof (be_val_be_fixed 8 z) as Hv. rewrite !be_fixed_S, be_fixed_0 in *.
  rewrite dec_bigint_val by apply byte_mod. rewrite Hv. unfold fits_unsigned in Hf. unfold wrap, signed. cbn in *.
  destruct (Z.ltb_spec ((z mod 18446744073709551616) mod 18446744073709551616) 9223372036854775808); lia.
Qed.

(* ---- zig-zag ------------------------------------------------------------------------------------------ *)
Definition int64 (v : Z) : Prop := - 2 ^ 63 <= v < 2 ^ 63.

Lemma enc_zigzag_spec v : int64 v -> enc_zigzag v = zigzag v /\ 0 <= zigzag v < 2 ^ 64.
Proof.
  unfold int64, enc_zigzag, zigzag, wrap, signed. intros Hv. rewrite Z.shiftr_div_pow2, Z.shiftl_mul_pow2 by lia.
  pow_consts. destruct (Z.ltb_spec v 0) as [Hn|Hp].
  - replace (v / 9223372036854775808) with (-1) by lia. rewrite Z.lxor_m1_l. unfold Z.lnot.
    destruct (Z.ltb_spec ((v * 2) mod 18446744073709551616) 9223372036854775808); lia.
  - replace (v / 9223372036854775808) with 0 by lia. rewrite Z.lxor_0_l.
    destruct (Z.ltb_spec ((v * 2) mod 18446744073709551616) 9223372036854775808); lia.
Qed.

Lemma lxor_ones64 x : 0 <= x < 2 ^ 64 -> Z.lxor x (2 ^ 64 - 1) = 2 ^ 64 - 1 - x.
Proof.
  intros Hx. set (y := Z.land (Z.lnot x) (Z.ones 64)).
  assert (Ey : y = 2 ^ 64 - 1 - x).
  { unfold y. rewrite Z.land_ones by lia. unfold Z.lnot. pow_consts. lia. }
  assert (Hl : Z.land x y = 0).
  { unfold y. rewrite Z.land_assoc, Z.land_lnot_diag. apply Z.land_0_l. }
  assert (Hs : x + y = Z.lxor x y) by (apply Z.add_nocarry_lxor; exact Hl).
  assert (E1 : 2 ^ 64 - 1 = Z.lxor x y) by lia.
  rewrite E1 at 1. rewrite <- Z.lxor_assoc, Z.lxor_nilpotent, Z.lxor_0_l. exact Ey.
Qed.

Lemma land_1 a : Z.land a 1 = a mod 2.
Proof. exact (Z.land_ones a 1 ltac:(lia)). Qed.

Lemma dec_zigzag_spec v : int64 v -> dec_zigzag (zigzag v) = v.
Proof.
  unfold int64, dec_zigzag, zigzag. intros Hv. rewrite Z.shiftr_div_pow2 by lia. change (2 ^ 1) with 2.
  destruct (Z.ltb_spec v 0) as [Hn|Hp].
  - replace (Z.land (-2 * v - 1) 1) with 1.
    + unfold wrap. replace (-(1) mod 2 ^ 64) with (2 ^ 64 - 1) by (pow_consts; reflexivity).
      rewrite lxor_ones64 by (pow_consts; lia). unfold signed. pow_consts.
      destruct (Z.ltb_spec ((18446744073709551616 - 1 - (-2 * v - 1) / 2) mod 18446744073709551616) 9223372036854775808); lia.
    + rewrite land_1. lia.
  - replace (Z.land (2 * v) 1) with 0.
    + unfold wrap. cbn [Z.opp]. rewrite Z.mod_0_l by (pow_consts; lia). rewrite Z.lxor_0_r. unfold signed. pow_consts.
      destruct (Z.ltb_spec ((2 * v / 2) mod 18446744073709551616) 9223372036854775808); lia.
    + rewrite land_1. lia.
Qed.

(* ---- vint: the model's encoder is the specification's, for every int64 ------------------------------- *)
Lemma bitlen_le u k : 0 <= u -> 0 <= k -> (bitlen u <= k <-> u < 2 ^ k).
Proof.
  intros Hu Hk. unfold bitlen. destruct (Z.eqb_spec u 0) as [->|Hz].
  - split; intros _; [apply Z.pow_pos_nonneg; lia|lia].
  - rewrite Z.abs_eq by lia. split; intros H0.
    + apply Z.log2_lt_pow2; lia.
    + apply Z.log2_lt_pow2 in H0; lia.
Qed.

Lemma bitlen_range u lo hi : 0 <= lo -> lo <= hi -> 2 ^ lo <= u < 2 ^ hi -> lo + 1 <= bitlen u <= hi.
Proof.
  intros Hlo Hhi [H1 H2]. assert (0 < 2 ^ lo) by (apply Z.pow_pos_nonneg; lia).
  split.
  - destruct (Z.le_gt_cases (lo + 1) (bitlen u)) as [|Hc]; [assumption|exfalso].
    assert (bitlen u <= lo) by lia. apply bitlen_le in H0; lia.
  - apply bitlen_le; lia.
Qed.

Ltac compute_closed :=
  repeat match goal with
         | |- context [zrange (Z.to_nat ?n) 0] => let v := eval vm_compute in (zrange (Z.to_nat n) 0) in change (zrange (Z.to_nat n) 0) with v
         end;
  cbn [map];
  repeat match goal with
         | |- context [8 * (?a - ?b)] => let v := eval vm_compute in (8 * (a - b)) in change (8 * (a - b)) with v
         | |- context [byte_of (Z.lnot (Z.shiftr 255 ?e))] =>
             let v := eval vm_compute in (byte_of (Z.lnot (Z.shiftr 255 e))) in change (byte_of (Z.lnot (Z.shiftr 255 e))) with v
         | |- context [256 ^ Z.of_nat ?k] => let v := eval vm_compute in (256 ^ Z.of_nat k) in change (256 ^ Z.of_nat k) with v
         | |- context [(2 ^ Z.of_nat ?n - 1) * 2 ^ (7 * Z.of_nat ?n + 8)] =>
             let v := eval vm_compute in ((2 ^ Z.of_nat n - 1) * 2 ^ (7 * Z.of_nat n + 8)) in
             change ((2 ^ Z.of_nat n - 1) * 2 ^ (7 * Z.of_nat n + 8)) with v
         end.

(* one case: n extra bytes (n1 = n + 1 as a literal), k = 8 - n *)
Ltac vint_case n1 k :=
  match goal with
  | Hlo : 2 ^ ?lo <= ?u, Hhi : ?u < 2 ^ ?hi |- _ =>
      let Hb := fresh "Hb" in
      pose proof (bitlen_range u lo hi ltac:(lia) ltac:(lia) (conj Hlo Hhi)) as Hb;
      replace (Z.shiftr (639 - (64 - bitlen u) * 9) 6) with n1
        by (rewrite Z.shiftr_div_pow2 by lia; change (2 ^ 6) with 64; lia);
      clear Hb; change (n1 <=? 1) with false; cbv iota;
      change (n1 - 1) with (Z.pred n1); 
      let p := eval vm_compute in (Z.pred n1) in change (Z.pred n1) with p;
      compute_closed; rewrite !be_fixed_S, be_fixed_0; compute_closed;
      unfold byte_of; rewrite !Z.shiftr_div_pow2 by lia; pow_consts;
      f_equal;
      [ rewrite (Z.mod_small (u / _) 256) by lia; rewrite Z.lor_comm; rewrite (lor_disjoint_mod k) by (pow_consts; lia); lia
      | repeat (apply (f_equal2 (@cons Z)); [lia|]); reflexivity ]
  end.

Lemma enc_vint_spec v : int64 v -> enc_vint v = vint v.
Proof.
  intros Hv. unfold enc_vint, vint. destruct (enc_zigzag_spec v Hv) as [Ez Hu]. rewrite Ez. clear Ez.
  set (u := zigzag v) in *. clearbody u. clear Hv v. unfold uvint, extra_bytes.
  destruct (Z.ltb_spec u (2 ^ 7)) as [H7|H7].
  { (* single byte *)
    assert (Hb : bitlen u <= 7) by (apply bitlen_le; lia).
    assert (Hn : 0 <= bitlen u) by (unfold bitlen; destruct (u =? 0); [lia|]; pose proof (Z.log2_nonneg (Z.abs u)); lia).
    replace (Z.shiftr (639 - (64 - bitlen u) * 9) 6 <=? 1) with true
      by (symmetry; apply Z.leb_le; rewrite Z.shiftr_div_pow2 by lia; change (2 ^ 6) with 64; lia).
    unfold be_fixed, byte_of. cbn. rewrite Z.div_1_r. f_equal. f_equal. lia. }
  destruct (Z.ltb_spec u (2 ^ 14)) as [H14|H14]. { vint_case 2 7. }
  destruct (Z.ltb_spec u (2 ^ 21)) as [H21|H21]. { vint_case 3 6. }
  destruct (Z.ltb_spec u (2 ^ 28)) as [H28|H28]. { vint_case 4 5. }
  destruct (Z.ltb_spec u (2 ^ 35)) as [H35|H35]. { vint_case 5 4. }
  destruct (Z.ltb_spec u (2 ^ 42)) as [H42|H42]. { vint_case 6 3. }
  destruct (Z.ltb_spec u (2 ^ 49)) as [H49|H49]. { vint_case 7 2. }
  destruct (Z.ltb_spec u (2 ^ 56)) as [H56|H56]. { vint_case 8 1. }
  assert (H64 : u < 2 ^ 64) by (pow_consts; lia). clear Hu. vint_case 9 0.
Qed.

(* ---- decVint inverts the specification's vint ------------------------------------------------------------ *)
Lemma fold_be ext : forall ret0, wf_bytes ext -> 0 <= ret0 ->
  ret0 * 256 ^ Z.of_nat (length ext) + be_val ext < 2 ^ 64 ->
  fold_left (fun acc b => wrap 64 (Z.lor (Z.shiftl acc 8) b)) ext ret0 = ret0 * 256 ^ Z.of_nat (length ext) + be_val ext.
Proof.
  induction ext as [|b ext IH]; intros ret0 Hwf H0 Hlt.
  - cbn. lia.
  - inversion Hwf as [|? ? Hb Hwf']; subst. cbn [fold_left length] in *. rewrite be_val_cons in *. rewrite pow256_S in *.
    pose proof (pow256_pos (length ext)) as Hp. pose proof (be_val_bound ext Hwf') as Hbv. unfold is_byte in Hb.
    rewrite lor_shiftl_add by (pow_consts; lia). change (2 ^ 8) with 256.
    set (P := 256 ^ Z.of_nat (length ext)) in *.
    assert (Hsmall : ret0 * 256 + b < 2 ^ 64).
    { assert (ret0 * 256 + b <= (ret0 * 256 + b) * P) by (set (x := ret0 * 256 + b); assert (0 <= x) by (unfold x; lia); clearbody x; nia).
      replace ((ret0 * 256 + b) * P) with (ret0 * (256 * P) + b * P) in * by ring. lia. }
    unfold wrap. rewrite Z.mod_small by lia.
    rewrite IH; [ring | assumption | lia | fold P; replace ((ret0 * 256 + b) * P) with (ret0 * (256 * P) + b * P) by ring; lia].
Qed.

Lemma leading_ones_range first n lo : 
  In (n, lo) [(1, 128); (2, 192); (3, 224); (4, 240); (5, 248); (6, 252); (7, 254); (8, 255)] ->
  lo <= first < lo + 2 ^ (7 - n) \/ (n = 8 /\ first = 255) -> leading_ones first = n.
Proof.
  intros Hin Hr. unfold leading_ones. cbn in Hin.
  repeat (destruct Hin as [Hin|Hin]; [inversion Hin; subst; clear Hin; pow_consts;
    repeat match goal with |- context [if ?a <? ?b then _ else _] => destruct (Z.ltb_spec a b); try lia end | ]).
  contradiction.
Qed.


Lemma dec_uvint u rest : 0 <= u < 2 ^ 64 -> dec_vint (uvint u ++ rest) = Some (dec_zigzag u, rest).
Proof.
  intros Hu. unfold uvint.
  assert (Hgen : forall (n : nat) (mask : Z),
             In (Z.of_nat n, mask) [(1, 128); (2, 192); (3, 224); (4, 240); (5, 248); (6, 252); (7, 254); (8, 255)] ->
             u < 2 ^ (7 * (Z.of_nat n + 1)) \/ n = 8%nat ->
             2 ^ (7 * Z.of_nat n) <= u ->
             (2 ^ Z.of_nat n - 1) * 2 ^ (7 * Z.of_nat n + 8) = mask * 256 ^ Z.of_nat n ->
             dec_vint (be_fixed (S n) (u + (2 ^ Z.of_nat n - 1) * 2 ^ (7 * Z.of_nat n + 8)) ++ rest) = Some (dec_zigzag u, rest)).
  { intros n mask Hin Hhi Hlo Epre. rewrite Epre. rewrite be_fixed_S. cbn [app].
    pose proof (pow256_pos n) as Hp. set (P := 256 ^ Z.of_nat n) in *.
    rewrite Z.div_add by lia.
    assert (Hn : (1 <= n <= 8)%nat).
    { cbn in Hin. repeat (destruct Hin as [Hin|Hin]; [injection Hin as E1 E2; lia|]). contradiction. }
    assert (Hmask : mask = 256 - 2 ^ (8 - Z.of_nat n) /\ 128 <= mask < 256 /\ 255 / 2 ^ Z.of_nat n = 2 ^ (8 - Z.of_nat n) - 1).
    { cbn in Hin. repeat (destruct Hin as [Hin|Hin]; [injection Hin as E1 E2; rewrite <- E1; subst mask; pow_consts; repeat split; lia|]). contradiction. }
    destruct Hmask as [Emask [Hmr E255]].
    set (q := u / P).
    assert (Hq : 0 <= q < 2 ^ (8 - Z.of_nat n) /\ 2 * q < 2 ^ (8 - Z.of_nat n) + (if (n =? 8)%nat then 1 else 0)).
    { destruct (Nat.eq_dec n 8) as [->|Hne].
      - assert (q = 0) as ->; [|cbn; lia]. apply Z.div_small. unfold P. change (256 ^ Z.of_nat 8) with 18446744073709551616. pow_consts. lia.
      - destruct Hhi as [Hhi|]; [|lia]. destruct (Nat.eqb_spec n 8); [lia|].
        assert (Hq0 : 0 <= q < 2 ^ (7 - Z.of_nat n)).
        { split; [apply Z.div_pos; lia|]. apply Z.div_lt_upper_bound; [lia|].
          unfold P. rewrite pow256_2, <- Z.pow_add_r by lia. replace (8 * Z.of_nat n + (7 - Z.of_nat n)) with (7 * (Z.of_nat n + 1)) by lia. exact Hhi. }
        replace (8 - Z.of_nat n) with (Z.succ (7 - Z.of_nat n)) by lia. rewrite Z.pow_succ_r by lia. lia. }
    destruct Hq as [Hq Hq2].
    assert (Hpk : 0 < 2 ^ (8 - Z.of_nat n) <= 128) by (split; [apply Z.pow_pos_nonneg; lia | change 128 with (2 ^ 7); apply Z.pow_le_mono_r; lia]).
    assert (Etop : (q + mask) mod 256 = mask + q) by (rewrite Z.mod_small; lia).
    rewrite Etop. unfold dec_vint.
    rewrite land128 by (unfold is_byte; lia).
    destruct (Z.ltb_spec (mask + q) 128); [lia|]. cbn [Z.eqb].
    assert (Hlead : leading_ones (mask + q) = Z.of_nat n).
    { apply (leading_ones_range _ _ mask Hin). destruct (Nat.eqb_spec n 8) as [E8|Hne].
      - right. subst n. split; [reflexivity|]. revert Hq Emask. pow_consts. change (2 ^ (8 - Z.of_nat 8)) with 1. lia.
      - left. replace (8 - Z.of_nat n) with (Z.succ (7 - Z.of_nat n)) in Hq2 by lia. rewrite Z.pow_succ_r in Hq2 by lia. lia. }
    rewrite Hlead. rewrite Nat2Z.id.
    cbn [length]. rewrite app_length, be_fixed_length.
    destruct (Z.ltb_spec (Z.of_nat (S (n + length rest))) (Z.of_nat n + 1)); [lia|].
    rewrite firstn_app, be_fixed_length, Nat.sub_diag, firstn_O, app_nil_r, firstn_all2 by (rewrite be_fixed_length; lia).
    rewrite skipn_app, be_fixed_length, Nat.sub_diag, skipn_all2 by (rewrite be_fixed_length; lia). cbn [skipn app].
    (* ret0 = top & (0xff >> n) = q *)
    assert (Eret0 : Z.land (mask + q) (Z.shiftr 255 (Z.of_nat n)) = q).
    { rewrite Z.shiftr_div_pow2 by lia. rewrite E255, land_ones_mod by lia. rewrite Emask.
      replace (256 - 2 ^ (8 - Z.of_nat n) + q) with (q + (2 ^ Z.of_nat n - 1) * 2 ^ (8 - Z.of_nat n)).
      - rewrite Z.mod_add by lia. apply Z.mod_small. lia.
      - rewrite Z.mul_sub_distr_r, <- Z.pow_add_r by lia. replace (Z.of_nat n + (8 - Z.of_nat n)) with 8 by lia. pow_consts. lia. }
    rewrite Eret0. rewrite be_fixed_add_mul.
    rewrite fold_be.
    - rewrite be_fixed_length, be_val_be_fixed. fold P. unfold q.
      replace (u / P * P + u mod P) with u by (pose proof (Z.div_mod u P ltac:(lia)); lia). reflexivity.
    - apply be_fixed_wf.
    - unfold q. apply Z.div_pos; lia.
    - rewrite be_fixed_length, be_val_be_fixed. fold P. unfold q.
      replace (u / P * P + u mod P) with u by (pose proof (Z.div_mod u P ltac:(lia)); lia). lia. }
  unfold extra_bytes.
  destruct (Z.ltb_spec u (2 ^ 7)) as [H7|H7].
  { (* single byte *)
    rewrite be_fixed_S, be_fixed_0. cbn [app Z.of_nat]. change (256 ^ 0) with 1. change (2 ^ 0 - 1) with 0.
    rewrite Z.mul_0_l, Z.add_0_r, Z.div_1_r, Z.mod_small by (pow_consts; lia).
    unfold dec_vint. rewrite land128 by (unfold is_byte; pow_consts; lia).
    destruct (Z.ltb_spec u 128); [reflexivity | pow_consts; lia]. }
  destruct (Z.ltb_spec u (2 ^ 14)) as [H14|H14]. { apply (Hgen 1%nat 128); [cbn; tauto | left; exact H14 | exact H7 | reflexivity]. }
  destruct (Z.ltb_spec u (2 ^ 21)) as [H21|H21]. { apply (Hgen 2%nat 192); [cbn; tauto | left; exact H21 | exact H14 | reflexivity]. }
  destruct (Z.ltb_spec u (2 ^ 28)) as [H28|H28]. { apply (Hgen 3%nat 224); [cbn; tauto | left; exact H28 | exact H21 | reflexivity]. }
  destruct (Z.ltb_spec u (2 ^ 35)) as [H35|H35]. { apply (Hgen 4%nat 240); [cbn; tauto | left; exact H35 | exact H28 | reflexivity]. }
  destruct (Z.ltb_spec u (2 ^ 42)) as [H42|H42]. { apply (Hgen 5%nat 248); [cbn; tauto | left; exact H42 | exact H35 | reflexivity]. }
  destruct (Z.ltb_spec u (2 ^ 49)) as [H49|H49]. { apply (Hgen 6%nat 252); [cbn; tauto | left; exact H49 | exact H42 | reflexivity]. }
  destruct (Z.ltb_spec u (2 ^ 56)) as [H56|H56]. { apply (Hgen 7%nat 254); [cbn; tauto | left; exact H56 | exact H49 | reflexivity]. }
  apply (Hgen 8%nat 255); [cbn; tauto | right; reflexivity | exact H56 | reflexivity].
Qed.

Lemma dec_vint_spec v rest : int64 v -> dec_vint (vint v ++ rest) = Some (v, rest).
Proof.
  intros Hv. unfold vint. destruct (enc_zigzag_spec v Hv) as [_ Hu]. rewrite dec_uvint by exact Hu.
  rewrite dec_zigzag_spec by exact Hv. reflexivity.
Qed.

Lemma dec_vints_spec m d n : fits_signed 4 m = true -> fits_signed 4 d = true -> fits_signed 8 n = true ->
  dec_vints (vint m ++ vint d ++ vint n) = Some (m, d, n).
Proof.
  intros Hm Hd Hn. unfold fits_signed in *. cbn in Hm, Hd, Hn.
  unfold dec_vints. rewrite dec_vint_spec by (unfold int64; pow_consts; lia).
  rewrite dec_vint_spec by (unfold int64; pow_consts; lia).
  rewrite <- (app_nil_r (vint n)). rewrite dec_vint_spec by (unfold int64; pow_consts; lia).
  unfold signed. pow_consts.
  destruct (Z.ltb_spec (m mod 4294967296) 2147483648); destruct (Z.ltb_spec (d mod 4294967296) 2147483648); repeat f_equal; lia.
Qed.
