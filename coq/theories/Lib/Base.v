(* Lib/Base.v -- common imports, byte strings, machine-integer helpers.
   Bytes are Z in [0,256); byte strings are [list Z].  Machine integers are unbounded Z with the
   wrap written out where Go wraps. *)
From Coq Require Export List ZArith Lia Bool Arith.
From Coq Require Export ZifyBool ZifyNat ZifyN.
Export ListNotations.
Open Scope Z_scope.

Ltac Zify.zify_post_hook ::= Z.div_mod_to_equations.

Definition bytes := list Z.

Definition is_byte (b : Z) : Prop := 0 <= b < 256.
Definition wf_bytes (l : bytes) : Prop := Forall is_byte l.

Definition is_byteb (b : Z) : bool := (0 <=? b) && (b <? 256).
Definition wf_bytesb (l : bytes) : bool := forallb is_byteb l.

Lemma is_byteb_spec b : is_byteb b = true <-> is_byte b.
Proof. unfold is_byteb, is_byte. lia. Qed.

Lemma wf_bytesb_spec l : wf_bytesb l = true <-> wf_bytes l.
Proof.
  unfold wf_bytesb, wf_bytes. rewrite forallb_forall, Forall_forall.
  split; intros H x Hx; apply is_byteb_spec; auto.
Qed.

(* wrap w x : x reduced to an unsigned w-bit integer (Go's uintW(x)) *)
Definition wrap (w : Z) (x : Z) : Z := x mod 2 ^ w.
(* signed w x : the signed reading of the low w bits of x (Go's intW(x)) *)
Definition signed (w : Z) (x : Z) : Z :=
  let m := x mod 2 ^ w in if m <? 2 ^ (w - 1) then m else m - 2 ^ w.

Definition byte_of (x : Z) : Z := x mod 256.           (* Go: byte(x) *)
Definition sx8 (b : Z) : Z := if b <? 128 then b else b - 256.   (* int8(b) for a byte b *)

Lemma byte_of_is_byte x : is_byte (byte_of x).
Proof. unfold byte_of, is_byte. lia. Qed.

(* list equality on Z lists / option, as booleans, for the correspondence checks *)
Fixpoint zlist_eqb (a b : list Z) : bool :=
  match a, b with
  | [], [] => true
  | x :: a', y :: b' => (x =? y) && zlist_eqb a' b'
  | _, _ => false
  end.

Lemma zlist_eqb_eq a b : zlist_eqb a b = true <-> a = b.
Proof.
  revert b; induction a as [|x a IH]; intros [|y b]; simpl; split; intro H; try congruence; try discriminate.
  - apply andb_true_iff in H. destruct H as [H1 H2]. apply Z.eqb_eq in H1. apply IH in H2. congruence.
  - inversion H; subst. apply andb_true_iff. split; [apply Z.eqb_refl | apply IH; reflexivity].
Qed.

Definition opt_eqb {A} (eqb : A -> A -> bool) (a b : option A) : bool :=
  match a, b with
  | None, None => true
  | Some x, Some y => eqb x y
  | _, _ => false
  end.

(* indices (as N) of the list elements on which f is false: used by every Cases.v *)
Fixpoint mismatches_from {A} (f : A -> bool) (i : N) (l : list A) : list N :=
  match l with
  | [] => []
  | x :: l' => if f x then mismatches_from f (N.succ i) l' else i :: mismatches_from f (N.succ i) l'
  end.
Definition mismatches {A} (f : A -> bool) (l : list A) : list N := mismatches_from f 0%N l.

(* update position i of a list (Go: a[i] = v), no-op when out of range *)
Fixpoint upd {A} (l : list A) (i : nat) (v : A) : list A :=
  match l, i with
  | [], _ => []
  | _ :: l', O => v :: l'
  | x :: l', S i' => x :: upd l' i' v
  end.

Lemma upd_length {A} (l : list A) i v : length (upd l i v) = length l.
Proof. revert i; induction l as [|x l IH]; intros [|i]; simpl; auto. Qed.

(* small list facts missing from the 8.16 standard library *)
Lemma In_firstn {A} n (l : list A) x : In x (firstn n l) -> In x l.
Proof. revert l; induction n as [|n IH]; intros [|y l]; simpl; try tauto. intros [H|H]; auto. Qed.

Lemma In_skipn {A} n (l : list A) x : In x (skipn n l) -> In x l.
Proof. revert l; induction n as [|n IH]; intros [|y l]; simpl; try tauto. intros H; right; auto. Qed.

Lemma skipn_skipn {A} n m (l : list A) : skipn n (skipn m l) = skipn (m + n) l.
Proof. revert l; induction m as [|m IH]; intros l; simpl; [reflexivity|]. destruct l as [|x l]; [destruct n; reflexivity|]. apply IH. Qed.

Lemma wf_firstn n (l : list Z) : wf_bytes l -> wf_bytes (firstn n l).
Proof. unfold wf_bytes. rewrite !Forall_forall. intros H x Hx. apply H. eapply In_firstn; eauto. Qed.

Lemma wf_skipn n (l : list Z) : wf_bytes l -> wf_bytes (skipn n l).
Proof. unfold wf_bytes. rewrite !Forall_forall. intros H x Hx. apply H. eapply In_skipn; eauto. Qed.

Lemma wf_app (a b : list Z) : wf_bytes a -> wf_bytes b -> wf_bytes (a ++ b).
Proof. unfold wf_bytes. intros. apply Forall_app; split; assumption. Qed.
