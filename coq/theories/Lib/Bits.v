(* Lib/Bits.v -- shifts and masks as arithmetic; finite sweeps over bytes lifted to all bytes. *)
From GocqlV Require Import Lib.Base.

Lemma low_bits_false lo k n : 0 <= lo < 2 ^ k -> 0 <= k <= n -> Z.testbit lo n = false.
Proof.
  intros Hlo Hk. destruct (Z.eq_dec lo 0) as [->|Hz]; [apply Z.bits_0|].
  apply Z.bits_above_log2; [lia|]. 
  assert (Z.log2 lo < k); [|lia]. apply Z.log2_lt_pow2; lia.
Qed.

Lemma land_shiftl_low hi lo k : 0 <= k -> 0 <= lo < 2 ^ k -> Z.land (Z.shiftl hi k) lo = 0.
Proof.
  intros Hk Hlo. apply Z.bits_inj'. intros n Hn. rewrite Z.land_spec, Z.bits_0.
  destruct (Z.lt_ge_cases n k).
  - rewrite Z.shiftl_spec_low by lia. reflexivity.
  - rewrite (low_bits_false lo k n) by lia. apply andb_false_r.
Qed.

(* hi<<k | lo  =  hi*2^k + lo  when lo fits in k bits *)
Lemma lor_add_disjoint a b : Z.land a b = 0 -> Z.lor a b = a + b.
Proof. intros H. rewrite Z.add_nocarry_lxor by assumption. symmetry. apply Z.lxor_lor. assumption. Qed.

Lemma lor_shiftl_add hi lo k : 0 <= k -> 0 <= lo < 2 ^ k -> Z.lor (Z.shiftl hi k) lo = hi * 2 ^ k + lo.
Proof.
  intros Hk Hlo. rewrite lor_add_disjoint by (apply land_shiftl_low; assumption).
  rewrite Z.shiftl_mul_pow2 by lia. reflexivity.
Qed.

Lemma land_ones_mod x k : 0 <= k -> Z.land x (2 ^ k - 1) = x mod 2 ^ k.
Proof. intros Hk. replace (2 ^ k - 1) with (Z.ones k) by (rewrite Z.ones_equiv; lia). apply Z.land_ones. assumption. Qed.

Lemma shiftr_div x k : 0 <= k -> Z.shiftr x k = x / 2 ^ k.
Proof. intros. apply Z.shiftr_div_pow2. assumption. Qed.

(* finite sweep over all bytes, lifted *)
Definition all_bytes : list Z := map Z.of_nat (seq 0 256).

Lemma all_bytes_complete b : is_byte b -> In b all_bytes.
Proof.
  intros Hb. unfold all_bytes. apply in_map_iff. exists (Z.to_nat b). unfold is_byte in Hb.
  split; [lia|]. apply in_seq. lia.
Qed.

Lemma byte_sweep (P : Z -> bool) : forallb P all_bytes = true -> forall b, is_byte b -> P b = true.
Proof. intros H b Hb. rewrite forallb_forall in H. apply H, all_bytes_complete, Hb. Qed.

Definition all_nibbles : list Z := map Z.of_nat (seq 0 16).
Lemma nibble_sweep (P : Z -> bool) : forallb P all_nibbles = true -> forall n, 0 <= n < 16 -> P n = true.
Proof.
  intros H n Hn. rewrite forallb_forall in H. apply H. unfold all_nibbles. apply in_map_iff.
  exists (Z.to_nat n). split; [lia|]. apply in_seq. lia.
Qed.

(* a | b = a + b when a is a multiple of 2^k and b fits in k bits *)
Lemma lor_disjoint_mod k a b : 0 <= k -> a mod 2 ^ k = 0 -> 0 <= b < 2 ^ k -> Z.lor a b = a + b.
Proof.
  intros Hk Ha Hb.
  assert (E : a = Z.shiftl (a / 2 ^ k) k).
  { rewrite Z.shiftl_mul_pow2 by lia. assert (0 < 2 ^ k) by (apply Z.pow_pos_nonneg; lia).
    rewrite (Z.div_mod a (2 ^ k)) at 1 by lia. lia. }
  rewrite E at 1. rewrite lor_shiftl_add by assumption. rewrite Z.shiftl_mul_pow2 in E by lia. lia.
Qed.
