(* C20/Model.v -- executable model of
     connectionpool.go  setupTLSConfig                       (part 1)
     dial.go            tlsConfigForAddr, WrapTLS            (part 1)
     conn.go            approve, PasswordAuthenticator.Challenge, startupCoordinator.options /
                        startup / authenticateHandshake      (part 2)
   Definitions only; proofs live in Proofs.v.

   tls.Config values and x509.CertPool values are *objects on a heap* (addresses = indices), because
   the property is about which object the code writes to: Clone() allocates a new config whose
   RootCAs field still points at the *same* pool object (tls.Config.Clone is shallow). *)
From GocqlV Require Import Lib.Base Gen.Consts.

(* ================================================================================================ *)
(* Part 1: TLS configuration                                                                        *)
(* ================================================================================================ *)

(* the fields of tls.Config the anchored code reads or writes *)
Record tlscfg := mkCfg {
  c_insecure : bool;            (* InsecureSkipVerify *)
  c_name     : list Z;          (* ServerName (bytes of the Go string) *)
  c_roots    : option nat;      (* RootCAs: nil | address of a pool object *)
  c_ncerts   : nat;             (* len(Certificates) *)
  c_other    : Z                (* every OTHER field of tls.Config (VerifyPeerCertificate, VerifyConnection,
                                   ClientAuth, MinVersion, MaxVersion, NextProtos, CipherSuites,
                                   GetClientCertificate, ClientSessionCache, ...) as one opaque value: the
                                   anchored code copies it (Clone) and never reads or writes it -- no
                                   definition below mentions c_other except to carry it along *)
}.

(* a pool is the list of certificates it holds (certificates are identified by a number) *)
Record heap := mkHeap { h_cfgs : list tlscfg; h_pools : list (list Z) }.

Definition zero_cfg : tlscfg := mkCfg false [] None 0 0.        (* tls.Config{} *)
Definition get_cfg (h : heap) (a : nat) : tlscfg := nth a (h_cfgs h) zero_cfg.
Definition get_pool (h : heap) (p : nat) : list Z := nth p (h_pools h) [].

Definition alloc_cfg (h : heap) (c : tlscfg) : heap * nat :=
  (mkHeap (h_cfgs h ++ [c]) (h_pools h), length (h_cfgs h)).
Definition set_cfg (h : heap) (a : nat) (c : tlscfg) : heap := mkHeap (upd (h_cfgs h) a c) (h_pools h).
Definition alloc_pool (h : heap) : heap * nat :=                 (* x509.NewCertPool() *)
  (mkHeap (h_cfgs h) (h_pools h ++ [[]]), length (h_pools h)).
Definition set_pool (h : heap) (p : nat) (s : list Z) : heap := mkHeap (h_cfgs h) (upd (h_pools h) p s).

Definition with_insecure (c : tlscfg) (b : bool) : tlscfg := mkCfg b (c_name c) (c_roots c) (c_ncerts c) (c_other c).
Definition with_name (c : tlscfg) (n : list Z) : tlscfg := mkCfg (c_insecure c) n (c_roots c) (c_ncerts c) (c_other c).
Definition with_roots (c : tlscfg) (r : option nat) : tlscfg := mkCfg (c_insecure c) (c_name c) r (c_ncerts c) (c_other c).
Definition with_ncerts (c : tlscfg) (n : nat) : tlscfg := mkCfg (c_insecure c) (c_name c) (c_roots c) n (c_other c).

(* CertPool.AddCert: a certificate already in the pool is not added again *)
Definition add_cert (pool : list Z) (c : Z) : list Z :=
  if existsb (Z.eqb c) pool then pool else pool ++ [c].
Definition add_certs (pool certs : list Z) : list Z := fold_left add_cert certs pool.

(* SslOptions: Config (nil | address), EnableHostVerification, and whether the three paths are "" *)
Record sslopts := mkOpts {
  o_config   : option nat;
  o_hv       : bool;
  o_ca_set   : bool;            (* CaPath != "" *)
  o_cert_set : bool;            (* CertPath != "" *)
  o_key_set  : bool             (* KeyPath != "" *)
}.

(* the file system as the function sees it:
   f_ca = None            ioutil.ReadFile(CaPath) fails
   f_ca = Some certs      it succeeds and the PEM data contains exactly these certificates ([] = none:
                          AppendCertsFromPEM returns false)
   f_kp_ok                tls.LoadX509KeyPair(CertPath, KeyPath) succeeds *)
Record fsenv := mkFs { f_ca : option (list Z); f_kp_ok : bool }.

Inductive tlserr := ECaOpen | ECaParse | EKeyPair.
Inductive sres := SErr (e : tlserr) | SOk (a : nat).

(* connectionpool.go:50-97, statement by statement (one definition per statement group) *)

(* if sslOpts.Config == nil { tlsConfig = &tls.Config{InsecureSkipVerify: !sslOpts.EnableHostVerification} }
   else { tlsConfig = sslOpts.Config.Clone() } *)
Definition st_config (h : heap) (o : sslopts) : heap * nat :=
  match o_config o with
  | None => alloc_cfg h (mkCfg (negb (o_hv o)) [] None 0 0)
  | Some ca => alloc_cfg h (get_cfg h ca)
  end.

(* if tlsConfig.InsecureSkipVerify && sslOpts.EnableHostVerification { tlsConfig.InsecureSkipVerify = false } *)
Definition st_hv (h : heap) (a : nat) (o : sslopts) : heap :=
  if c_insecure (get_cfg h a) && o_hv o then set_cfg h a (with_insecure (get_cfg h a) false) else h.

(* if tlsConfig.RootCAs == nil { tlsConfig.RootCAs = x509.NewCertPool() } ; the pool then used *)
Definition st_pool (h : heap) (a : nat) : heap * nat :=
  match c_roots (get_cfg h a) with
  | Some p => (h, p)
  | None => let '(hp, p) := alloc_pool h in (set_cfg hp a (with_roots (get_cfg hp a) (Some p)), p)
  end.

(* if sslOpts.CaPath != "" { pool; ReadFile; AppendCertsFromPEM } *)
Definition st_ca (h : heap) (a : nat) (o : sslopts) (f : fsenv) : heap * option tlserr :=
  if o_ca_set o then
    let '(h', p) := st_pool h a in
    match f_ca f with
    | None => (h', Some ECaOpen)
    | Some [] => (h', Some ECaParse)
    | Some certs => (set_pool h' p (add_certs (get_pool h' p) certs), None)
    end
  else (h, None).

(* if sslOpts.CertPath != "" || sslOpts.KeyPath != "" { LoadX509KeyPair; append to Certificates } *)
Definition st_kp (h : heap) (a : nat) (o : sslopts) (f : fsenv) : heap * sres :=
  if o_cert_set o || o_key_set o then
    if f_kp_ok f then (set_cfg h a (with_ncerts (get_cfg h a) (S (c_ncerts (get_cfg h a)))), SOk a)
    else (h, SErr EKeyPair)
  else (h, SOk a).

Definition setup_tls (h : heap) (o : sslopts) (f : fsenv) : heap * sres :=
  let '(h1, a) := st_config h o in
  let h2 := st_hv h1 a o in
  let '(h3, caerr) := st_ca h2 a o f in
  match caerr with
  | Some e => (h3, SErr e)
  | None => st_kp h3 a o f
  end.

(* strings.LastIndex(addr, ":") : index of the last 58, None for -1 *)
Fixpoint last_index_aux (c : Z) (l : list Z) (i : nat) (acc : option nat) : option nat :=
  match l with
  | [] => acc
  | x :: l' => last_index_aux c l' (S i) (if x =? c then Some i else acc)
  end.
Definition last_index (c : Z) (l : list Z) : option nat := last_index_aux c l 0 None.

(* colonPos := LastIndex(addr, ":"); if -1 { colonPos = len(addr) }; hostname := addr[:colonPos] *)
Definition hostname_of (addr : list Z) : list Z :=
  match last_index 58 addr with
  | Some i => firstn i addr
  | None => firstn (length addr) addr
  end.

Definition is_nil (l : list Z) : bool := match l with [] => true | _ => false end.

(* dial.go:82-97 *)
Definition tls_config_for_addr (h : heap) (a : nat) (addr : list Z) : heap * nat :=
  let c := get_cfg h a in
  if negb (c_insecure c) && is_nil (c_name c)
  then let '(h1, a1) := alloc_cfg h c in (set_cfg h1 a1 (with_name (get_cfg h1 a1) (hostname_of addr)), a1)
  else (h, a).

(* connConfig + defaultHostDialer.DialHost + WrapTLS: which configuration the TLS handshake of one
   connection runs with.  ssl = None is ClusterConfig.SslOpts == nil: the connection is not wrapped. *)
Inductive dres := DErr (e : tlserr) | DPlain | DTls (a : nat).
Definition dial_config (h : heap) (ssl : option sslopts) (f : fsenv) (addr : list Z) : heap * dres :=
  match ssl with
  | None => (h, DPlain)
  | Some o =>
      match setup_tls h o f with
      | (h1, SErr e) => (h1, DErr e)
      | (h1, SOk a) => let '(h2, a2) := tls_config_for_addr h1 a addr in (h2, DTls a2)
      end
  end.

(* control.go hostInfo + session.go addrsToHosts: a contact point (host part [host], port [port]) becomes
   HostInfo values.  [literal] = Some ip when net.ParseIP(host) succeeds (the text of that address); otherwise
   [ips] is what LookupIP(host) returned, each with its text and whether To4() != nil, and [prefer_v4] is the
   package variable hostLookupPreferV4 (GOCQL_HOST_LOOKUP_PREFER_V4=true). *)
Record hostinfo := mkHost { hi_hostname : list Z; hi_addr : list Z; hi_port : list Z }.

Definition resolve_contact (host port : list Z) (literal : option (list Z)) (ips : list (list Z * bool))
                           (prefer_v4 : bool) : list hostinfo :=
  match literal with
  | Some ip => [mkHost host ip port]
  | None =>
      let ips' := if prefer_v4
                  then match filter snd ips with [] => ips | pref => pref end   (* if len(preferredIPs) != 0 *)
                  else ips in
      map (fun ip => mkHost host (fst ip) port) ips'
  end.

(* host_source.go HostnameAndPort: if h.hostname == "" { h.hostname = addr.String() }; net.JoinHostPort *)
Definition go_join_host_port (host port : list Z) : list Z :=
  (if existsb (Z.eqb 58) host then [91] ++ host ++ [93] else host) ++ [58] ++ port.
Definition hostname_and_port (hi : hostinfo) : list Z :=
  go_join_host_port (if is_nil (hi_hostname hi) then hi_addr hi else hi_hostname hi) (hi_port hi).

Definition verifies (h : heap) (a : nat) : bool := negb (c_insecure (get_cfg h a)).

(* crypto/tls + crypto/x509 as used here (MODELLED, the standard library is trusted): a server presents a
   certificate issued by authority [sc_issuer], valid for the names [sc_names] (DNS names, and IP
   addresses in their canonical text form).  With InsecureSkipVerify the handshake succeeds whatever the
   certificate; otherwise the issuer must be in the RootCAs pool (RootCAs == nil means the system
   roots, which never contain a test authority) and ServerName must be one of the names; x509 accepts
   an IP literal in square brackets. *)
Record server_cert := mkCert { sc_issuer : Z; sc_names : list (list Z) }.

Definition strip_brackets (n : list Z) : list Z :=
  match n with
  | 91 :: rest =>
      match rev rest with
      | 93 :: mid => match mid with [] => n | _ => rev mid end
      | _ => n
      end
  | _ => n
  end.

Definition cert_trusted (h : heap) (c : tlscfg) (sc : server_cert) : bool :=
  match c_roots c with
  | Some p => existsb (Z.eqb (sc_issuer sc)) (get_pool h p)
  | None => false
  end.
Definition cert_name_ok (c : tlscfg) (sc : server_cert) : bool :=
  negb (is_nil (c_name c)) && existsb (zlist_eqb (strip_brackets (c_name c))) (sc_names sc).
Definition tls_handshake_ok (h : heap) (a : nat) (sc : server_cert) : bool :=
  let c := get_cfg h a in
  c_insecure c || (cert_trusted h c sc && cert_name_ok c sc).

(* ================================================================================================ *)
(* Part 2: authentication                                                                           *)
(* ================================================================================================ *)

(* conn.go:61-72 *)
Definition approve (authenticator : list Z) (approved : list (list Z)) : bool :=
  let l := match approved with [] => K.defaultApprovedAuthenticators | _ => approved end in
  existsb (zlist_eqb authenticator) l.

(* copy(dst[off:], src): bytes that do not fit are dropped ([upd] is a no-op out of range) *)
Fixpoint copy_at (dst : list Z) (off : nat) (src : list Z) : list Z :=
  match src with
  | [] => dst
  | b :: src' => copy_at (upd dst off b) (S off) src'
  end.

(* PasswordAuthenticator.Challenge, conn.go:96-106; None = the "unexpected authenticator" error *)
Definition password_challenge (user pass : list Z) (allowed : list (list Z)) (req : list Z) : option (list Z) :=
  if negb (approve req allowed) then None
  else
    let r0 := repeat 0 (2 + length user + length pass) in     (* make([]byte, 2+len(u)+len(p)) *)
    let r1 := upd r0 0 0 in                                    (* resp[0] = 0 *)
    let r2 := copy_at r1 1 user in                             (* copy(resp[1:], p.Username) *)
    let r3 := upd r2 (length user + 1) 0 in                    (* resp[len(p.Username)+1] = 0 *)
    Some (copy_at r3 (2 + length user) pass).                  (* copy(resp[2+len(p.Username):], p.Password) *)

(* what the server sends in reply to a request, as parseFrame classifies it *)
Inductive frame :=
| FSupported
| FReady
| FAuthenticate (cls : list Z)
| FAuthChallenge (d : list Z)
| FAuthSuccess (d : list Z)
| FError (code : Z)              (* any frame that is a Go [error] *)
| FOther.                        (* any other well-formed frame (e.g. RESULT void) *)

(* An arbitrary user Authenticator, as far as one handshake can see it: the sequence of answers its
   successive Challenge calls give (error | response + whether the returned challenger is non-nil),
   and whether Success returns nil. *)
Inductive reply := RErr | RResp (d : list Z) (next : bool).

Inductive authn :=
| ANone                                                        (* cfg.Authenticator == nil *)
| APassword (user pass : list Z) (allowed : list (list Z))     (* PasswordAuthenticator *)
| AScript (rs : list reply) (succ_ok : bool).

(* the [challenger] variable of authenticateHandshake: nil, or the rest of a scripted authenticator *)
Inductive chal := ChNil | ChScript (rs : list reply) (succ_ok : bool).

Inductive errc := EAuthRequired | EUnapproved | EServer (code : Z) | EOther.
Inductive outcome := Established | Failed (e : errc) | Crashed.
Inductive out := OOptions | OStartup | OAuthResponse (tok : list Z).

Inductive cres := CErr (e : errc) | CCrash | COk (resp : list Z) (c : chal).

Definition script_challenge (rs : list reply) (ok : bool) : cres :=
  match rs with
  | [] => CErr EOther
  | RErr :: _ => CErr EOther
  | RResp d nx :: rs' => COk d (if nx then ChScript rs' ok else ChNil)
  end.

(* s.conn.auth.Challenge([]byte(authFrame.class)) *)
Definition first_challenge (au : authn) (cls : list Z) : cres :=
  match au with
  | ANone => CErr EAuthRequired
  | APassword u p al =>
      match password_challenge u p al cls with
      | Some tok => COk tok ChNil                               (* returns resp, nil, nil *)
      | None => CErr EUnapproved
      end
  | AScript rs ok => script_challenge rs ok
  end.

(* challenger.Challenge(v.data): a nil challenger is a nil-pointer dereference (conn.go:540) *)
Definition next_challenge (c : chal) (d : list Z) : cres :=
  match c with
  | ChNil => CCrash
  | ChScript rs ok => script_challenge rs ok
  end.

Inductive hstate :=
| WaitSupported                    (* OPTIONS written, options() waits for the reply *)
| WaitStartup                      (* STARTUP written, startup() waits *)
| WaitAuth (c : chal)              (* AUTH_RESPONSE written, authenticateHandshake waits *)
| Done (r : outcome).

(* one reply consumed: conn.go:447-548 *)
Definition step (au : authn) (s : hstate) (fr : frame) : hstate * list out :=
  match s with
  | WaitSupported =>
      match fr with
      | FSupported => (WaitStartup, [OStartup])
      | _ => (Done (Failed EOther), [])
      end
  | WaitStartup =>
      match fr with
      | FError code => (Done (Failed (EServer code)), [])
      | FReady => (Done Established, [])
      | FAuthenticate cls =>
          match au with
          | ANone => (Done (Failed EAuthRequired), [])         (* if s.conn.auth == nil *)
          | _ =>
              match first_challenge au cls with
              | CErr e => (Done (Failed e), [])
              | CCrash => (Done Crashed, [])
              | COk resp c => (WaitAuth c, [OAuthResponse resp])
              end
          end
      | _ => (Done (Failed EOther), [])
      end
  | WaitAuth c =>
      match fr with
      | FError code => (Done (Failed (EServer code)), [])
      | FAuthSuccess d =>
          match c with
          | ChNil => (Done Established, [])
          | ChScript _ ok => (Done (if ok then Established else Failed EOther), [])
          end
      | FAuthChallenge d =>
          match next_challenge c d with
          | CErr e => (Done (Failed e), [])
          | CCrash => (Done Crashed, [])
          | COk resp c' => (WaitAuth c', [OAuthResponse resp])
          end
      | _ => (Done (Failed EOther), [])
      end
  | Done r => (Done r, [])         (* the handshake is over: nothing more is read by it *)
  end.

Fixpoint run_from (au : authn) (s : hstate) (fs : list frame) : hstate * list out :=
  match fs with
  | [] => (s, [])
  | f :: fs' =>
      let '(s1, o1) := step au s f in
      let '(s2, o2) := run_from au s1 fs' in
      (s2, o1 ++ o2)
  end.

(* the whole handshake against a server that answers with [fs] in order *)
Definition run (au : authn) (fs : list frame) : hstate * list out :=
  let '(s, o) := run_from au WaitSupported fs in (s, OOptions :: o).

(* the server closes the connection when it has nothing more to say: a waiting client gets an I/O error *)
Definition final (s : hstate) : outcome :=
  match s with
  | Done r => r
  | _ => Failed EOther
  end.

Definition tokens (os : list out) : list (list Z) :=
  flat_map (fun o => match o with OAuthResponse t => [t] | _ => [] end) os.
