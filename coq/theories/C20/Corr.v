(* C20/Corr.v -- correspondence cases: each constructor carries an input and what the real implementation
   did with it; [check] runs the model on the input and compares the projected observables. *)
From GocqlV Require Import Lib.Base Gen.Consts C20.Model C20.Spec.

(* a tls.Config as the harness can observe it: InsecureSkipVerify, ServerName, RootCAs (nil | which of
   the harness's numbered authorities are in the pool, ascending), len(Certificates) *)
(* ob_other: bit mask of which of the OTHER tls.Config fields are set (bit 0 VerifyPeerCertificate, 1 VerifyConnection,
   2 ClientAuth, 3 MinVersion, 4 NextProtos, 5 GetClientCertificate, 6 MaxVersion, 7 CipherSuites,
   8 SessionTicketsDisabled, 9 ClientSessionCache, 10 Renegotiation, 11 CurvePreferences, 12 GetCertificate, 13 Time) *)
Record cfgobs := mkObs { ob_insecure : bool; ob_name : list Z; ob_roots : option (list Z); ob_ncerts : Z; ob_other : Z }.

(* the SslOptions side of a case: Config, EnableHostVerification, CaPath/CertPath/KeyPath set?, and what
   the files the harness wrote contain (see Model.fsenv) *)
Record sslobs := mkSsl { so_config : option cfgobs; so_hv : bool; so_ca : bool; so_cert : bool; so_key : bool;
                         so_fca : option (list Z); so_kp_ok : bool }.

Inductive case :=
| CSetup (s : sslobs)
         (err : Z)                       (* 0 ok | 1 CA unreadable | 2 CA unparsable | 3 key pair *)
         (result : option cfgobs)        (* the returned *tls.Config (nil on error) *)
         (aliased : bool)                (* returned pointer == the caller's pointer *)
         (caller_after : option cfgobs)  (* the caller's own tls.Config after the call *)
| CForAddr (c : cfgobs) (addr : list Z) (result : cfgobs) (same_ptr : bool) (caller_after : cfgobs)
| CJoin (host port out : list Z)         (* HostInfo.HostnameAndPort *)
| CResolve (host port : list Z) (literal : option (list Z)) (ips : list (list Z * bool)) (prefer_v4 : bool)
           (outs : list (list Z * list Z)) (* addrsToHosts on one contact point: (ConnectAddress text, HostnameAndPort) per host *)
| CWrap (c : option cfgobs) (addr : list Z) (issuer : Z) (names : list (list Z))
        (ok wrapped : bool) (caller_after : option cfgobs)      (* public WrapTLS against a TLS server *)
| CHandshake (au : authn) (fs : list frame)
             (code srv : Z)              (* 0 established | 1 auth required | 2 unapproved | 3 server error srv | 4 other | 5 crash *)
             (toks : list (list Z))      (* bodies of the AUTH_RESPONSE frames the server received, in order *)
             (nopt nstart : Z)           (* number of OPTIONS / STARTUP frames it received *)
| CChain (ssl : option sslobs) (host port : list Z) (issuer : Z) (names : list (list Z))
         (au : authn) (fs : list frame)
         (stage : Z)                     (* 1 configuration error | 2 TLS handshake failed | 3 CQL handshake ran *)
         (code srv : Z) (toks : list (list Z))
| CApprove (cls : list Z) (allowed : list (list Z)) (out : bool)
| CChallenge (u p : list Z) (allowed : list (list Z)) (req : list Z) (out : option (list Z))
| CDefaults (l : list (list Z)).

(* ---- helpers ------------------------------------------------------------------------------------- *)
Definition subsetb (a b : list Z) : bool := forallb (fun x => existsb (Z.eqb x) b) a.
Definition set_eqb (a b : list Z) : bool := subsetb a b && subsetb b a.
Definition obs_eqb (a b : cfgobs) : bool :=
  Bool.eqb (ob_insecure a) (ob_insecure b) && zlist_eqb (ob_name a) (ob_name b)
  && opt_eqb set_eqb (ob_roots a) (ob_roots b) && (ob_ncerts a =? ob_ncerts b) && (ob_other a =? ob_other b).
Fixpoint zll_eqb (a b : list (list Z)) : bool :=
  match a, b with
  | [], [] => true
  | x :: a', y :: b' => zlist_eqb x y && zll_eqb a' b'
  | _, _ => false
  end.

(* the caller's config (if any) lives at address 0, its pool (if any) at pool address 0 *)
Definition heap_of (c : option cfgobs) : heap * option nat :=
  match c with
  | None => (mkHeap [] [], None)
  | Some ob =>
      match ob_roots ob with
      | None => (mkHeap [mkCfg (ob_insecure ob) (ob_name ob) None (Z.to_nat (ob_ncerts ob)) (ob_other ob)] [], Some 0%nat)
      | Some ids => (mkHeap [mkCfg (ob_insecure ob) (ob_name ob) (Some 0%nat) (Z.to_nat (ob_ncerts ob)) (ob_other ob)] [ids], Some 0%nat)
      end
  end.

Definition observe (h : heap) (a : nat) : cfgobs :=
  let c := get_cfg h a in
  mkObs (c_insecure c) (c_name c)
        (match c_roots c with Some p => Some (get_pool h p) | None => None end)
        (Z.of_nat (c_ncerts c)) (c_other c).

Definition observe_caller (h : heap) (oc : option nat) : option cfgobs :=
  match oc with Some a => Some (observe h a) | None => None end.

Definition err_code (e : tlserr) : Z := match e with ECaOpen => 1 | ECaParse => 2 | EKeyPair => 3 end.

Definition outcome_code (r : outcome) : Z * Z :=
  match r with
  | Established => (0, 0)
  | Failed EAuthRequired => (1, 0)
  | Failed EUnapproved => (2, 0)
  | Failed (EServer c) => (3, c)
  | Failed EOther => (4, 0)
  | Crashed => (5, 0)
  end.

Definition count_out (f : out -> bool) (os : list out) : Z := Z.of_nat (length (filter f os)).
Definition is_opt (o : out) : bool := match o with OOptions => true | _ => false end.
Definition is_start (o : out) : bool := match o with OStartup => true | _ => false end.

Definition opts_of (s : sslobs) (oc : option nat) : sslopts := mkOpts oc (so_hv s) (so_ca s) (so_cert s) (so_key s).
Definition fs_of (s : sslobs) : fsenv := mkFs (so_fca s) (so_kp_ok s).

(* the model's Crashed (nil challenger dereferenced, DESIGN F-C05-7) is outside what C20 speaks about:
   a repaired implementation that returns an error there is accepted as well (never an established one) *)
Definition code_matches (model : Z * Z) (code srv : Z) : bool :=
  if fst model =? 5 then (code =? 5) || (code =? 4)
  else (fst model =? code) && (snd model =? srv).

Definition check (c : case) : bool :=
  match c with
  | CSetup s err result aliased caller_after =>
      let '(h, oc) := heap_of (so_config s) in
      let '(h', r) := setup_tls h (opts_of s oc) (fs_of s) in
      opt_eqb obs_eqb (observe_caller h' oc) caller_after
      && match r with
         | SErr e => (err =? err_code e) && opt_eqb obs_eqb None result && negb aliased
         | SOk a => (err =? 0) && opt_eqb obs_eqb (Some (observe h' a)) result
                    && Bool.eqb aliased (match oc with Some ca => Nat.eqb a ca | None => false end)
         end
  | CForAddr c addr result same_ptr caller_after =>
      let '(h, oc) := heap_of (Some c) in
      let '(h', a) := tls_config_for_addr h 0%nat addr in
      obs_eqb (observe h' a) result && Bool.eqb same_ptr (Nat.eqb a 0) && obs_eqb (observe h' 0%nat) caller_after
  | CJoin host port out => zlist_eqb (join_host_port host port) out
  | CResolve host port literal ips pv4 outs =>
      let his := resolve_contact host port literal ips pv4 in
      zll_eqb (map hi_addr his) (map fst outs) && zll_eqb (map hostname_and_port his) (map snd outs)
  | CWrap c addr issuer names ok wrapped caller_after =>
      let '(h, oc) := heap_of c in
      opt_eqb obs_eqb (observe_caller
                         (match oc with Some a => fst (tls_config_for_addr h a addr) | None => h end) oc) caller_after
      && match oc with
         | None => ok && negb wrapped
         | Some a => let '(h', a') := tls_config_for_addr h a addr in
                     Bool.eqb ok (tls_handshake_ok h' a' (mkCert issuer names)) && (wrapped || negb ok)
         end
  | CHandshake au fs code srv toks nopt nstart =>
      let '(s, os) := run au fs in
      code_matches (outcome_code (final s)) code srv
      && zll_eqb (tokens os) toks && (count_out is_opt os =? nopt) && (count_out is_start os =? nstart)
  | CChain ssl host port issuer names au fs stage code srv toks =>
      let '(h, oc) := heap_of (match ssl with Some s => so_config s | None => None end) in
      let '(h', d) := dial_config h (match ssl with Some s => Some (opts_of s oc) | None => None end)
                                  (match ssl with Some s => fs_of s | None => mkFs None false end)
                                  (join_host_port host port) in
      let cql := let '(s, os) := run au fs in
                 (stage =? 3) && code_matches (outcome_code (final s)) code srv && zll_eqb (tokens os) toks in
      match d with
      | DErr e => (stage =? 1) && (code =? err_code e) && zll_eqb [] toks
      | DPlain => cql
      | DTls a => if tls_handshake_ok h' a (mkCert issuer names) then cql
                  else (stage =? 2) && zll_eqb [] toks
      end
  | CApprove cls allowed out => Bool.eqb (approve cls allowed) out
  | CChallenge u p allowed req out => opt_eqb zlist_eqb (password_challenge u p allowed req) out
  | CDefaults l => zll_eqb K.defaultApprovedAuthenticators l
  end.

Definition run (cs : list case) : list N := mismatches check cs.
