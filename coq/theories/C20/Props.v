(* C20/Props.v -- the proof obligations for property C20 (TLS verification and credential disclosure are
   exactly as documented), and nothing else.  Each is closed by lemmas from Proofs.v / Proofs2.v and
   followed by Print Assumptions.

   Vocabulary (Model.v): a [heap] holds tls.Config objects and x509.CertPool objects; [setup_tls h o f] is
   setupTLSConfig on SslOptions [o] with the file system [f]; [tls_config_for_addr] is the function of that
   name; [dial_config h (Some o) f addr] is the configuration the TLS handshake of one connection to [addr]
   runs with; [run au fs] is the connection handshake of a client with authenticator [au] against a server
   answering [fs].  Spec.v: [documented] is the table of doc.go as literal rows, [join_host_port] is
   net.JoinHostPort, [sasl_plain] RFC 4616, [approved_list] "the caller's list, or the default".
   Statement-level definitions from Proofs.v: [src_cfg h o] the configuration the function starts from (a
   fresh one when Config is nil, else the caller's object); [cfg_column h o] the first column of the table
   for these options (Config is nil | its InsecureSkipVerify); [wf_heap h] no RootCAs pointer dangles;
   [ca_grows_callers_pool h o f] the caller's Config has a RootCAs pool, CaPath is set and readable and holds
   a certificate the pool lacks; [is_none], [is_empty_ca] tests on the result of reading the CA file. *)
From GocqlV Require Import Lib.Base Gen.Consts C20.Model C20.Spec C20.Proofs C20.Proofs2.

(* ---- TLS ------------------------------------------------------------------------------------------ *)

(* The configuration setupTLSConfig returns verifies exactly when the documented table says "verify host":
   every heap, every SslOptions (Config nil or any caller object), every state of the files. *)
Theorem C20_table : forall h o f h' a,
  setup_tls h o f = (h', SOk a) ->
  documented (cfg_column h o) (o_hv o) = Some (verifies h' a).
Proof. exact table_lemma. Qed.
Print Assumptions C20_table.

(* ... and so does the configuration the connection is actually dialled with (after tlsConfigForAddr);
   the table covers every combination (it never answers None). *)
Theorem C20_table_dial : forall h o f addr h' a,
  dial_config h (Some o) f addr = (h', DTls a) ->
  documented (cfg_column h o) (o_hv o) = Some (verifies h' a)
  /\ (forall c hv, documented c hv <> None).
Proof. intros. split; [eapply dial_insecure; eauto | exact table_total]. Qed.
Print Assumptions C20_table_dial.

(* The decision is a function of the three documented inputs alone (Config nil?, its InsecureSkipVerify,
   EnableHostVerification): two dials that agree on them verify alike, whatever else differs -- the other
   fields of the caller's tls.Config (VerifyPeerCertificate, VerifyConnection, ClientAuth, MinVersion,
   NextProtos, GetClientCertificate, ...: [c_other]), ServerName, RootCAs, Certificates, the files, the
   address, the rest of the heap.  And those other fields reach the dialled configuration exactly as the
   caller set them (all unset when Config is nil). *)
Theorem C20_decision_only_documented_inputs : forall h1 o1 f1 addr1 h1' a1 h2 o2 f2 addr2 h2' a2,
  dial_config h1 (Some o1) f1 addr1 = (h1', DTls a1) ->
  dial_config h2 (Some o2) f2 addr2 = (h2', DTls a2) ->
  cfg_column h1 o1 = cfg_column h2 o2 -> o_hv o1 = o_hv o2 ->
  verifies h1' a1 = verifies h2' a2
  /\ c_other (get_cfg h1' a1) = c_other (src_cfg h1 o1)
  /\ (o_config o1 = None -> c_other (get_cfg h1' a1) = 0).
Proof.
  intros h1 o1 f1 addr1 h1' a1 h2 o2 f2 addr2 h2' a2 H1 H2 Hc Hv.
  pose proof (dial_insecure _ _ _ _ _ _ H1) as D1. pose proof (dial_insecure _ _ _ _ _ _ H2) as D2.
  rewrite Hc, Hv, D2 in D1. injection D1 as D1.
  split; [now symmetry|]. split; [eapply dial_other; eauto|].
  intros Hn. rewrite (dial_other _ _ _ _ _ _ H1). unfold src_cfg. now rewrite Hn.
Qed.
Print Assumptions C20_decision_only_documented_inputs.

(* Every tls.Config object that existed before the call -- the caller's own one included -- has the same
   InsecureSkipVerify, ServerName, RootCAs pointer and certificates after setupTLSConfig + tlsConfigForAddr,
   and the returned object is a new one. *)
Theorem C20_caller_config_untouched : forall h o f addr x,
  (x < length (h_cfgs h))%nat ->
  get_cfg (fst (dial_config h (Some o) f addr)) x = get_cfg h x
  /\ (forall h' a, dial_config h (Some o) f addr = (h', DTls a) -> (length (h_cfgs h) <= a)%nat).
Proof.
  intros h o f addr x Hx. split; [now apply dial_cfg_frame|].
  intros h' a H. apply dial_tls_inv in H. destruct H as (h1 & a1 & Hs & Hf).
  pose proof (setup_ok_result _ _ _ _ _ Hs) as (Ha1 & _).
  pose proof (setup_cfgs h o f) as [c Hc]. rewrite Hs in Hc. cbn [fst] in Hc.
  apply for_addr_result in Hf. destruct Hf as (_ & Hsame & Hnew).
  destruct (negb (c_insecure (get_cfg h1 a1)) && is_nil (c_name (get_cfg h1 a1))).
  - rewrite (Hnew eq_refl), Hc, app_length. lia.
  - destruct (Hsame eq_refl) as [_ ->]. lia.
Qed.
Print Assumptions C20_caller_config_untouched.

(* The certificate pools that existed before the call are unchanged as well -- EXCEPT in the situation
   [ca_grows_callers_pool] (the caller's Config has its own RootCAs pool, CaPath is set and readable and
   holds a certificate the pool lacks): Clone() shares the pool and AppendCertsFromPEM adds to it.  The full
   statement is refuted in Refuted.v (known finding caller-rootcas-pool-grows); the second conjunct says
   exactly what happens then. *)
Theorem C20_caller_pools_untouched : forall h o f addr p,
  (p < length (h_pools h))%nat ->
  (~ ca_grows_callers_pool h o f -> get_pool (fst (dial_config h (Some o) f addr)) p = get_pool h p)
  /\ (get_pool (fst (dial_config h (Some o) f addr)) p = get_pool h p
      \/ exists ca certs, o_ca_set o = true /\ o_config o = Some ca /\ c_roots (get_cfg h ca) = Some p
                          /\ f_ca f = Some certs
                          /\ get_pool (fst (dial_config h (Some o) f addr)) p = add_certs (get_pool h p) certs).
Proof.
  intros h o f addr p Hp. unfold get_pool at 1 3 5. rewrite dial_pools. split.
  - intros Hn. now apply setup_pool_frame.
  - now apply setup_pool_effect.
Qed.
Print Assumptions C20_caller_pools_untouched.

(* The name the server certificate is checked against: an explicit ServerName is kept; when verifying without
   one it is the host part of the dialled address host:port (a literal IPv6 address in brackets, which
   crypto/x509 reads as that IP address); when not verifying nothing is set. *)
Theorem C20_server_name : forall h o f host port h' a,
  ~ In 58 port ->
  dial_config h (Some o) f (join_host_port host port) = (h', DTls a) ->
  c_name (get_cfg h' a) =
    (if verifies h' a && is_nil (c_name (src_cfg h o)) then host_in_addr host else c_name (src_cfg h o)).
Proof. exact dial_server_name. Qed.
Print Assumptions C20_server_name.

(* "The host being dialled" starts at the contact point: every HostInfo that hostInfo/addrsToHosts makes from a
   contact point given by name (or as an IP literal) is dialled under that very name -- whatever the lookup
   returned and whether or not GOCQL_HOST_LOOKUP_PREFER_V4 filters the addresses -- and a lookup that returned
   addresses yields at least one host.  With C20_server_name: verification without an explicit ServerName is
   against the configured contact-point name, never against the address it resolved to. *)
Theorem C20_dialled_name_is_contact_point : forall host port literal ips prefer_v4,
  host <> [] ->
  (forall hi, In hi (resolve_contact host port literal ips prefer_v4) ->
     hostname_and_port hi = join_host_port host port)
  /\ (ips <> [] -> resolve_contact host port None ips prefer_v4 <> []).
Proof.
  intros host port literal ips pv4 Hne. split.
  - intros hi Hin. destruct (resolve_contact_hostname _ _ _ _ _ _ Hin) as [Hh Hp].
    unfold hostname_and_port. rewrite Hh, Hp. destruct host; [congruence|]. cbn [is_nil]. apply go_join_is_join.
  - apply resolve_contact_nonempty.
Qed.
Print Assumptions C20_dialled_name_is_contact_point.

(* Unreadable or unparsable files are errors, in the order the code checks them, and nothing else is:
   the result of setupTLSConfig as a function of the files. *)
Theorem C20_file_errors : forall h o f,
  snd (setup_tls h o f) =
    (if o_ca_set o && is_none (f_ca f) then SErr ECaOpen
     else if o_ca_set o && is_empty_ca (f_ca f) then SErr ECaParse
     else if (o_cert_set o || o_key_set o) && negb (f_kp_ok f) then SErr EKeyPair
     else SOk (length (h_cfgs h))).
Proof.
  intros h o f. rewrite setup_result_cases. unfold ca_err, is_none, is_empty_ca.
  destruct (o_ca_set o); cbn [andb]; [|reflexivity].
  destruct (f_ca f) as [[|x certs]|]; reflexivity.
Qed.
Print Assumptions C20_file_errors.

(* A successful result never lacks what the options named: every certificate of the CA file is in the pool
   the result verifies against, and the key pair has been added to its certificates. *)
Theorem C20_files_loaded : forall h o f h' a,
  wf_heap h -> setup_tls h o f = (h', SOk a) ->
  (o_ca_set o = true ->
     exists certs p, f_ca f = Some certs /\ certs <> [] /\ c_roots (get_cfg h' a) = Some p
                     /\ incl certs (get_pool h' p))
  /\ (o_cert_set o || o_key_set o = true ->
        f_kp_ok f = true /\ c_ncerts (get_cfg h' a) = S (c_ncerts (src_cfg h o))).
Proof.
  intros h o f h' a Hwf H. split; intros Hx.
  - eapply setup_ok_ca; eauto.
  - eapply setup_ok_keypair; eauto.
Qed.
Print Assumptions C20_files_loaded.

(* End to end, with crypto/tls + crypto/x509 abstracted as in Model.tls_handshake_ok: where the table says
   "verify host", a handshake succeeds only with a certificate issued by an authority in the configured pool
   and valid for the explicit ServerName or else the dialled host; where it says "do not verify", every
   certificate is accepted. *)
Theorem C20_verified_handshake : forall h o f host port h' a sc,
  ~ In 58 port ->
  dial_config h (Some o) f (join_host_port host port) = (h', DTls a) ->
  (documented (cfg_column h o) (o_hv o) = Some true ->
     tls_handshake_ok h' a sc = true ->
     (exists p, c_roots (get_cfg h' a) = Some p /\ In (sc_issuer sc) (get_pool h' p))
     /\ In (strip_brackets (if is_nil (c_name (src_cfg h o)) then host_in_addr host else c_name (src_cfg h o)))
           (sc_names sc))
  /\ (documented (cfg_column h o) (o_hv o) = Some false -> tls_handshake_ok h' a sc = true).
Proof.
  intros h o f host port h' a sc Hp Hd.
  pose proof (dial_insecure _ _ _ _ _ _ Hd) as Ht.
  pose proof (dial_server_name _ _ _ _ _ _ _ Hp Hd) as Hn.
  split; intros Hdoc; rewrite Hdoc in Ht; injection Ht as Hv; symmetry in Hv.
  - intros Hok. destruct (handshake_verified _ _ _ Hv Hok) as (Hroot & _ & Hin).
    split; [exact Hroot|]. rewrite Hn, Hv in Hin. exact Hin.
  - now apply handshake_insecure.
Qed.
Print Assumptions C20_verified_handshake.

(* ---- credentials ------------------------------------------------------------------------------------ *)

(* PasswordAuthenticator's reply is the SASL PLAIN message with empty authzid, byte for byte, for every user
   name and password (empty, non-ASCII, any bytes); a server reading it per RFC 4616 recovers exactly the
   two strings whenever the user name contains no NUL (the RFC forbids NUL in both). *)
Theorem C20_plain_token : forall u p allowed cls tok,
  password_challenge u p allowed cls = Some tok ->
  tok = 0 :: u ++ 0 :: p /\ tok = sasl_plain [] u p /\ (no_nul u -> plain_decode tok = Some ([], u, p)).
Proof.
  intros u p allowed cls tok H. apply password_token in H. subst tok.
  split; [reflexivity|]. split; [reflexivity|]. apply plain_decode_token.
Qed.
Print Assumptions C20_plain_token.

(* Every run of the handshake, against any server behaviour [fs]: an AUTH_RESPONSE of a PasswordAuthenticator
   carries the PLAIN token, was preceded by SUPPORTED and an AUTHENTICATE whose class is in the approved list
   (the caller's, or the default from the source when that is empty), and there is at most one. *)
Theorem C20_token_only_if_approved : forall u p allowed fs tok,
  In (OAuthResponse tok) (snd (run (APassword u p allowed) fs)) ->
  tok = sasl_plain [] u p
  /\ (exists cls rest, fs = FSupported :: FAuthenticate cls :: rest /\ In cls (approved_list allowed))
  /\ tokens (snd (run (APassword u p allowed) fs)) = [tok].
Proof.
  intros u p allowed fs tok Hin.
  destruct (run_password_outs u p allowed fs) as [E|[E|(cls & rest & Hfs & Ha & E)]]; rewrite E in Hin |- *.
  - destruct Hin as [H|[]]; discriminate.
  - destruct Hin as [H|[H|[]]]; discriminate.
  - destruct Hin as [H|[H|[H|[]]]]; try discriminate. injection H as <-.
    split; [reflexivity|]. split; [|reflexivity].
    exists cls, rest. split; [exact Hfs|]. now apply approve_spec.
Qed.
Print Assumptions C20_token_only_if_approved.

(* A class outside the approved list gets an error and no credentials, whatever the server sends next. *)
Theorem C20_unapproved_class_gets_nothing : forall u p allowed cls rest,
  ~ In cls (approved_list allowed) ->
  run (APassword u p allowed) (FSupported :: FAuthenticate cls :: rest)
  = (Done (Failed EUnapproved), [OOptions; OStartup]).
Proof.
  intros u p allowed cls rest Hn. apply run_password_unapproved.
  destruct (approve cls allowed) eqn:E; [|reflexivity]. apply approve_spec in E. contradiction.
Qed.
Print Assumptions C20_unapproved_class_gets_nothing.

(* A client without an authenticator never sends an AUTH_RESPONSE, answers a demand for authentication with
   the "authentication required" error, and is established only by [SUPPORTED; READY]. *)
Theorem C20_no_auth_no_session : forall fs,
  (forall tok, ~ In (OAuthResponse tok) (snd (run ANone fs)))
  /\ (forall cls rest, fs = FSupported :: FAuthenticate cls :: rest ->
        run ANone fs = (Done (Failed EAuthRequired), [OOptions; OStartup]))
  /\ (final (fst (run ANone fs)) = Established -> exists rest, fs = FSupported :: FReady :: rest).
Proof.
  intros fs. split; [|split].
  - intros tok Hin. destruct (run_none_outs fs) as [E|E]; rewrite E in Hin.
    + destruct Hin as [H|[]]; discriminate.
    + destruct Hin as [H|[H|[]]]; discriminate.
  - intros cls rest ->. apply run_none_authenticate.
  - intros H. destruct (run_established ANone fs H) as [Hr|[Hne _]]; [exact Hr | congruence].
Qed.
Print Assumptions C20_no_auth_no_session.

(* For every authenticator (none, password, any user-supplied one): a connection is established only by
   [SUPPORTED; READY], or -- once the server has demanded authentication -- by the server's AUTH_SUCCESS after
   nothing but AUTH_CHALLENGE frames, each answered by one AUTH_RESPONSE; never without an authenticator, and
   with PasswordAuthenticator only for an approved class and without any challenge round. *)
Theorem C20_session_requires_auth_success : forall au fs,
  final (fst (run au fs)) = Established ->
  (exists rest, fs = FSupported :: FReady :: rest)
  \/ (au <> ANone /\ exists cls chs d rest,
        fs = FSupported :: FAuthenticate cls :: map FAuthChallenge chs ++ FAuthSuccess d :: rest
        /\ length (tokens (snd (run au fs))) = S (length chs)
        /\ (forall u p al, au = APassword u p al -> chs = [] /\ In cls (approved_list al))).
Proof.
  intros au fs H. destruct (run_established au fs H) as [Hr|(Hne & cls & chs & d & rest & Hfs & Hlen & Hpw)].
  - now left.
  - right. split; [exact Hne|]. exists cls, chs, d, rest. split; [exact Hfs|]. split; [exact Hlen|].
    intros u p al Heq. destruct (Hpw u p al Heq) as [Hc Ha]. split; [exact Hc | now apply approve_spec].
Qed.
Print Assumptions C20_session_requires_auth_success.

(* ---- non-vacuity: the hypotheses above are satisfiable by concrete, non-trivial values -------------- *)
Definition ex_heap : heap := mkHeap [mkCfg true [] (Some 0%nat) 1 5] [[7]].
Definition ex_opts : sslopts := mkOpts (Some 0%nat) true true true true.
Definition ex_fs : fsenv := mkFs (Some [7; 8]) true.
Definition ex_addr : list Z := join_host_port [102; 100; 48; 48; 58; 58; 49] [57; 48; 52; 50].   (* "[fd00::1]:9042" *)

Example C20_nonvacuous_tls :
  wf_heap ex_heap
  /\ (exists h' a, dial_config ex_heap (Some ex_opts) ex_fs ex_addr = (h', DTls a)
                   /\ verifies h' a = true
                   /\ c_other (get_cfg h' a) = 5
                   /\ c_name (get_cfg h' a) = [91; 102; 100; 48; 48; 58; 58; 49; 93]
                   /\ tls_handshake_ok h' a (mkCert 8 [[102; 100; 48; 48; 58; 58; 49]]) = true
                   /\ tls_handshake_ok h' a (mkCert 9 [[102; 100; 48; 48; 58; 58; 49]]) = false)
  /\ documented (cfg_column ex_heap ex_opts) (o_hv ex_opts) = Some true
  /\ ca_grows_callers_pool ex_heap ex_opts ex_fs
  /\ ~ ca_grows_callers_pool ex_heap ex_opts (mkFs (Some [7]) true)
  /\ snd (setup_tls ex_heap ex_opts (mkFs None true)) = SErr ECaOpen
  /\ snd (setup_tls ex_heap ex_opts (mkFs (Some [7]) false)) = SErr EKeyPair.
Proof.
  split.
  { intros a p. destruct a as [|[|a]]; cbn; intros H; inversion H; subst; cbn; lia. }
  split.
  { eexists; eexists. split; [vm_compute; reflexivity|]. repeat split; vm_compute; reflexivity. }
  split; [vm_compute; reflexivity|].
  split.
  { split; [reflexivity|]. exists 0%nat, 0%nat, 7, [8]. repeat split; vm_compute; congruence. }
  split.
  { intros [_ (ca & p & x & certs & Hc & Hr & Hf & Hneq)]. cbn in Hc, Hf. inversion Hc; subst ca.
    cbn in Hr. inversion Hr; subst p. inversion Hf; subst x certs. apply Hneq. reflexivity. }
  split; vm_compute; reflexivity.
Qed.

(* "localhost" looked up as [127.0.0.1 (v4); ::1], GOCQL_HOST_LOOKUP_PREFER_V4 on: one host, 127.0.0.1, dialled as localhost:9042 *)
Example C20_nonvacuous_contact_point :
  let lh := [108; 111; 99; 97; 108; 104; 111; 115; 116] in
  map (fun hi => (hi_addr hi, hostname_and_port hi))
      (resolve_contact lh [57; 48; 52; 50] None [([49; 50; 55; 46; 48; 46; 48; 46; 49], true); ([58; 58; 49], false)] true)
  = [([49; 50; 55; 46; 48; 46; 48; 46; 49], lh ++ [58; 57; 48; 52; 50])].
Proof. vm_compute. reflexivity. Qed.

Example C20_nonvacuous_auth :
  let cls := nth 0 K.defaultApprovedAuthenticators [] in
  let au := APassword [99; 97; 115; 115] [208; 191; 0; 1] [] in
  In cls (approved_list [])
  /\ run au [FSupported; FAuthenticate cls; FAuthSuccess []]
     = (Done Established, [OOptions; OStartup; OAuthResponse [0; 99; 97; 115; 115; 0; 208; 191; 0; 1]])
  /\ ~ In [120] (approved_list [])
  /\ final (fst (run (AScript [RResp [1] true; RResp [2] true] true)
                     [FSupported; FAuthenticate [120]; FAuthChallenge [5]; FAuthSuccess []])) = Established
  /\ no_nul [99; 97; 115; 115].
Proof.
  cbv zeta. split; [vm_compute; now left|]. split; [vm_compute; reflexivity|].
  split.
  { intros H. apply approve_spec in H. vm_compute in H. discriminate. }
  split; [vm_compute; reflexivity|].
  unfold no_nul. cbn. intuition discriminate.
Qed.
