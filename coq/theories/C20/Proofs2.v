(* C20/Proofs2.v -- lemmas about the authentication part of the model (part 2). *)
From GocqlV Require Import Lib.Base Gen.Consts C20.Model C20.Spec C20.Proofs.

(* ---- approve -------------------------------------------------------------------------------------- *)
Lemma approve_spec cls allowed : approve cls allowed = true <-> In cls (approved_list allowed).
Proof.
  unfold approve, approved_list.
  set (l := match allowed with [] => K.defaultApprovedAuthenticators | _ :: _ => allowed end).
  rewrite existsb_exists. split.
  - intros (x & Hx & E). apply zlist_eqb_eq in E. now subst.
  - intros H. exists cls. split; [exact H | now apply zlist_eqb_eq].
Qed.

(* ---- the token -------------------------------------------------------------------------------------- *)
Lemma upd_app_mid {A} (pre : list A) m rest b : upd (pre ++ m :: rest) (length pre) b = pre ++ b :: rest.
Proof. induction pre as [|x pre IH]; simpl; [reflexivity | now rewrite IH]. Qed.

Lemma copy_at_spec (src : list Z) : forall pre mid post,
  length mid = length src -> copy_at (pre ++ mid ++ post) (length pre) src = pre ++ src ++ post.
Proof.
  induction src as [|b src IH]; intros pre mid post Hl.
  - destruct mid; [reflexivity | discriminate].
  - destruct mid as [|m mid]; [discriminate|]. cbn [copy_at app].
    rewrite upd_app_mid.
    replace (pre ++ b :: mid ++ post) with ((pre ++ [b]) ++ mid ++ post) by (rewrite <- app_assoc; reflexivity).
    replace (S (length pre)) with (length (pre ++ [b])) by (rewrite app_length; simpl; lia).
    rewrite IH by (simpl in Hl; lia). rewrite <- app_assoc. reflexivity.
Qed.

Lemma repeat_split (n m : nat) : repeat 0 (2 + n + m) = [0] ++ repeat 0 n ++ [0] ++ repeat 0 m.
Proof.
  replace (2 + n + m)%nat with (1 + (n + (1 + m)))%nat by lia.
  rewrite repeat_app. cbn [repeat app]. f_equal. rewrite repeat_app. reflexivity.
Qed.

Lemma token_buffer user pass :
  copy_at (upd (copy_at (upd (repeat 0 (2 + length user + length pass)) 0 0) 1 user) (length user + 1) 0)
          (2 + length user) pass
  = [0] ++ user ++ [0] ++ pass.
Proof.
  rewrite repeat_split.
  change (upd ([0] ++ repeat 0 (length user) ++ [0] ++ repeat 0 (length pass)) 0 0)
    with ([0] ++ repeat 0 (length user) ++ ([0] ++ repeat 0 (length pass))).
  (* copy(resp[1:], user) *)
  change 1%nat with (length [0]) at 1.
  rewrite copy_at_spec by apply repeat_length.
  (* resp[len(user)+1] = 0 *)
  replace ([0] ++ user ++ [0] ++ repeat 0 (length pass)) with (([0] ++ user) ++ 0 :: repeat 0 (length pass))
    by (rewrite <- app_assoc; reflexivity).
  replace (length user + 1)%nat with (length ([0] ++ user)) by (rewrite app_length; simpl; lia).
  rewrite upd_app_mid.
  (* copy(resp[2+len(user):], pass) *)
  replace (([0] ++ user) ++ 0 :: repeat 0 (length pass)) with ((([0] ++ user) ++ [0]) ++ repeat 0 (length pass) ++ [])
    by (rewrite app_nil_r, <- !app_assoc; reflexivity).
  replace (2 + length user)%nat with (length (([0] ++ user) ++ [0])) by (rewrite !app_length; simpl; lia).
  rewrite copy_at_spec by apply repeat_length.
  rewrite app_nil_r, <- !app_assoc. reflexivity.
Qed.

Lemma password_token user pass allowed req tok :
  password_challenge user pass allowed req = Some tok -> tok = sasl_plain [] user pass.
Proof.
  unfold password_challenge. destruct (negb (approve req allowed)); [discriminate|].
  intros H. injection H as H. rewrite <- H. unfold sasl_plain. rewrite app_nil_l. apply token_buffer.
Qed.

Lemma password_challenge_some user pass allowed req :
  (exists tok, password_challenge user pass allowed req = Some tok) <-> approve req allowed = true.
Proof.
  unfold password_challenge. destruct (approve req allowed); cbn [negb]; split; intros H; try discriminate; eauto.
  destruct H; discriminate.
Qed.

Lemma split_nul_app u rest : no_nul u -> split_nul (u ++ 0 :: rest) = Some (u, rest).
Proof.
  unfold no_nul. induction u as [|b u IH]; intros Hn; cbn [app split_nul].
  - reflexivity.
  - destruct (b =? 0) eqn:E; [apply Z.eqb_eq in E; exfalso; apply Hn; now left|].
    rewrite IH by (intros H; apply Hn; now right). reflexivity.
Qed.

Lemma plain_decode_token u p : no_nul u -> plain_decode (sasl_plain [] u p) = Some ([], u, p).
Proof.
  intros Hn. unfold plain_decode, sasl_plain. cbn [app split_nul Z.eqb].
  rewrite split_nul_app by exact Hn. reflexivity.
Qed.

(* ---- the handshake machine ----------------------------------------------------------------------- *)
Lemma run_from_done au r fs : run_from au (Done r) fs = (Done r, []).
Proof. induction fs as [|f fs IH]; cbn [run_from step]; [reflexivity | now rewrite IH]. Qed.

Lemma run_from_cons au s f fs :
  run_from au s (f :: fs) = (fst (run_from au (fst (step au s f)) fs), snd (step au s f) ++ snd (run_from au (fst (step au s f)) fs)).
Proof.
  cbn [run_from]. destruct (step au s f) as [s1 o1]. cbn [fst snd].
  destruct (run_from au s1 fs) as [s2 o2]. reflexivity.
Qed.

Lemma run_eq au fs :
  run au fs = (fst (run_from au WaitSupported fs), OOptions :: snd (run_from au WaitSupported fs)).
Proof. unfold run. destruct (run_from au WaitSupported fs); reflexivity. Qed.

(* a nil challenger never answers again: no output after it *)
Lemma run_from_nil_chal au fs : snd (run_from au (WaitAuth ChNil) fs) = [].
Proof.
  destruct fs as [|f fs]; [reflexivity|]. rewrite run_from_cons. cbn [snd].
  destruct f; cbn [step next_challenge fst snd]; rewrite run_from_done; reflexivity.
Qed.

Definition is_token (o : out) : bool := match o with OAuthResponse _ => true | _ => false end.

(* every output of a password-authenticator run *)
Lemma run_password_outs u p al fs :
  snd (run (APassword u p al) fs) = [OOptions]
  \/ snd (run (APassword u p al) fs) = [OOptions; OStartup]
  \/ (exists cls rest, fs = FSupported :: FAuthenticate cls :: rest /\ approve cls al = true
      /\ snd (run (APassword u p al) fs) = [OOptions; OStartup; OAuthResponse (sasl_plain [] u p)]).
Proof.
  rewrite run_eq. cbn [snd]. destruct fs as [|f1 fs]; [left; reflexivity|].
  rewrite run_from_cons.
  destruct f1; cbn [step fst snd app]; try (rewrite run_from_done; left; reflexivity).
  destruct fs as [|f2 fs]; [right; left; reflexivity|].
  rewrite run_from_cons.
  destruct f2; cbn [step fst snd app]; try (rewrite run_from_done; right; left; reflexivity).
  unfold first_challenge. destruct (password_challenge u p al cls) as [tok|] eqn:Hc; cbn [fst snd app].
  - right; right. exists cls, fs. split; [reflexivity|]. split.
    + apply (proj1 (password_challenge_some u p al cls)). eauto.
    + rewrite run_from_nil_chal. apply password_token in Hc. now subst.
  - rewrite run_from_done. right; left; reflexivity.
Qed.

(* outcome of a password run against an unapproved class *)
Lemma run_password_unapproved u p al cls rest :
  approve cls al = false ->
  run (APassword u p al) (FSupported :: FAuthenticate cls :: rest) = (Done (Failed EUnapproved), [OOptions; OStartup]).
Proof.
  intros Ha. rewrite run_eq. rewrite run_from_cons. cbn [step fst snd app]. rewrite run_from_cons.
  cbn [step fst snd]. unfold first_challenge, password_challenge. rewrite Ha. cbn [negb fst snd app].
  rewrite run_from_done. reflexivity.
Qed.

(* no authenticator *)
Lemma run_none_outs fs :
  snd (run ANone fs) = [OOptions] \/ snd (run ANone fs) = [OOptions; OStartup].
Proof.
  rewrite run_eq. cbn [snd]. destruct fs as [|f1 fs]; [left; reflexivity|].
  rewrite run_from_cons.
  destruct f1; cbn [step fst snd app]; try (rewrite run_from_done; left; reflexivity).
  destruct fs as [|f2 fs]; [right; reflexivity|].
  rewrite run_from_cons.
  destruct f2; cbn [step fst snd app]; rewrite run_from_done; right; reflexivity.
Qed.

Lemma run_none_authenticate cls rest :
  run ANone (FSupported :: FAuthenticate cls :: rest) = (Done (Failed EAuthRequired), [OOptions; OStartup]).
Proof.
  rewrite run_eq. rewrite run_from_cons. cbn [step fst snd app]. rewrite run_from_cons.
  cbn [step fst snd app]. rewrite run_from_done. reflexivity.
Qed.

(* the authentication loop: it ends in an established connection only through AUTH_SUCCESS, after
   nothing but AUTH_CHALLENGE frames, each of which was answered by one AUTH_RESPONSE *)
Lemma auth_loop_established au : forall fs c,
  final (fst (run_from au (WaitAuth c) fs)) = Established ->
  exists chs d rest, fs = map FAuthChallenge chs ++ FAuthSuccess d :: rest
                     /\ length (tokens (snd (run_from au (WaitAuth c) fs))) = length chs.
Proof.
  induction fs as [|f fs IH]; intros c H; [discriminate|].
  rewrite run_from_cons in H |- *. cbn [fst snd] in *.
  destruct f; cbn [step fst snd] in *; try (rewrite run_from_done in H; discriminate).
  - (* AUTH_CHALLENGE *)
    destruct (next_challenge c d) as [e| |resp c'] eqn:Hn; cbn [fst snd] in *;
      try (rewrite run_from_done in H; discriminate).
    destruct (IH _ H) as (chs & d' & rest & Hfs & Hlen).
    exists (d :: chs), d', rest. split; [cbn [map app]; now rewrite Hfs|].
    cbn [app tokens flat_map length]. unfold tokens in Hlen. now rewrite Hlen.
  - (* AUTH_SUCCESS *)
    exists [], d, fs. split; [reflexivity|].
    destruct c as [|rs ok]; cbn [fst snd app]; rewrite run_from_done; reflexivity.
Qed.

Lemma run_established au fs :
  final (fst (run au fs)) = Established ->
  (exists rest, fs = FSupported :: FReady :: rest)
  \/ (au <> ANone /\ exists cls chs d rest,
        fs = FSupported :: FAuthenticate cls :: map FAuthChallenge chs ++ FAuthSuccess d :: rest
        /\ length (tokens (snd (run au fs))) = S (length chs)
        /\ (forall u p al, au = APassword u p al -> chs = [] /\ approve cls al = true)).
Proof.
  rewrite run_eq. cbn [fst snd]. destruct fs as [|f1 fs]; [discriminate|].
  rewrite run_from_cons.
  destruct f1; cbn [step fst snd app]; try (rewrite run_from_done; discriminate).
  destruct fs as [|f2 fs]; [discriminate|].
  rewrite !run_from_cons.
  destruct f2; cbn [step fst snd app]; try (rewrite run_from_done; discriminate).
  - (* READY *) intros _. left. eauto.
  - (* AUTHENTICATE *)
    destruct au as [|u p al|rs ok]; cbn [fst snd]; [rewrite run_from_done; discriminate| |].
    + unfold first_challenge. destruct (password_challenge u p al cls) as [tok|] eqn:Hc; cbn [fst snd];
        [|rewrite run_from_done; discriminate].
      intros H. right. split; [discriminate|].
      destruct (auth_loop_established _ _ _ H) as (chs & d & rest & Hfs & Hlen).
      exists cls, chs, d, rest. split; [now rewrite Hfs|]. split.
      * cbn [app tokens flat_map length]. f_equal. exact Hlen.
      * intros u' p' al' Heq. inversion Heq; subst u' p' al'. split.
        -- rewrite run_from_nil_chal in Hlen. destruct chs; [reflexivity | discriminate].
        -- apply (proj1 (password_challenge_some u p al cls)). eauto.
    + unfold first_challenge. destruct (script_challenge rs ok) as [e| |resp c'] eqn:Hc; cbn [fst snd];
        try (rewrite run_from_done; discriminate).
      intros H. right. split; [discriminate|].
      destruct (auth_loop_established _ _ _ H) as (chs & d & rest & Hfs & Hlen).
      exists cls, chs, d, rest. split; [now rewrite Hfs|]. split.
      * cbn [app tokens flat_map length]. f_equal. exact Hlen.
      * intros u' p' al' Heq. discriminate.
Qed.
