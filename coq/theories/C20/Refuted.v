(* C20/Refuted.v -- full-strength statements the faithful model (= the real code) violates, with witnesses. *)
From GocqlV Require Import Lib.Base Gen.Consts C20.Model C20.Spec C20.Proofs C20.Proofs2.

(* Known finding caller-rootcas-pool-grows.  Full statement: "setupTLSConfig leaves every certificate pool
   that existed before the call as it was" (the trust anchors of the caller's own tls.Config are a
   verification setting).  Witness: the caller's Config has RootCAs = a pool holding authority 7, CaPath
   names a readable file holding authority 8: after the call the caller's pool holds 7 and 8, because
   tls.Config.Clone() copies the RootCAs *pointer* and AppendCertsFromPEM adds to the shared pool. *)
Theorem C20_caller_pools_untouched_refuted :
  exists h o f p, wf_heap h /\ (p < length (h_pools h))%nat
                  /\ get_pool (fst (setup_tls h o f)) p <> get_pool h p.
Proof.
  exists (mkHeap [mkCfg false [] (Some 0%nat) 0 0] [[7]]), (mkOpts (Some 0%nat) false true false false),
         (mkFs (Some [8]) false), 0%nat.
  split.
  { intros a p. destruct a as [|[|a]]; cbn; intros H; inversion H; subst; cbn; lia. }
  split; [cbn; lia|]. vm_compute. discriminate.
Qed.

(* ... and it happens even when the call itself then fails (the key pair does not load): the caller's
   pool has already been changed. *)
Lemma caller_pool_grows_even_on_error :
  exists h o f, snd (setup_tls h o f) = SErr EKeyPair /\ get_pool (fst (setup_tls h o f)) 0%nat <> get_pool h 0%nat.
Proof.
  exists (mkHeap [mkCfg false [] (Some 0%nat) 0 0] [[7]]), (mkOpts (Some 0%nat) false true true true),
         (mkFs (Some [8]) false).
  split; [vm_compute; reflexivity | vm_compute; discriminate].
Qed.

(* Not a C20 statement, recorded because the model reproduces it (DESIGN section 7, F-C05-7): an
   AUTH_CHALLENGE sent to a client using PasswordAuthenticator dereferences the nil challenger.  No session
   results and nothing further is sent, so the C20 theorems hold through it. *)
Lemma auth_challenge_to_password_authenticator_crashes :
  let cls := nth 0 K.defaultApprovedAuthenticators [] in
  final (fst (run (APassword [117] [112] []) [FSupported; FAuthenticate cls; FAuthChallenge [1]])) = Crashed.
Proof. vm_compute. reflexivity. Qed.

(* SASL PLAIN itself is ambiguous when a user name contains NUL (which RFC 4616 forbids): the excluding
   hypothesis [no_nul u] of C20_plain_token is needed. *)
Lemma plain_decode_needs_no_nul :
  plain_decode (sasl_plain [] [97; 0; 98] [99]) = Some ([], [97], [98; 0; 99]).
Proof. vm_compute. reflexivity. Qed.
