(* C20/Proofs.v -- lemmas about the TLS configuration part of the model (part 1). *)
From GocqlV Require Import Lib.Base Gen.Consts C20.Model C20.Spec.

(* ---- lists ------------------------------------------------------------------------------------ *)
Lemma upd_app_last {A} (l : list A) (c c' : A) : upd (l ++ [c]) (length l) c' = l ++ [c'].
Proof. induction l as [|x l IH]; simpl; [reflexivity | now rewrite IH]. Qed.

Lemma nth_upd_same {A} (l : list A) i v d : (i < length l)%nat -> nth i (upd l i v) d = v.
Proof.
  revert i; induction l as [|x l IH]; intros [|i] H; simpl in *; try lia; [reflexivity|].
  apply IH; lia.
Qed.

Lemma nth_upd_other {A} (l : list A) i j v d : i <> j -> nth j (upd l i v) d = nth j l d.
Proof.
  revert i j; induction l as [|x l IH]; intros [|i] [|j] H; simpl; try reflexivity; try congruence.
  apply IH; congruence.
Qed.

Lemma nth_upd_oob {A} (l : list A) i v : (length l <= i)%nat -> upd l i v = l.
Proof.
  revert i; induction l as [|x l IH]; intros [|i] H; simpl in *; try reflexivity; try lia.
  f_equal; apply IH; lia.
Qed.

Lemma nth_app_old {A} (l : list A) c x d : (x < length l)%nat -> nth x (l ++ [c]) d = nth x l d.
Proof. intros H. now rewrite app_nth1. Qed.

(* ---- records ---------------------------------------------------------------------------------- *)
Lemma with_roots_id c : with_roots c (c_roots c) = c.
Proof. now destruct c. Qed.
Lemma with_insecure_id c : with_insecure c (c_insecure c) = c.
Proof. now destruct c. Qed.

(* ---- the flattened form of setup_tls ------------------------------------------------------------ *)
(* the configuration the function starts from: a fresh one, or a copy of the caller's *)
Definition src_cfg (h : heap) (o : sslopts) : tlscfg :=
  match o_config o with
  | None => mkCfg (negb (o_hv o)) [] None 0 0
  | Some ca => get_cfg h ca
  end.

Definition ca_err (o : sslopts) (f : fsenv) : option tlserr :=
  if o_ca_set o then
    match f_ca f with
    | None => Some ECaOpen
    | Some [] => Some ECaParse
    | Some _ => None
    end
  else None.

(* the pools after the CA block, and the RootCAs field of the working configuration *)
Definition ca_pools (pools : list (list Z)) (roots : option nat) (o : sslopts) (f : fsenv) : list (list Z) * option nat :=
  if o_ca_set o then
    match roots with
    | Some p => (match f_ca f with
                 | Some (x :: certs) => upd pools p (add_certs (nth p pools []) (x :: certs))
                 | _ => pools
                 end, Some p)
    | None => (pools ++ [match f_ca f with
                         | Some (x :: certs) => add_certs [] (x :: certs)
                         | _ => []
                         end], Some (length pools))
    end
  else (pools, roots).

Definition work_cfg (h : heap) (o : sslopts) (f : fsenv) : tlscfg :=
  let src := src_cfg h o in
  with_roots (with_insecure src (c_insecure src && negb (o_hv o))) (snd (ca_pools (h_pools h) (c_roots src) o f)).

Definition setup_flat (h : heap) (o : sslopts) (f : fsenv) : heap * sres :=
  let c2 := work_cfg h o f in
  let pools := fst (ca_pools (h_pools h) (c_roots (src_cfg h o)) o f) in
  let a := length (h_cfgs h) in
  match ca_err o f with
  | Some e => (mkHeap (h_cfgs h ++ [c2]) pools, SErr e)
  | None =>
      if o_cert_set o || o_key_set o then
        if f_kp_ok f then (mkHeap (h_cfgs h ++ [with_ncerts c2 (S (c_ncerts c2))]) pools, SOk a)
        else (mkHeap (h_cfgs h ++ [c2]) pools, SErr EKeyPair)
      else (mkHeap (h_cfgs h ++ [c2]) pools, SOk a)
  end.

Lemma get_cfg_last l c pools : get_cfg (mkHeap (l ++ [c]) pools) (length l) = c.
Proof. unfold get_cfg; cbn [h_cfgs]. apply nth_middle. Qed.

Lemma st_config_flat h o :
  st_config h o = (mkHeap (h_cfgs h ++ [src_cfg h o]) (h_pools h), length (h_cfgs h)).
Proof. unfold st_config, src_cfg, alloc_cfg. destruct (o_config o); reflexivity. Qed.

Lemma st_hv_flat l c pools o :
  st_hv (mkHeap (l ++ [c]) pools) (length l) o
  = mkHeap (l ++ [with_insecure c (c_insecure c && negb (o_hv o))]) pools.
Proof.
  unfold st_hv. rewrite get_cfg_last.
  destruct (c_insecure c) eqn:Hi, (o_hv o); cbn [andb negb].
  - unfold set_cfg; cbn [h_cfgs h_pools]. now rewrite upd_app_last.
  - now rewrite <- Hi, with_insecure_id.
  - now rewrite <- Hi, with_insecure_id.
  - now rewrite <- Hi, with_insecure_id.
Qed.

Lemma st_ca_flat l c pools o f :
  st_ca (mkHeap (l ++ [c]) pools) (length l) o f
  = (mkHeap (l ++ [with_roots c (snd (ca_pools pools (c_roots c) o f))]) (fst (ca_pools pools (c_roots c) o f)),
     ca_err o f).
Proof.
  unfold st_ca, ca_pools, ca_err. destruct (o_ca_set o); cbn [fst snd].
  2:{ now rewrite with_roots_id. }
  unfold st_pool. rewrite get_cfg_last.
  destruct (c_roots c) as [p|] eqn:Hr.
  - rewrite <- Hr, with_roots_id.
    destruct (f_ca f) as [[|x certs]|]; cbn [fst snd]; try reflexivity.
  - unfold alloc_pool; cbn [h_cfgs h_pools]. rewrite get_cfg_last.
    unfold set_cfg; cbn [h_cfgs h_pools]. rewrite upd_app_last.
    destruct (f_ca f) as [[|x certs]|]; cbn [fst snd]; try reflexivity.
    unfold set_pool, get_pool; cbn [h_cfgs h_pools]. rewrite nth_middle, upd_app_last. reflexivity.
Qed.

Lemma setup_tls_flat h o f : setup_tls h o f = setup_flat h o f.
Proof.
  unfold setup_tls, setup_flat, work_cfg. rewrite st_config_flat, st_hv_flat, st_ca_flat.
  set (src := src_cfg h o).
  assert (Hr : c_roots (with_insecure src (c_insecure src && negb (o_hv o))) = c_roots src) by now destruct src.
  rewrite Hr.
  destruct (ca_err o f); [reflexivity|].
  unfold st_kp. rewrite get_cfg_last.
  destruct (o_cert_set o || o_key_set o); [|reflexivity].
  destruct (f_kp_ok f); [|reflexivity].
  unfold set_cfg; cbn [h_cfgs h_pools]. now rewrite upd_app_last.
Qed.

(* ---- consequences ------------------------------------------------------------------------------ *)
Lemma setup_cfgs h o f : exists c, h_cfgs (fst (setup_tls h o f)) = h_cfgs h ++ [c].
Proof.
  rewrite setup_tls_flat. unfold setup_flat.
  destruct (ca_err o f); [eexists; reflexivity|].
  destruct (o_cert_set o || o_key_set o); [|eexists; reflexivity].
  destruct (f_kp_ok f); eexists; reflexivity.
Qed.

Lemma setup_cfg_frame h o f a :
  (a < length (h_cfgs h))%nat -> get_cfg (fst (setup_tls h o f)) a = get_cfg h a.
Proof.
  intros Ha. destruct (setup_cfgs h o f) as [c Hc]. unfold get_cfg. rewrite Hc. now apply nth_app_old.
Qed.

Lemma setup_pools h o f :
  h_pools (fst (setup_tls h o f)) = fst (ca_pools (h_pools h) (c_roots (src_cfg h o)) o f).
Proof.
  rewrite setup_tls_flat. unfold setup_flat.
  destruct (ca_err o f); [reflexivity|].
  destruct (o_cert_set o || o_key_set o); [|reflexivity].
  destruct (f_kp_ok f); reflexivity.
Qed.

(* the result configuration of a successful call *)
Lemma setup_ok_result h o f h' a :
  setup_tls h o f = (h', SOk a) ->
  a = length (h_cfgs h) /\ ca_err o f = None
  /\ get_cfg h' a = (if o_cert_set o || o_key_set o
                     then with_ncerts (work_cfg h o f) (S (c_ncerts (work_cfg h o f)))
                     else work_cfg h o f)
  /\ (o_cert_set o || o_key_set o = true -> f_kp_ok f = true).
Proof.
  rewrite setup_tls_flat. unfold setup_flat.
  destruct (ca_err o f); [discriminate|].
  destruct (o_cert_set o || o_key_set o).
  - destruct (f_kp_ok f); [|discriminate]. intros H; inversion H; subst.
    repeat split; auto. apply get_cfg_last.
  - intros H; inversion H; subst. repeat split; auto; try discriminate. apply get_cfg_last.
Qed.

Lemma setup_err h o f h' e :
  setup_tls h o f = (h', SErr e) ->
  ca_err o f = Some e \/ (ca_err o f = None /\ e = EKeyPair /\ o_cert_set o || o_key_set o = true /\ f_kp_ok f = false).
Proof.
  rewrite setup_tls_flat. unfold setup_flat.
  destruct (ca_err o f) as [e'|]; [intros H; inversion H; auto|].
  destruct (o_cert_set o || o_key_set o); [|discriminate].
  destruct (f_kp_ok f); [discriminate|]. intros H; inversion H; subst. right; auto.
Qed.

Lemma work_cfg_insecure h o f :
  c_insecure (work_cfg h o f) = c_insecure (src_cfg h o) && negb (o_hv o).
Proof. unfold work_cfg. now destruct (src_cfg h o). Qed.

Lemma work_cfg_name h o f : c_name (work_cfg h o f) = c_name (src_cfg h o).
Proof. unfold work_cfg. now destruct (src_cfg h o). Qed.

Lemma work_cfg_ncerts h o f : c_ncerts (work_cfg h o f) = c_ncerts (src_cfg h o).
Proof. unfold work_cfg. now destruct (src_cfg h o). Qed.

Lemma work_cfg_roots h o f :
  c_roots (work_cfg h o f) = snd (ca_pools (h_pools h) (c_roots (src_cfg h o)) o f).
Proof. unfold work_cfg. now destruct (src_cfg h o). Qed.

(* ---- the documented table ------------------------------------------------------------------------ *)
Definition cfg_column (h : heap) (o : sslopts) : cfgcol :=
  match o_config o with
  | None => CfgNil
  | Some ca => CfgSkip (c_insecure (get_cfg h ca))
  end.

Lemma table_total : forall c hv, documented c hv <> None.
Proof. intros [|[|]] [|]; vm_compute; discriminate. Qed.

Lemma table_lemma h o f h' a :
  setup_tls h o f = (h', SOk a) -> documented (cfg_column h o) (o_hv o) = Some (verifies h' a).
Proof.
  intros H. apply setup_ok_result in H. destruct H as (_ & _ & Hc & _).
  unfold verifies. rewrite Hc.
  assert (Hi : c_insecure (if o_cert_set o || o_key_set o
                           then with_ncerts (work_cfg h o f) (S (c_ncerts (work_cfg h o f)))
                           else work_cfg h o f) = c_insecure (work_cfg h o f))
    by (destruct (o_cert_set o || o_key_set o); reflexivity).
  rewrite Hi, work_cfg_insecure. unfold cfg_column, src_cfg.
  destruct (o_config o) as [ca|]; cbn [c_insecure].
  - destruct (c_insecure (get_cfg h ca)), (o_hv o); reflexivity.
  - destruct (o_hv o); reflexivity.
Qed.

(* ---- pools: what the call does to pools that existed before ------------------------------------ *)
(* the one situation in which a pool that existed before the call is written to: the caller's Config has
   its own RootCAs pool, CaPath is set, the file is readable and holds a certificate the pool lacks *)
Definition ca_grows_callers_pool (h : heap) (o : sslopts) (f : fsenv) : Prop :=
  o_ca_set o = true /\
  exists ca p x certs, o_config o = Some ca /\ c_roots (get_cfg h ca) = Some p /\ f_ca f = Some (x :: certs)
                       /\ add_certs (get_pool h p) (x :: certs) <> get_pool h p.

Lemma setup_pool_frame h o f p :
  ~ ca_grows_callers_pool h o f -> (p < length (h_pools h))%nat ->
  get_pool (fst (setup_tls h o f)) p = get_pool h p.
Proof.
  intros Hn Hp. unfold get_pool. rewrite setup_pools. unfold ca_pools.
  destruct (o_ca_set o) eqn:Hca; [|reflexivity].
  destruct (c_roots (src_cfg h o)) as [q|] eqn:Hr; cbn [fst].
  - destruct (f_ca f) as [[|x certs]|] eqn:Hf; try reflexivity.
    destruct (Nat.eq_dec q p) as [->|Hne].
    + rewrite nth_upd_same by exact Hp.
      destruct (list_eq_dec Z.eq_dec (add_certs (nth p (h_pools h) []) (x :: certs)) (nth p (h_pools h) [])) as [E|E]; [exact E|].
      exfalso. apply Hn. split; [exact Hca|].
      unfold src_cfg in Hr. destruct (o_config o) as [ca|] eqn:Hc; [|discriminate].
      exists ca, p, x, certs. repeat split; auto.
    + now rewrite nth_upd_other.
  - now apply nth_app_old.
Qed.

(* exactly what happens otherwise: the caller's pool gains the certificates of the CA file, all other
   pre-existing pools are unchanged *)
Lemma setup_pool_effect h o f p :
  (p < length (h_pools h))%nat ->
  get_pool (fst (setup_tls h o f)) p = get_pool h p
  \/ (exists ca certs, o_ca_set o = true /\ o_config o = Some ca /\ c_roots (get_cfg h ca) = Some p
                       /\ f_ca f = Some certs /\ get_pool (fst (setup_tls h o f)) p = add_certs (get_pool h p) certs).
Proof.
  intros Hp. unfold get_pool. rewrite setup_pools. unfold ca_pools.
  destruct (o_ca_set o) eqn:Hca; [|now left].
  destruct (c_roots (src_cfg h o)) as [q|] eqn:Hr; cbn [fst].
  - destruct (f_ca f) as [[|x certs]|] eqn:Hf; try (now left).
    destruct (Nat.eq_dec q p) as [->|Hne].
    + right. unfold src_cfg in Hr. destruct (o_config o) as [ca|] eqn:Hc; [|discriminate].
      exists ca, (x :: certs). rewrite nth_upd_same by exact Hp. repeat split; auto.
    + left. now rewrite nth_upd_other.
  - left. now apply nth_app_old.
Qed.

(* ---- files ------------------------------------------------------------------------------------------ *)
Lemma add_cert_incl pool c : In c (add_cert pool c) /\ incl pool (add_cert pool c).
Proof.
  unfold add_cert. destruct (existsb (Z.eqb c) pool) eqn:E.
  - split; [|apply incl_refl]. apply existsb_exists in E. destruct E as (x & Hx & Hxc). apply Z.eqb_eq in Hxc. now subst.
  - split; [apply in_or_app; right; now left | apply incl_appl, incl_refl].
Qed.

Lemma add_certs_incl certs : forall pool, incl pool (add_certs pool certs) /\ incl certs (add_certs pool certs).
Proof.
  induction certs as [|c certs IH]; intros pool; cbn [add_certs fold_left].
  - split; [apply incl_refl | intros x []].
  - destruct (IH (add_cert pool c)) as [I1 I2]. destruct (add_cert_incl pool c) as [J1 J2].
    split.
    + eapply incl_tran; [exact J2 | exact I1].
    + intros x [->|Hx]; [apply I1, J1 | now apply I2].
Qed.

Lemma add_certs_only certs : forall pool x, In x (add_certs pool certs) -> In x pool \/ In x certs.
Proof.
  induction certs as [|c certs IH]; intros pool x; cbn [add_certs fold_left]; [auto|].
  intros H. apply IH in H. destruct H as [H|H]; [|right; now right].
  unfold add_cert in H. destruct (existsb (Z.eqb c) pool); [now left|].
  apply in_app_or in H. destruct H as [H|[H|[]]]; [now left | right; now left].
Qed.

(* no dangling RootCAs pointers (Go pointers are never dangling) *)
Definition wf_heap (h : heap) : Prop :=
  forall a p, c_roots (get_cfg h a) = Some p -> (p < length (h_pools h))%nat.

(* a successful call with CaPath set: the file was readable, held at least one certificate, and every
   certificate in it is in the pool the result verifies against *)
Lemma setup_ok_ca h o f h' a :
  wf_heap h -> setup_tls h o f = (h', SOk a) -> o_ca_set o = true ->
  exists certs p, f_ca f = Some certs /\ certs <> [] /\ c_roots (get_cfg h' a) = Some p /\ incl certs (get_pool h' p).
Proof.
  intros Hwf H Hca. pose proof (setup_ok_result _ _ _ _ _ H) as (Ha & He & Hc & _).
  assert (Hh' : h' = fst (setup_tls h o f)) by now rewrite H.
  unfold ca_err in He. rewrite Hca in He.
  destruct (f_ca f) as [[|x certs]|] eqn:Hf; try discriminate.
  assert (Hroots : c_roots (get_cfg h' a) = c_roots (work_cfg h o f))
    by (rewrite Hc; destruct (o_cert_set o || o_key_set o); reflexivity).
  rewrite work_cfg_roots in Hroots.
  assert (Hpools : h_pools h' = fst (ca_pools (h_pools h) (c_roots (src_cfg h o)) o f))
    by (rewrite Hh'; apply setup_pools).
  unfold get_pool. rewrite Hpools, Hroots. unfold ca_pools. rewrite Hca, Hf.
  destruct (c_roots (src_cfg h o)) as [q|] eqn:Hr; cbn [fst snd].
  - exists (x :: certs), q. split; [reflexivity|]. split; [discriminate|]. split; [reflexivity|].
    assert (Hq : (q < length (h_pools h))%nat).
    { unfold src_cfg in Hr. destruct (o_config o) as [ca|]; [|discriminate]. eapply Hwf; eauto. }
    rewrite nth_upd_same by exact Hq. apply add_certs_incl.
  - exists (x :: certs), (length (h_pools h)). split; [reflexivity|]. split; [discriminate|]. split; [reflexivity|].
    rewrite nth_middle. apply add_certs_incl.
Qed.

Lemma setup_ok_keypair h o f h' a :
  setup_tls h o f = (h', SOk a) -> o_cert_set o || o_key_set o = true ->
  f_kp_ok f = true /\ c_ncerts (get_cfg h' a) = S (c_ncerts (src_cfg h o)).
Proof.
  intros H Hk. apply setup_ok_result in H. destruct H as (_ & _ & Hc & Hok).
  split; [auto|]. rewrite Hc, Hk. cbn [with_ncerts c_ncerts]. now rewrite work_cfg_ncerts.
Qed.

Lemma setup_ok_no_keypair h o f h' a :
  setup_tls h o f = (h', SOk a) -> o_cert_set o || o_key_set o = false ->
  c_ncerts (get_cfg h' a) = c_ncerts (src_cfg h o).
Proof.
  intros H Hk. apply setup_ok_result in H. destruct H as (_ & _ & Hc & _).
  rewrite Hc, Hk. apply work_cfg_ncerts.
Qed.

Lemma setup_ok_name h o f h' a :
  setup_tls h o f = (h', SOk a) -> c_name (get_cfg h' a) = c_name (src_cfg h o).
Proof.
  intros H. apply setup_ok_result in H. destruct H as (_ & _ & Hc & _).
  rewrite Hc. destruct (o_cert_set o || o_key_set o); cbn [with_ncerts c_name]; apply work_cfg_name.
Qed.

(* error classification, both directions *)
Lemma setup_result_cases h o f :
  snd (setup_tls h o f) =
    match ca_err o f with
    | Some e => SErr e
    | None => if (o_cert_set o || o_key_set o) && negb (f_kp_ok f) then SErr EKeyPair else SOk (length (h_cfgs h))
    end.
Proof.
  rewrite setup_tls_flat. unfold setup_flat. destruct (ca_err o f); [reflexivity|].
  destruct (o_cert_set o || o_key_set o); [|reflexivity]. destruct (f_kp_ok f); reflexivity.
Qed.

(* ---- tlsConfigForAddr ---------------------------------------------------------------------------- *)
Lemma for_addr_flat h a addr :
  tls_config_for_addr h a addr =
    if negb (c_insecure (get_cfg h a)) && is_nil (c_name (get_cfg h a))
    then (mkHeap (h_cfgs h ++ [with_name (get_cfg h a) (hostname_of addr)]) (h_pools h), length (h_cfgs h))
    else (h, a).
Proof.
  unfold tls_config_for_addr.
  destruct (negb (c_insecure (get_cfg h a)) && is_nil (c_name (get_cfg h a))); [|reflexivity].
  unfold alloc_cfg. rewrite get_cfg_last. unfold set_cfg; cbn [h_cfgs h_pools]. now rewrite upd_app_last.
Qed.

Lemma for_addr_frame h a addr x :
  (x < length (h_cfgs h))%nat -> get_cfg (fst (tls_config_for_addr h a addr)) x = get_cfg h x.
Proof.
  intros Hx. rewrite for_addr_flat.
  destruct (negb (c_insecure (get_cfg h a)) && is_nil (c_name (get_cfg h a))); [|reflexivity].
  unfold get_cfg; cbn [fst h_cfgs]. now apply nth_app_old.
Qed.

Lemma for_addr_pools h a addr : h_pools (fst (tls_config_for_addr h a addr)) = h_pools h.
Proof.
  rewrite for_addr_flat.
  destruct (negb (c_insecure (get_cfg h a)) && is_nil (c_name (get_cfg h a))); reflexivity.
Qed.

Lemma for_addr_result h a addr h' a' :
  tls_config_for_addr h a addr = (h', a') ->
  get_cfg h' a' = (if negb (c_insecure (get_cfg h a)) && is_nil (c_name (get_cfg h a))
                   then with_name (get_cfg h a) (hostname_of addr) else get_cfg h a)
  /\ (negb (c_insecure (get_cfg h a)) && is_nil (c_name (get_cfg h a)) = false -> h' = h /\ a' = a)
  /\ (negb (c_insecure (get_cfg h a)) && is_nil (c_name (get_cfg h a)) = true -> a' = length (h_cfgs h)).
Proof.
  rewrite for_addr_flat.
  destruct (negb (c_insecure (get_cfg h a)) && is_nil (c_name (get_cfg h a))); intros H; inversion H; subst.
  - split; [apply get_cfg_last|]. split; [discriminate | reflexivity].
  - split; [reflexivity|]. split; [auto | discriminate].
Qed.

(* strings.LastIndex *)
Lemma last_index_aux_none c l : forall i acc, ~ In c l -> last_index_aux c l i acc = acc.
Proof.
  induction l as [|x l IH]; intros i acc Hn; cbn [last_index_aux]; [reflexivity|].
  rewrite IH by (intros H; apply Hn; now right).
  destruct (x =? c) eqn:E; [|reflexivity]. apply Z.eqb_eq in E. exfalso; apply Hn; now left.
Qed.

Lemma last_index_aux_app c l1 l2 : forall i acc, ~ In c l2 ->
  last_index_aux c (l1 ++ c :: l2) i acc = Some (i + length l1)%nat.
Proof.
  induction l1 as [|x l1 IH]; intros i acc Hn; cbn [app last_index_aux length].
  - rewrite Z.eqb_refl. rewrite last_index_aux_none by exact Hn. f_equal; lia.
  - rewrite IH by exact Hn. f_equal; lia.
Qed.

Lemma hostname_of_host_port host port : ~ In 58 port -> hostname_of (host ++ [58] ++ port) = host.
Proof.
  intros Hn. unfold hostname_of, last_index. cbn [app].
  rewrite last_index_aux_app by exact Hn. cbn [Nat.add].
  rewrite firstn_app, Nat.sub_diag, firstn_all. cbn [firstn]. apply app_nil_r.
Qed.

Lemma hostname_of_no_colon addr : ~ In 58 addr -> hostname_of addr = addr.
Proof.
  intros Hn. unfold hostname_of, last_index. rewrite last_index_aux_none by exact Hn. apply firstn_all.
Qed.

Lemma hostname_of_join host port : ~ In 58 port -> hostname_of (join_host_port host port) = host_in_addr host.
Proof. intros Hn. unfold join_host_port. now apply hostname_of_host_port. Qed.

(* ---- the whole dial decision ------------------------------------------------------------------------ *)
Lemma dial_tls_inv h o f addr h' a :
  dial_config h (Some o) f addr = (h', DTls a) ->
  exists h1 a1, setup_tls h o f = (h1, SOk a1) /\ tls_config_for_addr h1 a1 addr = (h', a).
Proof.
  unfold dial_config. destruct (setup_tls h o f) as [h1 [e|a1]] eqn:Hs; [discriminate|].
  destruct (tls_config_for_addr h1 a1 addr) as [h2 a2] eqn:Hf. intros H; inversion H; subst. eauto.
Qed.

Lemma dial_insecure h o f addr h' a :
  dial_config h (Some o) f addr = (h', DTls a) ->
  documented (cfg_column h o) (o_hv o) = Some (verifies h' a).
Proof.
  intros H. apply dial_tls_inv in H. destruct H as (h1 & a1 & Hs & Hf).
  rewrite (table_lemma _ _ _ _ _ Hs). f_equal. unfold verifies.
  apply for_addr_result in Hf. destruct Hf as (Hc & _). rewrite Hc.
  destruct (negb (c_insecure (get_cfg h1 a1)) && is_nil (c_name (get_cfg h1 a1))); reflexivity.
Qed.

Lemma dial_server_name h o f host port h' a :
  ~ In 58 port ->
  dial_config h (Some o) f (join_host_port host port) = (h', DTls a) ->
  c_name (get_cfg h' a) =
    (if verifies h' a && is_nil (c_name (src_cfg h o)) then host_in_addr host else c_name (src_cfg h o)).
Proof.
  intros Hp H. apply dial_tls_inv in H. destruct H as (h1 & a1 & Hs & Hf).
  pose proof (setup_ok_name _ _ _ _ _ Hs) as Hn.
  apply for_addr_result in Hf. destruct Hf as (Hc & _).
  unfold verifies. rewrite Hc, <- Hn.
  destruct (negb (c_insecure (get_cfg h1 a1)) && is_nil (c_name (get_cfg h1 a1))) eqn:E.
  - apply andb_true_iff in E. destruct E as [E1 E2].
    cbn [with_name c_insecure c_name]. rewrite E1, E2. cbn [andb]. now apply hostname_of_join.
  - destruct (negb (c_insecure (get_cfg h1 a1))) eqn:E1; cbn [andb] in *; [rewrite E; reflexivity | reflexivity].
Qed.

Lemma dial_cfg_frame h o f addr x :
  (x < length (h_cfgs h))%nat -> get_cfg (fst (dial_config h (Some o) f addr)) x = get_cfg h x.
Proof.
  intros Hx. unfold dial_config.
  pose proof (setup_cfg_frame h o f x Hx) as Hs.
  destruct (setup_cfgs h o f) as [c Hc].
  destruct (setup_tls h o f) as [h1 [e|a1]]; cbn [fst] in *; [exact Hs|].
  destruct (tls_config_for_addr h1 a1 addr) as [h2 a2] eqn:Hf. cbn [fst].
  assert (Hx1 : (x < length (h_cfgs h1))%nat) by (rewrite Hc, app_length; lia).
  pose proof (for_addr_frame h1 a1 addr x Hx1) as Hfr. rewrite Hf in Hfr. cbn [fst] in Hfr. congruence.
Qed.

Lemma dial_pools h o f addr :
  h_pools (fst (dial_config h (Some o) f addr)) = h_pools (fst (setup_tls h o f)).
Proof.
  unfold dial_config. destruct (setup_tls h o f) as [h1 [e|a1]]; cbn [fst]; [reflexivity|].
  pose proof (for_addr_pools h1 a1 addr) as Hp.
  destruct (tls_config_for_addr h1 a1 addr) as [h2 a2]. exact Hp.
Qed.

(* ---- the handshake abstraction ------------------------------------------------------------------- *)
Lemma handshake_verified h a sc :
  verifies h a = true -> tls_handshake_ok h a sc = true ->
  (exists p, c_roots (get_cfg h a) = Some p /\ In (sc_issuer sc) (get_pool h p))
  /\ c_name (get_cfg h a) <> [] /\ In (strip_brackets (c_name (get_cfg h a))) (sc_names sc).
Proof.
  unfold verifies, tls_handshake_ok. intros Hv Hok.
  apply negb_true_iff in Hv. rewrite Hv in Hok. cbn [orb] in Hok.
  apply andb_true_iff in Hok. destruct Hok as [Ht Hn]. split.
  - unfold cert_trusted in Ht. destruct (c_roots (get_cfg h a)) as [p|]; [|discriminate].
    exists p. split; [reflexivity|]. apply existsb_exists in Ht. destruct Ht as (x & Hx & E).
    apply Z.eqb_eq in E. now subst.
  - unfold cert_name_ok in Hn. apply andb_true_iff in Hn. destruct Hn as [Hnn Hex]. split.
    + destruct (c_name (get_cfg h a)); [discriminate | discriminate].
    + apply existsb_exists in Hex. destruct Hex as (x & Hx & E). apply zlist_eqb_eq in E. now subst.
Qed.

Lemma handshake_insecure h a sc : verifies h a = false -> tls_handshake_ok h a sc = true.
Proof.
  unfold verifies, tls_handshake_ok. intros Hv. apply negb_false_iff in Hv. now rewrite Hv.
Qed.

(* readable forms used by the statements in Props.v *)
Definition is_none {A} (o : option A) : bool := match o with None => true | Some _ => false end.
Definition is_empty_ca (o : option (list Z)) : bool := match o with Some [] => true | _ => false end.

(* ---- the other fields of tls.Config: carried along, never consulted ------------------------------ *)
Lemma work_cfg_other h o f : c_other (work_cfg h o f) = c_other (src_cfg h o).
Proof. unfold work_cfg. now destruct (src_cfg h o). Qed.

Lemma setup_ok_other h o f h' a :
  setup_tls h o f = (h', SOk a) -> c_other (get_cfg h' a) = c_other (src_cfg h o).
Proof.
  intros H. apply setup_ok_result in H. destruct H as (_ & _ & Hc & _).
  rewrite Hc. destruct (o_cert_set o || o_key_set o); cbn [with_ncerts c_other]; apply work_cfg_other.
Qed.

Lemma dial_other h o f addr h' a :
  dial_config h (Some o) f addr = (h', DTls a) -> c_other (get_cfg h' a) = c_other (src_cfg h o).
Proof.
  intros H. apply dial_tls_inv in H. destruct H as (h1 & a1 & Hs & Hf).
  rewrite <- (setup_ok_other _ _ _ _ _ Hs).
  apply for_addr_result in Hf. destruct Hf as (Hc & _). rewrite Hc.
  destruct (negb (c_insecure (get_cfg h1 a1)) && is_nil (c_name (get_cfg h1 a1))); reflexivity.
Qed.

(* ---- contact points --------------------------------------------------------------------------------- *)
Lemma go_join_is_join host port : go_join_host_port host port = join_host_port host port.
Proof. reflexivity. Qed.

Lemma resolve_contact_hostname host port literal ips pv4 hi :
  In hi (resolve_contact host port literal ips pv4) -> hi_hostname hi = host /\ hi_port hi = port.
Proof.
  unfold resolve_contact. destruct literal as [ip|].
  - intros [<-|[]]. split; reflexivity.
  - intros H. apply in_map_iff in H. destruct H as (x & <- & _). split; reflexivity.
Qed.

Lemma resolve_contact_nonempty host port ips pv4 :
  ips <> [] -> resolve_contact host port None ips pv4 <> [].
Proof.
  unfold resolve_contact. intros Hn. destruct pv4.
  - destruct (filter snd ips) eqn:E; [destruct ips; [congruence | discriminate] | discriminate].
  - destruct ips; [congruence | discriminate].
Qed.
