(* C20/Spec.v -- independent specification, written from the documents the property names and not from
   the Go code:
     * the table in gocql's package documentation (doc.go "Transport layer security", repeated on
       type SslOptions) as a literal list of rows;
     * RFC 4616 (SASL PLAIN): message = [authzid] NUL authcid NUL passwd;
     * the Go documentation of net.JoinHostPort (how the dialled address is written);
     * "the caller's list of approved authenticators, or the built-in default when it is empty". *)
From GocqlV Require Import Lib.Base Gen.Consts.

(* ---- the documented table -------------------------------------------------------------------- *)
(* first column: "Config is nil" | Config.InsecureSkipVerify = false | true *)
Inductive cfgcol := CfgNil | CfgSkip (insecure_skip_verify : bool).

Definition cfgcol_eqb (a b : cfgcol) : bool :=
  match a, b with
  | CfgNil, CfgNil => true
  | CfgSkip x, CfgSkip y => Bool.eqb x y
  | _, _ => false
  end.

(*  Config.InsecureSkipVerify | EnableHostVerification | Result              (true = "verify host") *)
Definition doc_table : list (cfgcol * bool * bool) :=
  [ (CfgNil,        false, false);   (* Config is nil | false | do not verify host *)
    (CfgNil,        true,  true);    (* Config is nil | true  | verify host        *)
    (CfgSkip false, false, true);    (* false         | false | verify host        *)
    (CfgSkip true,  false, false);   (* true          | false | do not verify host *)
    (CfgSkip false, true,  true);    (* false         | true  | verify host        *)
    (CfgSkip true,  true,  true) ].  (* true          | true  | verify host        *)

Fixpoint lookup_row (t : list (cfgcol * bool * bool)) (c : cfgcol) (hv : bool) : option bool :=
  match t with
  | [] => None
  | (c', hv', r) :: t' => if cfgcol_eqb c c' && Bool.eqb hv hv' then Some r else lookup_row t' c hv
  end.

(* None would mean "the documentation says nothing about this combination" *)
Definition documented (c : cfgcol) (hv : bool) : option bool := lookup_row doc_table c hv.

(* ---- the dialled address --------------------------------------------------------------------- *)
(* net.JoinHostPort: "host:port"; if host contains a colon (a literal IPv6 address) "[host]:port" *)
Definition has_colon (l : list Z) : bool := existsb (Z.eqb 58) l.
Definition host_in_addr (host : list Z) : list Z := if has_colon host then [91] ++ host ++ [93] else host.
Definition join_host_port (host port : list Z) : list Z := host_in_addr host ++ [58] ++ port.

(* ---- SASL PLAIN (RFC 4616 section 2) ---------------------------------------------------------- *)
Definition sasl_plain (authzid authcid passwd : list Z) : list Z := authzid ++ [0] ++ authcid ++ [0] ++ passwd.

(* a server-side reader of the message: split at the first two NUL octets *)
Fixpoint split_nul (l : list Z) : option (list Z * list Z) :=
  match l with
  | [] => None
  | b :: l' => if b =? 0 then Some ([], l')
               else match split_nul l' with
                    | Some (x, y) => Some (b :: x, y)
                    | None => None
                    end
  end.
Definition plain_decode (msg : list Z) : option (list Z * list Z * list Z) :=
  match split_nul msg with
  | Some (z, rest) =>
      match split_nul rest with
      | Some (c, p) => Some (z, c, p)
      | None => None
      end
  | None => None
  end.
Definition no_nul (l : list Z) : Prop := ~ In 0 l.

(* ---- the approved list ------------------------------------------------------------------------ *)
Definition approved_list (callers : list (list Z)) : list (list Z) :=
  match callers with
  | [] => K.defaultApprovedAuthenticators
  | _ => callers
  end.
