(* C02/Refuted.v -- round trips that fail on the faithful model: the known findings, machine-checked. *)
From GocqlV Require Import Lib.Base Gen.Consts C12.Model C12.Spec C12.Denote.

Local Open Scope Z_scope.

(* F-C02-1: uint8 255 -> tinyint -> int16 gives -1 (accepted, wraps; right only into the same unsigned width) *)
Theorem rt_unsigned_wrap_refuted :
  marshal 4 (TNative K.TypeTinyInt) (GInt U8 false 255) = Ok (Some [255])
  /\ unmarshal 4 (TNative K.TypeTinyInt) (Some [255]) (YInt I16 false) = Ok (GInt I16 false (-1))
  /\ unmarshal 4 (TNative K.TypeTinyInt) (Some [255]) (YStr false) = Ok (GStr false [45; 49])
  /\ unmarshal 4 (TNative K.TypeTinyInt) (Some [255]) (YInt U8 false) = Ok (GInt U8 false 255)
  /\ marshal 4 (TNative K.TypeBigInt) (GInt U64 false (2 ^ 64 - 1)) = Ok (Some [255; 255; 255; 255; 255; 255; 255; 255])
  /\ unmarshal 4 (TNative K.TypeBigInt) (Some [255; 255; 255; 255; 255; 255; 255; 255]) (YInt I64 false) = Ok (GInt I64 false (-1)).
Proof. repeat split; vm_compute; reflexivity. Qed.

(* F-C12-1 seen as a round trip: big.Int 5 -> bigint -> int64 gives 0; and a value outside int64 is accepted *)
Theorem rt_bigint_bigInt_refuted :
  marshal 4 (TNative K.TypeBigInt) (GBig 5) = Ok (Some [5])
  /\ unmarshal 4 (TNative K.TypeBigInt) (Some [5]) (YInt I64 false) = Ok (GInt I64 false 0)
  /\ unmarshal 4 (TNative K.TypeBigInt) (Some [5]) YBig = Ok (GBig 5)
  /\ marshal 4 (TNative K.TypeBigInt) (GBig (2 ^ 70)) = Ok (Some [64; 0; 0; 0; 0; 0; 0; 0; 0]).
Proof. repeat split; vm_compute; reflexivity. Qed.

(* F-C02-2: the 9-byte varint form decodes only into *uint64 and *big.Int *)
Theorem rt_varint_uint64_only_refuted :
  marshal 4 (TNative K.TypeVarint) (GInt U64 false (2 ^ 64 - 1)) = Ok (Some [0; 255; 255; 255; 255; 255; 255; 255; 255])
  /\ unmarshal 4 (TNative K.TypeVarint) (Some [0; 255; 255; 255; 255; 255; 255; 255; 255]) (YInt U64 false) = Ok (GInt U64 false (2 ^ 64 - 1))
  /\ unmarshal 4 (TNative K.TypeVarint) (Some [0; 255; 255; 255; 255; 255; 255; 255; 255]) (YInt UInt false) = Err
  /\ unmarshal 4 (TNative K.TypeVarint) (Some [0; 255; 255; 255; 255; 255; 255; 255; 255]) (YInt U64 true) = Err
  /\ unmarshal 4 (TNative K.TypeVarint) (Some [0; 255; 255; 255; 255; 255; 255; 255; 255]) YBig = Ok (GBig (2 ^ 64 - 1)).
Proof. repeat split; vm_compute; reflexivity. Qed.

(* F-C12-4 seen as a round trip: a typed nil pointer inside a []interface{} tuple comes back as a non-nil
   pointer to the zero value (length 0 instead of -1) *)
Theorem rt_tuple_typed_nil_refuted :
  marshal 4 (TTuple [TNative K.TypeInt]) (GIfaces [GPtr None]) = Ok (Some [0; 0; 0; 0])
  /\ unmarshal 4 (TTuple [TNative K.TypeInt]) (Some [0; 0; 0; 0]) (YIfaces [YPtr (YInt IInt false)])
     = Ok (GIfaces [GPtr (Some (GInt IInt false 0))])
  /\ marshal 4 (TTuple [TNative K.TypeInt]) (GIfaces [GNil]) = Ok (Some [255; 255; 255; 255])
  /\ unmarshal 4 (TTuple [TNative K.TypeInt]) (Some [255; 255; 255; 255]) (YIfaces [YPtr (YInt IInt false)])
     = Ok (GIfaces [GPtr None]).
Proof. repeat split; vm_compute; reflexivity. Qed.

(* null into a value target is an error instead of the zero value for these pairs *)
Theorem rt_null_rejected_refuted :
  marshal 4 (TNative K.TypeDecimal) (GPtr None) = Ok None
  /\ unmarshal 4 (TNative K.TypeDecimal) None YDec = Err
  /\ unmarshal 4 (TNative K.TypeDecimal) None (YPtr YDec) = Ok (GPtr None)
  /\ unmarshal 4 (TNative K.TypeInet) None YIP = Err
  /\ unmarshal 4 (TNative K.TypeTimeUUID) None YTime = Err
  /\ unmarshal 4 (TList (TNative K.TypeInt)) None (YArray 2 (YInt IInt false)) = Err.
Proof. repeat split; vm_compute; reflexivity. Qed.
