(* C02/Refuted.v -- round trips that still fail on the faithful model: the findings that are kept
   (F-C02-1 unsigned reinterpretation, F-C02-2 9-byte varint, null into an array), machine-checked; and
   regression facts for the defects repaired in /repo (pre-fix outputs quoted in the comments). *)
From GocqlV Require Import Lib.Base Gen.Consts C12.Model C12.Spec C12.Denote.

Local Open Scope Z_scope.

(* F-C02-1: uint8 255 -> tinyint -> int16 gives -1 (accepted, wraps; right only into the same unsigned width) *)
Theorem rt_unsigned_wrap_refuted :
  marshal 4 (TNative K.TypeTinyInt) (GInt U8 false 255) = Ok (Some [255])
  /\ unmarshal 4 (TNative K.TypeTinyInt) (Some [255]) (YInt I16 false) = Ok (GInt I16 false (-1))
  /\ unmarshal 4 (TNative K.TypeTinyInt) (Some [255]) (YStr false) = Ok (GStr false [45; 49])
  /\ unmarshal 4 (TNative K.TypeTinyInt) (Some [255]) (YInt U8 false) = Ok (GInt U8 false 255)
  /\ marshal 4 (TNative K.TypeBigInt) (GInt U64 false (2 ^ 64 - 1)) = Ok (Some [255; 255; 255; 255; 255; 255; 255; 255])
  /\ unmarshal 4 (TNative K.TypeBigInt) (Some [255; 255; 255; 255; 255; 255; 255; 255]) (YInt I64 false) = Ok (GInt I64 false (-1)).
Proof. repeat split; vm_compute; reflexivity. Qed.

(* F-C02-2: the 9-byte varint form decodes only into *uint64 and *big.Int *)
Theorem rt_varint_uint64_only_refuted :
  marshal 4 (TNative K.TypeVarint) (GInt U64 false (2 ^ 64 - 1)) = Ok (Some [0; 255; 255; 255; 255; 255; 255; 255; 255])
  /\ unmarshal 4 (TNative K.TypeVarint) (Some [0; 255; 255; 255; 255; 255; 255; 255; 255]) (YInt U64 false) = Ok (GInt U64 false (2 ^ 64 - 1))
  /\ unmarshal 4 (TNative K.TypeVarint) (Some [0; 255; 255; 255; 255; 255; 255; 255; 255]) (YInt UInt false) = Err
  /\ unmarshal 4 (TNative K.TypeVarint) (Some [0; 255; 255; 255; 255; 255; 255; 255; 255]) (YInt U64 true) = Err
  /\ unmarshal 4 (TNative K.TypeVarint) (Some [0; 255; 255; 255; 255; 255; 255; 255; 255]) YBig = Ok (GBig (2 ^ 64 - 1)).
Proof. repeat split; vm_compute; reflexivity. Qed.

(* kept: null into an array target is an explicit error (a nil slice for a slice target) *)
Theorem rt_null_into_array_refuted :
  marshal 4 (TList (TNative K.TypeInt)) (GSlice None) = Ok None
  /\ unmarshal 4 (TList (TNative K.TypeInt)) None (YArray 2 (YInt IInt false)) = Err
  /\ unmarshal 4 (TList (TNative K.TypeInt)) None (YSlice (YInt IInt false)) = Ok (GSlice None).
Proof. repeat split; vm_compute; reflexivity. Qed.

(* ---- repaired ------------------------------------------------------------------------------------------------ *)
(* F-C12-1: big.Int 5 -> bigint was 05 and came back as 0 into *int64 *)
Example fixed_rt_bigint_bigInt :
  marshal 4 (TNative K.TypeBigInt) (GBig 5) = Ok (Some [0; 0; 0; 0; 0; 0; 0; 5])
  /\ unmarshal 4 (TNative K.TypeBigInt) (Some [0; 0; 0; 0; 0; 0; 0; 5]) (YInt I64 false) = Ok (GInt I64 false 5)
  /\ unmarshal 4 (TNative K.TypeBigInt) (Some [0; 0; 0; 0; 0; 0; 0; 5]) YBig = Ok (GBig 5)
  /\ marshal 4 (TNative K.TypeBigInt) (GBig (2 ^ 70)) = Err.
Proof. repeat split; vm_compute; reflexivity. Qed.

(* F-C12-4: a typed nil pointer inside a []interface{} tuple came back as a pointer to the zero value *)
Example fixed_rt_tuple_typed_nil :
  marshal 4 (TTuple [TNative K.TypeInt]) (GIfaces [GPtr None]) = Ok (Some [255; 255; 255; 255])
  /\ unmarshal 4 (TTuple [TNative K.TypeInt]) (Some [255; 255; 255; 255]) (YIfaces [YPtr (YInt IInt false)])
     = Ok (GIfaces [GPtr None]).
Proof. split; vm_compute; reflexivity. Qed.

(* null into these value targets was an error; it is the zero value now, and stays nil for pointer targets *)
Example fixed_rt_null_into_value_targets :
  marshal 4 (TNative K.TypeDecimal) (GPtr None) = Ok None
  /\ unmarshal 4 (TNative K.TypeDecimal) None YDec = Ok (GDec 0 0)
  /\ unmarshal 4 (TNative K.TypeDecimal) None (YPtr YDec) = Ok (GPtr None)
  /\ unmarshal 4 (TNative K.TypeInet) None YIP = Ok (GIP [])
  /\ unmarshal 4 (TNative K.TypeTimeUUID) None YTime = Ok (GTime zero_time_sec 0).
Proof. repeat split; vm_compute; reflexivity. Qed.
