(* C02/Props.v -- the proof obligations for property C02 "Marshal then Unmarshal gives back the value",
   and nothing else.  Model shared with C12 (C12/Model.v); "equal value" is equality of meaning
   ([denote_native], C12/Denote.v) across Go types and exact equality for the same Go type.
   The defects found with this check and C12's were repaired in /repo (see C12/Props.v); the theorems no
   longer exclude those regions.  Witnesses for what is still excluded (the kept findings F-C02-1,
   F-C02-2 and null into an array) are in C02/Refuted.v. *)
From GocqlV Require Import Lib.Base Gen.Consts C12.Model C12.Spec C12.Denote
  C12.Proofs1 C12.Proofs2 C12.Proofs3 C12.Proofs4 C12.Proofs5 C12.Proofs6 C02.Proofs1 C02.Proofs2 C02.Proofs3.

(* Every native column type, every Go source and every documented Go target of the model's universe:
   if Marshal returns bytes and Unmarshal of them succeeds, the stored value means what the source value
   meant (so no silent loss of precision).  Excluded: F-C02-1 in both directions (unsigned source above the
   column's signed maximum in [clean_native], negative value into an unsigned target in [dec_clean]), the
   int64 overflow of millisecond timestamps, and the documented conflations listed at [dec_clean]. *)
Theorem C02_rt_native : forall id g b t g' x,
  wf_native g -> clean_native id g -> denote_native id g = Some (Some x) ->
  marshal_native id g = Ok (Some b) ->
  dec_compat id t -> dec_clean id x t ->
  unmarshal_native id (Some b) t = Ok g' ->
  denote_native id g' = denote_native id g.
Proof. exact rt_native. Qed.
Print Assumptions C02_rt_native.

(* Integer family, same Go integer type back (any of the ten kinds, defined types or not, all five
   fixed-width column types): whenever Marshal accepts the value, decoding gives exactly that value.
   No exclusion: this includes unsigned values above the column's signed maximum (the one direction in
   which the reinterpretation of F-C02-1 is harmless). *)
Theorem C02_rt_int_same_type : forall id k n n' z b,
  In id [K.TypeTinyInt; K.TypeSmallInt; K.TypeInt; K.TypeBigInt; K.TypeCounter] ->
  kmin k <= z <= kmax k ->
  marshal_native id (GInt k n z) = Ok (Some b) ->
  unmarshal_native id (Some b) (YInt k n') = Ok (GInt k n' z).
Proof. exact rt_int_same_type. Qed.
Print Assumptions C02_rt_int_same_type.

(* encBigInt2C / decBigInt2C (varint and decimal): round trip for every integer, and the encoding is the
   minimal one. *)
Theorem C02_bigint2c_roundtrip : forall n, dec_bigint2c (enc_bigint2c n) = n /\ enc_bigint2c n = varint_bytes n.
Proof. intros n. split; [apply bigint2c_roundtrip | apply enc_bigint2c_minimal]. Qed.
Print Assumptions C02_bigint2c_roundtrip.

(* The vint codec of duration: round trip over the whole 64-bit range, followed by arbitrary bytes, and
   the three-vint composition. *)
Theorem C02_vint_roundtrip :
  (forall v rest, - 2 ^ 63 <= v < 2 ^ 63 -> dec_vint (enc_vint v ++ rest) = Some (v, rest))
  /\ (forall m d n, - 2 ^ 31 <= m < 2 ^ 31 -> - 2 ^ 31 <= d < 2 ^ 31 -> - 2 ^ 63 <= n < 2 ^ 63 ->
        dec_vints (enc_vints m d n) = Some (m, d, n)).
Proof. split; [exact vint_roundtrip | exact vints_roundtrip]. Qed.
Print Assumptions C02_vint_roundtrip.

(* null, empty and zero keep distinct meanings: a nil pointer (at any depth) is null for every type;
   null into a pointer target is a nil pointer and a value is a non-nil pointer, for every type; the empty
   string / empty blob is not null; the zero time.Time is written as the empty value and read back. *)
Theorem C02_null_empty_zero_distinct :
  (forall pv ty g, peel g = None -> marshal pv ty g = Ok None)
  /\ (forall pv ty t, unmarshal pv ty None (YPtr t) = Ok (GPtr None))
  /\ (forall pv ty b t g, unmarshal pv ty (Some b) (YPtr t) = Ok g -> exists v, g = GPtr (Some v) /\ unmarshal pv ty (Some b) t = Ok v)
  /\ (forall pv n, marshal pv (TNative K.TypeText) (GStr n []) = Ok (Some [])
                   /\ unmarshal pv (TNative K.TypeText) (Some []) (YPtr (YStr n)) = Ok (GPtr (Some (GStr n [])))
                   /\ unmarshal pv (TNative K.TypeText) None (YPtr (YStr n)) = Ok (GPtr None)
                   /\ marshal pv (TNative K.TypeBlob) (GBytes n (Some [])) = Ok (Some [])
                   /\ marshal pv (TNative K.TypeBlob) (GBytes n None) = Ok None)
  /\ (forall pv, marshal pv (TNative K.TypeTimestamp) (GTime zero_time_sec 0) = Ok (Some [])
                 /\ unmarshal pv (TNative K.TypeTimestamp) (Some []) YTime = Ok (GTime zero_time_sec 0)
                 /\ marshal pv (TNative K.TypeDate) (GTime zero_time_sec 0) = Ok (Some [])
                 /\ unmarshal pv (TNative K.TypeDate) (Some []) YTime = Ok (GTime zero_time_sec 0)).
Proof.
  split; [exact nil_pointer_is_null|]. split; [exact null_into_pointer|]. split; [exact value_into_pointer|].
  split; [exact empty_string_not_null | exact zero_time_is_empty].
Qed.
Print Assumptions C02_null_empty_zero_distinct.

(* Lists and sets, any element type and any element target, both framings (2-byte lengths on protocol
   <= 2 where a nil element is read back as the empty value, 4-byte lengths and -1 for nil on >= 3), any
   length: if every element round-trips to h_i then the collection round-trips to [h_1; ...; h_n]. *)
Theorem C02_rt_list_lift : forall pv e et l h b,
  Forall2 (elem_rt pv e et) l h ->
  marshal_list pv (marshal pv e) (GSlice (Some l)) = Ok (Some b) ->
  unmarshal_list pv (unmarshal_core pv e) (Some b) (YSlice et) = Ok (GSlice (Some h)).
Proof. exact rt_list_lift. Qed.
Print Assumptions C02_rt_list_lift.

(* Tuples written from []interface{} and read into []interface{} of pointers, any arity, any component
   types: component round trips lift to the tuple; a component that is nil or that Marshal turns into nil
   is -1 on the wire and nil data for the decoder, anything else its length and bytes. *)
Theorem C02_rt_tuple_lift : forall pv es l ts h bs,
  tuple_rt pv es l ts h ->
  tuple_items true (map (marshal pv) es) l = Ok bs ->
  tuple_ifaces (map (unmarshal_core pv) es) ts bs = Ok h.
Proof. exact rt_tuple_lift. Qed.
Print Assumptions C02_rt_tuple_lift.

(* One statement for every type tree built from natives, lists, sets and tuples (any nesting, any length and
   arity, both collection framings, pointers peeled at every level on the way in, pointer targets at every
   level on the way out): if Marshal returns bytes for a value with a documented meaning and Unmarshal of them
   succeeds, the stored value means what the source meant.  [good] (C12/Proofs4.v) and [dec_good]
   (C12/Proofs6.v) exclude only: F-C02-1 in both directions, int64 overflow of millisecond timestamps,
   components of 2 GiB or more, and the documented conflations (a null element / component read into a
   non-pointer target is the zero value; empty blob / nil []byte; year-1 instant / zero time.Time; NaN
   payload of defined float32 types; IPv4-mapped addresses), each shown necessary in C12/Refuted.v.
   Maps and user-defined types are not covered ([dec_good] is False for them): for those the check relies
   on the correspondence run and the round-trip monitor. *)
Theorem C02_rt_every_type : forall pv ty g b t g' x,
  good pv ty g -> denote ty g = Some (Some x) -> marshal pv ty g = Ok (Some b) ->
  dec_good pv ty x t -> unmarshal pv ty (Some b) t = Ok g' ->
  denote ty g' = denote ty g.
Proof. exact rt_every_type. Qed.
Print Assumptions C02_rt_every_type.

(* ---- non-vacuity -------------------------------------------------------------------------------------------- *)
Example C02_nonvacuous :
  (* a uint16 above the smallint maximum, same type back *)
  marshal_native K.TypeSmallInt (GInt U16 true 40000) = Ok (Some [156; 64])
  /\ unmarshal_native K.TypeSmallInt (Some [156; 64]) (YInt U16 false) = Ok (GInt U16 false 40000)
  (* cross-type: int32 into varint, read into a big.Int *)
  /\ (let g := GInt I32 false (-70000) in
      wf_native g /\ clean_native Id.varint g /\ denote_native Id.varint g = Some (Some (VInt (-70000)))
      /\ marshal_native Id.varint g = Ok (Some [254; 238; 144]) /\ dec_compat Id.varint YBig /\ dec_clean Id.varint (VInt (-70000)) YBig
      /\ unmarshal_native Id.varint (Some [254; 238; 144]) YBig = Ok (GBig (-70000)))
  (* list<int> with a nil element on both framings *)
  /\ Forall2 (elem_rt 4 (TNative K.TypeInt) (YPtr (YInt I64 false))) [GInt I8 false 5; GPtr None] [GPtr (Some (GInt I64 false 5)); GPtr None]
  /\ Forall2 (elem_rt 2 (TNative K.TypeInt) (YPtr (YInt I64 false))) [GInt I8 false 5; GPtr None] [GPtr (Some (GInt I64 false 5)); GPtr (Some (GInt I64 false 0))]
  /\ tuple_rt 4 [TNative K.TypeInt; TNative K.TypeText] [GNil; GStr false [104; 105]] [YPtr (YInt IInt false); YStr true]
       [GPtr None; GStr true [104; 105]].
Proof.
  split; [vm_compute; reflexivity|]. split; [vm_compute; reflexivity|].
  split. { cbv zeta. repeat split; try (vm_compute; reflexivity); try (cbn; intros; lia); try discriminate. }
  split.
  { apply Forall2_cons; [exists (Some [0; 0; 0; 5]); split; vm_compute; reflexivity|].
    apply Forall2_cons; [exists None; split; vm_compute; reflexivity | apply Forall2_nil]. }
  split.
  { apply Forall2_cons; [exists (Some [0; 0; 0; 5]); split; vm_compute; reflexivity|].
    apply Forall2_cons; [exists None; split; vm_compute; reflexivity | apply Forall2_nil]. }
  cbn [tuple_rt comp_rt]. split; [vm_compute; reflexivity|]. split; [|exact I].
  exists (Some [104; 105]). split; [vm_compute; reflexivity|]. split; vm_compute; reflexivity.
Qed.

(* non-vacuity of C02_rt_every_type: list<tuple<int, varint>> from [][]interface{} back into *[][]interface{} *)
Example C02_nonvacuous_every_type :
  let ty := TList (TTuple [TNative Id.int; TNative Id.varint]) in
  let g := GSlice (Some [GIfaces [GPtr (Some (GInt I8 true 5)); GBig 300]]) in
  let x := VList [Some (VTuple [Some (VInt 5); Some (VInt 300)])] in
  let t := YPtr (YSlice (YSlice YIface)) in
  good 4 ty g /\ denote ty g = Some (Some x)
  /\ marshal 4 ty g = Ok (Some [0;0;0;1; 0;0;0;14; 0;0;0;4;0;0;0;5; 0;0;0;2;1;44])
  /\ dec_good 4 ty x t
  /\ unmarshal 4 ty (Some [0;0;0;1; 0;0;0;14; 0;0;0;4;0;0;0;5; 0;0;0;2;1;44]) t
     = Ok (GPtr (Some (GSlice (Some [GSlice (Some [GInt IInt false 5; GPtr (Some (GBig 300))])])))).
Proof.
  cbv zeta. split.
  { cbn [good peel as_list]. repeat constructor; cbn; try lia; try discriminate; try (intros; discriminate);
      try (intros ? H; vm_compute in H; injection H as <-; vm_compute; reflexivity). }
  split; [vm_compute; reflexivity|]. split; [vm_compute; reflexivity|]. split; [|vm_compute; reflexivity].
  cbn. repeat constructor; cbn; try lia; try discriminate; try reflexivity.
  - eexists. split; [reflexivity|]. cbn. repeat split; try lia; try discriminate; try reflexivity.
  - eexists. split; [reflexivity|]. cbn. repeat split; try lia; try discriminate; try reflexivity.
Qed.
