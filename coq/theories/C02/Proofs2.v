(* C02/Proofs2.v -- null / empty / zero, and the lift of element round trips through list and set
   framing (both protocol framings) and through tuples read into []interface{}. *)
From GocqlV Require Import Lib.Base Lib.Bits Gen.Consts C12.Model C12.Spec C12.Denote
  C12.Proofs1 C12.Proofs2 C12.Proofs3 C12.Proofs4 C12.Proofs5 C02.Proofs1.

Local Open Scope Z_scope.
Set Default Timeout 300.

(* ---- null, empty, zero ------------------------------------------------------------------------------------- *)
Lemma nil_pointer_is_null pv ty g : peel g = None -> marshal pv ty g = Ok None.
Proof. intros H. destruct ty; cbn [marshal]; rewrite H; reflexivity. Qed.

Lemma null_into_pointer pv ty t : unmarshal pv ty None (YPtr t) = Ok (GPtr None).
Proof. reflexivity. Qed.

Lemma value_into_pointer pv ty b t g : unmarshal pv ty (Some b) (YPtr t) = Ok g -> exists v, g = GPtr (Some v) /\ unmarshal pv ty (Some b) t = Ok v.
Proof.
  unfold unmarshal. cbn [ptr_wrap]. destruct (ptr_wrap t (Some b) (unmarshal_core pv ty (Some b))) as [v| | |]; try discriminate.
  cbn. intros H. injection H as <-. eauto.
Qed.

Lemma empty_string_not_null pv n :
  marshal pv (TNative K.TypeText) (GStr n []) = Ok (Some [])
  /\ unmarshal pv (TNative K.TypeText) (Some []) (YPtr (YStr n)) = Ok (GPtr (Some (GStr n [])))
  /\ unmarshal pv (TNative K.TypeText) None (YPtr (YStr n)) = Ok (GPtr None)
  /\ marshal pv (TNative K.TypeBlob) (GBytes n (Some [])) = Ok (Some [])
  /\ marshal pv (TNative K.TypeBlob) (GBytes n None) = Ok None.
Proof. repeat split; reflexivity. Qed.

Lemma zero_time_is_empty pv :
  marshal pv (TNative K.TypeTimestamp) (GTime zero_time_sec 0) = Ok (Some [])
  /\ unmarshal pv (TNative K.TypeTimestamp) (Some []) YTime = Ok (GTime zero_time_sec 0)
  /\ marshal pv (TNative K.TypeDate) (GTime zero_time_sec 0) = Ok (Some [])
  /\ unmarshal pv (TNative K.TypeDate) (Some []) YTime = Ok (GTime zero_time_sec 0).
Proof. repeat split; reflexivity. Qed.

(* ---- collection framing --------------------------------------------------------------------------------------- *)
Lemma v3_test' pv : (K.protoVersion2 <? pv) = (2 <? pv).
Proof. reflexivity. Qed.

Lemma read_write_size pv n hd rest : write_size pv n = Ok hd -> (if 2 <? pv then -1 <= n else 0 <= n) ->
  read_size pv (hd ++ rest) = Ok (n, rest).
Proof.
  unfold write_size, read_size. rewrite v3_test'. unfold MaxInt32, MaxUint16. destruct (2 <? pv).
  - destruct (Z.ltb_spec 2147483647 n); [discriminate|]. intros Hq Hn. injection Hq as <-.
    replace (length (enc_int n ++ rest) <? 4)%nat with false by (symmetry; apply Nat.ltb_ge; rewrite app_length; cbn; lia).
    change (enc_int n ++ rest) with (byte_of (Z.shiftr n 24) :: byte_of (Z.shiftr n 16) :: byte_of (Z.shiftr n 8) :: byte_of n :: rest).
    cbn [firstn skipn]. change [byte_of (Z.shiftr n 24); byte_of (Z.shiftr n 16); byte_of (Z.shiftr n 8); byte_of n] with (enc_int n).
    rewrite dec_any_int. unfold signed. pow_consts. destruct (Z.ltb_spec (n mod 4294967296) 2147483648); do 2 f_equal; lia.
  - destruct (Z.ltb_spec 65535 n); [discriminate|]. intros Hq Hn. injection Hq as <-.
    replace (length (enc_short n ++ rest) <? 2)%nat with false by (symmetry; apply Nat.ltb_ge; rewrite app_length; cbn; lia).
    change (enc_short n ++ rest) with (byte_of (Z.shiftr n 8) :: byte_of n :: rest). cbn [nth skipn].
    unfold byte_of. rewrite Z.shiftr_div_pow2 by lia. rewrite lor_shiftl_add by (pow_consts; lia). pow_consts. do 2 f_equal. lia.
Qed.

(* what the decoder sees for an element that Marshal turned into [item]: nil only on protocol >= 3 *)
Definition seen (pv : Z) (item : option bytes) : option bytes := if 2 <? pv then item else Some (bytes_of item).

Lemma read_marshal_item pv f x a rest : marshal_item pv f x = Ok a ->
  exists item, f x = Ok item /\ read_elem pv (a ++ rest) = Ok (seen pv item, rest) /\ size_width pv <= blen a.
Proof.
  unfold marshal_item. destruct (f x) as [item| | |]; try discriminate. cbn [rbind]. intros H. exists item. split; [reflexivity|].
  rewrite v3_test' in H.
  destruct (write_size pv (match item with Some b => blen b | None => if 2 <? pv then -1 else 0 end)) as [sz| | |] eqn:Es; try discriminate.
  cbn [rbind] in H. injection H as <-. split.
  - unfold read_elem. rewrite <- app_assoc. rewrite (read_write_size pv _ sz (bytes_of item ++ rest) Es).
    + cbn [rbind]. unfold seen. destruct item as [b|]; cbn [bytes_of].
      * unfold blen. replace (0 <=? Z.of_nat (length b)) with true by (symmetry; apply Z.leb_le; lia).
        replace (Z.of_nat (length (b ++ rest)) <? Z.of_nat (length b)) with false by (symmetry; apply Z.ltb_ge; rewrite app_length; lia).
        rewrite Nat2Z.id. rewrite firstn_app, Nat.sub_diag, firstn_O, app_nil_r, firstn_all.
        rewrite skipn_app, Nat.sub_diag, skipn_all. cbn [skipn app]. destruct (2 <? pv); reflexivity.
      * destruct (2 <? pv); cbn [Z.leb Z.compare bytes_of app]; [reflexivity|]. unfold blen.
        destruct (Z.ltb_spec (Z.of_nat (length rest)) 0); [lia|reflexivity].
    + destruct item as [b|]; [unfold blen; destruct (2 <? pv); lia | destruct (2 <? pv); lia].
  - unfold write_size in Es. unfold size_width, blen. destruct (K.protoVersion2 <? pv).
    + destruct (MaxInt32 <? _); [discriminate|]. injection Es as <-. rewrite app_length, Nat2Z.inj_add. change (Z.of_nat (length (enc_int ?x))) with 4. lia.
    + destruct (MaxUint16 <? _); [discriminate|]. injection Es as <-. rewrite app_length, Nat2Z.inj_add. change (Z.of_nat (length (enc_short ?x))) with 2. lia.
Qed.

(* element round trip: Marshal succeeds and what the decoder sees decodes to hx *)
Definition elem_rt (pv : Z) (e : cqlty) (et : gty) (x hx : gval) : Prop :=
  exists item, marshal pv e x = Ok item /\ unmarshal pv e (seen pv item) et = Ok hx.

Lemma list_loop_rt pv e et : forall l h, Forall2 (elem_rt pv e et) l h -> forall r rest fuel,
  marshal_items pv (marshal pv e) l = Ok r -> (length l <= fuel)%nat ->
  list_loop fuel pv (fun ed => ptr_wrap et ed (unmarshal_core pv e ed)) (Z.of_nat (length l)) (r ++ rest) = Ok h
  /\ size_width pv * Z.of_nat (length l) <= blen r.
Proof.
  induction 1 as [|x hx l h Hx Hl IH]; intros r rest fuel Hm Hf.
  - cbn in Hm. injection Hm as <-. split; [|cbn; lia]. destruct fuel; reflexivity.
  - cbn [marshal_items] in Hm. destruct (marshal_item pv (marshal pv e) x) as [a| | |] eqn:Ea; try discriminate. cbn [rbind] in Hm.
    destruct (marshal_items pv (marshal pv e) l) as [r'| | |] eqn:Er; try discriminate. cbn [rbind] in Hm. injection Hm as <-.
    destruct fuel as [|fuel]; [cbn in Hf; lia|]. cbn [length] in *.
    destruct (read_marshal_item pv _ x a (r' ++ rest) Ea) as [item [Hi [Hr Hlen]]].
    destruct Hx as [item' [Hi' Hu]]. assert (item' = item) by congruence. subst item'.
    destruct (IH r' rest fuel eq_refl ltac:(lia)) as [IH1 IH2].
    split; [|unfold blen in *; rewrite app_length; lia].
    cbn [list_loop]. replace (Z.of_nat (S (length l)) <=? 0) with false by (symmetry; apply Z.leb_gt; lia).
    rewrite <- app_assoc, Hr. cbn [rbind fst snd]. unfold unmarshal in Hu. rewrite Hu. cbn [rbind].
    replace (Z.of_nat (S (length l)) - 1) with (Z.of_nat (length l)) by lia. rewrite IH1. reflexivity.
Qed.

Theorem rt_list_lift pv e et l h b :
  Forall2 (elem_rt pv e et) l h ->
  marshal_list pv (marshal pv e) (GSlice (Some l)) = Ok (Some b) ->
  unmarshal_list pv (unmarshal_core pv e) (Some b) (YSlice et) = Ok (GSlice (Some h)).
Proof.
  intros Hall Hm. cbn [marshal_list as_list] in Hm.
  destruct (write_size pv (Z.of_nat (length l))) as [hd| | |] eqn:Eh; try discriminate. cbn [rbind] in Hm.
  destruct (marshal_items pv (marshal pv e) l) as [r| | |] eqn:Er; try discriminate. cbn [rbind] in Hm. injection Hm as <-.
  cbn [unmarshal_list]. rewrite (read_write_size pv _ hd r Eh) by (destruct (2 <? pv); lia). cbn [rbind fst snd].
  replace (Z.of_nat (length l) <? 0) with false by (symmetry; apply Z.ltb_ge; lia).
  assert (Hw : 2 <= size_width pv) by (unfold size_width; destruct (K.protoVersion2 <? pv); lia).
  pose proof (proj2 (list_loop_rt pv e et l h Hall r [] (length l) Er (le_n _))) as Hlen.
  replace (blen r / size_width pv <? Z.of_nat (length l)) with false.
  2: { symmetry. apply Z.ltb_ge. apply Z.div_le_lower_bound; lia. }
  destruct (list_loop_rt pv e et l h Hall r [] (S (length (hd ++ r))) Er) as [H1 H2].
  - rewrite app_length. unfold blen in Hlen. nia.
  - rewrite app_nil_r in H1. rewrite H1. reflexivity.
Qed.

(* ---- tuples written from and read into []interface{} ----------------------------------------------------------- *)
(* component round trip: an untyped nil is written as -1 and read as nil data; anything else is written
   as what Marshal returned for it (-1 for nil, else length and bytes) and read back as exactly that *)
Definition comp_rt (pv : Z) (e : cqlty) (t : gty) (x hx : gval) : Prop :=
  match x with
  | GNil => unmarshal pv e None t = Ok hx
  | _ => exists data, marshal pv e x = Ok data /\ blen (bytes_of data) < 2 ^ 31
                      /\ unmarshal pv e data t = Ok hx
  end.

Fixpoint tuple_rt (pv : Z) (es : list cqlty) (l : list gval) (ts : list gty) (h : list gval) : Prop :=
  match es, l, ts, h with
  | [], [], _, [] => True
  | e :: es', x :: l', t :: ts', hx :: h' => comp_rt pv e t x hx /\ tuple_rt pv es' l' ts' h'
  | _, _, _, _ => False
  end.

Lemma read_bytes_frame n data rest : -1 <= n < 2 ^ 31 -> (0 <= n -> n = blen data) ->
  tuple_next (enc_int n ++ (if 0 <=? n then data else []) ++ rest) =
  Ok ((if 0 <=? n then Some data else None), rest).
Proof.
  intros Hn Hd. unfold tuple_next. replace (4 <=? length (enc_int n ++ _))%nat with true by (symmetry; apply Nat.leb_le; rewrite app_length; cbn; lia).
  unfold read_bytes.
  change (enc_int n ++ ?r) with (byte_of (Z.shiftr n 24) :: byte_of (Z.shiftr n 16) :: byte_of (Z.shiftr n 8) :: byte_of n :: r).
  cbn [firstn skipn]. change [byte_of (Z.shiftr n 24); byte_of (Z.shiftr n 16); byte_of (Z.shiftr n 8); byte_of n] with (enc_int n).
  rewrite dec_any_int. assert (Es : signed 32 n = n).
  { unfold signed. pow_consts. destruct (Z.ltb_spec (n mod 4294967296) 2147483648); lia. }
  rewrite Es. destruct (Z.leb_spec 0 n) as [H0|H0].
  - replace (n <? 0) with false by (symmetry; apply Z.ltb_ge; lia). specialize (Hd H0). subst n. unfold blen.
    replace (Z.of_nat (length (data ++ rest)) <? Z.of_nat (length data)) with false by (symmetry; apply Z.ltb_ge; rewrite app_length; lia).
    rewrite Nat2Z.id, firstn_app, Nat.sub_diag, firstn_O, app_nil_r, firstn_all, skipn_app, Nat.sub_diag, skipn_all. reflexivity.
  - replace (n <? 0) with true by (symmetry; apply Z.ltb_lt; lia). reflexivity.
Qed.

Theorem rt_tuple_lift pv : forall es l ts h bs, tuple_rt pv es l ts h ->
  tuple_items true (map (marshal pv) es) l = Ok bs ->
  tuple_ifaces (map (unmarshal_core pv) es) ts bs = Ok h.
Proof.
  induction es as [|e es IH]; intros l ts h bs Hrt Hm.
  - destruct l, h; cbn in Hrt; try contradiction. reflexivity.
  - destruct l as [|x l]; [contradiction|]. destruct ts as [|t ts]; [contradiction|]. destruct h as [|hx h]; [contradiction|].
    cbn [tuple_rt] in Hrt. destruct Hrt as [Hc Hrest]. cbn [map tuple_items] in Hm.
    destruct (tuple_elem true (marshal pv e) x) as [a| | |] eqn:Ea; try discriminate. cbn [rbind] in Hm.
    destruct (tuple_items true (map (marshal pv) es) l) as [b| | |] eqn:Eb; try discriminate. cbn [rbind] in Hm. injection Hm as <-.
    specialize (IH l ts h b Hrest Eb). cbn [map tuple_ifaces].
    unfold tuple_elem in Ea.
    assert (Hnext : exists p, tuple_next (a ++ b) = Ok (p, b) /\ unmarshal pv e p t = Ok hx).
    { destruct x; cbn [comp_rt] in Hc;
        try (destruct Hc as [data [Hd [Hs Hu]]]; rewrite Hd in Ea; cbn [rbind] in Ea; injection Ea as <-;
             exists data; split; [|exact Hu]; destruct data as [bs|]; cbn [append_bytes bytes_of] in *;
             [ pose proof (read_bytes_frame (blen bs) bs b ltac:(unfold blen in *; lia) ltac:(reflexivity)) as Hr;
               replace (0 <=? blen bs) with true in Hr by (symmetry; apply Z.leb_le; unfold blen; lia);
               cbv beta iota in Hr; first [exact Hr | rewrite <- app_assoc; exact Hr]
             | pose proof (read_bytes_frame (-1) [] b ltac:(pow_consts; lia) ltac:(lia)) as Hr; cbn [Z.leb Z.compare app] in Hr; exact Hr ]).
      injection Ea as <-. exists None. split; [|exact Hc].
      pose proof (read_bytes_frame (-1) [] b ltac:(pow_consts; lia) ltac:(lia)) as Hr. cbn [Z.leb Z.compare app] in Hr. exact Hr. }
    destruct Hnext as [p [Hn Hu]]. rewrite Hn. cbn [rbind fst snd]. unfold unmarshal in Hu. rewrite Hu. cbn [rbind]. rewrite IH. reflexivity.
Qed.
