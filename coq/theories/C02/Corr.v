(* C02/Corr.v -- the correspondence cases of C02 are those of the shared model (C12/Corr.v):
   gocql.Marshal / gocql.Unmarshal calls made by the round-trip harness cmd/c02. *)
From GocqlV Require Import Lib.Base C12.Model C12.Spec C12.Corr.

Definition case := C12.Corr.case.
Definition check := C12.Corr.check.
Definition run (cs : list case) : list N := C12.Corr.run cs.
