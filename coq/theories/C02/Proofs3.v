(* C02/Proofs3.v -- one round-trip statement for every type tree built from natives, lists, sets and tuples,
   both collection framings: composition of C12's two inductions over the type tree. *)
From GocqlV Require Import Lib.Base Gen.Consts C12.Model C12.Spec C12.Denote C12.Proofs4 C12.Proofs6.

Theorem rt_every_type pv ty g b t g' x :
  good pv ty g -> denote ty g = Some (Some x) -> marshal pv ty g = Ok (Some b) ->
  dec_good pv ty x t -> unmarshal pv ty (Some b) t = Ok g' ->
  denote ty g' = denote ty g.
Proof.
  intros Hg Hd Hm Hdg Hu. rewrite Hd.
  pose proof (marshal_is_spec pv ty g (Some b) (Some x) Hg Hm Hd) as Henc. unfold encode_opt in Henc.
  destruct (encode_value pv ty x) as [b'|] eqn:E; [|discriminate]. cbn in Henc. assert (b' = b) by congruence. subst b'.
  exact (unmarshal_is_spec pv ty x b t g' E Hdg Hu).
Qed.
