(* C02/Proofs1.v -- round trips of native columns, derived from the two directions proved for C12
   (Marshal = specification o meaning;  Unmarshal o specification = meaning), plus exact same-type round
   trips of the integer family and the primitive codecs. *)
From GocqlV Require Import Lib.Base Lib.Bits Gen.Consts C12.Model C12.Spec C12.Denote
  C12.Proofs1 C12.Proofs2 C12.Proofs3 C12.Proofs4 C12.Proofs5.

Local Open Scope Z_scope.
Set Default Timeout 300.

(* ---- primitive codecs ------------------------------------------------------------------------------------ *)
Lemma bigint2c_roundtrip n : dec_bigint2c (enc_bigint2c n) = n.
Proof.
  rewrite enc_bigint2c_minimal. unfold varint_bytes. pose proof (size2c_pos n). pose proof (size2c_fits n) as Hf.
  destruct (size2c n) as [|w]; [lia|]. apply dec_bigint2c_be_fixed. exact Hf.
Qed.

Lemma vint_roundtrip v rest : - 2 ^ 63 <= v < 2 ^ 63 -> dec_vint (enc_vint v ++ rest) = Some (v, rest).
Proof. intros Hv. rewrite enc_vint_spec by exact Hv. apply dec_vint_spec. exact Hv. Qed.

Lemma vints_roundtrip m d n : - 2 ^ 31 <= m < 2 ^ 31 -> - 2 ^ 31 <= d < 2 ^ 31 -> - 2 ^ 63 <= n < 2 ^ 63 ->
  dec_vints (enc_vints m d n) = Some (m, d, n).
Proof.
  intros Hm Hd Hn. unfold enc_vints. rewrite !enc_vint_spec by (unfold int64; pow_consts; lia).
  apply dec_vints_spec; apply fits_signed_iff; cbn; pow_consts; lia.
Qed.

(* ---- every native column: what comes back means what went in ----------------------------------------------- *)
Theorem rt_native id g b t g' x :
  wf_native g -> clean_native id g -> denote_native id g = Some (Some x) ->
  marshal_native id g = Ok (Some b) ->
  dec_compat id t -> dec_clean id x t ->
  unmarshal_native id (Some b) t = Ok g' ->
  denote_native id g' = denote_native id g.
Proof.
  intros Hwf Hcl Hd Hm Hc Hdc Hu. rewrite Hd.
  pose proof (marshal_native_spec id g (Some b) (Some x) Hwf Hcl Hm Hd) as Henc.
  unfold enc_opt_native in Henc. destruct (encode_native id x) as [b'|] eqn:E; [|discriminate]. cbn in Henc.
  assert (b' = b) by congruence. subst b'.
  exact (unmarshal_native_spec id x b t g' E Hc Hdc Hu).
Qed.

(* ---- integer family, same Go type back: exact, for every kind including the unsigned ones ------------------ *)
Lemma dec_any_int z : dec_int (enc_int z) = signed 32 z.
Proof.
  rewrite enc_int_spec. pose proof (be_val_be_fixed 4 z) as Hv. rewrite !be_fixed_S, be_fixed_0 in *.
  rewrite dec_int_val by apply byte_mod. rewrite Hv. unfold signed. change (256 ^ Z.of_nat 4) with (2 ^ 32). rewrite Z.mod_mod by (pow_consts; lia). reflexivity.
Qed.
Lemma dec_any_short z : dec_short (enc_short z) = signed 16 z.
Proof.
  rewrite enc_short_spec. pose proof (be_val_be_fixed 2 z) as Hv. rewrite !be_fixed_S, be_fixed_0 in *.
  rewrite dec_short_val by apply byte_mod. rewrite Hv. unfold signed. change (256 ^ Z.of_nat 2) with (2 ^ 16). rewrite Z.mod_mod by (pow_consts; lia). reflexivity.
Qed.
Lemma dec_any_bigint z : dec_bigint (enc_bigint z) = signed 64 z.
Proof.
  rewrite enc_bigint_spec. pose proof (be_val_be_fixed 8 z) as Hv. rewrite !be_fixed_S, be_fixed_0 in *.
  rewrite dec_bigint_val by apply byte_mod. rewrite Hv. unfold signed. change (256 ^ Z.of_nat 8) with (2 ^ 64). rewrite Z.mod_mod by (pow_consts; lia). reflexivity.
Qed.
Lemma dec_any_tiny z : dec_tiny [byte_of z] = signed 8 z.
Proof. unfold dec_tiny, sx8, signed, byte_of. pow_consts. reflexivity. Qed.

Ltac norm_consts :=
  unfold MaxInt8, MinInt8, MaxUint8, MaxInt16, MinInt16, MaxUint16, MaxInt32, MinInt32, MaxUint32, MaxInt64, nez,
    K.TypeInt, K.TypeSmallInt, K.TypeTinyInt, K.TypeBigInt, K.TypeCounter in *.

(* after Marshal succeeded on an integer of kind k, decoding the bytes into the same kind gives the integer *)
Lemma same_kind_back id (z : Z) (dec : Z) k :
  kmin k <= z <= kmax k ->
  (id = 20 /\ dec = signed 8 z /\ (is_signed k = true -> -128 <= z <= 127) /\ (is_signed k = false -> z <= 255))
  \/ (id = 19 /\ dec = signed 16 z /\ (is_signed k = true -> -32768 <= z <= 32767) /\ (is_signed k = false -> z <= 65535))
  \/ (id = 9 /\ dec = signed 32 z /\ (is_signed k = true -> -2147483648 <= z <= 2147483647) /\ (is_signed k = false -> z <= 4294967295))
  \/ ((id = 2 \/ id = 5) /\ dec = signed 64 z) ->
  intlike_int id dec k = Ok z.
Proof.
  intros Hk H. unfold intlike_int, wrap. norm_consts.
  destruct H as [[-> [-> [H1 H2]]]|[[-> [-> [H1 H2]]]|[[-> [-> [H1 H2]]]|[Hid ->]]]].
  4: destruct Hid as [-> | ->].
  all: cbn [Z.eqb Pos.eqb negb andb]; unfold signed; pow_consts; destruct k; cbn [kmin kmax is_signed] in *;
    try specialize (H1 eq_refl); try specialize (H2 eq_refl);
    rewrite ?land255, ?land65535, ?land32;
    repeat match goal with |- context [?a <? ?b] => destruct (Z.ltb_spec a b) end;
    cbn [orb]; try (f_equal; lia); try lia.
Qed.

Ltac rt_int_tac dec_lemma :=
  match goal with
  | Hm : _ = Ok (Some ?b), Hk : kmin ?k <= ?z <= kmax ?k |- _ =>
      norm_consts; unfold some_bytes in Hm;
      destruct k; cbn [is_signed kmin kmax] in *;
      repeat match type of Hm with
             | context [if ?c then _ else _] => let E := fresh "E" in destruct c eqn:E; try discriminate
             end;
      bool_hyps;
      apply (f_equal (fun r => match r with Ok (Some a) => a | _ => [] end)) in Hm; cbv beta iota in Hm; subst b;
      rewrite dec_lemma; cbn [unmarshal_intlike];
      (rewrite (same_kind_back _ z _ _); [reflexivity | cbn [kmin kmax]; lia | cbn [is_signed]; intuition (try discriminate; try lia)])
  end.

Theorem rt_int_same_type id k n n' z b :
  In id [K.TypeTinyInt; K.TypeSmallInt; K.TypeInt; K.TypeBigInt; K.TypeCounter] ->
  kmin k <= z <= kmax k ->
  marshal_native id (GInt k n z) = Ok (Some b) ->
  unmarshal_native id (Some b) (YInt k n') = Ok (GInt k n' z).
Proof.
  intros Hin Hk Hm. cbn in Hin.
  destruct Hin as [<-|[<-|[<-|[<-|[<-|[]]]]]]; unfold marshal_native, unmarshal_native in *;
    unfold K.TypeVarchar, K.TypeAscii, K.TypeBlob, K.TypeText, K.TypeBoolean, K.TypeTinyInt, K.TypeSmallInt, K.TypeInt, K.TypeBigInt,
      K.TypeCounter, K.TypeVarint in *; cbn [Z.eqb Pos.eqb orb bytes_of] in *.
  - cbn [marshal_tinyint as_named] in Hm. destruct n; rt_int_tac dec_any_tiny.
  - cbn [marshal_smallint as_named] in Hm. destruct n; rt_int_tac dec_any_short.
  - cbn [marshal_int as_named] in Hm. destruct n; rt_int_tac dec_any_int.
  - cbn [marshal_bigint as_named] in Hm. destruct n; rt_int_tac dec_any_bigint.
  - cbn [marshal_bigint as_named] in Hm. destruct n; rt_int_tac dec_any_bigint.
Qed.
