(* C10/Refuted.v -- full statements of property C10 that the faithful model (= the code as it is) violates,
   with the witnesses recorded in /verif/known_findings.json (nts-duplicate-replica, nts-unknown-dc-panic).
   Each witness satisfies every well-formedness hypothesis of the theorems in Props.v except the one that
   excludes the defect. *)
From GocqlV Require Import Lib.Base C10.Model C10.Spec C10.Proofs1 C10.Proofs6.
From Coq Require Import Sorting.Sorted.
Open Scope Z_scope.

Module Witness.
  Definition dc1 : str := [100; 99; 49].
  Definition dc2 : str := [100; 99; 50].
  Definition dc3 : str := [100; 99; 51].
  Definition r1 : str := [114; 49].
  (* every host in dc1 / rack r1 *)
  Definition one_rack (h : Z) : hinfo := mkInfo dc1 r1 (167772161 + h).
  (* hosts 0,1,2 with two adjacent tokens each *)
  Definition ring_vnodes : @ring Z := [(0, 0); (10, 0); (20, 1); (30, 1); (40, 2); (50, 2)].
  (* host 0 in dc1, host 1 in dc2 *)
  Definition two_dcs (h : Z) : hinfo := mkInfo (if h =? 0 then dc1 else dc2) r1 (167772161 + h).
  Definition ring_two : @ring Z := [(0, 0); (10, 1)].
End Witness.
Import Witness.

Lemma sorted_toks_check (r : @ring Z) :
  (fix ok (l : list (Z * Z)) : bool :=
     match l with [] => true | x :: l' => forallb (fun y => negb (fst y <? fst x)) l' && ok l' end) r = true ->
  sorted_toks Z.ltb r.
Proof.
  induction r as [|x r IH]; intros H; [constructor|].
  apply andb_true_iff in H. destruct H as [H1 H2]. constructor; [apply IH; exact H2|].
  rewrite Forall_forall. rewrite forallb_forall in H1. intros y Hy. specialize (H1 y Hy).
  apply negb_true_iff in H1. exact H1.
Qed.

(* F-C10-1: with several tokens per host NetworkTopologyStrategy's replica list names a host twice:
   3 hosts x 2 tokens, one rack, dc1: 2 -> token 0 is given [0; 0] *)
Theorem nts_duplicate_refuted :
  exists (info : Z -> hinfo) (dcs : amap Z) (hosts : list Z) (r : @ring Z),
    Forall (fun e => 0 <= snd e) dcs /\ NoDup (map fst dcs) /\ sorted_toks Z.ltb r
    /\ (forall h, In h hosts <-> In h (map snd r))
    /\ exists m reps, nts_replica_map info dcs hosts r = Ok m /\ In (0, reps) m /\ ~ NoDup reps.
Proof.
  exists one_rack, [(dc1, 2)], [0; 1; 2], ring_vnodes.
  split; [repeat constructor; simpl; lia|]. split; [repeat constructor; simpl; tauto|].
  split; [apply sorted_toks_check; reflexivity|].
  split; [intros h; simpl; intuition|].
  exists [(0, [0; 0]); (10, [0; 1]); (20, [1; 1]); (30, [1; 2]); (40, [2; 2]); (50, [2; 0])], [0; 0].
  split; [vm_compute; reflexivity|]. split; [left; reflexivity|].
  intros H. inversion H as [|? ? Hn _]; subst. apply Hn. left. reflexivity.
Qed.

(* ... and then differs from Cassandra's placement, which lists hosts 0 and 1 *)
Theorem nts_vnodes_not_cassandra_refuted :
  exists (info : Z -> hinfo) (dcs : amap Z) (hosts : list Z) (r : @ring Z) (m : @rmap Z) (t : Z),
    Forall (fun e => 0 <= snd e) dcs /\ NoDup (map fst dcs) /\ sorted_toks Z.ltb r
    /\ (forall h, In h hosts <-> In h (map snd r))
    /\ nts_replica_map info dcs hosts r = Ok m
    /\ reps_or_nil (replicas_for Z.ltb m t) = [0; 0]
    /\ nts_natural_endpoints Z.ltb (dc_of info) (rack_of info) dcs r t = [0; 1].
Proof.
  exists one_rack, [(dc1, 2)], [0; 1; 2], ring_vnodes,
         [(0, [0; 0]); (10, [0; 1]); (20, [1; 1]); (30, [1; 2]); (40, [2; 2]); (50, [2; 0])], 0.
  split; [repeat constructor; simpl; lia|]. split; [repeat constructor; simpl; tauto|].
  split; [apply sorted_toks_check; reflexivity|].
  split; [intros h; simpl; intuition|].
  split; [vm_compute; reflexivity|]. split; vm_compute; reflexivity.
Qed.

(* ... and a list can be longer than the ring has nodes: one host with two tokens, dc1: 2 -> [0; 0] *)
Theorem nts_exceeds_nodes_refuted :
  exists (info : Z -> hinfo) (dcs : amap Z) (hosts : list Z) (r : @ring Z),
    Forall (fun e => 0 <= snd e) dcs /\ NoDup (map fst dcs) /\ sorted_toks Z.ltb r
    /\ (forall h, In h hosts <-> In h (map snd r))
    /\ exists m e, nts_replica_map info dcs hosts r = Ok m /\ In e m
                   /\ (length (snd e) > length (nodup Z.eq_dec (map snd r)))%nat.
Proof.
  exists one_rack, [(dc1, 2)], [0], [(0, 0); (10, 0)].
  split; [repeat constructor; simpl; lia|]. split; [repeat constructor; simpl; tauto|].
  split; [apply sorted_toks_check; reflexivity|].
  split; [intros h; simpl; intuition|].
  exists [(0, [0; 0]); (10, [0; 0])], (0, [0; 0]).
  split; [vm_compute; reflexivity|]. split; [left; reflexivity|]. vm_compute. lia.
Qed.

(* F-C10-2: a keyspace replicated to a datacenter the ring does not contain panics with "token map different
   size to token ring" when as many keyspace DCs have a factor as the ring has DCs: ring dc1 + dc2, keyspace
   {dc1: 1, dc3: 1} (one token per host, every hypothesis of the placement theorems holds) *)
Theorem nts_unknown_dc_crash_refuted :
  exists (info : Z -> hinfo) (dcs : amap Z) (hosts : list Z) (r : @ring Z),
    Forall (fun e => 0 <= snd e) dcs /\ NoDup (map fst dcs) /\ sorted_toks Z.ltb r
    /\ NoDup (map snd r) /\ (forall h, In h hosts <-> In h (map snd r))
    /\ nts_replica_map info dcs hosts r = Crash PanicSize.
Proof.
  exists two_dcs, [(dc1, 1); (dc3, 1)], [0; 1], ring_two.
  split; [repeat constructor; simpl; lia|].
  split; [repeat constructor; simpl; intuition discriminate|].
  split; [apply sorted_toks_check; reflexivity|].
  split; [repeat constructor; simpl; intuition discriminate|].
  split; [intros h; simpl; intuition|].
  vm_compute. reflexivity.
Qed.
