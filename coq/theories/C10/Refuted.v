(* C10/Refuted.v -- regression facts about networkTopology.replicaMap as it was BEFORE the two repairs
   recorded in /verif/known_findings.json (nts-duplicate-replica, nts-unknown-dc-panic; both fixed).
   [PreFix] is the model of the old code: no seenHosts set in the inner loop, and the closing size check
   counting every keyspace DC with a positive factor.  The witnesses satisfy every well-formedness hypothesis of
   the theorems in Props.v; on the current model (C10/Model.v) the same inputs give Cassandra's answers
   (the *_now facts), which Props.v proves for all inputs. *)
From GocqlV Require Import Lib.Base C10.Model C10.Spec C10.Proofs1 C10.Proofs6.
From Coq Require Import Sorting.Sorted.
Open Scope Z_scope.

Module PreFix.
  Section Old.
    Context {T : Type}.
    Variable info : Z -> hinfo.
    Variable dcs : amap Z.
    Variable dc_racks : amap (list (list Z)).

    Fixpoint nts_loop (walk : list Z) (st : nts_state) : res nts_state :=
      match walk with
      | [] => Ok st
      | h :: rest =>
          if nts_guard dcs st
          then match nts_step info dcs dc_racks st h with
               | Ok st' => nts_loop rest st'
               | Crash c => Crash c
               end
          else Ok st
      end.

    Definition nts_token (ring_hosts : list Z) (i : nat) (th : Z) : res (list Z) :=
      match nts_loop (rotate i ring_hosts) (nts_state0 dcs dc_racks) with
      | Crash c => Crash c
      | Ok st =>
          match ns_replicas st with
          | [] => Crash PanicNoReplicas
          | r0 :: _ => if host_equal info r0 th then Ok (ns_replicas st) else Crash PanicNotPrimary
          end
      end.

    Fixpoint nts_outer (ring_hosts : list Z) (l : list (nat * (T * Z))) (acc : @rmap T) : res (@rmap T) :=
      match l with
      | [] => Ok acc
      | (i, (tok, th)) :: l' =>
          if getz dcs (dc_of info th) =? 0 then nts_outer ring_hosts l' acc
          else match nts_token ring_hosts i th with
               | Crash c => Crash c
               | Ok reps => nts_outer ring_hosts l' (acc ++ [(tok, reps)])
               end
      end.

    Definition dcs_with_replicas : nat := length (filter (fun e => snd e >? 0) dcs).
  End Old.

  Definition nts_replica_map {T} (info : Z -> hinfo) (dcs : amap Z) (hosts : list Z) (r : @ring T) : res (@rmap T) :=
    let dc_racks := mk_dc_racks info hosts in
    match nts_outer info dcs dc_racks (map snd r) (indexed r) [] with
    | Crash c => Crash c
    | Ok m =>
        if (dcs_with_replicas dcs =? length dc_racks)%nat && negb (length m =? length r)%nat
        then Crash PanicSize
        else Ok m
    end.
End PreFix.

Module Witness.
  Definition dc1 : str := [100; 99; 49].
  Definition dc2 : str := [100; 99; 50].
  Definition dc3 : str := [100; 99; 51].
  Definition r1 : str := [114; 49].
  (* every host in dc1 / rack r1 *)
  Definition one_rack (h : Z) : hinfo := mkInfo dc1 r1 (167772161 + h).
  (* hosts 0,1,2 with two adjacent tokens each *)
  Definition ring_vnodes : @ring Z := [(0, 0); (10, 0); (20, 1); (30, 1); (40, 2); (50, 2)].
  (* host 0 in dc1, host 1 in dc2 *)
  Definition two_dcs (h : Z) : hinfo := mkInfo (if h =? 0 then dc1 else dc2) r1 (167772161 + h).
  Definition ring_two : @ring Z := [(0, 0); (10, 1)].
End Witness.
Import Witness.

Lemma sorted_toks_check (r : @ring Z) :
  (fix ok (l : list (Z * Z)) : bool :=
     match l with [] => true | x :: l' => forallb (fun y => negb (fst y <? fst x)) l' && ok l' end) r = true ->
  sorted_toks Z.ltb r.
Proof.
  induction r as [|x r IH]; intros H; [constructor|].
  apply andb_true_iff in H. destruct H as [H1 H2]. constructor; [apply IH; exact H2|].
  rewrite Forall_forall. rewrite forallb_forall in H1. intros y Hy. specialize (H1 y Hy).
  apply negb_true_iff in H1. exact H1.
Qed.

(* F-C10-1 (fixed): with several tokens per host the old NetworkTopologyStrategy code named a host twice:
   3 hosts x 2 tokens, one rack, dc1: 2 -> token 0 is given [0; 0] *)
Theorem nts_duplicate_refuted :
  exists (info : Z -> hinfo) (dcs : amap Z) (hosts : list Z) (r : @ring Z),
    Forall (fun e => 0 <= snd e) dcs /\ NoDup (map fst dcs) /\ sorted_toks Z.ltb r
    /\ (forall h, In h hosts <-> In h (map snd r))
    /\ exists m reps, PreFix.nts_replica_map info dcs hosts r = Ok m /\ In (0, reps) m /\ ~ NoDup reps.
Proof.
  exists one_rack, [(dc1, 2)], [0; 1; 2], ring_vnodes.
  split; [repeat constructor; simpl; lia|]. split; [repeat constructor; simpl; tauto|].
  split; [apply sorted_toks_check; reflexivity|].
  split; [intros h; simpl; intuition|].
  exists [(0, [0; 0]); (10, [0; 1]); (20, [1; 1]); (30, [1; 2]); (40, [2; 2]); (50, [2; 0])], [0; 0].
  split; [vm_compute; reflexivity|]. split; [left; reflexivity|].
  intros H. inversion H as [|? ? Hn _]; subst. apply Hn. left. reflexivity.
Qed.

(* ... and then differs from Cassandra's placement, which lists hosts 0 and 1 *)
Theorem nts_vnodes_not_cassandra_refuted :
  exists (info : Z -> hinfo) (dcs : amap Z) (hosts : list Z) (r : @ring Z) (m : @rmap Z) (t : Z),
    Forall (fun e => 0 <= snd e) dcs /\ NoDup (map fst dcs) /\ sorted_toks Z.ltb r
    /\ (forall h, In h hosts <-> In h (map snd r))
    /\ PreFix.nts_replica_map info dcs hosts r = Ok m
    /\ reps_or_nil (replicas_for Z.ltb m t) = [0; 0]
    /\ nts_natural_endpoints Z.ltb (dc_of info) (rack_of info) dcs r t = [0; 1].
Proof.
  exists one_rack, [(dc1, 2)], [0; 1; 2], ring_vnodes,
         [(0, [0; 0]); (10, [0; 1]); (20, [1; 1]); (30, [1; 2]); (40, [2; 2]); (50, [2; 0])], 0.
  split; [repeat constructor; simpl; lia|]. split; [repeat constructor; simpl; tauto|].
  split; [apply sorted_toks_check; reflexivity|].
  split; [intros h; simpl; intuition|].
  split; [vm_compute; reflexivity|]. split; vm_compute; reflexivity.
Qed.

(* ... and a list can be longer than the ring has nodes: one host with two tokens, dc1: 2 -> [0; 0] *)
Theorem nts_exceeds_nodes_refuted :
  exists (info : Z -> hinfo) (dcs : amap Z) (hosts : list Z) (r : @ring Z),
    Forall (fun e => 0 <= snd e) dcs /\ NoDup (map fst dcs) /\ sorted_toks Z.ltb r
    /\ (forall h, In h hosts <-> In h (map snd r))
    /\ exists m e, PreFix.nts_replica_map info dcs hosts r = Ok m /\ In e m
                   /\ (length (snd e) > length (nodup Z.eq_dec (map snd r)))%nat.
Proof.
  exists one_rack, [(dc1, 2)], [0], [(0, 0); (10, 0)].
  split; [repeat constructor; simpl; lia|]. split; [repeat constructor; simpl; tauto|].
  split; [apply sorted_toks_check; reflexivity|].
  split; [intros h; simpl; intuition|].
  exists [(0, [0; 0]); (10, [0; 0])], (0, [0; 0]).
  split; [vm_compute; reflexivity|]. split; [left; reflexivity|]. vm_compute. lia.
Qed.

(* F-C10-2 (fixed): with the old code a keyspace replicated to a datacenter the ring does not contain panicked with "token map different
   size to token ring" when as many keyspace DCs have a factor as the ring has DCs: ring dc1 + dc2, keyspace
   {dc1: 1, dc3: 1} (one token per host, every hypothesis of the placement theorems holds) *)
Theorem nts_unknown_dc_crash_refuted :
  exists (info : Z -> hinfo) (dcs : amap Z) (hosts : list Z) (r : @ring Z),
    Forall (fun e => 0 <= snd e) dcs /\ NoDup (map fst dcs) /\ sorted_toks Z.ltb r
    /\ NoDup (map snd r) /\ (forall h, In h hosts <-> In h (map snd r))
    /\ PreFix.nts_replica_map info dcs hosts r = Crash PanicSize.
Proof.
  exists two_dcs, [(dc1, 1); (dc3, 1)], [0; 1], ring_two.
  split; [repeat constructor; simpl; lia|].
  split; [repeat constructor; simpl; intuition discriminate|].
  split; [apply sorted_toks_check; reflexivity|].
  split; [repeat constructor; simpl; intuition discriminate|].
  split; [intros h; simpl; intuition|].
  vm_compute. reflexivity.
Qed.

(* the same inputs on the current model: Cassandra's placement, no panic *)
Example nts_vnodes_now :
  nts_replica_map one_rack [(dc1, 2)] [0; 1; 2] ring_vnodes
  = Ok [(0, [0; 1]); (10, [0; 1]); (20, [1; 2]); (30, [1; 2]); (40, [2; 0]); (50, [2; 0])].
Proof. vm_compute. reflexivity. Qed.

Example nts_one_host_now : nts_replica_map one_rack [(dc1, 2)] [0] [(0, 0); (10, 0)] = Ok [(0, [0]); (10, [0])].
Proof. vm_compute. reflexivity. Qed.

Example nts_unknown_dc_now : nts_replica_map two_dcs [(dc1, 1); (dc3, 1)] [0; 1] ring_two = Ok [(0, [0])].
Proof. vm_compute. reflexivity. Qed.

(* ---- outside the property's quantifier: a host that owns no token ------------------------------------
   The property quantifies over rings of nodes with 1..v tokens each.  Cassandra's topology holds token owners
   only; the driver builds its rack table (dcRacks) from tokenRing.hosts, so the rack of a host WITHOUT tokens
   counts as a rack of its DC although no ring entry is ever in it.  "Every rack used" is then never reached and
   the endpoints passed over are never appended: fewer replicas than Cassandra places.  Such a host does not
   reach the token-aware policy through a session - isValidPeer (host_source.go) drops peers without tokens and
   the local node always reports its tokens - so this is recorded as an observation, not as a finding, and the
   placement theorems carry [forall h, In h hosts <-> In h (map snd r)].  Machine-checked instance: hosts 0,1
   (rack r1, tokens 0 and 10) and host 2 (rack r2, no token), dc1: 2 -> the driver gives [0] for token 0,
   Cassandra [0; 1]. *)
Example tokenless_host_observation :
  let info := fun h => mkInfo dc1 (if h =? 2 then [114; 50] else r1) (167772161 + h) in
  nts_replica_map info [(dc1, 2)] [0; 1; 2] [(0, 0); (10, 1)] = Ok [(0, [0]); (10, [1])]
  /\ nts_natural_endpoints Z.ltb (dc_of info) (rack_of info) [(dc1, 2)] [(0, 0); (10, 1)] 0 = [0; 1]
  /\ nts_replica_map info [(dc1, 2)] [0; 1] [(0, 0); (10, 1)] = Ok [(0, [0; 1]); (10, [1; 0])].
Proof. repeat split; vm_compute; reflexivity. Qed.
