(* C10/Corr.v -- correspondence cases: each constructor carries an input and what the real
   implementation (package gocql, through verif_shim_c10.go) returned for it; [check] runs the
   model on the input and compares.  Tokens cross the boundary as the strings token.String() prints. *)
From GocqlV Require Import Lib.Base C10.Model C10.Spec.

Inductive part := PMurmur | POrdered | PRandom.

Inductive outcome :=
| ONoStrategy                              (* getStrategy returned nil *)
| ONotRun                                  (* strategy selected, replicaMap not run *)
| OPanic (k : Z)                           (* replicaMap panicked: 1 overflow, 2 no replicas, 3 not primary, 4 size *)
| OMap (m : list (str * list Z)).          (* replicaMap returned: (token.String(), host ids) in order *)

Inductive case :=
| CStrategy (class : str) (opts : amap optval) (out : option strategy)     (* getStrategy (dcs sorted by key, as opts) *)
| CParseTok (p : part) (s : str) (out : str)                              (* ParseString(s).String() *)
| CRing (p : part)
        (hosts : list (Z * hinfo * list str))                             (* id, dc/rack/addr, Tokens() *)
        (ringv : list (str * Z))                                          (* tokenRing.tokens after newTokenRing *)
        (class : str) (opts : amap optval) (strat : option strategy)      (* keyspace, getStrategy's answer *)
        (out : outcome)
        (lookups : list (str * option (str * list Z) * option (Z * str)))  (* token, replicasFor, GetHostForToken *)
| CPick (p : part)
        (hosts : list (Z * hinfo * list str))                             (* the policy's hosts after the history of AddHost / RemoveHost, all up *)
        (class : str) (opts : amap optval) (have_ks : bool)               (* keyspace metadata; have_ks = false: the lookup fails *)
        (picks : list (str * list Z)).                                    (* Hash(routing key).String(), the hosts TokenAwareHostPolicy(RoundRobin).Pick offered *)

(* strconv.FormatInt / big.Int.String for the values that occur *)
Fixpoint dec_digits (fuel : nat) (n : Z) (acc : str) : str :=
  match fuel with
  | O => acc
  | S f => if n <? 10 then (48 + n) :: acc else dec_digits f (n / 10) ((48 + n mod 10) :: acc)
  end.
Definition show_z (v : Z) : str := if v <? 0 then 45 :: dec_digits 60 (- v) [] else dec_digits 60 v [].

Definition strategy_eqb (a b : option strategy) : bool :=
  match a, b with
  | None, None => true
  | Some (SSimple x), Some (SSimple y) => x =? y
  | Some (SNts x), Some (SNts y) =>
      (length x =? length y)%nat && forallb (fun '(p, q) => zlist_eqb (fst p) (fst q) && (snd p =? snd q)) (combine x y)
  | _, _ => false
  end.

Definition crash_code (c : crash) : Z :=
  match c with PanicOverflow => 1 | PanicNoReplicas => 2 | PanicNotPrimary => 3 | PanicSize => 4 end.

Fixpoint all_some {A} (l : list (option A)) : option (list A) :=
  match l with
  | [] => Some []
  | None :: _ => None
  | Some x :: r => match all_some r with Some r' => Some (x :: r') | None => None end
  end.

Section Check.
  Context {T : Type}.
  Variable ltb : T -> T -> bool.
  Variable parse : str -> option T.
  Variable teqb : T -> T -> bool.

  (* tokens printed by the implementation are read back with the partitioner's parser (printing itself
     is compared in the CParseTok cases: Z division is too slow to print every ring token here) *)
  Definition tok_is (a : T) (s : str) : bool := match parse s with Some b => teqb a b | None => false end.
  Definition eeqb (a b : T * Z) : bool := teqb (fst a) (fst b) && (snd a =? snd b).

  Fixpoint list_eqb {A B} (eqb : A -> B -> bool) (a : list A) (b : list B) : bool :=
    match a, b with
    | [], [] => true
    | x :: a', y :: b' => eqb x y && list_eqb eqb a' b'
    | _, _ => false
    end.

  Fixpoint sortedb (l : list (T * Z)) : bool :=
    match l with
    | [] => true
    | x :: l' => match l' with [] => true | y :: _ => negb (ltb (fst y) (fst x)) && sortedb l' end
    end.
  Fixpoint strictb (l : list (T * Z)) : bool :=
    match l with
    | [] => true
    | x :: l' => match l' with [] => true | y :: _ => ltb (fst x) (fst y) && strictb l' end
    end.
  Definition countb (e : T * Z) (l : list (T * Z)) : nat := length (filter (eeqb e) l).
  Definition permb (a b : list (T * Z)) : bool :=
    (length a =? length b)%nat && forallb (fun e => (countb e a =? countb e b)%nat) a.

  Definition info_of (hosts : list (Z * hinfo * list str)) (h : Z) : hinfo :=
    match find (fun e => fst (fst e) =? h) hosts with
    | Some e => snd (fst e)
    | None => mkInfo [] [] 0
    end.

  Definition parse_hosts (hosts : list (Z * hinfo * list str)) : option (list (Z * list T)) :=
    all_some (map (fun e => match all_some (map parse (snd e)) with
                            | Some ts => Some (fst (fst e), ts)
                            | None => None
                            end) hosts).
  Definition parse_ring (rv : list (str * Z)) : option (list (T * Z)) :=
    all_some (map (fun e => match parse (fst e) with Some t => Some (t, snd e) | None => None end) rv).

  Definition entry_eqb (a : T * list Z) (b : str * list Z) : bool :=
    tok_is (fst a) (fst b) && zlist_eqb (snd a) (snd b).

  Fixpoint prefixb (a b : list Z) : bool :=
    match a, b with
    | [], _ => true
    | x :: a', y :: b' => (x =? y) && prefixb a' b'
    | _ :: _, [] => false
    end.
  Fixpoint nodupb (l : list Z) : bool :=
    match l with [] => true | x :: l' => negb (zmem x l') && nodupb l' end.

  Definition check_ring (hosts : list (Z * hinfo * list str)) (ringv : list (str * Z))
             (class : str) (opts : amap optval) (strat : option strategy) (out : outcome)
             (lookups : list (str * option (str * list Z) * option (Z * str))) : bool :=
    match parse_hosts hosts, parse_ring ringv with
    | Some hs, Some R =>
        let U := flatten_hosts hs in
        let ring_ok := sortedb R && permb U R
                       && (if strictb R then list_eqb eeqb R (new_token_ring ltb hs) else true) in
        let ms := get_strategy class opts in
        let model_out := match ms with
                         | None => None
                         | Some s => Some (replica_map (info_of hosts) s (map (fun e => fst (fst e)) hosts) R)
                         end in
        let out_ok :=
          match out, model_out with
          | ONoStrategy, None => true
          | ONotRun, Some _ => true
          | OPanic k, Some (Crash c) => crash_code c =? k
          | OMap m, Some (Ok m') => list_eqb entry_eqb m' m
          | _, _ => false
          end in
        let look_ok :=
          forallb (fun '(ts, rf_out, owner) =>
            match parse ts with
            | None => false
            | Some t =>
                (match out, model_out with
                 | OMap _, Some (Ok m') =>
                     match replicas_for ltb m' t, rf_out with
                     | None, None => true
                     | Some e, Some e' => entry_eqb e e'
                     | _, _ => false
                     end
                 | _, _ => match rf_out with None => true | Some _ => false end
                 end)
                && (match get_host_for_token ltb R t, owner with
                    | None, None => true
                    | Some (h, tk), Some (h', tk') => (h =? h') && tok_is tk tk'
                    | _, _ => false
                    end)
            end) lookups in
        (* the two formulations of Cassandra's NetworkTopologyStrategy (Spec.v) agree as sets on every lookup token
           of a ring of at most 30 entries; the 1.2-2.2 one is the list the driver returned *)
        let specs_ok :=
          match ms, out with
          | Some (SNts dcs), OMap _ =>
              if (length R <=? 30)%nat then
                forallb (fun '(ts, rf_out, _) =>
                  match parse ts with
                  | None => false
                  | Some t =>
                      let a := nts_natural_endpoints ltb (dc_of (info_of hosts)) (rack_of (info_of hosts)) dcs R t in
                      let b := nts40_natural_endpoints ltb (dc_of (info_of hosts)) (rack_of (info_of hosts)) dcs R t in
                      (length a =? length b)%nat && forallb (fun h => zmem h b) a && nodupb b
                      && (if forallb (fun e => negb (length (snd e) =? 0)%nat) hosts
                          then match rf_out with Some e' => zlist_eqb a (snd e') | None => (length a =? 0)%nat end
                          else true)
                  end) lookups
              else true
          | _, _ => true
          end in
        ring_ok && strategy_eqb ms strat && out_ok && look_ok && specs_ok
    | _, _ => false
    end.
  (* the token-aware policy on a ring without shared tokens, every host up, round-robin fallback: Pick offers the
     replicas of the routing key's token first, in replica-map order (the token's owner when the keyspace has no
     replica map), then every other host once *)
  Definition check_pick (hosts : list (Z * hinfo * list str)) (class : str) (opts : amap optval) (have_ks : bool)
             (picks : list (str * list Z)) : bool :=
    match parse_hosts hosts with
    | None => false
    | Some hs =>
        let R := new_token_ring ltb hs in
        let ids := map (fun e => fst (fst e)) hosts in
        let mm := if have_ks then
                    match get_strategy class opts with
                    | None => Some None
                    | Some s => match replica_map (info_of hosts) s ids R with
                                | Ok m => Some (Some m)
                                | Crash _ => None
                                end
                    end
                  else Some None in
        match mm with
        | None => false
        | Some om =>
            strictb R &&
            forallb (fun '(ts, picked) =>
              match parse ts with
              | None => false
              | Some t =>
                  let owner := match get_host_for_token ltb R t with Some (h, _) => [h] | None => [] end in
                  let reps := match om with
                              | Some m => match replicas_for ltb m t with Some e => snd e | None => owner end
                              | None => owner
                              end in
                  prefixb reps picked && nodupb picked && (length picked =? length ids)%nat
                  && forallb (fun h => zmem h ids) picked
              end) picks
        end
    end.
End Check.

Definition check (c : case) : bool :=
  match c with
  | CStrategy class opts out => strategy_eqb (get_strategy class opts) out
  | CParseTok PMurmur s out => zlist_eqb (show_z (parse_murmur_token s)) out
  | CParseTok POrdered s out => zlist_eqb s out
  | CParseTok PRandom s out =>
      match parse_random_token s with Some v => zlist_eqb (show_z v) out | None => false end
  | CRing PMurmur hosts ringv class opts strat out lookups =>
      check_ring Z.ltb (fun s => Some (parse_murmur_token s)) Z.eqb hosts ringv class opts strat out lookups
  | CRing POrdered hosts ringv class opts strat out lookups =>
      check_ring str_ltb (fun s => Some s) zlist_eqb hosts ringv class opts strat out lookups
  | CRing PRandom hosts ringv class opts strat out lookups =>
      check_ring Z.ltb parse_random_token Z.eqb hosts ringv class opts strat out lookups
  | CPick PMurmur hosts class opts have_ks picks =>
      check_pick Z.ltb (fun s => Some (parse_murmur_token s)) hosts class opts have_ks picks
  | CPick POrdered hosts class opts have_ks picks => check_pick str_ltb (fun s => Some s) hosts class opts have_ks picks
  | CPick PRandom hosts class opts have_ks picks => check_pick Z.ltb parse_random_token hosts class opts have_ks picks
  end.

Definition run (cs : list case) : list N := mismatches check cs.
