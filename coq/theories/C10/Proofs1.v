(* C10/Proofs1.v -- token order, sort.Search, the two lookups, newTokenRing's sort, association maps. *)
From GocqlV Require Import Lib.Base C10.Model C10.Spec.
From Coq Require Import Sorting.Permutation Sorting.Sorted.
Open Scope Z_scope.

(* ---- the order a partitioner's Less must be ------------------------------------------------- *)
Record strict_total {T} (ltb : T -> T -> bool) : Prop := {
  st_irrefl : forall a, ltb a a = false;
  st_trans : forall a b c, ltb a b = true -> ltb b c = true -> ltb a c = true;
  st_total : forall a b, ltb a b = false -> ltb b a = false -> a = b }.

Lemma Z_ltb_strict_total : strict_total Z.ltb.
Proof. split; intros; lia. Qed.

Lemma str_ltb_irrefl a : str_ltb a a = false.
Proof. induction a as [|x a IH]; simpl; auto. rewrite Z.ltb_irrefl. exact IH. Qed.

Lemma str_ltb_trans a : forall b c, str_ltb a b = true -> str_ltb b c = true -> str_ltb a c = true.
Proof.
  induction a as [|x a IH]; intros [|y b] [|z c]; simpl; intros H1 H2; try discriminate; auto.
  destruct (x <? y) eqn:Exy.
  - destruct (y <? z) eqn:Eyz.
    + assert (Hxz : (x <? z) = true) by lia. rewrite Hxz. reflexivity.
    + destruct (z <? y) eqn:Ezy; [discriminate|].
      assert (y = z) by lia. subst z. rewrite Exy. reflexivity.
  - destruct (y <? x) eqn:Eyx; [discriminate|].
    assert (x = y) by lia. subst y.
    destruct (x <? z) eqn:Exz; [reflexivity|].
    destruct (z <? x) eqn:Ezx; [discriminate|].
    eapply IH; eauto.
Qed.

Lemma str_ltb_total a : forall b, str_ltb a b = false -> str_ltb b a = false -> a = b.
Proof.
  induction a as [|x a IH]; intros [|y b]; simpl; intros H1 H2; try discriminate; auto.
  destruct (x <? y) eqn:Exy; [discriminate|].
  destruct (y <? x) eqn:Eyx; [discriminate|].
  assert (x = y) by lia. subst y. f_equal. apply IH; assumption.
Qed.

Lemma str_ltb_strict_total : strict_total str_ltb.
Proof. split; [apply str_ltb_irrefl | apply str_ltb_trans | apply str_ltb_total]. Qed.

Section Order.
  Context {T : Type} (ltb : T -> T -> bool) (O : strict_total ltb).

  Lemma le_lt_trans a b c : ltb b a = false -> ltb b c = true -> ltb a c = true.
  Proof.
    intros H1 H2. destruct (ltb a b) eqn:E.
    - eapply st_trans; eauto.
    - assert (a = b) by (eapply st_total; eauto). subst. assumption.
  Qed.

  Lemma lt_asym a b : ltb a b = true -> ltb b a = false.
  Proof.
    intros H. destruct (ltb b a) eqn:E; auto.
    pose proof (st_trans ltb O _ _ _ H E) as H1. rewrite (st_irrefl ltb O) in H1. discriminate.
  Qed.

  Lemma le_trans a b c : ltb b a = false -> ltb c b = false -> ltb c a = false.
  Proof.
    intros H1 H2. destruct (ltb c a) eqn:E; auto.
    pose proof (le_lt_trans _ _ _ H2 E) as H3. congruence.
  Qed.

  (* ring entries in non-decreasing token order *)
  Definition sorted_toks {B} (m : list (T * B)) : Prop :=
    StronglySorted (fun a b => ltb (fst b) (fst a) = false) m.

  Lemma sorted_toks_filter {B} (f : T * B -> bool) (m : list (T * B)) :
    sorted_toks m -> sorted_toks (filter f m).
  Proof.
    induction 1 as [|a l Hs IH Hf]; simpl; [constructor|].
    destruct (f a); auto. constructor; auto.
    rewrite Forall_forall in *. intros x Hx. apply filter_In in Hx. apply Hf. tauto.
  Qed.

  Lemma sorted_toks_map_fst {B C} (m : list (T * B)) (m' : list (T * C)) :
    map fst m = map fst m' -> sorted_toks m -> sorted_toks m'.
  Proof.
    revert m'. induction m as [|a m IH]; intros [|a' m'] Hm Hs; simpl in Hm; try discriminate; [constructor|].
    inversion Hm as [[Ha Hm']]. inversion Hs as [|? ? Hs' Hf]; subst.
    constructor; [apply IH; auto|].
    rewrite Forall_forall in *. intros x Hx.
    assert (Hin : In (fst x) (map fst m)) by (rewrite Hm'; apply in_map; exact Hx).
    apply in_map_iff in Hin. destruct Hin as [y [Hy1 Hy2]].
    rewrite <- Ha, <- Hy1. apply Hf. exact Hy2.
  Qed.

  (* a sorted list splits into the entries below t and the entries at or above t *)
  Lemma sorted_split {B} (m : list (T * B)) (t : T) :
    sorted_toks m ->
    m = filter (fun e => ltb (fst e) t) m ++ filter (fun e => negb (ltb (fst e) t)) m.
  Proof.
    induction 1 as [|a l Hs IH Hf]; simpl; [reflexivity|].
    destruct (ltb (fst a) t) eqn:E; simpl.
    - f_equal. exact IH.
    - (* a >= t: everything after is >= t as well *)
      assert (Hall : Forall (fun e => ltb (fst e) t = false) l).
      { rewrite Forall_forall in *. intros x Hx. specialize (Hf x Hx).
        destruct (ltb (fst x) t) eqn:Ex; auto.
        pose proof (le_lt_trans _ _ _ Hf Ex). congruence. }
      assert (H1 : filter (fun e => ltb (fst e) t) l = []).
      { clear -Hall. induction Hall as [|x l Hx _ IH]; simpl; auto. rewrite Hx. exact IH. }
      assert (H2 : filter (fun e => negb (ltb (fst e) t)) l = l).
      { clear -Hall. induction Hall as [|x l Hx _ IH]; simpl; auto. rewrite Hx. simpl. f_equal. exact IH. }
      rewrite H1, H2. reflexivity.
  Qed.
End Order.

(* ---- sort.Search -------------------------------------------------------------------------------- *)
Lemma half_bounds i j : (i < j)%nat -> (i <= (i + j) / 2 < j)%nat.
Proof.
  intros H. split.
  - apply Nat.div_le_lower_bound; lia.
  - apply Nat.div_lt_upper_bound; lia.
Qed.

(* on a predicate that is false below some point [k] and true from it on, binary search finds [k] *)
Lemma bsearch_correct (f : nat -> bool) (k : nat) :
  (forall a, (a < k)%nat -> f a = false) ->
  forall fuel i j, (j - i <= fuel)%nat -> (i <= k <= j)%nat ->
  (forall a, (k <= a < j)%nat -> f a = true) ->
  bsearch fuel f i j = k.
Proof.
  intros Hlo. induction fuel as [|fuel IH]; intros i j Hfuel Hk Hhi; cbn [bsearch].
  - lia.
  - destruct (i <? j)%nat eqn:Eij.
    + apply Nat.ltb_lt in Eij. pose proof (half_bounds i j Eij) as Hh.
      destruct (f ((i + j) / 2)%nat) eqn:Ef; cbn [negb].
      * apply IH; [lia| |intros a Ha; apply Hhi; lia].
        destruct (Nat.lt_ge_cases ((i + j) / 2) k) as [Hlt|Hge]; [|lia].
        rewrite (Hlo _ Hlt) in Ef. discriminate.
      * apply IH; [lia| |intros a Ha; apply Hhi; lia].
        destruct (Nat.lt_ge_cases ((i + j) / 2) k) as [Hlt|Hge]; [lia|].
        rewrite (Hhi ((i + j) / 2)%nat) in Ef; [discriminate|lia].
    + apply Nat.ltb_ge in Eij. lia.
Qed.

Lemma sort_search_correct (n : nat) (f : nat -> bool) (k : nat) :
  (k <= n)%nat -> (forall a, (a < k)%nat -> f a = false) -> (forall a, (k <= a < n)%nat -> f a = true) ->
  sort_search n f = k.
Proof. intros Hk Hlo Hhi. unfold sort_search. apply bsearch_correct; auto; lia. Qed.

Section Lookup.
  Context {T : Type} (ltb : T -> T -> bool) (O : strict_total ltb).

  Lemma geq_at_app_l {B} (A Bq : list (T * B)) t a :
    (a < length A)%nat -> Forall (fun e => ltb (fst e) t = true) A -> geq_at ltb (A ++ Bq) t a = false.
  Proof.
    intros Ha HA. unfold geq_at. rewrite nth_error_app1 by exact Ha.
    destruct (nth_error A a) eqn:E; [|apply nth_error_None in E; lia].
    apply nth_error_In in E. rewrite Forall_forall in HA. rewrite (HA _ E). reflexivity.
  Qed.

  Lemma geq_at_app_r {B} (A Bq : list (T * B)) t a :
    (length A <= a)%nat -> Forall (fun e => ltb (fst e) t = false) Bq -> geq_at ltb (A ++ Bq) t a = true.
  Proof.
    intros Ha HB. unfold geq_at. rewrite nth_error_app2 by exact Ha.
    destruct (nth_error Bq (a - length A)) eqn:E; [|reflexivity].
    apply nth_error_In in E. rewrite Forall_forall in HB. rewrite (HB _ E). reflexivity.
  Qed.

  Lemma Forall_filter_true {A} (f : A -> bool) (l : list A) : Forall (fun e => f e = true) (filter f l).
  Proof. rewrite Forall_forall. intros x Hx. apply filter_In in Hx. tauto. Qed.

  (* binary search = number of entries below t (all of them come first in a sorted list) *)
  Lemma search_first_geq {B} (m : list (T * B)) (t : T) :
    sorted_toks ltb m ->
    sort_search (length m) (geq_at ltb m t) = length (filter (fun e => ltb (fst e) t) m).
  Proof.
    intros Hs. pose proof (sorted_split ltb O m t Hs) as Hsplit.
    set (A := filter (fun e => ltb (fst e) t) m) in *.
    set (Bq := filter (fun e => negb (ltb (fst e) t)) m) in *.
    assert (HA : Forall (fun e => ltb (fst e) t = true) A) by apply Forall_filter_true.
    assert (HB : Forall (fun e => ltb (fst e) t = false) Bq).
    { pose proof (Forall_filter_true (fun e : T * B => negb (ltb (fst e) t)) m) as H.
      rewrite Forall_forall in *. intros x Hx. specialize (H x Hx). destruct (ltb (fst x) t); auto. }
    rewrite Hsplit at 1 2. apply sort_search_correct.
    - rewrite app_length. lia.
    - intros a Ha. apply geq_at_app_l; auto.
    - intros a Ha. apply geq_at_app_r; auto. lia.
  Qed.

  (* the entry both lookups return: head of (entries >= t) ++ (entries < t) *)
  Lemma lookup_entry {B} (m : list (T * B)) (t : T) :
    sorted_toks ltb m ->
    nth_error m (lookup_index ltb m t)
    = hd_error (filter (fun e => negb (ltb (fst e) t)) m ++ filter (fun e => ltb (fst e) t) m).
  Proof.
    intros Hs. unfold lookup_index. rewrite (search_first_geq m t Hs).
    pose proof (sorted_split ltb O m t Hs) as Hsplit.
    set (A := filter (fun e => ltb (fst e) t) m) in *.
    set (Bq := filter (fun e => negb (ltb (fst e) t)) m) in *.
    destruct (length m <=? length A)%nat eqn:E.
    - apply Nat.leb_le in E. rewrite Hsplit in E. rewrite app_length in E.
      assert (HB : Bq = []) by (destruct Bq; simpl in E; [reflexivity|lia]).
      rewrite HB in *. rewrite app_nil_r in Hsplit. simpl. rewrite Hsplit. destruct A; reflexivity.
    - apply Nat.leb_gt in E. rewrite Hsplit at 1. rewrite nth_error_app2 by lia.
      rewrite Nat.sub_diag. destruct Bq as [|b Bq'].
      + rewrite app_nil_r in Hsplit. rewrite Hsplit in E. lia.
      + reflexivity.
  Qed.

  (* the lookup index only depends on the tokens *)
  Lemma bsearch_ext f g : (forall a, f a = g a) -> forall fuel i j, bsearch fuel f i j = bsearch fuel g i j.
  Proof.
    intros H. induction fuel as [|fuel IH]; intros i j; cbn [bsearch]; auto.
    destruct (i <? j)%nat; auto. rewrite H. destruct (g ((i + j) / 2)%nat); cbn [negb]; apply IH.
  Qed.
End Lookup.

(* ---- newTokenRing: insertion sort gives a sorted permutation ------------------------------------ *)
Section SortRing.
  Context {T : Type} (ltb : T -> T -> bool) (O : strict_total ltb).

  Lemma insert_tok_perm (e : T * Z) l : Permutation (insert_tok ltb e l) (e :: l).
  Proof.
    induction l as [|x l IH]; simpl; auto.
    destruct (ltb (fst e) (fst x)); auto.
    eapply perm_trans; [apply perm_skip; exact IH|apply perm_swap].
  Qed.

  Lemma insert_tok_sorted (e : T * Z) l : sorted_toks ltb l -> sorted_toks ltb (insert_tok ltb e l).
  Proof.
    induction 1 as [|x l Hs IH Hf]; simpl.
    - constructor; constructor.
    - destruct (ltb (fst e) (fst x)) eqn:E.
      + constructor; [constructor; assumption|].
        constructor; [apply (lt_asym ltb O); exact E|].
        rewrite Forall_forall in *. intros y Hy. specialize (Hf y Hy).
        apply (le_trans ltb O _ (fst x)); auto. apply (lt_asym ltb O). exact E.
      + constructor; [exact IH|].
        rewrite Forall_forall in *. intros y Hy.
        assert (Hy' : In y (e :: l)) by (eapply Permutation_in; [apply insert_tok_perm|exact Hy]).
        destruct Hy' as [<-|Hy']; [exact E|apply Hf; exact Hy'].
  Qed.

  Lemma sort_ring_acc l : forall acc, sorted_toks ltb acc ->
    sorted_toks ltb (fold_left (fun acc e => insert_tok ltb e acc) l acc)
    /\ Permutation (fold_left (fun acc e => insert_tok ltb e acc) l acc) (l ++ acc).
  Proof.
    induction l as [|e l IH]; intros acc Hacc; simpl; [split; auto|].
    destruct (IH (insert_tok ltb e acc) (insert_tok_sorted e acc Hacc)) as [H1 H2].
    split; [exact H1|].
    eapply perm_trans; [exact H2|].
    eapply perm_trans; [apply Permutation_app_head; apply insert_tok_perm|].
    apply Permutation_sym. change (e :: l ++ acc) with ((e :: l) ++ acc).
    apply Permutation_middle.
  Qed.

  Lemma new_token_ring_sorted_perm hs :
    sorted_toks ltb (new_token_ring ltb hs) /\ Permutation (new_token_ring ltb hs) (flatten_hosts hs).
  Proof.
    unfold new_token_ring, sort_ring.
    destruct (sort_ring_acc (flatten_hosts hs) [] (SSorted_nil _)) as [H1 H2].
    split; [exact H1|]. rewrite app_nil_r in H2. exact H2.
  Qed.
End SortRing.

(* ---- association maps ---------------------------------------------------------------------------- *)
Lemma zlist_eqb_refl a : zlist_eqb a a = true.
Proof. apply zlist_eqb_eq. reflexivity. Qed.

Lemma zlist_eqb_neq a b : a <> b -> zlist_eqb a b = false.
Proof. intros H. destruct (zlist_eqb a b) eqn:E; auto. apply zlist_eqb_eq in E. contradiction. Qed.

Lemma zlist_eqb_sym a b : zlist_eqb a b = zlist_eqb b a.
Proof.
  destruct (zlist_eqb a b) eqn:E.
  - apply zlist_eqb_eq in E. subst. symmetry. apply zlist_eqb_refl.
  - symmetry. apply zlist_eqb_neq. intros ->. rewrite zlist_eqb_refl in E. discriminate.
Qed.

Lemma NoDup_snoc {A} (l : list A) x : NoDup l -> ~ In x l -> NoDup (l ++ [x]).
Proof.
  intros Hnd Hn. induction Hnd as [|y l Hy Hnd IH]; simpl.
  - constructor; [tauto|constructor].
  - constructor.
    + rewrite in_app_iff. simpl. intros [H|[H|[]]]; [tauto|]. subst. apply Hn. left. reflexivity.
    + apply IH. intros H. apply Hn. right. exact H.
Qed.

Section AMap.
  Context {V : Type}.
  Implicit Types (m : amap V) (k : str).

  Lemma aget_aset_same m k v : aget (aset m k v) k = Some v.
  Proof.
    induction m as [|[k' v'] m IH]; simpl.
    - rewrite zlist_eqb_refl. reflexivity.
    - destruct (zlist_eqb k' k) eqn:E; simpl; rewrite E; auto.
  Qed.

  Lemma aget_aset_other m k k' v : k' <> k -> aget (aset m k v) k' = aget m k'.
  Proof.
    intros Hne. induction m as [|[k0 v0] m IH]; simpl.
    - rewrite zlist_eqb_neq by congruence. reflexivity.
    - destruct (zlist_eqb k0 k) eqn:E; simpl.
      + apply zlist_eqb_eq in E. subst k0. rewrite zlist_eqb_neq by congruence. reflexivity.
      + destruct (zlist_eqb k0 k'); auto.
  Qed.

  Lemma aget_In m k v : aget m k = Some v -> In (k, v) m.
  Proof.
    induction m as [|[k0 v0] m IH]; simpl; [discriminate|].
    destruct (zlist_eqb k0 k) eqn:E.
    - apply zlist_eqb_eq in E. subst. intros [= ->]. left. reflexivity.
    - intros H. right. apply IH. exact H.
  Qed.

  Lemma In_aget m k v : NoDup (map fst m) -> In (k, v) m -> aget m k = Some v.
  Proof.
    induction m as [|[k0 v0] m IH]; simpl; [tauto|].
    intros Hnd [Heq|Hin].
    - inversion Heq; subst. rewrite zlist_eqb_refl. reflexivity.
    - inversion Hnd as [|? ? Hnotin Hnd']; subst.
      destruct (zlist_eqb k0 k) eqn:E.
      + apply zlist_eqb_eq in E. subst. exfalso. apply Hnotin. apply (in_map fst) in Hin. exact Hin.
      + apply IH; assumption.
  Qed.

  Lemma aget_None_notin m k : aget m k = None -> ~ In k (map fst m).
  Proof.
    induction m as [|[k0 v0] m IH]; simpl; [tauto|].
    destruct (zlist_eqb k0 k) eqn:E; [discriminate|].
    intros H [Heq|Hin]; [subst; rewrite zlist_eqb_refl in E; discriminate|].
    apply IH; assumption.
  Qed.

  Lemma aget_Some_in m k v : aget m k = Some v -> In k (map fst m).
  Proof. intros H. apply aget_In in H. apply (in_map fst) in H. exact H. Qed.

  Lemma aset_keys_in m k v : In k (map fst m) -> map fst (aset m k v) = map fst m.
  Proof.
    induction m as [|[k0 v0] m IH]; simpl; [tauto|].
    destruct (zlist_eqb k0 k) eqn:E; simpl; [reflexivity|].
    intros [Heq|Hin]; [subst; rewrite zlist_eqb_refl in E; discriminate|].
    f_equal. apply IH. exact Hin.
  Qed.

  Lemma aset_keys_notin m k v : ~ In k (map fst m) -> map fst (aset m k v) = map fst m ++ [k].
  Proof.
    induction m as [|[k0 v0] m IH]; simpl; [reflexivity|].
    intros Hn. destruct (zlist_eqb k0 k) eqn:E; simpl.
    - apply zlist_eqb_eq in E. subst. tauto.
    - f_equal. apply IH. tauto.
  Qed.

  Lemma aset_keys_nodup m k v : NoDup (map fst m) -> NoDup (map fst (aset m k v)).
  Proof.
    intros Hnd. destruct (in_dec (list_eq_dec Z.eq_dec) k (map fst m)) as [Hin|Hn].
    - rewrite aset_keys_in; auto.
    - rewrite aset_keys_notin by exact Hn.
      apply NoDup_snoc; auto.
  Qed.
End AMap.

Lemma getz_aset_same (m : amap Z) k v : getz (aset m k v) k = v.
Proof. unfold getz. rewrite aget_aset_same. reflexivity. Qed.
Lemma getz_aset_other (m : amap Z) k k' v : k' <> k -> getz (aset m k v) k' = getz m k'.
Proof. intros H. unfold getz. rewrite aget_aset_other by exact H. reflexivity. Qed.
Lemma getl_aset_same {A} (m : amap (list A)) k v : getl (aset m k v) k = v.
Proof. unfold getl. rewrite aget_aset_same. reflexivity. Qed.
Lemma getl_aset_other {A} (m : amap (list A)) k k' v : k' <> k -> getl (aset m k v) k' = getl m k'.
Proof. intros H. unfold getl. rewrite aget_aset_other by exact H. reflexivity. Qed.
