(* C10/Proofs5.v -- networkTopology's inner loop (with seenHosts) against Cassandra's NetworkTopologyStrategy,
   for every walk: any number of tokens per host. *)
From GocqlV Require Import Lib.Base C10.Model C10.Spec C10.Proofs1 C10.Proofs2 C10.Proofs3 C10.Proofs4.
From Coq Require Import Sorting.Permutation.
Open Scope Z_scope.

Lemma lookup_aget (m : list (name * Z)) k : lookup m k = aget m k.
Proof. induction m as [|[k' v] m IH]; simpl; [reflexivity|]. unfold name_eqb. destruct (zlist_eqb k' k); auto. Qed.

Lemma lhs_has_In x s : lhs_has x s = true <-> In x s.
Proof. apply zmem_In. Qed.

Lemma lhs_add_fresh x s : ~ In x s -> lhs_add x s = s ++ [x].
Proof. intros H. unfold lhs_add. destruct (lhs_has x s) eqn:E; [apply lhs_has_In in E; contradiction|reflexivity]. Qed.

Lemma set_add_fresh x s : smem x s = false -> set_add x s = s ++ [x].
Proof. intros H. unfold set_add. change (set_has x s) with (smem x s). rewrite H. reflexivity. Qed.

Section Refine.
  Variable info : Z -> hinfo.
  Variable dcs : amap Z.
  Variable hosts : list Z.                        (* tokenRing.hosts *)
  Variable endpoints : list Z.                    (* the hosts of the ring entries *)
  Notation dc_of := (dc_of info).
  Notation rack_of := (rack_of info).
  Notation dcr := (mk_dc_racks info hosts).
  Hypothesis dcs_nonneg : Forall (fun e => 0 <= snd e) dcs.
  Hypothesis dcs_keys : NoDup (map fst dcs).
  Hypothesis hosts_eq : forall h, In h hosts <-> In h endpoints.    (* every host owns a token *)

  Notation s_visit := (visit dc_of rack_of dcs endpoints).
  Notation s_racks := (Spec.dc_racks dc_of rack_of endpoints).
  Notation s_eps := (dc_endpoints dc_of endpoints).
  Notation s_suff := (sufficient dc_of endpoints).

  Lemma racks_length dc : length (getl dcr dc) = length (s_racks dc).
  Proof.
    pose proof (mk_dc_racks_inv info hosts) as Hri.
    assert (Hiff : forall rk, In rk (getl dcr dc) <-> In rk (s_racks dc)).
    { intros rk. rewrite (ri_in info _ _ Hri). unfold Spec.dc_racks, dc_endpoints. rewrite nodup_In, in_map_iff. split.
      - intros [h [H1 [H2 H3]]]. exists h. split; [exact H3|]. rewrite nodup_In, filter_In. split; [apply hosts_eq; exact H1|].
        unfold name_eqb. rewrite H2. apply zlist_eqb_refl.
      - intros [h [H1 H2]]. rewrite nodup_In, filter_In in H2. destruct H2 as [H2 H3].
        exists h. split; [apply hosts_eq; exact H2|]. split; [apply zlist_eqb_eq; exact H3|exact H1]. }
    apply Nat.le_antisymm; apply NoDup_incl_length.
    - apply (ri_nodup info _ _ Hri).
    - intros x Hx. apply Hiff. exact Hx.
    - apply NoDup_nodup.
    - intros x Hx. apply Hiff. exact Hx.
  Qed.

  Lemma in_dc_count dc l : length (in_dc dc_of dc l) = count_dc info dc l.
  Proof. reflexivity. Qed.

  (* a fresh endpoint of the DC shows that the DC is not exhausted *)
  Lemma count_lt_endpoints dc reps x :
    NoDup reps -> incl reps endpoints -> In x endpoints -> ~ In x reps -> dc_of x = dc ->
    (count_dc info dc reps < length (s_eps dc))%nat.
  Proof.
    intros Hnd Hincl Hx Hnx Hdc. unfold count_dc.
    set (f := fun h => zlist_eqb (dc_of h) dc).
    assert (H : (length (x :: filter f reps) <= length (s_eps dc))%nat).
    { apply NoDup_incl_length.
      - constructor; [rewrite filter_In; tauto|apply NoDup_filter; exact Hnd].
      - intros y [<-|Hy]; unfold dc_endpoints; rewrite nodup_In, filter_In.
        + split; [exact Hx|]. unfold name_eqb. rewrite Hdc. apply zlist_eqb_refl.
        + apply filter_In in Hy. split; [apply Hincl; tauto|]. unfold name_eqb. tauto. }
    simpl in H. lia.
  Qed.

  Lemma suff_fresh rf dc reps x :
    NoDup reps -> incl reps endpoints -> In x endpoints -> ~ In x reps -> dc_of x = dc ->
    s_suff rf dc reps = (Z.of_nat (count_dc info dc reps) >=? rf).
  Proof.
    intros H1 H2 H3 H4 H5. pose proof (count_lt_endpoints dc reps x H1 H2 H3 H4 H5) as Hlt.
    unfold sufficient. rewrite in_dc_count.
    destruct (Z.of_nat (count_dc info dc reps) >=? rf) eqn:E; lia.
  Qed.

  (* the two ways of appending the skipped hosts agree *)
  Lemma take_skipped_eq rf dc sk : forall reps,
    NoDup sk -> (forall x, In x sk -> dc_of x = dc /\ In x endpoints /\ ~ In x reps) ->
    NoDup reps -> incl reps endpoints ->
    take_skipped dc_of endpoints rf dc sk reps = reps ++ drain sk (Z.of_nat (count_dc info dc reps)) rf.
  Proof.
    induction sk as [|x sk IH]; intros reps Hsk Hx Hnd Hincl; simpl.
    - rewrite app_nil_r. reflexivity.
    - destruct (Hx x (or_introl eq_refl)) as [Hdc [Hep Hnin]].
      rewrite (suff_fresh rf dc reps x Hnd Hincl Hep Hnin Hdc).
      destruct (Z.of_nat (count_dc info dc reps) >=? rf) eqn:E.
      + assert (E' : (Z.of_nat (count_dc info dc reps) <? rf) = false) by lia. rewrite E', app_nil_r. reflexivity.
      + assert (E' : (Z.of_nat (count_dc info dc reps) <? rf) = true) by lia. rewrite E'.
        rewrite (lhs_add_fresh x reps Hnin). inversion Hsk as [|? ? Hxsk Hsk']; subst.
        rewrite IH.
        * rewrite count_dc_app, count_dc_one_same, <- app_assoc. simpl.
          replace (Z.of_nat (count_dc info (dc_of x) reps + 1)) with (Z.of_nat (count_dc info (dc_of x) reps) + 1) by lia.
          reflexivity.
        * exact Hsk'.
        * intros y Hy. destruct (Hx y (or_intror Hy)) as [Hy1 [Hy2 Hy3]]. split; [exact Hy1|]. split; [exact Hy2|].
          rewrite in_app_iff. simpl. intros [H|[H|[]]]; [contradiction|]. subst y. contradiction.
        * apply NoDup_snoc; assumption.
        * intros y Hy. apply in_app_iff in Hy. destruct Hy as [Hy|[<-|[]]]; [apply Hincl; exact Hy|exact Hep].
  Qed.

  Lemma take_skipped_suff rf dc sk reps : s_suff rf dc reps = true -> take_skipped dc_of endpoints rf dc sk reps = reps.
  Proof. intros H. destruct sk; simpl; [reflexivity|]. rewrite H. reflexivity. Qed.

  Definition notin (reps : list Z) (x : Z) : bool := negb (lhs_has x reps).

  Lemma notin_true reps x : notin reps x = true <-> ~ In x reps.
  Proof. unfold notin. rewrite negb_true_iff. apply zmem_false. Qed.

  Lemma filter_notin_more reps add l :
    (forall x, In x l -> ~ In x add) -> filter (notin (reps ++ add)) l = filter (notin reps) l.
  Proof.
    intros H. apply filter_ext_in'. intros x Hx. unfold notin, lhs_has. rewrite existsb_app.
    assert (E : existsb (Z.eqb x) add = false) by (apply zmem_false; apply H; exact Hx).
    rewrite E, orb_false_r. reflexivity.
  Qed.

  (* members of the replica set met among the skipped endpoints do not count *)
  Lemma take_skipped_filter rf dc sk : forall reps,
    NoDup sk -> take_skipped dc_of endpoints rf dc sk reps = take_skipped dc_of endpoints rf dc (filter (notin reps) sk) reps.
  Proof.
    induction sk as [|x sk IH]; intros reps Hnd; simpl; [reflexivity|].
    inversion Hnd as [|? ? Hx Hnd']; subst.
    destruct (s_suff rf dc reps) eqn:Es.
    - symmetry. apply take_skipped_suff. exact Es.
    - destruct (notin reps x) eqn:En.
      + simpl. rewrite Es. apply notin_true in En. rewrite (lhs_add_fresh x reps En).
        rewrite IH by exact Hnd'. f_equal. apply filter_notin_more. intros y Hy [<-|[]]. contradiction.
      + unfold notin in En. apply negb_false_iff in En. unfold lhs_add. rewrite En. apply IH. exact Hnd'.
  Qed.

  Lemma drain_exhaust sk : forall r rf, r + Z.of_nat (length (drain sk r rf)) < rf -> length (drain sk r rf) = length sk.
  Proof.
    induction sk as [|x sk IH]; intros r rf H; simpl in *; [reflexivity|].
    destruct (r <? rf) eqn:E; simpl in *; [|lia]. f_equal. apply IH. lia.
  Qed.

  Lemma In_firstn_or_skipn {A} n (l : list A) x : In x l -> In x (firstn n l) \/ In x (skipn n l).
  Proof. intros H. rewrite <- (firstn_skipn n l) in H. apply in_app_iff in H. exact H. Qed.

  (* ---- the simulation --------------------------------------------------------------------------- *)
  (* Cassandra's skipped sets may also hold endpoints that are replicas already (met again through another
     token while their rack was in use); the driver passes over such endpoints, so its lists are those sets
     without the replicas *)
  Record rel (visited : list Z) (m : nts_state) (s : nts) : Prop := {
    rl_reps : ns_replicas m = s_replicas s;
    rl_seen : forall dc, getl (ns_seen m) dc = s_seen s dc;
    rl_skip : forall dc, length (getl (ns_seen m) dc) <> length (getl dcr dc) ->
              getl (ns_skipped m) dc = filter (notin (s_replicas s)) (s_skipped s dc);
    rl_sk_nodup : forall dc, NoDup (s_skipped s dc);
    rl_sk_vis : forall dc, incl (s_skipped s dc) visited;
    rl_sk_dc : forall dc x, In x (s_skipped s dc) -> dc_of x = dc }.

  (* what the driver knows about the hosts it has been through *)
  Record kinv (m : nts_state) (visited : list Z) : Prop := {
    ki_vis : forall h, In h visited -> getz dcs (dc_of h) <> 0 -> getz (ns_count m) (dc_of h) < getz dcs (dc_of h) ->
             In (rack_of h) (getl (ns_seen m) (dc_of h))
             /\ (In h (ns_replicas m) \/ In h (getl (ns_skipped m) (dc_of h)));
    ki_drained : forall dc, length (getl (ns_seen m) dc) = length (getl dcr dc) ->
                 getz (ns_count m) dc < getz dcs dc -> getl (ns_skipped m) dc = [] }.

  Lemma rel_more visited m s h : rel visited m s -> rel (h :: visited) m s.
  Proof. intros [H1 H2 H3 H4 H5 H6]. split; auto. intros dc x Hx. right. apply (H5 dc). exact Hx. Qed.

  Lemma upd_same {A} (f : name -> A) k v : upd f k v k = v.
  Proof. unfold upd, name_eqb. rewrite zlist_eqb_refl. reflexivity. Qed.
  Lemma upd_other {A} (f : name -> A) k k' v : k' <> k -> upd f k v k' = f k'.
  Proof. intros H. unfold upd, name_eqb. rewrite zlist_eqb_neq by exact H. reflexivity. Qed.

  Lemma rack_known h : In h endpoints -> In (rack_of h) (getl dcr (dc_of h)).
  Proof.
    intros Hep. apply (ri_in info _ _ (mk_dc_racks_inv info hosts)). exists h.
    split; [apply hosts_eq; exact Hep|tauto].
  Qed.

  (* a new host whose iteration changes nothing in the driver changes nothing in Cassandra's loop *)
  Lemma visit_inactive visited m s h :
    minv info dcs dcr m -> rel visited m s -> vinv m visited -> ~ In h visited -> In h endpoints ->
    (forall x, In x visited -> In x endpoints) ->
    ~ active info dcs dcr m h -> s_visit s h = s.
  Proof.
    intros Hm Hr Hv Hnv Hep Hvis Hna. unfold visit. rewrite lookup_aget.
    destruct (aget dcs (dc_of h)) as [rf|] eqn:Ea; [|reflexivity].
    assert (Hrf : getz dcs (dc_of h) = rf) by (unfold getz; rewrite Ea; reflexivity).
    assert (Hnin : ~ In h (ns_replicas m)) by (intros H; apply Hnv, (vi_reps _ _ Hv); exact H).
    rewrite (suff_fresh rf (dc_of h) (s_replicas s) h); try (rewrite <- (rl_reps _ m s Hr)); auto;
      try apply (vi_nodup _ _ Hv).
    2:{ intros x Hx. apply Hvis, (vi_reps _ _ Hv). exact Hx. }
    rewrite <- (mi_count info dcs dcr m Hm).
    destruct (getz (ns_count m) (dc_of h) >=? rf) eqn:E; [reflexivity|].
    exfalso. apply Hna. split; [|split].
    - pose proof (mi_count info dcs dcr m Hm (dc_of h)). lia.
    - lia.
    - apply rack_known. exact Hep.
  Qed.

  Lemma kinv_inactive visited m h :
    kinv m visited -> In h endpoints -> ~ active info dcs dcr m h -> kinv m (h :: visited).
  Proof.
    intros [K1 K2] Hep Hna. split; [|exact K2].
    intros x [<-|Hx] H1 H2; [|apply K1; assumption].
    exfalso. apply Hna. split; [exact H1|]. split; [exact H2|apply rack_known; exact Hep].
  Qed.

  (* a new host whose iteration changes the driver's state changes Cassandra's in the same way *)
  Lemma visit_active visited m s h m' :
    minv info dcs dcr m -> rel visited m s -> vinv m visited -> kinv m visited ->
    ~ In h visited -> In h endpoints -> (forall x, In x visited -> In x endpoints) ->
    active info dcs dcr m h -> step_kind info dcs dcr m h m' ->
    rel (h :: visited) m' (s_visit s h) /\ kinv m' (h :: visited).
  Proof.
    intros Hm Hr Hv [K1 K2] Hnv Hep Hvis [Hrf [Hlt Hrack]] Hk.
    destruct Hr as [Rr Rs Rk Rn Rv Rd]. destruct Hv as [F1 F2 F3 F4 F5].
    assert (Hnin : ~ In h (ns_replicas m)) by (intros H; apply Hnv, F2; exact H).
    assert (Hnsk : forall dc, ~ In h (getl (ns_skipped m) dc)) by (intros dc H; apply Hnv, (F3 dc); exact H).
    assert (Hnss : forall dc, ~ In h (s_skipped s dc)) by (intros dc H; apply Hnv, (Rv dc); exact H).
    assert (F2e : incl (ns_replicas m) endpoints) by (intros x Hx; apply Hvis, F2; exact Hx).
    assert (Ea : aget dcs (dc_of h) = Some (getz dcs (dc_of h))).
    { unfold getz in *. destruct (aget dcs (dc_of h)); [reflexivity|congruence]. }
    assert (Hsuff : s_suff (getz dcs (dc_of h)) (dc_of h) (s_replicas s) = false).
    { rewrite (suff_fresh (getz dcs (dc_of h)) (dc_of h) (s_replicas s) h); try (rewrite <- Rr); auto.
      rewrite <- (mi_count info dcs dcr m Hm). lia. }
    (* the old hosts keep what they had *)
    assert (Kold : forall (c' : amap Z) (seen' : amap (list (list Z))) (reps' : list Z) (sk' : amap (list Z)),
              (forall dc, getz (ns_count m) dc <= getz c' dc) ->
              (forall dc, incl (getl (ns_seen m) dc) (getl seen' dc)) ->
              incl (ns_replicas m) reps' ->
              (forall dc x, In x (getl (ns_skipped m) dc) -> In x reps' \/ In x (getl sk' dc)) ->
              forall x, In x visited -> getz dcs (dc_of x) <> 0 -> getz c' (dc_of x) < getz dcs (dc_of x) ->
              In (rack_of x) (getl seen' (dc_of x)) /\ (In x reps' \/ In x (getl sk' (dc_of x)))).
    { intros c' seen' reps' sk' Hc Hse Hre Hsk x Hx H1 H2.
      destruct (K1 x Hx H1) as [G1 G2]; [specialize (Hc (dc_of x)); lia|].
      split; [apply Hse; exact G1|]. destruct G2 as [G2|G2]; [left; apply Hre; exact G2|apply Hsk; exact G2]. }
    unfold visit. rewrite lookup_aget, Ea, Hsuff. rewrite <- racks_length, <- Rs.
    destruct Hk as [Hs Hl|taken Hs Ht|Hs Hl].
    - (* every rack used *)
      rewrite Hl, Nat.eqb_refl. rewrite <- Rr, (lhs_add_fresh h _ Hnin). split.
      + split; cbn [ns_replicas ns_seen ns_skipped ns_count s_replicas s_seen s_skipped]; auto.
        * intros dc Hne. rewrite (Rk dc Hne), <- Rr. symmetry. apply filter_notin_more.
          intros x Hx [<-|[]]. apply (Hnss dc Hx).
        * intros dc x Hx. right. apply (Rv dc). exact Hx.
      + split; cbn [ns_replicas ns_seen ns_skipped ns_count].
        * intros x [<-|Hx] H1 H2.
          -- split; [apply smem_In; exact Hs|left; apply in_or_app; right; left; reflexivity].
          -- apply (Kold (aset (ns_count m) (dc_of h) (getz (ns_count m) (dc_of h) + 1)) (ns_seen m)
                         (ns_replicas m ++ [h]) (ns_skipped m)); auto.
             ++ intros dc. destruct (str_eq_dec dc (dc_of h)) as [->|Hne];
                  [rewrite getz_aset_same; lia|rewrite getz_aset_other by exact Hne; lia].
             ++ intros dc y Hy. exact Hy.
             ++ intros y Hy. apply in_or_app. left. exact Hy.
        * intros dc Hall Hc. apply K2; [exact Hall|].
          destruct (str_eq_dec dc (dc_of h)) as [->|Hne];
            [rewrite getz_aset_same in Hc; lia|rewrite getz_aset_other in Hc by exact Hne; exact Hc].
    - (* a new rack *)
      assert (Hlt' : (length (getl (ns_seen m) (dc_of h)) < length (getl dcr (dc_of h)))%nat).
      { assert (H : (length (rack_of h :: getl (ns_seen m) (dc_of h)) <= length (getl dcr (dc_of h)))%nat).
        { apply NoDup_incl_length.
          - constructor; [apply smem_false; exact Hs|apply (mi_seen_nodup info dcs dcr m Hm)].
          - intros x [<-|Hx]; [exact Hrack|apply (mi_seen_incl info dcs dcr m Hm (dc_of h)); exact Hx]. }
        simpl in H. lia. }
      assert (E1 : (length (getl (ns_seen m) (dc_of h)) =? length (getl dcr (dc_of h)))%nat = false) by (apply Nat.eqb_neq; lia).
      rewrite E1. change (set_has (rack_of h) (getl (ns_seen m) (dc_of h))) with (smem (rack_of h) (getl (ns_seen m) (dc_of h))). rewrite Hs.
      rewrite (set_add_fresh (rack_of h) _ Hs). rewrite <- Rr, (lhs_add_fresh h _ Hnin).
      set (sk := getl (ns_skipped m) (dc_of h)) in *.
      set (E := (length (getl (ns_seen m) (dc_of h) ++ [rack_of h]) =? length (getl dcr (dc_of h)))%nat) in *.
      assert (Hsk_eq : sk = filter (notin (ns_replicas m ++ [h])) (s_skipped s (dc_of h))).
      { unfold sk. rewrite (Rk (dc_of h)) by lia. rewrite <- Rr. symmetry. apply filter_notin_more.
        intros x Hx [<-|[]]. apply (Hnss (dc_of h) Hx). }
      assert (Hcount : Z.of_nat (count_dc info (dc_of h) (ns_replicas m ++ [h])) = getz (ns_count m) (dc_of h) + 1).
      { rewrite count_dc_app. rewrite count_dc_one_same. rewrite (mi_count info dcs dcr m Hm). lia. }
      assert (Htake : (if E then take_skipped dc_of endpoints (getz dcs (dc_of h)) (dc_of h) (s_skipped s (dc_of h)) (ns_replicas m ++ [h])
                       else ns_replicas m ++ [h]) = ns_replicas m ++ [h] ++ taken).
      { rewrite Ht. destruct E.
        - rewrite take_skipped_filter by apply Rn. rewrite <- Hsk_eq. rewrite take_skipped_eq.
          + rewrite Hcount, <- app_assoc. reflexivity.
          + apply F4.
          + intros x Hx. split; [apply (mi_skip_dc info dcs dcr m Hm (dc_of h) x Hx)|].
            split; [apply Hvis, (F3 (dc_of h)); exact Hx|].
            rewrite in_app_iff. simpl. intros [H|[H|[]]]; [apply (F5 (dc_of h) x Hx H)|]. subst x. apply (Hnsk (dc_of h) Hx).
          + apply NoDup_snoc; assumption.
          + intros x Hx. apply in_app_iff in Hx. destruct Hx as [Hx|[<-|[]]]; auto.
        - rewrite app_nil_r. reflexivity. }
      rewrite Htake.
      assert (Htk : incl taken sk) by (rewrite Ht; destruct E; [apply drain_incl|intros x []]).
      assert (Htk_first : taken = firstn (length taken) sk) by (rewrite Ht; destruct E; [apply drain_firstn|reflexivity]).
      split.
      + split; cbn [ns_replicas ns_seen ns_skipped ns_count s_replicas s_seen s_skipped].
        * reflexivity.
        * intros dc'. destruct (str_eq_dec dc' (dc_of h)) as [->|Hne].
          -- rewrite getl_aset_same, upd_same. reflexivity.
          -- rewrite getl_aset_other, upd_other by exact Hne. apply Rs.
        * intros dc'. destruct (str_eq_dec dc' (dc_of h)) as [->|Hne].
          -- rewrite getl_aset_same. intros Hneq. destruct E eqn:E2.
             ++ apply Nat.eqb_eq in E2. contradiction.
             ++ rewrite Ht, app_nil_r. exact Hsk_eq.
          -- rewrite getl_aset_other by exact Hne. intros Hneq.
             assert (Hsame : getl (if E then aset (ns_skipped m) (dc_of h) (skipn (length taken) sk) else ns_skipped m) dc'
                             = getl (ns_skipped m) dc').
             { destruct E; [rewrite getl_aset_other by exact Hne|]; reflexivity. }
             rewrite Hsame, (Rk dc' Hneq), <- Rr. symmetry. apply filter_notin_more.
             intros x Hx Hx2. apply Rd in Hx. rewrite !in_app_iff in Hx2. simpl in Hx2.
             destruct Hx2 as [[<-|[]]|Hx2]; [apply Hne; symmetry; exact Hx|].
             apply Hne. rewrite <- Hx. apply (mi_skip_dc info dcs dcr m Hm (dc_of h) x). apply Htk. exact Hx2.
        * exact Rn.
        * intros dc x Hx. right. apply (Rv dc). exact Hx.
        * exact Rd.
      + split; cbn [ns_replicas ns_seen ns_skipped ns_count].
        * intros x [<-|Hx] H1 H2.
          -- rewrite getl_aset_same. split; [apply in_or_app; right; left; reflexivity|].
             left. apply in_or_app. right. left. reflexivity.
          -- apply (Kold (aset (ns_count m) (dc_of h) (getz (ns_count m) (dc_of h) + 1 + Z.of_nat (length taken)))
                         (aset (ns_seen m) (dc_of h) (getl (ns_seen m) (dc_of h) ++ [rack_of h]))
                         (ns_replicas m ++ [h] ++ taken)
                         (if E then aset (ns_skipped m) (dc_of h) (skipn (length taken) sk) else ns_skipped m)); auto.
             ++ intros dc. destruct (str_eq_dec dc (dc_of h)) as [->|Hne];
                  [rewrite getz_aset_same; lia|rewrite getz_aset_other by exact Hne; lia].
             ++ intros dc. destruct (str_eq_dec dc (dc_of h)) as [->|Hne];
                  [rewrite getl_aset_same; intros y Hy; apply in_or_app; left; exact Hy
                  |rewrite getl_aset_other by exact Hne; intros y Hy; exact Hy].
             ++ intros y Hy. apply in_or_app. left. exact Hy.
             ++ intros dc y Hy. destruct E; [|right; exact Hy].
                destruct (str_eq_dec dc (dc_of h)) as [->|Hne].
                ** rewrite getl_aset_same. destruct (In_firstn_or_skipn (length taken) sk y Hy) as [G|G]; [|right; exact G].
                   left. rewrite !in_app_iff. right. right. rewrite Htk_first. exact G.
                ** rewrite getl_aset_other by exact Hne. right. exact Hy.
        * intros dc. destruct (str_eq_dec dc (dc_of h)) as [->|Hne].
          -- rewrite !getl_aset_same, getz_aset_same. intros Hall Hc. destruct E eqn:E2.
             ++ rewrite getl_aset_same. rewrite Ht in Hc |- *.
                rewrite (drain_exhaust sk _ _ Hc). apply skipn_all.
             ++ apply Nat.eqb_neq in E2. contradiction.
          -- rewrite getl_aset_other, getz_aset_other by exact Hne. intros Hall Hc.
             assert (Hsame : getl (if E then aset (ns_skipped m) (dc_of h) (skipn (length taken) sk) else ns_skipped m) dc
                             = getl (ns_skipped m) dc).
             { destruct E; [rewrite getl_aset_other by exact Hne|]; reflexivity. }
             rewrite Hsame. apply K2; assumption.
    - (* rack already used, other racks still unused *)
      assert (E1 : (length (getl (ns_seen m) (dc_of h)) =? length (getl dcr (dc_of h)))%nat = false) by (apply Nat.eqb_neq; exact Hl).
      rewrite E1. change (set_has (rack_of h) (getl (ns_seen m) (dc_of h))) with (smem (rack_of h) (getl (ns_seen m) (dc_of h))). rewrite Hs.
      rewrite (lhs_add_fresh h _ (Hnss (dc_of h))). split.
      + split; cbn [ns_replicas ns_seen ns_skipped ns_count s_replicas s_seen s_skipped]; auto.
        * intros dc'. destruct (str_eq_dec dc' (dc_of h)) as [->|Hne].
          -- rewrite getl_aset_same, upd_same. intros _. rewrite filter_app. simpl.
             assert (En : notin (s_replicas s) h = true) by (apply notin_true; rewrite <- Rr; exact Hnin).
             rewrite En, <- (Rk (dc_of h) Hl). reflexivity.
          -- rewrite getl_aset_other, upd_other by exact Hne. apply Rk.
        * intros dc'. destruct (str_eq_dec dc' (dc_of h)) as [->|Hne].
          -- rewrite upd_same. apply NoDup_snoc; [apply Rn|apply Hnss].
          -- rewrite upd_other by exact Hne. apply Rn.
        * intros dc'. destruct (str_eq_dec dc' (dc_of h)) as [->|Hne].
          -- rewrite upd_same. intros x Hx. apply in_app_iff in Hx.
             destruct Hx as [Hx|[<-|[]]]; [right; apply (Rv (dc_of h)); exact Hx|left; reflexivity].
          -- rewrite upd_other by exact Hne. intros x Hx. right. apply (Rv dc'). exact Hx.
        * intros dc' x. destruct (str_eq_dec dc' (dc_of h)) as [->|Hne].
          -- rewrite upd_same, in_app_iff. simpl. intros [Hx|[<-|[]]]; [apply Rd; exact Hx|reflexivity].
          -- rewrite upd_other by exact Hne. apply Rd.
      + split; cbn [ns_replicas ns_seen ns_skipped ns_count].
        * intros x [<-|Hx] H1 H2.
          -- split; [apply smem_In; exact Hs|]. right. rewrite getl_aset_same. apply in_or_app. right. left. reflexivity.
          -- apply (Kold (ns_count m) (ns_seen m) (ns_replicas m)
                         (aset (ns_skipped m) (dc_of h) (getl (ns_skipped m) (dc_of h) ++ [h]))); auto.
             ++ intros dc. lia.
             ++ intros dc y Hy. exact Hy.
             ++ intros y Hy. exact Hy.
             ++ intros dc y Hy. right. destruct (str_eq_dec dc (dc_of h)) as [->|Hne];
                  [rewrite getl_aset_same; apply in_or_app; left; exact Hy|rewrite getl_aset_other by exact Hne; exact Hy].
        * intros dc Hall Hc. destruct (str_eq_dec dc (dc_of h)) as [->|Hne]; [contradiction|].
          rewrite getl_aset_other by exact Hne. apply K2; assumption.
  Qed.

  (* another token of a host the driver has been through: nothing Cassandra does with it shows *)
  Lemma visit_revisit visited m s h :
    minv info dcs dcr m -> rel visited m s -> kinv m visited -> In h visited ->
    rel visited m (s_visit s h).
  Proof.
    intros Hm Hr [K1 K2] Hv. pose proof Hr as [Rr Rs Rk Rn Rv Rd].
    unfold visit. rewrite lookup_aget.
    destruct (aget dcs (dc_of h)) as [rf|] eqn:Ea; [|exact Hr].
    assert (Hrf : getz dcs (dc_of h) = rf) by (unfold getz; rewrite Ea; reflexivity).
    destruct (s_suff rf (dc_of h) (s_replicas s)) eqn:Es; [exact Hr|].
    assert (Hc : getz (ns_count m) (dc_of h) < rf).
    { unfold sufficient in Es. rewrite in_dc_count, <- Rr, <- (mi_count info dcs dcr m Hm) in Es. lia. }
    assert (Hnz : getz dcs (dc_of h) <> 0) by (pose proof (mi_count info dcs dcr m Hm (dc_of h)); lia).
    destruct (K1 h Hv Hnz) as [G1 G2]; [lia|].
    rewrite <- racks_length, <- Rs.
    destruct (length (getl (ns_seen m) (dc_of h)) =? length (getl dcr (dc_of h)))%nat eqn:E.
    - apply Nat.eqb_eq in E. rewrite (K2 (dc_of h) E) in G2 by lia.
      destruct G2 as [G2|[]]. unfold lhs_add.
      assert (Eh : lhs_has h (s_replicas s) = true) by (apply lhs_has_In; rewrite <- Rr; exact G2).
      rewrite Eh. destruct s; exact Hr.
    - apply Nat.eqb_neq in E.
      assert (Eh : set_has (rack_of h) (getl (ns_seen m) (dc_of h)) = true) by (apply smem_In; exact G1).
      rewrite Eh. split; cbn [s_replicas s_seen s_skipped]; auto.
      + intros dc Hne. destruct (str_eq_dec dc (dc_of h)) as [->|Hnd]; [|rewrite upd_other by exact Hnd; apply Rk; exact Hne].
        rewrite upd_same, (Rk (dc_of h) Hne). unfold lhs_add.
        destruct (lhs_has h (s_skipped s (dc_of h))) eqn:E2; [reflexivity|].
        rewrite filter_app. simpl.
        assert (En : notin (s_replicas s) h = false).
        { destruct (notin (s_replicas s) h) eqn:En; [|reflexivity]. exfalso.
          apply notin_true in En. destruct G2 as [G2|G2]; [apply En; rewrite <- Rr; exact G2|].
          rewrite (Rk (dc_of h) Hne) in G2. apply filter_In in G2. destruct G2 as [G2 _].
          apply lhs_has_In in G2. congruence. }
        rewrite En, app_nil_r. reflexivity.
      + intros dc. destruct (str_eq_dec dc (dc_of h)) as [->|Hnd]; [|rewrite upd_other by exact Hnd; apply Rn].
        rewrite upd_same. unfold lhs_add. destruct (lhs_has h (s_skipped s (dc_of h))) eqn:E2; [apply Rn|].
        apply NoDup_snoc; [apply Rn|]. intros H. apply lhs_has_In in H. congruence.
      + intros dc. destruct (str_eq_dec dc (dc_of h)) as [->|Hnd]; [|rewrite upd_other by exact Hnd; apply Rv].
        rewrite upd_same. unfold lhs_add. destruct (lhs_has h (s_skipped s (dc_of h))); [apply Rv|].
        intros x Hx. apply in_app_iff in Hx. destruct Hx as [Hx|[<-|[]]]; [apply (Rv (dc_of h)); exact Hx|exact Hv].
      + intros dc x. destruct (str_eq_dec dc (dc_of h)) as [->|Hnd]; [|rewrite upd_other by exact Hnd; apply Rd].
        rewrite upd_same. unfold lhs_add. destruct (lhs_has h (s_skipped s (dc_of h))); [apply Rd|].
        rewrite in_app_iff. simpl. intros [Hx|[<-|[]]]; [apply Rd; exact Hx|reflexivity].
  Qed.

  Lemma run_rel walk : forall visited m s,
    minv info dcs dcr m -> rel visited m s -> vinv m visited -> kinv m visited ->
    incl walk endpoints -> (forall x, In x visited -> In x endpoints) ->
    exists m', nts_run_v info dcs dcr walk visited m = Ok m' /\ ns_replicas m' = s_replicas (fold_left s_visit walk s).
  Proof.
    induction walk as [|h rest IH]; intros visited m s Hm Hr Hv Hk Hincl Hvis; simpl.
    - exists m. split; [reflexivity|apply (rl_reps _ _ _ Hr)].
    - assert (Hep : In h endpoints) by (apply Hincl; left; reflexivity).
      assert (Hincl' : incl rest endpoints) by (intros x Hx; apply Hincl; right; exact Hx).
      destruct (zmem h visited) eqn:Ez.
      + apply zmem_In in Ez. apply IH; auto. apply visit_revisit; assumption.
      + apply zmem_false in Ez.
        assert (Hvis' : forall x, In x (h :: visited) -> In x endpoints) by (intros x [<-|Hx]; auto).
        destruct (nts_step_ok info dcs dcr m h Hm) as [m1 [H1 [H2 H3]]]. rewrite H1.
        destruct H3 as [[Hna ->]|[Ha Hkd]].
        * rewrite (visit_inactive visited m s h Hm Hr Hv Ez Hep Hvis Hna).
          apply IH; auto; [apply rel_more; exact Hr|apply vinv_more; exact Hv|apply kinv_inactive; assumption].
        * destruct (visit_active visited m s h m1 Hm Hr Hv Hk Ez Hep Hvis Ha Hkd) as [Hr1 Hk1].
          apply IH; auto. exact (vinv_step info dcs dcr m visited h m1 Hm Hv Ez Hkd).
  Qed.

  (* Cassandra's loop condition, too, only cuts iterations that change nothing *)
  Lemma lookup_In m k v : lookup m k = Some v -> In (k, v) m.
  Proof. rewrite lookup_aget. apply aget_In. Qed.

  Lemma visit_all_sufficient s ep : all_sufficient dc_of dcs endpoints (s_replicas s) = true -> s_visit s ep = s.
  Proof.
    intros H. unfold visit. destruct (lookup dcs (dc_of ep)) as [rf|] eqn:E; [|reflexivity].
    unfold all_sufficient in H. rewrite forallb_forall in H.
    specialize (H _ (lookup_In _ _ _ E)). simpl in H. rewrite H. reflexivity.
  Qed.

  Lemma nts_walk_fold walk : forall s, nts_walk dc_of rack_of dcs endpoints walk s = fold_left s_visit walk s.
  Proof.
    induction walk as [|ep rest IH]; intros s; simpl; [reflexivity|].
    destruct (all_sufficient dc_of dcs endpoints (s_replicas s)) eqn:E; [|apply IH].
    rewrite (visit_all_sufficient s ep E).
    clear IH. induction rest as [|x rest IHr]; simpl; [reflexivity|].
    rewrite (visit_all_sufficient s x E). exact IHr.
  Qed.

  Lemma rel_state0 : rel [] (nts_state0 dcs dcr) nts_start.
  Proof.
    split; simpl; auto.
    - intros dc. constructor.
    - intros dc x [].
    - intros dc x [].
  Qed.

  Lemma kinv_state0 : kinv (nts_state0 dcs dcr) [].
  Proof. split; [intros h []|]. intros dc _ _. reflexivity. Qed.

  (* the replicas of ring entry i are Cassandra's natural endpoints for the walk that starts at entry i:
     any number of tokens per host *)
  Lemma nts_token_eq_spec ring_hosts i th :
    nth_error ring_hosts i = Some th -> getz dcs (dc_of th) <> 0 ->
    (forall h, In h ring_hosts <-> In h endpoints) ->
    nts_token info dcs dcr ring_hosts i th
    = Ok (nts_endpoints dc_of rack_of dcs endpoints (rotate i ring_hosts)).
  Proof.
    intros Hn Hrf Hrh.
    assert (Hin : In th hosts) by (apply hosts_eq, Hrh; eapply nth_error_In; exact Hn).
    destruct (nts_token_ok info dcs hosts dcs_nonneg dcs_keys ring_hosts i th Hn Hin Hrf) as [st [suf [H1 [H2 [H3 [H4 _]]]]]].
    rewrite H4. f_equal. rewrite <- H3.
    destruct (run_rel (rotate i ring_hosts) [] (nts_state0 dcs dcr) (nts_start)) as [m' [K1 K2]].
    - apply minv_state0. exact dcs_nonneg.
    - apply rel_state0.
    - apply vinv_state0.
    - apply kinv_state0.
    - intros x Hx. apply Hrh. apply rotate_In in Hx. exact Hx.
    - intros x [].
    - rewrite H1 in K1. inversion K1; subst m'. unfold nts_endpoints. rewrite nts_walk_fold. exact K2.
  Qed.

  Lemma count_le_endpoints dc reps :
    NoDup reps -> incl reps endpoints -> (count_dc info dc reps <= length (s_eps dc))%nat.
  Proof.
    intros Hnd Hincl. unfold count_dc. apply NoDup_incl_length; [apply NoDup_filter; exact Hnd|].
    intros y Hy. apply filter_In in Hy. unfold dc_endpoints. rewrite nodup_In, filter_In.
    split; [apply Hincl; tauto|]. unfold name_eqb. tauto.
  Qed.

End Refine.
