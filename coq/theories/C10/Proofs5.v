(* C10/Proofs5.v -- networkTopology's inner loop against Cassandra's NetworkTopologyStrategy, for a walk
   that meets every host at most once (one token per host). *)
From GocqlV Require Import Lib.Base C10.Model C10.Spec C10.Proofs1 C10.Proofs2 C10.Proofs3 C10.Proofs4.
From Coq Require Import Sorting.Permutation.
Open Scope Z_scope.

Lemma lookup_aget (m : list (name * Z)) k : lookup m k = aget m k.
Proof. induction m as [|[k' v] m IH]; simpl; [reflexivity|]. unfold name_eqb. destruct (zlist_eqb k' k); auto. Qed.

Lemma lhs_has_In x s : lhs_has x s = true <-> In x s.
Proof. apply zmem_In. Qed.

Lemma lhs_add_fresh x s : ~ In x s -> lhs_add x s = s ++ [x].
Proof. intros H. unfold lhs_add. destruct (lhs_has x s) eqn:E; [apply lhs_has_In in E; contradiction|reflexivity]. Qed.

Lemma set_add_fresh x s : smem x s = false -> set_add x s = s ++ [x].
Proof. intros H. unfold set_add. change (set_has x s) with (smem x s). rewrite H. reflexivity. Qed.

Lemma firstn_skipn_disjoint {A} n (l : list A) x : NoDup l -> In x (firstn n l) -> In x (skipn n l) -> False.
Proof.
  intros Hnd H1 H2. rewrite <- (firstn_skipn n l) in Hnd.
  revert Hnd H1 H2. generalize (firstn n l) (skipn n l). intros a b. induction a as [|y a IH]; simpl; intros Hnd H1 H2; [exact H1|].
  inversion Hnd as [|? ? Hy Hnd']; subst. destruct H1 as [->|H1].
  - apply Hy. apply in_or_app. right. exact H2.
  - apply IH; assumption.
Qed.

Lemma NoDup_app_intro {A} (a b : list A) :
  NoDup a -> NoDup b -> (forall x, In x a -> In x b -> False) -> NoDup (a ++ b).
Proof.
  induction a as [|y a IH]; simpl; intros Ha Hb Hd; [exact Hb|].
  inversion Ha as [|? ? Hy Ha']; subst. constructor.
  - rewrite in_app_iff. intros [H|H]; [contradiction|]. apply (Hd y); [left; reflexivity|exact H].
  - apply IH; auto. intros x Hx1 Hx2. apply (Hd x); [right; exact Hx1|exact Hx2].
Qed.

Section Refine.
  Variable info : Z -> hinfo.
  Variable dcs : amap Z.
  Variable hosts : list Z.                        (* tokenRing.hosts *)
  Variable endpoints : list Z.                    (* the hosts of the ring entries *)
  Notation dc_of := (dc_of info).
  Notation rack_of := (rack_of info).
  Notation dcr := (mk_dc_racks info hosts).
  Hypothesis dcs_nonneg : Forall (fun e => 0 <= snd e) dcs.
  Hypothesis dcs_keys : NoDup (map fst dcs).
  Hypothesis hosts_eq : forall h, In h hosts <-> In h endpoints.    (* every host owns a token *)

  Notation s_visit := (visit dc_of rack_of dcs endpoints).
  Notation s_racks := (Spec.dc_racks dc_of rack_of endpoints).
  Notation s_eps := (dc_endpoints dc_of endpoints).
  Notation s_suff := (sufficient dc_of endpoints).

  Lemma racks_length dc : length (getl dcr dc) = length (s_racks dc).
  Proof.
    pose proof (mk_dc_racks_inv info hosts) as Hri.
    assert (Hiff : forall rk, In rk (getl dcr dc) <-> In rk (s_racks dc)).
    { intros rk. rewrite (ri_in info _ _ Hri). unfold Spec.dc_racks, dc_endpoints. rewrite nodup_In, in_map_iff. split.
      - intros [h [H1 [H2 H3]]]. exists h. split; [exact H3|]. rewrite nodup_In, filter_In. split; [apply hosts_eq; exact H1|].
        unfold name_eqb. rewrite H2. apply zlist_eqb_refl.
      - intros [h [H1 H2]]. rewrite nodup_In, filter_In in H2. destruct H2 as [H2 H3].
        exists h. split; [apply hosts_eq; exact H2|]. split; [apply zlist_eqb_eq; exact H3|exact H1]. }
    apply Nat.le_antisymm; apply NoDup_incl_length.
    - apply (ri_nodup info _ _ Hri).
    - intros x Hx. apply Hiff. exact Hx.
    - apply NoDup_nodup.
    - intros x Hx. apply Hiff. exact Hx.
  Qed.

  Lemma in_dc_count dc l : length (in_dc dc_of dc l) = count_dc info dc l.
  Proof. reflexivity. Qed.

  (* a fresh endpoint of the DC shows that the DC is not exhausted *)
  Lemma count_lt_endpoints dc reps x :
    NoDup reps -> incl reps endpoints -> In x endpoints -> ~ In x reps -> dc_of x = dc ->
    (count_dc info dc reps < length (s_eps dc))%nat.
  Proof.
    intros Hnd Hincl Hx Hnx Hdc. unfold count_dc.
    set (f := fun h => zlist_eqb (dc_of h) dc).
    assert (H : (length (x :: filter f reps) <= length (s_eps dc))%nat).
    { apply NoDup_incl_length.
      - constructor; [rewrite filter_In; tauto|apply NoDup_filter; exact Hnd].
      - intros y [<-|Hy]; unfold dc_endpoints; rewrite nodup_In, filter_In.
        + split; [exact Hx|]. unfold name_eqb. rewrite Hdc. apply zlist_eqb_refl.
        + apply filter_In in Hy. split; [apply Hincl; tauto|]. unfold name_eqb. tauto. }
    simpl in H. lia.
  Qed.

  Lemma suff_fresh rf dc reps x :
    NoDup reps -> incl reps endpoints -> In x endpoints -> ~ In x reps -> dc_of x = dc ->
    s_suff rf dc reps = (Z.of_nat (count_dc info dc reps) >=? rf).
  Proof.
    intros H1 H2 H3 H4 H5. pose proof (count_lt_endpoints dc reps x H1 H2 H3 H4 H5) as Hlt.
    unfold sufficient. rewrite in_dc_count.
    destruct (Z.of_nat (count_dc info dc reps) >=? rf) eqn:E; lia.
  Qed.

  (* the two ways of appending the skipped hosts agree *)
  Lemma take_skipped_eq rf dc sk : forall reps,
    NoDup sk -> (forall x, In x sk -> dc_of x = dc /\ In x endpoints /\ ~ In x reps) ->
    NoDup reps -> incl reps endpoints ->
    take_skipped dc_of endpoints rf dc sk reps = reps ++ drain sk (Z.of_nat (count_dc info dc reps)) rf.
  Proof.
    induction sk as [|x sk IH]; intros reps Hsk Hx Hnd Hincl; simpl.
    - rewrite app_nil_r. reflexivity.
    - destruct (Hx x (or_introl eq_refl)) as [Hdc [Hep Hnin]].
      rewrite (suff_fresh rf dc reps x Hnd Hincl Hep Hnin Hdc).
      destruct (Z.of_nat (count_dc info dc reps) >=? rf) eqn:E.
      + assert (E' : (Z.of_nat (count_dc info dc reps) <? rf) = false) by lia. rewrite E', app_nil_r. reflexivity.
      + assert (E' : (Z.of_nat (count_dc info dc reps) <? rf) = true) by lia. rewrite E'.
        rewrite (lhs_add_fresh x reps Hnin). inversion Hsk as [|? ? Hxsk Hsk']; subst.
        rewrite IH.
        * rewrite count_dc_app, count_dc_one_same, <- app_assoc. simpl.
          replace (Z.of_nat (count_dc info (dc_of x) reps + 1)) with (Z.of_nat (count_dc info (dc_of x) reps) + 1) by lia.
          reflexivity.
        * exact Hsk'.
        * intros y Hy. destruct (Hx y (or_intror Hy)) as [Hy1 [Hy2 Hy3]]. split; [exact Hy1|]. split; [exact Hy2|].
          rewrite in_app_iff. simpl. intros [H|[H|[]]]; [contradiction|]. subst y. contradiction.
        * apply NoDup_snoc; assumption.
        * intros y Hy. apply in_app_iff in Hy. destruct Hy as [Hy|[<-|[]]]; [apply Hincl; exact Hy|exact Hep].
  Qed.

  (* ---- the simulation --------------------------------------------------------------------------- *)
  Record rel (m : nts_state) (s : nts) : Prop := {
    rl_reps : ns_replicas m = s_replicas s;
    rl_seen : forall dc, getl (ns_seen m) dc = s_seen s dc;
    rl_skip : forall dc, length (getl (ns_seen m) dc) <> length (getl dcr dc) -> getl (ns_skipped m) dc = s_skipped s dc }.

  Record fresh (m : nts_state) (rest : list Z) : Prop := {
    fr_nodup : NoDup (ns_replicas m);
    fr_incl : incl (ns_replicas m) endpoints;
    fr_rest : forall x, In x rest -> ~ In x (ns_replicas m) /\ forall dc, ~ In x (getl (ns_skipped m) dc);
    fr_sk_nodup : forall dc, NoDup (getl (ns_skipped m) dc);
    fr_sk_disj : forall dc x, In x (getl (ns_skipped m) dc) -> ~ In x (ns_replicas m);
    fr_sk_incl : forall dc, incl (getl (ns_skipped m) dc) endpoints }.

  Lemma fresh_tail m h rest : fresh m (h :: rest) -> fresh m rest.
  Proof. intros [H1 H2 H3 H4 H5 H6]. split; auto. intros x Hx. apply H3. right. exact Hx. Qed.

  Lemma upd_same {A} (f : name -> A) k v : upd f k v k = v.
  Proof. unfold upd, name_eqb. rewrite zlist_eqb_refl. reflexivity. Qed.
  Lemma upd_other {A} (f : name -> A) k k' v : k' <> k -> upd f k v k' = f k'.
  Proof. intros H. unfold upd, name_eqb. rewrite zlist_eqb_neq by exact H. reflexivity. Qed.

  (* an iteration that changes nothing in the driver changes nothing in Cassandra's loop *)
  Lemma visit_inactive m s h rest :
    minv info dcs dcr m -> rel m s -> fresh m (h :: rest) -> In h endpoints ->
    ~ active info dcs dcr m h -> s_visit s h = s.
  Proof.
    intros Hm Hr Hf Hep Hna. unfold visit. rewrite lookup_aget.
    destruct (aget dcs (dc_of h)) as [rf|] eqn:Ea; [|reflexivity].
    assert (Hrf : getz dcs (dc_of h) = rf) by (unfold getz; rewrite Ea; reflexivity).
    destruct (fr_rest m _ Hf h (or_introl eq_refl)) as [Hnin _].
    rewrite (suff_fresh rf (dc_of h) (s_replicas s) h); try (rewrite <- (rl_reps m s Hr)); auto;
      try apply (fr_nodup m _ Hf); try apply (fr_incl m _ Hf).
    rewrite <- (mi_count info dcs dcr m Hm).
    destruct (getz (ns_count m) (dc_of h) >=? rf) eqn:E; [reflexivity|].
    exfalso. apply Hna. split; [|split].
    - pose proof (mi_count info dcs dcr m Hm (dc_of h)). lia.
    - lia.
    - apply (ri_in info _ _ (mk_dc_racks_inv info hosts)). exists h. split; [apply hosts_eq; exact Hep|tauto].
  Qed.

  (* an iteration that changes the driver's state changes Cassandra's in the same way *)
  Lemma visit_active m s h rest m' :
    minv info dcs dcr m -> rel m s -> fresh m (h :: rest) -> NoDup (h :: rest) -> In h endpoints ->
    active info dcs dcr m h -> step_kind info dcs dcr m h m' ->
    rel m' (s_visit s h) /\ fresh m' rest.
  Proof.
    intros Hm Hr Hf Hnd Hep [Hrf [Hlt Hrack]] Hk.
    destruct Hr as [Rr Rs Rk]. destruct Hf as [F1 F2 F3 F4 F5 F6].
    destruct (F3 h (or_introl eq_refl)) as [Hnin Hnsk].
    inversion Hnd as [|? ? Hhrest Hndrest]; subst.
    assert (Hrest : forall x, In x rest -> x <> h) by (intros x Hx ->; contradiction).
    assert (Ea : aget dcs (dc_of h) = Some (getz dcs (dc_of h))).
    { unfold getz in *. destruct (aget dcs (dc_of h)); [reflexivity|congruence]. }
    assert (Hsuff : s_suff (getz dcs (dc_of h)) (dc_of h) (s_replicas s) = false).
    { rewrite (suff_fresh (getz dcs (dc_of h)) (dc_of h) (s_replicas s) h); try (rewrite <- Rr); auto.
      rewrite <- (mi_count info dcs dcr m Hm). lia. }
    unfold visit. rewrite lookup_aget, Ea, Hsuff. rewrite <- racks_length, <- Rs.
    destruct Hk as [Hs Hl|taken Hs Ht|Hs Hl].
    - (* every rack used *)
      rewrite Hl, Nat.eqb_refl. rewrite <- Rr, (lhs_add_fresh h _ Hnin). split.
      + split; simpl; auto.
      + split; simpl; auto.
        * apply NoDup_snoc; assumption.
        * intros x Hx. apply in_app_iff in Hx. destruct Hx as [Hx|[<-|[]]]; auto.
        * intros x Hx. destruct (F3 x (or_intror Hx)) as [G1 G2]. split; [|exact G2].
          rewrite in_app_iff. simpl. intros [H|[H|[]]]; [contradiction|]. apply (Hrest x Hx). congruence.
        * intros dc' x Hx. rewrite in_app_iff. simpl. intros [H|[H|[]]]; [apply (F5 dc' x Hx H)|].
          subst x. apply (Hnsk dc' Hx).
    - (* a new rack *)
      assert (Hlt' : (length (getl (ns_seen m) (dc_of h)) < length (getl dcr (dc_of h)))%nat).
      { assert (H : (length ((rack_of h) :: getl (ns_seen m) (dc_of h)) <= length (getl dcr (dc_of h)))%nat).
        { apply NoDup_incl_length.
          - constructor; [apply smem_false; exact Hs|apply (mi_seen_nodup info dcs dcr m Hm)].
          - intros x [<-|Hx]; [exact Hrack|apply (mi_seen_incl info dcs dcr m Hm (dc_of h)); exact Hx]. }
        simpl in H. lia. }
      assert (E1 : (length (getl (ns_seen m) (dc_of h)) =? length (getl dcr (dc_of h)))%nat = false) by (apply Nat.eqb_neq; lia).
      rewrite E1. change (set_has (rack_of h) (getl (ns_seen m) (dc_of h))) with (smem (rack_of h) (getl (ns_seen m) (dc_of h))). rewrite Hs.
      rewrite (set_add_fresh (rack_of h) _ Hs). rewrite <- Rr, (lhs_add_fresh h _ Hnin).
      rewrite <- (Rk (dc_of h)) by lia.
      set (sk := getl (ns_skipped m) (dc_of h)) in *.
      assert (Hcount : Z.of_nat (count_dc info (dc_of h) (ns_replicas m ++ [h])) = getz (ns_count m) (dc_of h) + 1).
      { rewrite count_dc_app. rewrite count_dc_one_same. rewrite (mi_count info dcs dcr m Hm). lia. }
      assert (Htake : (if (length (getl (ns_seen m) (dc_of h) ++ [(rack_of h)]) =? length (getl dcr (dc_of h)))%nat
                       then take_skipped dc_of endpoints (getz dcs (dc_of h)) (dc_of h) sk (ns_replicas m ++ [h])
                       else ns_replicas m ++ [h]) = ns_replicas m ++ [h] ++ taken).
      { subst taken. destruct (length (getl (ns_seen m) (dc_of h) ++ [(rack_of h)]) =? length (getl dcr (dc_of h)))%nat.
        - rewrite take_skipped_eq.
          + rewrite Hcount, <- app_assoc. reflexivity.
          + apply F4.
          + intros x Hx. split; [apply (mi_skip_dc info dcs dcr m Hm (dc_of h) x Hx)|]. split; [apply (F6 (dc_of h) x Hx)|].
            rewrite in_app_iff. simpl. intros [H|[H|[]]]; [apply (F5 (dc_of h) x Hx H)|]. subst x. apply (Hnsk (dc_of h) Hx).
          + apply NoDup_snoc; assumption.
          + intros x Hx. apply in_app_iff in Hx. destruct Hx as [Hx|[<-|[]]]; auto.
        - rewrite app_nil_r. reflexivity. }
      rewrite Htake.
      assert (Htk : incl taken sk).
      { rewrite Ht. destruct (length (getl (ns_seen m) (dc_of h) ++ [rack_of h]) =? length (getl dcr (dc_of h)))%nat; [apply drain_incl|intros x []]. }
      assert (Htk_first : taken = firstn (length taken) sk).
      { rewrite Ht. destruct (length (getl (ns_seen m) (dc_of h) ++ [rack_of h]) =? length (getl dcr (dc_of h)))%nat; [apply drain_firstn|reflexivity]. }
      split.
      + split; cbn [ns_replicas ns_seen ns_skipped ns_count s_replicas s_seen s_skipped].
        * reflexivity.
        * intros dc'. destruct (str_eq_dec dc' (dc_of h)) as [->|Hne].
          -- rewrite getl_aset_same, upd_same. reflexivity.
          -- rewrite getl_aset_other, upd_other by exact Hne. apply Rs.
        * intros dc'. destruct (str_eq_dec dc' (dc_of h)) as [->|Hne].
          -- rewrite getl_aset_same. intros Hneq.
             destruct (length (getl (ns_seen m) (dc_of h) ++ [(rack_of h)]) =? length (getl dcr (dc_of h)))%nat eqn:E2.
             ++ apply Nat.eqb_eq in E2. contradiction.
             ++ apply Rk. lia.
          -- rewrite getl_aset_other by exact Hne. intros Hneq.
             destruct (length (getl (ns_seen m) (dc_of h) ++ [(rack_of h)]) =? length (getl dcr (dc_of h)))%nat.
             ++ rewrite getl_aset_other by exact Hne. apply Rk. exact Hneq.
             ++ apply Rk. exact Hneq.
      + assert (Hnd_new : NoDup (ns_replicas m ++ [h] ++ taken)).
        { rewrite app_assoc. apply NoDup_app_intro.
          - apply NoDup_snoc; assumption.
          - rewrite Htk_first. apply NoDup_firstn. apply F4.
          - intros x Hx1 Hx2. apply Htk in Hx2. apply in_app_iff in Hx1. destruct Hx1 as [Hx1|[<-|[]]].
            + apply (F5 (dc_of h) x Hx2 Hx1).
            + apply (Hnsk (dc_of h) Hx2). }
        assert (Hsk_new : forall dc' x,
                  In x (getl (if (length (getl (ns_seen m) (dc_of h) ++ [(rack_of h)]) =? length (getl dcr (dc_of h)))%nat
                              then aset (ns_skipped m) (dc_of h) (skipn (length taken) sk) else ns_skipped m) dc')
                  -> In x (getl (ns_skipped m) dc') /\ (dc' = (dc_of h) -> ~ In x taken)).
        { intros dc' x. destruct (length (getl (ns_seen m) (dc_of h) ++ [(rack_of h)]) =? length (getl dcr (dc_of h)))%nat eqn:E2.
          - destruct (str_eq_dec dc' (dc_of h)) as [->|Hne].
            + rewrite getl_aset_same. intros Hx. split; [apply In_skipn in Hx; exact Hx|].
              intros _ Hx2. rewrite Htk_first in Hx2. apply (firstn_skipn_disjoint _ _ _ (F4 (dc_of h)) Hx2 Hx).
            + rewrite getl_aset_other by exact Hne. intros Hx. split; [exact Hx|congruence].
          - intros Hx. split; [exact Hx|]. intros _. subst taken. intros []. }
        split; cbn [ns_replicas ns_seen ns_skipped ns_count].
        * exact Hnd_new.
        * intros x Hx. rewrite !in_app_iff in Hx. destruct Hx as [Hx|[[<-|[]]|Hx]]; auto. apply (F6 (dc_of h)). apply Htk. exact Hx.
        * intros x Hx. destruct (F3 x (or_intror Hx)) as [G1 G2]. split.
          -- rewrite !in_app_iff. simpl. intros [H|[[H|[]]|H]]; [contradiction|apply (Hrest x Hx); congruence|].
             apply (G2 (dc_of h)). apply Htk. exact H.
          -- intros dc' Hx'. apply Hsk_new in Hx'. apply (G2 dc'). tauto.
        * intros dc'. destruct (length (getl (ns_seen m) (dc_of h) ++ [(rack_of h)]) =? length (getl dcr (dc_of h)))%nat; [|apply F4].
          destruct (str_eq_dec dc' (dc_of h)) as [->|Hne].
          -- rewrite getl_aset_same. apply NoDup_skipn. apply F4.
          -- rewrite getl_aset_other by exact Hne. apply F4.
        * intros dc' x Hx. destruct (Hsk_new dc' x Hx) as [G1 G2].
          rewrite !in_app_iff. simpl. intros [H|[[H|[]]|H]].
          -- apply (F5 dc' x G1 H).
          -- subst x. apply (Hnsk dc' G1).
          -- destruct (str_eq_dec dc' (dc_of h)) as [->|Hne]; [apply G2; auto|].
             apply Hne. rewrite <- (mi_skip_dc info dcs dcr m Hm dc' x G1).
             apply (mi_skip_dc info dcs dcr m Hm (dc_of h) x). apply Htk. exact H.
        * intros dc' x Hx. apply Hsk_new in Hx. apply (F6 dc'). tauto.
    - (* rack already used, other racks still unused *)
      assert (E1 : (length (getl (ns_seen m) (dc_of h)) =? length (getl dcr (dc_of h)))%nat = false) by (apply Nat.eqb_neq; exact Hl).
      rewrite E1. change (set_has (rack_of h) (getl (ns_seen m) (dc_of h))) with (smem (rack_of h) (getl (ns_seen m) (dc_of h))). rewrite Hs.
      rewrite <- (Rk (dc_of h) Hl). rewrite (lhs_add_fresh h _ (Hnsk (dc_of h))). split.
      + split; cbn [ns_replicas ns_seen ns_skipped ns_count s_replicas s_seen s_skipped]; auto.
        intros dc'. destruct (str_eq_dec dc' (dc_of h)) as [->|Hne].
        * rewrite getl_aset_same, upd_same. reflexivity.
        * rewrite getl_aset_other, upd_other by exact Hne. apply Rk.
      + split; cbn [ns_replicas ns_seen ns_skipped ns_count]; auto.
        * intros x Hx. destruct (F3 x (or_intror Hx)) as [G1 G2]. split; [exact G1|].
          intros dc'. destruct (str_eq_dec dc' (dc_of h)) as [->|Hne].
          -- rewrite getl_aset_same, in_app_iff. simpl. intros [H|[H|[]]]; [apply (G2 (dc_of h) H)|apply (Hrest x Hx); congruence].
          -- rewrite getl_aset_other by exact Hne. apply G2.
        * intros dc'. destruct (str_eq_dec dc' (dc_of h)) as [->|Hne].
          -- rewrite getl_aset_same. apply NoDup_snoc; [apply F4|apply Hnsk].
          -- rewrite getl_aset_other by exact Hne. apply F4.
        * intros dc' x. destruct (str_eq_dec dc' (dc_of h)) as [->|Hne].
          -- rewrite getl_aset_same, in_app_iff. simpl. intros [H|[<-|[]]]; [apply (F5 (dc_of h) x H)|exact Hnin].
          -- rewrite getl_aset_other by exact Hne. apply F5.
        * intros dc'. destruct (str_eq_dec dc' (dc_of h)) as [->|Hne].
          -- rewrite getl_aset_same. intros x Hx. apply in_app_iff in Hx. destruct Hx as [Hx|[<-|[]]]; [apply (F6 (dc_of h) x Hx)|exact Hep].
          -- rewrite getl_aset_other by exact Hne. apply F6.
  Qed.

  Lemma run_rel walk : forall m s,
    minv info dcs dcr m -> rel m s -> fresh m walk -> NoDup walk -> incl walk endpoints ->
    exists m', nts_run info dcs dcr walk m = Ok m' /\ rel m' (fold_left s_visit walk s) /\ fresh m' [].
  Proof.
    induction walk as [|h rest IH]; intros m s Hm Hr Hf Hnd Hincl; simpl.
    - exists m. split; [reflexivity|]. split; [exact Hr|exact Hf].
    - assert (Hep : In h endpoints) by (apply Hincl; left; reflexivity).
      assert (Hincl' : incl rest endpoints) by (intros x Hx; apply Hincl; right; exact Hx).
      inversion Hnd as [|? ? Hh Hnd']; subst.
      destruct (nts_step_ok info dcs dcr m h Hm) as [m1 [H1 [H2 H3]]]. rewrite H1.
      destruct H3 as [[Hna ->]|[Ha Hk]].
      + rewrite (visit_inactive m s h rest Hm Hr Hf Hep Hna).
        apply IH; auto. eapply fresh_tail. exact Hf.
      + destruct (visit_active m s h rest m1 Hm Hr Hf Hnd Hep Ha Hk) as [Hr1 Hf1].
        apply IH; auto.
  Qed.

  (* Cassandra's loop condition, too, only cuts iterations that change nothing *)
  Lemma lookup_In m k v : lookup m k = Some v -> In (k, v) m.
  Proof. rewrite lookup_aget. apply aget_In. Qed.

  Lemma visit_all_sufficient s ep : all_sufficient dc_of dcs endpoints (s_replicas s) = true -> s_visit s ep = s.
  Proof.
    intros H. unfold visit. destruct (lookup dcs (dc_of ep)) as [rf|] eqn:E; [|reflexivity].
    unfold all_sufficient in H. rewrite forallb_forall in H.
    specialize (H _ (lookup_In _ _ _ E)). simpl in H. rewrite H. reflexivity.
  Qed.

  Lemma nts_walk_fold walk : forall s, nts_walk dc_of rack_of dcs endpoints walk s = fold_left s_visit walk s.
  Proof.
    induction walk as [|ep rest IH]; intros s; simpl; [reflexivity|].
    destruct (all_sufficient dc_of dcs endpoints (s_replicas s)) eqn:E; [|apply IH].
    rewrite (visit_all_sufficient s ep E).
    clear IH. induction rest as [|x rest IHr]; simpl; [reflexivity|].
    rewrite (visit_all_sufficient s x E). exact IHr.
  Qed.

  Lemma fresh_state0 walk : fresh (nts_state0 dcs dcr) walk.
  Proof.
    assert (Hg : forall dc, @getl Z [] dc = []) by reflexivity.
    split; cbn [nts_state0 ns_replicas ns_skipped].
    - constructor.
    - intros x [].
    - intros x _. split; [intros []|]. intros dc. rewrite Hg. intros [].
    - intros dc. rewrite Hg. constructor.
    - intros dc x. rewrite Hg. intros [].
    - intros dc x. rewrite Hg. intros [].
  Qed.

  Lemma rel_state0 : rel (nts_state0 dcs dcr) nts_start.
  Proof. split; simpl; auto. Qed.

  (* the replicas of ring entry i are Cassandra's natural endpoints for the walk that starts at entry i *)
  Lemma nts_token_eq_spec ring_hosts i th :
    nth_error ring_hosts i = Some th -> getz dcs (dc_of th) <> 0 ->
    NoDup ring_hosts -> (forall h, In h ring_hosts <-> In h endpoints) ->
    nts_token info dcs dcr ring_hosts i th
    = Ok (nts_endpoints dc_of rack_of dcs endpoints (rotate i ring_hosts)).
  Proof.
    intros Hn Hrf Hnd Hrh.
    assert (Hin : In th hosts) by (apply hosts_eq, Hrh; eapply nth_error_In; exact Hn).
    destruct (nts_token_ok info dcs hosts dcs_nonneg dcs_keys ring_hosts i th Hn Hin Hrf) as [st [suf [H1 [H2 [H3 H4]]]]].
    rewrite H4. f_equal. rewrite <- H3.
    destruct (run_rel (rotate i ring_hosts) (nts_state0 dcs dcr) (nts_start)) as [m' [K1 [K2 _]]].
    - apply minv_state0. exact dcs_nonneg.
    - apply rel_state0.
    - apply fresh_state0.
    - apply rotate_NoDup. exact Hnd.
    - intros x Hx. apply Hrh. apply rotate_In in Hx. exact Hx.
    - rewrite H1 in K1. inversion K1; subst m'. unfold nts_endpoints. rewrite nts_walk_fold.
      apply (rl_reps _ _ K2).
  Qed.
  Lemma count_le_endpoints dc reps :
    NoDup reps -> incl reps endpoints -> (count_dc info dc reps <= length (s_eps dc))%nat.
  Proof.
    intros Hnd Hincl. unfold count_dc. apply NoDup_incl_length; [apply NoDup_filter; exact Hnd|].
    intros y Hy. apply filter_In in Hy. unfold dc_endpoints. rewrite nodup_In, filter_In.
    split; [apply Hincl; tauto|]. unfold name_eqb. tauto.
  Qed.

  (* with one token per host an entry has no host twice, only ring hosts, and per DC at most min(rf, nodes) *)
  Lemma nts_token_props ring_hosts i th :
    nth_error ring_hosts i = Some th -> getz dcs (dc_of th) <> 0 ->
    NoDup ring_hosts -> (forall h, In h ring_hosts <-> In h endpoints) ->
    exists reps, nts_token info dcs dcr ring_hosts i th = Ok reps
      /\ NoDup reps /\ incl reps endpoints
      /\ forall dc, Z.of_nat (count_dc info dc reps) <= Z.min (getz dcs dc) (Z.of_nat (length (s_eps dc))).
  Proof.
    intros Hn Hrf Hnd Hrh.
    assert (Hin : In th hosts) by (apply hosts_eq, Hrh; eapply nth_error_In; exact Hn).
    destruct (nts_token_ok info dcs hosts dcs_nonneg dcs_keys ring_hosts i th Hn Hin Hrf) as [st [suf [H1 [H2 [H3 H4]]]]].
    exists (th :: suf). split; [exact H4|]. rewrite <- H3.
    destruct (run_rel (rotate i ring_hosts) (nts_state0 dcs dcr) (nts_start)) as [m' [K1 [_ K3]]].
    - apply minv_state0. exact dcs_nonneg.
    - apply rel_state0.
    - apply fresh_state0.
    - apply rotate_NoDup. exact Hnd.
    - intros x Hx. apply Hrh. apply rotate_In in Hx. exact Hx.
    - rewrite H1 in K1. inversion K1; subst m'.
      split; [apply (fr_nodup _ _ K3)|]. split; [apply (fr_incl _ _ K3)|].
      intros dc. pose proof (count_le_endpoints dc _ (fr_nodup _ _ K3) (fr_incl _ _ K3)) as Hc.
      pose proof (mi_le info dcs dcr st H2 dc) as Hle. rewrite (mi_count info dcs dcr st H2) in Hle. lia.
  Qed.
End Refine.
