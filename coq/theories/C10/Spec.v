(* C10/Spec.v -- where Cassandra places a token: SimpleStrategy and NetworkTopologyStrategy
   .calculateNaturalEndpoints(searchToken, tokenMetadata), written from Cassandra's own algorithms
   (org.apache.cassandra.locator, the 1.2 - 2.2 formulation of NetworkTopologyStrategy in which the
   endpoints passed over while looking for unused racks are kept per datacenter and appended once every
   rack of the datacenter has been used) with Java's Set / LinkedHashSet semantics: adding an element
   that is already present changes nothing.  Independent of C10/Model.v (nothing imported from it).

   tokenMetadata is the sorted list of (token, endpoint); the snitch is [dc_of] / [rack_of]. *)
From GocqlV Require Import Lib.Base.
Open Scope Z_scope.

Notation name := (list Z) (only parsing).     (* datacenter and rack names *)
Definition name_eqb (a b : name) : bool := zlist_eqb a b.
Definition name_eq_dec : forall a b : name, {a = b} + {a <> b} := list_eq_dec Z.eq_dec.

(* LinkedHashSet.add / contains *)
Definition lhs_has (x : Z) (s : list Z) : bool := existsb (Z.eqb x) s.
Definition lhs_add (x : Z) (s : list Z) : list Z := if lhs_has x s then s else s ++ [x].
Definition set_has (x : name) (s : list name) : bool := existsb (name_eqb x) s.
Definition set_add (x : name) (s : list name) : list name := if set_has x s then s else s ++ [x].

(* Map<String,Integer>.get *)
Fixpoint lookup (m : list (name * Z)) (k : name) : option Z :=
  match m with
  | [] => None
  | (k', v) :: m' => if name_eqb k' k then Some v else lookup m' k
  end.

(* the distinct elements of a list, first occurrences, in order *)
Fixpoint distinct (l : list Z) : list Z :=
  match l with
  | [] => []
  | x :: l' => x :: filter (fun y => negb (y =? x)) (distinct l')
  end.

Section Placement.
  Context {T : Type}.
  Variable ltb : T -> T -> bool.                   (* Token.compareTo(..) < 0 *)
  Variable dc_of rack_of : Z -> name.              (* IEndpointSnitch.getDatacenter / getRack *)

  (* TokenMetadata.ringIterator(sortedTokens, start, false) followed by getEndpoint: the endpoints of the
     tokens >= start in ascending order, then those of the tokens < start (firstTokenIndex wraps to 0 when
     no token is >= start, which is the same list) *)
  Definition ring_walk (ring : list (T * Z)) (start : T) : list Z :=
    map snd (filter (fun e => negb (ltb (fst e) start)) ring ++ filter (fun e => ltb (fst e) start) ring).

  (* ---- SimpleStrategy: the first rf distinct endpoints met on the walk ------------------------- *)
  Definition simple_endpoints (rf : Z) (walk : list Z) : list Z := firstn (Z.to_nat rf) (distinct walk).

  Definition simple_natural_endpoints (rf : Z) (ring : list (T * Z)) (t : T) : list Z :=
    simple_endpoints rf (ring_walk ring t).

  (* ---- NetworkTopologyStrategy ------------------------------------------------------------------ *)
  Variable datacenters : list (name * Z).          (* the strategy's datacenter -> replication factor map *)
  Variable endpoints : list Z.                     (* every endpoint of tokenMetadata (with repetitions) *)

  (* topology.getDatacenterEndpoints().get(dc), topology.getDatacenterRacks().get(dc).keySet() *)
  Definition dc_endpoints (dc : name) : list Z :=
    nodup Z.eq_dec (filter (fun h => name_eqb (dc_of h) dc) endpoints).
  Definition dc_racks (dc : name) : list name := nodup name_eq_dec (map rack_of (dc_endpoints dc)).

  Record nts := mkS {
    s_replicas : list Z;                           (* LinkedHashSet<InetAddress> replicas; dcReplicas.get(dc) is its part in dc *)
    s_seen : name -> list name;                    (* seenRacks.get(dc) *)
    s_skipped : name -> list Z }.                  (* skippedDcEndpoints.get(dc), a LinkedHashSet *)

  Definition upd {A} (f : name -> A) (k : name) (v : A) : name -> A :=
    fun k' => if name_eqb k' k then v else f k'.

  Definition in_dc (dc : name) (l : list Z) : list Z := filter (fun h => name_eqb (dc_of h) dc) l.

  (* hasSufficientReplicas(dc, dcReplicas, allEndpoints):
     dcReplicas.get(dc).size() >= Math.min(allEndpoints.get(dc).size(), getReplicationFactor(dc)) *)
  Definition sufficient (rf : Z) (dc : name) (replicas : list Z) : bool :=
    Z.of_nat (length (in_dc dc replicas)) >=? Z.min (Z.of_nat (length (dc_endpoints dc))) rf.

  (* hasSufficientReplicas(dcReplicas, allEndpoints): for every dc of datacenters.keySet() *)
  Definition all_sufficient (replicas : list Z) : bool :=
    forallb (fun e => sufficient (snd e) (fst e) replicas) datacenters.

  (* while (skippedIt.hasNext() && !hasSufficientReplicas(dc, ..)) { add nextSkipped } *)
  Fixpoint take_skipped (rf : Z) (dc : name) (sk : list Z) (replicas : list Z) : list Z :=
    match sk with
    | [] => replicas
    | x :: sk' => if sufficient rf dc replicas then replicas else take_skipped rf dc sk' (lhs_add x replicas)
    end.

  (* the body of the loop for the endpoint of the next token *)
  Definition visit (s : nts) (ep : Z) : nts :=
    let dc := dc_of ep in
    match lookup datacenters dc with
    | None => s                                                        (* !datacenters.containsKey(dc) *)
    | Some rf =>
        if sufficient rf dc (s_replicas s) then s                      (* already all replicas for this dc *)
        else if (length (s_seen s dc) =? length (dc_racks dc))%nat then  (* can we skip checking the rack? *)
          mkS (lhs_add ep (s_replicas s)) (s_seen s) (s_skipped s)
        else
          let rack := rack_of ep in
          if set_has rack (s_seen s dc) then                           (* not a new rack *)
            mkS (s_replicas s) (s_seen s) (upd (s_skipped s) dc (lhs_add ep (s_skipped s dc)))
          else
            let replicas1 := lhs_add ep (s_replicas s) in
            let seen1 := set_add rack (s_seen s dc) in
            (* if we've run out of distinct racks, add the hosts we skipped past already (up to RF) *)
            let replicas2 := if (length seen1 =? length (dc_racks dc))%nat
                             then take_skipped rf dc (s_skipped s dc) replicas1 else replicas1 in
            mkS replicas2 (upd (s_seen s) dc seen1) (s_skipped s)
    end.

  (* while (tokenIter.hasNext() && !hasSufficientReplicas(dcReplicas, allEndpoints)) *)
  Fixpoint nts_walk (walk : list Z) (s : nts) : nts :=
    match walk with
    | [] => s
    | ep :: rest => if all_sufficient (s_replicas s) then s else nts_walk rest (visit s ep)
    end.

  Definition nts_start : nts := mkS [] (fun _ => []) (fun _ => []).

  (* new ArrayList<InetAddress>(replicas) *)
  Definition nts_endpoints (walk : list Z) : list Z := s_replicas (nts_walk walk nts_start).
End Placement.

Definition nts_natural_endpoints {T} (ltb : T -> T -> bool) (dc_of rack_of : Z -> name)
           (datacenters : list (name * Z)) (ring : list (T * Z)) (t : T) : list Z :=
  nts_endpoints dc_of rack_of datacenters (map snd ring) (ring_walk ltb ring t).

(* ---- NetworkTopologyStrategy as formulated since Cassandra 3.x (CASSANDRA-7032: DatacenterEndpoints with
   rfLeft and acceptableRackRepeats).  It yields the same replica SET as the formulation above; the order of
   its list can differ (an endpoint of a rack already used is taken at once while the rack budget lasts,
   instead of after the last unused rack).  C10/Corr.v evaluates both on every generated ring and compares them
   as sets; the equality is not proved here. ------------------------------------------------------------ *)
Section Placement40.
  Variable dc_of rack_of : Z -> name.
  Variable datacenters : list (name * Z).
  Variable endpoints : list Z.

  Record dc_state := mkD { d_rf_left : Z; d_repeats : Z }.       (* DatacenterEndpoints.rfLeft, acceptableRackRepeats *)
  Record nts40 := mkT {
    t_replicas : list Z;                                          (* the shared LinkedHashSet replicas *)
    t_racks : list (name * name);                                 (* the shared Set<Pair<dc, rack>> seenRacks *)
    t_dcs : list (name * dc_state);                               (* Map<String, DatacenterEndpoints> dcs *)
    t_to_fill : Z }.                                              (* dcsToFill *)

  Definition loc_eqb (a b : name * name) : bool := name_eqb (fst a) (fst b) && name_eqb (snd a) (snd b).

  Fixpoint dlookup (m : list (name * dc_state)) (k : name) : option dc_state :=
    match m with [] => None | (k', v) :: m' => if name_eqb k' k then Some v else dlookup m' k end.
  Fixpoint dset (m : list (name * dc_state)) (k : name) (v : dc_state) : list (name * dc_state) :=
    match m with
    | [] => [(k, v)]
    | (k', v') :: m' => if name_eqb k' k then (k', v) :: m' else (k', v') :: dset m' k v
    end.

  (* the constructor loop: a DatacenterEndpoints for every datacenter with rf > 0 and at least one node;
     rfLeft = min(rf, nodes), acceptableRackRepeats = rf - racks *)
  Definition start40 : nts40 :=
    let ds := flat_map (fun e =>
                let nodes := Z.of_nat (length (dc_endpoints dc_of endpoints (fst e))) in
                if (snd e <=? 0) || (nodes <=? 0) then []
                else [(fst e, mkD (Z.min (snd e) nodes)
                                  (snd e - Z.of_nat (length (dc_racks dc_of rack_of endpoints (fst e)))))]) datacenters in
    mkT [] [] ds (Z.of_nat (length ds)).

  (* DatacenterEndpoints.addEndpointAndCheckIfDone, and the --dcsToFill of the caller *)
  Definition visit40 (s : nts40) (ep : Z) : nts40 :=
    let dc := dc_of ep in
    match dlookup (t_dcs s) dc with
    | None => s
    | Some d =>
        if d_rf_left d =? 0 then s                                                       (* done() *)
        else
          let loc := (dc, rack_of ep) in
          if negb (existsb (loc_eqb loc) (t_racks s)) then                               (* racks.add(location): new rack *)
            let d' := mkD (d_rf_left d - 1) (d_repeats d) in
            mkT (lhs_add ep (t_replicas s)) (t_racks s ++ [loc]) (dset (t_dcs s) dc d')
                (if d_rf_left d' =? 0 then t_to_fill s - 1 else t_to_fill s)
          else if d_repeats d <=? 0 then s                                               (* no more rack repeats *)
          else if lhs_has ep (t_replicas s) then s                                       (* cannot repeat a node *)
          else
            let d' := mkD (d_rf_left d - 1) (d_repeats d - 1) in
            mkT (t_replicas s ++ [ep]) (t_racks s) (dset (t_dcs s) dc d')
                (if d_rf_left d' =? 0 then t_to_fill s - 1 else t_to_fill s)
    end.

  (* while (dcsToFill > 0 && tokenIter.hasNext()) *)
  Fixpoint walk40 (walk : list Z) (s : nts40) : nts40 :=
    match walk with
    | [] => s
    | ep :: rest => if 0 <? t_to_fill s then walk40 rest (visit40 s ep) else s
    end.

  Definition nts40_endpoints (walk : list Z) : list Z := t_replicas (walk40 walk start40).
End Placement40.

Definition nts40_natural_endpoints {T} (ltb : T -> T -> bool) (dc_of rack_of : Z -> name)
           (datacenters : list (name * Z)) (ring : list (T * Z)) (t : T) : list Z :=
  nts40_endpoints dc_of rack_of datacenters (map snd ring) (ring_walk ltb ring t).

(* ---- tokens as Cassandra writes them in system.local / system.peers ------------------------------- *)
(* Murmur3Partitioner: Long.toString, RandomPartitioner: BigInteger.toString -- an optional sign and decimal
   digits; ByteOrderedPartitioner tokens are compared as unsigned byte strings *)
Definition is_dec_digit (c : Z) : Prop := 48 <= c <= 57.
Definition dec_value (ds : list Z) : Z := fold_left (fun acc c => acc * 10 + (c - 48)) ds 0.
(* a long that does not fit: the driver keeps the nearest long (Cassandra never prints such a token) *)
Definition clamp64 (v : Z) : Z := Z.max (- 2 ^ 63) (Z.min (2 ^ 63 - 1) v).
(* unsigned lexicographic order: a is a proper prefix of b, or they first differ at a smaller byte of a *)
Definition bytes_lt (a b : list Z) : Prop :=
  (exists y t, b = a ++ y :: t) \/ (exists p x y s t, a = p ++ x :: s /\ b = p ++ y :: t /\ x < y).

(* ---- hand-worked examples (tests of the transcription, not theorems) ---------------------------- *)
Module SpecExamples.
  Definition n (z : Z) : name := [z].
  (* six nodes, tokens 10*i; dc 1: nodes 1,2,3 (racks 1,1,2), dc 2: nodes 4,5,6 (racks 1,2,3) *)
  Definition dc (h : Z) : name := if h <=? 3 then n 1 else n 2.
  Definition rack (h : Z) : name :=
    if h =? 1 then n 1 else if h =? 2 then n 1 else if h =? 3 then n 2
    else if h =? 4 then n 1 else if h =? 5 then n 2 else n 3.
  Definition ring6 : list (Z * Z) := [(10, 1); (20, 4); (30, 2); (40, 5); (50, 3); (60, 6)].

  (* SimpleStrategy, rf 3, token 35: the walk starts at token 40 *)
  Example simple_35 : simple_natural_endpoints Z.ltb 3 ring6 35 = [5; 3; 6].
  Proof. reflexivity. Qed.
  (* beyond the last token the walk wraps to the first *)
  Example simple_wrap : simple_natural_endpoints Z.ltb 2 ring6 61 = [1; 4].
  Proof. reflexivity. Qed.
  (* NTS {dc1: 2, dc2: 2}, token 5: dc1 takes node 1 (rack 1), passes over node 2 (rack 1 again), takes node 3
     (rack 2); dc2 takes nodes 4 and 5 *)
  Example nts_5 : nts_natural_endpoints Z.ltb dc rack [(n 1, 2); (n 2, 2)] ring6 5 = [1; 4; 5; 3].
  Proof. reflexivity. Qed.
  (* NTS {dc1: 3}: node 2 is passed over, then appended when rack 2 (the last unused rack) has been used *)
  Example nts_rf3 : nts_natural_endpoints Z.ltb dc rack [(n 1, 3)] ring6 5 = [1; 3; 2].
  Proof. reflexivity. Qed.
  (* a factor larger than the datacenter is satisfied by all its nodes; an unknown datacenter by none *)
  Example nts_rf_big : nts_natural_endpoints Z.ltb dc rack [(n 1, 7); (n 9, 2)] ring6 25 = [2; 3; 1].
  Proof. reflexivity. Qed.
  (* with several tokens per node a node is still listed once *)
  Example nts_vnodes :
    nts_natural_endpoints Z.ltb (fun _ => n 1) (fun _ => n 1) [(n 1, 2)] [(0, 1); (10, 1); (20, 2); (30, 2)] 0 = [1; 2].
  Proof. reflexivity. Qed.
  (* the 3.x / 4.x formulation on the same inputs: the same sets; nts_rf3's order differs *)
  Example nts40_5 : nts40_natural_endpoints Z.ltb dc rack [(n 1, 2); (n 2, 2)] ring6 5 = [1; 4; 5; 3].
  Proof. reflexivity. Qed.
  Example nts40_rf3 : nts40_natural_endpoints Z.ltb dc rack [(n 1, 3)] ring6 5 = [1; 2; 3].
  Proof. reflexivity. Qed.
  Example nts40_rf_big : nts40_natural_endpoints Z.ltb dc rack [(n 1, 7); (n 9, 2)] ring6 25 = [2; 3; 1].
  Proof. reflexivity. Qed.
  Example nts40_vnodes :
    nts40_natural_endpoints Z.ltb (fun _ => n 1) (fun _ => n 1) [(n 1, 2)] [(0, 1); (10, 1); (20, 2); (30, 2)] 0 = [1; 2].
  Proof. reflexivity. Qed.
End SpecExamples.
