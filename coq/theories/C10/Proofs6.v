(* C10/Proofs6.v -- the lookup in the NetworkTopologyStrategy replica map against Cassandra's placement
   of the looked-up token (including tokens owned by datacenters without replicas, whose entries are
   missing from the map); what getStrategy hands to the placement code. *)
From GocqlV Require Import Lib.Base C10.Model C10.Spec C10.Proofs1 C10.Proofs2 C10.Proofs3 C10.Proofs4 C10.Proofs5.
From Coq Require Import Sorting.Permutation Sorting.Sorted.
Open Scope Z_scope.

Lemma filter_hd {A} (f : A -> bool) (l : list A) :
  match hd_error (filter f l) with
  | None => filter f l = []
  | Some e => exists X Y, l = X ++ e :: Y /\ filter f X = [] /\ f e = true
  end.
Proof.
  induction l as [|a l IH]; simpl; [reflexivity|].
  destruct (f a) eqn:E; simpl.
  - exists [], l. auto.
  - destruct (hd_error (filter f l)) as [e|]; [|exact IH].
    destruct IH as [X [Y [H1 [H2 H3]]]]. exists (a :: X), Y. simpl. rewrite E. subst l. auto.
Qed.

Lemma filter_map_comm {A B} (g : A -> B) (f : B -> bool) (l : list A) :
  filter f (map g l) = map g (filter (fun x => f (g x)) l).
Proof. induction l as [|x l IH]; simpl; [reflexivity|]. destruct (f (g x)); simpl; rewrite IH; reflexivity. Qed.

Lemma filter_comm {A} (f g : A -> bool) (l : list A) : filter f (filter g l) = filter g (filter f l).
Proof. rewrite !filter_filter. apply filter_ext_in'. intros x _. apply andb_comm. Qed.

Lemma hd_error_map {A B} (g : A -> B) (l : list A) : hd_error (map g l) = option_map g (hd_error l).
Proof. destruct l; reflexivity. Qed.

Lemma fold_left_filter_id {A S} (step : S -> A -> S) (f : A -> bool) :
  (forall s x, f x = false -> step s x = s) ->
  forall l s, fold_left step l s = fold_left step (filter f l) s.
Proof.
  intros H. induction l as [|x l IH]; intros s; simpl; [reflexivity|].
  destruct (f x) eqn:E; simpl; [apply IH|]. rewrite (H s x E). apply IH.
Qed.

Ltac norm_lists := repeat (rewrite ?app_nil_r, ?map_app, ?filter_app; cbn [map filter app]).

Section NtsLookup.
  Context {T : Type} (ltb : T -> T -> bool) (O : strict_total ltb).
  Variable info : Z -> hinfo.
  Variable dcs : amap Z.
  Variable hosts : list Z.
  Notation dc_of := (dc_of info).
  Notation rack_of := (rack_of info).
  Hypothesis dcs_nonneg : Forall (fun e => 0 <= snd e) dcs.
  Hypothesis dcs_keys : NoDup (map fst dcs).

  (* ring entries with their index, keyed by token *)
  Definition sw (e : nat * (T * Z)) : T * (nat * Z) := (fst (snd e), (fst e, snd (snd e))).
  Definition un (e : T * (nat * Z)) : T * Z := (fst e, snd (snd e)).
  Definition hj (e : T * (nat * Z)) : Z := snd (snd e).
  Definition jx (r : @ring T) : list (T * (nat * Z)) := map sw (indexed r).
  Definition goodh (h : Z) : bool := negb (getz dcs (dc_of h) =? 0).
  Definition gdj (e : T * (nat * Z)) : bool := goodh (hj e).
  Definition Fj (ring_hosts : list Z) (e : T * (nat * Z)) : T * list Z :=
    (fst e, reps_of info dcs hosts ring_hosts (fst (snd e)) (snd (snd e))).

  Lemma nts_entries_jx (r : @ring T) : nts_entries info dcs hosts r = map (Fj (map snd r)) (filter gdj (jx r)).
  Proof. unfold nts_entries, jx. rewrite filter_map_comm, map_map. reflexivity. Qed.

  Lemma jx_un r : map un (jx r) = r.
  Proof.
    unfold jx. rewrite map_map. rewrite <- (indexed_from_map_snd r 0) at 2. unfold indexed.
    apply map_ext. intros [i [tok h]]. reflexivity.
  Qed.

  Lemma jx_hj r : map hj (jx r) = map snd r.
  Proof. rewrite <- (jx_un r) at 2. rewrite map_map. reflexivity. Qed.

  Lemma jx_fst r : map fst (jx r) = map fst r.
  Proof. rewrite <- (jx_un r) at 2. rewrite map_map. reflexivity. Qed.

  Lemma jx_decomp r P e Q :
    jx r = P ++ e :: Q ->
    fst (snd e) = length P /\ nth_error (map snd r) (length P) = Some (hj e)
    /\ rotate (length P) (map snd r) = hj e :: map hj Q ++ map hj P.
  Proof.
    intros H.
    assert (Hn : nth_error (jx r) (length P) = Some e).
    { rewrite H, nth_error_app2, Nat.sub_diag by lia. reflexivity. }
    assert (Hhosts : map snd r = map hj P ++ hj e :: map hj Q).
    { rewrite <- jx_hj, H, map_app. reflexivity. }
    split; [|split].
    - unfold jx, indexed in Hn. rewrite nth_error_map, indexed_from_nth in Hn.
      destruct (nth_error r (length P)) as [x|]; simpl in Hn; [|discriminate].
      inversion Hn. reflexivity.
    - rewrite Hhosts, nth_error_app2, map_length, Nat.sub_diag by (rewrite map_length; lia). reflexivity.
    - rewrite Hhosts. rewrite <- (map_length hj P). exact (rotate_app_len (map hj P) (hj e :: map hj Q)).
  Qed.

  Lemma gdj_filter_hosts l : filter goodh (map hj l) = map hj (filter gdj l).
  Proof. exact (filter_map_comm hj goodh l). Qed.

  (* the first entry with replicas met from the lookup point: its own walk visits the same hosts with
     replicas in the same order *)
  Lemma first_good_walk r Aj Bj X e Y :
    jx r = Aj ++ Bj -> Bj ++ Aj = X ++ e :: Y -> filter gdj X = [] ->
    nth_error (map snd r) (fst (snd e)) = Some (hj e)
    /\ filter goodh (rotate (fst (snd e)) (map snd r)) = filter goodh (map hj (Bj ++ Aj)).
  Proof.
    intros HJ HL HX.
    assert (HXh : filter goodh (map hj X) = []) by (rewrite gdj_filter_hosts, HX; reflexivity).
    destruct (app_eq_app _ _ _ _ HL) as [l [[H1 H2]|[H1 H2]]].
    - destruct l as [|e' l'].
      + (* e is the head of Aj *)
        simpl in H2. rewrite app_nil_r in H1. subst Bj. subst Aj.
        destruct (jx_decomp r [] e (Y ++ X)) as [D1 [D2 D3]]; [exact HJ|].
        cbn [length] in D1, D2, D3. rewrite D1. split; [exact D2|]. rewrite D3.
        norm_lists. rewrite !HXh. norm_lists. reflexivity.
      + (* e lies in Bj *)
        simpl in H2. inversion H2; subst e' Y. subst Bj.
        destruct (jx_decomp r (Aj ++ X) e l') as [D1 [D2 D3]]; [rewrite HJ, <- app_assoc; reflexivity|].
        rewrite D1. split; [exact D2|]. rewrite D3.
        norm_lists. rewrite !HXh. norm_lists. destruct (goodh (hj e)); reflexivity.
    - (* e lies in Aj, behind bad entries *)
      subst X Aj. rewrite filter_app in HX. apply app_eq_nil in HX. destruct HX as [HB Hl].
      destruct (jx_decomp r l e (Y ++ Bj)) as [D1 [D2 D3]]; [rewrite HJ, <- app_assoc; reflexivity|].
      rewrite D1. split; [exact D2|]. rewrite D3.
      assert (HBh : filter goodh (map hj Bj) = []) by (rewrite gdj_filter_hosts, HB; reflexivity).
      assert (Hlh : filter goodh (map hj l) = []) by (rewrite gdj_filter_hosts, Hl; reflexivity).
      norm_lists. rewrite !HBh, !Hlh. norm_lists. reflexivity.
  Qed.

  (* Cassandra's loop ignores the endpoints of datacenters without a factor *)
  Lemma visit_bad endpoints s h :
    goodh h = false -> visit dc_of rack_of dcs endpoints s h = s.
  Proof.
    intros Hb. unfold goodh in Hb. apply negb_false_iff, Z.eqb_eq in Hb.
    unfold visit. rewrite lookup_aget. destruct (aget dcs (dc_of h)) as [rf|] eqn:E; [|reflexivity].
    assert (rf = 0) by (unfold getz in Hb; rewrite E in Hb; exact Hb). subst rf.
    assert (Hs : sufficient dc_of endpoints 0 (dc_of h) (s_replicas s) = true) by (unfold sufficient; lia).
    rewrite Hs. reflexivity.
  Qed.

  Lemma nts_endpoints_good endpoints walk :
    nts_endpoints dc_of rack_of dcs endpoints walk
    = s_replicas (fold_left (visit dc_of rack_of dcs endpoints) (filter goodh walk) nts_start).
  Proof.
    unfold nts_endpoints. rewrite nts_walk_fold. f_equal.
    apply fold_left_filter_id. intros s x Hx. apply visit_bad. exact Hx.
  Qed.

  Lemma replicas_for_nth (m : @rmap T) t : replicas_for ltb m t = nth_error m (lookup_index ltb m t).
  Proof. unfold replicas_for. destruct m; [|reflexivity]. destruct (lookup_index ltb [] t); reflexivity. Qed.

  Definition reps_or_nil (o : option (T * list Z)) : list Z := match o with Some e => snd e | None => [] end.

  (* end to end: what the driver finds for token t is where Cassandra places t *)
  Lemma nts_lookup_eq_spec (r : @ring T) m t :
    sorted_toks ltb r -> (forall h, In h hosts <-> In h (map snd r)) ->
    nts_replica_map info dcs hosts r = Ok m ->
    reps_or_nil (replicas_for ltb m t) = nts_natural_endpoints ltb dc_of rack_of dcs r t.
  Proof.
    intros Hs Hh Hm.
    assert (Hr : forall e, In e r -> In (snd e) hosts) by (intros e He; apply Hh, in_map; exact He).
    rewrite (nts_replica_map_eq info dcs hosts dcs_nonneg dcs_keys r Hr) in Hm.
    inversion Hm; subst m. clear Hm.
    rewrite replicas_for_nth, nts_entries_jx.
    set (J := jx r). set (F := Fj (map snd r)).
    assert (HsJ : sorted_toks ltb J) by (apply (sorted_toks_map_fst ltb r J); [symmetry; apply jx_fst|exact Hs]).
    assert (Hsm : sorted_toks ltb (map F (filter gdj J))).
    { apply (sorted_toks_map_fst ltb (filter gdj J)); [rewrite map_map; reflexivity|].
      apply sorted_toks_filter. exact HsJ. }
    rewrite (lookup_entry ltb O _ t Hsm).
    rewrite !(filter_map_comm F). cbn [F Fj fst].
    rewrite <- map_app, hd_error_map, !(filter_comm _ gdj), <- filter_app.
    set (Aj := filter (fun e => ltb (fst e) t) J). set (Bj := filter (fun e => negb (ltb (fst e) t)) J).
    assert (HJ : J = Aj ++ Bj) by (apply (sorted_split ltb O J t HsJ)).
    (* Cassandra's walk, in terms of J *)
    assert (HW : ring_walk ltb r t = map hj (Bj ++ Aj)).
    { unfold ring_walk. rewrite <- (jx_un r) at 1 2. fold J. rewrite !(filter_map_comm un), <- map_app, map_map. reflexivity. }
    unfold nts_natural_endpoints. rewrite HW.
    pose proof (filter_hd gdj (Bj ++ Aj)) as Hhd.
    destruct (hd_error (filter gdj (Bj ++ Aj))) as [e|]; simpl.
    - destruct Hhd as [X [Y [HL [HX Hge]]]].
      destruct (first_good_walk r Aj Bj X e Y HJ HL HX) as [Hn Hf].
      unfold hj in Hn. unfold F, Fj, reps_of. cbn [snd].
      rewrite (nts_token_eq_spec info dcs hosts (map snd r) dcs_nonneg dcs_keys Hh (map snd r) _ _ Hn); auto.
      + rewrite !nts_endpoints_good, Hf. reflexivity.
      + unfold gdj, goodh in Hge. apply negb_true_iff, Z.eqb_neq in Hge. exact Hge.
      + tauto.
    - rewrite nts_endpoints_good, gdj_filter_hosts, Hhd. reflexivity.
  Qed.

  Lemma get_host_for_token_nth (r : @ring T) t h tok :
    get_host_for_token ltb r t = Some (h, tok) -> nth_error r (lookup_index ltb r t) = Some (tok, h).
  Proof.
    unfold get_host_for_token. destruct r as [|e0 r0]; [discriminate|].
    destruct (nth_error (e0 :: r0) (lookup_index ltb (e0 :: r0) t)) as [[tk hh]|]; [|discriminate].
    intros [= -> ->]. reflexivity.
  Qed.

  (* when the owner of the looked-up token lies in a DC with replicas, the owner is the first replica
     (no assumption on tokens per host) *)
  Lemma nts_lookup_owner_first (r : @ring T) m t h tok :
    sorted_toks ltb r -> (forall e, In e r -> In (snd e) hosts) ->
    nts_replica_map info dcs hosts r = Ok m ->
    get_host_for_token ltb r t = Some (h, tok) -> getz dcs (dc_of h) <> 0 ->
    exists rest, replicas_for ltb m t = Some (tok, h :: rest).
  Proof.
    intros Hs Hr Hm Hg Hrf. apply get_host_for_token_nth in Hg.
    rewrite (nts_replica_map_eq info dcs hosts dcs_nonneg dcs_keys r Hr) in Hm.
    inversion Hm; subst m. clear Hm.
    rewrite replicas_for_nth, nts_entries_jx.
    set (J := jx r). set (F := Fj (map snd r)).
    assert (HsJ : sorted_toks ltb J) by (apply (sorted_toks_map_fst ltb r J); [symmetry; apply jx_fst|exact Hs]).
    assert (Hsm : sorted_toks ltb (map F (filter gdj J))).
    { apply (sorted_toks_map_fst ltb (filter gdj J)); [rewrite map_map; reflexivity|].
      apply sorted_toks_filter. exact HsJ. }
    rewrite (lookup_entry ltb O _ t Hsm).
    rewrite !(filter_map_comm F). cbn [F Fj fst].
    rewrite <- map_app, hd_error_map, !(filter_comm _ gdj), <- filter_app.
    set (Aj := filter (fun e => ltb (fst e) t) J). set (Bj := filter (fun e => negb (ltb (fst e) t)) J).
    (* the owner is the head of Bj ++ Aj *)
    rewrite (lookup_entry ltb O r t Hs) in Hg.
    rewrite <- (jx_un r) in Hg at 1 2. fold J in Hg. rewrite !(filter_map_comm un), <- map_app, hd_error_map in Hg.
    change (option_map un (hd_error (Bj ++ Aj)) = Some (tok, h)) in Hg.
    destruct (Bj ++ Aj) as [|e L] eqn:EL; simpl in Hg; [discriminate|].
    destruct e as [tk [i hh]]. simpl in Hg. inversion Hg; subst tk hh.
    assert (Hge : gdj (tok, (i, h)) = true).
    { unfold gdj, goodh, hj. simpl. apply negb_true_iff, Z.eqb_neq. exact Hrf. }
    cbn [filter]. destruct (gdj (tok, (i, h))); [clear Hge|discriminate Hge]. cbn [hd_error option_map].
    assert (HJ : J = Aj ++ Bj) by (apply (sorted_split ltb O J t HsJ)).
    destruct (first_good_walk r Aj Bj [] (tok, (i, h)) L HJ EL eq_refl) as [Hn _]. unfold hj in Hn. simpl in Hn.
    assert (Hin : In h hosts).
    { pose proof Hn as Hn'. apply nth_error_In in Hn'. apply in_map_iff in Hn'. destruct Hn' as [x [Hx1 Hx2]].
      rewrite <- Hx1. apply Hr. exact Hx2. }
    destruct (nts_token_ok info dcs hosts dcs_nonneg dcs_keys (map snd r) i h Hn Hin Hrf) as [st [suf [_ [_ [_ [Htok _]]]]]].
    exists suf. unfold F, Fj, reps_of. simpl. rewrite Htok. reflexivity.
  Qed.

  (* every entry is free of repetitions, consists of ring hosts and holds at most min(rf, nodes of the DC)
     hosts per DC (any number of tokens per host) *)
  Lemma nts_entries_props (r : @ring T) m e :
    (forall x, In x r -> In (snd x) hosts) ->
    nts_replica_map info dcs hosts r = Ok m -> In e m ->
    NoDup (snd e) /\ incl (snd e) (map snd r)
    /\ (forall dc, Z.of_nat (count_dc info dc (snd e))
                   <= Z.min (getz dcs dc) (Z.of_nat (length (dc_endpoints dc_of (map snd r) dc))))
    /\ (length (snd e) <= length (nodup Z.eq_dec (map snd r)))%nat.
  Proof.
    intros Hr Hm He.
    rewrite (nts_replica_map_eq info dcs hosts dcs_nonneg dcs_keys r Hr) in Hm.
    inversion Hm; subst m. clear Hm.
    destruct (nts_entries_general info dcs hosts dcs_nonneg dcs_keys r e Hr He) as [K1 [K2 [K3 _]]].
    split; [exact K1|]. split; [exact K2|]. split.
    - intros dc. pose proof (count_le_endpoints info (map snd r) dc (snd e) K1 K2) as Hc. specialize (K3 dc). lia.
    - apply NoDup_incl_length; [exact K1|]. intros x Hx. apply nodup_In. apply K2. exact Hx.
  Qed.
End NtsLookup.

(* ---- getStrategy hands the placement code what the theorems assume ------------------------------- *)
Lemma get_rf_nonneg v n : get_rf v = Some n -> 0 <= n.
Proof.
  unfold get_rf. destruct v as [[z|s|]|]; try discriminate.
  - destruct (z <? 0) eqn:E; [discriminate|]. intros [= <-]. lia.
  - destruct (atoi s) as [k|]; [|discriminate]. destruct (k <? 0) eqn:E; [discriminate|]. intros [= <-]. lia.
Qed.

Lemma nts_dcs_keys opts k : In k (map fst (nts_dcs opts)) -> In k (map fst opts).
Proof.
  induction opts as [|[dc v] opts IH]; cbn [nts_dcs map fst]; [tauto|].
  destruct (zlist_eqb dc k_class); [intros H; right; apply IH; exact H|].
  destruct (get_rf (Some v)) as [n|]; cbn [map fst].
  - intros [H|H]; [left; exact H|right; apply IH; exact H].
  - intros H; right; apply IH; exact H.
Qed.

Lemma nts_dcs_wf opts : NoDup (map fst opts) -> NoDup (map fst (nts_dcs opts)) /\ Forall (fun e => 0 <= snd e) (nts_dcs opts).
Proof.
  induction opts as [|[dc v] opts IH]; cbn [nts_dcs map fst]; intros Hnd; [split; constructor|].
  inversion Hnd as [|? ? Hdc Hnd']; subst. destruct (IH Hnd') as [H1 H2].
  destruct (zlist_eqb dc k_class); [split; assumption|].
  destruct (get_rf (Some v)) as [n|] eqn:E; [|split; assumption].
  split; cbn [map fst].
  - constructor; [|exact H1]. intros Hin. apply Hdc. apply nts_dcs_keys. exact Hin.
  - constructor; [cbn [snd]; eapply get_rf_nonneg; exact E|exact H2].
Qed.

Lemma get_strategy_wf class opts s :
  NoDup (map fst opts) -> get_strategy class opts = Some s ->
  match s with
  | SSimple rf => 0 <= rf
  | SNts dcs => NoDup (map fst dcs) /\ Forall (fun e => 0 <= snd e) dcs
  end.
Proof.
  intros Hnd. unfold get_strategy.
  destruct (contains class k_simple).
  - destruct (get_rf (aget opts k_replication_factor)) as [rf|] eqn:E; [|discriminate].
    intros [= <-]. eapply get_rf_nonneg. exact E.
  - destruct (contains class k_nts).
    + intros [= <-]. apply nts_dcs_wf. exact Hnd.
    + destruct (contains class k_local); discriminate.
Qed.
