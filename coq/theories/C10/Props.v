(* C10/Props.v -- the proof obligations for property C10 (replica sets equal Cassandra's placement; never a
   duplicate, never a panic), and nothing else.  Each is closed by a lemma of Proofs*.v and followed by
   Print Assumptions.

   Vocabulary.  A ring [r : list (T * Z)] is tokenRing.tokens: (token, host) in token order; hosts are
   pointers, modelled as integers; [info h] gives DataCenter(), Rack() and the connect address of host h;
   [hosts] is tokenRing.hosts; [dcs] is networkTopology.dcs.  [ltb] is the partitioner's token.Less.
   Spec side: [ring_walk], [simple_natural_endpoints], [nts_natural_endpoints] are Cassandra's
   ringIterator, SimpleStrategy and NetworkTopologyStrategy.calculateNaturalEndpoints (C10/Spec.v).

   Hypotheses that recur:
     strict_total ltb                       the token order is a strict total order (true of all three
                                            partitioners: C10_token_orders)
     sorted_toks ltb r                      the ring is in token order (newTokenRing sorts: C10_new_token_ring)
     Forall (0 <= snd) dcs, NoDup keys      what getStrategy produces (C10_get_strategy_wf)
     forall h, In h hosts <-> In h (map snd r)   every host owns a token and every token's host is listed
   No theorem assumes one token per host or the absence of a panic any more: the two defects that made those
   hypotheses necessary (known findings nts-duplicate-replica and nts-unknown-dc-panic) are repaired in
   topology.go; C10/Refuted.v keeps the old behaviour as regression facts about the pre-fix model. *)
From GocqlV Require Import Lib.Base C10.Model C10.Spec C10.Proofs1 C10.Proofs2 C10.Proofs3 C10.Proofs4 C10.Proofs5 C10.Proofs6 C10.Proofs7.
From Coq Require Import Sorting.Permutation Sorting.Sorted.
Open Scope Z_scope.

(* ---- tokens, the ring, the binary search -------------------------------------------------------- *)

(* murmur3Token / randomToken (integers) and orderedToken (byte strings) are strictly totally ordered by Less. *)
Theorem C10_token_orders : strict_total Z.ltb /\ strict_total str_ltb.
Proof. split; [exact Z_ltb_strict_total|exact str_ltb_strict_total]. Qed.
Print Assumptions C10_token_orders.

(* newTokenRing: the model's sort returns the (token, host) pairs of the hosts, in token order. *)
Theorem C10_new_token_ring : forall (T : Type) (ltb : T -> T -> bool) (hs : list (Z * list T)),
  strict_total ltb ->
  sorted_toks ltb (new_token_ring ltb hs) /\ Permutation (new_token_ring ltb hs) (flatten_hosts hs).
Proof. intros T ltb hs O. exact (new_token_ring_sorted_perm ltb O hs). Qed.
Print Assumptions C10_new_token_ring.

(* When no token is owned by two hosts (Cassandra never lets two nodes own one token) the ring has exactly one
   sorted arrangement: whatever order Go's unstable sort.Sort leaves equal elements in, newTokenRing's result is
   the model's.  With a token on two hosts the arrangement of the tie is the sort's choice; every theorem below
   holds for ANY sorted arrangement (they assume [sorted_toks], which allows equal neighbours), and the
   correspondence check places on the arrangement the code produced. *)
Theorem C10_sorted_ring_unique : forall (T : Type) (ltb : T -> T -> bool) (l1 l2 : list (T * Z)),
  strict_total ltb -> sorted_toks ltb l1 -> sorted_toks ltb l2 -> Permutation l1 l2 -> NoDup (map fst l1) -> l1 = l2.
Proof. intros T ltb l1 l2 O. exact (sorted_perm_unique ltb O l1 l2). Qed.
Print Assumptions C10_sorted_ring_unique.

(* ParseString of the Murmur3 partitioner reads every decimal numeral Cassandra can print for a token - any number
   of digits, leading zeros, optional sign - as the long it denotes; a numeral that does not fit a long reads as
   the nearest long. *)
Theorem C10_parse_murmur_decimal : forall ds, ds <> [] -> Forall is_dec_digit ds ->
  parse_murmur_token ds = clamp64 (dec_value ds)
  /\ parse_murmur_token (43 :: ds) = clamp64 (dec_value ds)
  /\ parse_murmur_token (45 :: ds) = clamp64 (- dec_value ds).
Proof. exact parse_murmur_decimal. Qed.
Print Assumptions C10_parse_murmur_decimal.

(* ParseString of the Random partitioner reads exactly the decimal numerals, as the integer they denote. *)
Theorem C10_parse_random_decimal : forall s,
  (forall ds, ds <> [] -> Forall is_dec_digit ds ->
     parse_random_token ds = Some (dec_value ds) /\ parse_random_token (43 :: ds) = Some (dec_value ds)
     /\ parse_random_token (45 :: ds) = Some (- dec_value ds))
  /\ (forall v, parse_random_token s = Some v ->
       exists ds, ds <> [] /\ Forall is_dec_digit ds /\ (s = ds \/ s = 43 :: ds \/ s = 45 :: ds)).
Proof. intros s. split; [exact parse_random_decimal|intros v; exact (parse_random_only_decimal s v)]. Qed.
Print Assumptions C10_parse_random_decimal.

(* Ordered-partitioner tokens are the raw bytes, and their Less is the unsigned lexicographic order. *)
Theorem C10_ordered_less_lexicographic : forall a b, str_ltb a b = true <-> bytes_lt a b.
Proof. exact str_ltb_bytes_lt. Qed.
Print Assumptions C10_ordered_less_lexicographic.

(* sort.Search with the predicate of GetHostForToken / replicasFor returns the number of entries whose token is
   below t, and those entries are exactly the prefix of the list: the entry found is the first with token >= t. *)
Theorem C10_search_first_geq : forall (T B : Type) (ltb : T -> T -> bool) (m : list (T * B)) (t : T),
  strict_total ltb -> sorted_toks ltb m ->
  sort_search (length m) (geq_at ltb m t) = length (filter (fun e => ltb (fst e) t) m)
  /\ m = filter (fun e => ltb (fst e) t) m ++ filter (fun e => negb (ltb (fst e) t)) m.
Proof. intros T B ltb m t O Hs. split; [exact (search_first_geq ltb O m t Hs)|exact (sorted_split ltb O m t Hs)]. Qed.
Print Assumptions C10_search_first_geq.

(* ... and with the wrap-around to index 0 both lookups return the head of "entries >= t, then entries < t". *)
Theorem C10_lookup_wraps : forall (T B : Type) (ltb : T -> T -> bool) (m : list (T * B)) (t : T),
  strict_total ltb -> sorted_toks ltb m ->
  nth_error m (lookup_index ltb m t)
  = hd_error (filter (fun e => negb (ltb (fst e) t)) m ++ filter (fun e => ltb (fst e) t) m).
Proof. intros T B ltb m t O Hs. exact (lookup_entry ltb O m t Hs). Qed.
Print Assumptions C10_lookup_wraps.

(* GetHostForToken returns the owner of the range (previous token, t]: the first endpoint of Cassandra's ring walk. *)
Theorem C10_owner_is_walk_head : forall (T : Type) (ltb : T -> T -> bool) (r : list (T * Z)) (t : T),
  strict_total ltb -> sorted_toks ltb r ->
  option_map fst (get_host_for_token ltb r t) = hd_error (ring_walk ltb r t).
Proof. intros T ltb r t O Hs. exact (get_host_for_token_walk ltb O r t Hs). Qed.
Print Assumptions C10_owner_is_walk_head.

(* ---- strategy selection ------------------------------------------------------------------------- *)

(* getStrategy never hands out a negative factor, and the NetworkTopologyStrategy map has one entry per DC. *)
Theorem C10_get_strategy_wf : forall class opts s,
  NoDup (map fst opts) -> get_strategy class opts = Some s ->
  match s with
  | SSimple rf => 0 <= rf
  | SNts dcs => NoDup (map fst dcs) /\ Forall (fun e => 0 <= snd e) dcs
  end.
Proof. exact get_strategy_wf. Qed.
Print Assumptions C10_get_strategy_wf.

(* ---- SimpleStrategy ----------------------------------------------------------------------------- *)

(* For every ring (any number of tokens per host), factor and lookup token: the replicas the driver finds are
   the nodes Cassandra's SimpleStrategy places the token on, in the same order. *)
Theorem C10_simple_eq_cassandra : forall (T : Type) (ltb : T -> T -> bool) (rf : Z) (r : list (T * Z)) (t : T),
  strict_total ltb -> sorted_toks ltb r -> r <> [] ->
  exists tok, replicas_for ltb (simple_replica_map rf r) t = Some (tok, simple_natural_endpoints ltb rf r t).
Proof. intros T ltb rf r t O Hs Hne. exact (simple_lookup_eq_spec ltb O rf r t Hs Hne). Qed.
Print Assumptions C10_simple_eq_cassandra.

(* Every entry of the SimpleStrategy replica map: no node twice, only ring nodes, exactly min(rf, distinct nodes)
   of them, and (rf > 0) the owner of the entry's token first.  No hypothesis on the ring at all. *)
Theorem C10_simple_entries : forall (T : Type) (rf : Z) (r : list (T * Z)) (i : nat) (tok : T) (reps : list Z),
  nth_error (simple_replica_map rf r) i = Some (tok, reps) ->
  NoDup reps /\ incl reps (map snd r)
  /\ length reps = Nat.min (Z.to_nat rf) (length (nodup Z.eq_dec (map snd r)))
  /\ (0 < rf -> exists h, nth_error r i = Some (tok, h) /\ hd_error reps = Some h).
Proof. intros T rf r i tok reps. exact (simple_entry_props rf r i tok reps). Qed.
Print Assumptions C10_simple_entries.

(* ---- NetworkTopologyStrategy --------------------------------------------------------------------- *)

(* For every ring (any number of tokens per host), every keyspace (datacenters inside or outside the ring, any
   factors): replicaMap raises none of its four panics. *)
Theorem C10_nts_never_panics : forall (T : Type) (info : Z -> hinfo) (dcs : amap Z) (hosts : list Z) (r : list (T * Z)),
  Forall (fun e => 0 <= snd e) dcs -> NoDup (map fst dcs) ->
  (forall e, In e r -> In (snd e) hosts) ->
  exists m, nts_replica_map info dcs hosts r = Ok m.
Proof.
  intros T info dcs hosts r H1 H2 H3. exists (nts_entries info dcs hosts r).
  exact (nts_replica_map_eq info dcs hosts H1 H2 r H3).
Qed.
Print Assumptions C10_nts_never_panics.

(* For every ring (any number of tokens per host) and EVERY lookup token t (equal to, between, below, above the
   ring tokens; also tokens owned by a DC without replicas, whose own entry is missing from the map): the replicas
   the driver finds are the nodes Cassandra's NetworkTopologyStrategy places t on, in the same order (an empty
   map corresponds to Cassandra placing the token nowhere). *)
Theorem C10_nts_eq_cassandra : forall (T : Type) (ltb : T -> T -> bool) (info : Z -> hinfo) (dcs : amap Z)
                                      (hosts : list Z) (r : list (T * Z)) (m : list (T * list Z)) (t : T),
  strict_total ltb -> Forall (fun e => 0 <= snd e) dcs -> NoDup (map fst dcs) ->
  sorted_toks ltb r -> (forall h, In h hosts <-> In h (map snd r)) ->
  nts_replica_map info dcs hosts r = Ok m ->
  reps_or_nil (replicas_for ltb m t) = nts_natural_endpoints ltb (dc_of info) (rack_of info) dcs r t.
Proof. intros T ltb info dcs hosts r m t O H1 H2 Hs Hh Hm. exact (nts_lookup_eq_spec ltb O info dcs hosts H1 H2 r m t Hs Hh Hm). Qed.
Print Assumptions C10_nts_eq_cassandra.

(* For every ring (any number of tokens per host): every entry of the map has no node twice, only ring nodes,
   per DC at most min(factor, nodes of the DC), hence at most the distinct nodes of the ring. *)
Theorem C10_nts_entries : forall (T : Type) (info : Z -> hinfo) (dcs : amap Z) (hosts : list Z)
                                 (r : list (T * Z)) (m : list (T * list Z)) (e : T * list Z),
  Forall (fun e => 0 <= snd e) dcs -> NoDup (map fst dcs) ->
  (forall x, In x r -> In (snd x) hosts) ->
  nts_replica_map info dcs hosts r = Ok m -> In e m ->
  NoDup (snd e) /\ incl (snd e) (map snd r)
  /\ (forall dc, Z.of_nat (count_dc info dc (snd e))
                 <= Z.min (getz dcs dc) (Z.of_nat (length (dc_endpoints (dc_of info) (map snd r) dc))))
  /\ (length (snd e) <= length (nodup Z.eq_dec (map snd r)))%nat.
Proof. intros T info dcs hosts r m e H1 H2 Hr Hm He. exact (nts_entries_props info dcs hosts H1 H2 r m e Hr Hm He). Qed.
Print Assumptions C10_nts_entries.

(* For every ring (any number of tokens per host): whenever the owner of the looked-up token lies in a DC that
   holds replicas, the owner is the first replica the driver finds. *)
Theorem C10_nts_owner_first : forall (T : Type) (ltb : T -> T -> bool) (info : Z -> hinfo) (dcs : amap Z)
                                     (hosts : list Z) (r : list (T * Z)) (m : list (T * list Z)) (t : T) (h : Z) (tok : T),
  strict_total ltb -> Forall (fun e => 0 <= snd e) dcs -> NoDup (map fst dcs) ->
  sorted_toks ltb r -> (forall e, In e r -> In (snd e) hosts) ->
  nts_replica_map info dcs hosts r = Ok m ->
  get_host_for_token ltb r t = Some (h, tok) -> getz dcs (dc_of info h) <> 0 ->
  exists rest, replicas_for ltb m t = Some (tok, h :: rest).
Proof.
  intros T ltb info dcs hosts r m t h tok O H1 H2 Hs Hr Hm Hg Hrf.
  exact (nts_lookup_owner_first ltb O info dcs hosts H1 H2 r m t h tok Hs Hr Hm Hg Hrf).
Qed.
Print Assumptions C10_nts_owner_first.

(* ---- non-vacuity: the hypotheses are satisfiable by a non-trivial layout (tests, not theorems) ---------- *)
Module NonVacuous.
  Definition dcA : str := [100; 99; 49].   (* "dc1" *)
  Definition dcB : str := [100; 99; 50].   (* "dc2" *)
  Definition rk (z : Z) : str := [114; 48 + z].
  (* seven hosts, one token each; dc1: hosts 0,2,4,6 on racks r1,r1,r2,r1 (uneven); dc2: hosts 1,3,5 on r1,r2,r3 *)
  Definition info7 (h : Z) : hinfo :=
    mkInfo (if Z.even h then dcA else dcB)
           (if h =? 4 then rk 2 else if h =? 3 then rk 2 else if h =? 5 then rk 3 else rk 1) (167772161 + h).
  Definition ring7 : @ring Z := [(-50, 0); (-20, 1); (0, 2); (7, 3); (30, 4); (31, 5); (90, 6)].
  Definition hosts7 : list Z := [0; 1; 2; 3; 4; 5; 6].
  Definition dcs7 : amap Z := [(dcA, 3); (dcB, 2)].
  Definition map7 : @rmap Z :=
    [(-50, [0; 1; 3; 4; 2]); (-20, [1; 2; 3; 4; 6]); (0, [2; 3; 4; 5; 6]); (7, [3; 4; 5; 6; 0]);
     (30, [4; 5; 6; 0; 1]); (31, [5; 6; 1; 4; 0]); (90, [6; 1; 3; 4; 0])].

  Example hypotheses_hold :
    Forall (fun e => 0 <= snd e) dcs7 /\ NoDup (map fst dcs7) /\ NoDup (map snd ring7)
    /\ (forall h, In h hosts7 <-> In h (map snd ring7))
    /\ nts_replica_map info7 dcs7 hosts7 ring7 = Ok map7
    /\ reps_or_nil (replicas_for Z.ltb map7 8) = [4; 5; 6; 0; 1]
    /\ nts_natural_endpoints Z.ltb (dc_of info7) (rack_of info7) dcs7 ring7 8 = [4; 5; 6; 0; 1]
    /\ get_host_for_token Z.ltb ring7 91 = Some (0, -50)
    /\ get_strategy (k_nts) [(k_class, OVStr k_nts); (dcA, OVStr [51]); (dcB, OVInt 2)] = Some (SNts dcs7).
  Proof.
    split; [repeat constructor; simpl; lia|].
    split; [repeat constructor; simpl; intuition discriminate|].
    split; [repeat constructor; simpl; intuition discriminate|].
    split; [intros h; simpl; intuition|].
    split; [vm_compute; reflexivity|]. repeat split; vm_compute; reflexivity.
  Qed.

  (* a keyspace naming a DC outside the ring ("dc9") does not always panic: here three keyspace DCs have a factor
     and the ring has two DCs, so the condition of C10_nts_panic_iff does not hold *)
  Example unknown_dc_without_panic :
    exists m, nts_replica_map info7 [(dcA, 1); (dcB, 1); ([100; 99; 57], 2)] hosts7 ring7 = Ok m.
  Proof. eexists. vm_compute. reflexivity. Qed.

  (* the keyspace of Spec.SpecExamples.nts_rf_big ({dc1: 7, dc9: 2} on a ring of dc1 + dc2) used to panic; and
     several tokens per host: three hosts x two tokens, two racks, dc1: 2 *)
  Example vnodes_and_unknown_dc :
    nts_replica_map info7 [(dcA, 7); ([100; 99; 57], 2)] hosts7 ring7
    = Ok [(-50, [0; 4; 2; 6]); (0, [2; 4; 6; 0]); (30, [4; 6; 0; 2]); (90, [6; 4; 0; 2])]
    /\ nts_replica_map (fun h => mkInfo dcA (rk (h mod 2)) h) [(dcA, 2)] [0; 1; 2]
                        [(0, 0); (10, 0); (20, 1); (30, 2); (40, 1); (50, 2)]
       = Ok [(0, [0; 1]); (10, [0; 1]); (20, [1; 2]); (30, [2; 1]); (40, [1; 2]); (50, [2; 1])].
  Proof. split; vm_compute; reflexivity. Qed.

  Example parse_examples :
    parse_murmur_token [45; 57; 50; 50; 51; 51; 55; 50; 48; 51; 54; 56; 53; 52; 55; 55; 53; 56; 48; 56] = - 2 ^ 63
    /\ parse_murmur_token [57; 57; 57; 57; 57; 57; 57; 57; 57; 57; 57; 57; 57; 57; 57; 57; 57; 57; 57; 57; 57; 57] = 2 ^ 63 - 1
    /\ parse_murmur_token [48; 48; 55] = 7
    /\ parse_random_token [49; 55; 48; 49; 52; 49; 49; 56; 51; 52; 54; 48; 52; 54; 57; 50; 51; 49; 55; 51; 49; 54; 56; 55; 51; 48; 51; 55; 49; 53; 56; 56; 52; 49; 48; 53; 55; 50; 56] = Some (2 ^ 127).
  Proof. repeat split; vm_compute; reflexivity. Qed.

  (* SimpleStrategy with two tokens per host *)
  Example simple_vnodes :
    simple_replica_map 2 [(0, 0); (10, 0); (20, 1); (30, 2)] = [(0, [0; 1]); (10, [0; 1]); (20, [1; 2]); (30, [2; 0])].
  Proof. vm_compute. reflexivity. Qed.
End NonVacuous.
