(* C10/Model.v -- executable model of replica placement in gocql:
     token.go      partitioner.ParseString (murmur3 / ordered / random), newTokenRing (flatten + sort),
                   tokenRing.GetHostForToken (sort.Search, wrap to index 0)
     topology.go   tokenRingReplicas.replicasFor, getReplicationFactorFromOpts, getStrategy,
                   simpleStrategy.replicaMap, networkTopology.haveRF / replicaMap (with its four panics)
   Definitions only; proofs live in Proofs*.v.

   Hosts are pointers in the Go code (map[*HostInfo]bool, h == host): here a host is a [Z] (its
   identity) and [info : Z -> hinfo] plays the methods DataCenter(), Rack(), ConnectAddress().
   Tokens are an arbitrary type [T] with the partitioner's [Less] as [ltb]: the placement code only
   copies and compares them.  Go maps keyed by strings are association lists ([amap]); they are only
   read by key, summed, counted or measured with len(), never ranged over in an order-dependent way. *)
From Coq Require Import String Ascii.
From GocqlV Require Import Lib.Base.   (* no package-level constant of gocql is involved in placement: Gen.Consts is not needed *)
Open Scope Z_scope.

Notation str := (list Z) (only parsing).

(* "literal"%string as Go bytes *)
Fixpoint str_of (s : string) : str :=
  match s with
  | EmptyString => []
  | String a r => Z.of_N (N_of_ascii a) :: str_of r
  end.

(* ---- Go maps with string keys -------------------------------------------------------------- *)
Definition amap (V : Type) := list (str * V).

Fixpoint aget {V} (m : amap V) (k : str) : option V :=
  match m with
  | [] => None
  | (k', v) :: m' => if zlist_eqb k' k then Some v else aget m' k
  end.

(* m[k] = v *)
Fixpoint aset {V} (m : amap V) (k : str) (v : V) : amap V :=
  match m with
  | [] => [(k, v)]
  | (k', v') :: m' => if zlist_eqb k' k then (k', v) :: m' else (k', v') :: aset m' k v
  end.

(* reading a missing key gives the zero value *)
Definition getz (m : amap Z) (k : str) : Z := match aget m k with Some v => v | None => 0 end.
Definition getl {A} (m : amap (list A)) (k : str) : list A := match aget m k with Some v => v | None => [] end.

Definition smem (x : str) (l : list str) : bool := existsb (zlist_eqb x) l.
Definition zmem (x : Z) (l : list Z) : bool := existsb (Z.eqb x) l.

(* ---- strconv.ParseInt(s, 10, 64) / strconv.Atoi -------------------------------------------- *)
Definition max_u64 : Z := 2 ^ 64 - 1.
Definition cutoff_u64 : Z := max_u64 / 10 + 1.              (* strconv: cutoff = maxUint64/base + 1 *)

Inductive perr := PEok | PEsyntax | PErange.

Definition is_digit (c : Z) : bool := (48 <=? c) && (c <=? 57).

(* the loop of strconv.ParseUint for base 10: the first bad byte is a syntax error, but an overflow
   seen before it returns maxVal + range error at once *)
Fixpoint parse_uint_loop (s : str) (n : Z) : Z * perr :=
  match s with
  | [] => (n, PEok)
  | c :: r =>
      if is_digit c then
        if n >=? cutoff_u64 then (max_u64, PErange)
        else let n1 := n * 10 + (c - 48) in
             if n1 >? max_u64 then (max_u64, PErange) else parse_uint_loop r n1
      else (0, PEsyntax)
  end.

Definition parse_uint (s : str) : Z * perr :=
  match s with [] => (0, PEsyntax) | _ => parse_uint_loop s 0 end.

(* strconv.ParseInt(s, 10, 64): value and error class; the value is what the call returns next to the error *)
Definition parse_int (s : str) : Z * perr :=
  match s with
  | [] => (0, PEsyntax)
  | c :: r =>
      let neg := c =? 45 in
      let body := if (c =? 43) || (c =? 45) then r else s in
      match parse_uint body with
      | (_, PEsyntax) => (0, PEsyntax)
      | (un, e) =>
          let cut := 2 ^ 63 in
          if negb neg && (un >=? cut) then (cut - 1, PErange)
          else if neg && (un >? cut) then (- cut, PErange)
          else match e with
               | PEok => ((if neg then - un else un), PEok)
               | _ => ((if neg then - un else un), e)       (* not reachable: a range error has un = max_u64 *)
               end
      end
  end.

Definition atoi (s : str) : option Z :=
  match parse_int s with (v, PEok) => Some v | _ => None end.

(* ---- partitioner.ParseString --------------------------------------------------------------- *)
(* murmur3Partitioner: val, _ := strconv.ParseInt(str, 10, 64) -- the error is dropped *)
Definition parse_murmur_token (s : str) : Z := fst (parse_int s).

(* randomPartitioner: big.Int.SetString(str, 10): optional sign, at least one digit, nothing else.
   None = SetString failed (the token value is then undefined in Go; never generated). *)
Fixpoint digits_val (s : str) (acc : Z) : option Z :=
  match s with
  | [] => Some acc
  | c :: r => if is_digit c then digits_val r (acc * 10 + (c - 48)) else None
  end.
Definition parse_random_token (s : str) : option Z :=
  match s with
  | [] => None
  | c :: r =>
      if c =? 45 then match r with [] => None | _ => option_map Z.opp (digits_val r 0) end
      else if c =? 43 then match r with [] => None | _ => digits_val r 0 end
      else digits_val s 0
  end.

(* orderedPartitioner: the token is the string; Less is Go's string < (bytewise lexicographic) *)
Fixpoint str_ltb (a b : str) : bool :=
  match a, b with
  | [], [] => false
  | [], _ :: _ => true
  | _ :: _, [] => false
  | x :: a', y :: b' => if x <? y then true else if y <? x then false else str_ltb a' b'
  end.

(* ---- getReplicationFactorFromOpts / getStrategy --------------------------------------------- *)
Inductive optval := OVInt (z : Z) | OVStr (s : str) | OVOther.     (* interface{}: int, string, anything else (incl. nil) *)

Inductive strategy := SSimple (rf : Z) | SNts (dcs : amap Z).

(* None = the error return.  A missing map key reads as a nil interface: the default branch. *)
Definition get_rf (v : option optval) : option Z :=
  match v with
  | Some (OVInt z) => if z <? 0 then None else Some z
  | Some (OVStr s) => match atoi s with
                      | None => None
                      | Some n => if n <? 0 then None else Some n
                      end
  | _ => None
  end.

Fixpoint is_prefix (p s : str) : bool :=
  match p, s with
  | [], _ => true
  | _ :: _, [] => false
  | x :: p', y :: s' => (x =? y) && is_prefix p' s'
  end.
(* strings.Contains *)
Fixpoint contains (s sub : str) : bool :=
  is_prefix sub s || match s with [] => false | _ :: s' => contains s' sub end.

(* the string literals of getStrategy (getStrategy) *)
Definition k_class : str := str_of "class".
Definition k_replication_factor : str := str_of "replication_factor".
Definition k_simple : str := str_of "SimpleStrategy".
Definition k_nts : str := str_of "NetworkTopologyStrategy".
Definition k_local : str := str_of "LocalStrategy".

(* the range over ks.StrategyOptions: "class" skipped, unparsable factors skipped; opts has unique keys
   (it is a Go map), so dcs[dc] = rf is an append *)
Fixpoint nts_dcs (opts : amap optval) : amap Z :=
  match opts with
  | [] => []
  | (dc, v) :: rest =>
      if zlist_eqb dc k_class then nts_dcs rest
      else match get_rf (Some v) with
           | None => nts_dcs rest
           | Some rf => (dc, rf) :: nts_dcs rest
           end
  end.

(* None = nil strategy *)
Definition get_strategy (class : str) (opts : amap optval) : option strategy :=
  if contains class k_simple then
    match get_rf (aget opts k_replication_factor) with
    | None => None
    | Some rf => Some (SSimple rf)
    end
  else if contains class k_nts then Some (SNts (nts_dcs opts))
  else if contains class k_local then None
  else None.

(* ---- sort.Search --------------------------------------------------------------------------- *)
(* i, j := 0, n; for i < j { h := int(uint(i+j) >> 1); if !f(h) { i = h + 1 } else { j = h } }; return i
   fuel: the interval shrinks in every round, so [n] rounds are enough (Proofs: bsearch_fuel_enough) *)
Fixpoint bsearch (fuel : nat) (f : nat -> bool) (i j : nat) : nat :=
  match fuel with
  | O => i
  | S fuel' =>
      if (i <? j)%nat then
        let h := ((i + j) / 2)%nat in
        if negb (f h) then bsearch fuel' f (h + 1) j else bsearch fuel' f i h
      else i
  end.
Definition sort_search (n : nat) (f : nat -> bool) : nat := bsearch n f 0 n.

(* ---- results -------------------------------------------------------------------------------- *)
Inductive crash :=
| PanicOverflow        (* "replica overflow. rf=%d have=%d in dc %q"          networkTopology.replicaMap *)
| PanicNoReplicas      (* "no replicas for token: %v"                         same function *)
| PanicNotPrimary      (* "first replica is not the primary replica ..."      same function *)
| PanicSize.           (* "token map different size to token ring: ..."       same function *)

Inductive res (A : Type) := Ok (a : A) | Crash (c : crash).
Arguments Ok {A} a.
Arguments Crash {A} c.

Record hinfo := mkInfo { hi_dc : str; hi_rack : str; hi_addr : Z }.

Definition rotate {A} (i : nat) (l : list A) : list A := skipn i l ++ firstn i l.

Fixpoint indexed_from {A} (i : nat) (l : list A) : list (nat * A) :=
  match l with [] => [] | x :: l' => (i, x) :: indexed_from (S i) l' end.
Definition indexed {A} (l : list A) := indexed_from 0 l.

Section Ring.
  Context {T : Type}.
  Variable ltb : T -> T -> bool.                  (* token.Less *)

  Definition ring := list (T * Z).                (* tokenRing.tokens: (token, host) *)
  Definition rmap := list (T * list Z).           (* tokenRingReplicas: (token, hosts) *)

  (* newTokenRing: for each host, for each of its tokens, append (token, host); then sort by token.
     Go's sort.Sort is not stable; the model sorts by insertion (stable).  For rings with pairwise
     different tokens every sort gives the same list; Corr.v accepts any sorted permutation otherwise. *)
  Definition flatten_hosts (hs : list (Z * list T)) : ring :=
    flat_map (fun '(h, toks) => map (fun t => (t, h)) toks) hs.

  Fixpoint insert_tok (e : T * Z) (l : ring) : ring :=
    match l with
    | [] => [e]
    | x :: l' => if ltb (fst e) (fst x) then e :: x :: l' else x :: insert_tok e l'
    end.
  Definition sort_ring (l : ring) : ring := fold_left (fun acc e => insert_tok e acc) l [].
  Definition new_token_ring (hs : list (Z * list T)) : ring := sort_ring (flatten_hosts hs).

  (* the predicate both lookups hand to sort.Search: !h[i].token.Less(t) *)
  Definition geq_at {B} (m : list (T * B)) (t : T) (i : nat) : bool :=
    match nth_error m i with Some e => negb (ltb (fst e) t) | None => true end.

  (* the index both lookups use: sort.Search, then p >= len -> 0 *)
  Definition lookup_index {B} (m : list (T * B)) (t : T) : nat :=
    let p := sort_search (length m) (geq_at m t) in
    if (length m <=? p)%nat then O else p.

  (* tokenRing.GetHostForToken: (host, endToken); None = (nil, nil) *)
  Definition get_host_for_token (r : ring) (t : T) : option (Z * T) :=
    match r with
    | [] => None
    | _ => match nth_error r (lookup_index r t) with Some (tok, h) => Some (h, tok) | None => None end
    end.

  (* tokenRingReplicas.replicasFor; None = nil *)
  Definition replicas_for (m : rmap) (t : T) : option (T * list Z) :=
    match m with
    | [] => None
    | _ => nth_error m (lookup_index m t)
    end.

  (* ---- simpleStrategy.replicaMap ------------------------------------------------------------ *)
  (* for j := 0; j < len(tokens) && len(replicas) < rf; j++ { h := tokens[(i+j)%len]; if !seen[h.host] {append; seen} }
     [walk] is tokens[i], tokens[i+1], ... wrapped: rotate i.  seen[h] is true exactly for the appended hosts. *)
  Fixpoint simple_loop (rf : Z) (walk : list Z) (replicas : list Z) : list Z :=
    match walk with
    | [] => replicas
    | h :: rest =>
        if Z.of_nat (length replicas) <? rf
        then simple_loop rf rest (if zmem h replicas then replicas else replicas ++ [h])
        else replicas
    end.

  Definition simple_replica_map (rf : Z) (r : ring) : rmap :=
    map (fun '(i, (tok, _)) => (tok, simple_loop rf (rotate i (map snd r)) [])) (indexed r).
  (* the closing sort.Sort(ring) finds the entries already in token order *)

  (* ---- networkTopology.replicaMap ----------------------------------------------------------- *)
  Variable info : Z -> hinfo.
  Definition dc_of (h : Z) : str := hi_dc (info h).
  Definition rack_of (h : Z) : str := hi_rack (info h).
  (* HostInfo.Equal: same pointer, or equal connect addresses *)
  Definition host_equal (a b : Z) : bool := (a =? b) || (hi_addr (info a) =? hi_addr (info b)).

  (* dcRacks: dc -> set of racks, from tokenRing.hosts (first loop of replicaMap) *)
  Definition add_host_rack (m : amap (list str)) (h : Z) : amap (list str) :=
    let racks := getl m (dc_of h) in
    aset m (dc_of h) (if smem (rack_of h) racks then racks else racks ++ [rack_of h]).
  Definition mk_dc_racks (hosts : list Z) : amap (list str) := fold_left add_host_rack hosts [].

  Variable dcs : amap Z.                          (* n.dcs *)
  Variable dc_racks : amap (list str).

  Definition total_rf : Z := fold_right (fun e acc => snd e + acc) 0 dcs.

  Record nts_state := mkNts {
    ns_skipped : amap (list Z);                   (* skipped[dc] *)
    ns_count : amap Z;                            (* replicasInDC[dc] *)
    ns_seen : amap (list str);                    (* seenDCRacks[dc] as a set *)
    ns_replicas : list Z }.

  (* haveRF *)
  Definition have_rf (counts : amap Z) : bool :=
    (length counts =? length dcs)%nat && forallb (fun e => snd e =? getz counts (fst e)) dcs.

  (* the state the three maps are reset to at the top of every token iteration (the resets at the top of the token loop):
     skipped[*] emptied; replicasInDC has a zero for every ring DC and every keyspace DC; every
     seenDCRacks set is empty (sets of DCs outside the keyspace are never written) *)
  Definition counts0 : amap Z :=
    fold_left (fun m e => aset m (fst e) 0) dcs (map (fun e => (fst e, 0)) dc_racks).
  Definition nts_state0 : nts_state := mkNts [] counts0 [] [].

  (* for ; k < len(skippedHosts) && r+k < rf; k++ : the hosts appended *)
  Fixpoint drain (sk : list Z) (r rf : Z) : list Z :=
    match sk with
    | [] => []
    | x :: sk' => if r <? rf then x :: drain sk' (r + 1) rf else []
    end.

  (* one iteration of the inner loop body (after the seenHosts test) *)
  Definition nts_step (st : nts_state) (h : Z) : res nts_state :=
    let dc := dc_of h in
    let rack := rack_of h in
    let rf := getz dcs dc in
    if rf =? 0 then Ok st
    else
      let c := getz (ns_count st) dc in
      if c >=? rf then (if c >? rf then Crash PanicOverflow else Ok st)
      else
        let all_racks := getl dc_racks dc in
        if negb (smem rack all_racks) then Ok st
        else
          let racks := getl (ns_seen st) dc in
          let ok := smem rack racks in
          if ok && (length racks =? length all_racks)%nat then
            Ok (mkNts (ns_skipped st) (aset (ns_count st) dc (c + 1)) (ns_seen st) (ns_replicas st ++ [h]))
          else if negb ok then
            let racks' := racks ++ [rack] in
            let r := c + 1 in
            if (length racks' =? length all_racks)%nat then
              let sk := getl (ns_skipped st) dc in
              let taken := drain sk r rf in
              Ok (mkNts (aset (ns_skipped st) dc (skipn (length taken) sk))
                        (aset (ns_count st) dc (r + Z.of_nat (length taken)))
                        (aset (ns_seen st) dc racks')
                        (ns_replicas st ++ [h] ++ taken))
            else
              Ok (mkNts (ns_skipped st) (aset (ns_count st) dc r) (aset (ns_seen st) dc racks') (ns_replicas st ++ [h]))
          else
            Ok (mkNts (aset (ns_skipped st) dc (getl (ns_skipped st) dc ++ [h])) (ns_count st) (ns_seen st) (ns_replicas st)).

  (* for j := 0; j < len(tokens) && (len(replicas) < totalRF && !n.haveRF(replicasInDC)); j++ *)
  Definition nts_guard (st : nts_state) : bool :=
    (Z.of_nat (length (ns_replicas st)) <? total_rf) && negb (have_rf (ns_count st)).

  (* [seen_hosts] is the seenHosts set: another token of a host already been through is passed over *)
  Fixpoint nts_loop (walk : list Z) (seen_hosts : list Z) (st : nts_state) : res nts_state :=
    match walk with
    | [] => Ok st
    | h :: rest =>
        if nts_guard st
        then if zmem h seen_hosts then nts_loop rest seen_hosts st
             else match nts_step st h with
                  | Ok st' => nts_loop rest (h :: seen_hosts) st'
                  | Crash c => Crash c
                  end
        else Ok st
    end.

  (* the replicas of ring entry i whose host is th  *)
  Definition nts_token (ring_hosts : list Z) (i : nat) (th : Z) : res (list Z) :=
    match nts_loop (rotate i ring_hosts) [] nts_state0 with
    | Crash c => Crash c
    | Ok st =>
        match ns_replicas st with
        | [] => Crash PanicNoReplicas
        | r0 :: _ => if host_equal r0 th then Ok (ns_replicas st) else Crash PanicNotPrimary
        end
    end.

  (* the outer loop : entries of DCs with factor 0 are skipped *)
  Fixpoint nts_outer (ring_hosts : list Z) (l : list (nat * (T * Z))) (acc : rmap) : res rmap :=
    match l with
    | [] => Ok acc
    | (i, (tok, th)) :: l' =>
        if getz dcs (dc_of th) =? 0 then nts_outer ring_hosts l' acc
        else match nts_token ring_hosts i th with
             | Crash c => Crash c
             | Ok reps => nts_outer ring_hosts l' (acc ++ [(tok, reps)])
             end
    end.

  (* the DCs of the ring (keys of dcRacks) that have a positive factor *)
  Definition dcs_with_replicas : nat :=
    length (filter (fun e => match aget dc_racks (fst e) with Some _ => snd e >? 0 | None => false end) dcs).
End Ring.


(* networkTopology.replicaMap  *)
Definition nts_replica_map {T} (info : Z -> hinfo) (dcs : amap Z) (hosts : list Z) (r : @ring T) : res (@rmap T) :=
  let dc_racks := mk_dc_racks info hosts in
  match nts_outer info dcs dc_racks (map snd r) (indexed r) [] with
  | Crash c => Crash c
  | Ok m =>
      if (dcs_with_replicas dcs dc_racks =? length dc_racks)%nat && negb (length m =? length r)%nat
      then Crash PanicSize
      else Ok m
  end.

Definition replica_map {T} (info : Z -> hinfo) (s : strategy) (hosts : list Z) (r : @ring T) : res (@rmap T) :=
  match s with
  | SSimple rf => Ok (simple_replica_map rf r)
  | SNts dcs => nts_replica_map info dcs hosts r
  end.
