(* C10/Proofs2.v -- rotations and walks; simpleStrategy.replicaMap against Cassandra's SimpleStrategy. *)
From GocqlV Require Import Lib.Base C10.Model C10.Spec C10.Proofs1.
From Coq Require Import Sorting.Permutation Sorting.Sorted.
Open Scope Z_scope.

(* ---- rotate / indexed ---------------------------------------------------------------------------- *)
Lemma rotate_perm {A} i (l : list A) : Permutation (rotate i l) l.
Proof.
  unfold rotate. eapply perm_trans; [apply Permutation_app_comm|]. rewrite firstn_skipn. apply Permutation_refl.
Qed.

Lemma rotate_In {A} i (l : list A) x : In x (rotate i l) <-> In x l.
Proof. split; apply Permutation_in; [apply rotate_perm | apply Permutation_sym, rotate_perm]. Qed.

Lemma rotate_NoDup {A} i (l : list A) : NoDup l -> NoDup (rotate i l).
Proof. intros H. eapply Permutation_NoDup; [apply Permutation_sym, rotate_perm|exact H]. Qed.

Lemma rotate_map {A B} (f : A -> B) i l : rotate i (map f l) = map f (rotate i l).
Proof. unfold rotate. rewrite map_app, firstn_map, skipn_map. reflexivity. Qed.

Lemma rotate_hd {A} i (l : list A) x : nth_error l i = Some x -> exists rest, rotate i l = x :: rest.
Proof.
  revert l. induction i as [|i IH]; intros [|y l] H; simpl in H; try discriminate.
  - inversion H; subst. exists l. unfold rotate. simpl. rewrite app_nil_r. reflexivity.
  - destruct (IH l H) as [rest Hr]. unfold rotate in *. simpl.
    destruct (skipn i l) as [|z sk] eqn:E.
    + (* impossible: nth_error l i = Some x *)
      exfalso. assert (Hlen : (i < length l)%nat) by (apply nth_error_Some; congruence).
      pose proof (skipn_length i l) as Hl. rewrite E in Hl. simpl in Hl. lia.
    + simpl in Hr. inversion Hr; subst. eexists. reflexivity.
Qed.

Lemma rotate_app_len {A} (a b : list A) : rotate (length a) (a ++ b) = b ++ a.
Proof.
  unfold rotate. rewrite skipn_app, firstn_app, Nat.sub_diag, skipn_all, firstn_all. simpl.
  rewrite app_nil_r. reflexivity.
Qed.

Lemma rotate_0 {A} (l : list A) : rotate 0 l = l.
Proof. unfold rotate. simpl. apply app_nil_r. Qed.

Lemma indexed_from_nth {A} (l : list A) : forall k i,
  nth_error (indexed_from k l) i = option_map (fun x => ((k + i)%nat, x)) (nth_error l i).
Proof.
  induction l as [|x l IH]; intros k [|i]; simpl; auto.
  - rewrite Nat.add_0_r. reflexivity.
  - rewrite IH. replace (S k + i)%nat with (k + S i)%nat by lia. reflexivity.
Qed.

Lemma indexed_from_map_snd {A} (l : list A) k : map snd (indexed_from k l) = l.
Proof. revert k. induction l as [|x l IH]; intros k; simpl; [reflexivity|]. rewrite IH. reflexivity. Qed.

Lemma indexed_from_length {A} (l : list A) k : length (indexed_from k l) = length l.
Proof. revert k. induction l as [|x l IH]; intros k; simpl; auto. Qed.

(* ---- where the lookups start their walk -------------------------------------------------------- *)
Section Walk.
  Context {T : Type} (ltb : T -> T -> bool) (O : strict_total ltb).

  Lemma rotate_lookup {B} (m : list (T * B)) t :
    sorted_toks ltb m ->
    rotate (lookup_index ltb m t) m
    = filter (fun e => negb (ltb (fst e) t)) m ++ filter (fun e => ltb (fst e) t) m.
  Proof.
    intros Hs. unfold lookup_index. rewrite (search_first_geq ltb O m t Hs).
    pose proof (sorted_split ltb O m t Hs) as Hsplit.
    set (A := filter (fun e => ltb (fst e) t) m) in *.
    set (Bq := filter (fun e => negb (ltb (fst e) t)) m) in *.
    destruct (length m <=? length A)%nat eqn:E.
    - apply Nat.leb_le in E. rewrite Hsplit in E. rewrite app_length in E.
      assert (HB : Bq = []) by (destruct Bq; simpl in E; [reflexivity|lia]).
      rewrite HB in *. rewrite app_nil_r in Hsplit. rewrite rotate_0. simpl. exact Hsplit.
    - rewrite Hsplit at 1. apply rotate_app_len.
  Qed.

  Lemma lookup_index_lt {B} (m : list (T * B)) t : m <> [] -> (lookup_index ltb m t < length m)%nat.
  Proof.
    intros Hne. unfold lookup_index.
    destruct (length m <=? sort_search (length m) (geq_at ltb m t))%nat eqn:E.
    - destruct m; [congruence|simpl; lia].
    - apply Nat.leb_gt in E. exact E.
  Qed.

  Lemma lookup_index_tokens {B C} (m : list (T * B)) (m' : list (T * C)) t :
    map fst m = map fst m' -> lookup_index ltb m t = lookup_index ltb m' t.
  Proof.
    intros Hm. assert (Hlen : length m = length m').
    { rewrite <- (map_length fst m), Hm, map_length. reflexivity. }
    assert (Hg : forall a, geq_at ltb m t a = geq_at ltb m' t a).
    { intros a. unfold geq_at.
      assert (H : option_map fst (nth_error m a) = option_map fst (nth_error m' a)).
      { rewrite <- !nth_error_map, Hm. reflexivity. }
      destruct (nth_error m a), (nth_error m' a); simpl in H; try discriminate; auto.
      inversion H as [H1]. rewrite H1. reflexivity. }
    unfold lookup_index, sort_search. rewrite Hlen.
    rewrite (bsearch_ext _ _ Hg). reflexivity.
  Qed.

  (* GetHostForToken returns the first endpoint of Cassandra's ring walk *)
  Lemma get_host_for_token_walk (r : @ring T) t :
    sorted_toks ltb r ->
    option_map fst (get_host_for_token ltb r t) = hd_error (ring_walk ltb r t).
  Proof.
    intros Hs. unfold get_host_for_token, ring_walk.
    destruct r as [|e r']; [reflexivity|].
    rewrite (lookup_entry ltb O (e :: r') t Hs).
    destruct (filter (fun e0 => negb (ltb (fst e0) t)) (e :: r') ++ filter (fun e0 => ltb (fst e0) t) (e :: r')) as [|[tok h] l];
      reflexivity.
  Qed.
End Walk.

(* ---- distinct ------------------------------------------------------------------------------------ *)
Lemma zmem_In x l : zmem x l = true <-> In x l.
Proof.
  unfold zmem. rewrite existsb_exists. split.
  - intros [y [Hy E]]. apply Z.eqb_eq in E. subst. exact Hy.
  - intros H. exists x. split; [exact H|apply Z.eqb_refl].
Qed.

Lemma zmem_false x l : zmem x l = false <-> ~ In x l.
Proof. rewrite <- zmem_In. destruct (zmem x l); split; congruence. Qed.

Lemma distinct_In l x : In x (distinct l) <-> In x l.
Proof.
  induction l as [|y l IH]; simpl; [tauto|].
  rewrite filter_In, IH. destruct (Z.eq_dec x y) as [->|Hne].
  - tauto.
  - assert (E : negb (x =? y) = true) by (apply negb_true_iff, Z.eqb_neq; exact Hne). rewrite E.
    split; [intros [H|[H _]]; [left; congruence|right; exact H] | intros [H|H]; [congruence|right; tauto]].
Qed.

Lemma NoDup_filter {A} (f : A -> bool) l : NoDup l -> NoDup (filter f l).
Proof.
  induction 1 as [|x l Hx Hnd IH]; simpl; [constructor|].
  destruct (f x); auto. constructor; auto. rewrite filter_In. tauto.
Qed.

Lemma NoDup_app_l {A} (a b : list A) : NoDup (a ++ b) -> NoDup a.
Proof.
  induction a as [|x a IH]; simpl; intros H; [constructor|].
  inversion H as [|? ? Hx Hnd]; subst. constructor; [|apply IH; exact Hnd].
  intros Hin. apply Hx. apply in_or_app. left. exact Hin.
Qed.

Lemma NoDup_app_r {A} (a b : list A) : NoDup (a ++ b) -> NoDup b.
Proof. induction a as [|x a IH]; simpl; intros H; [exact H|]. inversion H; subst. apply IH. assumption. Qed.

Lemma NoDup_firstn {A} n (l : list A) : NoDup l -> NoDup (firstn n l).
Proof. intros H. rewrite <- (firstn_skipn n l) in H. apply NoDup_app_l in H. exact H. Qed.

Lemma NoDup_skipn {A} n (l : list A) : NoDup l -> NoDup (skipn n l).
Proof. intros H. rewrite <- (firstn_skipn n l) in H. apply NoDup_app_r in H. exact H. Qed.

Lemma distinct_NoDup l : NoDup (distinct l).
Proof.
  induction l as [|y l IH]; simpl; [constructor|].
  constructor; [|apply NoDup_filter; exact IH].
  rewrite filter_In. intros [_ H]. rewrite Z.eqb_refl in H. discriminate.
Qed.

Lemma distinct_length_perm l l' : Permutation l l' -> length (distinct l) = length (distinct l').
Proof.
  intros Hp. apply Nat.le_antisymm; apply NoDup_incl_length; try apply distinct_NoDup;
    intros x Hx; rewrite distinct_In in *.
  - eapply Permutation_in; [exact Hp|exact Hx].
  - eapply Permutation_in; [apply Permutation_sym; exact Hp|exact Hx].
Qed.

Lemma distinct_length_nodup l : length (distinct l) = length (nodup Z.eq_dec l).
Proof.
  apply Nat.le_antisymm; apply NoDup_incl_length; try apply distinct_NoDup; try apply NoDup_nodup;
    intros x Hx; rewrite ?distinct_In, ?nodup_In in *; exact Hx.
Qed.

Lemma filter_filter {A} (f g : A -> bool) l : filter f (filter g l) = filter (fun x => g x && f x) l.
Proof.
  induction l as [|x l IH]; simpl; [reflexivity|].
  destruct (g x); simpl; [destruct (f x); simpl; rewrite IH; reflexivity|exact IH].
Qed.

Lemma filter_ext_in' {A} (f g : A -> bool) l : (forall x, In x l -> f x = g x) -> filter f l = filter g l.
Proof.
  induction l as [|x l IH]; simpl; intros H; [reflexivity|].
  rewrite (H x) by (left; reflexivity). rewrite IH by (intros y Hy; apply H; right; exact Hy). reflexivity.
Qed.

(* ---- simpleStrategy's loop = the first rf distinct endpoints of the walk ----------------------- *)
Lemma simple_loop_spec rf : forall walk acc,
  simple_loop rf walk acc =
  if Z.of_nat (length acc) <? rf
  then firstn (Z.to_nat rf) (acc ++ filter (fun y => negb (zmem y acc)) (distinct walk))
  else acc.
Proof.
  induction walk as [|h rest IH]; intros acc; simpl.
  - destruct (Z.of_nat (length acc) <? rf) eqn:E; [|reflexivity].
    rewrite app_nil_r. symmetry. apply firstn_all2. lia.
  - destruct (Z.of_nat (length acc) <? rf) eqn:E; [|reflexivity].
    rewrite IH. destruct (zmem h acc) eqn:Eh; simpl.
    + rewrite E. f_equal. f_equal. rewrite filter_filter. apply filter_ext_in'.
      intros x _. destruct (x =? h) eqn:Ex; simpl; [|reflexivity].
      apply Z.eqb_eq in Ex. subst. rewrite Eh. reflexivity.
    + assert (Hf : filter (fun y => negb (zmem y (acc ++ [h]))) (distinct rest)
                   = filter (fun y => negb (zmem y acc)) (filter (fun y => negb (y =? h)) (distinct rest))).
      { rewrite filter_filter. apply filter_ext_in'. intros x _.
        unfold zmem. rewrite existsb_app. simpl. rewrite orb_false_r, negb_orb. apply andb_comm. }
      rewrite app_length. simpl.
      destruct (Z.of_nat (length acc + 1) <? rf) eqn:E2.
      * rewrite Hf, <- app_assoc. reflexivity.
      * assert (Hlen : Z.to_nat rf = length (acc ++ [h])) by (rewrite app_length; simpl; lia).
        rewrite Hlen.
        set (tl := filter (fun y => negb (zmem y acc)) (filter (fun y => negb (y =? h)) (distinct rest))).
        replace (acc ++ h :: tl) with ((acc ++ [h]) ++ tl) by (rewrite <- app_assoc; reflexivity).
        rewrite firstn_app, Nat.sub_diag, firstn_all. simpl. rewrite app_nil_r. reflexivity.
Qed.

Lemma simple_loop_eq_spec rf walk : simple_loop rf walk [] = simple_endpoints rf walk.
Proof.
  rewrite simple_loop_spec. unfold simple_endpoints. simpl.
  destruct (0 <? rf) eqn:E.
  - f_equal. clear. induction (distinct walk) as [|x l IH]; simpl; [reflexivity|]. f_equal. exact IH.
  - replace (Z.to_nat rf) with O by lia. reflexivity.
Qed.

Section Simple.
  Context {T : Type} (ltb : T -> T -> bool) (O : strict_total ltb).

  Lemma simple_map_fst rf (r : @ring T) : map fst (simple_replica_map rf r) = map fst r.
  Proof.
    unfold simple_replica_map, indexed. generalize 0%nat as k. generalize (map snd r) as hosts.
    induction r as [|[tok h] r IH]; intros hosts k; simpl; [reflexivity|]. f_equal. apply IH.
  Qed.

  Lemma simple_map_nth rf (r : @ring T) i tok h :
    nth_error r i = Some (tok, h) ->
    nth_error (simple_replica_map rf r) i = Some (tok, simple_endpoints rf (rotate i (map snd r))).
  Proof.
    intros H. unfold simple_replica_map, indexed. rewrite nth_error_map, indexed_from_nth, H. simpl.
    rewrite simple_loop_eq_spec. reflexivity.
  Qed.

  (* the lookup in the simple replica map is Cassandra's SimpleStrategy placement of the token *)
  Lemma simple_lookup_eq_spec rf (r : @ring T) t :
    sorted_toks ltb r -> r <> [] ->
    exists tok, replicas_for ltb (simple_replica_map rf r) t = Some (tok, simple_natural_endpoints ltb rf r t).
  Proof.
    intros Hs Hne. unfold replicas_for.
    destruct (simple_replica_map rf r) as [|e0 m0] eqn:Em.
    { exfalso. apply Hne. apply (f_equal (@length _)) in Em. unfold simple_replica_map, indexed in Em.
      rewrite map_length, indexed_from_length in Em. destruct r; [reflexivity|discriminate]. }
    rewrite <- Em. clear e0 m0 Em.
    rewrite (lookup_index_tokens ltb (simple_replica_map rf r) r t (simple_map_fst rf r)).
    pose proof (lookup_index_lt ltb r t Hne) as Hlt.
    destruct (nth_error r (lookup_index ltb r t)) as [[tok h]|] eqn:En; [|apply nth_error_None in En; lia].
    exists tok. rewrite (simple_map_nth rf r _ tok h En). f_equal. f_equal.
    unfold simple_natural_endpoints, ring_walk. f_equal.
    rewrite rotate_map, (rotate_lookup ltb O r t Hs). reflexivity.
  Qed.

  (* every entry: no node twice, exactly min(rf, distinct nodes) nodes, only ring nodes, the token's owner first *)
  Lemma simple_entry_props rf (r : @ring T) i tok reps :
    nth_error (simple_replica_map rf r) i = Some (tok, reps) ->
    NoDup reps /\ incl reps (map snd r)
    /\ length reps = Nat.min (Z.to_nat rf) (length (nodup Z.eq_dec (map snd r)))
    /\ (0 < rf -> exists h, nth_error r i = Some (tok, h) /\ hd_error reps = Some h).
  Proof.
    intros H.
    assert (Hi : (i < length r)%nat).
    { assert (Hx : nth_error (simple_replica_map rf r) i <> None) by congruence.
      apply nth_error_Some in Hx. unfold simple_replica_map, indexed in Hx.
      rewrite map_length, indexed_from_length in Hx. exact Hx. }
    destruct (nth_error r i) as [[tok' h]|] eqn:En; [|apply nth_error_None in En; lia].
    rewrite (simple_map_nth rf r i tok' h En) in H. inversion H; subst tok' reps. clear H.
    unfold simple_endpoints. split; [|split; [|split]].
    - apply NoDup_firstn, distinct_NoDup.
    - intros x Hx. apply In_firstn in Hx. rewrite distinct_In, rotate_In in Hx. exact Hx.
    - rewrite firstn_length. f_equal. rewrite <- distinct_length_nodup. apply distinct_length_perm, rotate_perm.
    - intros Hrf. exists h. split; [reflexivity|].
      assert (Hn : nth_error (map snd r) i = Some h) by (rewrite nth_error_map, En; reflexivity).
      destruct (rotate_hd i (map snd r) h Hn) as [rest Hr]. rewrite Hr. simpl.
      destruct (Z.to_nat rf) eqn:E; [lia|reflexivity].
  Qed.
End Simple.
