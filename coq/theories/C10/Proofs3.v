(* C10/Proofs3.v -- networkTopology.replicaMap: the rack table, the invariant of the inner loop,
   the three inner panics are unreachable, the exact condition of the fourth. *)
From GocqlV Require Import Lib.Base C10.Model C10.Spec C10.Proofs1 C10.Proofs2.
From Coq Require Import Sorting.Permutation.
Open Scope Z_scope.

Lemma smem_In x l : smem x l = true <-> In x l.
Proof.
  unfold smem. rewrite existsb_exists. split.
  - intros [y [Hy E]]. apply zlist_eqb_eq in E. subst. exact Hy.
  - intros H. exists x. split; [exact H|apply zlist_eqb_refl].
Qed.

Lemma smem_false x l : smem x l = false <-> ~ In x l.
Proof. rewrite <- smem_In. destruct (smem x l); split; congruence. Qed.

Definition str_eq_dec : forall a b : str, {a = b} + {a <> b} := list_eq_dec Z.eq_dec.

(* ---- dcRacks ------------------------------------------------------------------------------------ *)
Section Racks.
  Variable info : Z -> hinfo.
  Notation dc_of := (dc_of info).
  Notation rack_of := (rack_of info).

  Record racks_inv (m : amap (list str)) (done : list Z) : Prop := {
    ri_keys : NoDup (map fst m);
    ri_nodup : forall dc, NoDup (getl m dc);
    ri_in : forall dc rack, In rack (getl m dc) <-> exists h, In h done /\ dc_of h = dc /\ rack_of h = rack;
    ri_key : forall dc, In dc (map fst m) <-> exists h, In h done /\ dc_of h = dc }.

  Lemma racks_inv_step m done h : racks_inv m done -> racks_inv (add_host_rack info m h) (done ++ [h]).
  Proof.
    intros [Hk Hn Hi Hkey]. unfold add_host_rack.
    set (dc := dc_of h). set (rack := rack_of h).
    split.
    - apply aset_keys_nodup. exact Hk.
    - intros dc'. destruct (str_eq_dec dc' dc) as [->|Hne].
      + rewrite getl_aset_same. destruct (smem rack (getl m dc)) eqn:E; [apply Hn|].
        apply NoDup_snoc; [apply Hn|]. apply smem_false. exact E.
      + rewrite getl_aset_other by exact Hne. apply Hn.
    - intros dc' rk. destruct (str_eq_dec dc' dc) as [->|Hne].
      + rewrite getl_aset_same.
        assert (Hcases : In rk (if smem rack (getl m dc) then getl m dc else getl m dc ++ [rack])
                         <-> In rk (getl m dc) \/ rk = rack).
        { destruct (smem rack (getl m dc)) eqn:E.
          - apply smem_In in E. split; [tauto|]. intros [H| ->]; assumption.
          - rewrite in_app_iff. simpl. split; [intros [H|[H|[]]]; auto|intros [H|H]; auto]. }
        rewrite Hcases, Hi. split.
        * intros [[h' [H1 [H2 H3]]]| ->].
          -- exists h'. rewrite in_app_iff. tauto.
          -- exists h. rewrite in_app_iff. simpl. tauto.
        * intros [h' [H1 [H2 H3]]]. apply in_app_iff in H1. destruct H1 as [H1|[<-|[]]].
          -- left. exists h'. tauto.
          -- right. symmetry. exact H3.
      + rewrite getl_aset_other by exact Hne. rewrite Hi. split.
        * intros [h' [H1 H2]]. exists h'. rewrite in_app_iff. tauto.
        * intros [h' [H1 [H2 H3]]]. apply in_app_iff in H1. destruct H1 as [H1|[<-|[]]].
          -- exists h'. tauto.
          -- exfalso. apply Hne. symmetry. exact H2.
    - intros dc'. destruct (in_dec str_eq_dec dc (map fst m)) as [Hin|Hnin].
      + rewrite aset_keys_in by exact Hin. rewrite Hkey. split.
        * intros [h' [H1 H2]]. exists h'. rewrite in_app_iff. tauto.
        * intros [h' [H1 H2]]. apply in_app_iff in H1. destruct H1 as [H1|[<-|[]]].
          -- exists h'. tauto.
          -- subst dc'. apply Hkey in Hin. exact Hin.
      + rewrite aset_keys_notin by exact Hnin. rewrite in_app_iff, Hkey. simpl. split.
        * intros [[h' [H1 H2]]|[<-|[]]].
          -- exists h'. rewrite in_app_iff. tauto.
          -- exists h. rewrite in_app_iff. simpl. tauto.
        * intros [h' [H1 H2]]. apply in_app_iff in H1. destruct H1 as [H1|[<-|[]]].
          -- left. exists h'. tauto.
          -- right. left. exact H2.
  Qed.

  Lemma racks_inv_fold l : forall m done, racks_inv m done -> racks_inv (fold_left (add_host_rack info) l m) (done ++ l).
  Proof.
    induction l as [|h l IH]; intros m done H; simpl.
    - rewrite app_nil_r. exact H.
    - replace (done ++ h :: l) with ((done ++ [h]) ++ l) by (rewrite <- app_assoc; reflexivity).
      apply IH. apply racks_inv_step. exact H.
  Qed.

  Lemma mk_dc_racks_inv hosts : racks_inv (mk_dc_racks info hosts) hosts.
  Proof.
    unfold mk_dc_racks. change hosts with ([] ++ hosts) at 2. apply racks_inv_fold.
    split.
    - constructor.
    - intros dc. constructor.
    - intros dc rack. unfold getl. simpl. split; [tauto|]. intros [h [[] _]].
    - intros dc. simpl. split; [tauto|]. intros [h [[] _]].
  Qed.
End Racks.

(* ---- drain ---------------------------------------------------------------------------------------- *)
Lemma drain_firstn sk : forall r rf, drain sk r rf = firstn (length (drain sk r rf)) sk.
Proof.
  induction sk as [|x sk IH]; intros r rf; simpl; [reflexivity|].
  destruct (r <? rf); simpl; [f_equal; apply IH|reflexivity].
Qed.

Lemma drain_length_le sk : forall r rf, r <= rf -> r + Z.of_nat (length (drain sk r rf)) <= rf.
Proof.
  induction sk as [|x sk IH]; intros r rf H; simpl; [lia|].
  destruct (r <? rf) eqn:E; simpl; [|lia].
  specialize (IH (r + 1) rf). lia.
Qed.

Lemma drain_incl sk r rf : incl (drain sk r rf) sk.
Proof. rewrite drain_firstn. intros x Hx. eapply In_firstn. exact Hx. Qed.

Lemma fold_right_ext_in {A} (f g : A -> Z -> Z) (l : list A) a :
  (forall x acc, In x l -> f x acc = g x acc) -> fold_right f a l = fold_right g a l.
Proof.
  induction l as [|x l IH]; intros H; simpl; [reflexivity|].
  rewrite IH by (intros y acc Hy; apply H; right; exact Hy). apply H. left. reflexivity.
Qed.

Lemma total_rf_fold_gen (m : amap Z) :
  NoDup (map fst m) -> total_rf m = fold_right (fun k acc => getz m k + acc) 0 (map fst m).
Proof.
  unfold total_rf. induction m as [|[k v] m IH]; intros Hnd; simpl; [reflexivity|].
  simpl in Hnd. inversion Hnd as [|? ? Hk Hnd']; subst.
  unfold getz at 1. simpl. rewrite zlist_eqb_refl. f_equal. rewrite IH by exact Hnd'.
  apply fold_right_ext_in. intros x acc Hx. f_equal. unfold getz. simpl.
  rewrite zlist_eqb_neq; [reflexivity|]. intros ->. apply Hk. exact Hx.
Qed.

(* ---- the inner loop ----------------------------------------------------------------------------- *)
Section Inner.
  Variable info : Z -> hinfo.
  Variable dcs : amap Z.
  Variable dc_racks : amap (list str).
  Notation dc_of := (dc_of info).
  Notation rack_of := (rack_of info).
  Hypothesis dcs_nonneg : Forall (fun e => 0 <= snd e) dcs.

  Lemma rf_nonneg dc : 0 <= getz dcs dc.
  Proof.
    unfold getz. destruct (aget dcs dc) eqn:E; [|lia].
    apply aget_In in E. rewrite Forall_forall in dcs_nonneg. apply (dcs_nonneg _ E).
  Qed.

  Definition count_dc (dc : str) (l : list Z) : nat := length (filter (fun h => zlist_eqb (dc_of h) dc) l).

  Lemma count_dc_app dc a b : count_dc dc (a ++ b) = (count_dc dc a + count_dc dc b)%nat.
  Proof. unfold count_dc. rewrite filter_app, app_length. reflexivity. Qed.

  Lemma count_dc_all dc l : (forall h, In h l -> dc_of h = dc) -> count_dc dc l = length l.
  Proof.
    unfold count_dc. induction l as [|x l IH]; intros H; simpl; [reflexivity|].
    rewrite (H x) by (left; reflexivity). rewrite zlist_eqb_refl. simpl. f_equal. apply IH.
    intros h Hh. apply H. right. exact Hh.
  Qed.

  Lemma count_dc_none dc l : (forall h, In h l -> dc_of h <> dc) -> count_dc dc l = O.
  Proof.
    unfold count_dc. induction l as [|x l IH]; intros H; simpl; [reflexivity|].
    rewrite zlist_eqb_neq by (apply H; left; reflexivity). apply IH. intros h Hh. apply H. right. exact Hh.
  Qed.

  Lemma count_dc_one_same h : count_dc (dc_of h) [h] = 1%nat.
  Proof. unfold count_dc. simpl. rewrite zlist_eqb_refl. reflexivity. Qed.

  Lemma count_dc_one_other dc h : dc <> dc_of h -> count_dc dc [h] = 0%nat.
  Proof. intros H. unfold count_dc. simpl. rewrite zlist_eqb_neq by congruence. reflexivity. Qed.

  Record minv (st : nts_state) : Prop := {
    mi_count : forall dc, getz (ns_count st) dc = Z.of_nat (count_dc dc (ns_replicas st));
    mi_le : forall dc, getz (ns_count st) dc <= getz dcs dc;
    mi_rf : forall h, In h (ns_replicas st) -> getz dcs (dc_of h) <> 0;
    mi_skip_dc : forall dc h, In h (getl (ns_skipped st) dc) -> dc_of h = dc;
    mi_seen_nodup : forall dc, NoDup (getl (ns_seen st) dc);
    mi_seen_incl : forall dc, incl (getl (ns_seen st) dc) (getl dc_racks dc) }.

  (* what one iteration does to the state: used both for the invariant and, in Proofs4, for the comparison
     with Cassandra *)
  Inductive step_kind (st : nts_state) (h : Z) : nts_state -> Prop :=
  | SkAppend :                                         (* every rack used: take the host *)
      smem (rack_of h) (getl (ns_seen st) (dc_of h)) = true ->
      length (getl (ns_seen st) (dc_of h)) = length (getl dc_racks (dc_of h)) ->
      step_kind st h (mkNts (ns_skipped st) (aset (ns_count st) (dc_of h) (getz (ns_count st) (dc_of h) + 1))
                            (ns_seen st) (ns_replicas st ++ [h]))
  | SkNewRack taken :                                  (* new rack: take the host, maybe the skipped ones *)
      smem (rack_of h) (getl (ns_seen st) (dc_of h)) = false ->
      taken = (if (length (getl (ns_seen st) (dc_of h) ++ [rack_of h]) =? length (getl dc_racks (dc_of h)))%nat
               then drain (getl (ns_skipped st) (dc_of h)) (getz (ns_count st) (dc_of h) + 1) (getz dcs (dc_of h))
               else []) ->
      step_kind st h (mkNts (if (length (getl (ns_seen st) (dc_of h) ++ [rack_of h]) =? length (getl dc_racks (dc_of h)))%nat
                             then aset (ns_skipped st) (dc_of h) (skipn (length taken) (getl (ns_skipped st) (dc_of h)))
                             else ns_skipped st)
                            (aset (ns_count st) (dc_of h) (getz (ns_count st) (dc_of h) + 1 + Z.of_nat (length taken)))
                            (aset (ns_seen st) (dc_of h) (getl (ns_seen st) (dc_of h) ++ [rack_of h]))
                            (ns_replicas st ++ [h] ++ taken))
  | SkSkip :                                           (* rack already used, others still unused: remember the host *)
      smem (rack_of h) (getl (ns_seen st) (dc_of h)) = true ->
      length (getl (ns_seen st) (dc_of h)) <> length (getl dc_racks (dc_of h)) ->
      step_kind st h (mkNts (aset (ns_skipped st) (dc_of h) (getl (ns_skipped st) (dc_of h) ++ [h]))
                            (ns_count st) (ns_seen st) (ns_replicas st)).

  (* the active case: the host's DC has a factor, is not full, and the rack is known *)
  Definition active (st : nts_state) (h : Z) : Prop :=
    getz dcs (dc_of h) <> 0 /\ getz (ns_count st) (dc_of h) < getz dcs (dc_of h)
    /\ In (rack_of h) (getl dc_racks (dc_of h)).

  Lemma nts_step_cases st h :
    getz (ns_count st) (dc_of h) <= getz dcs (dc_of h) ->
    exists st', nts_step info dcs dc_racks st h = Ok st'
                /\ ((~ active st h /\ st' = st) \/ (active st h /\ step_kind st h st')).
  Proof.
    intros Hle. unfold nts_step.
    destruct (getz dcs (dc_of h) =? 0) eqn:E0.
    { exists st. split; [reflexivity|]. left. split; [|reflexivity]. intros [H _]. lia. }
    destruct (getz (ns_count st) (dc_of h) >=? getz dcs (dc_of h)) eqn:E1.
    { assert (E2 : (getz (ns_count st) (dc_of h) >? getz dcs (dc_of h)) = false) by lia. rewrite E2.
      exists st. split; [reflexivity|]. left. split; [|reflexivity]. intros [_ [H _]]. lia. }
    destruct (smem (rack_of h) (getl dc_racks (dc_of h))) eqn:E3; simpl.
    2:{ exists st. split; [reflexivity|]. left. split; [|reflexivity]. intros [_ [_ H]].
        apply smem_In in H. congruence. }
    assert (Hact : active st h).
    { split; [lia|]. split; [lia|]. apply smem_In. exact E3. }
    destruct (smem (rack_of h) (getl (ns_seen st) (dc_of h))) eqn:E4; simpl.
    - destruct (length (getl (ns_seen st) (dc_of h)) =? length (getl dc_racks (dc_of h)))%nat eqn:E5.
      + eexists. split; [reflexivity|]. right. split; [exact Hact|].
        apply SkAppend; [exact E4|apply Nat.eqb_eq; exact E5].
      + eexists. split; [reflexivity|]. right. split; [exact Hact|].
        apply SkSkip; [exact E4|apply Nat.eqb_neq; exact E5].
    - pose proof (SkNewRack st h _ E4 eq_refl) as Hk.
      destruct (length (getl (ns_seen st) (dc_of h) ++ [rack_of h]) =? length (getl dc_racks (dc_of h)))%nat eqn:E5.
      + eexists. split; [reflexivity|]. right. split; [exact Hact|exact Hk].
      + eexists. split; [reflexivity|]. right. split; [exact Hact|].
        simpl in Hk. rewrite Z.add_0_r in Hk. simpl. exact Hk.
  Qed.

  Lemma step_kind_inv st h st' :
    minv st -> active st h -> step_kind st h st' -> minv st'.
  Proof.
    intros Hm Ha Hk. destruct Hk as [Hs Hl|taken Hs Ht|Hs Hl].
    - (* append *)
      destruct Ha as [Hrf [Hlt Hrack]]. destruct Hm as [Hc Hle Hr Hsk Hsn Hsi]. split; simpl; auto.
      + intros dc. rewrite count_dc_app. destruct (str_eq_dec dc (dc_of h)) as [->|Hne].
        * rewrite getz_aset_same, Hc. rewrite count_dc_one_same. simpl. lia.
        * rewrite getz_aset_other by exact Hne. rewrite Hc.
          rewrite (count_dc_one_other dc h Hne). lia.
      + intros dc. destruct (str_eq_dec dc (dc_of h)) as [->|Hne].
        * rewrite getz_aset_same. lia.
        * rewrite getz_aset_other by exact Hne. apply Hle.
      + intros x Hx. apply in_app_iff in Hx. destruct Hx as [Hx|[<-|[]]]; auto.
    - (* new rack *)
      destruct Ha as [Hrf [Hlt Hrack]]. destruct Hm as [Hc Hle Hr Hsk Hsn Hsi].
      assert (Htk : incl taken (getl (ns_skipped st) (dc_of h))).
      { subst taken. destruct (_ =? _)%nat; [apply drain_incl|intros x []]. }
      assert (Htl : getz (ns_count st) (dc_of h) + 1 + Z.of_nat (length taken) <= getz dcs (dc_of h)).
      { subst taken. destruct (_ =? _)%nat; [apply drain_length_le; lia|simpl; lia]. }
      assert (Htdc : forall x, In x taken -> dc_of x = dc_of h) by (intros x Hx; apply (Hsk _ _ (Htk _ Hx))).
      split; cbn [ns_skipped ns_count ns_seen ns_replicas].
      + intros dc. rewrite !count_dc_app. destruct (str_eq_dec dc (dc_of h)) as [->|Hne].
        * rewrite getz_aset_same, Hc. rewrite count_dc_one_same.
          rewrite (count_dc_all (dc_of h) taken) by exact Htdc. simpl. lia.
        * rewrite getz_aset_other by exact Hne. rewrite Hc.
          rewrite (count_dc_one_other dc h Hne).
          rewrite (count_dc_none dc taken) by (intros x Hx; rewrite (Htdc x Hx); congruence). lia.
      + intros dc. destruct (str_eq_dec dc (dc_of h)) as [->|Hne].
        * rewrite getz_aset_same. exact Htl.
        * rewrite getz_aset_other by exact Hne. apply Hle.
      + intros x Hx. rewrite !in_app_iff in Hx. destruct Hx as [Hx|[[<-|[]]|Hx]]; auto.
        rewrite (Htdc x Hx). exact Hrf.
      + intros dc x. destruct (_ =? _)%nat; [|apply Hsk].
        destruct (str_eq_dec dc (dc_of h)) as [->|Hne].
        * rewrite getl_aset_same. intros Hx. apply In_skipn in Hx. apply Hsk. exact Hx.
        * rewrite getl_aset_other by exact Hne. apply Hsk.
      + intros dc. destruct (str_eq_dec dc (dc_of h)) as [->|Hne].
        * rewrite getl_aset_same. apply NoDup_snoc; [apply Hsn|]. apply smem_false. exact Hs.
        * rewrite getl_aset_other by exact Hne. apply Hsn.
      + intros dc. destruct (str_eq_dec dc (dc_of h)) as [->|Hne].
        * rewrite getl_aset_same. intros x Hx. apply in_app_iff in Hx. destruct Hx as [Hx|[<-|[]]]; [apply Hsi; exact Hx|exact Hrack].
        * rewrite getl_aset_other by exact Hne. apply Hsi.
    - (* skip *)
      destruct Hm as [Hc Hle Hr Hsk Hsn Hsi]. split; simpl; auto.
      intros dc x. destruct (str_eq_dec dc (dc_of h)) as [->|Hne].
      + rewrite getl_aset_same. intros Hx. apply in_app_iff in Hx. destruct Hx as [Hx|[<-|[]]]; [apply Hsk; exact Hx|reflexivity].
      + rewrite getl_aset_other by exact Hne. apply Hsk.
  Qed.

  Lemma step_kind_extends st h st' : step_kind st h st' -> exists suf, ns_replicas st' = ns_replicas st ++ suf.
  Proof.
    intros [| |]; simpl.
    - eexists. reflexivity.
    - eexists. reflexivity.
    - exists []. rewrite app_nil_r. reflexivity.
  Qed.

  (* one iteration never panics and keeps the invariant *)
  Lemma nts_step_ok st h :
    minv st -> exists st', nts_step info dcs dc_racks st h = Ok st' /\ minv st'
                           /\ ((~ active st h /\ st' = st) \/ (active st h /\ step_kind st h st')).
  Proof.
    intros Hm. destruct (nts_step_cases st h (mi_le st Hm (dc_of h))) as [st' [H1 H2]].
    exists st'. split; [exact H1|]. split; [|exact H2].
    destruct H2 as [[_ ->]|[Ha Hk]]; [exact Hm|]. eapply step_kind_inv; eauto.
  Qed.

  (* the unguarded loop *)
  Fixpoint nts_run (walk : list Z) (st : nts_state) : res nts_state :=
    match walk with
    | [] => Ok st
    | h :: rest => match nts_step info dcs dc_racks st h with
                   | Ok st' => nts_run rest st'
                   | Crash c => Crash c
                   end
    end.

  Lemma nts_run_ok walk : forall st, minv st ->
    exists st', nts_run walk st = Ok st' /\ minv st' /\ exists suf, ns_replicas st' = ns_replicas st ++ suf.
  Proof.
    induction walk as [|h rest IH]; intros st Hm; simpl.
    - exists st. split; [reflexivity|]. split; [exact Hm|]. exists []. rewrite app_nil_r. reflexivity.
    - destruct (nts_step_ok st h Hm) as [st1 [H1 [H2 H3]]]. rewrite H1.
      destruct (IH st1 H2) as [st' [H4 [H5 [suf H6]]]]. exists st'. split; [exact H4|]. split; [exact H5|].
      destruct H3 as [[_ ->]|[_ H3]]; [exists suf; exact H6|].
      destruct (step_kind_extends _ _ _ H3) as [suf1 H7]. exists (suf1 ++ suf). rewrite H6, H7, app_assoc. reflexivity.
  Qed.

  (* ---- the loop condition only cuts iterations that change nothing ------------------------------- *)
  Hypothesis dcs_keys : NoDup (map fst dcs).

  Lemma getz_In dc v : In (dc, v) dcs -> getz dcs dc = v.
  Proof. intros H. unfold getz. rewrite (In_aget dcs dc v dcs_keys H). reflexivity. Qed.

  Lemma getz_nonzero_In dc : getz dcs dc <> 0 -> In (dc, getz dcs dc) dcs.
  Proof. unfold getz. destruct (aget dcs dc) eqn:E; [intros _; apply aget_In; exact E|congruence]. Qed.

  (* the hosts of l whose DC is one of the keys, counted per key *)
  Lemma length_by_key (keys : list str) (l : list Z) :
    NoDup keys -> (forall h, In h l -> In (dc_of h) keys) ->
    Z.of_nat (length l) = fold_right (fun k acc => Z.of_nat (count_dc k l) + acc) 0 keys.
  Proof.
    intros Hnd. induction l as [|x l IH]; intros Hin.
    - clear Hin Hnd. induction keys as [|k keys IHk]; [reflexivity|]. cbn [fold_right]. rewrite <- IHk. reflexivity.
    - change (length (x :: l)) with (S (length l)).
      rewrite Nat2Z.inj_succ, IH by (intros h Hh; apply Hin; right; exact Hh).
      assert (Hx : In (dc_of x) keys) by (apply Hin; left; reflexivity).
      clear IH Hin. induction keys as [|k keys IHk]; cbn [fold_right]; [destruct Hx|].
      inversion Hnd as [|? ? Hk Hnd']; subst.
      assert (Hcons : forall k0, count_dc k0 (x :: l) = ((if zlist_eqb (dc_of x) k0 then 1 else 0) + count_dc k0 l)%nat).
      { intros k0. unfold count_dc. simpl. destruct (zlist_eqb (dc_of x) k0); reflexivity. }
      rewrite (Hcons k).
      destruct (str_eq_dec (dc_of x) k) as [Heq|Hne].
      + rewrite Heq, zlist_eqb_refl.
        assert (Hrest : fold_right (fun k0 acc => Z.of_nat (count_dc k0 (x :: l)) + acc) 0 keys
                        = fold_right (fun k0 acc => Z.of_nat (count_dc k0 l) + acc) 0 keys).
        { clear IHk Hx Hnd' Hnd. induction keys as [|k' keys IHk']; cbn [fold_right]; [reflexivity|].
          rewrite IHk' by (intros H; apply Hk; right; exact H).
          rewrite (Hcons k'). rewrite zlist_eqb_neq; [reflexivity|].
          rewrite Heq. intros ->. apply Hk. left. reflexivity. }
        rewrite Hrest. lia.
      + rewrite zlist_eqb_neq by exact Hne.
        destruct Hx as [Hx|Hx]; [congruence|]. specialize (IHk Hnd' Hx). lia.
  Qed.

  Lemma total_rf_fold : total_rf dcs = fold_right (fun k acc => getz dcs k + acc) 0 (map fst dcs).
  Proof. apply total_rf_fold_gen. exact dcs_keys. Qed.

  Lemma sum_le_eq (keys : list str) (f g : str -> Z) :
    (forall k, In k keys -> f k <= g k) ->
    fold_right (fun k acc => g k + acc) 0 keys <= fold_right (fun k acc => f k + acc) 0 keys ->
    forall k, In k keys -> f k = g k.
  Proof.
    induction keys as [|k0 keys IH]; intros Hle Hsum k Hk; [destruct Hk|]. simpl in Hsum.
    assert (Hrest : fold_right (fun k acc => f k + acc) 0 keys <= fold_right (fun k acc => g k + acc) 0 keys).
    { clear -Hle. induction keys as [|k1 keys IHk]; simpl; [lia|].
      assert (f k1 <= g k1) by (apply Hle; right; left; reflexivity).
      assert (fold_right (fun k acc => f k + acc) 0 keys <= fold_right (fun k acc => g k + acc) 0 keys).
      { apply IHk. intros k Hk. apply Hle. destruct Hk as [<-|Hk]; [left; reflexivity|right; right; exact Hk]. }
      lia. }
    assert (H0 : f k0 <= g k0) by (apply Hle; left; reflexivity).
    destruct Hk as [<-|Hk]; [lia|].
    apply IH; [intros k' Hk'; apply Hle; right; exact Hk'|lia|exact Hk].
  Qed.

  (* when the loop condition is false every further iteration leaves the state alone *)
  Lemma guard_false_noop st h :
    minv st -> nts_guard dcs st = false -> ~ active st h.
  Proof.
    intros Hm Hg [Hrf [Hlt _]]. unfold nts_guard in Hg. apply andb_false_iff in Hg.
    assert (Hin : In (dc_of h) (map fst dcs)).
    { apply getz_nonzero_In in Hrf. apply (in_map fst) in Hrf. exact Hrf. }
    destruct Hg as [Hg|Hg].
    - (* len(replicas) >= totalRF *)
      apply Z.ltb_ge in Hg. rewrite total_rf_fold in Hg.
      rewrite (length_by_key (map fst dcs) (ns_replicas st) dcs_keys) in Hg.
      2:{ intros x Hx. pose proof (mi_rf st Hm x Hx) as Hx'. apply getz_nonzero_In in Hx'.
          apply (in_map fst) in Hx'. exact Hx'. }
      assert (Heq : Z.of_nat (count_dc (dc_of h) (ns_replicas st)) = getz dcs (dc_of h)).
      { apply (sum_le_eq (map fst dcs) (fun k => Z.of_nat (count_dc k (ns_replicas st))) (getz dcs)); auto.
        intros k _. rewrite <- (mi_count st Hm). apply (mi_le st Hm). }
      rewrite <- (mi_count st Hm) in Heq. lia.
    - (* haveRF *)
      apply negb_false_iff in Hg. unfold have_rf in Hg. apply andb_true_iff in Hg. destruct Hg as [_ Hg].
      rewrite forallb_forall in Hg. apply getz_nonzero_In in Hrf. specialize (Hg _ Hrf). simpl in Hg. lia.
  Qed.

  Lemma step_noop st h st' :
    ~ active st h -> ((~ active st h /\ st' = st) \/ (active st h /\ step_kind st h st')) -> st' = st.
  Proof. intros Hn [[_ H]|[H _]]; [exact H|contradiction]. Qed.

  (* ---- the hosts already been through (seenHosts) --------------------------------------------------- *)
  (* what the state holds comes from distinct hosts that have been visited *)
  Record vinv (m : nts_state) (visited : list Z) : Prop := {
    vi_nodup : NoDup (ns_replicas m);
    vi_reps : incl (ns_replicas m) visited;
    vi_sk : forall dc, incl (getl (ns_skipped m) dc) visited;
    vi_sk_nodup : forall dc, NoDup (getl (ns_skipped m) dc);
    vi_sk_disj : forall dc x, In x (getl (ns_skipped m) dc) -> ~ In x (ns_replicas m) }.

  Lemma vinv_more m visited h : vinv m visited -> vinv m (h :: visited).
  Proof.
    intros [H1 H2 H3 H4 H5]. split; auto.
    - intros x Hx. right. apply H2. exact Hx.
    - intros dc x Hx. right. apply (H3 dc). exact Hx.
  Qed.

  Lemma firstn_skipn_disj {A} n (l : list A) x : NoDup l -> In x (firstn n l) -> In x (skipn n l) -> False.
  Proof.
    intros Hnd H1 H2. rewrite <- (firstn_skipn n l) in Hnd.
    revert Hnd H1 H2. generalize (firstn n l) (skipn n l). intros a b.
    induction a as [|y a IH]; simpl; intros Hnd H1 H2; [exact H1|].
    inversion Hnd as [|? ? Hy Hnd']; subst. destruct H1 as [->|H1].
    - apply Hy. apply in_or_app. right. exact H2.
    - apply IH; assumption.
  Qed.

  Lemma NoDup_app_intro {A} (a b : list A) :
    NoDup a -> NoDup b -> (forall x, In x a -> In x b -> False) -> NoDup (a ++ b).
  Proof.
    induction a as [|y a IH]; simpl; intros Ha Hb Hd; [exact Hb|].
    inversion Ha as [|? ? Hy Ha']; subst. constructor.
    - rewrite in_app_iff. intros [H|H]; [contradiction|]. apply (Hd y); [left; reflexivity|exact H].
    - apply IH; auto. intros x Hx1 Hx2. apply (Hd x); [right; exact Hx1|exact Hx2].
  Qed.

  (* an iteration for a host not seen before keeps it *)
  Lemma vinv_step m visited h m' :
    minv m -> vinv m visited -> ~ In h visited -> step_kind m h m' -> vinv m' (h :: visited).
  Proof.
    intros Hm [F1 F2 F3 F4 F5] Hnv Hk.
    assert (Hnin : ~ In h (ns_replicas m)) by (intros H; apply Hnv, F2; exact H).
    assert (Hnsk : forall dc, ~ In h (getl (ns_skipped m) dc)) by (intros dc H; apply Hnv, (F3 dc); exact H).
    destruct Hk as [Hs Hl|taken Hs Ht|Hs Hl].
    - split; cbn [ns_replicas ns_skipped]; auto.
      + apply NoDup_snoc; assumption.
      + intros x Hx. apply in_app_iff in Hx. destruct Hx as [Hx|[<-|[]]]; [right; apply F2; exact Hx|left; reflexivity].
      + intros dc x Hx. right. apply (F3 dc). exact Hx.
      + intros dc x Hx. rewrite in_app_iff. simpl. intros [H|[H|[]]]; [apply (F5 dc x Hx H)|]. subst x. apply (Hnsk dc Hx).
    - set (sk := getl (ns_skipped m) (dc_of h)) in *.
      set (E := (length (getl (ns_seen m) (dc_of h) ++ [rack_of h]) =? length (getl dc_racks (dc_of h)))%nat) in *.
      assert (Htk : incl taken sk) by (rewrite Ht; destruct E; [apply drain_incl|intros x []]).
      assert (Htk_first : taken = firstn (length taken) sk) by (rewrite Ht; destruct E; [apply drain_firstn|reflexivity]).
      assert (Hsk_new : forall dc' x,
                In x (getl (if E then aset (ns_skipped m) (dc_of h) (skipn (length taken) sk) else ns_skipped m) dc')
                -> In x (getl (ns_skipped m) dc') /\ (dc' = dc_of h -> ~ In x taken)).
      { intros dc' x. destruct E.
        - destruct (str_eq_dec dc' (dc_of h)) as [->|Hne].
          + rewrite getl_aset_same. intros Hx. split; [apply In_skipn in Hx; exact Hx|].
            intros _ Hx2. rewrite Htk_first in Hx2. apply (firstn_skipn_disj _ _ _ (F4 (dc_of h)) Hx2 Hx).
          + rewrite getl_aset_other by exact Hne. intros Hx. split; [exact Hx|congruence].
        - intros Hx. split; [exact Hx|]. intros _. rewrite Ht. intros []. }
      split; cbn [ns_replicas ns_skipped].
      + rewrite app_assoc. apply NoDup_app_intro.
        * apply NoDup_snoc; assumption.
        * rewrite Htk_first. apply NoDup_firstn. apply F4.
        * intros x Hx1 Hx2. apply Htk in Hx2. apply in_app_iff in Hx1. destruct Hx1 as [Hx1|[<-|[]]].
          -- apply (F5 (dc_of h) x Hx2 Hx1).
          -- apply (Hnsk (dc_of h) Hx2).
      + intros x Hx. rewrite !in_app_iff in Hx. destruct Hx as [Hx|[[<-|[]]|Hx]].
        * right. apply F2. exact Hx.
        * left. reflexivity.
        * right. apply (F3 (dc_of h)). apply Htk. exact Hx.
      + intros dc' x Hx. apply Hsk_new in Hx. right. apply (F3 dc'). tauto.
      + intros dc'. destruct E; [|apply F4].
        destruct (str_eq_dec dc' (dc_of h)) as [->|Hne].
        * rewrite getl_aset_same. apply NoDup_skipn. apply F4.
        * rewrite getl_aset_other by exact Hne. apply F4.
      + intros dc' x Hx. destruct (Hsk_new dc' x Hx) as [G1 G2].
        rewrite !in_app_iff. simpl. intros [H|[[H|[]]|H]].
        * apply (F5 dc' x G1 H).
        * subst x. apply (Hnsk dc' G1).
        * destruct (str_eq_dec dc' (dc_of h)) as [->|Hne]; [apply G2; auto|].
          apply Hne. rewrite <- (mi_skip_dc m Hm dc' x G1).
          apply (mi_skip_dc m Hm (dc_of h) x). apply Htk. exact H.
    - split; cbn [ns_replicas ns_skipped]; auto.
      + intros x Hx. right. apply F2. exact Hx.
      + intros dc. destruct (str_eq_dec dc (dc_of h)) as [->|Hne].
        * rewrite getl_aset_same. intros x Hx. apply in_app_iff in Hx.
          destruct Hx as [Hx|[<-|[]]]; [right; apply (F3 (dc_of h)); exact Hx|left; reflexivity].
        * rewrite getl_aset_other by exact Hne. intros x Hx. right. apply (F3 dc). exact Hx.
      + intros dc. destruct (str_eq_dec dc (dc_of h)) as [->|Hne].
        * rewrite getl_aset_same. apply NoDup_snoc; [apply F4|apply Hnsk].
        * rewrite getl_aset_other by exact Hne. apply F4.
      + intros dc x. destruct (str_eq_dec dc (dc_of h)) as [->|Hne].
        * rewrite getl_aset_same, in_app_iff. simpl. intros [H|[<-|[]]]; [apply (F5 (dc_of h) x H)|exact Hnin].
        * rewrite getl_aset_other by exact Hne. apply F5.
  Qed.

  (* the unguarded loop with seenHosts *)
  Fixpoint nts_run_v (walk : list Z) (visited : list Z) (st : nts_state) : res nts_state :=
    match walk with
    | [] => Ok st
    | h :: rest =>
        if zmem h visited then nts_run_v rest visited st
        else match nts_step info dcs dc_racks st h with
             | Ok st' => nts_run_v rest (h :: visited) st'
             | Crash c => Crash c
             end
    end.

  Lemma nts_run_v_ok walk : forall visited st, minv st -> vinv st visited ->
    exists st' visited', nts_run_v walk visited st = Ok st' /\ minv st' /\ vinv st' visited'
      /\ (forall x, In x visited' -> In x visited \/ In x walk)
      /\ exists suf, ns_replicas st' = ns_replicas st ++ suf.
  Proof.
    induction walk as [|h rest IH]; intros visited st Hm Hv; simpl.
    - exists st, visited. split; [reflexivity|]. split; [exact Hm|]. split; [exact Hv|]. split; [tauto|].
      exists []. rewrite app_nil_r. reflexivity.
    - destruct (zmem h visited) eqn:Ez.
      + destruct (IH visited st Hm Hv) as [st' [v' [H1 [H2 [H3 [H4 H5]]]]]].
        exists st', v'. split; [exact H1|]. split; [exact H2|]. split; [exact H3|]. split; [|exact H5].
        intros x Hx. destruct (H4 x Hx); tauto.
      + apply zmem_false in Ez.
        destruct (nts_step_ok st h Hm) as [st1 [H1 [H2 H3]]]. rewrite H1.
        assert (Hv1 : vinv st1 (h :: visited)).
        { destruct H3 as [[_ ->]|[_ Hk]]; [apply vinv_more; exact Hv|exact (vinv_step st visited h st1 Hm Hv Ez Hk)]. }
        destruct (IH (h :: visited) st1 H2 Hv1) as [st' [v' [K1 [K2 [K3 [K4 [suf K5]]]]]]].
        exists st', v'. split; [exact K1|]. split; [exact K2|]. split; [exact K3|]. split.
        * intros x Hx. destruct (K4 x Hx) as [[<-|H]|H]; tauto.
        * destruct H3 as [[_ ->]|[_ Hk]]; [exists suf; exact K5|].
          destruct (step_kind_extends _ _ _ Hk) as [suf1 H7]. exists (suf1 ++ suf). rewrite K5, H7, app_assoc. reflexivity.
  Qed.

  Lemma nts_loop_run walk : forall visited st, minv st ->
    nts_loop info dcs dc_racks walk visited st = nts_run_v walk visited st.
  Proof.
    induction walk as [|h rest IH]; intros visited st Hm; simpl; [reflexivity|].
    destruct (nts_guard dcs st) eqn:Eg.
    - destruct (zmem h visited); [apply IH; exact Hm|].
      destruct (nts_step_ok st h Hm) as [st1 [H1 [H2 H3]]]. rewrite H1. apply IH. exact H2.
    - (* nothing changes any more *)
      assert (Hstay : forall w v s, minv s -> nts_guard dcs s = false -> nts_run_v w v s = Ok s).
      { clear -dcs_keys. induction w as [|x w IHw]; intros v s Hs Hg; simpl; [reflexivity|].
        destruct (zmem x v); [apply IHw; assumption|].
        destruct (nts_step_ok s x Hs) as [s1 [K1 [_ K3]]]. rewrite K1.
        rewrite (step_noop s x s1 (guard_false_noop s x Hs Hg) K3). apply IHw; assumption. }
      symmetry. apply (Hstay (h :: rest) visited st Hm Eg).
  Qed.
End Inner.
