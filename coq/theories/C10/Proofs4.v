(* C10/Proofs4.v -- networkTopology.replicaMap as a whole: every entry is computed without a panic and
   starts with the token's owner; the closing size check panics exactly in one situation. *)
From GocqlV Require Import Lib.Base C10.Model C10.Spec C10.Proofs1 C10.Proofs2 C10.Proofs3.
From Coq Require Import Sorting.Permutation.
Open Scope Z_scope.

Lemma filter_len_le {A} (f : A -> bool) (l : list A) : (length (filter f l) <= length l)%nat.
Proof. induction l as [|x l IH]; simpl; [lia|]. destruct (f x); simpl; lia. Qed.

Lemma filter_length_all {A} (f : A -> bool) (l : list A) :
  length (filter f l) = length l <-> (forall x, In x l -> f x = true).
Proof.
  induction l as [|x l IH]; simpl; [tauto|].
  pose proof (filter_len_le f l) as Hle.
  destruct (f x) eqn:E; simpl.
  - split.
    + intros H y [<-|Hy]; [exact E|]. apply IH; [lia|exact Hy].
    + intros H. f_equal. apply IH. intros y Hy. apply H. right. exact Hy.
  - split; [lia|]. intros H. specialize (H x (or_introl eq_refl)). congruence.
Qed.

Lemma NoDup_map_filter {A B} (g : A -> B) (f : A -> bool) (l : list A) : NoDup (map g l) -> NoDup (map g (filter f l)).
Proof.
  induction l as [|x l IH]; simpl; intros H; [constructor|].
  inversion H as [|? ? Hx Hnd]; subst. destruct (f x); simpl; [|apply IH; exact Hnd].
  constructor; [|apply IH; exact Hnd]. intros Hin. apply Hx.
  apply in_map_iff in Hin. destruct Hin as [y [Hy1 Hy2]]. apply filter_In in Hy2.
  apply in_map_iff. exists y. tauto.
Qed.

Lemma indexed_from_In {A} (l : list A) : forall k i x, In (i, x) (indexed_from k l) -> nth_error l (i - k) = Some x /\ (k <= i)%nat.
Proof.
  induction l as [|y l IH]; intros k i x H; simpl in H; [destruct H|].
  destruct H as [H|H].
  - inversion H; subst. rewrite Nat.sub_diag. split; [reflexivity|lia].
  - destruct (IH _ _ _ H) as [H1 H2]. split; [|lia].
    replace (i - k)%nat with (S (i - S k)) by lia. exact H1.
Qed.

Lemma indexed_In {A} (l : list A) i x : In (i, x) (indexed l) -> nth_error l i = Some x.
Proof. intros H. apply indexed_from_In in H. rewrite Nat.sub_0_r in H. tauto. Qed.

Lemma filter_indexed_snd {A} (f : A -> bool) (l : list A) : forall k,
  map snd (filter (fun e => f (snd e)) (indexed_from k l)) = filter f l.
Proof.
  induction l as [|x l IH]; intros k; simpl; [reflexivity|].
  destruct (f x); simpl; rewrite IH; reflexivity.
Qed.

Section Outer.
  Context {T : Type}.
  Variable info : Z -> hinfo.
  Variable dcs : amap Z.
  Variable hosts : list Z.
  Notation dc_of := (dc_of info).
  Notation rack_of := (rack_of info).
  Notation dcr := (mk_dc_racks info hosts).
  Hypothesis dcs_nonneg : Forall (fun e => 0 <= snd e) dcs.
  Hypothesis dcs_keys : NoDup (map fst dcs).

  Lemma getz_zero_aset (m : amap Z) k : (forall k', getz m k' = 0) -> forall k', getz (aset m k 0) k' = 0.
  Proof.
    intros H k'. destruct (str_eq_dec k' k) as [->|Hne]; [apply getz_aset_same|].
    rewrite getz_aset_other by exact Hne. apply H.
  Qed.

  Lemma counts0_zero (dr : amap (list str)) dc : getz (counts0 dcs dr) dc = 0.
  Proof.
    unfold counts0.
    assert (Hbase : forall k', getz (map (fun e : str * list str => (fst e, 0)) dr) k' = 0).
    { intros k'. unfold getz. induction dr as [|[k v] m IH]; simpl; [reflexivity|].
      destruct (zlist_eqb k k'); [reflexivity|exact IH]. }
    revert Hbase. generalize (map (fun e : str * list str => (fst e, 0)) dr).
    clear dcs_nonneg dcs_keys. induction dcs as [|e m IH]; intros base Hbase; simpl; [apply Hbase|].
    apply IH. apply getz_zero_aset. exact Hbase.
  Qed.

  Lemma minv_state0 dr : minv info dcs dr (nts_state0 dcs dr).
  Proof.
    split; simpl.
    - intros dc. apply counts0_zero.
    - intros dc. rewrite counts0_zero. apply rf_nonneg. exact dcs_nonneg.
    - intros h [].
    - intros dc h. unfold getl. simpl. intros [].
    - intros dc. unfold getl. simpl. constructor.
    - intros dc x. unfold getl at 1. simpl. intros [].
  Qed.

  (* the first iteration for a token takes the token's own host *)
  Lemma first_step th :
    In th hosts -> getz dcs (dc_of th) <> 0 ->
    exists st1, nts_step info dcs dcr (nts_state0 dcs dcr) th = Ok st1 /\ ns_replicas st1 = [th].
  Proof.
    intros Hin Hrf. unfold nts_step. cbn [nts_state0 ns_count ns_seen ns_skipped ns_replicas].
    rewrite (proj2 (Z.eqb_neq _ _) Hrf). rewrite counts0_zero.
    pose proof (rf_nonneg dcs dcs_nonneg (dc_of th)) as Hnn.
    assert (E1 : (0 >=? getz dcs (dc_of th)) = false) by lia. rewrite E1.
    assert (E2 : smem (rack_of th) (getl dcr (dc_of th)) = true).
    { apply smem_In. apply (ri_in info _ _ (mk_dc_racks_inv info hosts)). exists th. tauto. }
    rewrite E2. cbn [negb].
    assert (Hg : forall A dc, @getl A [] dc = []) by reflexivity. rewrite !Hg.
    cbn [smem existsb andb negb app drain length skipn].
    destruct (1 =? length (getl dcr (dc_of th)))%nat; eexists; (split; [reflexivity|]); reflexivity.
  Qed.

  Definition reps_of (ring_hosts : list Z) (i : nat) (th : Z) : list Z :=
    match nts_token info dcs dcr ring_hosts i th with Ok r => r | Crash _ => [] end.

  Lemma vinv_state0 dr : vinv (nts_state0 dcs dr) [].
  Proof.
    assert (Hg : forall dc, @getl Z [] dc = []) by reflexivity.
    split; cbn [nts_state0 ns_replicas ns_skipped].
    - constructor.
    - intros x [].
    - intros dc x. rewrite Hg. intros [].
    - intros dc. rewrite Hg. constructor.
    - intros dc x. rewrite Hg. intros [].
  Qed.

  (* an entry is computed without a panic, starts with the owner, has no host twice, only ring hosts, at most
     the factor per DC, and is the unguarded run of the loop *)
  Lemma nts_token_ok ring_hosts i th :
    nth_error ring_hosts i = Some th -> In th hosts -> getz dcs (dc_of th) <> 0 ->
    exists st suf, nts_run_v info dcs dcr (rotate i ring_hosts) [] (nts_state0 dcs dcr) = Ok st
      /\ minv info dcs dcr st
      /\ ns_replicas st = th :: suf
      /\ nts_token info dcs dcr ring_hosts i th = Ok (th :: suf)
      /\ NoDup (th :: suf) /\ incl (th :: suf) ring_hosts
      /\ forall dc, Z.of_nat (count_dc info dc (th :: suf)) <= getz dcs dc.
  Proof.
    intros Hn Hin Hrf. destruct (rotate_hd i ring_hosts th Hn) as [rest Hrot].
    pose proof (minv_state0 dcr) as Hm0. pose proof (vinv_state0 dcr) as Hv0.
    unfold nts_token. rewrite (nts_loop_run info dcs dcr dcs_keys _ _ _ Hm0).
    destruct (nts_run_v_ok info dcs dcr (rotate i ring_hosts) [] _ Hm0 Hv0) as [st [v' [R1 [R2 [R3 [R4 [suf0 R5]]]]]]].
    (* the first iteration takes th *)
    assert (Hhead : exists suf, ns_replicas st = th :: suf).
    { rewrite Hrot in R1. simpl in R1.
      destruct (first_step th Hin Hrf) as [st1 [H1 H2]]. rewrite H1 in R1.
      destruct (nts_step_ok info dcs dcr _ th Hm0) as [st1' [K1 [K2 K3]]].
      rewrite H1 in K1. inversion K1; subst st1'.
      assert (Hv1 : vinv st1 [th]).
      { destruct K3 as [[_ ->]|[_ Hk]]; [apply vinv_more; exact Hv0|].
        apply (vinv_step info dcs dcr _ [] th st1 Hm0 Hv0); [intros []|exact Hk]. }
      destruct (nts_run_v_ok info dcs dcr rest [th] st1 K2 Hv1) as [st' [v'' [S1 [_ [_ [_ [suf S5]]]]]]].
      rewrite S1 in R1. inversion R1; subst st'. exists suf. rewrite S5, H2. reflexivity. }
    destruct Hhead as [suf Hsuf]. rewrite R1. exists st, suf.
    split; [reflexivity|]. split; [exact R2|]. split; [exact Hsuf|]. rewrite Hsuf.
    split; [unfold host_equal; rewrite Z.eqb_refl; reflexivity|].
    rewrite <- Hsuf. split; [apply (vi_nodup _ _ R3)|]. split.
    - intros x Hx. apply (vi_reps _ _ R3) in Hx. destruct (R4 x Hx) as [[]|Hx']. apply rotate_In in Hx'. exact Hx'.
    - intros dc. rewrite <- (mi_count info dcs dcr st R2). apply (mi_le info dcs dcr st R2).
  Qed.

  Definition good (e : T * Z) : bool := negb (getz dcs (dc_of (snd e)) =? 0).

  Lemma nts_outer_ok ring_hosts : forall (l : list (nat * (T * Z))) acc,
    (forall i tok th, In (i, (tok, th)) l -> nth_error ring_hosts i = Some th /\ In th hosts) ->
    nts_outer info dcs dcr ring_hosts l acc
    = Ok (acc ++ map (fun e => (fst (snd e), reps_of ring_hosts (fst e) (snd (snd e))))
                     (filter (fun e => good (snd e)) l)).
  Proof.
    induction l as [|[i [tok th]] l IH]; intros acc Hl; simpl.
    - rewrite app_nil_r. reflexivity.
    - unfold good at 1. simpl.
      destruct (getz dcs (dc_of th) =? 0) eqn:E; simpl.
      + apply IH. intros i' tok' th' H. apply (Hl i' tok' th'). right. exact H.
      + destruct (Hl i tok th (or_introl eq_refl)) as [Hn Hin].
        apply Z.eqb_neq in E.
        destruct (nts_token_ok ring_hosts i th Hn Hin E) as [st [suf [_ [_ [_ [Htok _]]]]]].
        unfold reps_of at 1. rewrite Htok.
        rewrite IH by (intros i' tok' th' H; apply (Hl i' tok' th'); right; exact H).
        rewrite <- app_assoc. reflexivity.
  Qed.

  Definition nts_entries (r : @ring T) : @rmap T :=
    map (fun e => (fst (snd e), reps_of (map snd r) (fst e) (snd (snd e))))
        (filter (fun e => good (snd e)) (indexed r)).

  Lemma nts_entries_length r : length (nts_entries r) = length (filter good r).
  Proof.
    unfold nts_entries, indexed. rewrite map_length.
    rewrite <- (filter_indexed_snd good r 0), map_length. reflexivity.
  Qed.

  Lemma nts_entries_fst r : map fst (nts_entries r) = map fst (filter good r).
  Proof.
    unfold nts_entries, indexed. rewrite <- (filter_indexed_snd good r 0), !map_map. reflexivity.
  Qed.

  (* the closing size check can no longer fail: when every DC of the ring holds replicas no token is left out *)
  Lemma size_check_passes (r : @ring T) :
    (forall e, In e r -> In (snd e) hosts) ->
    (dcs_with_replicas dcs dcr =? length dcr)%nat && negb (length (filter good r) =? length r)%nat = false.
  Proof.
    intros Hr. destruct (dcs_with_replicas dcs dcr =? length dcr)%nat eqn:E1; [|reflexivity]. simpl.
    apply Nat.eqb_eq in E1. apply negb_false_iff, Nat.eqb_eq. apply filter_length_all. intros e He.
    pose proof (mk_dc_racks_inv info hosts) as Hri.
    set (f := fun e : list Z * Z => match aget dcr (fst e) with Some _ => snd e >? 0 | None => false end) in *.
    set (P := map fst (filter f dcs)). set (R := map fst dcr).
    assert (HP : NoDup P) by (apply NoDup_map_filter; exact dcs_keys).
    assert (Hlen : length P = length R) by (unfold P, R; rewrite !map_length; exact E1).
    assert (HPR : incl P R).
    { intros dc Hdc. unfold P in Hdc. apply in_map_iff in Hdc. destruct Hdc as [[k v] [<- Hf]].
      apply filter_In in Hf. destruct Hf as [_ Hf]. unfold f in Hf. simpl in Hf. simpl.
      destruct (aget dcr k) eqn:Ea; [|discriminate]. eapply aget_Some_in. exact Ea. }
    assert (HRP : incl R P) by (apply NoDup_length_incl; [exact HP|lia|exact HPR]).
    assert (HeR : In (dc_of (snd e)) R).
    { apply (ri_key info _ _ Hri). exists (snd e). split; [apply Hr; exact He|reflexivity]. }
    apply HRP in HeR. unfold P in HeR. apply in_map_iff in HeR. destruct HeR as [[k v] [Hk Hf]].
    apply filter_In in Hf. destruct Hf as [Hin Hf]. unfold f in Hf. simpl in Hf, Hk. subst k.
    destruct (aget dcr (dc_of (snd e))); [|discriminate].
    unfold good. rewrite (getz_In dcs dcs_keys _ v Hin). apply negb_true_iff, Z.eqb_neq. lia.
  Qed.

  (* the whole function never panics: entries for the tokens of DCs with a factor *)
  Lemma nts_replica_map_eq (r : @ring T) :
    (forall e, In e r -> In (snd e) hosts) ->
    nts_replica_map info dcs hosts r = Ok (nts_entries r).
  Proof.
    intros Hr. unfold nts_replica_map.
    rewrite nts_outer_ok.
    2:{ intros i tok th H. apply indexed_In in H. split.
        - rewrite nth_error_map, H. reflexivity.
        - apply (Hr (tok, th)). eapply nth_error_In. exact H. }
    simpl. fold (nts_entries r). rewrite nts_entries_length, (size_check_passes r Hr). reflexivity.
  Qed.

  (* every entry: no host twice, only ring hosts, at most the factor per DC, the token's owner first *)
  Lemma nts_entries_general (r : @ring T) e :
    (forall x, In x r -> In (snd x) hosts) -> In e (nts_entries r) ->
    NoDup (snd e) /\ incl (snd e) (map snd r)
    /\ (forall dc, Z.of_nat (count_dc info dc (snd e)) <= getz dcs dc)
    /\ exists h, In (fst e, h) r /\ hd_error (snd e) = Some h.
  Proof.
    intros Hr He. unfold nts_entries in He. apply in_map_iff in He. destruct He as [[i [tok th]] [<- Hx]].
    apply filter_In in Hx. destruct Hx as [Hx Hg]. simpl in Hg. simpl.
    apply indexed_In in Hx.
    assert (Hn : nth_error (map snd r) i = Some th) by (rewrite nth_error_map, Hx; reflexivity).
    assert (Hrf : getz dcs (dc_of th) <> 0) by (unfold good in Hg; simpl in Hg; apply negb_true_iff, Z.eqb_neq in Hg; exact Hg).
    assert (Hin : In th hosts) by (apply (Hr (tok, th)); eapply nth_error_In; exact Hx).
    destruct (nts_token_ok (map snd r) i th Hn Hin Hrf) as [st [suf [_ [_ [_ [Htok [K1 [K2 K3]]]]]]]].
    unfold reps_of. rewrite Htok. split; [exact K1|]. split; [exact K2|]. split; [exact K3|].
    exists th. split; [eapply nth_error_In; exact Hx|reflexivity].
  Qed.
End Outer.
