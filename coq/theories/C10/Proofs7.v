(* C10/Proofs7.v -- partitioner.ParseString against the decimal / byte-string reading of tokens; uniqueness of
   the sorted ring when no token is owned twice. *)
From GocqlV Require Import Lib.Base C10.Model C10.Spec C10.Proofs1.
From Coq Require Import Sorting.Permutation Sorting.Sorted.
Open Scope Z_scope.

Definition dstep (acc c : Z) : Z := acc * 10 + (c - 48).

Lemma is_digit_spec c : is_digit c = true <-> is_dec_digit c.
Proof. unfold is_digit, is_dec_digit. lia. Qed.

Lemma fold_dstep_ge ds : forall n, 0 <= n -> Forall is_dec_digit ds -> n <= fold_left dstep ds n.
Proof.
  induction ds as [|c ds IH]; intros n Hn Hd; cbn [fold_left]; [lia|].
  apply Forall_cons_iff in Hd. destruct Hd as [Hc Hd]. unfold is_dec_digit in Hc.
  assert (H : 0 <= dstep n c) by (unfold dstep; lia).
  specialize (IH (dstep n c) H Hd). unfold dstep in *. lia.
Qed.

Lemma dec_value_nonneg ds : Forall is_dec_digit ds -> 0 <= dec_value ds.
Proof. intros Hd. apply (fold_dstep_ge ds 0); [lia|exact Hd]. Qed.

(* strconv.ParseUint's loop on digits: the value, or maxUint64 + range error as soon as it does not fit *)
Lemma parse_uint_loop_digits ds : forall n, 0 <= n <= max_u64 -> Forall is_dec_digit ds ->
  parse_uint_loop ds n = if fold_left dstep ds n <=? max_u64 then (fold_left dstep ds n, PEok) else (max_u64, PErange).
Proof.
  unfold max_u64. change (2 ^ 64 - 1) with 18446744073709551615.
  induction ds as [|c ds IH]; intros n Hn Hd; cbn [parse_uint_loop fold_left].
  - destruct (Z.leb_spec n 18446744073709551615); [reflexivity|lia].
  - apply Forall_cons_iff in Hd. destruct Hd as [Hc Hd].
    assert (Hdc : is_digit c = true) by (apply is_digit_spec, Hc). rewrite Hdc.
    unfold is_dec_digit in Hc.
    assert (Hn1 : 0 <= dstep n c) by (unfold dstep; lia).
    pose proof (fold_dstep_ge ds _ Hn1 Hd) as Hge.
    unfold cutoff_u64, max_u64. change (2 ^ 64 - 1) with 18446744073709551615.
    change (18446744073709551615 / 10 + 1) with 1844674407370955162.
    change (n * 10 + (c - 48)) with (dstep n c).
    destruct (n >=? 1844674407370955162) eqn:E1.
    + assert (dstep n c > 18446744073709551615) by (unfold dstep; lia).
      destruct (Z.leb_spec (fold_left dstep ds (dstep n c)) 18446744073709551615); [lia|reflexivity].
    + destruct (dstep n c >? 18446744073709551615) eqn:E2.
      * destruct (Z.leb_spec (fold_left dstep ds (dstep n c)) 18446744073709551615); [lia|reflexivity].
      * apply IH; [lia|exact Hd].
Qed.

Lemma parse_uint_digits ds : ds <> [] -> Forall is_dec_digit ds ->
  parse_uint ds = if dec_value ds <=? max_u64 then (dec_value ds, PEok) else (max_u64, PErange).
Proof.
  intros Hne Hd. destruct ds as [|c ds]; [congruence|]. unfold parse_uint.
  apply (parse_uint_loop_digits (c :: ds) 0); [unfold max_u64; lia|exact Hd].
Qed.

Lemma first_digit_not_sign c ds : Forall is_dec_digit (c :: ds) -> (c =? 43) = false /\ (c =? 45) = false.
Proof. intros Hd. apply Forall_cons_iff in Hd. destruct Hd as [Hc _]. unfold is_dec_digit in Hc. lia. Qed.

(* murmur3Partitioner.ParseString on every decimal numeral, with or without sign, leading zeros allowed, of any
   length: the long it denotes, or the nearest long when it does not fit *)
Lemma parse_murmur_decimal ds : ds <> [] -> Forall is_dec_digit ds ->
  parse_murmur_token ds = clamp64 (dec_value ds)
  /\ parse_murmur_token (43 :: ds) = clamp64 (dec_value ds)
  /\ parse_murmur_token (45 :: ds) = clamp64 (- dec_value ds).
Proof.
  intros Hne Hd. pose proof (dec_value_nonneg ds Hd) as H0.
  pose proof (parse_uint_digits ds Hne Hd) as Hpu.
  unfold clamp64, parse_murmur_token. unfold max_u64 in Hpu.
  change (2 ^ 64 - 1) with 18446744073709551615 in Hpu. change (2 ^ 63) with 9223372036854775808.
  assert (Hcases : forall neg, 
     (let un_e := parse_uint ds in
      fst (match un_e with
           | (_, PEsyntax) => (0, PEsyntax)
           | (un, e) =>
             if negb neg && (un >=? 9223372036854775808) then (9223372036854775808 - 1, PErange)
             else if neg && (un >? 9223372036854775808) then (- 9223372036854775808, PErange)
             else match e with PEok => ((if neg then - un else un), PEok) | _ => ((if neg then - un else un), e) end
           end))
     = Z.max (- 9223372036854775808) (Z.min (9223372036854775808 - 1) (if neg then - dec_value ds else dec_value ds))).
  { intros neg. cbv zeta. rewrite Hpu.
    destruct (Z.leb_spec (dec_value ds) 18446744073709551615) as [Hle|Hgt].
    - destruct neg; cbn [negb andb].
      + destruct (Z.gtb_spec (dec_value ds) 9223372036854775808); cbn [fst]; lia.
      + destruct (Z.geb_spec (dec_value ds) 9223372036854775808); cbn [fst]; lia.
    - change (18446744073709551615 >=? 9223372036854775808) with true.
      change (18446744073709551615 >? 9223372036854775808) with true.
      destruct neg; cbn [negb andb fst]; lia. }
  split; [|split].
  - destruct ds as [|c ds']; [congruence|]. destruct (first_digit_not_sign c ds' Hd) as [E1 E2].
    unfold parse_int. rewrite E1, E2. cbn [orb]. change (2 ^ 63) with 9223372036854775808. exact (Hcases false).
  - unfold parse_int. change (43 =? 45) with false. change (43 =? 43) with true. cbn [orb].
    change (2 ^ 63) with 9223372036854775808. exact (Hcases false).
  - unfold parse_int. change (45 =? 45) with true. change (45 =? 43) with false. cbn [orb].
    change (2 ^ 63) with 9223372036854775808. exact (Hcases true).
Qed.

(* ... and anything that is not such a numeral reads as token 0 unless it starts with an overflowing numeral *)
Lemma parse_uint_loop_bad ds c rest : forall n, 0 <= n <= max_u64 -> Forall is_dec_digit ds -> ~ is_dec_digit c ->
  fold_left dstep ds n <= max_u64 -> parse_uint_loop (ds ++ c :: rest) n = (0, PEsyntax).
Proof.
  unfold max_u64. change (2 ^ 64 - 1) with 18446744073709551615.
  induction ds as [|d ds IH]; intros n Hn Hd Hc Hfit; cbn [app parse_uint_loop fold_left] in *.
  - destruct (is_digit c) eqn:E; [apply is_digit_spec in E; contradiction|reflexivity].
  - apply Forall_cons_iff in Hd. destruct Hd as [Hd0 Hd].
    assert (Hdc : is_digit d = true) by (apply is_digit_spec, Hd0). rewrite Hdc. unfold is_dec_digit in Hd0.
    assert (Hn1 : 0 <= dstep n d) by (unfold dstep; lia).
    pose proof (fold_dstep_ge ds _ Hn1 Hd) as Hge.
    unfold cutoff_u64, max_u64. change (2 ^ 64 - 1) with 18446744073709551615.
    change (18446744073709551615 / 10 + 1) with 1844674407370955162.
    change (n * 10 + (d - 48)) with (dstep n d).
    destruct (n >=? 1844674407370955162) eqn:E1; [unfold dstep in *; lia|].
    destruct (dstep n d >? 18446744073709551615) eqn:E2; [lia|].
    apply IH; [lia|exact Hd|exact Hc|exact Hfit].
Qed.

(* randomPartitioner.ParseString *)
Lemma digits_val_digits ds : forall n, Forall is_dec_digit ds -> digits_val ds n = Some (fold_left dstep ds n).
Proof.
  induction ds as [|c ds IH]; intros n Hd; cbn [digits_val fold_left]; [reflexivity|].
  apply Forall_cons_iff in Hd. destruct Hd as [Hc Hd].
  assert (Hdc : is_digit c = true) by (apply is_digit_spec, Hc). rewrite Hdc. apply IH. exact Hd.
Qed.

Lemma digits_val_some ds : forall n v, digits_val ds n = Some v -> Forall is_dec_digit ds.
Proof.
  induction ds as [|c ds IH]; intros n v H; [constructor|]. cbn [digits_val] in H.
  destruct (is_digit c) eqn:E; [|discriminate]. constructor; [apply is_digit_spec; exact E|eapply IH; exact H].
Qed.

Lemma parse_random_decimal ds : ds <> [] -> Forall is_dec_digit ds ->
  parse_random_token ds = Some (dec_value ds)
  /\ parse_random_token (43 :: ds) = Some (dec_value ds)
  /\ parse_random_token (45 :: ds) = Some (- dec_value ds).
Proof.
  intros Hne Hd. destruct ds as [|c ds']; [congruence|].
  destruct (first_digit_not_sign c ds' Hd) as [E1 E2]. split; [|split].
  - unfold parse_random_token. rewrite E1, E2. apply (digits_val_digits (c :: ds') 0 Hd).
  - unfold parse_random_token. change (43 =? 45) with false. change (43 =? 43) with true. cbv iota beta.
    apply (digits_val_digits (c :: ds') 0 Hd).
  - unfold parse_random_token. change (45 =? 45) with true. cbv iota beta.
    rewrite (digits_val_digits (c :: ds') 0 Hd). reflexivity.
Qed.

(* it accepts nothing else *)
Lemma parse_random_only_decimal s v : parse_random_token s = Some v ->
  exists ds, ds <> [] /\ Forall is_dec_digit ds /\ (s = ds \/ s = 43 :: ds \/ s = 45 :: ds).
Proof.
  unfold parse_random_token. destruct s as [|c r]; [discriminate|].
  destruct (c =? 45) eqn:E1.
  - apply Z.eqb_eq in E1. subst c. destruct r as [|d r']; [discriminate|]. intros H.
    destruct (digits_val (d :: r') 0) as [w|] eqn:Ed; [|discriminate].
    exists (d :: r'). split; [discriminate|]. split; [eapply digits_val_some; exact Ed|tauto].
  - destruct (c =? 43) eqn:E2.
    + apply Z.eqb_eq in E2. subst c. destruct r as [|d r']; [discriminate|]. intros H.
      exists (d :: r'). split; [discriminate|]. split; [eapply digits_val_some; exact H|tauto].
    + intros H. exists (c :: r). split; [discriminate|]. split; [eapply digits_val_some; exact H|tauto].
Qed.

(* orderedToken.Less is the unsigned lexicographic order *)
Lemma str_ltb_bytes_lt a : forall b, str_ltb a b = true <-> bytes_lt a b.
Proof.
  unfold bytes_lt. induction a as [|x a IH]; intros [|y b]; cbn [str_ltb].
  - split; [discriminate|]. intros [(y & t & H)|(p & x & y & s & t & H & _)]; [discriminate|destruct p; discriminate].
  - split; [intros _; left; exists y, b; reflexivity|reflexivity].
  - split; [discriminate|]. intros [(y & t & H)|(p & x' & y & s & t & _ & H & _)]; [discriminate|destruct p; discriminate].
  - destruct (x <? y) eqn:E1.
    + split; [|reflexivity]. intros _. right. exists [], x, y, a, b. repeat split; lia.
    + destruct (y <? x) eqn:E2.
      * split; [discriminate|]. intros [(y' & t & H)|(p & x' & y' & s & t & Ha & Hb & Hlt)].
        -- inversion H. lia.
        -- destruct p; inversion Ha; inversion Hb; subst; lia.
      * assert (x = y) by lia. subst y. rewrite IH. split.
        -- intros [(y' & t & ->)|(p & x' & y' & s & t & -> & -> & Hlt)].
           ++ left. exists y', t. reflexivity.
           ++ right. exists (x :: p), x', y', s, t. auto.
        -- intros [(y' & t & H)|(p & x' & y' & s & t & Ha & Hb & Hlt)].
           ++ inversion H. left. exists y', t. reflexivity.
           ++ destruct p as [|h p]; inversion Ha; inversion Hb; subst; [lia|].
              right. exists p, x', y', s, t. auto.
Qed.

(* ---- a ring in which no token is owned twice has exactly one sorted arrangement -------------------- *)
Section Unique.
  Context {T : Type} (ltb : T -> T -> bool) (O : strict_total ltb).

  Lemma sorted_perm_unique (l1 : list (T * Z)) : forall l2,
    sorted_toks ltb l1 -> sorted_toks ltb l2 -> Permutation l1 l2 -> NoDup (map fst l1) -> l1 = l2.
  Proof.
    induction l1 as [|a l1 IH]; intros l2 H1 H2 Hp Hnd.
    - apply Permutation_nil in Hp. subst. reflexivity.
    - destruct l2 as [|b l2]; [apply Permutation_sym, Permutation_nil in Hp; discriminate|].
      inversion H1 as [|? ? Hs1 Hf1]; subst. inversion H2 as [|? ? Hs2 Hf2]; subst.
      simpl in Hnd. inversion Hnd as [|? ? Hna Hnd']; subst.
      rewrite Forall_forall in Hf1, Hf2.
      assert (Hab : a = b).
      { assert (Hb : In b (a :: l1)) by (eapply Permutation_in; [apply Permutation_sym; exact Hp|left; reflexivity]).
        assert (Ha : In a (b :: l2)) by (eapply Permutation_in; [exact Hp|left; reflexivity]).
        destruct Hb as [Hb|Hb]; [exact Hb|]. destruct Ha as [Ha|Ha]; [symmetry; exact Ha|].
        (* a <= b (b later in l1) and b <= a (a later in l2): same token, but tokens are distinct *)
        exfalso. apply Hna.
        assert (Hfst : fst a = fst b) by (apply (st_total ltb O); [apply Hf2; exact Ha|apply Hf1; exact Hb]).
        rewrite Hfst. apply in_map. exact Hb. }
      subst b. f_equal. apply IH; auto. eapply Permutation_cons_inv. exact Hp.
  Qed.
End Unique.
