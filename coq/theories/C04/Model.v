(* C04/Model.v -- executable model of the response parsers of /repo/frame.go (readHeader, readFrame's
   length checks, parseFrame and everything it calls, the primitive readers) and of row scanning
   (session.go Iter.Scan / scanColumn, marshal.go unmarshalTuple's []interface{} branch, helpers.go
   RowData column naming).  Shared by C04 (decoding is exact) and C05 (no crash).

   Definitions only; proofs live in Proofs*.v.

   Outcomes.  A parser returns [Ok], [Err e] or [Crash c]:
     Err   = an error the Go code returns, or a panic(error) raised below parseFrame that parseFrame's
             recover converts into a returned error;
     Crash = what reaches the caller / the goroutine top as a panic: a Go run-time error (slice bounds,
             index, makeslice) -- parseFrame re-panics those -- or an explicit panic outside
             parseFrame's recover.  The crash code names the site.
   Every Go slice / make in a modelled function goes through [take] / [make_n], which crash exactly
   when Go would.  Parsers also report the bytes they asked the allocator for (second component),
   with nominal 64-bit element sizes; control flow never depends on it. *)
From Coq Require Import String Ascii.
From GocqlV Require Import Lib.Base Gen.Consts.

Definition s2b (s : string) : bytes := map (fun a => Z.of_N (N_of_ascii a)) (list_ascii_of_string s).

(* ---- outcomes ---------------------------------------------------------------------------- *)
Inductive errc :=
| EShort        (* "not enough bytes in buffer to read ..." (every primitive reader) *)
| EInetSize     (* "invalid IP size" *)
| ENegCols      (* "received negative column count" *)
| ENegPk        (* "received negative partition key count" *)
| ENegRows      (* "invalid row_count in result frame" *)
| EUnkErrCode   (* "unknown error code" *)
| EUnkResKind   (* "unknown result kind" *)
| EUnkOp        (* "unknown op in frame header" *)
| EUnkEvent     (* "unknown event type" *)
| EUnkTarget    (* "unknown SCHEMA_CHANGE target" *)
| ERequest      (* "got a request frame from server" *)
| EVersion      (* readHeader: "unsupported protocol response version" *)
| EEof          (* io.EOF *)
| EUnexpEof     (* io.ErrUnexpectedEOF *)
| ENegLen       (* readFrame: "frame body length can not be less than 0" *)
| ETooBig       (* ErrFrameTooBig *)
| EDiscard      (* readFrame: "error whilst trying to discard frame with invalid length" *)
| EBody         (* readFrame: "unable to read frame body" *)
| ENoCompressor (* readFrame: "no compressor available with compressed frame body" *)
| EScanCount    (* Iter.Scan: "not enough columns to scan into" *)
| EUnmarshal    (* marshal.go: any UnmarshalError *)
| EGoType       (* helpers.go goType: "cannot create Go type for unknown CQL type" *)
| EFuel         (* model only: recursion fuel exhausted; proved unreachable *)
| EOther.       (* harness only: an error message of no known class; the model never returns it *)

Inductive crashc :=
| CGuarded      (* a slice that a preceding length check protects; proved unreachable *)
| CScannerIdx   (* session.go iterScanner.Scan: is.cols[c] -- Next read exactly one cell per column; proved unreachable *)
| CTypeAssert.  (* helpers.go goType: t.(CollectionType) on a type that is not one; unreachable for types built by readTypeInfo *)

Inductive res (A : Type) :=
| Ok (a : A)
| Err (e : errc)
| Crash (c : crashc).
Arguments Ok {A} a.
Arguments Err {A} e.
Arguments Crash {A} c.

(* a parser over the framer's buffer f.buf: outcome (value, rest of buffer) and bytes allocated *)
Definition P (A : Type) := bytes -> res (A * bytes) * Z.

Definition ret {A} (a : A) : P A := fun b => (Ok (a, b), 0).
Definition fail {A} (e : errc) : P A := fun _ => (Err e, 0).
Definition crash {A} (c : crashc) : P A := fun _ => (Crash c, 0).
Definition bind {A B} (p : P A) (f : A -> P B) : P B := fun b =>
  match p b with
  | (Ok (a, b'), c) => let (r, c') := f a b' in (r, c + c')
  | (Err e, c) => (Err e, c)
  | (Crash k, c) => (Crash k, c)
  end.
Notation "x <- p ;; q" := (bind p (fun x => q)) (at level 61, p at next level, right associativity).
Notation "p ;;; q" := (bind p (fun _ => q)) (at level 61, right associativity).

Definition out {A} (p : P A) (b : bytes) : res (A * bytes) := fst (p b).
Definition cost {A} (p : P A) (b : bytes) : Z := snd (p b).

Definition blen (b : bytes) : Z := Z.of_nat (length b).
Definition alloc (n : Z) : P unit := fun b => (Ok (tt, b), n).
Definition get_len : P Z := fun b => (Ok (blen b, b), 0).

(* x := f.buf[:n]; f.buf = f.buf[n:]  -- Go panics (slice bounds out of range) when n > len(f.buf) *)
Definition take (site : crashc) (n : Z) : P bytes := fun b =>
  if (n <? 0) || (blen b <? n) then (Crash site, 0)
  else (Ok (firstn (Z.to_nat n) b, skipn (Z.to_nat n) b), 0).

(* if len(f.buf) < n { panic(fmt.Errorf("not enough bytes ...")) } *)
Definition need (n : Z) : P unit := fun b => if blen b <? n then (Err EShort, 0) else (Ok (tt, b), 0).

(* big-endian value of a byte string: b0<<8(k-1) | ... | b(k-1), which for bytes is the sum *)
Definition be_dec (bs : bytes) : Z := fold_left (fun a x => a * 256 + x) bs 0.

(* ---- primitive readers (frame.go:1771-1937) ------------------------------------------------ *)
Definition read_byte : P Z := need 1 ;;; bs <- take CGuarded 1 ;; ret (be_dec bs).
Definition read_short : P Z := need 2 ;;; bs <- take CGuarded 2 ;; ret (be_dec bs).
(* int(int32(b0)<<24 | int32(b1)<<16 | int32(b2)<<8 | int32(b3)) *)
Definition read_int : P Z := need 4 ;;; bs <- take CGuarded 4 ;; ret (signed 32 (be_dec bs)).

Definition read_string : P bytes :=
  size <- read_short ;; need size ;;; s <- take CGuarded size ;; alloc size ;;; ret s.

(* readBytesInternal: ([]byte, error); nil for a negative size *)
Definition read_bytes : P (option bytes) :=
  size <- read_int ;;
  if size <? 0 then ret None
  else need size ;;; s <- take CGuarded size ;; ret (Some s).

Definition read_short_bytes : P bytes :=
  size <- read_short ;; need size ;;; take CGuarded size.

Definition read_uuid : P bytes := need 16 ;;; u <- take CGuarded 16 ;; alloc 32 ;;; ret u.

(* for i := 0; i < n; i++ { xs[i] = p() } -- the fuel is the buffer length: every element reader
   consumes at least one byte, so no more than len(f.buf) iterations can succeed *)
Fixpoint read_loop {A} (fuel : nat) (p : P A) (n : Z) : P (list A) :=
  if n <=? 0 then ret []
  else match fuel with
       | O => fail EFuel
       | S fuel' => x <- p ;; xs <- read_loop fuel' p (n - 1) ;; ret (x :: xs)
       end.
Definition read_count {A} (p : P A) (n : Z) : P (list A) := fun b => read_loop (S (length b)) p n b.

Definition read_string_list : P (list bytes) :=
  size <- read_short ;; alloc (16 * size) ;;; read_count read_string size.

(* readInetAdressOnly *)
Definition read_inet_addr : P bytes :=
  need 1 ;;; sz <- take CGuarded 1 ;;
  let size := be_dec sz in
  if negb ((size =? 4) || (size =? 16)) then fail EInetSize
  else need size ;;; alloc size ;;; take CGuarded size.

Definition read_inet : P (bytes * Z) := ip <- read_inet_addr ;; port <- read_int ;; ret (ip, port).

Definition read_bytes_map : P (list (bytes * option bytes)) :=
  size <- read_short ;; alloc (48 * size) ;;;
  read_count (k <- read_string ;; v <- read_bytes ;; ret (k, v)) size.

Definition read_string_multimap : P (list (bytes * list bytes)) :=
  size <- read_short ;; alloc (48 * size) ;;;
  read_count (k <- read_string ;; v <- read_string_list ;; ret (k, v)) size.

(* ---- type descriptors (frame.go:872-934, helpers.go:252-303) ------------------------------- *)
Inductive tinfo :=
| TNative (typ : Z) (custom : bytes)                              (* NativeType{typ, custom} *)
| TColl (typ : Z) (custom : bytes) (key : option tinfo) (elem : tinfo)   (* CollectionType; Key only for maps *)
| TTuple (custom : bytes) (elems : list tinfo)                    (* TupleTypeInfo *)
| TUDT (custom : bytes) (ks name : bytes) (fields : list (bytes * tinfo)).   (* UDTTypeInfo *)

(* strings.TrimPrefix *)
Fixpoint trim_prefix (s pre : bytes) {struct pre} : option bytes :=
  match pre with
  | [] => Some s
  | p :: pre' => match s with
                 | c :: s' => if c =? p then trim_prefix s' pre' else None
                 | [] => None
                 end
  end.
Definition go_trim_prefix (s pre : bytes) : bytes := match trim_prefix s pre with Some r => r | None => s end.
Definition has_prefix (s pre : bytes) : bool := match trim_prefix s pre with Some _ => true | None => false end.

(* the switch of getApacheCassandraType (helpers.go:252); the class names are string literals there *)
Definition apache_names : list (bytes * Z) :=
  [ (s2b "AsciiType", K.TypeAscii); (s2b "LongType", K.TypeBigInt); (s2b "BytesType", K.TypeBlob);
    (s2b "BooleanType", K.TypeBoolean); (s2b "CounterColumnType", K.TypeCounter); (s2b "DecimalType", K.TypeDecimal);
    (s2b "DoubleType", K.TypeDouble); (s2b "FloatType", K.TypeFloat); (s2b "Int32Type", K.TypeInt);
    (s2b "ShortType", K.TypeSmallInt); (s2b "ByteType", K.TypeTinyInt); (s2b "TimeType", K.TypeTime);
    (s2b "DateType", K.TypeTimestamp); (s2b "TimestampType", K.TypeTimestamp); (s2b "UUIDType", K.TypeUUID);
    (s2b "LexicalUUIDType", K.TypeUUID); (s2b "UTF8Type", K.TypeVarchar); (s2b "IntegerType", K.TypeVarint);
    (s2b "TimeUUIDType", K.TypeTimeUUID); (s2b "InetAddressType", K.TypeInet); (s2b "MapType", K.TypeMap);
    (s2b "ListType", K.TypeList); (s2b "SetType", K.TypeSet); (s2b "TupleType", K.TypeTuple);
    (s2b "DurationType", K.TypeDuration) ].

Fixpoint assoc_bytes {V} (k : bytes) (l : list (bytes * V)) : option V :=
  match l with
  | [] => None
  | (k', v) :: l' => if zlist_eqb k k' then Some v else assoc_bytes k l'
  end.

Definition apache_type (class : bytes) : Z :=
  match assoc_bytes (go_trim_prefix class K.apacheCassandraTypePrefix) apache_names with
  | Some t => t
  | None => K.TypeCustom
  end.

Fixpoint read_type (fuel : nat) : P tinfo :=
  match fuel with
  | O => fail EFuel
  | S fuel' =>
      id <- read_short ;;
      ct <- (if id =? K.TypeCustom
             then s <- read_string ;;
                  let c := apache_type s in ret (s, if c =? K.TypeCustom then id else c)
             else ret ([], id)) ;;
      let custom := fst ct in
      let typ := snd ct in
      if typ =? K.TypeTuple then
        n <- read_short ;;
        (* tuple.Elems = append(tuple.Elems, f.readTypeInfo()): the slice grows with the elements read; Go's
           growth factors (2, then 1.25) allocate at most five times the final size in total *)
        elems <- read_count (t <- read_type fuel' ;; alloc 80 ;;; ret t) n ;;
        ret (TTuple custom elems)
      else if typ =? K.TypeUDT then
        ks <- read_string ;; name <- read_string ;;
        n <- read_short ;;
        fields <- read_count (nm <- read_string ;; t <- read_type fuel' ;; alloc 160 ;;; ret (nm, t)) n ;;
        ret (TUDT custom ks name fields)
      else if (typ =? K.TypeMap) || (typ =? K.TypeList) || (typ =? K.TypeSet) then
        key <- (if typ =? K.TypeMap then k <- read_type fuel' ;; ret (Some k) else ret None) ;;
        elem <- read_type fuel' ;;
        ret (TColl typ custom key elem)
      else ret (TNative typ custom)
  end.
(* readTypeInfo recurses only after consuming the two id bytes: depth <= len/2 *)
Definition read_type_info : P tinfo := fun b => read_type (S (length b)) b.

(* type descriptors as readTypeInfo builds them: collection ids only on TColl, maps and only maps have a key *)
Fixpoint tinfo_ok (t : tinfo) : Prop :=
  match t with
  | TNative typ _ => typ <> K.TypeList /\ typ <> K.TypeSet /\ typ <> K.TypeMap /\ typ <> K.TypeTuple /\ typ <> K.TypeUDT
  | TColl typ _ key elem =>
      (typ = K.TypeMap \/ typ = K.TypeList \/ typ = K.TypeSet)
      /\ match key with Some k => typ = K.TypeMap /\ tinfo_ok k | None => typ <> K.TypeMap end
      /\ tinfo_ok elem
  | TTuple _ elems => (fix go (l : list tinfo) : Prop := match l with [] => True | e :: l' => tinfo_ok e /\ go l' end) elems
  | TUDT _ _ _ fields =>
      (fix go (l : list (bytes * tinfo)) : Prop := match l with [] => True | f :: l' => tinfo_ok (snd f) /\ go l' end) fields
  end.

(* ---- result metadata (frame.go:951-1095) ---------------------------------------------------- *)
Record col := { c_ks : bytes; c_table : bytes; c_name : bytes; c_type : tinfo }.

Record rmeta := {
  m_flags : Z;
  m_paging : bytes;           (* copyBytes(readBytes()): null and empty both give an empty slice *)
  m_cols : list col;
  m_colcount : Z;
  m_actual : Z                (* actualColCount *)
}.
Record pmeta := { pm_meta : rmeta; pm_pkeys : list Z; pm_ks : bytes; pm_table : bytes }.

Definition has_flag (flags f : Z) : bool := Z.land flags f =? f.

Definition read_col (global : bool) (ks table : bytes) : P col :=
  kt <- (if global then ret (ks, table) else k <- read_string ;; t <- read_string ;; ret (k, t)) ;;
  name <- read_string ;;
  ty <- read_type_info ;;
  ret {| c_ks := fst kt; c_table := snd kt; c_name := name; c_type := ty |}.

(* meta.actualColCount += len(v.Elems) - 1 for every column whose Go type is TupleTypeInfo *)
Definition col_extra (c : col) : Z :=
  match c_type c with TTuple _ elems => Z.of_nat (length elems) - 1 | _ => 0 end.

Definition opt_bytes (o : option bytes) : bytes := match o with Some b => b | None => [] end.

(* the part shared by parseResultMetadata and parsePreparedMetadata after the counts *)
Definition read_meta_tail (flags colcount : Z) : P (rmeta * (bytes * bytes)) :=
  paging <- (if has_flag flags K.flagHasMorePages
             then b <- read_bytes ;; alloc (blen (opt_bytes b)) ;;; ret (opt_bytes b) else ret []) ;;
  if has_flag flags K.flagNoMetaData
  then ret ({| m_flags := flags; m_paging := paging; m_cols := []; m_colcount := colcount; m_actual := colcount |}, ([], []))
  else
    let global := has_flag flags K.flagGlobalTableSpec in
    kt <- (if global then k <- read_string ;; t <- read_string ;; ret (k, t) else ret ([], [])) ;;
    (if colcount <? 1000 then alloc (64 * colcount) else ret tt) ;;;
    cols <- read_count (read_col global (fst kt) (snd kt)) colcount ;;
    ret ({| m_flags := flags; m_paging := paging; m_cols := cols; m_colcount := colcount;
            m_actual := colcount + fold_right (fun c a => col_extra c + a) 0 cols |}, kt).

Definition parse_result_metadata : P rmeta :=
  flags <- read_int ;; colcount <- read_int ;;
  if colcount <? 0 then fail ENegCols
  else r <- read_meta_tail flags colcount ;; ret (fst r).

Definition parse_prepared_metadata (proto : Z) : P pmeta :=
  flags <- read_int ;; colcount <- read_int ;;
  if colcount <? 0 then fail ENegCols
  else
    pkeys <- (if proto >=? K.protoVersion4
              then pkc <- read_int ;;
                   if pkc <? 0 then fail ENegPk
                   else need (2 * pkc) ;;;           (* every partition key index is a [short] *)
                        alloc (8 * pkc) ;;;          (* pkeys := make([]int, pkeyCount) *)
                        read_count read_short pkc
              else ret []) ;;
    r <- read_meta_tail flags colcount ;;
    ret {| pm_meta := fst r; pm_pkeys := pkeys; pm_ks := fst (snd r); pm_table := snd (snd r) |}.

(* ---- frames --------------------------------------------------------------------------------- *)
Inductive errdetail :=
| DPlain                                                   (* errorFrame itself *)
| DUnavailable (cl required alive : Z)
| DWriteTimeout (cl received blockfor : Z) (write_type : bytes)
| DReadTimeout (cl received blockfor data_present : Z)
| DAlreadyExists (ks table : bytes)
| DUnprepared (id : bytes)
| DReadFailure (cl received blockfor numfail : Z) (data_present : bool) (emap : list (bytes * Z))
| DWriteFailure (cl received blockfor numfail : Z) (write_type : bytes) (emap : list (bytes * Z))
| DFunctionFailure (ks fn : bytes) (args : list bytes)
| DCDCWriteFailure
| DCASWriteUnknown (cl received blockfor : Z).

Inductive frame :=
| FError (code : Z) (msg : bytes) (d : errdetail)
| FReady
| FAuthenticate (class : bytes)
| FAuthChallenge (data : option bytes)
| FAuthSuccess (data : option bytes)
| FSupported (m : list (bytes * list bytes))               (* wire order; the Go map keeps the last of equal keys *)
| FVoid
| FRows (meta : rmeta) (nrows : Z)
| FKeyspace (ks : bytes)
| FPrepared (id : bytes) (req : pmeta) (resp : option rmeta)   (* resp absent below protocol 2 *)
| FSchemaKeyspace (change ks : bytes)
| FSchemaTable (change ks obj : bytes)
| FSchemaType (change ks obj : bytes)
| FSchemaFunction (change ks name : bytes) (args : list bytes)
| FSchemaAggregate (change ks name : bytes) (args : list bytes)
| FTopology (change ip : bytes) (port : Z)
| FStatus (change ip : bytes) (port : Z).

(* net.IP.String() as a map key: a 16-byte v4-in-v6 address prints like the 4-byte one (To4) *)
Definition ip_key (ip : bytes) : bytes :=
  if (length ip =? 16)%nat && zlist_eqb (firstn 12 ip) [0;0;0;0;0;0;0;0;0;0;255;255] then skipn 12 ip else ip.

(* number of distinct keys = len(res.ErrorMap) *)
Fixpoint distinct_keys (ks : list bytes) : list bytes :=
  match ks with
  | [] => []
  | k :: ks' => if existsb (zlist_eqb k) ks' then distinct_keys ks' else k :: distinct_keys ks'
  end.

Definition read_error_map : P (list (bytes * Z)) :=
  n <- read_int ;;
  read_count (ip <- read_inet_addr ;; code <- read_short ;; ret (ip_key ip, code)) n.

Definition num_failures (m : list (bytes * Z)) : Z := Z.of_nat (length (distinct_keys (map fst m))).

Definition plain_codes : list Z :=
  [K.ErrCodeInvalid; K.ErrCodeBootstrapping; K.ErrCodeConfig; K.ErrCodeCredentials; K.ErrCodeOverloaded;
   K.ErrCodeProtocol; K.ErrCodeServer; K.ErrCodeSyntax; K.ErrCodeTruncate; K.ErrCodeUnauthorized].

Definition parse_error_frame (proto : Z) : P frame :=
  code <- read_int ;; msg <- read_string ;;
  let mk d := ret (FError code msg d) in
  if code =? K.ErrCodeUnavailable then
    cl <- read_short ;; rq <- read_int ;; al <- read_int ;; mk (DUnavailable cl rq al)
  else if code =? K.ErrCodeWriteTimeout then
    cl <- read_short ;; rc <- read_int ;; bf <- read_int ;; wt <- read_string ;; mk (DWriteTimeout cl rc bf wt)
  else if code =? K.ErrCodeReadTimeout then
    cl <- read_short ;; rc <- read_int ;; bf <- read_int ;; dp <- read_byte ;; mk (DReadTimeout cl rc bf dp)
  else if code =? K.ErrCodeAlreadyExists then
    ks <- read_string ;; tb <- read_string ;; mk (DAlreadyExists ks tb)
  else if code =? K.ErrCodeUnprepared then
    id <- read_short_bytes ;; alloc (blen id) ;;; mk (DUnprepared id)
  else if code =? K.ErrCodeReadFailure then
    cl <- read_short ;; rc <- read_int ;; bf <- read_int ;;
    me <- (if proto >? K.protoVersion4 then m <- read_error_map ;; ret (m, num_failures m)
           else n <- read_int ;; ret ([], n)) ;;
    dp <- read_byte ;;
    mk (DReadFailure cl rc bf (snd me) (negb (dp =? 0)) (fst me))
  else if code =? K.ErrCodeWriteFailure then
    cl <- read_short ;; rc <- read_int ;; bf <- read_int ;;
    me <- (if proto >? K.protoVersion4 then m <- read_error_map ;; ret (m, num_failures m)
           else n <- read_int ;; ret ([], n)) ;;
    wt <- read_string ;;
    mk (DWriteFailure cl rc bf (snd me) wt (fst me))
  else if code =? K.ErrCodeFunctionFailure then
    ks <- read_string ;; fn <- read_string ;; args <- read_string_list ;; mk (DFunctionFailure ks fn args)
  else if code =? K.ErrCodeCDCWriteFailure then mk DCDCWriteFailure
  else if code =? K.ErrCodeCASWriteUnknown then
    cl <- read_short ;; rc <- read_int ;; bf <- read_int ;; mk (DCASWriteUnknown cl rc bf)
  else if existsb (Z.eqb code) plain_codes then mk DPlain
  else fail EUnkErrCode.

(* the target names are string literals in parseResultSchemaChange *)
Definition parse_schema_change (proto : Z) : P frame :=
  if proto <=? K.protoVersion2 then
    change <- read_string ;; ks <- read_string ;; table <- read_string ;;
    match table with
    | [] => ret (FSchemaKeyspace change ks)
    | _ => ret (FSchemaTable change ks table)
    end
  else
    change <- read_string ;; target <- read_string ;;
    if zlist_eqb target (s2b "KEYSPACE") then ks <- read_string ;; ret (FSchemaKeyspace change ks)
    else if zlist_eqb target (s2b "TABLE") then ks <- read_string ;; o <- read_string ;; ret (FSchemaTable change ks o)
    else if zlist_eqb target (s2b "TYPE") then ks <- read_string ;; o <- read_string ;; ret (FSchemaType change ks o)
    else if zlist_eqb target (s2b "FUNCTION") then
      ks <- read_string ;; nm <- read_string ;; args <- read_string_list ;; ret (FSchemaFunction change ks nm args)
    else if zlist_eqb target (s2b "AGGREGATE") then
      ks <- read_string ;; nm <- read_string ;; args <- read_string_list ;; ret (FSchemaAggregate change ks nm args)
    else fail EUnkTarget.

Definition parse_result_rows : P frame :=
  meta <- parse_result_metadata ;;
  n <- read_int ;;
  if n <? 0 then fail ENegRows else ret (FRows meta n).

Definition parse_result_prepared (proto : Z) : P frame :=
  id <- read_short_bytes ;;
  req <- parse_prepared_metadata proto ;;
  if proto <? K.protoVersion2 then ret (FPrepared id req None)
  else resp <- parse_result_metadata ;; ret (FPrepared id req (Some resp)).

Definition parse_result_frame (proto : Z) : P frame :=
  kind <- read_int ;;
  if kind =? K.resultKindVoid then ret FVoid
  else if kind =? K.resultKindRows then parse_result_rows
  else if kind =? K.resultKindKeyspace then ks <- read_string ;; ret (FKeyspace ks)
  else if kind =? K.resultKindPrepared then parse_result_prepared proto
  else if kind =? K.resultKindSchemaChanged then parse_schema_change proto
  else fail EUnkResKind.

Definition parse_event_frame (proto : Z) : P frame :=
  et <- read_string ;;
  if zlist_eqb et (s2b "TOPOLOGY_CHANGE") then
    change <- read_string ;; hp <- read_inet ;; ret (FTopology change (fst hp) (snd hp))
  else if zlist_eqb et (s2b "STATUS_CHANGE") then
    change <- read_string ;; hp <- read_inet ;; ret (FStatus change (fst hp) (snd hp))
  else if zlist_eqb et (s2b "SCHEMA_CHANGE") then parse_schema_change proto
  else fail EUnkEvent.

(* what parseFrame leaves behind: the frame, and in the framer the trace id, warnings, custom payload *)
Record parsed := {
  p_frame : frame;
  p_trace : option bytes;
  p_warnings : option (list bytes);
  p_payload : option (list (bytes * option bytes))
}.

(* parseFrame (frame.go:542-591).  proto is the framer's version (the connection's), hver / hflags / hop
   come from the received header. *)
Definition parse_frame (proto hver hflags hop : Z) : P parsed :=
  if Z.land hver K.protoDirectionMask =? 0 then fail ERequest
  else
    tr <- (if has_flag hflags K.flagTracing then u <- read_uuid ;; ret (Some u) else ret None) ;;
    wa <- (if has_flag hflags K.flagWarning then l <- read_string_list ;; ret (Some l) else ret None) ;;
    pl <- (if has_flag hflags K.flagCustomPayload then m <- read_bytes_map ;; ret (Some m) else ret None) ;;
    fr <- (if hop =? K.opError then parse_error_frame proto
           else if hop =? K.opReady then ret FReady
           else if hop =? K.opResult then parse_result_frame proto
           else if hop =? K.opSupported then m <- read_string_multimap ;; ret (FSupported m)
           else if hop =? K.opAuthenticate then c <- read_string ;; ret (FAuthenticate c)
           else if hop =? K.opAuthChallenge then d <- read_bytes ;; ret (FAuthChallenge d)
           else if hop =? K.opAuthSuccess then d <- read_bytes ;; ret (FAuthSuccess d)
           else if hop =? K.opEvent then parse_event_frame proto
           else fail EUnkOp) ;;
    ret {| p_frame := fr; p_trace := tr; p_warnings := wa; p_payload := pl |}.

(* ---- readHeader / readFrame (frame.go:443-540) ---------------------------------------------- *)
Record header := { h_version : Z; h_flags : Z; h_stream : Z; h_op : Z; h_length : Z }.

(* io.ReadFull(r, p[:n]) over a stream holding [s]: io.EOF when nothing is there, ErrUnexpectedEOF
   when fewer than n bytes are *)
Definition read_full (n : Z) (s : bytes) : res (bytes * bytes) :=
  if n <=? 0 then Ok ([], s)
  else if blen s =? 0 then Err EEof
  else if blen s <? n then Err EUnexpEof
  else Ok (firstn (Z.to_nat n) s, skipn (Z.to_nat n) s).

Definition read_header (s : bytes) : res (header * bytes) :=
  match read_full 1 s with
  | Ok (p0, s1) =>
      let v0 := be_dec p0 in
      let version := Z.land v0 K.protoVersionMask in
      if (version <? K.protoVersion1) || (version >? K.protoVersion5) then Err EVersion
      else
        let head_size := if version <? K.protoVersion3 then 8 else 9 in
        match read_full (head_size - 1) s1 with
        | Ok (p, s2) =>
            let at_ i := nth i p 0 in      (* p[i+1] *)
            if version >? K.protoVersion2 then
              Ok ({| h_version := v0; h_flags := at_ 0%nat;
                     h_stream := signed 16 (at_ 1%nat * 256 + at_ 2%nat);
                     h_op := at_ 3%nat;
                     h_length := signed 32 (be_dec (skipn 4 p)) |}, s2)
            else
              Ok ({| h_version := v0; h_flags := at_ 0%nat;
                     h_stream := sx8 (at_ 1%nat);
                     h_op := at_ 2%nat;
                     h_length := signed 32 (be_dec (skipn 3 p)) |}, s2)
        | Err e => Err e
        | Crash c => Crash c
        end
  | Err e => Err e
  | Crash c => Crash c
  end.

(* readFrame with no compressor configured, as a function of the declared length, the header flags
   and the number of bytes the stream still holds.  The body of an oversized frame is discarded
   with io.CopyN. *)
Definition read_frame_check (length flags avail : Z) : res unit :=
  if length <? 0 then Err ENegLen
  else if length >? K.maxFrameSize then
    (if avail <? length then Err EDiscard else Err ETooBig)
  else if (0 <? length) && (avail <? length) then Err EBody
  else if has_flag flags K.flagCompress then Err ENoCompressor
  else Ok tt.

Definition read_frame (length flags : Z) (s : bytes) : res (bytes * bytes) :=
  match read_frame_check length flags (blen s) with
  | Ok _ => Ok (firstn (Z.to_nat length) s, skipn (Z.to_nat length) s)
  | Err e => Err e
  | Crash c => Crash c
  end.

(* ---- row scanning (session.go:1575-1631, 1504-1526; marshal.go:2094-2128) ------------------- *)
(* what one destination receives: Unmarshal(info, data, dest) as seen by a destination that records
   its arguments (data = nil for a null cell) *)
Record cell := { cell_type : tinfo; cell_data : option bytes }.

(* marshal.go readBytes(p), called with len(p) >= 4: size := readInt(p); p = p[4:]; nil if size < 0;
   an UnmarshalError if size > len(p); else p[:size], p[size:] *)
Definition tuple_read_bytes : P (option bytes) :=
  hd <- take CGuarded 4 ;;
  let size := signed 32 (be_dec hd) in
  if size <? 0 then ret None
  else l <- get_len ;; if l <? size then fail EUnmarshal else s <- take CGuarded size ;; ret (Some s).

(* unmarshalTuple, value.(type) = []interface{}: for each element type, if len(data) >= 4 read a
   [bytes] from data, else the element gets nil *)
Fixpoint unmarshal_tuple_cells (elems : list tinfo) : P (list cell) :=
  match elems with
  | [] => ret []
  | e :: rest =>
      l <- get_len ;;
      p <- (if l >=? 4 then tuple_read_bytes else ret None) ;;
      cs <- unmarshal_tuple_cells rest ;;
      ret ({| cell_type := e; cell_data := p |} :: cs)
  end.

(* run a parser over a cell's bytes (a separate slice), discarding what it leaves *)
Definition on_cell {A} (p : P A) (data : bytes) : P A := fun b =>
  match p data with
  | (Ok (a, _), c) => (Ok (a, b), c)
  | (Err e, c) => (Err e, c)
  | (Crash k, c) => (Crash k, c)
  end.

(* readColumn = readBytesInternal, which checks for the four size bytes itself and returns an error *)
Definition read_column : P (option bytes) := read_bytes.

(* the loop of Iter.Scan over iter.meta.columns; [avail] = len(dest) - i, every dest non-nil *)
Fixpoint scan_cols (cols : list col) (avail : Z) : P (list cell) :=
  match cols with
  | [] => ret []
  | c :: rest =>
      data <- read_column ;;
      (* scanColumn(colBytes, col, dest[i:]) *)
      if avail <=? 0 then
        (* no destination left: fine for a tuple without components, an error otherwise *)
        match c_type c with
        | TTuple _ [] => scan_cols rest avail
        | _ => fail EScanCount
        end
      else
        match c_type c with
        | TTuple _ elems =>
            (* Unmarshal(col.TypeInfo, p, dest[:count]) *)
            if Z.of_nat (length elems) >? avail then fail EScanCount else
            cs <- on_cell (unmarshal_tuple_cells elems) (opt_bytes data) ;;
            more <- scan_cols rest (avail - Z.of_nat (length elems)) ;;
            ret (cs ++ more)
        | t =>
            more <- scan_cols rest (avail - 1) ;;
            ret ({| cell_type := t; cell_data := data |} :: more)
        end
  end.

(* one call of Iter.Scan(dest...) with ndest recording destinations, on an iterator without a next
   page: None = returned false because pos >= numRows *)
Definition scan_row (m : rmeta) (ndest : Z) : P (list cell) :=
  if negb (ndest =? m_actual m) then fail EScanCount else scan_cols (m_cols m) ndest.

(* a sequence of Iter.Scan calls on one iterator (no next page) *)
Inductive scan_out :=
| SRow (cells : list cell)            (* Scan returned true *)
| SFalse (err : option errc)          (* Scan returned false; iter.err afterwards *)
| SPanic (c : crashc)                 (* Scan (or Scanner.Next / Scanner.Scan) panicked *)
| SErr (e : errc).                    (* Scanner.Scan returned an error (the row is lost, iteration goes on) *)

Record iter := { it_pos : Z; it_err : option errc; it_buf : bytes }.

Definition iter_scan (m : rmeta) (nrows ndest : Z) (it : iter) : scan_out * iter :=
  match it_err it with
  | Some e => (SFalse (Some e), it)
  | None =>
      if it_pos it >=? nrows then (SFalse None, it)
      else match out (scan_row m ndest) (it_buf it) with
           | Ok (cells, b') => (SRow cells, {| it_pos := it_pos it + 1; it_err := None; it_buf := b' |})
           | Err e => (SFalse (Some e), {| it_pos := it_pos it; it_err := Some e; it_buf := it_buf it |})
           | Crash c => (SPanic c, it)
           end
  end.

(* Conn.executeQuery, case *resultRowsFrame with params.skipMeta (conn.go:1532-1541):
     iter := &Iter{meta: x.meta, framer: framer, numRows: x.numRows}
     iter.meta = info.response                              -- the WHOLE result metadata of the PREPARED
                                                               response: flags, columns, colCount and
                                                               actualColCount (tuple columns expanded; only
                                                               readCol computes it, and a NO_METADATA rows frame
                                                               has no column specs to run readCol on)
     iter.meta.pagingState = copyBytes(x.meta.pagingState)  -- paging state of the rows frame
   numRows and the row content are the rows frame's.  Exercised through the real executeQuery by the
   session-scan-skip-meta cases (cmd/c04/exec.go: PREPARE + EXECUTE against the scripted node). *)
Definition skip_meta_iter (prep_resp rows_meta : rmeta) : rmeta :=
  {| m_flags := m_flags prep_resp; m_paging := m_paging rows_meta; m_cols := m_cols prep_resp;
     m_colcount := m_colcount prep_resp; m_actual := m_actual prep_resp |}.

(* k calls; stops after a panic (the caller is gone) *)
Fixpoint iter_scans (k : nat) (m : rmeta) (nrows ndest : Z) (it : iter) : list scan_out :=
  match k with
  | O => []
  | S k' => let (o, it') := iter_scan m nrows ndest it in
            match o with
            | SPanic _ => [o]
            | _ => o :: iter_scans k' m nrows ndest it'
            end
  end.

(* ---- the Scanner API (session.go:1476-1563): Next reads the cells of a row, Scan distributes them ------ *)
Fixpoint read_cells (cols : list col) : P (list (option bytes)) :=
  match cols with
  | [] => ret []
  | _ :: rest => d <- read_column ;; ds <- read_cells rest ;; ret (d :: ds)
  end.

(* iterScanner.Scan's loop: scanColumn(is.cols[c], col, dest[i:]), c the column index *)
Fixpoint scanner_cols (cols : list col) (cells : list (option bytes)) (avail : Z) : res (list cell) :=
  match cols with
  | [] => Ok []
  | c :: rest =>
      match cells with
      | [] => Crash CScannerIdx
      | data :: cells' =>
          if avail <=? 0 then
            match c_type c with
            | TTuple _ [] => scanner_cols rest cells' avail
            | _ => Err EScanCount
            end
          else
            match c_type c with
            | TTuple _ elems =>
                if Z.of_nat (length elems) >? avail then Err EScanCount
                else
                  match out (unmarshal_tuple_cells elems) (opt_bytes data) with
                  | Ok (cs, _) =>
                      match scanner_cols rest cells' (avail - Z.of_nat (length elems)) with
                      | Ok more => Ok (cs ++ more)
                      | r => r
                      end
                  | Err e => Err e
                  | Crash k => Crash k
                  end
            | t =>
                match scanner_cols rest cells' (avail - 1) with
                | Ok more => Ok ({| cell_type := t; cell_data := data |} :: more)
                | r => r
                end
            end
      end
  end.

(* one Next() followed, when it returned true, by one Scan(dest...) with ndest recording destinations *)
Definition scanner_step (m : rmeta) (nrows ndest : Z) (it : iter) : scan_out * iter :=
  match it_err it with
  | Some e => (SFalse (Some e), it)
  | None =>
      if it_pos it >=? nrows then (SFalse None, it)
      else match out (read_cells (m_cols m)) (it_buf it) with
           | Ok (cells, b') =>
               let it' := {| it_pos := it_pos it + 1; it_err := None; it_buf := b' |} in
               if negb (ndest =? m_actual m) then (SErr EScanCount, it')
               else match scanner_cols (m_cols m) cells ndest with
                    | Ok cs => (SRow cs, it')
                    | Err e => (SErr e, it')
                    | Crash c => (SPanic c, it')
                    end
           | Err e => (SFalse (Some e), {| it_pos := it_pos it; it_err := Some e; it_buf := it_buf it |})
           | Crash c => (SPanic c, it)
           end
  end.

Fixpoint scanner_steps (k : nat) (m : rmeta) (nrows ndest : Z) (it : iter) : list scan_out :=
  match k with
  | O => []
  | S k' => let (o, it') := scanner_step m nrows ndest it in
            match o with
            | SPanic _ => [o]
            | _ => o :: scanner_steps k' m nrows ndest it'
            end
  end.

(* RowData().Columns: tuple columns expand to name[0], name[1], ...; decimal index *)
Fixpoint dec_digits (fuel : nat) (n : Z) (acc : bytes) : bytes :=
  match fuel with
  | O => acc
  | S f => if n <? 10 then (48 + n) :: acc else dec_digits f (n / 10) ((48 + n mod 10) :: acc)
  end.
Definition itoa (n : Z) : bytes := dec_digits 20 n [].

Fixpoint tuple_names (name : bytes) (i : Z) (elems : list tinfo) : list bytes :=
  match elems with
  | [] => []
  | _ :: rest => (name ++ [91] ++ itoa i ++ [93]) :: tuple_names name (i + 1) rest
  end.

(* goType (helpers.go:43): the Go type NewWithError allocates for a column; all the model needs of it
   is whether it can be a map key: a map type whose key type is not comparable is refused with an error. *)
Definition comparable_natives : list Z :=
  [K.TypeVarchar; K.TypeAscii; K.TypeInet; K.TypeText; K.TypeBigInt; K.TypeCounter; K.TypeTime; K.TypeTimestamp;
   K.TypeBoolean; K.TypeFloat; K.TypeDouble; K.TypeInt; K.TypeSmallInt; K.TypeTinyInt; K.TypeDecimal; K.TypeUUID;
   K.TypeTimeUUID; K.TypeVarint; K.TypeDate; K.TypeDuration].

Fixpoint go_type (t : tinfo) : res bool :=      (* Ok comparable? *)
  match t with
  | TNative typ _ =>
      if existsb (Z.eqb typ) comparable_natives then Ok true
      else if typ =? K.TypeBlob then Ok false
      else if (typ =? K.TypeList) || (typ =? K.TypeSet) || (typ =? K.TypeMap) || (typ =? K.TypeTuple) then Crash CTypeAssert
      else if typ =? K.TypeUDT then Ok false
      else Err EGoType
  | TColl typ _ key elem =>
      if typ =? K.TypeMap then
        match key with
        | None => Crash CTypeAssert      (* not produced by readTypeInfo *)
        | Some k =>
            match go_type k with
            | Ok kc =>
                if kc then match go_type elem with Ok _ => Ok false | r => r end
                else Err EGoType          (* the key's Go type is not comparable: an error since the fix *)
            | r => r
            end
        end
      else match go_type elem with Ok _ => Ok false | r => r end
  | TTuple _ _ => Ok false
  | TUDT _ _ _ _ => Ok false
  end.

Fixpoint go_types (ts : list tinfo) : res unit :=
  match ts with
  | [] => Ok tt
  | t :: rest => match go_type t with
                 | Ok _ => go_types rest
                 | Err e => Err e
                 | Crash c => Crash c
                 end
  end.

(* Iter.RowData (helpers.go:325): NewWithError per destination, in column order *)
Fixpoint row_data (cols : list col) : res (list bytes) :=
  match cols with
  | [] => Ok []
  | c :: rest =>
      match c_type c with
      | TTuple _ elems =>
          match go_types elems with
          | Ok _ => match row_data rest with
                    | Ok names => Ok (tuple_names (c_name c) 0 elems ++ names)
                    | r => r
                    end
          | Err e => Err e
          | Crash k => Crash k
          end
      | t =>
          match go_type t with
          | Ok _ => match row_data rest with
                    | Ok names => Ok (c_name c :: names)
                    | r => r
                    end
          | Err e => Err e
          | Crash k => Crash k
          end
      end
  end.
