(* C04/Corr.v -- correspondence cases for the response parsers: each constructor carries an input and
   what the real implementation (package gocql, through verif_shim_c04.go) did with it; [check] runs the
   model on the input and compares.  Shared with C05 (C05/Corr.v wraps these cases).

   Go maps have no order and keep the last value stored under a key: the model returns association
   lists in wire order, the harness prints Go maps sorted by key, and [canon] turns the former into
   the latter.  Equality tests are decision procedures ({a = b} + {a <> b}), so a [true] is a proof. *)
From GocqlV Require Import Lib.Base Gen.Consts C04.Model C04.Spec.

(* ---- decidable equality --------------------------------------------------------------------- *)
Definition bytes_eq_dec : forall a b : bytes, {a = b} + {a <> b} := list_eq_dec Z.eq_dec.

Fixpoint tinfo_eq_dec (a b : tinfo) {struct a} : {a = b} + {a <> b}.
Proof.
  decide equality; try apply bytes_eq_dec; try apply Z.eq_dec.
  - decide equality.
  - apply list_eq_dec. exact tinfo_eq_dec.
  - apply list_eq_dec. decide equality; try apply tinfo_eq_dec; try apply bytes_eq_dec.
Defined.

Ltac deq := repeat first [ apply Z.eq_dec | apply bytes_eq_dec | apply bool_dec | apply tinfo_eq_dec
                         | assumption | apply list_eq_dec | decide equality ].

Definition opt_bytes_eq_dec : forall a b : option bytes, {a = b} + {a <> b}.
Proof. deq. Defined.
Definition col_eq_dec : forall a b : col, {a = b} + {a <> b}.
Proof. deq. Defined.
Definition rmeta_eq_dec : forall a b : rmeta, {a = b} + {a <> b}.
Proof. deq. Defined.
Definition pmeta_eq_dec : forall a b : pmeta, {a = b} + {a <> b}.
Proof. deq. Defined.
Definition errdetail_eq_dec : forall a b : errdetail, {a = b} + {a <> b}.
Proof. deq. Defined.
Definition frame_eq_dec : forall a b : frame, {a = b} + {a <> b}.
Proof. deq. Defined.
Definition parsed_eq_dec : forall a b : parsed, {a = b} + {a <> b}.
Proof. deq. Defined.
Definition cell_eq_dec : forall a b : cell, {a = b} + {a <> b}.
Proof. deq. Defined.
Definition errc_eq_dec : forall a b : errc, {a = b} + {a <> b}.
Proof. deq. Defined.
Definition crashc_eq_dec : forall a b : crashc, {a = b} + {a <> b}.
Proof. deq. Defined.
Definition scan_out_eq_dec : forall a b : scan_out, {a = b} + {a <> b}.
Proof. deq. Defined.
Definition header_eq_dec : forall a b : header, {a = b} + {a <> b}.
Proof. deq. Defined.

Definition dec {P : Prop} (d : {P} + {~ P}) : bool := if d then true else false.

(* ---- Go map canonical form -------------------------------------------------------------------- *)
(* bytewise lexicographic order = Go's string comparison *)
Fixpoint bytes_ltb (a b : bytes) : bool :=
  match a, b with
  | _, [] => false
  | [], _ :: _ => true
  | x :: a', y :: b' => (x <? y) || ((x =? y) && bytes_ltb a' b')
  end.

Fixpoint map_insert {V} (k : bytes) (v : V) (l : list (bytes * V)) : list (bytes * V) :=
  match l with
  | [] => [(k, v)]
  | (k', v') :: l' =>
      if zlist_eqb k k' then (k, v) :: l'
      else if bytes_ltb k k' then (k, v) :: l
      else (k', v') :: map_insert k v l'
  end.
(* m := map[...]; for each (k, v) in wire order: m[k] = v; then sorted by key *)
Definition canon {V} (l : list (bytes * V)) : list (bytes * V) :=
  fold_left (fun acc kv => map_insert (fst kv) (snd kv) acc) l [].

Definition canon_detail (d : errdetail) : errdetail :=
  match d with
  | DReadFailure cl rc bf nf dp m => DReadFailure cl rc bf nf dp (canon m)
  | DWriteFailure cl rc bf nf wt m => DWriteFailure cl rc bf nf wt (canon m)
  | d => d
  end.

Definition canon_frame (f : frame) : frame :=
  match f with
  | FError c m d => FError c m (canon_detail d)
  | FSupported m => FSupported (canon m)
  | f => f
  end.

Definition canon_parsed (p : parsed) : parsed :=
  {| p_frame := canon_frame (p_frame p); p_trace := p_trace p; p_warnings := p_warnings p;
     p_payload := match p_payload p with Some m => Some (canon m) | None => None end |}.

(* ---- cases ------------------------------------------------------------------------------------ *)
(* outcome of parseFrame as the harness saw it *)
Inductive pres :=
| PROk (p : parsed) (rest : bytes)     (* frame, framer leftovers, unconsumed part of the body *)
| PRErr (e : errc)                     (* returned error, by message class *)
| PRCrash (c : crashc).                (* run-time panic, by the function it was raised in *)

Definition pres_of (r : res (parsed * bytes)) : pres :=
  match r with
  | Ok (p, rest) => PROk (canon_parsed p) rest
  | Err e => PRErr e
  | Crash c => PRCrash c
  end.

Definition pres_eqb (a b : pres) : bool :=
  match a, b with
  | PROk p r, PROk p' r' => dec (parsed_eq_dec p p') && dec (bytes_eq_dec r r')
  | PRErr e, PRErr e' => dec (errc_eq_dec e e')
  | PRCrash c, PRCrash c' => dec (crashc_eq_dec c c')
  | _, _ => false
  end.

Inductive hres :=
| HOk (h : header) (rest : bytes)
| HErr (e : errc).

Inductive case :=
(* the harness's own protocol encoder (written from the specification) against Spec.enc_frame *)
| CSpecEnc (v stream extra : Z) (e : envelope) (r : response) (wire : bytes)
(* ... and what the driver reported for that frame against Spec.view: header, frame, leftovers *)
| CSpecView (v stream extra : Z) (e : envelope) (r : response) (impl : pres)
(* readHeader on a byte stream *)
| CHeader (stream : bytes) (impl : hres)
(* readFrame (no compressor): declared length, header flags, bytes available: Some n = n body bytes, None error class *)
| CReadFrame (length flags : Z) (stream : bytes) (impl : res (bytes * bytes))
(* the same for streams too long to write down: only the number of available bytes and the error class *)
| CReadFrameBig (length flags avail : Z) (impl : errc)
(* parseFrame on a body *)
| CParse (proto hver hflags hop : Z) (body : bytes) (impl : pres)
(* parseFrame then k calls of Iter.Scan with ndest recording destinations *)
| CScan (proto hver hflags hop : Z) (body : bytes) (ndest : Z) (k : nat) (impl : list scan_out)
(* the same through Iter.Scanner(): k times Next() and, when true, Scan *)
| CScanner (proto hver hflags hop : Z) (body : bytes) (ndest : Z) (k : nat) (impl : list scan_out)
(* skip-metadata: columns from a PREPARED response, rows from a RESULT Rows without metadata *)
| CScanSkip (proto : Z) (prep_body rows_body : bytes) (ndest : Z) (k : nat) (impl : list scan_out)
(* Iter.RowData().Columns for a rows frame *)
| CNames (proto : Z) (body : bytes) (impl : res (list bytes)).

Definition res_bb_eqb (a b : res (bytes * bytes)) : bool :=
  match a, b with
  | Ok (x, y), Ok (x', y') => dec (bytes_eq_dec x x') && dec (bytes_eq_dec y y')
  | Err e, Err e' => dec (errc_eq_dec e e')
  | Crash c, Crash c' => dec (crashc_eq_dec c c')
  | _, _ => false
  end.

Definition scans_of (proto hver hflags hop : Z) (body : bytes) (ndest : Z) (k : nat) : list scan_out :=
  match out (parse_frame proto hver hflags hop) body with
  | Ok (p, rest) =>
      match p_frame p with
      | FRows m n => iter_scans k m n ndest {| it_pos := 0; it_err := None; it_buf := rest |}
      | _ => []
      end
  | _ => []
  end.

Definition scanner_of (proto hver hflags hop : Z) (body : bytes) (ndest : Z) (k : nat) : list scan_out :=
  match out (parse_frame proto hver hflags hop) body with
  | Ok (p, rest) =>
      match p_frame p with
      | FRows m n => scanner_steps k m n ndest {| it_pos := 0; it_err := None; it_buf := rest |}
      | _ => []
      end
  | _ => []
  end.

Definition check (c : case) : bool :=
  match c with
  | CSpecEnc v stream extra e r wire => dec (bytes_eq_dec (enc_frame v stream extra e r) wire)
  | CSpecView v stream extra e r impl =>
      pres_eqb (PROk (canon_parsed (view v e r)) (rows_content r)) impl
      && (* the model agrees as well, from the header on *)
      match read_header (enc_frame v stream extra e r) with
      | Ok (h, s) =>
          match read_frame (h_length h) (h_flags h) s with
          | Ok (body, []) => pres_eqb (pres_of (out (parse_frame v (h_version h) (h_flags h) (h_op h)) body)) impl
          | _ => false
          end
      | _ => false
      end
  | CHeader s impl =>
      match read_header s, impl with
      | Ok (h, rest), HOk h' rest' => dec (header_eq_dec h h') && dec (bytes_eq_dec rest rest')
      | Err e, HErr e' => dec (errc_eq_dec e e')
      | _, _ => false
      end
  | CReadFrame l f s impl => res_bb_eqb (read_frame l f s) impl
  | CReadFrameBig l f avail impl =>
      match read_frame_check l f avail with Err e => dec (errc_eq_dec e impl) | _ => false end
  | CParse proto hver hflags hop body impl => pres_eqb (pres_of (out (parse_frame proto hver hflags hop) body)) impl
  | CScan proto hver hflags hop body ndest k impl =>
      dec (list_eq_dec scan_out_eq_dec (scans_of proto hver hflags hop body ndest k) impl)
  | CScanner proto hver hflags hop body ndest k impl =>
      dec (list_eq_dec scan_out_eq_dec (scanner_of proto hver hflags hop body ndest k) impl)
  | CScanSkip proto pb rb ndest k impl =>
      match out (parse_frame proto (128 + proto) 0 K.opResult) pb, out (parse_frame proto (128 + proto) 0 K.opResult) rb with
      | Ok (pp, _), Ok (pr, rest) =>
          match p_frame pp, p_frame pr with
          | FPrepared _ _ (Some rm), FRows m n =>
              let m' := skip_meta_iter rm m in
              dec (list_eq_dec scan_out_eq_dec (iter_scans k m' n ndest {| it_pos := 0; it_err := None; it_buf := rest |}) impl)
          | _, _ => false
          end
      | _, _ => false
      end
  | CNames proto body impl =>
      match out (parse_frame proto (128 + proto) 0 K.opResult) body with
      | Ok (p, _) => match p_frame p with
                     | FRows m _ =>
                         match row_data (m_cols m), impl with
                         | Ok names, Ok names' => dec (list_eq_dec bytes_eq_dec names names')
                         | Err e, Err e' => dec (errc_eq_dec e e')
                         | Crash c, Crash c' => dec (crashc_eq_dec c c')
                         | _, _ => false
                         end
                     | _ => false
                     end
      | _ => false
      end
  end.

Definition run (cs : list case) : list N := mismatches check cs.
