(* C04/Proofs2.v -- type descriptors and metadata: the model's readers invert the specification's
   encoders, for arbitrarily nested types. *)
From GocqlV Require Import Lib.Base Gen.Consts C04.Model C04.Spec C04.Proofs1.

Arguments Z.mul : simpl never.
Arguments Z.add : simpl never.
Arguments Z.pow : simpl never.
Arguments Z.of_nat : simpl never.
Arguments Z.to_nat : simpl never.
Arguments Z.modulo : simpl never.
Arguments Z.div : simpl never.
Arguments Z.ltb : simpl never.
Arguments Z.leb : simpl never.
Arguments Z.eqb : simpl never.
Arguments Z.land : simpl never.

Ltac obind := rewrite out_bind; unfold rbind.

(* ---- a usable induction principle for the nested type ------------------------------------------ *)
Section stype_induction.
  Variable Q : stype -> Prop.
  Hypothesis Hc : forall c, Q (SCustom c).
  Hypothesis Hn : forall id, Q (SNative id).
  Hypothesis Hl : forall e, Q e -> Q (SList e).
  Hypothesis Hm : forall k v, Q k -> Q v -> Q (SMap k v).
  Hypothesis Hs : forall e, Q e -> Q (SSet e).
  Hypothesis Hu : forall ks n fs, Forall (fun f => Q (snd f)) fs -> Q (SUDT ks n fs).
  Hypothesis Ht : forall es, Forall Q es -> Q (STuple es).

  Fixpoint stype_ind2 (t : stype) : Q t :=
    match t with
    | SCustom c => Hc c
    | SNative id => Hn id
    | SList e => Hl e (stype_ind2 e)
    | SMap k v => Hm k v (stype_ind2 k) (stype_ind2 v)
    | SSet e => Hs e (stype_ind2 e)
    | SUDT ks n fs =>
        Hu ks n fs ((fix go (l : list (bytes * stype)) : Forall (fun f => Q (snd f)) l :=
                       match l with
                       | [] => Forall_nil _
                       | f :: l' => Forall_cons f (stype_ind2 (snd f)) (go l')
                       end) fs)
    | STuple es =>
        Ht es ((fix go (l : list stype) : Forall Q l :=
                  match l with
                  | [] => Forall_nil _
                  | e :: l' => Forall_cons e (stype_ind2 e) (go l')
                  end) es)
    end.
End stype_induction.

(* the local fixpoints of Spec.v as map / concat *)
Lemma enc_type_tuple es :
  enc_type (STuple es) = enc_short 49 ++ enc_short (count es) ++ concat (map enc_type es).
Proof. cbn [enc_type]. do 2 f_equal. induction es as [|e es IH]; [reflexivity|]. cbn [map concat]. rewrite IH. reflexivity. Qed.

Definition enc_field (f : bytes * stype) : bytes := enc_string (fst f) ++ enc_type (snd f).

Lemma enc_type_udt ks n fs :
  enc_type (SUDT ks n fs) = enc_short 48 ++ enc_string ks ++ enc_string n ++ enc_short (count fs) ++ concat (map enc_field fs).
Proof.
  cbn [enc_type]. do 4 f_equal. induction fs as [|[fn e] fs IH]; [reflexivity|]. cbn [map concat]. rewrite IH. reflexivity.
Qed.

Lemma view_type_tuple es : view_type (STuple es) = TTuple [] (map view_type es).
Proof. reflexivity. Qed.

Definition view_field (f : bytes * stype) : bytes * tinfo := (fst f, view_type (snd f)).

Lemma view_type_udt ks n fs : view_type (SUDT ks n fs) = TUDT [] ks n (map view_field fs).
Proof. cbn [view_type]. f_equal. induction fs as [|[fn e] fs IH]; [reflexivity|]. cbn [map]. rewrite IH. reflexivity. Qed.

(* ---- well-formed types --------------------------------------------------------------------------- *)
Lemma wf_stype_tuple es : wf_stype (STuple es) <-> count es < 65536 /\ Forall wf_stype es.
Proof.
  cbn [wf_stype]. split; intros [H1 H2]; split; try assumption; clear H1.
  - induction es as [|e es IH]; constructor; [apply H2 | apply IH, H2].
  - induction H2; [exact I | split; assumption].
Qed.

Lemma wf_stype_udt ks n fs :
  wf_stype (SUDT ks n fs) <-> wf_string ks /\ wf_string n /\ count fs < 65536
                             /\ Forall (fun f => wf_string (fst f) /\ wf_stype (snd f)) fs.
Proof.
  cbn [wf_stype]. split; intros (H1 & H2 & H3 & H4); (split; [assumption|split; [assumption|split; [assumption|]]]); clear H1 H2 H3.
  - induction fs as [|f fs IH]; constructor; [apply H4 | apply IH, H4].
  - induction H4; [exact I | split; assumption].
Qed.

(* ---- custom classes: the driver's table against the specification's ------------------------------ *)
Lemma trim_prefix_firstn s pre :
  trim_prefix s pre = if zlist_eqb (firstn (length pre) s) pre then Some (skipn (length pre) s) else None.
Proof.
  revert s; induction pre as [|p pre IH]; intros s; [reflexivity|].
  cbn [trim_prefix length]. destruct s as [|c s]; [reflexivity|].
  cbn [firstn skipn zlist_eqb]. rewrite IH. destruct (c =? p); reflexivity.
Qed.

Lemma prefix_same : K.apacheCassandraTypePrefix = marshal_prefix.
Proof. vm_compute. reflexivity. Qed.

Lemma go_trim_is_strip c : go_trim_prefix c K.apacheCassandraTypePrefix = strip_marshal_prefix c.
Proof.
  unfold go_trim_prefix, strip_marshal_prefix. rewrite trim_prefix_firstn, prefix_same.
  destruct (zlist_eqb (firstn (length marshal_prefix) c) marshal_prefix); reflexivity.
Qed.

Ltac split_key k :=
  repeat match goal with
         | |- context [zlist_eqb k ?c] =>
             let E := fresh "E" in
             destruct (zlist_eqb k c) eqn:E;
             [ apply zlist_eqb_eq in E; subst k | ]
         end.

Lemma tables_agree k : ~ In k parameterised_classes ->
  match assoc_bytes k apache_names with Some t => t | None => K.TypeCustom end
  = match assoc_bytes k marshal_classes with Some id => id | None => 0 end.
Proof.
  intros Hk. unfold apache_names, marshal_classes. cbn [assoc_bytes].
  split_key k; try (vm_compute; reflexivity); try (exfalso; apply Hk; vm_compute; tauto);
    exfalso; match goal with E : zlist_eqb _ _ = false |- _ => vm_compute in E; discriminate E end.
Qed.

Lemma apache_is_class_native c : ~ In (strip_marshal_prefix c) parameterised_classes -> apache_type c = class_native c.
Proof. intros H. unfold apache_type, class_native. rewrite go_trim_is_strip. apply tables_agree, H. Qed.

Lemma class_native_range c : 0 <= class_native c <= 21.
Proof.
  unfold class_native. generalize (strip_marshal_prefix c) as k. intros k. unfold marshal_classes. cbn [assoc_bytes].
  split_key k; vm_compute; split; discriminate.
Qed.

(* ---- types ------------------------------------------------------------------------------------------ *)
Lemma enc_type_len_ge2 t : (2 <= length (enc_type t))%nat.
Proof. destruct t; cbn [enc_type]; unfold enc_short; cbn [app length]; lia. Qed.

Lemma tag_test (a b : Z) : a <> b -> (a =? b) = false.
Proof. intros H. apply Z.eqb_neq, H. Qed.

(* evaluate the tag tests of read_type for a concrete or range-bounded tag *)
Ltac tags :=
  repeat match goal with
         | |- context [?a =? ?b] =>
             first [ rewrite (tag_test a b) by (unfold K.TypeCustom, K.TypeTuple, K.TypeUDT, K.TypeMap, K.TypeList, K.TypeSet; lia)
                   | change (a =? b) with true | change (a =? b) with false ]
         end.

Lemma in_concat_le {A} (f : A -> bytes) x l : In x l -> (length (f x) <= length (concat (map f l)))%nat.
Proof.
  induction l as [|y l IH]; intros H; [contradiction|]. cbn [map concat]. rewrite app_length.
  destruct H as [-> | H]; [lia | specialize (IH H); lia].
Qed.

Lemma read_type_enc : forall t, wf_stype t -> forall fuel rest, (length (enc_type t) <= fuel)%nat ->
  out (read_type fuel) (enc_type t ++ rest) = Ok (view_type t, rest).
Proof.
  induction t as [c | id | e IH | k v IHk IHv | e IH | ks n fs IH | es IH] using stype_ind2; intros Hwf fuel rest Hf;
    (destruct fuel as [|fuel];
     [exfalso; match goal with H : (length (enc_type ?t) <= 0)%nat |- _ => pose proof (enc_type_len_ge2 t); lia end|]).
  - (* custom *)
    destruct Hwf as [Hs Hp]. cbn [enc_type read_type]. rewrite <- !app_assoc. obind. rewrite read_short_enc by lia.
    tags. obind. obind. rewrite read_string_enc by assumption. rewrite out_ret. cbn [fst snd].
    rewrite apache_is_class_native by assumption. pose proof (class_native_range c) as Hr.
    replace (if class_native c =? K.TypeCustom then 0 else class_native c) with (class_native c)
      by (destruct (Z.eqb_spec (class_native c) K.TypeCustom) as [E|E]; [rewrite E; reflexivity | reflexivity]).
    tags. cbn [orb]. rewrite out_ret. reflexivity.
  - (* native *)
    cbn [wf_stype] in Hwf. cbn [enc_type read_type]. obind. rewrite read_short_enc by lia.
    tags. obind. rewrite out_ret. cbn [fst snd]. tags. cbn [orb]. rewrite out_ret. reflexivity.
  - (* list *)
    cbn [wf_stype] in Hwf. cbn [enc_type read_type] in *. rewrite <- !app_assoc. obind. rewrite read_short_enc by lia.
    tags. obind. rewrite out_ret. cbn [fst snd]. tags. cbn [orb]. obind. rewrite out_ret. obind.
    rewrite app_length in Hf. cbn [enc_short length] in Hf.
    rewrite IH by (try assumption; lia). rewrite out_ret. reflexivity.
  - (* map *)
    destruct Hwf as [Hk Hv]. cbn [enc_type read_type] in *. rewrite <- !app_assoc. obind. rewrite read_short_enc by lia.
    tags. obind. rewrite out_ret. cbn [fst snd]. tags. cbn [orb]. obind. obind.
    rewrite !app_length in Hf. cbn [enc_short length] in Hf.
    rewrite IHk by (try assumption; lia). rewrite out_ret. obind. rewrite IHv by (try assumption; lia). rewrite out_ret. reflexivity.
  - (* set *)
    cbn [wf_stype] in Hwf. cbn [enc_type read_type] in *. rewrite <- !app_assoc. obind. rewrite read_short_enc by lia.
    tags. obind. rewrite out_ret. cbn [fst snd]. tags. cbn [orb]. obind. rewrite out_ret. obind.
    rewrite app_length in Hf. cbn [enc_short length] in Hf.
    rewrite IH by (try assumption; lia). rewrite out_ret. reflexivity.
  - (* udt *)
    apply wf_stype_udt in Hwf. destruct Hwf as (Hks & Hn & Hc & Hfs).
    rewrite enc_type_udt in *. rewrite view_type_udt. cbn [read_type]. rewrite <- !app_assoc. obind. rewrite read_short_enc by lia.
    tags. obind. rewrite out_ret. cbn [fst snd]. tags.
    obind. rewrite read_string_enc by assumption. obind. rewrite read_string_enc by assumption.
    obind. rewrite read_short_enc by (unfold count in *; lia). obind.
    rewrite !app_length in Hf. cbn [enc_short length] in Hf.
    assert (Hrc : out (read_count (nm <- read_string;; t <- read_type fuel;; alloc 160;;; ret (nm, t)) (count fs))
                      (concat (map enc_field fs) ++ rest) = Ok (map view_field fs, rest)).
    { (* read the fields as the images of their views *)
      clear Hc.
      assert (Hel : forall f, In f fs -> (length (enc_field f) <= fuel)%nat).
      { intros f Hin. pose proof (in_concat_le enc_field f fs Hin). lia. }
      clear Hf.
      unfold read_count, out. fold (out (read_loop (S (length (concat (map enc_field fs) ++ rest))) (nm <- read_string;; t <- read_type fuel;; alloc 160;;; ret (nm, t)) (count fs)) (concat (map enc_field fs) ++ rest)).
      assert (Hgen : forall fl, (length fs <= fl)%nat ->
                out (read_loop fl (nm <- read_string;; t <- read_type fuel;; alloc 160;;; ret (nm, t)) (count fs)) (concat (map enc_field fs) ++ rest)
                = Ok (map view_field fs, rest)).
      { induction fs as [|f fs IHfs]; intros fl Hfl.
        - destruct fl; reflexivity.
        - destruct fl as [|fl]; [simpl in Hfl; lia|]. cbn [read_loop].
          destruct (Z.leb_spec (count (f :: fs)) 0); [unfold count in *; simpl length in *; lia|].
          cbn [map concat]. unfold enc_field at 1. rewrite <- !app_assoc. obind. obind.
          inversion Hfs as [|? ? [Hfn Hft] Hfs']; subst. inversion IH as [|? ? IHf IH']; subst.
          rewrite read_string_enc by assumption. obind.
          rewrite IHf; [| assumption | specialize (Hel f (or_introl eq_refl)); unfold enc_field in Hel; rewrite app_length in Hel; lia].
          obind. rewrite out_alloc. rewrite out_ret. obind.
          replace (count (f :: fs) - 1) with (count fs) by (unfold count; simpl length; lia).
          rewrite IHfs; [reflexivity | assumption | assumption | intros g Hg; apply Hel; right; assumption | simpl in Hfl; lia]. }
      apply Hgen. rewrite app_length.
      assert ((length fs <= length (concat (map enc_field fs)))%nat).
      { apply length_concat_ge. intros f _. unfold enc_field. rewrite app_length. pose proof (enc_string_nonempty (fst f)). lia. }
      lia. }
    rewrite Hrc. rewrite out_ret. reflexivity.
  - (* tuple *)
    apply wf_stype_tuple in Hwf. destruct Hwf as [Hc Hes].
    rewrite enc_type_tuple in *. rewrite view_type_tuple. cbn [read_type]. rewrite <- !app_assoc. obind. rewrite read_short_enc by lia.
    tags. obind. rewrite out_ret. cbn [fst snd]. tags.
    obind. rewrite read_short_enc by (unfold count in *; lia). obind.
    rewrite !app_length in Hf. cbn [enc_short length] in Hf.
    assert (Hrc : out (read_count (t <- read_type fuel;; alloc 80;;; ret t) (count es)) (concat (map enc_type es) ++ rest) = Ok (map view_type es, rest)).
    { assert (Hel : forall e, In e es -> (length (enc_type e) <= fuel)%nat).
      { intros e Hin. pose proof (in_concat_le enc_type e es Hin). lia. }
      clear Hf Hc.
      unfold read_count, out. fold (out (read_loop (S (length (concat (map enc_type es) ++ rest))) (t <- read_type fuel;; alloc 80;;; ret t) (count es)) (concat (map enc_type es) ++ rest)).
      assert (Hgen : forall fl, (length es <= fl)%nat ->
                out (read_loop fl (t <- read_type fuel;; alloc 80;;; ret t) (count es)) (concat (map enc_type es) ++ rest) = Ok (map view_type es, rest)).
      { induction es as [|e es IHes]; intros fl Hfl.
        - destruct fl; reflexivity.
        - destruct fl as [|fl]; [simpl in Hfl; lia|]. cbn [read_loop].
          destruct (Z.leb_spec (count (e :: es)) 0); [unfold count in *; simpl length in *; lia|].
          cbn [map concat]. rewrite <- !app_assoc. obind. obind.
          inversion Hes as [|? ? He Hes']; subst. inversion IH as [|? ? IHe IH']; subst.
          rewrite IHe; [| assumption | apply Hel; left; reflexivity]. obind. rewrite out_alloc. rewrite out_ret. obind.
          replace (count (e :: es) - 1) with (count es) by (unfold count; simpl length; lia).
          rewrite IHes; [reflexivity | assumption | assumption | intros g Hg; apply Hel; right; assumption | simpl in Hfl; lia]. }
      apply Hgen. rewrite app_length.
      assert ((length es <= length (concat (map enc_type es)))%nat).
      { apply length_concat_ge. intros e _. pose proof (enc_type_len_ge2 e). lia. }
      lia. }
    rewrite Hrc. rewrite out_ret. reflexivity.
Qed.

Lemma read_type_info_enc t rest : wf_stype t -> out read_type_info (enc_type t ++ rest) = Ok (view_type t, rest).
Proof.
  intros H. unfold read_type_info, out. fold (out (read_type (S (length (enc_type t ++ rest)))) (enc_type t ++ rest)).
  apply read_type_enc; [assumption|]. rewrite app_length. lia.
Qed.
