(* C04/Proofs1.v -- the parser monad, the primitive readers against the specification's notations
   (round trips), and the combinator lemmas used for the no-crash / fuel / consumption facts. *)
From GocqlV Require Import Lib.Base Gen.Consts C04.Model C04.Spec.

Arguments Z.mul : simpl never.
Arguments Z.add : simpl never.
Arguments Z.pow : simpl never.
Arguments Z.of_nat : simpl never.
Arguments Z.to_nat : simpl never.
Arguments Z.modulo : simpl never.
Arguments Z.div : simpl never.
Arguments Z.ltb : simpl never.
Arguments Z.leb : simpl never.
Arguments Z.eqb : simpl never.
Arguments Z.land : simpl never.

(* ---- the monad --------------------------------------------------------------------------------- *)
Definition rbind {A B} (r : res (A * bytes)) (f : A -> bytes -> res (B * bytes)) : res (B * bytes) :=
  match r with Ok (a, b') => f a b' | Err e => Err e | Crash c => Crash c end.

Lemma out_bind {A B} (p : P A) (f : A -> P B) b :
  out (bind p f) b = rbind (out p b) (fun a b' => out (f a) b').
Proof.
  unfold out, bind, rbind. destruct (p b) as [[[a b']|e|c] k]; simpl; try reflexivity.
  destruct (f a b'); reflexivity.
Qed.

Lemma out_ret {A} (a : A) b : out (ret a) b = Ok (a, b).
Proof. reflexivity. Qed.
Lemma out_fail {A} e b : out (@fail A e) b = Err e.
Proof. reflexivity. Qed.
Lemma out_crash {A} c b : out (@crash A c) b = Crash c.
Proof. reflexivity. Qed.
Lemma out_alloc n b : out (alloc n) b = Ok (tt, b).
Proof. reflexivity. Qed.
Lemma out_get_len b : out get_len b = Ok (blen b, b).
Proof. reflexivity. Qed.

Lemma blen_app a b : blen (a ++ b) = blen a + blen b.
Proof. unfold blen. rewrite app_length. lia. Qed.
Lemma blen_nonneg b : 0 <= blen b.
Proof. unfold blen. lia. Qed.
Lemma blen_cons x b : blen (x :: b) = 1 + blen b.
Proof. unfold blen. simpl length. lia. Qed.
Lemma blen_nil : blen [] = 0.
Proof. reflexivity. Qed.
Lemma len_blen b : len b = blen b.
Proof. reflexivity. Qed.

Lemma out_need_ok n b : n <= blen b -> out (need n) b = Ok (tt, b).
Proof. intros H. unfold out, need. destruct (Z.ltb_spec (blen b) n); [lia | reflexivity]. Qed.
Lemma out_need_short n b : blen b < n -> out (need n) b = Err EShort.
Proof. intros H. unfold out, need. destruct (Z.ltb_spec (blen b) n); [reflexivity | lia]. Qed.

Lemma out_take_app c n s rest : blen s = n -> out (take c n) (s ++ rest) = Ok (s, rest).
Proof.
  intros H. unfold out, take. rewrite blen_app.
  pose proof (blen_nonneg s). pose proof (blen_nonneg rest).
  destruct (Z.ltb_spec n 0); [lia|]. destruct (Z.ltb_spec (blen s + blen rest) n); [lia|].
  simpl. unfold blen in H. replace (Z.to_nat n) with (length s) by lia.
  rewrite firstn_app, Nat.sub_diag, firstn_all, skipn_app, Nat.sub_diag, skipn_all. simpl. rewrite app_nil_r. reflexivity.
Qed.

Lemma out_take_ok c n b : 0 <= n <= blen b ->
  out (take c n) b = Ok (firstn (Z.to_nat n) b, skipn (Z.to_nat n) b).
Proof.
  intros H. unfold out, take. destruct (Z.ltb_spec n 0); [lia|]. destruct (Z.ltb_spec (blen b) n); [lia|]. reflexivity.
Qed.

Lemma out_take_crash c n b : n < 0 \/ blen b < n -> out (take c n) b = Crash c.
Proof.
  intros H. unfold out, take. destruct (Z.ltb_spec n 0); [reflexivity|]. destruct (Z.ltb_spec (blen b) n); [reflexivity|lia].
Qed.

(* ---- numbers ----------------------------------------------------------------------------------- *)
Lemma be_dec_1 a : be_dec [a] = a.
Proof. unfold be_dec. simpl. lia. Qed.
Lemma be_dec_2 a b : be_dec [a; b] = a * 256 + b.
Proof. unfold be_dec. simpl. lia. Qed.
Lemma be_dec_4 a b c d : be_dec [a; b; c; d] = ((a * 256 + b) * 256 + c) * 256 + d.
Proof. unfold be_dec. simpl. lia. Qed.

Lemma enc_short_val n : 0 <= n < 65536 -> be_dec (enc_short n) = n.
Proof. intros H. unfold enc_short. rewrite be_dec_2. lia. Qed.

Lemma enc_int_val n : - 2 ^ 31 <= n < 2 ^ 31 -> signed 32 (be_dec (enc_int n)) = n.
Proof.
  intros H. unfold enc_int. cbv zeta. rewrite be_dec_4.
  set (u := n mod 2 ^ 32).
  assert (Hu : 0 <= u < 2 ^ 32) by (subst u; apply Z.mod_pos_bound; lia).
  replace (((u / 2 ^ 24 * 256 + u / 2 ^ 16 mod 256) * 256 + u / 2 ^ 8 mod 256) * 256 + u mod 256) with u.
  2:{ change (2 ^ 24) with 16777216. change (2 ^ 16) with 65536. change (2 ^ 8) with 256. change (2 ^ 32) with 4294967296 in Hu. lia. }
  unfold signed. replace (u mod 2 ^ 32) with u by (symmetry; apply Z.mod_small; lia).
  subst u. change (2 ^ (32 - 1)) with 2147483648. change (2 ^ 32) with 4294967296 in *. change (2 ^ 31) with 2147483648 in H.
  destruct (Z.ltb_spec (n mod 4294967296) 2147483648); lia.
Qed.

Lemma wf_enc_short n : wf_bytes (enc_short n).
Proof. unfold enc_short, wf_bytes. repeat constructor; unfold is_byte; lia. Qed.
Lemma wf_enc_int n : wf_bytes (enc_int n).
Proof.
  unfold enc_int, wf_bytes. cbv zeta.
  assert (0 <= n mod 2 ^ 32 < 2 ^ 32) by (apply Z.mod_pos_bound; lia).
  change (2 ^ 32) with 4294967296 in *. change (2 ^ 24) with 16777216. change (2 ^ 16) with 65536. change (2 ^ 8) with 256.
  repeat constructor; unfold is_byte; lia.
Qed.

Lemma blen_enc_short n : blen (enc_short n) = 2.
Proof. reflexivity. Qed.
Lemma blen_enc_int n : blen (enc_int n) = 4.
Proof. reflexivity. Qed.

(* ---- primitive readers against the notations --------------------------------------------------- *)
Ltac obind := rewrite out_bind; unfold rbind.

Lemma read_short_enc n rest : 0 <= n < 65536 -> out read_short (enc_short n ++ rest) = Ok (n, rest).
Proof.
  intros H. unfold read_short. obind. rewrite out_need_ok by (rewrite blen_app, blen_enc_short; pose proof (blen_nonneg rest); lia).
  obind. rewrite out_take_app by reflexivity. rewrite out_ret, enc_short_val by assumption. reflexivity.
Qed.

Lemma read_int_enc n rest : - 2 ^ 31 <= n < 2 ^ 31 -> out read_int (enc_int n ++ rest) = Ok (n, rest).
Proof.
  intros H. unfold read_int. obind. rewrite out_need_ok by (rewrite blen_app, blen_enc_int; pose proof (blen_nonneg rest); lia).
  obind. rewrite out_take_app by reflexivity. rewrite out_ret, enc_int_val by assumption. reflexivity.
Qed.

Lemma read_byte_enc x rest : out read_byte (x :: rest) = Ok (x, rest).
Proof.
  unfold read_byte. obind. rewrite out_need_ok by (rewrite blen_cons; pose proof (blen_nonneg rest); lia).
  obind. change (x :: rest) with ([x] ++ rest). rewrite out_take_app by reflexivity. rewrite out_ret, be_dec_1. reflexivity.
Qed.

Lemma read_string_enc s rest : len s < 65536 -> out read_string (enc_string s ++ rest) = Ok (s, rest).
Proof.
  intros H. unfold read_string, enc_string. rewrite <- app_assoc. obind.
  rewrite read_short_enc by (rewrite len_blen in *; pose proof (blen_nonneg s); lia).
  obind. rewrite out_need_ok by (rewrite blen_app; pose proof (blen_nonneg rest); rewrite len_blen; lia).
  obind. rewrite out_take_app by reflexivity. obind. rewrite out_alloc, out_ret. reflexivity.
Qed.

Lemma read_short_bytes_enc s rest : len s < 65536 -> out read_short_bytes (enc_short_bytes s ++ rest) = Ok (s, rest).
Proof.
  intros H. unfold read_short_bytes, enc_short_bytes. rewrite <- app_assoc. obind.
  rewrite read_short_enc by (rewrite len_blen in *; pose proof (blen_nonneg s); lia).
  obind. rewrite out_need_ok by (rewrite blen_app; pose proof (blen_nonneg rest); rewrite len_blen; lia).
  rewrite out_take_app by reflexivity. reflexivity.
Qed.

Lemma read_bytes_enc v rest : wf_opt_bytes v -> out read_bytes (enc_bytes v ++ rest) = Ok (v, rest).
Proof.
  intros H. unfold read_bytes, enc_bytes. destruct v as [s|].
  - simpl in H. rewrite <- app_assoc. obind. rewrite len_blen in *. pose proof (blen_nonneg s).
    rewrite read_int_enc by lia. destruct (Z.ltb_spec (blen s) 0); [lia|].
    obind. rewrite out_need_ok by (rewrite blen_app; pose proof (blen_nonneg rest); lia).
    obind. rewrite out_take_app by reflexivity. reflexivity.
  - obind. rewrite read_int_enc by lia. reflexivity.
Qed.

Lemma read_uuid_enc u rest : length u = 16%nat -> out read_uuid (u ++ rest) = Ok (u, rest).
Proof.
  intros H. unfold read_uuid. obind.
  rewrite out_need_ok by (rewrite blen_app; unfold blen at 1; rewrite H; pose proof (blen_nonneg rest); lia).
  obind. rewrite out_take_app by (unfold blen; rewrite H; reflexivity). obind. rewrite out_alloc. reflexivity.
Qed.

(* a counted loop over encoded elements *)
Lemma read_loop_enc {A} (p : P A) (enc : A -> bytes) (xs : list A) :
  (forall x rest, In x xs -> out p (enc x ++ rest) = Ok (x, rest)) ->
  forall fuel rest, (length xs <= fuel)%nat ->
  out (read_loop fuel p (Z.of_nat (length xs))) (concat (map enc xs) ++ rest) = Ok (xs, rest).
Proof.
  induction xs as [|x xs IH]; intros Hp fuel rest Hf.
  - destruct fuel; reflexivity.
  - destruct fuel as [|fuel]; [simpl in Hf; lia|].
    cbn [read_loop]. destruct (Z.leb_spec (Z.of_nat (length (x :: xs))) 0); [simpl length in *; lia|].
    cbn [map concat]. rewrite <- app_assoc. obind. rewrite Hp by (left; reflexivity).
    obind. replace (Z.of_nat (length (x :: xs)) - 1) with (Z.of_nat (length xs)) by (simpl length; lia).
    rewrite IH; [reflexivity | intros; apply Hp; right; assumption | simpl in Hf; lia].
Qed.

Lemma length_concat_ge {A} (enc : A -> bytes) (xs : list A) :
  (forall x, In x xs -> (1 <= length (enc x))%nat) -> (length xs <= length (concat (map enc xs)))%nat.
Proof.
  induction xs as [|x xs IH]; intros H; simpl; [lia|]. rewrite app_length.
  specialize (H x (or_introl eq_refl)) as Hx. specialize (IH (fun y Hy => H y (or_intror Hy))). lia.
Qed.

Lemma read_count_enc {A} (p : P A) (enc : A -> bytes) (xs : list A) rest :
  (forall x rest, In x xs -> out p (enc x ++ rest) = Ok (x, rest)) ->
  (forall x, In x xs -> (1 <= length (enc x))%nat) ->
  out (read_count p (count xs)) (concat (map enc xs) ++ rest) = Ok (xs, rest).
Proof.
  intros Hp Hl. unfold read_count, out. fold (out (read_loop (S (length (concat (map enc xs) ++ rest))) p (count xs)) (concat (map enc xs) ++ rest)).
  unfold count. apply read_loop_enc; [assumption|]. rewrite app_length. pose proof (length_concat_ge enc xs Hl). lia.
Qed.

Lemma enc_string_nonempty s : (1 <= length (enc_string s))%nat.
Proof. unfold enc_string, enc_short. simpl. lia. Qed.

Lemma read_string_list_enc l rest : wf_string_list l ->
  out read_string_list (enc_string_list l ++ rest) = Ok (l, rest).
Proof.
  intros [Hc Hl]. unfold read_string_list, enc_string_list. rewrite <- app_assoc. obind.
  rewrite read_short_enc by (unfold count in *; lia). obind. rewrite out_alloc.
  apply read_count_enc.
  - intros x r Hx. apply read_string_enc. rewrite Forall_forall in Hl. apply Hl, Hx.
  - intros x _. apply enc_string_nonempty.
Qed.

Lemma enc_string_list_nonempty l : (1 <= length (enc_string_list l))%nat.
Proof. unfold enc_string_list, enc_short. simpl. lia. Qed.

Lemma read_string_multimap_enc m rest : wf_multimap m ->
  out read_string_multimap (enc_string_multimap m ++ rest) = Ok (m, rest).
Proof.
  intros [Hc Hm]. unfold read_string_multimap, enc_string_multimap. rewrite <- app_assoc. obind.
  rewrite read_short_enc by (unfold count in *; lia). obind. rewrite out_alloc.
  apply read_count_enc.
  - intros [k v] r Hx. rewrite Forall_forall in Hm. destruct (Hm _ Hx) as [Hk Hv]. cbn [fst snd] in *.
    rewrite <- app_assoc. obind. rewrite read_string_enc by assumption. obind. rewrite read_string_list_enc by assumption. reflexivity.
  - intros [k v] _. cbn [fst snd]. rewrite app_length. pose proof (enc_string_nonempty k). lia.
Qed.

Lemma read_bytes_map_enc m rest : wf_bytes_map m ->
  out read_bytes_map (enc_bytes_map m ++ rest) = Ok (m, rest).
Proof.
  intros [Hc Hm]. unfold read_bytes_map, enc_bytes_map. rewrite <- app_assoc. obind.
  rewrite read_short_enc by (unfold count in *; lia). obind. rewrite out_alloc.
  apply read_count_enc.
  - intros [k v] r Hx. rewrite Forall_forall in Hm. destruct (Hm _ Hx) as [Hk Hv]. cbn [fst snd] in *.
    rewrite <- app_assoc. obind. rewrite read_string_enc by assumption. obind. rewrite read_bytes_enc by assumption. reflexivity.
  - intros [k v] _. cbn [fst snd]. rewrite app_length. pose proof (enc_string_nonempty k). lia.
Qed.

Lemma read_inet_addr_enc a rest : wf_addr a -> out read_inet_addr (enc_inetaddr a ++ rest) = Ok (a, rest).
Proof.
  intros Ha. unfold read_inet_addr, enc_inetaddr. cbn [app].
  assert (Hl : len a = 4 \/ len a = 16) by (unfold len; destruct Ha as [-> | ->]; [left|right]; reflexivity).
  obind. rewrite out_need_ok by (rewrite blen_cons, blen_app; pose proof (blen_nonneg a); pose proof (blen_nonneg rest); lia).
  obind. change (len a :: a ++ rest) with ([len a] ++ (a ++ rest)). rewrite out_take_app by reflexivity.
  rewrite be_dec_1.
  replace (negb ((len a =? 4) || (len a =? 16))) with false
    by (destruct Hl as [-> | ->]; reflexivity).
  obind. rewrite out_need_ok by (rewrite blen_app; rewrite len_blen; pose proof (blen_nonneg rest); lia).
  obind. rewrite out_alloc. apply out_take_app. reflexivity.
Qed.

Lemma read_inet_enc a port rest : wf_addr a -> - 2 ^ 31 <= port < 2 ^ 31 ->
  out read_inet (enc_inet a port ++ rest) = Ok ((a, port), rest).
Proof.
  intros Ha Hp. unfold read_inet, enc_inet. rewrite <- app_assoc. obind. rewrite read_inet_addr_enc by assumption.
  obind. rewrite read_int_enc by assumption. reflexivity.
Qed.

