(* C04/Refuted.v -- where the code as it is does NOT decode a well-formed response to what the server
   said: the Scanner API on rows with a tuple column that is not the last column. *)
From GocqlV Require Import Lib.Base Gen.Consts C04.Model C04.Spec.
Open Scope Z_scope.

(* columns (t tuple<int,int>, c int), one row ((1, 2), 3): Iter.Scan delivers the three values;
   Iter.Scanner().Scan looks the second column's cell up at index 2 of a two-cell row and panics.
   The full statement of C04_scanner without its hypothesis is therefore false. *)
Definition w_cols : list scol :=
  [ {| sc_ks := [107]; sc_table := [116]; sc_name := [116]; sc_type := STuple [SNative 9; SNative 9] |};
    {| sc_ks := [107]; sc_table := [116]; sc_name := [99]; sc_type := SNative 9 |} ].
Definition w_meta : smeta := {| sm_global := None; sm_paging := None; sm_nometa := false; sm_count := 2; sm_cols := w_cols |}.
Definition w_row : list scell := [CellTuple (Some [Some [0;0;0;1]; Some [0;0;0;2]]); CellVal (Some [0;0;0;3])].

Theorem C04_scanner_refuted :
  wf_meta w_meta /\ wf_row w_cols w_row
  /\ iter_scans 1 (view_meta w_meta) 1 (scan_width w_cols) {| it_pos := 0; it_err := None; it_buf := enc_rows [w_row] |}
     = [SRow (view_row w_cols w_row)]
  /\ scanner_steps 1 (view_meta w_meta) 1 (scan_width w_cols) {| it_pos := 0; it_err := None; it_buf := enc_rows [w_row] |}
     = [SPanic CScannerIdx].
Proof.
  split.
  { unfold wf_meta, w_meta. cbn [sm_global sm_paging sm_nometa sm_count sm_cols]. split; [exact I|]. split; [exact I|].
    split; [lia|]. intros _. split; [reflexivity|].
    repeat constructor; cbn; unfold wf_string, len; cbn; lia. }
  split.
  { unfold w_cols, w_row. repeat constructor; cbn; unfold len; cbn; lia. }
  split; vm_compute; reflexivity.
Qed.

(* three columns (t tuple<int,int>, a int, b int): no panic for the second column, the wrong cell *)
Definition w_cols3 : list scol :=
  [ {| sc_ks := []; sc_table := []; sc_name := [116]; sc_type := STuple [] |};
    {| sc_ks := []; sc_table := []; sc_name := [97]; sc_type := SNative 9 |} ].
Theorem C04_scanner_refuted_wrong_cell :
  scanner_steps 1 (view_meta {| sm_global := None; sm_paging := None; sm_nometa := false; sm_count := 2; sm_cols := w_cols3 |}) 1 1
                {| it_pos := 0; it_err := None; it_buf := enc_rows [[CellTuple None; CellVal (Some [7])]] |}
  = [SRow [{| cell_type := TNative 9 []; cell_data := None |}]].      (* the tuple's null instead of 07 *)
Proof. vm_compute. reflexivity. Qed.
