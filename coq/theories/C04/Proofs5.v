(* C04/Proofs5.v -- the Scanner API (Iter.Scanner: Next then Scan).  iterScanner.Scan finds the cell of a
   column at the index of the *destination*, so it delivers the right cells exactly when every column
   but the last scans into one destination. *)
From GocqlV Require Import Lib.Base Gen.Consts C04.Model C04.Spec C04.Proofs1 C04.Proofs2 C04.Proofs3 C04.Proofs4.

Arguments Z.mul : simpl never.
Arguments Z.add : simpl never.
Arguments Z.pow : simpl never.
Arguments Z.of_nat : simpl never.
Arguments Z.to_nat : simpl never.
Arguments Z.ltb : simpl never.
Arguments Z.leb : simpl never.
Arguments Z.eqb : simpl never.
Arguments Z.gtb : simpl never.
Arguments Z.geb : simpl never.

Ltac obind := rewrite out_bind; unfold rbind.

(* the [bytes] a cell is on the wire *)
Definition raw_cell (c : scell) : option bytes :=
  match c with
  | CellVal v => v
  | CellTuple None => None
  | CellTuple (Some comps) => Some (concat (map enc_bytes comps))
  end.

Lemma enc_cell_raw c : enc_cell c = enc_bytes (raw_cell c).
Proof. destruct c as [v|[comps|]]; reflexivity. Qed.

Lemma wf_cell_raw col c : wf_cell col c -> wf_opt_bytes (raw_cell c).
Proof.
  unfold wf_cell. destruct (sc_type col); destruct c as [v|[comps|]]; cbn [raw_cell wf_opt_bytes]; try tauto.
Qed.

Lemma read_cells_enc g : forall cols row rest, wf_row cols row ->
  out (read_cells (map (view_col g) cols)) (enc_row row ++ rest) = Ok (map raw_cell row, rest).
Proof.
  induction cols as [|c cols IH]; intros row rest Hw; inversion Hw as [|? cellv ? row' Hc Hrow]; subst; [reflexivity|].
  cbn [map read_cells]. unfold enc_row. cbn [map concat]. rewrite <- app_assoc. obind.
  rewrite enc_cell_raw. rewrite read_column_enc by (eapply wf_cell_raw; eassumption).
  obind. fold (enc_row row'). rewrite IH by assumption. rewrite out_ret. reflexivity.
Qed.

(* every column but the last scans into exactly one destination *)
Definition one_dest_before_last (cols : list scol) : Prop := Forall (fun c => col_width c = 1) (removelast cols).

Lemma removelast_cons2 {A} (x y : A) l : removelast (x :: y :: l) = x :: removelast (y :: l).
Proof. reflexivity. Qed.

Lemma nth_error_app_len {A} (l1 l2 : list A) x : nth_error (l1 ++ x :: l2) (length l1) = Some x.
Proof. induction l1 as [|y l1 IH]; [reflexivity | exact IH]. Qed.

Lemma scanner_cols_enc g : forall todo (done : list scol) (row_done row_todo : list scell),
  length row_done = length done -> Forall no_empty_tuple todo -> wf_row todo row_todo -> one_dest_before_last todo ->
  scanner_cols (map (view_col g) todo) (map raw_cell (row_done ++ row_todo)) (length done) (scan_width todo)
  = Ok (view_row todo row_todo).
Proof.
  induction todo as [|c todo IH]; intros done row_done row_todo Hlen Hne Hw H1;
    inversion Hw as [|? cellv ? row' Hc Hrow]; subst; [reflexivity|].
  inversion Hne as [|? ? Hc1 Hne']; subst. pose proof (col_width_pos c Hc1) as Hpos. pose proof (scan_width_nonneg todo) as Hnn.
  cbn [map scanner_cols]. rewrite map_app. cbn [map]. rewrite <- Hlen, <- (map_length raw_cell row_done).
  rewrite nth_error_app_len. rewrite map_length. rewrite Hlen.
  rewrite scan_width_cons. destruct (Z.leb_spec (col_width c + scan_width todo) 0); [lia|].
  unfold view_row. cbn [combine map concat fst snd]. unfold view_cells. unfold view_col at 1. cbn [c_type].
  (* the continuation: the next column is looked up at index length done + width c *)
  assert (Hnext : forall w, (todo = [] \/ w = 1%nat) ->
            scanner_cols (map (view_col g) todo) (map raw_cell row_done ++ raw_cell cellv :: map raw_cell row') (length done + w)
                         (scan_width todo) = Ok (view_row todo row')).
  { intros w Hw1. destruct Hw1 as [-> | ->].
    - inversion Hrow; subst. reflexivity.
    - replace (length done + 1)%nat with (length (done ++ [c])) by (rewrite app_length; simpl; lia).
      replace (map raw_cell row_done ++ raw_cell cellv :: map raw_cell row') with (map raw_cell ((row_done ++ [cellv]) ++ row'))
        by (rewrite !map_app; cbn [map]; rewrite <- app_assoc; reflexivity).
      apply IH; [rewrite !app_length; simpl; lia | assumption | assumption |].
      unfold one_dest_before_last in *. destruct todo as [|c2 todo2]; [constructor|]. rewrite removelast_cons2 in H1. inversion H1; assumption. }
  assert (Hw1 : todo = [] \/ col_width c = 1).
  { destruct todo as [|c2 todo2]; [left; reflexivity|]. right. unfold one_dest_before_last in H1. rewrite removelast_cons2 in H1. inversion H1; assumption. }
  unfold wf_cell in Hc. unfold col_width in *.
  destruct (sc_type c) as [cl|id|e|k v|e|ks n fs|es] eqn:Et; destruct cellv as [v0|comps]; try contradiction;
    try (cbn [view_type raw_cell];
         replace (1 + scan_width todo - 1) with (scan_width todo) by lia;
         replace (S (length done)) with (length done + 1)%nat by lia;
         rewrite Hnext by (right; reflexivity); reflexivity).
  (* tuple column *)
  rewrite view_type_tuple. rewrite map_length. fold (count es).
  destruct (Z.gtb_spec (count es) (count es + scan_width todo)); [lia|].
  assert (Hwn : todo = [] \/ length es = 1%nat) by (destruct Hw1 as [Hw1|Hw1]; [left; exact Hw1 | right; unfold count in Hw1; lia]).
  destruct comps as [comps|].
  - destruct Hc as (Hl & Hwf & Hsz). cbn [raw_cell opt_bytes]. rewrite unmarshal_tuple_cells_enc by assumption.
    replace (count es + scan_width todo - count es) with (scan_width todo) by lia. rewrite Hnext by assumption. reflexivity.
  - cbn [raw_cell opt_bytes].
    assert (U0 := unmarshal_tuple_cells_enc es [] ltac:(simpl; lia) ltac:(constructor)). cbn [map concat] in U0. rewrite U0.
    replace (count es + scan_width todo - count es) with (scan_width todo) by lia. rewrite Hnext by assumption. reflexivity.
Qed.

Lemma scanner_steps_enc m : sm_nometa m = false -> Forall no_empty_tuple (sm_cols m) -> one_dest_before_last (sm_cols m) ->
  forall rows pos, Forall (wf_row (sm_cols m)) rows -> 0 <= pos ->
  scanner_steps (S (length rows)) (view_meta m) (pos + count rows) (scan_width (sm_cols m))
                {| it_pos := pos; it_err := None; it_buf := enc_rows rows |}
  = map (fun r => SRow (view_row (sm_cols m) r)) rows ++ [SFalse None].
Proof.
  intros Hn Hne H1. induction rows as [|row rows IH]; intros pos Hw Hp.
  - cbn [scanner_steps scanner_step it_err it_pos length map app]. unfold count. cbn [length].
    destruct (Z.geb_spec pos (pos + Z.of_nat 0)); [reflexivity|lia].
  - inversion Hw; subst. cbn [length]. cbn [scanner_steps]. unfold scanner_step at 1. cbn [it_err it_pos it_buf].
    unfold count in *. cbn [length].
    destruct (Z.geb_spec pos (pos + Z.of_nat (S (length rows)))); [lia|].
    unfold enc_rows. cbn [map concat]. unfold view_meta at 1. cbn [m_cols]. rewrite Hn.
    rewrite read_cells_enc by assumption.
    unfold view_meta at 1 2. cbn [m_actual m_cols]. rewrite Hn. rewrite Z.eqb_refl. cbn [negb].
    pose proof (scanner_cols_enc (sm_global m) (sm_cols m) [] [] row eq_refl Hne ltac:(assumption) H1) as Hs.
    cbn [app length] in Hs. rewrite Hs.
    cbn [map app]. f_equal. fold (enc_rows rows).
    replace (pos + Z.of_nat (S (length rows))) with ((pos + 1) + Z.of_nat (length rows)) by lia.
    apply IH; [assumption | lia].
Qed.
