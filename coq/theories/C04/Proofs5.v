(* C04/Proofs5.v -- the Scanner API (Iter.Scanner: Next reads the cells of a row, Scan distributes them
   over the destinations): the same cells as Iter.Scan. *)
From GocqlV Require Import Lib.Base Gen.Consts C04.Model C04.Spec C04.Proofs1 C04.Proofs2 C04.Proofs3 C04.Proofs4.

Arguments Z.mul : simpl never.
Arguments Z.add : simpl never.
Arguments Z.pow : simpl never.
Arguments Z.of_nat : simpl never.
Arguments Z.to_nat : simpl never.
Arguments Z.ltb : simpl never.
Arguments Z.leb : simpl never.
Arguments Z.eqb : simpl never.
Arguments Z.gtb : simpl never.
Arguments Z.geb : simpl never.

Ltac obind := rewrite out_bind; unfold rbind.

(* the [bytes] a cell is on the wire *)
Definition raw_cell (c : scell) : option bytes :=
  match c with
  | CellVal v => v
  | CellTuple None => None
  | CellTuple (Some comps) => Some (concat (map enc_bytes comps))
  end.

Lemma enc_cell_raw c : enc_cell c = enc_bytes (raw_cell c).
Proof. destruct c as [v|[comps|]]; reflexivity. Qed.

Lemma wf_cell_raw col c : wf_cell col c -> wf_opt_bytes (raw_cell c).
Proof.
  unfold wf_cell. destruct (sc_type col); destruct c as [v|[comps|]]; cbn [raw_cell wf_opt_bytes]; try tauto.
Qed.

Lemma read_cells_enc g : forall cols row rest, wf_row cols row ->
  out (read_cells (map (view_col g) cols)) (enc_row row ++ rest) = Ok (map raw_cell row, rest).
Proof.
  induction cols as [|c cols IH]; intros row rest Hw; inversion Hw as [|? cellv ? row' Hc Hrow]; subst; [reflexivity|].
  cbn [map read_cells]. unfold enc_row. cbn [map concat]. rewrite <- app_assoc. obind.
  rewrite enc_cell_raw. rewrite read_column_enc by (eapply wf_cell_raw; eassumption).
  obind. fold (enc_row row'). rewrite IH by assumption. rewrite out_ret. reflexivity.
Qed.

Lemma scanner_cols_enc g : forall cols row, wf_row cols row ->
  scanner_cols (map (view_col g) cols) (map raw_cell row) (scan_width cols) = Ok (view_row cols row).
Proof.
  induction cols as [|c cols IH]; intros row Hw; inversion Hw as [|? cellv ? row' Hc Hrow]; subst; [reflexivity|].
  pose proof (scan_width_nonneg cols) as Hnn.
  cbn [map scanner_cols]. unfold view_row. cbn [combine map concat fst snd]. rewrite scan_width_cons.
  unfold wf_cell in Hc. unfold col_width in *. unfold view_cells.
  change (c_type (view_col g c)) with (view_type (sc_type c)).
  destruct (sc_type c) as [cl|id|e|k v|e|ks n fs|es] eqn:Et; destruct cellv as [v0|comps]; try contradiction;
    try (cbn [view_type raw_cell];
         destruct (Z.leb_spec (1 + scan_width cols) 0); [lia|];
         replace (1 + scan_width cols - 1) with (scan_width cols) by lia;
         rewrite IH by assumption; reflexivity).
  rewrite view_type_tuple. pose proof (Zle_0_nat (length es)) as Hce. fold (count es) in Hce.
  assert (Hcells : out (unmarshal_tuple_cells (map view_type es)) (opt_bytes (raw_cell (CellTuple comps)))
                   = Ok (pad_components es (match comps with Some l => l | None => [] end), [])).
  { destruct comps as [l|].
    - destruct Hc as (Hlen & Hwf & _). cbn [raw_cell opt_bytes]. apply unmarshal_tuple_cells_enc; assumption.
    - cbn [raw_cell opt_bytes]. assert (U0 := unmarshal_tuple_cells_enc es [] ltac:(simpl; lia) ltac:(constructor)). exact U0. }
  destruct (Z.leb_spec (count es + scan_width cols) 0) as [Hz|Hpos].
  - assert (es = []) by (apply count_zero_nil; lia). subst es. cbn [map].
    replace (count [] + scan_width cols) with (scan_width cols) by (unfold count; simpl length; lia).
    rewrite IH by assumption. cbn [pad_components app]. reflexivity.
  - rewrite map_length. fold (count es). destruct (Z.gtb_spec (count es) (count es + scan_width cols)); [lia|].
    rewrite Hcells. replace (count es + scan_width cols - count es) with (scan_width cols) by lia.
    rewrite IH by assumption. reflexivity.
Qed.

Lemma scanner_steps_enc m : sm_nometa m = false ->
  forall rows pos, Forall (wf_row (sm_cols m)) rows -> 0 <= pos ->
  scanner_steps (S (length rows)) (view_meta m) (pos + count rows) (scan_width (sm_cols m))
                {| it_pos := pos; it_err := None; it_buf := enc_rows rows |}
  = map (fun r => SRow (view_row (sm_cols m) r)) rows ++ [SFalse None].
Proof.
  intros Hn. induction rows as [|row rows IH]; intros pos Hw Hp.
  - cbn [scanner_steps scanner_step it_err it_pos length map app]. unfold count. cbn [length].
    destruct (Z.geb_spec pos (pos + Z.of_nat 0)); [reflexivity|lia].
  - inversion Hw; subst. cbn [length]. cbn [scanner_steps]. unfold scanner_step at 1. cbn [it_err it_pos it_buf].
    unfold count in *. cbn [length].
    destruct (Z.geb_spec pos (pos + Z.of_nat (S (length rows)))); [lia|].
    unfold enc_rows. cbn [map concat]. unfold view_meta at 1. cbn [m_cols]. rewrite Hn.
    rewrite read_cells_enc by assumption.
    unfold view_meta at 1 2. cbn [m_actual m_cols]. rewrite Hn. rewrite Z.eqb_refl. cbn [negb].
    rewrite scanner_cols_enc by assumption.
    cbn [map app]. f_equal. fold (enc_rows rows).
    replace (pos + Z.of_nat (S (length rows))) with ((pos + 1) + Z.of_nat (length rows)) by lia.
    apply IH; [assumption | lia].
Qed.
