(* C04/Spec.v -- independent specification: an *encoder* for response frames written from the native
   protocol specifications v1-v5 (sections 2 "Frame header", 3 "Notations", 4.2 "Responses", 9 "Error
   codes"), not from frame.go, and [view]: what a driver has to report for a response.

   The numeric constants below are the protocol documents' (the model takes its own from the Go source
   through Gen/Consts.v; the theorems of Props.v therefore also check that the two agree). *)
From Coq Require Import String Ascii.
From GocqlV Require Import Lib.Base C04.Model.

(* ---- section 3: notations ------------------------------------------------------------------- *)
Definition len (b : bytes) : Z := Z.of_nat (length b).
Definition count {A} (l : list A) : Z := Z.of_nat (length l).

(* [short]: 2 bytes unsigned, big endian *)
Definition enc_short (n : Z) : bytes := [n / 256 mod 256; n mod 256].
(* [int]: 4 bytes signed (two's complement), big endian *)
Definition enc_int (n : Z) : bytes :=
  let u := n mod 2 ^ 32 in [u / 2 ^ 24; u / 2 ^ 16 mod 256; u / 2 ^ 8 mod 256; u mod 256].
(* [string]: a [short] n followed by n bytes *)
Definition enc_string (s : bytes) : bytes := enc_short (len s) ++ s.
(* [bytes]: an [int] n followed by n bytes if n >= 0; n < 0: no bytes, the value is null *)
Definition enc_bytes (v : option bytes) : bytes :=
  match v with None => enc_int (-1) | Some b => enc_int (len b) ++ b end.
(* [short bytes] *)
Definition enc_short_bytes (b : bytes) : bytes := enc_short (len b) ++ b.
(* [string list]: a [short] n followed by n [string] *)
Definition enc_string_list (l : list bytes) : bytes := enc_short (count l) ++ concat (map enc_string l).
(* [string multimap]: a [short] n followed by n pairs <k><v>, k a [string], v a [string list] *)
Definition enc_string_multimap (m : list (bytes * list bytes)) : bytes :=
  enc_short (count m) ++ concat (map (fun kv => enc_string (fst kv) ++ enc_string_list (snd kv)) m).
(* [bytes map]: a [short] n followed by n pairs <k><v>, k a [string], v a [bytes] *)
Definition enc_bytes_map (m : list (bytes * option bytes)) : bytes :=
  enc_short (count m) ++ concat (map (fun kv => enc_string (fst kv) ++ enc_bytes (snd kv)) m).
(* [inetaddr]: one byte n (4 or 16) followed by n bytes; [inet]: [inetaddr] followed by an [int] port *)
Definition enc_inetaddr (a : bytes) : bytes := len a :: a.
Definition enc_inet (a : bytes) (port : Z) : bytes := enc_inetaddr a ++ enc_int port.
(* [uuid]: 16 bytes; [consistency]: a [short] *)

(* ---- [option]: type descriptors (section 4.2.5.2) -------------------------------------------- *)
Inductive stype :=
| SCustom (class : bytes)                 (* 0x0000 <string> *)
| SNative (id : Z)                        (* 0x0001 .. 0x0015: no value *)
| SList (e : stype)                       (* 0x0020 <option> *)
| SMap (k v : stype)                      (* 0x0021 <option><option> *)
| SSet (e : stype)                        (* 0x0022 <option> *)
| SUDT (ks name : bytes) (fields : list (bytes * stype))   (* 0x0030 <ks><udt_name><n><name_1><type_1>... *)
| STuple (elems : list stype).            (* 0x0031 <n><type_1>...<type_n> *)

Fixpoint enc_type (t : stype) : bytes :=
  match t with
  | SCustom c => enc_short 0 ++ enc_string c
  | SNative id => enc_short id
  | SList e => enc_short 32 ++ enc_type e
  | SMap k v => enc_short 33 ++ enc_type k ++ enc_type v
  | SSet e => enc_short 34 ++ enc_type e
  | SUDT ks name fields =>
      enc_short 48 ++ enc_string ks ++ enc_string name ++ enc_short (count fields)
      ++ (fix go (l : list (bytes * stype)) : bytes :=
            match l with [] => [] | (n, e) :: l' => (enc_string n ++ enc_type e) ++ go l' end) fields
  | STuple elems =>
      enc_short 49 ++ enc_short (count elems)
      ++ (fix go (l : list stype) : bytes := match l with [] => [] | e :: l' => enc_type e ++ go l' end) elems
  end.

(* the native type ids of the protocol documents (v5: 0x0001-0x0015 without 0x000A, which v1-v2 call text) *)
Definition native_ids : list Z := [1;2;3;4;5;6;7;8;9;10;11;12;13;14;15;16;17;18;19;20;21].

(* ---- result metadata (4.2.5.2, 4.2.5.4) ------------------------------------------------------ *)
Record scol := { sc_ks : bytes; sc_table : bytes; sc_name : bytes; sc_type : stype }.

Record smeta := {
  sm_global : option (bytes * bytes);   (* Global_tables_spec 0x0001: one <ks><table> for all columns *)
  sm_paging : option bytes;             (* Has_more_pages 0x0002: <paging_state> [bytes] *)
  sm_nometa : bool;                     (* No_metadata 0x0004: only flags, count (and paging state) *)
  sm_count : Z;                         (* <columns_count> *)
  sm_cols : list scol                   (* the column specs when No_metadata is not set *)
}.

Definition meta_flags (m : smeta) : Z :=
  (match sm_global m with Some _ => 1 | None => 0 end)
  + (match sm_paging m with Some _ => 2 | None => 0 end)
  + (if sm_nometa m then 4 else 0).

Definition enc_col (global : bool) (c : scol) : bytes :=
  (if global then [] else enc_string (sc_ks c) ++ enc_string (sc_table c))
  ++ enc_string (sc_name c) ++ enc_type (sc_type c).

Definition enc_meta_tail (m : smeta) : bytes :=
  (match sm_paging m with Some ps => enc_bytes (Some ps) | None => [] end)
  ++ (if sm_nometa m then []
      else (match sm_global m with Some (ks, tb) => enc_string ks ++ enc_string tb | None => [] end)
           ++ concat (map (enc_col (match sm_global m with Some _ => true | None => false end)) (sm_cols m))).

(* Rows / result metadata: <flags><columns_count>[<paging_state>][<global_table_spec>?<col_spec_1>...] *)
Definition enc_result_meta (m : smeta) : bytes :=
  enc_int (meta_flags m) ++ enc_int (sm_count m) ++ enc_meta_tail m.

(* Prepared metadata: v4+ adds <pk_count><pk_index_1>...<pk_index_n> after the column count *)
Definition enc_prepared_meta (v : Z) (pk : list Z) (m : smeta) : bytes :=
  enc_int (meta_flags m) ++ enc_int (sm_count m)
  ++ (if v >=? 4 then enc_int (count pk) ++ concat (map enc_short pk) else [])
  ++ enc_meta_tail m.

(* ---- responses (4.2) ------------------------------------------------------------------------- *)
Inductive sfail :=
| NumFailures (n : Z)                       (* v4: <numfailures> [int] *)
| ReasonMap (l : list (bytes * Z)).         (* v5: <reasonmap>: [int] n, n x (<endpoint> [inetaddr], <failurecode> [short]) *)

Inductive serr :=
| XPlain
| XUnavailable (cl required alive : Z)                            (* 0x1000 *)
| XWriteTimeout (cl received blockfor : Z) (write_type : bytes)   (* 0x1100 *)
| XReadTimeout (cl received blockfor data_present : Z)            (* 0x1200 *)
| XReadFailure (cl received blockfor : Z) (f : sfail) (data_present : Z)     (* 0x1300 *)
| XFunctionFailure (ks fn : bytes) (arg_types : list bytes)       (* 0x1400 *)
| XWriteFailure (cl received blockfor : Z) (f : sfail) (write_type : bytes)  (* 0x1500 *)
| XCDCWriteFailure                                                (* 0x1600 *)
| XCASWriteUnknown (cl received blockfor : Z)                     (* 0x1700 *)
| XAlreadyExists (ks table : bytes)                               (* 0x2400 *)
| XUnprepared (id : bytes).                                       (* 0x2500 *)

Definition err_code_of (x : serr) (plain : Z) : Z :=
  match x with
  | XPlain => plain
  | XUnavailable _ _ _ => 4096
  | XWriteTimeout _ _ _ _ => 4352
  | XReadTimeout _ _ _ _ => 4608
  | XReadFailure _ _ _ _ _ => 4864
  | XFunctionFailure _ _ _ => 5120
  | XWriteFailure _ _ _ _ _ => 5376
  | XCDCWriteFailure => 5632
  | XCASWriteUnknown _ _ _ => 5888
  | XAlreadyExists _ _ => 9216
  | XUnprepared _ => 9472
  end.

(* error codes without extra fields: server, protocol, bad credentials, overloaded, is-bootstrapping,
   truncate, syntax, unauthorized, invalid, config *)
Definition plain_error_codes : list Z := [0; 10; 256; 4097; 4098; 4099; 8192; 8448; 8704; 8960].

Definition enc_fail (f : sfail) : bytes :=
  match f with
  | NumFailures n => enc_int n
  | ReasonMap l => enc_int (count l) ++ concat (map (fun ac => enc_inetaddr (fst ac) ++ enc_short (snd ac)) l)
  end.

Definition enc_err (x : serr) : bytes :=
  match x with
  | XPlain => []
  | XUnavailable cl rq al => enc_short cl ++ enc_int rq ++ enc_int al
  | XWriteTimeout cl rc bf wt => enc_short cl ++ enc_int rc ++ enc_int bf ++ enc_string wt
  | XReadTimeout cl rc bf dp => enc_short cl ++ enc_int rc ++ enc_int bf ++ [dp]
  | XReadFailure cl rc bf f dp => enc_short cl ++ enc_int rc ++ enc_int bf ++ enc_fail f ++ [dp]
  | XFunctionFailure ks fn args => enc_string ks ++ enc_string fn ++ enc_string_list args
  | XWriteFailure cl rc bf f wt => enc_short cl ++ enc_int rc ++ enc_int bf ++ enc_fail f ++ enc_string wt
  | XCDCWriteFailure => []
  | XCASWriteUnknown cl rc bf => enc_short cl ++ enc_int rc ++ enc_int bf
  | XAlreadyExists ks tb => enc_string ks ++ enc_string tb
  | XUnprepared id => enc_short_bytes id
  end.

(* schema change: the body of RESULT kind 5 and of the SCHEMA_CHANGE event *)
Inductive schange :=
| ScKeyspace (change ks : bytes)
| ScTable (change ks name : bytes)
| ScType (change ks name : bytes)
| ScFunction (change ks name : bytes) (args : list bytes)
| ScAggregate (change ks name : bytes) (args : list bytes).

Definition sb (s : string) : bytes := map (fun a => Z.of_N (N_of_ascii a)) (list_ascii_of_string s).

(* v1-v2: <change><keyspace><table>, table empty for a keyspace change;
   v3+: <change_type><target><options> *)
Definition enc_schange (v : Z) (c : schange) : bytes :=
  if v <=? 2 then
    match c with
    | ScKeyspace ch ks => enc_string ch ++ enc_string ks ++ enc_string []
    | ScTable ch ks n => enc_string ch ++ enc_string ks ++ enc_string n
    | _ => []    (* not expressible before v3; excluded by wf_response *)
    end
  else
    match c with
    | ScKeyspace ch ks => enc_string ch ++ enc_string (sb "KEYSPACE") ++ enc_string ks
    | ScTable ch ks n => enc_string ch ++ enc_string (sb "TABLE") ++ enc_string ks ++ enc_string n
    | ScType ch ks n => enc_string ch ++ enc_string (sb "TYPE") ++ enc_string ks ++ enc_string n
    | ScFunction ch ks n args =>
        enc_string ch ++ enc_string (sb "FUNCTION") ++ enc_string ks ++ enc_string n ++ enc_string_list args
    | ScAggregate ch ks n args =>
        enc_string ch ++ enc_string (sb "AGGREGATE") ++ enc_string ks ++ enc_string n ++ enc_string_list args
    end.

(* a cell of a row is a [bytes]; for a tuple column its content is one [bytes] per component, in
   order (a UDT or tuple value may stop early: the missing components are null) *)
Inductive scell :=
| CellVal (v : option bytes)
| CellTuple (comps : option (list (option bytes))).

Inductive sresult :=
| RVoid                                                        (* kind 1 *)
| RRows (m : smeta) (rows : list (list scell))                 (* kind 2: <metadata><rows_count><rows_content> *)
| RSetKeyspace (ks : bytes)                                    (* kind 3 *)
| RPrepared (id : bytes) (pk : list Z) (req resp : smeta)      (* kind 4: <id><metadata>[<result_metadata> v2+] *)
| RSchemaChange (c : schange).                                 (* kind 5 *)

Definition enc_cell (c : scell) : bytes :=
  match c with
  | CellVal v => enc_bytes v
  | CellTuple None => enc_bytes None
  | CellTuple (Some comps) => enc_bytes (Some (concat (map enc_bytes comps)))
  end.
Definition enc_row (r : list scell) : bytes := concat (map enc_cell r).
Definition enc_rows (rows : list (list scell)) : bytes := concat (map enc_row rows).

Definition enc_result (v : Z) (r : sresult) : bytes :=
  match r with
  | RVoid => enc_int 1
  | RRows m rows => enc_int 2 ++ enc_result_meta m ++ enc_int (count rows) ++ enc_rows rows
  | RSetKeyspace ks => enc_int 3 ++ enc_string ks
  | RPrepared id pk req resp =>
      enc_int 4 ++ enc_short_bytes id ++ enc_prepared_meta v pk req ++ (if v >=? 2 then enc_result_meta resp else [])
  | RSchemaChange c => enc_int 5 ++ enc_schange v c
  end.

Inductive sevent :=
| EvTopology (change addr : bytes) (port : Z)     (* "TOPOLOGY_CHANGE" <change><inet> *)
| EvStatus (change addr : bytes) (port : Z)       (* "STATUS_CHANGE" <change><inet> *)
| EvSchema (c : schange).                         (* "SCHEMA_CHANGE" + schema change body *)

Definition enc_event (v : Z) (e : sevent) : bytes :=
  match e with
  | EvTopology ch a p => enc_string (sb "TOPOLOGY_CHANGE") ++ enc_string ch ++ enc_inet a p
  | EvStatus ch a p => enc_string (sb "STATUS_CHANGE") ++ enc_string ch ++ enc_inet a p
  | EvSchema c => enc_string (sb "SCHEMA_CHANGE") ++ enc_schange v c
  end.

Inductive response :=
| RespError (code : Z) (msg : bytes) (x : serr)    (* opcode 0x00: <code><message>[...] *)
| RespReady                                        (* 0x02 *)
| RespAuthenticate (class : bytes)                 (* 0x03 *)
| RespSupported (m : list (bytes * list bytes))    (* 0x06 *)
| RespResult (r : sresult)                         (* 0x08 *)
| RespEvent (e : sevent)                           (* 0x0C *)
| RespAuthChallenge (token : option bytes)         (* 0x0E *)
| RespAuthSuccess (token : option bytes).          (* 0x10 *)

Definition opcode_of (r : response) : Z :=
  match r with
  | RespError _ _ _ => 0 | RespReady => 2 | RespAuthenticate _ => 3 | RespSupported _ => 6
  | RespResult _ => 8 | RespEvent _ => 12 | RespAuthChallenge _ => 14 | RespAuthSuccess _ => 16
  end.

Definition enc_response (v : Z) (r : response) : bytes :=
  match r with
  | RespError code msg x => enc_int code ++ enc_string msg ++ enc_err x
  | RespReady => []
  | RespAuthenticate c => enc_string c
  | RespSupported m => enc_string_multimap m
  | RespResult r => enc_result v r
  | RespEvent e => enc_event v e
  | RespAuthChallenge t => enc_bytes t
  | RespAuthSuccess t => enc_bytes t
  end.

(* ---- the envelope: header flags and the body prefixes they announce (2.2, 4.2.x) ------------- *)
Record envelope := {
  e_trace : option bytes;                            (* flag 0x02: [uuid] tracing id, first *)
  e_warnings : option (list bytes);                  (* flag 0x08 (v4+): [string list], second *)
  e_payload : option (list (bytes * option bytes))   (* flag 0x04 (v4+): [bytes map], third *)
}.

Definition env_flags (e : envelope) : Z :=
  (match e_trace e with Some _ => 2 | None => 0 end)
  + (match e_payload e with Some _ => 4 | None => 0 end)
  + (match e_warnings e with Some _ => 8 | None => 0 end).

Definition enc_body (v : Z) (e : envelope) (r : response) : bytes :=
  (match e_trace e with Some u => u | None => [] end)
  ++ (match e_warnings e with Some w => enc_string_list w | None => [] end)
  ++ (match e_payload e with Some m => enc_bytes_map m | None => [] end)
  ++ enc_response v r.

(* the frame: v1-2 <version><flags><stream:1><opcode><length:4>, v3+ <version><flags><stream:2><opcode><length:4>;
   a response has the top bit of the version byte set; [extra_flags] carries e.g. the v5 beta bit *)
Definition enc_stream (v stream : Z) : bytes :=
  if v <=? 2 then [stream mod 256] else enc_short (stream mod 2 ^ 16).

Definition enc_frame (v stream extra_flags : Z) (e : envelope) (r : response) : bytes :=
  let body := enc_body v e r in
  [128 + v; env_flags e + extra_flags] ++ enc_stream v stream ++ [opcode_of r] ++ enc_int (len body) ++ body.

(* ---- what the driver has to report ----------------------------------------------------------- *)
(* Cassandra's own marshal classes that implement a native protocol type; a custom type naming one
   of them is that native type *)
Definition marshal_prefix : bytes := sb "org.apache.cassandra.db.marshal.".
Definition marshal_classes : list (bytes * Z) :=
  [ (sb "AsciiType", 1); (sb "LongType", 2); (sb "BytesType", 3); (sb "BooleanType", 4);
    (sb "CounterColumnType", 5); (sb "DecimalType", 6); (sb "DoubleType", 7); (sb "FloatType", 8);
    (sb "Int32Type", 9); (sb "TimestampType", 11); (sb "DateType", 11); (sb "UUIDType", 12);
    (sb "LexicalUUIDType", 12); (sb "UTF8Type", 13); (sb "IntegerType", 14); (sb "TimeUUIDType", 15);
    (sb "InetAddressType", 16); (sb "TimeType", 18); (sb "ShortType", 19); (sb "ByteType", 20);
    (sb "DurationType", 21) ].
(* class names that denote parameterised types: never sent bare as a custom type *)
Definition parameterised_classes : list bytes := [sb "ListType"; sb "MapType"; sb "SetType"; sb "TupleType"].

Definition strip_marshal_prefix (c : bytes) : bytes :=
  if zlist_eqb (firstn (length marshal_prefix) c) marshal_prefix then skipn (length marshal_prefix) c else c.

Definition class_native (c : bytes) : Z :=
  match assoc_bytes (strip_marshal_prefix c) marshal_classes with Some id => id | None => 0 end.

Fixpoint view_type (t : stype) : tinfo :=
  match t with
  | SCustom c => TNative (class_native c) c
  | SNative id => TNative id []
  | SList e => TColl 32 [] None (view_type e)
  | SSet e => TColl 34 [] None (view_type e)
  | SMap k v => TColl 33 [] (Some (view_type k)) (view_type v)
  | SUDT ks name fields =>
      TUDT [] ks name ((fix go (l : list (bytes * stype)) : list (bytes * tinfo) :=
                          match l with [] => [] | (n, e) :: l' => (n, view_type e) :: go l' end) fields)
  | STuple elems =>
      TTuple [] ((fix go (l : list stype) : list tinfo :=
                    match l with [] => [] | e :: l' => view_type e :: go l' end) elems)
  end.

Definition view_col (g : option (bytes * bytes)) (c : scol) : col :=
  {| c_ks := match g with Some (ks, _) => ks | None => sc_ks c end;
     c_table := match g with Some (_, tb) => tb | None => sc_table c end;
     c_name := sc_name c;
     c_type := view_type (sc_type c) |}.

(* number of values a row of these columns scans into: a tuple column counts once per component *)
Definition scan_width (cols : list scol) : Z :=
  fold_right (fun c a => (match sc_type c with STuple elems => count elems | _ => 1 end) + a) 0 cols.

Definition view_meta (m : smeta) : rmeta :=
  {| m_flags := meta_flags m;
     m_paging := match sm_paging m with Some ps => ps | None => [] end;
     m_cols := if sm_nometa m then [] else map (view_col (sm_global m)) (sm_cols m);
     m_colcount := sm_count m;
     m_actual := if sm_nometa m then sm_count m else scan_width (sm_cols m) |}.

Definition view_pmeta (v : Z) (pk : list Z) (m : smeta) : pmeta :=
  {| pm_meta := view_meta m;
     pm_pkeys := if v >=? 4 then pk else [];
     pm_ks := if sm_nometa m then [] else match sm_global m with Some (ks, _) => ks | None => [] end;
     pm_table := if sm_nometa m then [] else match sm_global m with Some (_, tb) => tb | None => [] end |}.

(* an endpoint is reported in text form, in which an IPv4-mapped IPv6 address reads as the IPv4 one *)
Definition endpoint_key (a : bytes) : bytes :=
  if (length a =? 16)%nat && zlist_eqb (firstn 12 a) [0;0;0;0;0;0;0;0;0;0;255;255] then skipn 12 a else a.

Definition view_fail_map (f : sfail) : list (bytes * Z) :=
  match f with NumFailures _ => [] | ReasonMap l => map (fun ac => (endpoint_key (fst ac), snd ac)) l end.
Definition view_fail_num (f : sfail) : Z :=
  match f with NumFailures n => n | ReasonMap l => count l end.

Definition view_err (x : serr) : errdetail :=
  match x with
  | XPlain => DPlain
  | XUnavailable cl rq al => DUnavailable cl rq al
  | XWriteTimeout cl rc bf wt => DWriteTimeout cl rc bf wt
  | XReadTimeout cl rc bf dp => DReadTimeout cl rc bf dp
  | XReadFailure cl rc bf f dp => DReadFailure cl rc bf (view_fail_num f) (negb (dp =? 0)) (view_fail_map f)
  | XFunctionFailure ks fn args => DFunctionFailure ks fn args
  | XWriteFailure cl rc bf f wt => DWriteFailure cl rc bf (view_fail_num f) wt (view_fail_map f)
  | XCDCWriteFailure => DCDCWriteFailure
  | XCASWriteUnknown cl rc bf => DCASWriteUnknown cl rc bf
  | XAlreadyExists ks tb => DAlreadyExists ks tb
  | XUnprepared id => DUnprepared id
  end.

Definition view_schange (c : schange) : frame :=
  match c with
  | ScKeyspace ch ks => FSchemaKeyspace ch ks
  | ScTable ch ks n => FSchemaTable ch ks n
  | ScType ch ks n => FSchemaType ch ks n
  | ScFunction ch ks n args => FSchemaFunction ch ks n args
  | ScAggregate ch ks n args => FSchemaAggregate ch ks n args
  end.

Definition view_frame (v : Z) (r : response) : frame :=
  match r with
  | RespError code msg x => FError code msg (view_err x)
  | RespReady => FReady
  | RespAuthenticate c => FAuthenticate c
  | RespSupported m => FSupported m
  | RespResult RVoid => FVoid
  | RespResult (RRows m rows) => FRows (view_meta m) (count rows)
  | RespResult (RSetKeyspace ks) => FKeyspace ks
  | RespResult (RPrepared id pk req resp) =>
      FPrepared id (view_pmeta v pk req) (if v >=? 2 then Some (view_meta resp) else None)
  | RespResult (RSchemaChange c) => view_schange c
  | RespEvent (EvTopology ch a p) => FTopology ch a p
  | RespEvent (EvStatus ch a p) => FStatus ch a p
  | RespEvent (EvSchema c) => view_schange c
  | RespAuthChallenge t => FAuthChallenge t
  | RespAuthSuccess t => FAuthSuccess t
  end.

Definition view (v : Z) (e : envelope) (r : response) : parsed :=
  {| p_frame := view_frame v r; p_trace := e_trace e; p_warnings := e_warnings e; p_payload := e_payload e |}.

(* the part of the body a RESULT Rows leaves for row iteration *)
Definition rows_content (r : response) : bytes :=
  match r with RespResult (RRows _ rows) => enc_rows rows | _ => [] end.

(* what scanning the rows has to deliver: per row, one (type, value) per scan destination; a tuple
   column delivers one value per component (null for the components a short or null tuple lacks) *)
Fixpoint pad_components (elems : list stype) (comps : list (option bytes)) : list cell :=
  match elems with
  | [] => []
  | e :: rest =>
      match comps with
      | c :: comps' => {| cell_type := view_type e; cell_data := c |} :: pad_components rest comps'
      | [] => {| cell_type := view_type e; cell_data := None |} :: pad_components rest []
      end
  end.

Definition view_cells (c : scol) (v : scell) : list cell :=
  match sc_type c, v with
  | STuple elems, CellTuple comps => pad_components elems (match comps with Some l => l | None => [] end)
  | STuple _, CellVal _ => []          (* ill-typed: excluded by wf_row *)
  | t, CellVal v => [{| cell_type := view_type t; cell_data := v |}]
  | _, CellTuple _ => []               (* ill-typed: excluded by wf_row *)
  end.

Definition view_row (cols : list scol) (row : list scell) : list cell :=
  concat (map (fun cv => view_cells (fst cv) (snd cv)) (combine cols row)).

(* ---- well-formed responses: the size limits of the notations and the shapes the documents allow --- *)
Definition wf_string (s : bytes) : Prop := len s < 65536.                       (* [string]: [short] length *)
Definition wf_opt_bytes (v : option bytes) : Prop :=                              (* [bytes]: [int] length *)
  match v with Some b => len b < 2 ^ 31 | None => True end.
Definition wf_string_list (l : list bytes) : Prop := count l < 65536 /\ Forall wf_string l.
Definition wf_multimap (m : list (bytes * list bytes)) : Prop :=
  count m < 65536 /\ Forall (fun kv => wf_string (fst kv) /\ wf_string_list (snd kv)) m.
Definition wf_bytes_map (m : list (bytes * option bytes)) : Prop :=
  count m < 65536 /\ Forall (fun kv => wf_string (fst kv) /\ wf_opt_bytes (snd kv)) m.
Definition wf_addr (a : bytes) : Prop := length a = 4%nat \/ length a = 16%nat.      (* [inetaddr] *)
Definition wf_int (n : Z) : Prop := - 2 ^ 31 <= n < 2 ^ 31.                        (* [int] *)
Definition wf_short (n : Z) : Prop := 0 <= n < 65536.                              (* [short] *)

(* a custom type never names one of Cassandra's parameterised classes bare; native ids are the documented ones *)
Fixpoint wf_stype (t : stype) : Prop :=
  match t with
  | SCustom c => wf_string c /\ ~ In (strip_marshal_prefix c) parameterised_classes
  | SNative id => 1 <= id <= 21
  | SList e => wf_stype e
  | SSet e => wf_stype e
  | SMap k v => wf_stype k /\ wf_stype v
  | SUDT ks n fs =>
      wf_string ks /\ wf_string n /\ count fs < 65536
      /\ (fix go (l : list (bytes * stype)) : Prop :=
            match l with [] => True | f :: l' => (wf_string (fst f) /\ wf_stype (snd f)) /\ go l' end) fs
  | STuple es =>
      count es < 65536
      /\ (fix go (l : list stype) : Prop := match l with [] => True | e :: l' => wf_stype e /\ go l' end) es
  end.


Definition wf_col (c : scol) : Prop :=
  wf_string (sc_ks c) /\ wf_string (sc_table c) /\ wf_string (sc_name c) /\ wf_stype (sc_type c).

Definition wf_meta (m : smeta) : Prop :=
  (match sm_global m with Some (ks, tb) => wf_string ks /\ wf_string tb | None => True end)
  /\ wf_opt_bytes (sm_paging m)
  /\ 0 <= sm_count m < 2 ^ 31
  /\ (sm_nometa m = false -> sm_count m = count (sm_cols m) /\ Forall wf_col (sm_cols m)).

Definition wf_fail (v : Z) (f : sfail) : Prop :=
  match f with
  | NumFailures n => v <= 4 /\ wf_int n
  | ReasonMap l =>
      5 <= v /\ count l < 2 ^ 31 /\ Forall (fun ac => wf_addr (fst ac) /\ wf_short (snd ac)) l
      /\ NoDup (map (fun ac => endpoint_key (fst ac)) l)       (* one entry per endpoint *)
  end.

Definition wf_byte (b : Z) : Prop := 0 <= b < 256.

Definition wf_err (v code : Z) (x : serr) : Prop :=
  code = err_code_of x code /\
  match x with
  | XPlain => In code plain_error_codes
  | XUnavailable cl a b => wf_short cl /\ wf_int a /\ wf_int b
  | XWriteTimeout cl a b wt => wf_short cl /\ wf_int a /\ wf_int b /\ wf_string wt
  | XReadTimeout cl a b dp => wf_short cl /\ wf_int a /\ wf_int b /\ wf_byte dp
  | XReadFailure cl a b f dp => wf_short cl /\ wf_int a /\ wf_int b /\ wf_fail v f /\ wf_byte dp
  | XFunctionFailure ks fn args => wf_string ks /\ wf_string fn /\ wf_string_list args
  | XWriteFailure cl a b f wt => wf_short cl /\ wf_int a /\ wf_int b /\ wf_fail v f /\ wf_string wt
  | XCDCWriteFailure => True
  | XCASWriteUnknown cl a b => wf_short cl /\ wf_int a /\ wf_int b
  | XAlreadyExists ks tb => wf_string ks /\ wf_string tb
  | XUnprepared id => wf_string id
  end.

Definition wf_schange (v : Z) (c : schange) : Prop :=
  match c with
  | ScKeyspace ch ks => wf_string ch /\ wf_string ks
  | ScTable ch ks n => wf_string ch /\ wf_string ks /\ wf_string n /\ (v <= 2 -> n <> [])
  | ScType ch ks n => 3 <= v /\ wf_string ch /\ wf_string ks /\ wf_string n
  | ScFunction ch ks n args => 3 <= v /\ wf_string ch /\ wf_string ks /\ wf_string n /\ wf_string_list args
  | ScAggregate ch ks n args => 3 <= v /\ wf_string ch /\ wf_string ks /\ wf_string n /\ wf_string_list args
  end.

(* a cell fits its column: tuple columns carry tuple cells with at most as many components as the type *)
Definition wf_cell (c : scol) (v : scell) : Prop :=
  match sc_type c, v with
  | STuple elems, CellTuple None => True
  | STuple elems, CellTuple (Some comps) =>
      (length comps <= length elems)%nat /\ Forall wf_opt_bytes comps /\ len (concat (map enc_bytes comps)) < 2 ^ 31
  | STuple _, CellVal _ => False
  | _, CellVal v => wf_opt_bytes v
  | _, CellTuple _ => False
  end.

Definition wf_row (cols : list scol) (row : list scell) : Prop := Forall2 wf_cell cols row.

Definition wf_result (v : Z) (r : sresult) : Prop :=
  match r with
  | RVoid => True
  | RRows m rows =>
      wf_meta m /\ count rows < 2 ^ 31
      /\ (sm_nometa m = false -> Forall (wf_row (sm_cols m)) rows)
  | RSetKeyspace ks => wf_string ks
  | RPrepared id pk req resp =>
      wf_string id /\ count pk < 2 ^ 31 /\ Forall wf_short pk /\ wf_meta req /\ wf_meta resp
  | RSchemaChange c => wf_schange v c
  end.

Definition wf_event (v : Z) (e : sevent) : Prop :=
  match e with
  | EvTopology ch a p => wf_string ch /\ wf_addr a /\ wf_int p
  | EvStatus ch a p => wf_string ch /\ wf_addr a /\ wf_int p
  | EvSchema c => wf_schange v c
  end.

Definition wf_response (v : Z) (r : response) : Prop :=
  match r with
  | RespError code msg x => wf_int code /\ wf_string msg /\ wf_err v code x
  | RespReady => True
  | RespAuthenticate c => wf_string c
  | RespSupported m => wf_multimap m
  | RespResult r => wf_result v r
  | RespEvent e => wf_event v e
  | RespAuthChallenge t => wf_opt_bytes t
  | RespAuthSuccess t => wf_opt_bytes t
  end.

Definition wf_envelope (e : envelope) : Prop :=
  (match e_trace e with Some u => length u = 16%nat | None => True end)
  /\ (match e_warnings e with Some w => wf_string_list w | None => True end)
  /\ (match e_payload e with Some m => wf_bytes_map m | None => True end).

Definition wf_version (v : Z) : Prop := 1 <= v <= 5.
