(* C04/Proofs4.v -- the frame header, readFrame's checks, and row scanning: Scan delivers exactly the
   encoded cells (tuple columns component by component) and consumes the rows exactly. *)
From GocqlV Require Import Lib.Base Gen.Consts C04.Model C04.Spec C04.Proofs1 C04.Proofs2 C04.Proofs3.

Arguments Z.mul : simpl never.
Arguments Z.add : simpl never.
Arguments Z.pow : simpl never.
Arguments Z.of_nat : simpl never.
Arguments Z.to_nat : simpl never.
Arguments Z.modulo : simpl never.
Arguments Z.div : simpl never.
Arguments Z.ltb : simpl never.
Arguments Z.leb : simpl never.
Arguments Z.eqb : simpl never.
Arguments Z.gtb : simpl never.
Arguments Z.geb : simpl never.
Arguments Z.land : simpl never.

(* ---- header ------------------------------------------------------------------------------------------ *)
Lemma read_full_app n s rest : blen s = n -> 0 < n -> read_full n (s ++ rest) = Ok (s, rest).
Proof.
  intros H Hn. unfold read_full. rewrite blen_app. pose proof (blen_nonneg rest).
  destruct (Z.leb_spec n 0); [lia|]. destruct (Z.eqb_spec (blen s + blen rest) 0); [lia|].
  destruct (Z.ltb_spec (blen s + blen rest) n); [lia|].
  unfold blen in H. replace (Z.to_nat n) with (length s) by lia.
  rewrite firstn_app, Nat.sub_diag, firstn_all, skipn_app, Nat.sub_diag, skipn_all. simpl. rewrite app_nil_r. reflexivity.
Qed.

Definition wf_stream (v stream : Z) : Prop :=
  if v <=? 2 then - 128 <= stream < 128 else - 32768 <= stream < 32768.

Lemma signed16_enc s : - 32768 <= s < 32768 ->
  signed 16 ((s mod 2 ^ 16) / 256 mod 256 * 256 + (s mod 2 ^ 16) mod 256) = s.
Proof.
  intros H. change (2 ^ 16) with 65536.
  assert (Hu : 0 <= s mod 65536 < 65536) by (apply Z.mod_pos_bound; lia).
  replace (s mod 65536 / 256 mod 256 * 256 + s mod 65536 mod 256) with (s mod 65536) by lia.
  unfold signed. change (2 ^ 16) with 65536. change (2 ^ (16 - 1)) with 32768.
  rewrite Z.mod_mod by lia. destruct (Z.ltb_spec (s mod 65536) 32768); lia.
Qed.

Lemma sx8_enc s : - 128 <= s < 128 -> sx8 (s mod 256) = s.
Proof. intros H. unfold sx8. destruct (Z.ltb_spec (s mod 256) 128); lia. Qed.

Lemma read_header_enc v stream extra e r :
  wf_version v -> wf_stream v stream -> len (enc_body v e r) < 2 ^ 31 ->
  read_header (enc_frame v stream extra e r)
  = Ok ({| h_version := 128 + v; h_flags := env_flags e + extra; h_stream := stream; h_op := opcode_of r;
           h_length := len (enc_body v e r) |}, enc_body v e r).
Proof.
  intros Hv Hs Hl. unfold enc_frame. cbv zeta. set (body := enc_body v e r) in *.
  pose proof (blen_nonneg body) as Hb. rewrite len_blen in *.
  unfold wf_version in Hv. assert (v = 1 \/ v = 2 \/ v = 3 \/ v = 4 \/ v = 5) as Hc by lia.
  unfold read_header.
  assert (Hs8 : v <= 2 -> -128 <= stream < 128) by (unfold wf_stream in Hs; destruct (Z.leb_spec v 2); lia).
  assert (Hs16 : 3 <= v -> -32768 <= stream < 32768) by (unfold wf_stream in Hs; destruct (Z.leb_spec v 2); lia).
  clear Hs.
  destruct Hc as [-> | [-> | [-> | [-> | ->]]]].
  all: change ([128 + ?v; ?f] ++ ?x) with ([128 + v] ++ ([f] ++ x)).
  all: rewrite read_full_app; [| reflexivity | lia].
  all: rewrite be_dec_1.
  all: match goal with |- context [Z.land ?a K.protoVersionMask] =>
         let t := eval vm_compute in (Z.land a K.protoVersionMask) in change (Z.land a K.protoVersionMask) with t end.
  all: repeat match goal with
              | |- context [?a <? ?b] => let t := eval vm_compute in (a <? b) in change (a <? b) with t
              | |- context [?a >? ?b] => let t := eval vm_compute in (a >? b) in change (a >? b) with t
              end; cbv beta iota.
  all: unfold enc_stream; match goal with |- context [?a <=? 2] => let t := eval vm_compute in (a <=? 2) in change (a <=? 2) with t end; cbv beta iota.
  all: cbn [orb]; cbv beta iota.
  - change ([?f] ++ [?s] ++ [?o] ++ enc_int ?l ++ body) with (([f; s; o] ++ enc_int l) ++ body).
    rewrite read_full_app; [| reflexivity | lia]. cbn [nth app skipn]. rewrite enc_int_val by lia. rewrite sx8_enc by lia. reflexivity.
  - change ([?f] ++ [?s] ++ [?o] ++ enc_int ?l ++ body) with (([f; s; o] ++ enc_int l) ++ body).
    rewrite read_full_app; [| reflexivity | lia]. cbn [nth app skipn]. rewrite enc_int_val by lia. rewrite sx8_enc by lia. reflexivity.
  - change ([?f] ++ enc_short ?s ++ [?o] ++ enc_int ?l ++ body) with (([f] ++ enc_short s ++ [o] ++ enc_int l) ++ body).
    rewrite read_full_app; [| reflexivity | lia]. unfold enc_short. cbn [nth app skipn]. rewrite enc_int_val by lia.
    rewrite signed16_enc by lia. reflexivity.
  - change ([?f] ++ enc_short ?s ++ [?o] ++ enc_int ?l ++ body) with (([f] ++ enc_short s ++ [o] ++ enc_int l) ++ body).
    rewrite read_full_app; [| reflexivity | lia]. unfold enc_short. cbn [nth app skipn]. rewrite enc_int_val by lia.
    rewrite signed16_enc by lia. reflexivity.
  - change ([?f] ++ enc_short ?s ++ [?o] ++ enc_int ?l ++ body) with (([f] ++ enc_short s ++ [o] ++ enc_int l) ++ body).
    rewrite read_full_app; [| reflexivity | lia]. unfold enc_short. cbn [nth app skipn]. rewrite enc_int_val by lia.
    rewrite signed16_enc by lia. reflexivity.
Qed.

Lemma read_frame_exact flags body : len body <= K.maxFrameSize -> has_flag flags K.flagCompress = false ->
  read_frame (len body) flags body = Ok (body, []).
Proof.
  intros Hl Hf. unfold read_frame, read_frame_check. rewrite len_blen in *. pose proof (blen_nonneg body).
  destruct (Z.ltb_spec (blen body) 0); [lia|]. destruct (Z.gtb_spec (blen body) K.maxFrameSize); [lia|].
  destruct (Z.ltb_spec (blen body) (blen body)); [lia|]. rewrite andb_false_r, Hf.
  unfold blen. rewrite Nat2Z.id, firstn_all, skipn_all. reflexivity.
Qed.

Lemma env_flags_no_compress e extra : extra = 0 \/ extra = 16 -> has_flag (env_flags e + extra) K.flagCompress = false.
Proof.
  intros [-> | ->]; unfold env_flags; destruct (e_trace e), (e_payload e), (e_warnings e); reflexivity.
Qed.

(* ---- rows ----------------------------------------------------------------------------------------------- *)
Lemma out_on_cell {A} (p : P A) data b :
  out (on_cell p data) b = match out p data with Ok (a, _) => Ok (a, b) | Err e => Err e | Crash c => Crash c end.
Proof. unfold out, on_cell. destruct (p data) as [[[a r]|e|c] k]; reflexivity. Qed.

Ltac obind := rewrite out_bind; unfold rbind.

Lemma tuple_read_bytes_enc c rest : wf_opt_bytes c -> out tuple_read_bytes (enc_bytes c ++ rest) = Ok (c, rest).
Proof.
  intros Hc. unfold tuple_read_bytes, enc_bytes. destruct c as [s|]; cbn [wf_opt_bytes] in Hc.
  - rewrite <- app_assoc. obind. rewrite out_take_app by reflexivity. rewrite len_blen in *. pose proof (blen_nonneg s).
    rewrite enc_int_val by lia. destruct (Z.ltb_spec (blen s) 0); [lia|]. obind. rewrite out_get_len.
    pose proof (blen_nonneg rest). destruct (Z.ltb_spec (blen (s ++ rest)) (blen s)) as [Hlt|Hge]; [rewrite blen_app in Hlt; lia|].
    obind. rewrite out_take_app by reflexivity. reflexivity.
  - obind. rewrite out_take_app by reflexivity. rewrite enc_int_val by lia. reflexivity.
Qed.

Lemma blen_enc_bytes_ge4 c rest : 4 <= blen (enc_bytes c ++ rest).
Proof.
  rewrite blen_app. pose proof (blen_nonneg rest). destruct c as [s|]; cbn [enc_bytes]; [rewrite blen_app; pose proof (blen_nonneg s)|];
    rewrite ?blen_enc_int; lia.
Qed.

Lemma unmarshal_tuple_cells_enc elems : forall comps,
  (length comps <= length elems)%nat -> Forall wf_opt_bytes comps ->
  out (unmarshal_tuple_cells (map view_type elems)) (concat (map enc_bytes comps)) = Ok (pad_components elems comps, []).
Proof.
  induction elems as [|e elems IH]; intros comps Hl Hw.
  - destruct comps; [reflexivity | simpl in Hl; lia].
  - cbn [map unmarshal_tuple_cells pad_components]. obind. rewrite out_get_len.
    destruct comps as [|c comps].
    + cbn [map concat]. change (blen [] >=? 4) with false. cbv beta iota. obind. rewrite out_ret. obind.
      assert (IH0 := IH [] ltac:(simpl; lia) ltac:(constructor)). cbn [map concat] in IH0. rewrite IH0. rewrite out_ret. reflexivity.
    + cbn [map concat]. inversion Hw; subst.
      pose proof (blen_enc_bytes_ge4 c (concat (map enc_bytes comps))) as H4.
      destruct (Z.geb_spec (blen (enc_bytes c ++ concat (map enc_bytes comps))) 4); [|lia].
      obind. rewrite tuple_read_bytes_enc by assumption. obind. rewrite IH by (simpl in Hl; try lia; assumption).
      rewrite out_ret. reflexivity.
Qed.

Lemma read_column_enc c rest : wf_opt_bytes c -> out read_column (enc_bytes c ++ rest) = Ok (c, rest).
Proof. intros Hc. unfold read_column. apply read_bytes_enc, Hc. Qed.

Definition col_width (c : scol) : Z := match sc_type c with STuple elems => count elems | _ => 1 end.

Lemma scan_width_cons c cols : scan_width (c :: cols) = col_width c + scan_width cols.
Proof. reflexivity. Qed.

Lemma scan_width_nonneg cols : 0 <= scan_width cols.
Proof.
  induction cols as [|c cols IH]; [reflexivity|]. rewrite scan_width_cons. unfold col_width, count.
  destruct (sc_type c); lia.
Qed.

Lemma count_zero_nil {A} (l : list A) : count l <= 0 -> l = [].
Proof. destruct l; [reflexivity|]. unfold count. simpl length. lia. Qed.

Lemma scan_cols_enc g : forall cols row rest, wf_row cols row ->
  out (scan_cols (map (view_col g) cols) (scan_width cols)) (enc_row row ++ rest) = Ok (view_row cols row, rest).
Proof.
  induction cols as [|c cols IH]; intros row rest Hw; inversion Hw as [|? cellv ? row' Hc Hrow]; subst; [reflexivity|].
  pose proof (scan_width_nonneg cols) as Hnn.
  cbn [map scan_cols]. unfold enc_row, view_row. cbn [map concat combine fst snd]. rewrite <- app_assoc.
  rewrite scan_width_cons. unfold wf_cell in Hc. unfold col_width in *. unfold view_cells.
  change (c_type (view_col g c)) with (view_type (sc_type c)).
  destruct (sc_type c) as [cl|id|e|k v|e|ks n fs|es] eqn:Et; destruct cellv as [v0|comps]; try contradiction;
    try (cbn [enc_cell view_type]; obind; rewrite read_column_enc by assumption;
         destruct (Z.leb_spec (1 + scan_width cols) 0); [lia|];
         obind; replace (1 + scan_width cols - 1) with (scan_width cols) by lia;
         fold (enc_row row'); rewrite IH by assumption; rewrite out_ret; reflexivity).
  (* tuple column *)
  rewrite view_type_tuple. obind. pose proof (Zle_0_nat (length es)) as Hce. fold (count es) in Hce.
  assert (Hdata : wf_opt_bytes (match comps with Some l => Some (concat (map enc_bytes l)) | None => None end)).
  { destruct comps as [l|]; [destruct Hc as (_ & _ & Hsz); exact Hsz | exact I]. }
  assert (Henc : enc_cell (CellTuple comps) = enc_bytes (match comps with Some l => Some (concat (map enc_bytes l)) | None => None end)).
  { destruct comps; reflexivity. }
  rewrite Henc. rewrite read_column_enc by exact Hdata.
  assert (Hcells : out (unmarshal_tuple_cells (map view_type es))
                       (opt_bytes (match comps with Some l => Some (concat (map enc_bytes l)) | None => None end))
                   = Ok (pad_components es (match comps with Some l => l | None => [] end), [])).
  { destruct comps as [l|].
    - destruct Hc as (Hlen & Hwf & _). cbn [opt_bytes]. apply unmarshal_tuple_cells_enc; assumption.
    - cbn [opt_bytes]. assert (U0 := unmarshal_tuple_cells_enc es [] ltac:(simpl; lia) ltac:(constructor)). exact U0. }
  destruct (Z.leb_spec (count es + scan_width cols) 0) as [Hz|Hpos].
  - (* no destination at all: the tuple has no components *)
    assert (es = []) by (apply count_zero_nil; lia). subst es. cbn [map].
    replace (count [] + scan_width cols) with (scan_width cols) by (unfold count; simpl length; lia).
    fold (enc_row row'). rewrite IH by assumption.
    cbn [pad_components app]. reflexivity.
  - rewrite map_length. fold (count es). destruct (Z.gtb_spec (count es) (count es + scan_width cols)); [lia|].
    (* the match on the shape of the element list does not matter once a destination is left *)
    assert (Hbranch : forall (P0 P1 : P (list cell)), (match map view_type es with [] => P1 | _ :: _ => P1 end) = P1) by (intros; destruct (map view_type es); reflexivity).
    obind. rewrite out_on_cell. rewrite Hcells.
    obind. replace (count es + scan_width cols - count es) with (scan_width cols) by lia.
    fold (enc_row row'). rewrite IH by assumption. rewrite out_ret. reflexivity.
Qed.

Lemma scan_row_enc m row rest :
  sm_nometa m = false -> wf_row (sm_cols m) row ->
  out (scan_row (view_meta m) (scan_width (sm_cols m))) (enc_row row ++ rest) = Ok (view_row (sm_cols m) row, rest).
Proof.
  intros Hn Hw. unfold scan_row, view_meta. cbn [m_actual m_cols]. rewrite Hn. rewrite Z.eqb_refl. cbn [negb].
  apply scan_cols_enc; assumption.
Qed.

Lemma iter_scans_enc m : sm_nometa m = false ->
  forall rows pos, Forall (wf_row (sm_cols m)) rows -> 0 <= pos ->
  iter_scans (S (length rows)) (view_meta m) (pos + count rows) (scan_width (sm_cols m))
             {| it_pos := pos; it_err := None; it_buf := enc_rows rows |}
  = map (fun r => SRow (view_row (sm_cols m) r)) rows ++ [SFalse None].
Proof.
  intros Hn. induction rows as [|row rows IH]; intros pos Hw Hp.
  - cbn [iter_scans iter_scan it_err it_pos length map app]. unfold count. cbn [length].
    destruct (Z.geb_spec pos (pos + Z.of_nat 0)); [reflexivity|lia].
  - inversion Hw; subst. cbn [length]. cbn [iter_scans]. unfold iter_scan at 1. cbn [it_err it_pos it_buf].
    unfold count in *. cbn [length].
    destruct (Z.geb_spec pos (pos + Z.of_nat (S (length rows)))); [lia|].
    unfold enc_rows. cbn [map concat]. rewrite scan_row_enc by assumption.
    cbn [map app]. f_equal. fold (enc_rows rows).
    replace (pos + Z.of_nat (S (length rows))) with ((pos + 1) + Z.of_nat (length rows)) by lia.
    apply IH; [assumption | lia].
Qed.

(* scanning looks only at the columns and the destination count of the metadata *)
Lemma iter_scans_ext k : forall m m' nrows ndest it,
  m_cols m = m_cols m' -> m_actual m = m_actual m' ->
  iter_scans k m nrows ndest it = iter_scans k m' nrows ndest it.
Proof.
  induction k as [|k IH]; intros m m' nrows ndest it Hc Ha; [reflexivity|].
  cbn [iter_scans]. unfold iter_scan, scan_row. rewrite Hc, Ha.
  destruct (it_err it); [rewrite (IH m m') by assumption; reflexivity|].
  destruct (it_pos it >=? nrows); [rewrite (IH m m') by assumption; reflexivity|].
  destruct (out (if negb (ndest =? m_actual m') then fail EScanCount else scan_cols (m_cols m') ndest) (it_buf it)) as [[cells b']|e|c];
    try rewrite (IH m m') by assumption; reflexivity.
Qed.
