(* C04/Props.v -- the proof obligations of property C04 (well-formed server responses are decoded to
   exactly what the server said), and nothing else.

   Model side: C04/Model.v (read_header, read_frame, parse_frame, read_type_info, the metadata readers,
   Iter.Scan as iter_scans) -- a transcription of frame.go / session.go with its constants generated from
   the Go source.  Specification side: C04/Spec.v (enc_frame, enc_body, enc_type, ... written from the
   protocol documents with the documents' constants; [view]: what a driver has to report; wf_*: the
   size limits of the notations).  Every statement is for all responses, all nesting depths, all
   protocol versions 1-5, any number of columns and rows. *)
From Coq Require Import String.
From GocqlV Require Import Lib.Base Gen.Consts C04.Model C04.Spec C04.Proofs1 C04.Proofs2 C04.Proofs3 C04.Proofs4 C04.Proofs5.

(* The body of every well-formed response frame -- READY, AUTHENTICATE, AUTH_CHALLENGE/SUCCESS, SUPPORTED,
   ERROR with every code and its code-specific fields (v5 reason map), RESULT void / rows / set-keyspace /
   prepared / schema-change, EVENT -- with any combination of the tracing / warning / custom-payload
   prefixes (in the specification's order) and with or without the v5 beta flag, is decoded to exactly
   the view of the response, and the body is consumed exactly: what is left is the rows content (empty
   for every other kind) followed by whatever followed the body. *)
Theorem C04_parse_encode : forall v extra e r rest,
  wf_version v -> (extra = 0 \/ extra = 16) -> wf_envelope e -> wf_response v r ->
  out (parse_frame v (128 + v) (env_flags e + extra) (opcode_of r)) (enc_body v e r ++ rest)
  = Ok (view v e r, rows_content r ++ rest).
Proof. exact parse_frame_enc. Qed.
Print Assumptions C04_parse_encode.

(* The frame header written by the specification is read back field by field (version byte with the
   response bit, flags, signed stream id of the version's width, opcode, length), and readFrame hands
   exactly the body to the parser.  Together with C04_parse_encode: the whole frame is decoded. *)
Theorem C04_decode_frame : forall v stream extra e r,
  wf_version v -> wf_stream v stream -> (extra = 0 \/ extra = 16) -> wf_envelope e -> wf_response v r ->
  len (enc_body v e r) <= K.maxFrameSize ->
  exists h,
    read_header (enc_frame v stream extra e r) = Ok (h, enc_body v e r)
    /\ h_stream h = stream /\ h_op h = opcode_of r /\ h_length h = len (enc_body v e r)
    /\ read_frame (h_length h) (h_flags h) (enc_body v e r) = Ok (enc_body v e r, [])
    /\ out (parse_frame v (h_version h) (h_flags h) (h_op h)) (enc_body v e r) = Ok (view v e r, rows_content r).
Proof.
  intros v stream extra e r Hv Hs Hx He Hr Hl.
  eexists. split; [apply read_header_enc; try assumption; unfold K.maxFrameSize in Hl; lia|].
  cbn [h_stream h_op h_length h_flags h_version]. repeat split.
  - apply read_frame_exact; [assumption | apply env_flags_no_compress; assumption].
  - pose proof (parse_frame_enc v extra e r [] Hv Hx He Hr) as H. rewrite !app_nil_r in H. exact H.
Qed.
Print Assumptions C04_decode_frame.

(* Type descriptors of any nesting depth (collections, tuples, UDTs, custom classes) are read back as
   the type the specification describes, consuming exactly their encoding. *)
Theorem C04_types : forall t rest, wf_stype t ->
  out read_type_info (enc_type t ++ rest) = Ok (view_type t, rest).
Proof. exact read_type_info_enc. Qed.
Print Assumptions C04_types.

(* Result metadata for every flag combination (global table spec, has-more-pages with the paging
   state, no-metadata), any number of columns; and prepared metadata with the partition-key indexes
   of v4+. *)
Theorem C04_metadata : forall v m pk rest, wf_meta m -> count pk < 2 ^ 31 -> Forall wf_short pk ->
  out parse_result_metadata (enc_result_meta m ++ rest) = Ok (view_meta m, rest)
  /\ out (parse_prepared_metadata v) (enc_prepared_meta v pk m ++ rest) = Ok (view_pmeta v pk m, rest).
Proof.
  intros v m pk rest Hm Hc Hp. split; [apply parse_result_metadata_enc | apply parse_prepared_metadata_enc]; assumption.
Qed.
Print Assumptions C04_metadata.

(* Scanning the rows of a RESULT Rows: each of the first n calls of Iter.Scan delivers exactly the cells
   of the next row -- one destination per column, a tuple column expanding to one destination per
   component with null for the components a null or short tuple lacks (a tuple without components taking
   no destination at all) -- each with its column's type,
   null distinguished from empty; the call after the last row returns false without error, and the
   rows content is consumed exactly. *)
Theorem C04_rows : forall m rows,
  sm_nometa m = false -> Forall (wf_row (sm_cols m)) rows ->
  iter_scans (S (length rows)) (view_meta m) (count rows) (scan_width (sm_cols m))
             {| it_pos := 0; it_err := None; it_buf := enc_rows rows |}
  = map (fun r => SRow (view_row (sm_cols m) r)) rows ++ [SFalse None].
Proof.
  intros m rows Hn Hw. exact (iter_scans_enc m Hn rows 0 Hw (Z.le_refl 0)).
Qed.
Print Assumptions C04_rows.

(* Skip-metadata: when the rows frame carries no column specifications and the iterator takes them from
   the result metadata of the PREPARED response (Conn.executeQuery), scanning delivers the same cells,
   and the paging state is the rows frame's. *)
Theorem C04_skip_meta : forall m rows_meta rows,
  sm_nometa m = false -> Forall (wf_row (sm_cols m)) rows ->
  iter_scans (S (length rows)) (skip_meta_iter (view_meta m) (view_meta rows_meta)) (count rows) (scan_width (sm_cols m))
             {| it_pos := 0; it_err := None; it_buf := enc_rows rows |}
  = map (fun r => SRow (view_row (sm_cols m) r)) rows ++ [SFalse None]
  /\ m_paging (skip_meta_iter (view_meta m) (view_meta rows_meta)) = match sm_paging rows_meta with Some ps => ps | None => [] end.
Proof.
  intros m rm rows Hn Hw. split; [|reflexivity].
  rewrite (iter_scans_ext _ _ (view_meta m)) by reflexivity.
  exact (iter_scans_enc m Hn rows 0 Hw (Z.le_refl 0)).
Qed.
Print Assumptions C04_skip_meta.

(* The same rows through the Scanner API (Iter.Scanner: Next, then Scan): the same cells, for every column
   layout (before the fix of scanner-tuple-column-offset this needed "every column but the last scans into one
   destination"). *)
Theorem C04_scanner : forall m rows,
  sm_nometa m = false -> Forall (wf_row (sm_cols m)) rows ->
  scanner_steps (S (length rows)) (view_meta m) (count rows) (scan_width (sm_cols m))
                {| it_pos := 0; it_err := None; it_buf := enc_rows rows |}
  = map (fun r => SRow (view_row (sm_cols m) r)) rows ++ [SFalse None].
Proof.
  intros m rows Hn Hw. exact (scanner_steps_enc m Hn rows 0 Hw (Z.le_refl 0)).
Qed.
Print Assumptions C04_scanner.

(* ---- non-vacuity: the hypotheses are satisfiable by a non-trivial response ------------------------- *)
Definition ex_meta : smeta :=
  {| sm_global := Some ([107], [116]); sm_paging := Some [1; 2]; sm_nometa := false; sm_count := 2;
     sm_cols := [ {| sc_ks := []; sc_table := []; sc_name := [97];
                     sc_type := STuple [SNative 9; SList (SMap (SNative 13) (SUDT [107] [117] [([102], SNative 2)]))] |};
                  {| sc_ks := []; sc_table := []; sc_name := [98];
                     sc_type := SCustom (sb "org.apache.cassandra.db.marshal.Int32Type"%string) |} ] |}.
Definition ex_rows : list (list scell) :=
  [[CellTuple (Some [Some [0; 0; 0; 1]; None]); CellVal (Some [1])]; [CellTuple None; CellVal None]].
Definition ex_env : envelope :=
  {| e_trace := Some [1; 2; 3; 4; 5; 6; 7; 8; 9; 10; 11; 12; 13; 14; 15; 16]; e_warnings := Some [[119]];
     e_payload := Some [([107], Some [1]); ([106], None)] |}.

Ltac small := unfold wf_string, wf_opt_bytes, wf_int, wf_short, wf_byte, count, len; cbn [length]; lia.

Example C04_nonvacuous_envelope : wf_version 4 /\ wf_stream 4 (-1) /\ wf_envelope ex_env.
Proof.
  split; [unfold wf_version; lia|]. split; [unfold wf_stream; change (4 <=? 2) with false; cbv iota; lia|].
  unfold wf_envelope, ex_env, wf_string_list, wf_bytes_map; cbn [e_trace e_warnings e_payload]; repeat split; try reflexivity;
    repeat constructor; cbn [fst snd]; try small.
Qed.

Example C04_nonvacuous_meta : wf_meta ex_meta.
Proof.
  unfold wf_meta, ex_meta. cbn [sm_global sm_paging sm_nometa sm_count sm_cols].
  split; [split; small|]. split; [small|]. split; [lia|]. intros _. split; [reflexivity|].
  constructor; [|constructor; [|constructor]].
  - unfold wf_col; cbn [sc_ks sc_table sc_name sc_type wf_stype fst snd]; repeat split; try small.
  - unfold wf_col; cbn [sc_ks sc_table sc_name sc_type wf_stype fst snd]. repeat split; try small.
    vm_compute; intros H; repeat (destruct H as [H|H]; [discriminate H|]); exact H.
Qed.

Example C04_nonvacuous_rows : Forall (wf_row (sm_cols ex_meta)) ex_rows.
Proof.
  unfold ex_rows, ex_meta, wf_row. cbn [sm_cols].
  repeat constructor; unfold wf_cell; cbn [sc_type length map concat]; try exact I; try small.
Qed.

Example C04_nonvacuous_response :
  wf_response 4 (RespResult (RRows ex_meta ex_rows))
  /\ wf_response 5 (RespError 4864 [120] (XReadFailure 1 2 3 (ReasonMap [([10; 0; 0; 1], 7); ([0;0;0;0;0;0;0;0;0;0;255;255;10;0;0;2], 8)]) 1)).
Proof.
  split.
  - cbn [wf_response wf_result]. split; [exact C04_nonvacuous_meta|]. split; [unfold ex_rows; small|]. intros _. exact C04_nonvacuous_rows.
  - cbn [wf_response wf_err wf_fail err_code_of]. repeat split; try small; try reflexivity.
    + constructor; [split; [left; reflexivity | cbn [snd]; small] | constructor; [split; [right; reflexivity | cbn [snd]; small] | constructor]].
    + cbn [map fst]; repeat constructor; vm_compute; intros H; repeat (destruct H as [H|H]; [discriminate H|]); exact H.
Qed.

(* a test, not a theorem: the instance of C04_parse_encode for the example, by evaluation *)
Example C04_example_parse :
  out (parse_frame 4 132 14 8) (enc_body 4 ex_env (RespResult (RRows ex_meta ex_rows)))
  = Ok (view 4 ex_env (RespResult (RRows ex_meta ex_rows)), enc_rows ex_rows).
Proof. vm_compute; reflexivity. Qed.
