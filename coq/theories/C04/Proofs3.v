(* C04/Proofs3.v -- metadata and whole frames: parse (encode r) = view r, for every response kind,
   every protocol version and every envelope. *)
From GocqlV Require Import Lib.Base Gen.Consts C04.Model C04.Spec C04.Proofs1 C04.Proofs2.

Arguments Z.mul : simpl never.
Arguments Z.add : simpl never.
Arguments Z.pow : simpl never.
Arguments Z.of_nat : simpl never.
Arguments Z.to_nat : simpl never.
Arguments Z.modulo : simpl never.
Arguments Z.div : simpl never.
Arguments Z.ltb : simpl never.
Arguments Z.leb : simpl never.
Arguments Z.eqb : simpl never.
Arguments Z.gtb : simpl never.
Arguments Z.geb : simpl never.
Arguments Z.land : simpl never.

Ltac obind := rewrite out_bind; unfold rbind.

(* evaluate closed boolean tests *)
Ltac eval_test t :=
  let v := eval vm_compute in t in
  match v with
  | true => change t with true
  | false => change t with false
  end.
Ltac ztests :=
  repeat match goal with
         | |- context [?a =? ?b] => eval_test (a =? b)
         | |- context [?a <? ?b] => eval_test (a <? b)
         | |- context [?a <=? ?b] => eval_test (a <=? b)
         | |- context [?a >? ?b] => eval_test (a >? b)
         | |- context [?a >=? ?b] => eval_test (a >=? b)
         | |- context [has_flag ?a ?b] => eval_test (has_flag a b)
         | |- context [zlist_eqb ?a ?b] => eval_test (zlist_eqb a b)
         end; cbv beta iota.

Ltac wfside :=
  first [ assumption
        | solve [unfold wf_short, wf_int, wf_string, wf_byte, wf_opt_bytes, count in *; lia]
        | solve [unfold wf_string, len; cbn [length]; lia]
        | tauto ].

Ltac step :=
  first [ rewrite out_ret | rewrite out_alloc
        | rewrite read_short_enc by wfside | rewrite read_int_enc by wfside
        | rewrite read_string_enc by wfside | rewrite read_bytes_enc by wfside
        | rewrite read_short_bytes_enc by wfside | rewrite read_string_list_enc by wfside
        | rewrite read_byte_enc | rewrite read_inet_enc by wfside | rewrite read_inet_addr_enc by wfside
        | rewrite read_string_multimap_enc by wfside | rewrite read_bytes_map_enc by wfside
        | rewrite read_uuid_enc by wfside
        | obind ].
Ltac steps := repeat (step; cbn [fst snd negb orb andb]).

(* ---- loops returning the view of what was encoded ------------------------------------------------ *)
Lemma read_loop_enc_map {T A} (p : P A) (enc : T -> bytes) (v : T -> A) (xs : list T) :
  (forall x rest, In x xs -> out p (enc x ++ rest) = Ok (v x, rest)) ->
  forall fuel rest, (length xs <= fuel)%nat ->
  out (read_loop fuel p (Z.of_nat (length xs))) (concat (map enc xs) ++ rest) = Ok (map v xs, rest).
Proof.
  induction xs as [|x xs IH]; intros Hp fuel rest Hf.
  - destruct fuel; reflexivity.
  - destruct fuel as [|fuel]; [simpl in Hf; lia|].
    cbn [read_loop]. destruct (Z.leb_spec (Z.of_nat (length (x :: xs))) 0); [simpl length in *; lia|].
    cbn [map concat]. rewrite <- app_assoc. obind. rewrite Hp by (left; reflexivity).
    obind. replace (Z.of_nat (length (x :: xs)) - 1) with (Z.of_nat (length xs)) by (simpl length; lia).
    rewrite IH; [reflexivity | intros; apply Hp; right; assumption | simpl in Hf; lia].
Qed.

Lemma read_count_enc_map {T A} (p : P A) (enc : T -> bytes) (v : T -> A) (xs : list T) rest :
  (forall x rest, In x xs -> out p (enc x ++ rest) = Ok (v x, rest)) ->
  (forall x, In x xs -> (1 <= length (enc x))%nat) ->
  out (read_count p (count xs)) (concat (map enc xs) ++ rest) = Ok (map v xs, rest).
Proof.
  intros Hp Hl. unfold read_count, out.
  fold (out (read_loop (S (length (concat (map enc xs) ++ rest))) p (count xs)) (concat (map enc xs) ++ rest)).
  unfold count. apply read_loop_enc_map; [assumption|]. rewrite app_length. pose proof (length_concat_ge enc xs Hl). lia.
Qed.

(* ---- columns and metadata -------------------------------------------------------------------------- *)
Lemma read_col_enc (g : bool) ks tb c rest : wf_col c ->
  out (read_col g ks tb) (enc_col g c ++ rest) = Ok (view_col (if g then Some (ks, tb) else None) c, rest).
Proof.
  intros (Hk & Ht & Hn & Hty). unfold read_col, enc_col, view_col. destruct g; rewrite <- ?app_assoc; cbn [app].
  - steps. rewrite read_type_info_enc by assumption. steps. reflexivity.
  - steps. rewrite read_type_info_enc by assumption. steps. reflexivity.
Qed.

Lemma enc_col_nonempty g c : (1 <= length (enc_col g c))%nat.
Proof.
  unfold enc_col. rewrite !app_length. pose proof (enc_string_nonempty (sc_name c)). lia.
Qed.

Lemma col_extra_view g c :
  col_extra (view_col g c) = (match sc_type c with STuple elems => count elems | _ => 1 end) - 1.
Proof.
  unfold col_extra, view_col. cbn [c_type]. destruct (sc_type c) as [cl|id|e|k v|e|ks n fs|es]; try reflexivity.
  rewrite view_type_tuple. rewrite map_length. reflexivity.
Qed.

Lemma actual_width g cols :
  count cols + fold_right (fun c a => col_extra c + a) 0 (map (view_col g) cols) = scan_width cols.
Proof.
  unfold scan_width. induction cols as [|c cols IH]; [reflexivity|].
  cbn [map fold_right]. rewrite col_extra_view. unfold count in *. simpl length. lia.
Qed.

Lemma out_if_alloc (c : bool) n b : out (if c then alloc n else ret tt) b = Ok (tt, b).
Proof. destruct c; reflexivity. Qed.

Definition global_pair (m : smeta) : bytes * bytes :=
  if sm_nometa m then ([], []) else match sm_global m with Some kt => kt | None => ([], []) end.

Lemma read_meta_tail_enc m rest : wf_meta m ->
  out (read_meta_tail (meta_flags m) (sm_count m)) (enc_meta_tail m ++ rest) = Ok ((view_meta m, global_pair m), rest).
Proof.
  destruct m as [g pg nm cnt cols]. unfold wf_meta, global_pair, view_meta, enc_meta_tail, meta_flags. cbn [sm_global sm_paging sm_nometa sm_count sm_cols].
  intros (Hg & Hp & Hc & Hcols). unfold read_meta_tail.
  destruct pg as [ps|]; destruct nm; destruct g as [[gk gt]|]; ztests; rewrite <- ?app_assoc; cbn [app opt_bytes];
    try (steps; reflexivity).
  all: destruct (Hcols eq_refl) as [Hcnt Hwf]; subst cnt; try destruct Hg as [Hgk Hgt].
  all: steps; rewrite ?out_if_alloc; try obind.
  all: try (rewrite (read_count_enc_map (read_col true gk gt) (enc_col true) (view_col (Some (gk, gt))))
              by (intros; try apply read_col_enc; try apply enc_col_nonempty; rewrite Forall_forall in Hwf; auto)).
  all: try (rewrite (read_count_enc_map (read_col false [] []) (enc_col false) (view_col None))
              by (intros; try apply read_col_enc; try apply enc_col_nonempty; rewrite Forall_forall in Hwf; auto)).
  all: steps; rewrite actual_width; reflexivity.
Qed.

Lemma wf_meta_count m : wf_meta m -> wf_int (sm_count m).
Proof. intros (_ & _ & H & _). unfold wf_int. lia. Qed.

Lemma meta_flags_range m : wf_int (meta_flags m).
Proof. unfold meta_flags, wf_int. destruct (sm_global m), (sm_paging m), (sm_nometa m); lia. Qed.

Lemma parse_result_metadata_enc m rest : wf_meta m ->
  out parse_result_metadata (enc_result_meta m ++ rest) = Ok (view_meta m, rest).
Proof.
  intros Hm. pose proof (wf_meta_count m Hm) as Hc. pose proof (meta_flags_range m) as Hf.
  unfold parse_result_metadata, enc_result_meta. rewrite <- !app_assoc. steps.
  pose proof Hm as (Hg & Hp & Hcnt & Hcols). destruct (Z.ltb_spec (sm_count m) 0); [lia|].
  obind. rewrite read_meta_tail_enc by assumption. steps. reflexivity.
Qed.

Lemma enc_short_nonempty n : (1 <= length (enc_short n))%nat.
Proof. unfold enc_short. simpl. lia. Qed.

Lemma parse_prepared_metadata_enc v pk m rest : wf_meta m -> count pk < 2 ^ 31 -> Forall wf_short pk ->
  out (parse_prepared_metadata v) (enc_prepared_meta v pk m ++ rest) = Ok (view_pmeta v pk m, rest).
Proof.
  intros Hm Hpc Hpk. pose proof (wf_meta_count m Hm) as Hc. pose proof (meta_flags_range m) as Hf.
  unfold parse_prepared_metadata, enc_prepared_meta, view_pmeta. rewrite <- !app_assoc. steps.
  pose proof Hm as (Hg & Hp & Hcnt & Hcols). destruct (Z.ltb_spec (sm_count m) 0); [lia|].
  change K.protoVersion4 with 4.
  assert (Hgp : global_pair m = (if sm_nometa m then [] else match sm_global m with Some (ks, _) => ks | None => [] end,
                                 if sm_nometa m then [] else match sm_global m with Some (_, tb) => tb | None => [] end)).
  { unfold global_pair. destruct (sm_nometa m); [reflexivity|]. destruct (sm_global m) as [[a b]|]; reflexivity. }
  destruct (v >=? 4).
  - rewrite <- !app_assoc. steps. pose proof (Zle_0_nat (length pk)). unfold count in *.
    destruct (Z.ltb_spec (Z.of_nat (length pk)) 0); [lia|].
    assert (Hpl : blen (concat (map enc_short pk)) = 2 * Z.of_nat (length pk)).
    { clear. induction pk as [|x pk IH]; [reflexivity|]. cbn [map concat]. rewrite blen_app, IH, blen_enc_short. simpl length. lia. }
    obind. rewrite out_need_ok by (rewrite blen_app, Hpl; pose proof (blen_nonneg (enc_meta_tail m ++ rest)); lia).
    steps. change (Z.of_nat (length pk)) with (count pk).
    rewrite (read_count_enc read_short enc_short pk)
      by (intros; try apply enc_short_nonempty; apply read_short_enc; rewrite Forall_forall in Hpk; apply Hpk; assumption).
    obind. rewrite read_meta_tail_enc by assumption. steps. rewrite Hgp. reflexivity.
  - cbn [app]. steps. rewrite read_meta_tail_enc by assumption. steps. rewrite Hgp. reflexivity.
Qed.

(* ---- error frames ------------------------------------------------------------------------------------ *)
Lemma distinct_keys_nodup ks : NoDup ks -> distinct_keys ks = ks.
Proof.
  induction 1 as [|k ks Hn Hd IH]; [reflexivity|]. cbn [distinct_keys]. rewrite IH.
  destruct (existsb (zlist_eqb k) ks) eqn:E; [|reflexivity].
  apply existsb_exists in E. destruct E as (k' & Hin & Heq). apply zlist_eqb_eq in Heq. subst k'. contradiction.
Qed.

Lemma ip_key_is_endpoint_key a : ip_key a = endpoint_key a.
Proof. reflexivity. Qed.

Definition enc_reason (ac : bytes * Z) : bytes := enc_inetaddr (fst ac) ++ enc_short (snd ac).
Definition view_reason (ac : bytes * Z) : bytes * Z := (endpoint_key (fst ac), snd ac).

Lemma read_error_map_enc l rest :
  count l < 2 ^ 31 -> Forall (fun ac => wf_addr (fst ac) /\ wf_short (snd ac)) l ->
  out read_error_map (enc_int (count l) ++ concat (map enc_reason l) ++ rest) = Ok (map view_reason l, rest).
Proof.
  intros Hc Hl. unfold read_error_map. pose proof (Zle_0_nat (length l)). steps.
  apply read_count_enc_map.
  - intros [a c] r Hin. rewrite Forall_forall in Hl. destruct (Hl _ Hin) as [Ha Hs]. cbn [fst snd] in *.
    unfold enc_reason, view_reason. cbn [fst snd]. rewrite <- app_assoc. steps. reflexivity.
  - intros [a c] _. unfold enc_reason, enc_inetaddr. cbn [fst snd app length]. lia.
Qed.

Lemma num_failures_view l : NoDup (map (fun ac => endpoint_key (fst ac)) l) ->
  num_failures (map view_reason l) = count l.
Proof.
  intros Hn. unfold num_failures. rewrite map_map. cbn [view_reason fst]. rewrite distinct_keys_nodup by assumption.
  rewrite map_length. reflexivity.
Qed.

Lemma parse_error_frame_enc v code msg x rest : wf_version v -> wf_int code -> wf_string msg -> wf_err v code x ->
  out (parse_error_frame v) (enc_int code ++ enc_string msg ++ enc_err x ++ rest) = Ok (FError code msg (view_err x), rest).
Proof.
  intros Hv Hcode Hmsg [Hc Hx]. unfold parse_error_frame. steps.
  destruct x; cbn [err_code_of] in Hc; try subst code; cbn [enc_err view_err]; rewrite <- ?app_assoc; cbn [app].
  - (* plain *)
    unfold plain_error_codes in Hx. cbn [In] in Hx.
    repeat (destruct Hx as [<- | Hx]; [ztests; cbn [existsb orb]; steps; reflexivity|]). contradiction.
  - destruct Hx as (? & ? & ?). ztests. steps. reflexivity.
  - destruct Hx as (? & ? & ? & ?). ztests. steps. reflexivity.
  - destruct Hx as (? & ? & ? & Hb). ztests. steps. reflexivity.
  - (* read failure *)
    destruct Hx as (? & ? & ? & Hf & Hb). ztests. steps. change K.protoVersion4 with 4.
    destruct f as [n | l]; cbn [wf_fail enc_fail view_fail_num view_fail_map] in *.
    + destruct Hf as [Hv4 Hn]. destruct (Z.gtb_spec v 4); [lia|]. rewrite <- ?app_assoc. steps. reflexivity.
    + destruct Hf as (Hv5 & Hcl & Hfl & Hnd). destruct (Z.gtb_spec v 4); [|lia]. rewrite <- ?app_assoc.
      obind. change (fun ac : bytes * Z => enc_inetaddr (fst ac) ++ enc_short (snd ac)) with enc_reason.
      rewrite read_error_map_enc by assumption. steps. rewrite num_failures_view by assumption. reflexivity.
  - destruct Hx as (? & ? & ?). ztests. steps. reflexivity.
  - (* write failure *)
    destruct Hx as (? & ? & ? & Hf & Hw). ztests. steps. change K.protoVersion4 with 4.
    destruct f as [n | l]; cbn [wf_fail enc_fail view_fail_num view_fail_map] in *.
    + destruct Hf as [Hv4 Hn]. destruct (Z.gtb_spec v 4); [lia|]. rewrite <- ?app_assoc. steps. reflexivity.
    + destruct Hf as (Hv5 & Hcl & Hfl & Hnd). destruct (Z.gtb_spec v 4); [|lia]. rewrite <- ?app_assoc.
      obind. change (fun ac : bytes * Z => enc_inetaddr (fst ac) ++ enc_short (snd ac)) with enc_reason.
      rewrite read_error_map_enc by assumption. steps. rewrite num_failures_view by assumption. reflexivity.
  - ztests. steps. reflexivity.
  - destruct Hx as (? & ? & ?). ztests. steps. reflexivity.
  - destruct Hx as (? & ?). ztests. steps. reflexivity.
  - ztests. steps. reflexivity.
Qed.

(* ---- schema change, results, events ------------------------------------------------------------------ *)
Lemma sb_is_s2b s : sb s = s2b s.
Proof. reflexivity. Qed.

Lemma parse_schema_change_enc v c rest : wf_version v -> wf_schange v c ->
  out (parse_schema_change v) (enc_schange v c ++ rest) = Ok (view_schange c, rest).
Proof.
  intros Hv Hc. unfold parse_schema_change, enc_schange. change K.protoVersion2 with 2.
  destruct (Z.leb_spec v 2).
  - destruct c; cbn [wf_schange view_schange] in *; try lia; rewrite <- ?app_assoc.
    + destruct Hc. steps. reflexivity.
    + destruct Hc as (? & ? & ? & Hne). steps. destruct name; [exfalso; apply Hne; [lia|reflexivity]|]. steps. reflexivity.
  - destruct c; cbn [wf_schange view_schange] in *; rewrite <- ?app_assoc.
    + destruct Hc. obind. rewrite read_string_enc by wfside. obind.
      rewrite read_string_enc by (vm_compute; reflexivity). ztests. steps. reflexivity.
    + destruct Hc as (? & ? & ? & ?). obind. rewrite read_string_enc by wfside. obind.
      rewrite read_string_enc by (vm_compute; reflexivity). ztests. steps. reflexivity.
    + destruct Hc as (? & ? & ? & ?). obind. rewrite read_string_enc by wfside. obind.
      rewrite read_string_enc by (vm_compute; reflexivity). ztests. steps. reflexivity.
    + destruct Hc as (? & ? & ? & ? & ?). obind. rewrite read_string_enc by wfside. obind.
      rewrite read_string_enc by (vm_compute; reflexivity). ztests. steps. reflexivity.
    + destruct Hc as (? & ? & ? & ? & ?). obind. rewrite read_string_enc by wfside. obind.
      rewrite read_string_enc by (vm_compute; reflexivity). ztests. steps. reflexivity.
Qed.

Lemma parse_result_frame_enc v r rest : wf_version v -> wf_result v r ->
  out (parse_result_frame v) (enc_result v r ++ rest) = Ok (view_frame v (RespResult r), rows_content (RespResult r) ++ rest).
Proof.
  intros Hv Hr. unfold parse_result_frame, enc_result. destruct r; cbn [wf_result view_frame rows_content] in *; rewrite <- ?app_assoc.
  - steps. ztests. steps. reflexivity.
  - destruct Hr as (Hm & Hc & Hrows). steps. ztests. unfold parse_result_rows. obind.
    rewrite parse_result_metadata_enc by assumption. pose proof (Zle_0_nat (length rows)). unfold count in *. steps.
    destruct (Z.ltb_spec (Z.of_nat (length rows)) 0); [lia|]. steps. reflexivity.
  - steps. ztests. steps. reflexivity.
  - destruct Hr as (Hid & Hpc & Hpk & Hreq & Hresp). steps. ztests. unfold parse_result_prepared. steps.
    rewrite parse_prepared_metadata_enc by assumption. change K.protoVersion2 with 2.
    destruct (Z.ltb_spec v 2); destruct (Z.geb_spec v 2); try lia.
    + steps. reflexivity.
    + obind. rewrite parse_result_metadata_enc by assumption. steps. reflexivity.
  - steps. ztests. rewrite parse_schema_change_enc by assumption. reflexivity.
Qed.

Lemma parse_event_frame_enc v e rest : wf_version v -> wf_event v e ->
  out (parse_event_frame v) (enc_event v e ++ rest) = Ok (view_frame v (RespEvent e), rest).
Proof.
  intros Hv He. unfold parse_event_frame, enc_event. destruct e; cbn [wf_event view_frame] in *; rewrite <- ?app_assoc.
  - destruct He as (? & ? & ?). obind. rewrite read_string_enc by (vm_compute; reflexivity). ztests. steps. reflexivity.
  - destruct He as (? & ? & ?). obind. rewrite read_string_enc by (vm_compute; reflexivity). ztests. steps. reflexivity.
  - obind. rewrite read_string_enc by (vm_compute; reflexivity). ztests. apply parse_schema_change_enc; assumption.
Qed.

(* ---- the whole body ------------------------------------------------------------------------------------ *)
Lemma parse_body_enc v r rest : wf_version v -> wf_response v r ->
  out (if opcode_of r =? K.opError then parse_error_frame v
       else if opcode_of r =? K.opReady then ret FReady
       else if opcode_of r =? K.opResult then parse_result_frame v
       else if opcode_of r =? K.opSupported then m <- read_string_multimap ;; ret (FSupported m)
       else if opcode_of r =? K.opAuthenticate then c <- read_string ;; ret (FAuthenticate c)
       else if opcode_of r =? K.opAuthChallenge then d <- read_bytes ;; ret (FAuthChallenge d)
       else if opcode_of r =? K.opAuthSuccess then d <- read_bytes ;; ret (FAuthSuccess d)
       else if opcode_of r =? K.opEvent then parse_event_frame v
       else fail EUnkOp) (enc_response v r ++ rest)
  = Ok (view_frame v r, rows_content r ++ rest).
Proof.
  intros Hv Hr. destruct r; cbn [opcode_of enc_response wf_response rows_content] in *; ztests; cbn [app].
  - destruct Hr as (? & ? & ?). rewrite <- !app_assoc. apply parse_error_frame_enc; assumption.
  - reflexivity.
  - steps. reflexivity.
  - steps. reflexivity.
  - apply parse_result_frame_enc; assumption.
  - apply parse_event_frame_enc; assumption.
  - steps. reflexivity.
  - steps. reflexivity.
Qed.

Lemma parse_frame_enc v extra e r rest : wf_version v -> (extra = 0 \/ extra = 16) -> wf_envelope e -> wf_response v r ->
  out (parse_frame v (128 + v) (env_flags e + extra) (opcode_of r)) (enc_body v e r ++ rest)
  = Ok (view v e r, rows_content r ++ rest).
Proof.
  intros Hv Hx (Ht & Hw & Hp) Hr. unfold parse_frame, enc_body, view, env_flags.
  assert (Hdir : (Z.land (128 + v) K.protoDirectionMask =? 0) = false).
  { unfold wf_version in Hv. assert (v = 1 \/ v = 2 \/ v = 3 \/ v = 4 \/ v = 5) as Hc by lia.
    destruct Hc as [-> | [-> | [-> | [-> | ->]]]]; reflexivity. }
  rewrite Hdir. clear Hdir.
  destruct e as [tr wa pl]. cbn [e_trace e_warnings e_payload] in *.
  destruct tr as [u|]; destruct wa as [w|]; destruct pl as [m|]; destruct Hx as [-> | ->]; ztests; rewrite <- ?app_assoc; cbn [app].
  all: steps; rewrite parse_body_enc by assumption; steps; reflexivity.
Qed.
