(* C08/Proofs2.v -- the ownership invariant [Inv] and its preservation by spawns and by the four steps that
   change the words, the counter or the ghost *)
From GocqlV Require Import Lib.Base Gen.Consts C08.Model C08.Ghost C08.Proofs1.
Open Scope Z_scope.

(* ---- counting ---- *)
Lemma cnt_ext f f' n : (forall x, 0 <= x < Z.of_nat n -> f x = f' x) -> cnt f n = cnt f' n.
Proof. induction n as [|k IH]; intros H; cbn [cnt]; [reflexivity|]. rewrite H by lia. rewrite IH; [reflexivity|]. intros; apply H; lia. Qed.
Lemma cnt_bounds f n : 0 <= cnt f n <= Z.of_nat n.
Proof. induction n as [|k IH]; cbn [cnt]; [lia|]. destruct (f (Z.of_nat k)); lia. Qed.
Lemma cnt_upd f f' n id : 0 <= id < Z.of_nat n -> (forall x, x <> id -> f' x = f x) ->
  cnt f' n = cnt f n - (if f id then 1 else 0) + (if f' id then 1 else 0).
Proof.
  induction n as [|k IH]; intros Hid H; cbn [cnt]; [lia|].
  destruct (Z.eq_dec id (Z.of_nat k)) as [->|Hne].
  - rewrite (cnt_ext f' f k) by (intros; apply H; lia). lia.
  - rewrite H by lia. rewrite IH by (assumption || lia). lia.
Qed.


(* ---- the invariant ---- *)
Definition rel_pc (id : Z) (p : pc) : Prop := p = C7 id \/ (exists b, p = C8 id b) \/ p = C9 id.
Definition acq_pc (id : Z) (p : pc) : Prop := exists pos j, p = G5 pos j /\ id = pos * 64 + j.

Definition pcB (nb : Z) (g : ghost) (t : Z) (p : pc) : Prop :=
  match p with
  | G5 pos j => own g (pos * 64 + j) = Acquiring t
  | GDone r true => 1 <= r < 64 * nb
  | GDone r false => r = 0
  | C7 id => (kind g t = Proper /\ own g id = Releasing t) \/ (kind g t = Stale /\ own g id = Free /\ 1 <= id < 64 * nb)
  | C8 id _ => kind g t = Proper /\ own g id = Releasing t
  | C9 id => kind g t = Proper /\ own g id = Releasing t
  | C10 _ => kind g t = Proper
  | CDone r => kind g t = if r then Proper else Stale
  | CPanic => kind g t = Proper
  | CCrash => False
  | _ => True
  end.

Record Inv (nb : Z) (s : state) (g : ghost) : Prop := {
  i_bits : forall pos j, 0 <= pos < nb -> 0 <= j < 64 ->
      (Z.testbit (word (smem s) pos) (63 - j) = true <-> (pos * 64 + j = 0 \/ own g (pos * 64 + j) <> Free));
  i_range : forall id, own g id <> Free -> 1 <= id < 64 * nb;
  i_pc : forall t p, lookup t (threads s) = Some p -> pcB nb g t p;
  i_acq : forall id t, own g id = Acquiring t -> exists p, lookup t (threads s) = Some p /\ acq_pc id p;
  i_rel : forall id t, own g id = Releasing t -> exists p, lookup t (threads s) = Some p /\ rel_pc id p;
  i_cnt : (inuse (smem s) - (cnt_or g (64 * nb) + cnt_c10 (threads s))) mod 4294967296 = 0;
  i_panic : forall t, lookup t (threads s) = Some CPanic -> 2147483648 <= 64 * nb + next s
}.

Lemma owner_free_dec o : o = Free \/ o <> Free.
Proof. destruct o; [left; reflexivity| right; discriminate ..]. Qed.

Lemma pcB_frame nb g g' t p : kind g' t = kind g t ->
  (forall x, own g x = Acquiring t \/ own g x = Releasing t \/ (own g x = Free /\ p = C7 x) -> own g' x = own g x) ->
  pcB nb g t p -> pcB nb g' t p.
Proof.
  intros Hk Ho. destruct p; cbn [pcB]; try rewrite Hk; auto.
  - intros H. rewrite Ho; auto.
  - intros [[H1 H2]|[H1 [H2 H3]]]; [left|right]; rewrite Ho; auto.
  - intros [H1 H2]. rewrite Ho; auto.
  - intros [H1 H2]. rewrite Ho; auto.
Qed.

Lemma s32_of_congr x y : (x - y) mod 4294967296 = 0 -> - 2147483648 <= y < 2147483648 -> s32 x = y.
Proof.
  intros H Hy. unfold s32. rewrite w32_wrap. unfold wrap, two32. change (2 ^ 32) with 4294967296.
  destruct (x mod 4294967296 <? 2147483648) eqn:E; lia.
Qed.
Lemma s32_congr x : (s32 x - x) mod 4294967296 = 0.
Proof.
  unfold s32. rewrite w32_wrap. unfold wrap, two32. change (2 ^ 32) with 4294967296.
  destruct (x mod 4294967296 <? 2147483648) eqn:E; lia.
Qed.

Lemma lookup_spawn_old nb s t p q : wf nb s -> lookup t (threads s) = Some p -> lookup t ((next s, q) :: threads s) = Some p.
Proof.
  intros (_ & _ & _ & Hth) H. cbn [lookup]. destruct (Hth _ _ H) as [Ht _].
  destruct (next s =? t) eqn:E; [lia|assumption].
Qed.
Lemma lookup_spawn_inv s t p q : lookup t ((next s, q) :: threads s) = Some p ->
  (t = next s /\ p = q) \/ lookup t (threads s) = Some p.
Proof. cbn [lookup]. destruct (next s =? t) eqn:E; intros H; [left; split; [lia|congruence]|right; assumption]. Qed.

Lemma bucket_offset_nonneg id : 0 <= id -> bucket_offset id = id / 64.
Proof. intros. unfold bucket_offset. rewrite bb_eq. apply Z.quot_div_nonneg; lia. Qed.

(* frame: a step of thread t that changes neither the words nor the counter nor the ghost *)
Lemma inv_frame nb s g t p p' m' : Inv nb s g -> lookup t (threads s) = Some p ->
  words m' = words (smem s) -> inuse m' = inuse (smem s) ->
  is_c10 p = false -> is_c10 p' = false -> pcB nb g t p' -> p' <> CPanic ->
  (forall id, own g id = Acquiring t -> acq_pc id p') -> (forall id, own g id = Releasing t -> rel_pc id p') ->
  Inv nb {| smem := m'; threads := update t p' (threads s); next := next s |} g.
Proof.
  intros HI Hl Hw Hu Hc Hc' Hp' Hnp Ha Hr. destruct HI as [I1 I2 I3 I4 I5 I6 I7].
  assert (Hne : lookup t (threads s) <> None) by congruence.
  constructor; cbn [smem threads next].
  - intros pos j Hpos Hj. unfold word. rewrite Hw. apply I1; assumption.
  - assumption.
  - intros t0 p0. destruct (Z.eq_dec t t0) as [<-|Hn].
    + rewrite lookup_update_eq by assumption. intros H; inversion H; subst; assumption.
    + rewrite lookup_update_neq by assumption. apply I3.
  - intros id t0 H. destruct (Z.eq_dec t t0) as [<-|Hn].
    + exists p'. rewrite lookup_update_eq by assumption. auto.
    + rewrite lookup_update_neq by assumption. apply I4; assumption.
  - intros id t0 H. destruct (Z.eq_dec t t0) as [<-|Hn].
    + exists p'. rewrite lookup_update_eq by assumption. auto.
    + rewrite lookup_update_neq by assumption. apply I5; assumption.
  - rewrite Hu. rewrite (cnt_c10_update _ _ p' _ Hl). rewrite Hc, Hc'. replace (cnt_c10 (threads s) - 0 + 0) with (cnt_c10 (threads s)) by lia. assumption.
  - intros t0. destruct (Z.eq_dec t t0) as [<-|Hn].
    + rewrite lookup_update_eq by assumption. intros H; inversion H; subst. congruence.
    + rewrite lookup_update_neq by assumption. apply I7.
Qed.

Lemma own_set_eq g id o : own (set_own g id o) id = o.
Proof. cbn. rewrite Z.eqb_refl. reflexivity. Qed.
Lemma own_set_neq g id o x : x <> id -> own (set_own g id o) x = own g x.
Proof. intros H. cbn. destruct (x =? id) eqn:E; [lia|reflexivity]. Qed.

(* threads other than t keep their entry across a step of t that moves it to a non-pointer target *)
Ltac upd_other Hl :=
  match goal with
  | |- context [lookup ?t0 (update ?t _ _)] =>
      destruct (Z.eq_dec t t0) as [<-|?];
      [rewrite lookup_update_eq by (rewrite Hl; discriminate)|rewrite lookup_update_neq by assumption]
  end.

(* ---- spawn ---- *)
Lemma inv_spawn_get nb s g : wf nb s -> Inv nb s g ->
  Inv nb {| smem := smem s; threads := (next s, G1) :: threads s; next := next s + 1 |} g.
Proof.
  intros Hwf [I1 I2 I3 I4 I5 I6 I7]. constructor; cbn [smem threads next]; try assumption.
  - intros t p H. apply lookup_spawn_inv in H. destruct H as [[-> ->]|H]; [exact I|apply I3; assumption].
  - intros id t H. destruct (I4 _ _ H) as (p & Hp & Ha). exists p. split; [eapply lookup_spawn_old; eassumption|assumption].
  - intros id t H. destruct (I5 _ _ H) as (p & Hp & Ha). exists p. split; [eapply lookup_spawn_old; eassumption|assumption].
  - intros t H. apply lookup_spawn_inv in H. destruct H as [[_ H]|H]; [discriminate|]. apply I7 in H. lia.
Qed.

Lemma inv_spawn_clear nb s g id : wf nb s -> Inv nb s g -> disc nb s g (Spawn (OClear id)) ->
  Inv nb {| smem := smem s; threads := (next s, C7 id) :: threads s; next := next s + 1 |}
         (gupd s g (Spawn (OClear id)) {| smem := smem s; threads := (next s, C7 id) :: threads s; next := next s + 1 |}).
Proof.
  intros Hwf HI Hd. pose proof HI as [I1 I2 I3 I4 I5 I6 I7]. cbn [gupd]. cbn [disc] in Hd.
  assert (Hold : forall t p, lookup t (threads s) = Some p -> t <> next s).
  { intros t p H. destruct Hwf as (_ & _ & _ & Hth). destruct (Hth _ _ H). lia. }
  destruct (own g id) eqn:Eo.
  - (* stale *)
    destruct Hd as [Hd|[_ Hr]]; [discriminate|].
    constructor; cbn [smem threads next set_kind own kind]; try assumption.
    + intros t p H. apply lookup_spawn_inv in H. destruct H as [[-> ->]|H].
      * cbn [pcB set_kind kind own]. rewrite Z.eqb_refl. right. auto.
      * apply (pcB_frame nb g); [cbn; destruct (t =? next s) eqn:E; [apply Hold in H; lia|reflexivity]|auto|apply I3; assumption].
    + intros x t H. destruct (I4 _ _ H) as (p & Hp & Ha). exists p. split; [eapply lookup_spawn_old; eassumption|assumption].
    + intros x t H. destruct (I5 _ _ H) as (p & Hp & Ha). exists p. split; [eapply lookup_spawn_old; eassumption|assumption].
    + intros t H. apply lookup_spawn_inv in H. destruct H as [[_ H]|H]; [discriminate|]. apply I7 in H. lia.
  - destruct Hd as [Hd|[Hd _]]; discriminate.
  - (* proper *)
    constructor; cbn [smem threads next set_kind own kind].
    + intros pos j Hp Hj. rewrite (I1 pos j Hp Hj). cbn [set_own own].
      destruct (pos * 64 + j =? id) eqn:E; [|reflexivity]. apply Z.eqb_eq in E. rewrite E, Eo.
      split; intros [H|H]; auto; right; discriminate.
    + intros x. cbn [set_own own]. destruct (x =? id) eqn:E; [|apply I2].
      apply Z.eqb_eq in E. subst x. intros _. apply I2. rewrite Eo. discriminate.
    + intros t p H. apply lookup_spawn_inv in H. destruct H as [[-> ->]|H].
      * cbn [pcB set_kind set_own kind own]. rewrite !Z.eqb_refl. left. auto.
      * apply (pcB_frame nb g); [cbn; destruct (t =? next s) eqn:E; [apply Hold in H; lia|reflexivity]| |apply I3; assumption].
        intros x Hx. cbn [set_own set_kind own]. destruct (x =? id) eqn:E; [|reflexivity]. apply Z.eqb_eq in E. subst x.
        rewrite Eo in Hx. destruct Hx as [Hx|[Hx|[Hx _]]]; discriminate.
    + intros x t. cbn [set_own own]. destruct (x =? id) eqn:E; [discriminate|]. intros H.
      destruct (I4 _ _ H) as (p & Hp & Ha). exists p. split; [eapply lookup_spawn_old; eassumption|assumption].
    + intros x t. cbn [set_own own]. destruct (x =? id) eqn:E.
      * intros H. injection H as <-. apply Z.eqb_eq in E. subst x. exists (C7 id). cbn [lookup]. rewrite Z.eqb_refl.
        split; [reflexivity|left; reflexivity].
      * intros H. destruct (I5 _ _ H) as (p & Hp & Ha). exists p. split; [eapply lookup_spawn_old; eassumption|assumption].
    + cbn [cnt_c10 is_c10]. replace (cnt_or _ (64 * nb)) with (cnt_or g (64 * nb)); [exact I6|].
      unfold cnt_or. apply cnt_ext. intros x _. cbn [set_own set_kind own].
      destruct (x =? id) eqn:E; [|reflexivity]. apply Z.eqb_eq in E. subst x. rewrite Eo. reflexivity.
    + intros t H. apply lookup_spawn_inv in H. destruct H as [[_ H]|H]; [discriminate|]. apply I7 in H. lia.
  - destruct Hd as [Hd|[Hd _]]; discriminate.
Qed.

Lemma sid_inj pos j pos' j' : 0 <= j < 64 -> 0 <= j' < 64 -> pos * 64 + j = pos' * 64 + j' -> pos = pos' /\ j = j'.
Proof. lia. Qed.

Lemma wf_len nb s : wf nb s -> Z.of_nat (length (words (smem s))) = nb.
Proof. intros ((_ & H & _) & _). exact H. Qed.

(* the successful CAS of GetStream: the linearisation point of an acquisition *)
Lemma inv_g4_ok nb s g t off i j b : 1 <= nb -> wf nb s -> Inv nb s g -> disc nb s g (Step t) ->
  lookup t (threads s) = Some (G4 off i j b) ->
  word (smem s) (pos_of (smem s) off i) = b ->
  let pos := pos_of (smem s) off i in
  own g (pos * 64 + j) = Free /\ pos * 64 + j <> 0 /\
  Inv nb {| smem := set_word (smem s) pos (Z.lor b (mask_of j)); threads := update t (G5 pos j) (threads s); next := next s |}
         (set_own g (pos * 64 + j) (Acquiring t)).
Proof.
  intros Hnb Hwf HI Hd Hl Hb pos. pose proof HI as [I1 I2 I3 I4 I5 I6 I7].
  pose proof Hwf as ((Hk & Hlen & _) & _ & _ & Hth).
  destruct (Hth _ _ Hl) as [_ Hp]. cbn [pc_wf] in Hp. destruct Hp as (Hpo & Hj & Hbit).
  assert (Hpos : 0 <= pos < nb) by (apply pos_of_range; assumption).
  set (id := pos * 64 + j) in *.
  assert (Hfree : ~ (id = 0 \/ own g id <> Free)).
  { intros H. apply (I1 pos j Hpos Hj) in H. fold pos in Hb. rewrite Hb in H. congruence. }
  assert (Hid0 : id <> 0) by tauto.
  assert (Hown : own g id = Free) by (destruct (owner_free_dec (own g id)); tauto).
  split; [assumption|]. split; [assumption|].
  assert (Hm : mask_of j = 2 ^ (63 - j)) by (rewrite mask_of_nonneg by lia; rewrite Z.mod_small by lia; reflexivity).
  constructor; cbn [smem threads next].
  - intros pos' j' Hp' Hj'. destruct (Z.eq_dec pos' pos) as [->|Hne].
    + rewrite word_set_eq by lia. rewrite Hm, testbit_lor_pow2 by lia.
      destruct (Z.eq_dec j' j) as [->|Hnj].
      * rewrite Z.eqb_refl, orb_true_r. fold id. rewrite own_set_eq. split; [intros _; right; discriminate|reflexivity].
      * replace (63 - j =? 63 - j') with false by lia. rewrite orb_false_r. rewrite own_set_neq by (unfold id; lia).
        rewrite <- Hb. apply I1; assumption.
    + rewrite word_set_neq by lia. rewrite own_set_neq by (unfold id; lia). apply I1; assumption.
  - intros x. destruct (Z.eq_dec x id) as [->|Hne]; [intros _; unfold id; lia|]. rewrite own_set_neq by assumption. apply I2.
  - intros t0 p0. upd_other Hl.
    + intros H; injection H as <-. cbn [pcB]. apply own_set_eq.
    + intros H. apply (pcB_frame nb g); [reflexivity| |apply I3; assumption].
      intros x Hx. destruct (Z.eq_dec x id) as [->|Hne]; [|apply own_set_neq; assumption]. exfalso.
      rewrite Hown in Hx. destruct Hx as [Hx|[Hx|[_ Hx]]]; try discriminate. subst p0.
      pose proof (Hd off i j b Hl Hb t0 H) as Hk0. apply I3 in H. cbn [pcB] in H. fold pos id in H.
      destruct H as [[_ H]|[H _]]; congruence.
  - intros x t0. destruct (Z.eq_dec x id) as [->|Hne].
    + rewrite own_set_eq. intros H; injection H as <-. exists (G5 pos j).
      rewrite lookup_update_eq by congruence. split; [reflexivity|]. exists pos, j. auto.
    + rewrite own_set_neq by assumption. intros H. destruct (I4 _ _ H) as (p0 & Hp0 & Ha). exists p0. split; [|assumption].
      rewrite lookup_update_neq; [assumption|]. intros <-. rewrite Hl in Hp0. injection Hp0 as <-.
      destruct Ha as (? & ? & Ha & _). discriminate.
  - intros x t0. destruct (Z.eq_dec x id) as [->|Hne]; [rewrite own_set_eq; discriminate|].
    rewrite own_set_neq by assumption. intros H. destruct (I5 _ _ H) as (p0 & Hp0 & Ha). exists p0. split; [|assumption].
    rewrite lookup_update_neq; [assumption|]. intros <-. rewrite Hl in Hp0. injection Hp0 as <-.
    destruct Ha as [Ha|[[? Ha]|Ha]]; discriminate.
  - cbn [set_word inuse]. rewrite (cnt_c10_update _ _ (G5 pos j) _ Hl). cbn [is_c10].
    replace (cnt_or (set_own g id (Acquiring t)) (64 * nb)) with (cnt_or g (64 * nb)).
    { replace (cnt_c10 (threads s) - 0 + 0) with (cnt_c10 (threads s)) by lia. exact I6. }
    unfold cnt_or. apply cnt_ext. intros x _. cbn [set_own own]. destruct (x =? id) eqn:E; [|reflexivity].
    apply Z.eqb_eq in E. subst x. rewrite Hown. reflexivity.
  - intros t0. upd_other Hl; [discriminate|apply I7].
Qed.

(* the counter increment after a successful CAS *)
Lemma inv_g5 nb s g t pos j : 1 <= nb -> wf nb s -> Inv nb s g ->
  lookup t (threads s) = Some (G5 pos j) ->
  Inv nb {| smem := set_inuse (smem s) (s32 (inuse (smem s) + 1)); threads := update t (GDone (pos * 64 + j) true) (threads s); next := next s |}
         (set_own g (pos * 64 + j) Owned).
Proof.
  intros Hnb Hwf HI Hl. pose proof HI as [I1 I2 I3 I4 I5 I6 I7].
  pose proof (I3 _ _ Hl) as Hown. cbn [pcB] in Hown. set (id := pos * 64 + j) in *.
  assert (Hr : 1 <= id < 64 * nb) by (apply I2; rewrite Hown; discriminate).
  constructor; cbn [smem threads next].
  - intros pos' j' Hp' Hj'. change (word (set_inuse (smem s) _) pos') with (word (smem s) pos').
    rewrite (I1 pos' j' Hp' Hj'). destruct (Z.eq_dec (pos' * 64 + j') id) as [->|Hne].
    + rewrite own_set_eq, Hown. split; intros [H|H]; auto; right; discriminate.
    + rewrite own_set_neq by assumption. reflexivity.
  - intros x. destruct (Z.eq_dec x id) as [->|Hne]; [intros _; assumption|]. rewrite own_set_neq by assumption. apply I2.
  - intros t0 p0. upd_other Hl.
    + intros H; injection H as <-. cbn [pcB]. assumption.
    + intros H. apply (pcB_frame nb g); [reflexivity| |apply I3; assumption].
      intros x Hx. destruct (Z.eq_dec x id) as [->|Hne]; [|apply own_set_neq; assumption]. exfalso.
      rewrite Hown in Hx. destruct Hx as [Hx|[Hx|[Hx _]]]; try discriminate. injection Hx as Hx. congruence.
  - intros x t0. destruct (Z.eq_dec x id) as [->|Hne]; [rewrite own_set_eq; discriminate|].
    rewrite own_set_neq by assumption. intros H. destruct (I4 _ _ H) as (p0 & Hp0 & Ha). exists p0. split; [|assumption].
    rewrite lookup_update_neq; [assumption|]. intros <-. rewrite Hl in Hp0. injection Hp0 as <-.
    destruct Ha as (pos' & j' & Ha & Hx). injection Ha as <- <-. apply Hne. exact Hx.
  - intros x t0. destruct (Z.eq_dec x id) as [->|Hne]; [rewrite own_set_eq; discriminate|].
    rewrite own_set_neq by assumption. intros H. destruct (I5 _ _ H) as (p0 & Hp0 & Ha). exists p0. split; [|assumption].
    rewrite lookup_update_neq; [assumption|]. intros <-. rewrite Hl in Hp0. injection Hp0 as <-.
    destruct Ha as [Ha|[[? Ha]|Ha]]; discriminate.
  - cbn [set_inuse inuse]. rewrite (cnt_c10_update _ _ (GDone id true) _ Hl). cbn [is_c10].
    assert (Hc : cnt_or (set_own g id Owned) (64 * nb) = cnt_or g (64 * nb) + 1).
    { unfold cnt_or. rewrite (cnt_upd (fun x => is_or (own g x)) _ _ id).
      - rewrite own_set_eq, Hown. cbn [is_or]. lia.
      - lia.
      - intros x Hx. rewrite own_set_neq by assumption. reflexivity. }
    rewrite Hc. pose proof (s32_congr (inuse (smem s) + 1)). lia.
  - intros t0. upd_other Hl; [discriminate|apply I7].
Qed.

(* the successful CAS of Clear *)
Lemma inv_c8_ok nb s g t id b : 1 <= nb -> wf nb s -> Inv nb s g ->
  lookup t (threads s) = Some (C8 id b) ->
  word (smem s) (bucket_offset id) = b ->
  Inv nb {| smem := set_word (smem s) (bucket_offset id) (Z.ldiff b (mask_of id)); threads := update t (C10 id) (threads s); next := next s |}
         (set_own g id Free).
Proof.
  intros Hnb Hwf HI Hl Hb. pose proof HI as [I1 I2 I3 I4 I5 I6 I7].
  pose proof (wf_len _ _ Hwf) as Hlen.
  pose proof (I3 _ _ Hl) as [Hk Hown]. cbn [pcB] in Hk, Hown.
  assert (Hr : 1 <= id < 64 * nb) by (apply I2; rewrite Hown; discriminate).
  rewrite bucket_offset_nonneg in * by lia. rewrite mask_of_nonneg by lia.
  set (pos := id / 64) in *. set (j := id mod 64) in *.
  assert (Hpos : 0 <= pos < nb) by (unfold pos; lia). assert (Hj : 0 <= j < 64) by (unfold j; lia).
  assert (Hid : id = pos * 64 + j) by (unfold pos, j; lia).
  constructor; cbn [smem threads next].
  - intros pos' j' Hp' Hj'. destruct (Z.eq_dec pos' pos) as [->|Hne].
    + rewrite word_set_eq by lia. rewrite testbit_ldiff_pow2 by lia.
      destruct (Z.eq_dec j' j) as [->|Hnj].
      * rewrite Z.eqb_refl, andb_false_r. rewrite <- Hid, own_set_eq. split; [discriminate|]. intros [H|H]; [lia|congruence].
      * replace (63 - j =? 63 - j') with false by lia. cbn [negb]. rewrite andb_true_r. rewrite own_set_neq by lia.
        rewrite <- Hb. apply I1; assumption.
    + rewrite word_set_neq by lia. rewrite own_set_neq by lia. apply I1; assumption.
  - intros x. destruct (Z.eq_dec x id) as [->|Hne]; [rewrite own_set_eq; congruence|]. rewrite own_set_neq by assumption. apply I2.
  - intros t0 p0. upd_other Hl.
    + intros H; injection H as <-. cbn [pcB]. assumption.
    + intros H. apply (pcB_frame nb g); [reflexivity| |apply I3; assumption].
      intros x Hx. destruct (Z.eq_dec x id) as [->|Hne]; [|apply own_set_neq; assumption]. exfalso.
      rewrite Hown in Hx. destruct Hx as [Hx|[Hx|[Hx _]]]; try discriminate. injection Hx as Hx. congruence.
  - intros x t0. destruct (Z.eq_dec x id) as [->|Hne]; [rewrite own_set_eq; discriminate|].
    rewrite own_set_neq by assumption. intros H. destruct (I4 _ _ H) as (p0 & Hp0 & Ha). exists p0. split; [|assumption].
    rewrite lookup_update_neq; [assumption|]. intros <-. rewrite Hl in Hp0. injection Hp0 as <-.
    destruct Ha as (? & ? & Ha & _). discriminate.
  - intros x t0. destruct (Z.eq_dec x id) as [->|Hne]; [rewrite own_set_eq; discriminate|].
    rewrite own_set_neq by assumption. intros H. destruct (I5 _ _ H) as (p0 & Hp0 & Ha). exists p0. split; [|assumption].
    rewrite lookup_update_neq; [assumption|]. intros <-. rewrite Hl in Hp0. injection Hp0 as <-.
    destruct Ha as [Ha|[[? Ha]|Ha]]; try discriminate. injection Ha as Ha _. congruence.
  - cbn [set_word inuse]. rewrite (cnt_c10_update _ _ (C10 id) _ Hl). cbn [is_c10].
    assert (Hc : cnt_or (set_own g id Free) (64 * nb) = cnt_or g (64 * nb) - 1).
    { unfold cnt_or. rewrite (cnt_upd (fun x => is_or (own g x)) _ _ id).
      - rewrite own_set_eq, Hown. cbn [is_or]. lia.
      - lia.
      - intros x Hx. rewrite own_set_neq by assumption. reflexivity. }
    rewrite Hc. replace (cnt_or g (64 * nb) - 1 + (cnt_c10 (threads s) - 0 + 1)) with (cnt_or g (64 * nb) + cnt_c10 (threads s)) by lia.
    exact I6.
  - intros t0. upd_other Hl; [discriminate|apply I7].
Qed.

(* the counter decrement of Clear *)
Lemma inv_c10 nb s g t id : 1 <= nb -> wf nb s -> Inv nb s g ->
  lookup t (threads s) = Some (C10 id) ->
  let v := s32 (inuse (smem s) - 1) in
  Inv nb {| smem := set_inuse (smem s) v; threads := update t (if v <? 0 then CPanic else CDone true) (threads s); next := next s |} g.
Proof.
  intros Hnb Hwf HI Hl v. pose proof HI as [I1 I2 I3 I4 I5 I6 I7].
  pose proof (I3 _ _ Hl) as Hk. cbn [pcB] in Hk.
  set (p' := if v <? 0 then CPanic else CDone true).
  pose proof (cnt_c10_update _ _ p' _ Hl) as Hcu. cbn [is_c10] in Hcu.
  assert (Hc' : is_c10 p' = false) by (unfold p'; destruct (v <? 0); reflexivity). rewrite Hc' in Hcu.
  constructor; cbn [smem threads next]; try assumption.
  - intros t0 p0. upd_other Hl; [|apply I3].
    intros H; injection H as <-. unfold p'. destruct (v <? 0); cbn [pcB]; assumption.
  - intros x t0 H. destruct (I4 _ _ H) as (p0 & Hp0 & Ha). exists p0. split; [|assumption].
    rewrite lookup_update_neq; [assumption|]. intros <-. rewrite Hl in Hp0. injection Hp0 as <-.
    destruct Ha as (? & ? & Ha & _). discriminate.
  - intros x t0 H. destruct (I5 _ _ H) as (p0 & Hp0 & Ha). exists p0. split; [|assumption].
    rewrite lookup_update_neq; [assumption|]. intros <-. rewrite Hl in Hp0. injection Hp0 as <-.
    destruct Ha as [Ha|[[? Ha]|Ha]]; discriminate.
  - cbn [set_inuse inuse]. rewrite Hcu. pose proof (s32_congr (inuse (smem s) - 1)). fold v in H. lia.
  - intros t0. upd_other Hl; [|apply I7]. unfold p'. destruct (v <? 0) eqn:Ev; [|discriminate]. intros _.
    pose proof (cnt_bounds (fun x => is_or (own g x)) (Z.to_nat (64 * nb))) as Hb1. fold (cnt_or g (64 * nb)) in Hb1.
    pose proof (cnt_c10_bounds (update t p' (threads s))) as Hb2. rewrite length_update in Hb2.
    destruct Hwf as (_ & _ & Hlen & _).
    destruct (Z_lt_le_dec (64 * nb + next s) 2147483648) as [Hlt|]; [exfalso|assumption].
    assert (Hv : v = cnt_or g (64 * nb) + cnt_c10 (threads s) - 1); [|lia].
    unfold v. apply s32_of_congr; lia.
Qed.
