(* C08/Proofs7.v -- sequential use: a GetStream call running alone terminates and returns the first free id in
   its scan order, or fails exactly when every bit is set; hence a fresh allocator hands out every id, then fails *)
From GocqlV Require Import Lib.Base Gen.Consts C08.Model C08.Ghost C08.Proofs1 C08.Proofs2 C08.Proofs3 C08.Proofs4.
Open Scope Z_scope.

Definition mk (m : mem) (ths : list (Z * pc)) (n : Z) : state := {| smem := m; threads := ths; next := n |}.

Lemma run_solo_done f s t p : lookup t (threads s) = Some p -> point p = 0 -> run_solo f s t = Some s.
Proof. intros Hl Hp. destruct f; cbn [run_solo]; rewrite Hl, Hp; reflexivity. Qed.

Lemma run_solo_step f m ths n t p m' p' : lookup t ths = Some p -> point p <> 0 -> tstep m p = Some (m', p') ->
  run_solo (S f) (mk m ths n) t = run_solo f (mk m' (update t p' ths) n) t.
Proof.
  intros Hl Hp Ht. unfold mk. cbn [run_solo threads]. rewrite Hl. destruct (point p =? 0) eqn:E; [lia|].
  cbn [step threads smem next]. rewrite Hl, Ht. reflexivity.
Qed.

Lemma update_update t p1 p2 l : update t p2 (update t p1 l) = update t p2 l.
Proof.
  induction l as [|[t0 p0] l IH]; cbn [update]; [reflexivity|].
  destruct (t0 =? t) eqn:E; cbn [update]; rewrite E; [reflexivity|]. f_equal. apply IH.
Qed.

Lemma run_solo_wf nb f : 1 <= nb < 4294967296 -> forall s t s', wf nb s -> run_solo f s t = Some s' -> wf nb s'.
Proof.
  intros Hnb. induction f as [|f IH]; intros s t s' Hwf; cbn [run_solo].
  - destruct (lookup t (threads s)); [|discriminate]. destruct (point p =? 0); [|discriminate]. intros H; injection H as <-; assumption.
  - destruct (lookup t (threads s)); [|discriminate]. destruct (point p =? 0); [intros H; injection H as <-; assumption|].
    destruct (step s (Step t)) as [s1|] eqn:Es; [|discriminate]. apply IH. eapply step_wf; eassumption.
Qed.

(* the first free position in the scan order of a solo GetStream: words i, i+1, ... (n of them) from the rotated offset *)
Fixpoint find_free (m : mem) (off : Z) (n : nat) (i : Z) : option (Z * Z) :=
  match n with
  | O => None
  | S n' =>
      let b := word m (pos_of m off i) in
      match (if b =? max64 then None else scan 64 b 0) with
      | Some j => Some (pos_of m off i, j)
      | None => find_free m off n' (i + 1)
      end
  end.

Lemma find_free_some m off n i pos j : find_free m off n i = Some (pos, j) ->
  (exists i', pos = pos_of m off i') /\ 0 <= j < 64 /\ Z.testbit (word m pos) (63 - j) = false.
Proof.
  revert i. induction n as [|n IH]; intros i; cbn [find_free]; [discriminate|].
  destruct (word m (pos_of m off i) =? max64); [apply IH|].
  destruct (scan 64 (word m (pos_of m off i)) 0) as [j0|] eqn:Es; [|apply IH].
  intros H; injection H as <- <-. apply scan_some in Es; [|lia]. split; [eauto|]. intuition lia.
Qed.

Lemma find_free_none m off n i : find_free m off n i = None ->
  forall i', i <= i' < i + Z.of_nat n -> forall j, 0 <= j < 64 -> Z.testbit (word m (pos_of m off i')) (63 - j) = true.
Proof.
  revert i. induction n as [|n IH]; intros i; cbn [find_free]; [intros; lia|].
  destruct (word m (pos_of m off i) =? max64) eqn:Em.
  - intros H i' Hi' j Hj. destruct (Z.eq_dec i' i) as [->|]; [|apply (IH (i + 1)); assumption || lia].
    apply Z.eqb_eq in Em. rewrite Em. apply testbit_max64. lia.
  - destruct (scan 64 (word m (pos_of m off i)) 0) as [j0|] eqn:Es; [discriminate|].
    intros H i' Hi' j Hj. destruct (Z.eq_dec i' i) as [->|]; [|apply (IH (i + 1)); assumption || lia].
    eapply scan_none; try eassumption; lia.
Qed.

Lemma solo_from_G3 nb m off t nx : 1 <= nb < 4294967296 -> nbk m = nb ->
  forall n i ths fuel, 0 <= i -> i + Z.of_nat n = nb -> (1 <= n)%nat -> lookup t ths = Some (G3 off i) ->
  (n + 2 <= fuel)%nat ->
  exists ths',
    match find_free m off n i with
    | Some (pos, j) =>
        run_solo fuel (mk m ths nx) t
          = Some (mk (set_inuse (set_word m pos (Z.lor (word m pos) (mask_of j))) (s32 (inuse m + 1))) ths' nx)
        /\ lookup t ths' = Some (GDone (pos * bb + j) true)
    | None => run_solo fuel (mk m ths nx) t = Some (mk m ths' nx) /\ lookup t ths' = Some (GDone 0 false)
    end.
Proof.
  intros Hnb Hk. induction n as [|n IH]; intros i ths fuel Hi Hin Hn Hl Hf; [lia|].
  destruct fuel as [|f]; [lia|].
  assert (Hne : lookup t ths <> None) by congruence.
  cbn [find_free]. set (pos := pos_of m off i). set (b := word m pos).
  assert (Hnext : (if b =? max64 then None else scan 64 b 0) = None ->
     exists ths', match find_free m off n (i + 1) with
       | Some (pos, j) =>
          run_solo f (mk m (update t (next_word m off i) ths) nx) t
            = Some (mk (set_inuse (set_word m pos (Z.lor (word m pos) (mask_of j))) (s32 (inuse m + 1))) ths' nx)
          /\ lookup t ths' = Some (GDone (pos * bb + j) true)
       | None => run_solo f (mk m (update t (next_word m off i) ths) nx) t = Some (mk m ths' nx)
                 /\ lookup t ths' = Some (GDone 0 false)
       end).
  { intros _. unfold next_word. rewrite Hk, w32_small by lia. destruct (i + 1 <? nb) eqn:E.
    - apply IH; try lia. apply lookup_update_eq; assumption.
    - assert (n = 0%nat) by lia. subst n. cbn [find_free]. exists (update t (GDone 0 false) ths).
      split; [|apply lookup_update_eq; assumption].
      eapply run_solo_done; [cbn [mk threads]; apply lookup_update_eq; assumption|reflexivity]. }
  destruct (if b =? max64 then None else scan 64 b 0) as [j|] eqn:Esel.
  - (* a free bit in this word: CAS (succeeds: nobody else moves), add, return *)
    destruct (b =? max64) eqn:Em; [discriminate|].
    destruct f as [|[|f]]; try lia.
    exists (update t (GDone (pos * bb + j) true) ths).
    rewrite (run_solo_step _ m ths nx t (G3 off i) m (G4 off i j b)); [|assumption|discriminate|].
    2:{ cbn [tstep]. fold pos b. rewrite Em. unfold after_load. rewrite Esel. reflexivity. }
    rewrite (run_solo_step _ m _ nx t (G4 off i j b) (set_word m pos (Z.lor b (mask_of j))) (G5 pos j));
      [|apply lookup_update_eq; assumption|discriminate|].
    2:{ cbn [tstep]. fold pos b. rewrite Z.eqb_refl. reflexivity. }
    rewrite (run_solo_step _ _ _ nx t (G5 pos j) (set_inuse (set_word m pos (Z.lor b (mask_of j))) (s32 (inuse m + 1))) (GDone (pos * bb + j) true));
      [|apply lookup_update_eq; rewrite lookup_update_eq by assumption; discriminate|discriminate|reflexivity].
    split.
    + erewrite run_solo_done; [| cbn [mk threads]; apply lookup_update_eq; rewrite !lookup_update_eq by (try rewrite lookup_update_eq by assumption; congruence); discriminate | reflexivity].
      rewrite !update_update. reflexivity.
    + apply lookup_update_eq; assumption.
  - (* nothing free here: next word *)
    destruct (Hnext eq_refl) as (ths' & H). exists ths'.
    assert (Hstep : run_solo (S f) (mk m ths nx) t = run_solo f (mk m (update t (next_word m off i) ths) nx) t).
    { apply (run_solo_step f m ths nx t (G3 off i) m (next_word m off i)); [assumption|discriminate|].
      cbn [tstep]. fold pos b. destruct (b =? max64); [reflexivity|]. unfold after_load. rewrite Esel. reflexivity. }
    rewrite Hstep. destruct (find_free m off n (i + 1)) as [[pos' j']|].
    + destruct H as [H1 H2]. split; [|assumption]. destruct f; [|exact H1]. exact H1.
    + exact H.
Qed.

(* ---- a whole solo GetStream call as a function of the shared memory ---- *)
Definition get_big (m : mem) : mem * (Z * bool) :=
  let off' := w32 (offset m + 1) mod nbk m in
  let m1 := set_offset m off' in
  match find_free m1 off' (Z.to_nat (nbk m)) 0 with
  | Some (pos, j) => (set_inuse (set_word m1 pos (Z.lor (word m1 pos) (mask_of j))) (s32 (inuse m1 + 1)), (pos * bb + j, true))
  | None => (m1, (0, false))
  end.

Lemma solo_get nb s : 1 <= nb < 2147483648 -> wf nb s ->
  exists s2, run_solo (solo_fuel s) {| smem := smem s; threads := (next s, G1) :: threads s; next := next s + 1 |} (next s) = Some s2
    /\ smem s2 = fst (get_big (smem s))
    /\ lookup (next s) (threads s2) = Some (GDone (fst (snd (get_big (smem s)))) (snd (snd (get_big (smem s)))))
    /\ wf nb s2.
Proof.
  intros Hnb Hwf. pose proof Hwf as ((Hk & Hlen & Hoff & _) & Hn0 & _).
  set (m := smem s) in *. set (t := next s). set (ths := (t, G1) :: threads s).
  assert (Hwf1 : wf nb (mk m ths (t + 1))).
  { apply (step_wf nb s (Spawn OGet)); [lia|assumption|reflexivity]. }
  assert (Hl0 : lookup t ths = Some G1) by (unfold ths; cbn [lookup]; rewrite Z.eqb_refl; reflexivity).
  assert (Hfuel : exists f, solo_fuel s = S (S f) /\ (Z.to_nat nb + 2 <= f)%nat).
  { unfold solo_fuel. fold m. rewrite Hk. exists (Z.to_nat (2 * nb + 14)). split; lia. }
  destruct Hfuel as (f & Hf & Hfle). rewrite Hf.
  change {| smem := m; threads := ths; next := t + 1 |} with (mk m ths (t + 1)).
  set (off' := w32 (offset m + 1) mod nbk m). set (m1 := set_offset m off').
  rewrite (run_solo_step _ m ths (t + 1) t G1 m (G2 (offset m))); [|assumption|discriminate|reflexivity].
  rewrite (run_solo_step _ m _ (t + 1) t (G2 (offset m)) m1 (G3 off' 0));
    [|apply lookup_update_eq; congruence|discriminate|].
  2:{ cbn [tstep]. rewrite Z.eqb_refl. unfold m1, off'. destruct (0 <? nbk m) eqn:E; [reflexivity|lia]. }
  destruct (solo_from_G3 nb m1 off' t (t + 1)) with (n := Z.to_nat nb) (i := 0)
    (ths := update t (G3 off' 0) (update t (G2 (offset m)) ths)) (fuel := f) as (ths' & Hres); try lia; try assumption.
  { apply lookup_update_eq. rewrite lookup_update_eq by congruence. discriminate. }
  unfold get_big. fold m off' m1. rewrite Hk.
  assert (Hwfend : forall s2, run_solo (S (S f)) (mk m ths (t + 1)) t = Some s2 -> wf nb s2).
  { intros s2. apply run_solo_wf; [lia|assumption]. }
  rewrite (run_solo_step _ m ths (t + 1) t G1 m (G2 (offset m))) in Hwfend; [|assumption|discriminate|reflexivity].
  rewrite (run_solo_step _ m _ (t + 1) t (G2 (offset m)) m1 (G3 off' 0)) in Hwfend;
    [|apply lookup_update_eq; congruence|discriminate|].
  2:{ cbn [tstep]. rewrite Z.eqb_refl. unfold m1, off'. destruct (0 <? nbk m) eqn:E; [reflexivity|lia]. }
  destruct (find_free m1 off' (Z.to_nat nb) 0) as [[pos j]|]; destruct Hres as [Hrun Hlk]; eexists; (split; [exact Hrun|]);
    cbn [fst snd mk smem threads]; (split; [reflexivity|]); (split; [exact Hlk|]); apply Hwfend; exact Hrun.
Qed.

(* ---- what get_big does to the bits ---- *)
Lemma bit_words m m' x : words m' = words m -> bit m' x = bit m x.
Proof. intros H. unfold bit, word. rewrite H. reflexivity. Qed.

Lemma get_big_spec nb m : 1 <= nb < 2147483648 -> mem_wf nb m ->
  let r := fst (snd (get_big m)) in let ok := snd (snd (get_big m)) in let m' := fst (get_big m) in
  if ok then 0 <= r < 64 * nb /\ bit m r = false /\ bit m' r = true
            /\ forall x, 0 <= x < 64 * nb -> x <> r -> bit m' x = bit m x
  else r = 0 /\ (forall x, 0 <= x < 64 * nb -> bit m x = true) /\ forall x, bit m' x = bit m x.
Proof.
  intros Hnb (Hk & Hlen & Hoff & _). unfold get_big. rewrite Hk.
  set (off' := w32 (offset m + 1) mod nb). set (m1 := set_offset m off').
  assert (Hk1 : nbk m1 = nb) by exact Hk.
  assert (Hoff' : 0 <= off' < nb) by (apply Z.mod_pos_bound; lia).
  destruct (find_free m1 off' (Z.to_nat nb) 0) as [[pos j]|] eqn:Ef; cbn [fst snd].
  - apply find_free_some in Ef. destruct Ef as ((i' & Hpos) & Hj & Hb).
    assert (Hp : 0 <= pos < nb) by (subst pos; apply pos_of_range; assumption || lia).
    rewrite bb_eq. split; [lia|]. split; [rewrite bit_pos_j by lia; exact Hb|].
    assert (Hm : mask_of j = 2 ^ (63 - j)) by (rewrite mask_of_nonneg by lia; rewrite Z.mod_small by lia; reflexivity).
    split.
    + rewrite bit_pos_j by lia. change (word (set_inuse ?a ?b) pos) with (word a pos).
      rewrite word_set_eq by (change (words m1) with (words m); lia). rewrite Hm, testbit_lor_pow2 by lia.
      rewrite Z.eqb_refl. apply orb_true_r.
    + intros x Hx Hne. replace x with (x / 64 * 64 + x mod 64) by lia.
      rewrite !bit_pos_j by lia. change (word (set_inuse ?a ?b) (x / 64)) with (word a (x / 64)).
      destruct (Z.eq_dec (x / 64) pos) as [Hxp|Hxp].
      * rewrite Hxp. rewrite word_set_eq by (change (words m1) with (words m); lia). rewrite Hm, testbit_lor_pow2 by lia.
        replace (63 - j =? 63 - x mod 64) with false by lia. rewrite orb_false_r. reflexivity.
      * rewrite word_set_neq by lia. reflexivity.
  - split; [reflexivity|]. split; [|intros x; apply bit_words; reflexivity].
    intros x Hx. destruct (posf_surj nb off' (x / 64)) as (i' & Hi' & Hp); [lia|lia|].
    replace x with (x / 64 * 64 + x mod 64) by lia. rewrite bit_pos_j by lia.
    rewrite <- Hp, <- (pos_of_posf nb m1) by (assumption || lia).
    change (word m (pos_of m1 off' i')) with (word m1 (pos_of m1 off' i')).
    eapply find_free_none; [eassumption|lia|lia].
Qed.

(* ---- counting free ids ---- *)
Definition free_cnt (nb : Z) (m : mem) : Z := cnt (fun id => negb (bit m id)) (Z.to_nat (64 * nb)).

Lemma cnt_pos f n x : 0 <= x < Z.of_nat n -> f x = true -> 1 <= cnt f n.
Proof.
  induction n as [|k IH]; intros Hx Hf; [lia|]. cbn [cnt]. pose proof (cnt_bounds f k).
  destruct (Z.eq_dec x (Z.of_nat k)) as [->|]; [rewrite Hf; lia|]. assert (1 <= cnt f k) by (apply IH; assumption || lia).
  destruct (f (Z.of_nat k)); lia.
Qed.
Lemma cnt_false f n : (forall x, 0 <= x < Z.of_nat n -> f x = false) -> cnt f n = 0.
Proof. induction n as [|k IH]; intros H; cbn [cnt]; [reflexivity|]. rewrite H by lia. rewrite IH; [reflexivity|]. intros; apply H; lia. Qed.

Lemma free_cnt_init nb : 1 <= nb -> free_cnt nb (init_mem nb) = 64 * nb - 1.
Proof.
  intros Hnb. unfold free_cnt.
  assert (Hb : forall x, 0 <= x < 64 * nb -> bit (init_mem nb) x = (x =? 0)).
  { intros x Hx. replace x with (x / 64 * 64 + x mod 64) at 1 by lia. rewrite bit_pos_j by lia.
    rewrite word_init by lia. destruct (x / 64 =? 0) eqn:E.
    - rewrite testbit_pow2 by lia. destruct (Z.eqb_spec x 0); lia.
    - rewrite Z.bits_0. destruct (Z.eqb_spec x 0); lia. }
  rewrite (cnt_ext _ (fun x => negb (x =? 0))) by (intros x Hx; rewrite Hb by lia; reflexivity).
  assert (H : forall n, (1 <= n)%nat -> cnt (fun x => negb (x =? 0)) n = Z.of_nat n - 1).
  { induction n as [|k IH]; [lia|]. intros _. cbn [cnt]. destruct k as [|k]; [reflexivity|].
    rewrite IH by lia. destruct (Z.eqb_spec (Z.of_nat (S k)) 0); cbn [negb]; lia. }
  rewrite H by lia. lia.
Qed.

Lemma seq_gets_app a b s : seq_gets (a + b) s =
  match seq_gets a s with
  | Some (s1, r1) => match seq_gets b s1 with Some (s2, r2) => Some (s2, r1 ++ r2) | None => None end
  | None => None
  end.
Proof.
  revert s. induction a as [|a IH]; intros s; cbn [seq_gets Nat.add].
  - destruct (seq_gets b s) as [[s2 r2]|]; reflexivity.
  - destruct (step s (Spawn OGet)) as [s1|]; [|reflexivity]. destruct (run_solo _ s1 _) as [s2|]; [|reflexivity].
    destruct (lookup _ (threads s2)) as [[]|]; try reflexivity. rewrite IH.
    destruct (seq_gets a s2) as [[s3 r3]|]; [|reflexivity]. destruct (seq_gets b s3) as [[s4 r4]|]; reflexivity.
Qed.

Lemma seq_get_one nb s : 1 <= nb < 2147483648 -> wf nb s ->
  exists s2, seq_gets 1 s = Some (s2, [snd (get_big (smem s))]) /\ smem s2 = fst (get_big (smem s)) /\ wf nb s2.
Proof.
  intros Hnb Hwf. destruct (solo_get nb s Hnb Hwf) as (s2 & Hr & Hm & Hl & Hwf2).
  exists s2. cbn [seq_gets step init_pc]. rewrite Hr, Hl. destruct (snd (get_big (smem s))). auto.
Qed.

Lemma cnt_upd_r f f' n id : 0 <= id < Z.of_nat n -> (forall x, 0 <= x < Z.of_nat n -> x <> id -> f' x = f x) ->
  cnt f' n = cnt f n - (if f id then 1 else 0) + (if f' id then 1 else 0).
Proof.
  induction n as [|k IH]; intros Hid H; cbn [cnt]; [lia|].
  destruct (Z.eq_dec id (Z.of_nat k)) as [->|Hne].
  - rewrite (cnt_ext f' f k) by (intros; apply H; lia). lia.
  - rewrite H by lia. rewrite IH; [lia|lia|]. intros; apply H; lia.
Qed.

Lemma seq_gets_ok nb : 1 <= nb < 2147483648 -> forall k s, wf nb s -> Z.of_nat k <= free_cnt nb (smem s) ->
  exists s' ids, seq_gets k s = Some (s', map (fun id => (id, true)) ids) /\ length ids = k /\ wf nb s'
    /\ free_cnt nb (smem s') = free_cnt nb (smem s) - Z.of_nat k /\ NoDup ids
    /\ Forall (fun id => 0 <= id < 64 * nb /\ bit (smem s) id = false /\ bit (smem s') id = true) ids
    /\ (forall x, 0 <= x < 64 * nb -> bit (smem s) x = true -> bit (smem s') x = true).
Proof.
  intros Hnb. induction k as [|k IH]; intros s Hwf Hk.
  - exists s, []. cbn [seq_gets map length]. split; [reflexivity|]. split; [reflexivity|]. split; [assumption|].
    split; [lia|]. split; [apply NoDup_nil|]. split; [apply Forall_nil|]. auto.
  - change (S k) with (1 + k)%nat. rewrite seq_gets_app.
    destruct (seq_get_one nb s Hnb Hwf) as (s2 & Hone & Hm2 & Hwf2). rewrite Hone.
    pose proof Hwf as (Hmwf & _).
    pose proof (get_big_spec nb (smem s) Hnb Hmwf) as Hspec. cbv zeta in Hspec. rewrite <- Hm2 in Hspec.
    destruct (snd (get_big (smem s))) as [r ok] eqn:Eres. cbn [fst snd] in Hspec. destruct ok.
    2:{ exfalso. destruct Hspec as (_ & Hall & _). unfold free_cnt in Hk. rewrite cnt_false in Hk; [lia|].
        intros x Hx. rewrite Hall by lia. reflexivity. }
    destruct Hspec as (Hr & Hb0 & Hb1 & Hoth).
    assert (Hfc : free_cnt nb (smem s2) = free_cnt nb (smem s) - 1).
    { unfold free_cnt. rewrite (cnt_upd_r (fun id => negb (bit (smem s) id)) (fun id => negb (bit (smem s2) id)) _ r).
      - rewrite Hb0, Hb1. cbn [negb]. lia.
      - lia.
      - intros x Hx Hne. rewrite Hoth by lia. reflexivity. }
    destruct (IH s2 Hwf2) as (s' & ids & Hseq & Hlen & Hwf' & Hfc' & Hnd & Hall & Hmono); [lia|].
    rewrite Hseq. exists s', (r :: ids). cbn [map app length].
    split; [reflexivity|]. split; [lia|]. split; [assumption|]. split; [lia|].
    assert (Hmono2 : forall x, 0 <= x < 64 * nb -> bit (smem s) x = true -> bit (smem s2) x = true).
    { intros x Hx Hbx. destruct (Z.eq_dec x r) as [->|Hne]; [assumption|]. rewrite Hoth by lia. assumption. }
    split; [|split].
    + constructor; [|assumption]. intros Hin. rewrite Forall_forall in Hall. destruct (Hall _ Hin) as (_ & Hf & _). congruence.
    + constructor.
      * split; [assumption|]. split; [assumption|]. apply Hmono; assumption.
      * rewrite Forall_forall in Hall |- *. intros x Hin. destruct (Hall _ Hin) as (Hx & Hf & Ht).
        split; [assumption|]. split; [|assumption].
        destruct (bit (smem s) x) eqn:Eb; [|reflexivity]. apply Hmono2 in Eb; [congruence|assumption].
    + intros x Hx Hbx. apply Hmono; [assumption|]. apply Hmono2; assumption.
Qed.

Lemma sequential_all_ids_lemma nb : 1 <= nb < 2147483648 ->
  exists s ids, seq_gets (Z.to_nat (64 * nb)) (init_state nb) = Some (s, map (fun id => (id, true)) ids ++ [(0, false)])
    /\ Z.of_nat (length ids) = 64 * nb - 1 /\ NoDup ids /\ Forall (fun id => 1 <= id < 64 * nb) ids.
Proof.
  intros Hnb. assert (Hwf0 : wf nb (init_state nb)) by (apply init_wf; lia).
  replace (Z.to_nat (64 * nb)) with (Z.to_nat (64 * nb - 1) + 1)%nat by lia. rewrite seq_gets_app.
  destruct (seq_gets_ok nb Hnb (Z.to_nat (64 * nb - 1)) (init_state nb) Hwf0) as (s1 & ids & Hseq & Hlen & Hwf1 & Hfc & Hnd & Hall & _).
  { cbn [init_state smem]. rewrite free_cnt_init by lia. lia. }
  rewrite Hseq. cbn [init_state smem] in Hfc, Hall. rewrite free_cnt_init in Hfc by lia.
  destruct (seq_get_one nb s1 Hnb Hwf1) as (s2 & Hone & Hm2 & Hwf2). rewrite Hone.
  pose proof Hwf1 as (Hmwf & _).
  pose proof (get_big_spec nb (smem s1) Hnb Hmwf) as Hspec. cbv zeta in Hspec.
  destruct (snd (get_big (smem s1))) as [r ok] eqn:Eres. cbn [fst snd] in Hspec. destruct ok.
  { exfalso. destruct Hspec as (Hr & Hb0 & _). unfold free_cnt in Hfc.
    assert (1 <= cnt (fun id => negb (bit (smem s1) id)) (Z.to_nat (64 * nb))); [|lia].
    apply (cnt_pos _ _ r); [lia|]. rewrite Hb0. reflexivity. }
  destruct Hspec as (-> & _). exists s2, ids. split; [reflexivity|]. split; [lia|]. split; [assumption|].
  rewrite Forall_forall in Hall |- *. intros x Hin. destruct (Hall _ Hin) as (Hx & Hf & _).
  assert (x <> 0); [|lia]. intros ->.
  assert (Hb : bit (init_mem nb) 0 = true).
  { change 0 with (0 * 64 + 0) at 1. rewrite bit_pos_j by lia. rewrite word_init by lia. reflexivity. }
  congruence.
Qed.
