(* C08/GenEquiv.v -- the definitions that tools/go2coq generates from internal/streams/streams.go on every
   run (Gen/Code.v, module GC) for the pure bit arithmetic of the stream-id allocator - streamOffset,
   bucketOffset, streamFromBucket, isSet - compute the same functions as the hand-written model C08/Model.v
   uses.  (GetStream / Clear themselves are concurrent code over atomics: outside the translated subset, tied
   by the scheduled correspondence run.) *)
From GocqlV Require Import Lib.Base Lib.Bits Gen.Consts Gen.Code C08.Model C08.Proofs1.

Ltac same := lazymatch goal with |- ?a = ?b => first [constr_eq a b | fail 1 "generated code and model differ:" a "<>" b]; reflexivity end.

(* func streamOffset(stream int) uint64: every int, including negative ones (Go's % truncates) *)
Lemma gen_streamOffset_eq s : GC.streamOffset s = stream_offset s.
Proof. unfold GC.streamOffset, stream_offset, bb, K.streams_bucketBits. rewrite !w64_wrap. same. Qed.

(* func bucketOffset(i int) int *)
Lemma gen_bucketOffset_eq s : GC.bucketOffset s = bucket_offset s.
Proof. unfold GC.bucketOffset, bucket_offset, bb, K.streams_bucketBits. same. Qed.

(* func streamFromBucket(bucket, streamInBucket int) int: the id the model's GetStream returns at G5
   (pos * bb + j), for every word index and bit index an allocator can have *)
Lemma gen_streamFromBucket_eq pos j : 0 <= pos < 2 ^ 50 -> 0 <= j < 64 -> GC.streamFromBucket pos j = pos * bb + j.
Proof.
  intros Hp Hj. unfold GC.streamFromBucket, bb, K.streams_bucketBits.
  assert (S : forall x, 0 <= x < 2 ^ 63 -> signed 64 x = x).
  { intros x Hx. unfold signed. change (2 ^ (64 - 1)) with (2 ^ 63). rewrite Z.mod_small by lia.
    destruct (Z.ltb_spec x (2 ^ 63)); lia. }
  rewrite (S (pos * 64)) by lia. rewrite S by lia. reflexivity.
Qed.

(* func isSet(bits uint64, stream int) bool: bit 63 - stream%64 of the word, i.e. the model's [bit] *)
Lemma gen_isSet_eq m s : 0 <= s -> GC.isSet (word m (s / bb)) s = bit m s.
Proof.
  intros Hs. unfold GC.isSet, bit. rewrite gen_streamOffset_eq.
  assert (E : stream_offset s = bb - 1 - s mod bb).
  { unfold stream_offset, bb, K.streams_bucketBits. rewrite !w64_wrap. rewrite Z.rem_mod_nonneg by lia.
    unfold wrap. rewrite (Z.mod_small (s mod 64)) by lia. rewrite (Z.mod_small (64 - s mod 64)) by lia.
    rewrite Z.mod_small by lia. lia. }
  rewrite E. set (k := bb - 1 - s mod bb). set (w := word m (s / bb)).
  assert (Hk : 0 <= k) by (unfold k, bb, K.streams_bucketBits; lia).
  rewrite Z.shiftr_div_pow2 by exact Hk.
  change 1 with (2 ^ 1 - 1) at 1. rewrite land_ones_mod by lia. change (2 ^ 1) with 2.
  pose proof (Z.testbit_spec' w k Hk) as P. destruct (Z.testbit w k); cbn [Z.b2z] in P; rewrite <- P; reflexivity.
Qed.
