(* C08/Proofs4.v -- no false exhaustion (every run, no discipline needed) *)
From GocqlV Require Import Lib.Base Gen.Consts C08.Model C08.Ghost C08.Proofs1.
Open Scope Z_scope.

Definition posf (nb off i : Z) : Z := (i + off) mod nb.

Definition pcA (nb : Z) (E : Z -> bool) (p : pc) : Prop :=
  match p with
  | G3 off i => forall i' j, 0 <= i' < i -> 0 <= j < 64 -> E (posf nb off i' * 64 + j) = true
  | G4 off i j _ | G6 off i j =>
      (forall i' j', 0 <= i' < i -> 0 <= j' < 64 -> E (posf nb off i' * 64 + j') = true)
      /\ (forall j', 0 <= j' < j -> E (posf nb off i * 64 + j') = true)
  | GDone _ false => forall id, 0 <= id < 64 * nb -> E id = true
  | _ => True
  end.

Lemma pcA_mono nb (E E' : Z -> bool) p : (forall id, E id = true -> E' id = true) -> pcA nb E p -> pcA nb E' p.
Proof.
  intros H. destruct p; cbn [pcA]; auto.
  - intros [H1 H2]. split; auto.
  - intros [H1 H2]. split; auto.
  - destruct ok; auto.
Qed.

Lemma bit_pos_j m pos j : 0 <= pos -> 0 <= j < 64 -> bit m (pos * 64 + j) = Z.testbit (word m pos) (63 - j).
Proof.
  intros Hp Hj. unfold bit. rewrite bb_eq.
  replace ((pos * 64 + j) / 64) with pos by lia. replace ((pos * 64 + j) mod 64) with j by lia.
  replace (64 - 1 - j) with (63 - j) by lia. reflexivity.
Qed.

Lemma posf_surj nb off p : 1 <= nb -> 0 <= p < nb -> exists i, 0 <= i < nb /\ posf nb off i = p.
Proof.
  intros Hnb Hp. exists ((p - off) mod nb). split; [apply Z.mod_pos_bound; lia|].
  unfold posf. rewrite Z.add_mod_idemp_l by lia. replace (p - off + off) with p by lia. apply Z.mod_small. lia.
Qed.

Lemma pos_of_posf nb m off i : nbk m = nb -> 0 <= off < nb -> 0 <= i < nb -> nb < 2147483648 ->
  pos_of m off i = posf nb off i.
Proof. intros Hk Ho Hi Hnb. unfold pos_of, posf. rewrite Hk, w32_small by lia. reflexivity. Qed.

(* leaving word i (all of its 64 ids seen): next outer iteration or the exhaustion result *)
Lemma next_word_pcA nb m off i (E : Z -> bool) : 1 <= nb < 2147483648 -> nbk m = nb -> 0 <= off < nb -> 0 <= i < nb ->
  (forall i' j', 0 <= i' <= i -> 0 <= j' < 64 -> E (posf nb off i' * 64 + j') = true) ->
  pcA nb E (next_word m off i).
Proof.
  intros Hnb Hk Ho Hi H. unfold next_word. rewrite Hk, w32_small by lia. destruct (i + 1 <? nb) eqn:E1; cbn [pcA].
  - intros i' j Hi' Hj. apply H; lia.
  - intros id Hid. destruct (posf_surj nb off (id / 64)) as (i' & Hi' & Hp); [lia|lia|].
    replace id with (posf nb off i' * 64 + id mod 64) by (rewrite Hp; lia). apply H; lia.
Qed.

Lemma after_load_pcA nb m off i j (E : Z -> bool) : 1 <= nb < 2147483648 -> nbk m = nb -> 0 <= off < nb -> 0 <= i < nb -> 0 <= j ->
  (forall i' j', 0 <= i' < i -> 0 <= j' < 64 -> E (posf nb off i' * 64 + j') = true) ->
  (forall j', 0 <= j' < j -> E (posf nb off i * 64 + j') = true) ->
  (forall j', 0 <= j' < 64 -> Z.testbit (word m (posf nb off i)) (63 - j') = true -> E (posf nb off i * 64 + j') = true) ->
  pcA nb E (after_load m off i (word m (posf nb off i)) j).
Proof.
  intros Hnb Hk Ho Hi Hj H1 H2 H3. unfold after_load. destruct (scan 64 (word m (posf nb off i)) j) as [j'|] eqn:Es.
  - apply scan_some in Es; [|assumption]. destruct Es as (Hj' & _ & Hs). cbn [pcA]. split; [assumption|].
    intros j0 Hj0. destruct (Z_lt_le_dec j0 j); [apply H2; lia|apply H3; [lia|apply Hs; lia]].
  - apply next_word_pcA; try assumption. intros i' j' Hi' Hj'.
    destruct (Z.eq_dec i' i) as [->|]; [|apply H1; lia].
    destruct (Z_lt_le_dec j' j); [apply H2; lia|apply H3; [lia|]]. eapply scan_none; try eassumption; lia.
Qed.

Lemma tstep_pcA nb m p m' p' (E : Z -> bool) : 1 <= nb < 2147483648 -> mem_wf nb m -> pc_wf nb p -> pcA nb E p ->
  tstep m p = Some (m', p') -> pcA nb (fun id => E id || bit m id) p'.
Proof.
  intros Hnb (Hk & Hlen & Hoff & _) Hwf HA Ht.
  assert (Hmono : forall id, E id = true -> E id || bit m id = true) by (intros id ->; reflexivity).
  destruct p; cbn [tstep] in Ht; try discriminate; cbn [pc_wf] in Hwf.
  - injection Ht as <- <-. exact I.
  - destruct (offset m =? off); injection Ht as <- <-; [|exact I]. rewrite Hk.
    destruct (0 <? nb) eqn:E0; [|lia]. cbn [pcA]. intros; lia.
  - injection Ht as <- <-. destruct Hwf as [Ho Hi]. rewrite (pos_of_posf nb) by (assumption || lia).
    cbn [pcA] in HA.
    assert (Hbits : forall j', 0 <= j' < 64 -> Z.testbit (word m (posf nb off i)) (63 - j') = true ->
                      E (posf nb off i * 64 + j') || bit m (posf nb off i * 64 + j') = true).
    { intros j' Hj' Hb. rewrite bit_pos_j by (assumption || apply Z.mod_pos_bound; lia). rewrite Hb. apply orb_true_r. }
    destruct (word m (posf nb off i) =? max64) eqn:Emax.
    + apply Z.eqb_eq in Emax. apply next_word_pcA; try assumption. intros i' j' Hi' Hj'.
      destruct (Z.eq_dec i' i) as [->|]; [|apply Hmono, HA; lia]. apply Hbits; [assumption|]. rewrite Emax. apply testbit_max64. lia.
    + apply after_load_pcA; try assumption; try lia.
      intros i' j' Hi' Hj'. apply Hmono, HA; assumption.
  - destruct (word m (pos_of m off i) =? bucket); injection Ht as <- <-; [exact I|].
    cbn [pcA] in HA |- *. destruct HA as [H1 H2]. split; intros; apply Hmono; auto.
  - injection Ht as <- <-. exact I.
  - injection Ht as <- <-. destruct Hwf as [[Ho Hi] Hj]. rewrite (pos_of_posf nb) by (assumption || lia).
    cbn [pcA] in HA. destruct HA as [H1 H2].
    apply after_load_pcA; try assumption; try lia.
    + intros; apply Hmono; auto.
    + intros; apply Hmono; auto.
    + intros j' Hj' Hb. rewrite bit_pos_j by (assumption || apply Z.mod_pos_bound; lia). rewrite Hb. apply orb_true_r.
  - destruct ((0 <=? bucket_offset id) && _); injection Ht as <- <-; [destruct (_ =? _)|]; exact I.
  - destruct (word m (bucket_offset id) =? bucket); injection Ht as <- <-; exact I.
  - injection Ht as <- <-. destruct (_ =? _); exact I.
  - injection Ht as <- <-. destruct (_ <? 0); exact I.
Qed.

Lemma lookup_spawn_old' nb s t p q : wf nb s -> lookup t (threads s) = Some p -> lookup t ((next s, q) :: threads s) = Some p.
Proof.
  intros (_ & _ & _ & Hth) H. cbn [lookup]. destruct (Hth _ _ H) as [Ht _].
  destruct (next s =? t) eqn:E; [lia|assumption].
Qed.

Lemma exhaustion_gen nb t r s2 : 1 <= nb < 2147483648 ->
  forall ls s (E : Z -> bool) p, wf nb s -> lookup t (threads s) = Some p -> pcA nb E p ->
  run s ls = Some s2 -> lookup t (threads s2) = Some (GDone r false) ->
  forall id, 0 <= id < 64 * nb -> E id = true \/ seen s ls id = true.
Proof.
  intros Hnb. induction ls as [|l ls IH]; intros s E p Hwf Hl HA Hr Hd id Hid.
  - cbn [run] in Hr. injection Hr as <-. rewrite Hl in Hd. injection Hd as ->. cbn [pcA] in HA. left. auto.
  - cbn [run] in Hr. destruct (step s l) as [s1|] eqn:Es; [|discriminate].
    assert (Hwf1 : wf nb s1) by (eapply step_wf; try eassumption; lia).
    assert (HA1 : exists p1, lookup t (threads s1) = Some p1 /\ pcA nb (fun x => E x || bit (smem s) x) p1).
    { destruct l as [o|t0]; cbn [step] in Es.
      - injection Es as <-. exists p. split; [eapply lookup_spawn_old'; eassumption|].
        eapply pcA_mono; [|eassumption]. intros x ->. reflexivity.
      - destruct (lookup t0 (threads s)) as [p0|] eqn:El0; [|discriminate].
        destruct (tstep (smem s) p0) as [[m' p']|] eqn:Et; [|discriminate]. injection Es as <-. cbn [threads].
        destruct (Z.eq_dec t0 t) as [->|Hne].
        + rewrite Hl in El0. injection El0 as <-. exists p'. split; [apply lookup_update_eq; congruence|].
          destruct Hwf as (Hm & _ & _ & Hth). destruct (Hth _ _ Hl) as [_ Hpw].
          eapply tstep_pcA; eassumption.
        + exists p. split; [rewrite lookup_update_neq; assumption|].
          eapply pcA_mono; [|eassumption]. intros x ->. reflexivity. }
    destruct HA1 as (p1 & Hl1 & HA1).
    destruct (IH s1 _ p1 Hwf1 Hl1 HA1 Hr Hd id Hid) as [H|H].
    + apply orb_true_iff in H. destruct H as [H|H]; [left; assumption|right]. cbn [seen]. rewrite H. reflexivity.
    + right. cbn [seen]. rewrite Es, H. apply orb_true_r.
Qed.
