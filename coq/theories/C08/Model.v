(* C08/Model.v -- executable small-step model of internal/streams/streams.go (the lock-free
   stream-id allocator).  Definitions only.

   Shared memory = the fields of streams.IDGenerator.  Every goroutine inside GetStream / Clear is
   a thread with a program counter; one [Step t] label = ONE atomic operation of thread t (the
   operation that follows the yield point the thread is parked at) together with the thread-local
   computation up to its next atomic operation.  [Spawn o] starts a new call in a fresh thread, so
   the number of threads is unbounded.  The ten program points are the ten yield points of
   DESIGN.md Appendix A.1 (yield(n) lines in streams.go under build tag verif):

      GetStream:  1 load offset   2 CAS offset   3 load word   4 CAS word   5 add +1   6 reload word
      Clear:      7 load word     8 CAS word     9 reload word 10 add -1

   Machine integers are Z with the wrap written where Go wraps (uint32 offset arithmetic, int32
   counter, uint64 shift/mask). *)
From GocqlV Require Import Lib.Base Gen.Consts.

(* const bucketBits = 64 (generated from the source) *)
Definition bb : Z := K.streams_bucketBits.
Definition max64 : Z := 18446744073709551615.             (* math.MaxUint64 = 2^64 - 1 *)

(* Lib.Base.wrap / signed with the powers of two written out, so that vm_compute does not recompute
   2^64 at every use (Proofs.v: w64_wrap, w32_wrap, s32_signed show they are the same functions). *)
Definition two64 : Z := 18446744073709551616.
Definition two32 : Z := 4294967296.
Definition w64 (x : Z) : Z := if (0 <=? x) && (x <? two64) then x else x mod two64.      (* uint64(x) *)
Definition w32 (x : Z) : Z := if (0 <=? x) && (x <? two32) then x else x mod two32.      (* uint32(x) *)
Definition s32 (x : Z) : Z :=                                                            (* int32(x) *)
  let m := w32 x in if m <? 2147483648 then m else m - two32.

(* streams.go:46-50: maxStreams := 128; if protocol > 2 { maxStreams = 32768 }.  These two
   literals are local to streams.New (not package-level constants, so not in Gen/Consts.v); the
   harness compares NumStreams/Available of a fresh allocator for every protocol version. *)
Definition max_streams (protocol : Z) : Z := if protocol >? 2 then 32768 else 128.

Record mem := Mem {
  words : list Z;      (* streams []uint64 : bit (63 - s mod 64) of word s/64 is 1 iff id s is in use *)
  inuse : Z;           (* inuseStreams int32 *)
  offset : Z;          (* offset uint32 *)
  nbk : Z;             (* numBuckets uint32 *)
  nstreams : Z         (* NumStreams int *)
}.

(* streams.New *)
Definition new_mem (protocol : Z) : mem :=
  let buckets := max_streams protocol / 64 in                            (* buckets := maxStreams / 64 (literal in the source) *)
  {| words := upd (repeat 0 (Z.to_nat buckets)) 0 (Z.shiftl 1 63);     (* streams[0] = 1 << 63 *)
     inuse := 0;
     offset := w32 (w32 buckets - 1);
     nbk := w32 buckets;
     nstreams := max_streams protocol |}.

(* the same shape for an arbitrary number of words (theorems are proved for every nb >= 1) *)
Definition init_mem (nb : Z) : mem :=
  {| words := upd (repeat 0 (Z.to_nat nb)) 0 (Z.shiftl 1 63);
     inuse := 0; offset := w32 (nb - 1); nbk := nb; nstreams := bb * nb |}.

Definition word (m : mem) (pos : Z) : Z := nth (Z.to_nat pos) (words m) 0.
Definition set_word (m : mem) (pos v : Z) : mem :=
  {| words := upd (words m) (Z.to_nat pos) v; inuse := inuse m; offset := offset m; nbk := nbk m; nstreams := nstreams m |}.
Definition set_inuse (m : mem) (v : Z) : mem :=
  {| words := words m; inuse := v; offset := offset m; nbk := nbk m; nstreams := nstreams m |}.
Definition set_offset (m : mem) (v : Z) : mem :=
  {| words := words m; inuse := inuse m; offset := v; nbk := nbk m; nstreams := nstreams m |}.

(* func streamOffset(stream int) uint64 { return bucketBits - uint64(stream%bucketBits) - 1 }
   (Go's % truncates toward zero = Z.rem; the subtraction is uint64 arithmetic) *)
Definition stream_offset (s : Z) : Z := w64 (w64 (bb - w64 (Z.rem s bb)) - 1).
(* uint64(1) << streamOffset(s): 2^k for a shift count k < 64, and 0 for k >= 64 (Go semantics of
   shifting a uint64 by at least its width); Proofs.v (mask_of_w64) shows this is w64 (1 << k). *)
Definition mask_of (s : Z) : Z := let k := stream_offset s in if k <? 64 then Z.shiftl 1 k else 0.
(* func bucketOffset(i int) int { return i / bucketBits }   (truncating division) *)
Definition bucket_offset (s : Z) : Z := Z.quot s bb.

(* Available() = NumStreams - inuse - 1  (one atomic load; a function of the shared memory) *)
Definition available (m : mem) : Z := nstreams m - inuse m - 1.

Inductive pc :=
| G1                              (* before LoadUint32(&s.offset) *)
| G2 (off : Z)                    (* before CAS(&s.offset, off, (off+1)%nb) *)
| G3 (off i : Z)                  (* before LoadUint64(&s.streams[(i+off)%nb]); off is already (offset+1)%nb *)
| G4 (off i j bucket : Z)         (* before CAS(&s.streams[pos], bucket, bucket|mask j) *)
| G5 (pos j : Z)                  (* before AddInt32(&s.inuseStreams, 1); will return pos*64+j *)
| G6 (off i j : Z)                (* before the reload after a failed CAS *)
| GDone (r : Z) (ok : bool)       (* GetStream returned (r, ok) *)
| C7 (id : Z)                     (* before LoadUint64(&s.streams[id/64]) *)
| C8 (id bucket : Z)              (* before CAS(&s.streams[id/64], bucket, bucket &^ mask) *)
| C9 (id : Z)                     (* before the reload after a failed CAS *)
| C10 (id : Z)                    (* before AddInt32(&s.inuseStreams, -1) *)
| CDone (r : bool)                (* Clear returned r *)
| CPanic                          (* panic("negative streams inuse") *)
| CCrash.                         (* run-time panic: index out of range in s.streams[offset] *)

(* the yield point a thread is parked at (0 = the call has ended) *)
Definition point (p : pc) : Z :=
  match p with
  | G1 => 1 | G2 _ => 2 | G3 _ _ => 3 | G4 _ _ _ _ => 4 | G5 _ _ => 5 | G6 _ _ _ => 6
  | C7 _ => 7 | C8 _ _ => 8 | C9 _ => 9 | C10 _ => 10
  | GDone _ _ | CDone _ | CPanic | CCrash => 0
  end.

(* pos := int((i + offset) % s.numBuckets)     (uint32 arithmetic) *)
Definition pos_of (m : mem) (off i : Z) : Z := w32 (i + off) mod nbk m.

(* i++ ; i < s.numBuckets ?  -> next outer iteration, or fall out of the loop: return 0, false *)
Definition next_word (m : mem) (off i : Z) : pc :=
  let i' := w32 (i + 1) in if i' <? nbk m then G3 off i' else GDone 0 false.

(* for j < bucketBits { mask := 1 << streamOffset(j); for bucket&mask == 0 { ... } }
   with a fixed snapshot [bucket]: the first j' >= j whose bit is clear in the snapshot *)
Fixpoint scan (fuel : nat) (bucket j : Z) : option Z :=
  match fuel with
  | O => None
  | S f => if j <? bb then (if Z.land bucket (mask_of j) =? 0 then Some j else scan f bucket (j + 1)) else None
  end.

(* continue the inner loops of GetStream with snapshot [bucket] from bit index j *)
Definition after_load (m : mem) (off i bucket j : Z) : pc :=
  match scan 64 bucket j with
  | Some j' => G4 off i j' bucket
  | None => next_word m off i
  end.

(* one atomic operation of a thread parked at p *)
Definition tstep (m : mem) (p : pc) : option (mem * pc) :=
  match p with
  | G1 => Some (m, G2 (offset m))
  | G2 off =>
      if offset m =? off then
        let off' := w32 (off + 1) mod nbk m in
        Some (set_offset m off', if 0 <? nbk m then G3 off' 0 else GDone 0 false)
      else Some (m, G1)
  | G3 off i =>
      let b := word m (pos_of m off i) in
      Some (m, if b =? max64 then next_word m off i else after_load m off i b 0)
  | G4 off i j b =>
      let pos := pos_of m off i in
      if word m pos =? b then Some (set_word m pos (Z.lor b (mask_of j)), G5 pos j)
      else Some (m, G6 off i j)
  | G5 pos j => Some (set_inuse m (s32 (inuse m + 1)), GDone (pos * bb + j) true)
  | G6 off i j => Some (m, after_load m off i (word m (pos_of m off i)) j)
  | C7 id =>
      let o := bucket_offset id in
      if (0 <=? o) && (o <? Z.of_nat (length (words m))) then
        let b := word m o in
        Some (m, if Z.land b (mask_of id) =? mask_of id then C8 id b else CDone false)
      else Some (m, CCrash)
  | C8 id b =>
      let o := bucket_offset id in
      if word m o =? b then Some (set_word m o (Z.ldiff b (mask_of id)), C10 id)   (* bucket & ^mask *)
      else Some (m, C9 id)
  | C9 id =>
      let b := word m (bucket_offset id) in
      Some (m, if Z.land b (mask_of id) =? mask_of id then C8 id b else CDone false)
  | C10 id =>
      let v := s32 (inuse m - 1) in
      Some (set_inuse m v, if v <? 0 then CPanic else CDone true)
  | GDone _ _ | CDone _ | CPanic | CCrash => None
  end.

Inductive op := OGet | OClear (id : Z).
Definition init_pc (o : op) : pc := match o with OGet => G1 | OClear id => C7 id end.

Inductive label := Spawn (o : op) | Step (t : Z).

Record state := St { smem : mem; threads : list (Z * pc); next : Z }.

Fixpoint lookup (t : Z) (l : list (Z * pc)) : option pc :=
  match l with
  | [] => None
  | (t', p) :: l' => if t' =? t then Some p else lookup t l'
  end.
Fixpoint update (t : Z) (p : pc) (l : list (Z * pc)) : list (Z * pc) :=
  match l with
  | [] => []
  | (t', p') :: l' => if t' =? t then (t', p) :: l' else (t', p') :: update t p l'
  end.

(* thread ids are handed out in spawn order: 0, 1, 2, ... *)
Definition step (s : state) (l : label) : option state :=
  match l with
  | Spawn o => Some {| smem := smem s; threads := (next s, init_pc o) :: threads s; next := next s + 1 |}
  | Step t =>
      match lookup t (threads s) with
      | Some p =>
          match tstep (smem s) p with
          | Some (m', p') => Some {| smem := m'; threads := update t p' (threads s); next := next s |}
          | None => None
          end
      | None => None
      end
  end.

Fixpoint run (s : state) (ls : list label) : option state :=
  match ls with
  | [] => Some s
  | l :: ls' => match step s l with Some s' => run s' ls' | None => None end
  end.

Definition init_state (nb : Z) : state := {| smem := init_mem nb; threads := []; next := 0 |}.
Definition new_state (protocol : Z) : state := {| smem := new_mem protocol; threads := []; next := 0 |}.

(* run thread t alone until its call has ended (used for sequential histories) *)
Fixpoint run_solo (fuel : nat) (s : state) (t : Z) : option state :=
  match lookup t (threads s) with
  | Some p =>
      if point p =? 0 then Some s
      else match fuel with
           | O => None
           | S f => match step s (Step t) with Some s' => run_solo f s' t | None => None end
           end
  | None => None
  end.

(* k GetStream calls one after the other, each run alone from start to end; the list of their results *)
Definition solo_fuel (s : state) : nat := Z.to_nat (2 * nbk (smem s) + 16).
Fixpoint seq_gets (k : nat) (s : state) : option (state * list (Z * bool)) :=
  match k with
  | O => Some (s, [])
  | S k' =>
      match step s (Spawn OGet) with
      | Some s1 =>
          match run_solo (solo_fuel s) s1 (next s) with
          | Some s2 =>
              match lookup (next s) (threads s2) with
              | Some (GDone r ok) =>
                  match seq_gets k' s2 with Some (s3, rs) => Some (s3, (r, ok) :: rs) | None => None end
              | _ => None
              end
          | None => None
          end
      | None => None
      end
  end.

(* is id s marked in use in the shared memory? *)
Definition bit (m : mem) (s : Z) : bool := Z.testbit (word m (s / bb)) (bb - 1 - s mod bb).
