(* C08/Proofs3.v -- preservation of [Inv] by every disciplined step; the theorems about disciplined runs *)
From GocqlV Require Import Lib.Base Gen.Consts C08.Model C08.Ghost C08.Proofs1 C08.Proofs2.
Open Scope Z_scope.

Lemma no_acq_unless_g5 nb s g t p : Inv nb s g -> lookup t (threads s) = Some p ->
  (forall pos j, p <> G5 pos j) -> forall id, own g id = Acquiring t -> forall p', acq_pc id p'.
Proof.
  intros HI Hl Hn id H p'. destruct (i_acq _ _ _ HI _ _ H) as (p0 & Hp0 & (pos & j & Ha & _)).
  rewrite Hl in Hp0. injection Hp0 as <-. exfalso. eapply Hn; eassumption.
Qed.
Lemma no_rel_unless_c nb s g t p : Inv nb s g -> lookup t (threads s) = Some p ->
  (forall id, ~ rel_pc id p) -> forall id, own g id = Releasing t -> forall p', rel_pc id p'.
Proof.
  intros HI Hl Hn id H p'. destruct (i_rel _ _ _ HI _ _ H) as (p0 & Hp0 & Ha).
  rewrite Hl in Hp0. injection Hp0 as <-. exfalso. eapply Hn; eassumption.
Qed.

Lemma next_word_cases m off i : (exists i', next_word m off i = G3 off i') \/ next_word m off i = GDone 0 false.
Proof. unfold next_word. destruct (_ <? _); eauto. Qed.
Lemma after_load_cases m off i b j :
  (exists j', after_load m off i b j = G4 off i j' b) \/ (exists i', after_load m off i b j = G3 off i') \/ after_load m off i b j = GDone 0 false.
Proof.
  unfold after_load. destruct (scan 64 b j); [eauto|]. destruct (next_word_cases m off i) as [[i' H]|H]; rewrite H; eauto.
Qed.

Ltac not_ptr := first [ intros ? ? ; discriminate | let Hx := fresh "Hx" in intros ? Hx; destruct Hx as [Hx|[[? Hx]|Hx]]; discriminate ].

(* a Get thread moving between program points that carry no ghost obligations *)
Lemma inv_get_frame nb s g t p p' m' : Inv nb s g -> lookup t (threads s) = Some p ->
  words m' = words (smem s) -> inuse m' = inuse (smem s) ->
  (forall pos j, p <> G5 pos j) -> (forall id, ~ rel_pc id p) -> is_c10 p = false ->
  (p' = G1 \/ (exists o, p' = G2 o) \/ (exists o i, p' = G3 o i) \/ (exists o i j b, p' = G4 o i j b)
   \/ (exists o i j, p' = G6 o i j) \/ p' = GDone 0 false) ->
  Inv nb {| smem := m'; threads := update t p' (threads s); next := next s |} g.
Proof.
  intros HI Hl Hw Hu H1 H2 H3 Hp'.
  apply (inv_frame nb s g t p p' m' HI Hl Hw Hu H3).
  - destruct Hp' as [->|[[? ->]|[(?&?&->)|[(?&?&?&?&->)|[(?&?&?&->)| ->]]]]]; reflexivity.
  - destruct Hp' as [->|[[? ->]|[(?&?&->)|[(?&?&?&?&->)|[(?&?&?&->)| ->]]]]]; cbn [pcB]; auto.
  - destruct Hp' as [->|[[? ->]|[(?&?&->)|[(?&?&?&?&->)|[(?&?&?&->)| ->]]]]]; discriminate.
  - intros id H. eapply no_acq_unless_g5; eassumption.
  - intros id H. eapply no_rel_unless_c; eassumption.
Qed.

Theorem inv_step nb s g l s' : 1 <= nb < 4294967296 -> wf nb s -> Inv nb s g -> disc nb s g l ->
  step s l = Some s' -> Inv nb s' (gupd s g l s').
Proof.
  intros Hnb Hwf HI Hd Hs. destruct l as [[|id]|t]; cbn [step] in Hs.
  - injection Hs as <-. cbn [gupd init_pc]. apply inv_spawn_get; assumption.
  - injection Hs as <-. cbn [init_pc]. apply inv_spawn_clear; assumption.
  - destruct (lookup t (threads s)) as [p|] eqn:Hl; [|discriminate].
    destruct (tstep (smem s) p) as [[m' p']|] eqn:Et; [|discriminate]. injection Hs as <-.
    assert (Hl' : lookup t (update t p' (threads s)) = Some p') by (apply lookup_update_eq; congruence).
    cbn [gupd threads]. rewrite Hl, Hl'.
    pose proof (wf_len _ _ Hwf) as Hlen.
    destruct p; cbn [tstep] in Et; try discriminate.
    + (* G1 *) injection Et as <- <-. eapply inv_get_frame; try eassumption; try reflexivity; try not_ptr; eauto.
    + (* G2 *) destruct (offset (smem s) =? off); injection Et as <- <-.
      * assert (Hg : (if 0 <? nbk (smem s) then G3 (w32 (off + 1) mod nbk (smem s)) 0 else GDone 0 false) = G3 (w32 (off + 1) mod nbk (smem s)) 0
                      \/ (if 0 <? nbk (smem s) then G3 (w32 (off + 1) mod nbk (smem s)) 0 else GDone 0 false) = GDone 0 false)
          by (destruct (0 <? nbk (smem s)); auto).
        destruct Hg as [Hg|Hg]; rewrite Hg in *; (eapply inv_get_frame; try eassumption; try reflexivity; try not_ptr; eauto 8).
      * eapply inv_get_frame; try eassumption; try reflexivity; try not_ptr; eauto.
    + (* G3 *) injection Et as <- <-.
      assert (Hg : forall q, q = (if word (smem s) (pos_of (smem s) off i) =? max64 then next_word (smem s) off i
                                  else after_load (smem s) off i (word (smem s) (pos_of (smem s) off i)) 0) ->
                 (exists o i0, q = G3 o i0) \/ (exists o i0 j b, q = G4 o i0 j b) \/ q = GDone 0 false).
      { intros q ->. destruct (_ =? max64).
        - destruct (next_word_cases (smem s) off i) as [[i' H]|H]; rewrite H; eauto.
        - destruct (after_load_cases (smem s) off i (word (smem s) (pos_of (smem s) off i)) 0) as [[j' H]|[[i' H]|H]]; rewrite H; eauto 8. }
      specialize (Hg _ eq_refl).
      set (q := if word (smem s) (pos_of (smem s) off i) =? max64 then _ else _) in *.
      destruct Hg as [(o & i0 & Hq)|[(o & i0 & j0 & b0 & Hq)|Hq]]; rewrite Hq in *;
        (eapply inv_get_frame; try eassumption; try reflexivity; try not_ptr; eauto 10).
    + (* G4 *) destruct (word (smem s) (pos_of (smem s) off i) =? bucket) eqn:Ew; injection Et as <- <-.
      * apply Z.eqb_eq in Ew. rewrite bb_eq.
        destruct (inv_g4_ok nb s g t off i j bucket) as (_ & _ & H); try assumption; lia.
      * eapply inv_get_frame; try eassumption; try reflexivity; try not_ptr; eauto 10.
    + (* G5 *) injection Et as <- <-. rewrite bb_eq. apply inv_g5; assumption || lia.
    + (* G6 *) injection Et as <- <-.
      destruct (after_load_cases (smem s) off i (word (smem s) (pos_of (smem s) off i)) j) as [[j' H]|[[i' H]|H]]; rewrite H in *;
        (eapply inv_get_frame; try eassumption; try reflexivity; try not_ptr; eauto 10).
    + (* C7 *)
      pose proof (i_pc _ _ _ HI _ _ Hl) as Hp. cbn [pcB] in Hp.
      assert (Hr : 1 <= id < 64 * nb).
      { destruct Hp as [[_ Hp]|[_ [_ Hp]]]; [|assumption]. apply (i_range _ _ _ HI). rewrite Hp. discriminate. }
      rewrite bucket_offset_nonneg in Et by lia. rewrite mask_of_nonneg in Et by lia. rewrite land_pow2_eq in Et by lia.
      destruct ((0 <=? id / 64) && (id / 64 <? Z.of_nat (length (words (smem s))))) eqn:Er; [|lia].
      assert (Hbit : Z.testbit (word (smem s) (id / 64)) (63 - id mod 64) = true <-> own g id <> Free).
      { pose proof (i_bits _ _ _ HI (id / 64) (id mod 64)) as Hb.
        replace (id / 64 * 64 + id mod 64) with id in Hb by lia. rewrite Hb by lia. intuition lia. }
      destruct Hp as [[Hk Ho]|[Hk [Ho _]]].
      * assert (Hb1 : Z.testbit (word (smem s) (id / 64)) (63 - id mod 64) = true) by (apply Hbit; rewrite Ho; discriminate).
        rewrite Hb1 in Et. injection Et as <- <-.
        eapply inv_frame; try eassumption; try reflexivity.
        -- cbn [pcB]. auto.
        -- discriminate.
        -- intros x H. destruct (i_acq _ _ _ HI _ _ H) as (p0 & Hp0 & (? & ? & Ha & _)). congruence.
        -- intros x H. destruct (i_rel _ _ _ HI _ _ H) as (p0 & Hp0 & Ha). rewrite Hl in Hp0. injection Hp0 as <-.
           destruct Ha as [Ha|[[? Ha]|Ha]]; try discriminate. injection Ha as <-. right; left; eauto.
      * assert (Hb1 : Z.testbit (word (smem s) (id / 64)) (63 - id mod 64) = false).
        { destruct (Z.testbit (word (smem s) (id / 64)) (63 - id mod 64)); [|reflexivity]. exfalso. apply Hbit; auto. }
        rewrite Hb1 in Et. injection Et as <- <-.
        eapply inv_frame; try eassumption; try reflexivity.
        -- discriminate.
        -- intros x H. destruct (i_acq _ _ _ HI _ _ H) as (p0 & Hp0 & (? & ? & Ha & _)). congruence.
        -- intros x H. destruct (i_rel _ _ _ HI _ _ H) as (p0 & Hp0 & Ha). rewrite Hl in Hp0. injection Hp0 as <-.
           destruct Ha as [Ha|[[? Ha]|Ha]]; try discriminate. injection Ha as <-. congruence.
    + (* C8 *) destruct (word (smem s) (bucket_offset id) =? bucket) eqn:Ew; injection Et as <- <-.
      * apply Z.eqb_eq in Ew. apply inv_c8_ok; assumption || lia.
      * pose proof (i_pc _ _ _ HI _ _ Hl) as Hp. cbn [pcB] in Hp.
        eapply inv_frame; try eassumption; try reflexivity.
        -- discriminate.
        -- intros x H. destruct (i_acq _ _ _ HI _ _ H) as (p0 & Hp0 & (? & ? & Ha & _)). congruence.
        -- intros x H. destruct (i_rel _ _ _ HI _ _ H) as (p0 & Hp0 & Ha). rewrite Hl in Hp0. injection Hp0 as <-.
           destruct Ha as [Ha|[[? Ha]|Ha]]; try discriminate. injection Ha as <- _. right; right; reflexivity.
    + (* C9 *)
      pose proof (i_pc _ _ _ HI _ _ Hl) as [Hk Ho]. cbn [pcB] in Hk, Ho.
      assert (Hr : 1 <= id < 64 * nb) by (apply (i_range _ _ _ HI); rewrite Ho; discriminate).
      rewrite bucket_offset_nonneg in Et by lia. rewrite mask_of_nonneg in Et by lia. rewrite land_pow2_eq in Et by lia.
      assert (Hbit : Z.testbit (word (smem s) (id / 64)) (63 - id mod 64) = true).
      { pose proof (i_bits _ _ _ HI (id / 64) (id mod 64)) as Hb.
        replace (id / 64 * 64 + id mod 64) with id in Hb by lia. apply Hb; try lia. right. rewrite Ho. discriminate. }
      rewrite Hbit in Et. injection Et as <- <-. eapply inv_frame; try eassumption; try reflexivity.
      * cbn [pcB]. auto.
      * discriminate.
      * intros x H. destruct (i_acq _ _ _ HI _ _ H) as (p0 & Hp0 & (? & ? & Ha & _)). congruence.
      * intros x H. destruct (i_rel _ _ _ HI _ _ H) as (p0 & Hp0 & Ha). rewrite Hl in Hp0. injection Hp0 as <-.
        destruct Ha as [Ha|[[? Ha]|Ha]]; try discriminate. injection Ha as <-. right; left; eauto.
    + (* C10 *) injection Et as <- <-.
      apply (inv_c10 nb s g t id); assumption || lia.
Qed.

Lemma dsteps_run nb s g ls s' g' : dsteps nb s g ls s' g' -> run s ls = Some s'.
Proof. induction 1; cbn [run]; [reflexivity|]. rewrite H0. assumption. Qed.

Lemma dsteps_app nb s g ls1 s1 g1 ls2 s2 g2 :
  dsteps nb s g ls1 s1 g1 -> dsteps nb s1 g1 ls2 s2 g2 -> dsteps nb s g (ls1 ++ ls2) s2 g2.
Proof. induction 1; intros H2; cbn [app]; [assumption|]. econstructor; eauto. Qed.

Lemma dsteps_inv nb s g ls s' g' : 1 <= nb < 4294967296 -> dsteps nb s g ls s' g' ->
  wf nb s -> Inv nb s g -> wf nb s' /\ Inv nb s' g'.
Proof.
  intros Hnb H. induction H; intros Hwf HI; [auto|].
  apply IHdsteps; [eapply step_wf; eassumption|apply inv_step; assumption].
Qed.

Lemma word_init nb pos : 1 <= nb -> 0 <= pos < nb -> word (init_mem nb) pos = if pos =? 0 then 2 ^ 63 else 0.
Proof.
  intros Hnb Hpos. unfold word, init_mem; cbn [words]. destruct (pos =? 0) eqn:E.
  - apply Z.eqb_eq in E. subst pos. change (Z.to_nat 0) with 0%nat. rewrite nth_upd_eq; [reflexivity|]. rewrite repeat_length. lia.
  - rewrite nth_upd_neq by lia. apply nth_repeat.
Qed.

Lemma init_inv nb : 1 <= nb -> Inv nb (init_state nb) ghost0.
Proof.
  intros Hnb. constructor; cbn [init_state smem threads next ghost0 own kind lookup].
  - intros pos j Hpos Hj. rewrite word_init by lia. destruct (pos =? 0) eqn:E.
    + apply Z.eqb_eq in E. rewrite testbit_pow2 by lia. subst pos. split; [intros H; apply Z.eqb_eq in H; left; lia|intros [H|H]; [apply Z.eqb_eq; lia|congruence]].
    + rewrite Z.bits_0. split; [discriminate|intros [H|H]; [lia|congruence]].
  - congruence.
  - discriminate.
  - discriminate.
  - discriminate.
  - cbn [cnt_c10 init_mem inuse]. unfold cnt_or. cbn [own].
    assert (H : forall n, cnt (fun _ => is_or Free) n = 0) by (induction n as [|k IH]; [reflexivity|]; cbn [cnt]; rewrite IH; reflexivity). rewrite H. reflexivity.
  - discriminate.
Qed.

Theorem disciplined_inv nb ls s g : 1 <= nb < 4294967296 -> disciplined nb ls s g -> wf nb s /\ Inv nb s g.
Proof. intros Hnb H. eapply dsteps_inv; [eassumption|exact H|apply init_wf; assumption|apply init_inv; lia]. Qed.

Lemma bit_sid m id : 0 <= id -> bit m id = Z.testbit (word m (id / 64)) (63 - id mod 64).
Proof. intros. unfold bit. rewrite bb_eq. reflexivity. Qed.

(* T1 *)
Lemma alloc_inv_lemma nb ls s g : 1 <= nb < 4294967296 -> disciplined nb ls s g ->
  (forall id, 0 <= id < 64 * nb -> (bit (smem s) id = true <-> id = 0 \/ own g id <> Free))
  /\ (forall id, own g id <> Free -> 1 <= id < 64 * nb)
  /\ (inuse (smem s) - (cnt_or g (64 * nb) + cnt_c10 (threads s))) mod 4294967296 = 0.
Proof.
  intros Hnb H. destruct (disciplined_inv _ _ _ _ Hnb H) as [Hwf HI]. split; [|split].
  - intros id Hid. rewrite bit_sid by lia. pose proof (i_bits _ _ _ HI (id / 64) (id mod 64)) as Hb.
    replace (id / 64 * 64 + id mod 64) with id in Hb by lia. apply Hb; lia.
  - apply (i_range _ _ _ HI).
  - apply (i_cnt _ _ _ HI).
Qed.

(* T2: uniqueness at the linearisation point *)
Lemma unique_lemma nb ls s g t off i j b s' pos j' : 1 <= nb < 4294967296 -> disciplined nb ls s g ->
  disc nb s g (Step t) ->
  lookup t (threads s) = Some (G4 off i j b) -> step s (Step t) = Some s' ->
  lookup t (threads s') = Some (G5 pos j') ->
  let id := pos * 64 + j' in
  own g id = Free /\ bit (smem s) id = false /\ 1 <= id < 64 * nb
  /\ own (gupd s g (Step t) s') id = Acquiring t /\ bit (smem s') id = true.
Proof.
  intros Hnb H Hd Hl Hs Hl' id. destruct (disciplined_inv _ _ _ _ Hnb H) as [Hwf HI].
  assert (HI' : Inv nb s' (gupd s g (Step t) s')) by (apply inv_step; assumption).
  assert (Hwf' : wf nb s') by (eapply step_wf; eassumption).
  cbn [step] in Hs. rewrite Hl in Hs. cbn [tstep] in Hs.
  destruct (word (smem s) (pos_of (smem s) off i) =? b) eqn:Ew.
  2:{ injection Hs as <-. cbn [threads] in Hl'. rewrite lookup_update_eq in Hl' by congruence. discriminate. }
  apply Z.eqb_eq in Ew. injection Hs as Hs. subst s'. cbn [threads] in Hl'. rewrite lookup_update_eq in Hl' by congruence.
  injection Hl' as Hpos Hj. subst j'. unfold id in *. clear id. rewrite <- Hpos in *.
  set (id := pos_of (smem s) off i * 64 + j) in *.
  destruct (inv_g4_ok nb s g t off i j b) as (Hfree & Hne & _); try assumption; try lia.
  fold id in Hfree, Hne.
  match type of HI' with Inv _ ?s1 _ => set (s' := s1) in * end.
  assert (Ha : own (gupd s g (Step t) s') id = Acquiring t).
  { apply (i_pc _ _ _ HI' t (G5 (pos_of (smem s) off i) j)). unfold s'. cbn [threads]. apply lookup_update_eq. congruence. }
  assert (Hr : 1 <= id < 64 * nb) by (apply (i_range _ _ _ HI'); rewrite Ha; discriminate).
  assert (Hbits : forall s0 g0, Inv nb s0 g0 -> (bit (smem s0) id = true <-> id = 0 \/ own g0 id <> Free)).
  { intros s0 g0 HI0. rewrite bit_sid by lia. pose proof (i_bits _ _ _ HI0 (id / 64) (id mod 64)) as Hb.
    replace (id / 64 * 64 + id mod 64) with id in Hb by lia. apply Hb; lia. }
  split; [assumption|]. split.
  { destruct (bit (smem s) id) eqn:Eb; [|reflexivity]. exfalso. apply (Hbits s g HI) in Eb. destruct Eb; [lia|congruence]. }
  split; [assumption|]. split; [assumption|].
  apply (Hbits _ _ HI'). right. rewrite Ha. discriminate.
Qed.

(* T3: range, never 0 *)
Lemma range_lemma nb ls s g t r ok : 1 <= nb < 4294967296 -> disciplined nb ls s g ->
  lookup t (threads s) = Some (GDone r ok) -> if ok then 1 <= r < 64 * nb else r = 0.
Proof.
  intros Hnb H Hl. destruct (disciplined_inv _ _ _ _ Hnb H) as [Hwf HI].
  pose proof (i_pc _ _ _ HI _ _ Hl) as Hp. cbn [pcB] in Hp. exact Hp.
Qed.

(* kind of an existing thread never changes *)
Lemma kind_gupd s g l s' t : t < next s -> kind (gupd s g l s') t = kind g t.
Proof.
  intros Ht. destruct l as [[|id]|t0]; cbn [gupd]; [reflexivity| |].
  - destruct (own g id); cbn [set_kind set_own kind]; destruct (t =? next s) eqn:E; try lia; reflexivity.
  - destruct (lookup t0 (threads s)) as [[]|]; try reflexivity; destruct (lookup t0 (threads s')) as [[]|]; reflexivity.
Qed.
Lemma next_step s l s' : step s l = Some s' -> next s <= next s'.
Proof.
  destruct l as [o|t]; cbn [step]; [intros H; injection H as <-; cbn; lia|].
  destruct (lookup t (threads s)); [|discriminate]. destruct (tstep (smem s) p) as [[]|]; [|discriminate].
  intros H; injection H as <-. cbn. lia.
Qed.
Lemma kind_dsteps nb s g ls s' g' t : dsteps nb s g ls s' g' -> t < next s -> kind g' t = kind g t.
Proof.
  induction 1; intros Ht; [reflexivity|]. rewrite IHdsteps by (apply next_step in H0; lia). apply kind_gupd. assumption.
Qed.

(* T5: Clear reports whether the id was handed out *)
Lemma clear_reports_lemma nb ls s g id s1 ls2 s2 g2 r : 1 <= nb < 4294967296 -> disciplined nb ls s g ->
  disc nb s g (Spawn (OClear id)) -> step s (Spawn (OClear id)) = Some s1 ->
  dsteps nb s1 (gupd s g (Spawn (OClear id)) s1) ls2 s2 g2 ->
  lookup (next s) (threads s2) = Some (CDone r) ->
  (own g id = Owned -> r = true) /\ (own g id = Free -> r = false).
Proof.
  intros Hnb H Hd Hs H2 Hl.
  assert (H' : disciplined nb (ls ++ Spawn (OClear id) :: ls2) s2 g2).
  { eapply dsteps_app; [exact H|]. econstructor; eassumption. }
  destruct (disciplined_inv _ _ _ _ Hnb H') as [Hwf2 HI2].
  pose proof (i_pc _ _ _ HI2 _ _ Hl) as Hp. cbn [pcB] in Hp.
  assert (Hn : next s < next s1) by (cbn [step] in Hs; injection Hs as <-; cbn; lia).
  rewrite (kind_dsteps _ _ _ _ _ _ _ H2 Hn) in Hp. cbn [gupd] in Hp.
  split; intros Ho; rewrite Ho in Hp; cbn [set_kind set_own kind] in Hp; rewrite Z.eqb_refl in Hp; destruct r; congruence.
Qed.

(* T6: a Clear of a free id (double release) only ever performs its load *)
Lemma stale_clear_lemma nb ls s g t p : 1 <= nb < 4294967296 -> disciplined nb ls s g ->
  lookup t (threads s) = Some p -> kind g t = Stale ->
  match p with
  | C7 id => own g id = Free /\ 1 <= id < 64 * nb /\ bit (smem s) id = false
  | C8 _ _ | C9 _ | C10 _ | CDone true | CPanic | CCrash => False
  | _ => True
  end.
Proof.
  intros Hnb H Hl Hk. destruct (disciplined_inv _ _ _ _ Hnb H) as [Hwf HI].
  pose proof (i_pc _ _ _ HI _ _ Hl) as Hp. destruct p; cbn [pcB] in Hp; try exact I; try (destruct Hp; congruence); try congruence.
  - destruct Hp as [[Hp _]|[_ [Ho Hr]]]; [congruence|]. split; [assumption|]. split; [assumption|].
    destruct (bit (smem s) id) eqn:Eb; [|reflexivity]. exfalso. rewrite bit_sid in Eb by lia.
    pose proof (i_bits _ _ _ HI (id / 64) (id mod 64)) as Hb.
    replace (id / 64 * 64 + id mod 64) with id in Hb by lia. apply Hb in Eb; [|lia|lia]. destruct Eb; [lia|congruence].
  - destruct r; [congruence|exact I].
Qed.
