(* C08/Spec.v -- the abstract allocator the property text describes, written without looking at the code:
   N stream ids 0 .. N-1 of which 0 is reserved; the state is the set of ids currently handed out;
   acquire hands out an id that is not handed out (and may fail only when none is left); release takes a
   handed-out id back.  Sets are predicates Z -> bool compared pointwise. *)
From GocqlV Require Import Lib.Base.
Open Scope Z_scope.

Definition idset := Z -> bool.

Inductive event := Acquire (id : Z) | Release (id : Z) | Tau.

Definition spec_step (N : Z) (held : idset) (e : event) (held' : idset) : Prop :=
  match e with
  | Acquire id => 1 <= id < N /\ held id = false /\ forall x, held' x = ((x =? id) || held x)
  | Release id => held id = true /\ forall x, held' x = (negb (x =? id) && held x)
  | Tau => forall x, held' x = held x
  end.

(* what a client may rely on after any sequence of abstract steps from the empty set *)
Definition spec_ok (N : Z) (held : idset) : Prop := forall id, held id = true -> 1 <= id < N.

Lemma spec_step_ok N held e held' : spec_ok N held -> spec_step N held e held' -> spec_ok N held'.
Proof.
  intros Hok. destruct e as [id|id|]; cbn [spec_step].
  - intros (Hr & _ & H) x. rewrite H. destruct (Z.eqb_spec x id) as [->|]; cbn [orb]; auto.
  - intros (_ & H) x. rewrite H. destruct (x =? id); cbn [negb andb]; [discriminate|auto].
  - intros H x. rewrite H. auto.
Qed.

(* acquire may fail only when every non-reserved id is handed out *)
Definition spec_exhausted (N : Z) (held : idset) : Prop := forall id, 1 <= id < N -> held id = true.
