(* C08/Proofs6.v -- both capacities are instances; refinement of the abstract allocator; the non-vacuity run;
   sequential use hands out every id and then fails *)
From GocqlV Require Import Lib.Base Gen.Consts C08.Model C08.Ghost C08.Spec
  C08.Proofs1 C08.Proofs2 C08.Proofs3 C08.Proofs4 C08.Proofs5.
Open Scope Z_scope.

Lemma capacities_lemma p : new_state p = init_state (if p >? 2 then 512 else 2) /\ K.streams_bucketBits = 64.
Proof.
  split; [|reflexivity]. unfold new_state, init_state, new_mem, init_mem, max_streams.
  destruct (p >? 2); vm_compute; reflexivity.
Qed.

(* ---- refinement ---- *)
Lemma held_set_same g id o : is_nonfree (own g id) = is_nonfree o -> forall x, held_of (set_own g id o) x = held_of g x.
Proof.
  intros H x. unfold held_of. cbn [set_own own]. destruct (Z.eqb_spec x id) as [->|]; [symmetry; assumption|reflexivity].
Qed.

Lemma refines_spec_lemma nb ls s g l s' : 1 <= nb < 4294967296 -> disciplined nb ls s g ->
  disc nb s g l -> step s l = Some s' ->
  exists e, spec_step (64 * nb) (held_of g) e (held_of (gupd s g l s')).
Proof.
  intros Hnb H Hd Hs. destruct (disciplined_inv _ _ _ _ Hnb H) as [Hwf HI].
  destruct l as [[|id]|t].
  - exists Tau. cbn [gupd spec_step]. reflexivity.
  - exists Tau. cbn [gupd spec_step]. destruct (own g id) eqn:Eo; try (intros x; reflexivity).
    intros x. unfold held_of. cbn [set_kind set_own own]. destruct (Z.eqb_spec x id) as [->|]; [rewrite Eo|]; reflexivity.
  - pose proof Hs as Hs0. cbn [step] in Hs. destruct (lookup t (threads s)) as [p|] eqn:Hl; [|discriminate].
    destruct (tstep (smem s) p) as [[m' p']|] eqn:Et; [|discriminate]. injection Hs as Hs.
    assert (Hl' : lookup t (threads s') = Some p') by (rewrite <- Hs; cbn [threads]; apply lookup_update_eq; congruence).
    cbn [gupd]. rewrite Hl, Hl'.
    destruct p; try (exists Tau; intros x; reflexivity).
    + (* G4 *) destruct p'; try (exists Tau; intros x; reflexivity).
      destruct (unique_lemma nb ls s g t off i j bucket s' pos j0 Hnb H Hd Hl Hs0 Hl') as (Hf & _ & Hr & _).
      rewrite bb_eq. exists (Acquire (pos * 64 + j0)). cbn [spec_step]. split; [assumption|]. split; [unfold held_of; rewrite Hf; reflexivity|].
      intros x. unfold held_of. cbn [set_own own]. destruct (x =? pos * 64 + j0); reflexivity.
    + (* G5 *) exists Tau. cbn [spec_step]. rewrite bb_eq. apply held_set_same.
      pose proof (i_pc _ _ _ HI _ _ Hl) as Hp. cbn [pcB] in Hp. rewrite Hp. reflexivity.
    + (* C8 *) destruct p'; try (exists Tau; intros x; reflexivity).
      pose proof (i_pc _ _ _ HI _ _ Hl) as [_ Hp]. cbn [pcB] in Hp.
      exists (Release id). cbn [spec_step]. split; [unfold held_of; rewrite Hp; reflexivity|].
      intros x. unfold held_of. cbn [set_own own]. destruct (x =? id); reflexivity.
Qed.

(* ---- a concrete disciplined run with contention (non-vacuity) ---- *)
Definition nonvac_run : list label :=
  [Spawn OGet; Step 0; Step 0; Step 0; Step 0; Step 0;     (* thread 0: GetStream = 1 *)
   Spawn (OClear 1); Step 1;                               (* its holder releases: thread 1 parked before its CAS *)
   Spawn OGet; Spawn OGet; Spawn OGet;                     (* threads 2, 3, 4: the rotating offset sends 2 and 4 to word 1 *)
   Step 2; Step 2; Step 3; Step 3; Step 4; Step 4;
   Step 2; Step 4;                                         (* both have loaded word 1 = 0 and want its first bit (id 64) *)
   Step 2; Step 4].                                        (* 2's CAS succeeds, 4's fails *)

Ltac disc_tac :=
  cbn [disc];
  first
    [ exact I
    | left; vm_compute; reflexivity
    | let H := fresh in let H2 := fresh in
      intros ? ? ? ? H; vm_compute in H; try discriminate H;
      intros _ ? H2; cbn [lookup threads] in H2;
      repeat match type of H2 with context [?a =? ?b] => destruct (a =? b); try discriminate H2 end ].

Ltac dstep := eapply ds_cons; [disc_tac | vm_compute; reflexivity | ].

Lemma nonvac_contention : exists s g,
  disciplined 2 nonvac_run s g
  /\ lookup 1 (threads s) = Some (C8 1 13835058055282163712)
  /\ lookup 2 (threads s) = Some (G5 1 0) /\ own g 64 = Acquiring 2
  /\ lookup 4 (threads s) = Some (G6 1 0 0)
  /\ own g 1 = Releasing 1.
Proof.
  eexists. eexists. split.
  - unfold disciplined, nonvac_run. do 21 dstep. apply ds_nil.
  - vm_compute. repeat split; reflexivity.
Qed.

(* a complete history: GetStream = 1, the holder's Clear(1) = true, a second Clear(1) = false, all calls ended *)
Definition nonvac_clear_run : list label :=
  [Spawn OGet; Step 0; Step 0; Step 0; Step 0; Step 0;
   Spawn (OClear 1); Step 1; Step 1; Step 1;
   Spawn (OClear 1); Step 2].

Lemma nonvac_clear : exists s g,
  disciplined 2 nonvac_clear_run s g
  /\ lookup 0 (threads s) = Some (GDone 1 true)
  /\ lookup 1 (threads s) = Some (CDone true) /\ kind g 1 = Proper
  /\ lookup 2 (threads s) = Some (CDone false) /\ kind g 2 = Stale
  /\ quiescent s /\ available (smem s) = 127 /\ cnt_held g 128 = 0.
Proof.
  eexists. eexists. split.
  - unfold disciplined, nonvac_clear_run. do 10 dstep.
    eapply ds_cons; [right; split; [vm_compute; reflexivity|lia] | vm_compute; reflexivity | ].
    dstep. apply ds_nil.
  - repeat split; try (vm_compute; reflexivity). unfold quiescent. vm_compute. repeat constructor.
Qed.
