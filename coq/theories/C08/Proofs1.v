(* C08/Proofs1.v -- arithmetic and bit lemmas, association-list lemmas, and the structural invariant [wf]
   (holds in every state of every run, disciplined or not) *)
From GocqlV Require Import Lib.Base Gen.Consts C08.Model C08.Ghost.
Open Scope Z_scope.

Lemma bb_eq : bb = 64. Proof. reflexivity. Qed.

Lemma w64_wrap x : w64 x = wrap 64 x.
Proof.
  unfold w64, wrap, two64. change (2 ^ 64) with 18446744073709551616.
  destruct ((0 <=? x) && (x <? 18446744073709551616)) eqn:E; [|reflexivity].
  symmetry. apply Z.mod_small. lia.
Qed.
Lemma w32_wrap x : w32 x = wrap 32 x.
Proof.
  unfold w32, wrap, two32. change (2 ^ 32) with 4294967296.
  destruct ((0 <=? x) && (x <? 4294967296)) eqn:E; [|reflexivity].
  symmetry. apply Z.mod_small. lia.
Qed.
Lemma s32_signed x : s32 x = signed 32 x.
Proof.
  unfold s32, signed. rewrite w32_wrap. unfold wrap, two32.
  change (2 ^ 32) with 4294967296. change (2 ^ (32 - 1)) with 2147483648. reflexivity.
Qed.

Lemma w32_small x : 0 <= x < 4294967296 -> w32 x = x.
Proof. intros H. unfold w32, two32. destruct ((0 <=? x) && (x <? 4294967296)) eqn:E; [reflexivity|lia]. Qed.
Lemma w64_small x : 0 <= x < 18446744073709551616 -> w64 x = x.
Proof. intros H. unfold w64, two64. destruct ((0 <=? x) && (x <? 18446744073709551616)) eqn:E; [reflexivity|lia]. Qed.

Lemma stream_offset_nonneg s : 0 <= s -> stream_offset s = 63 - s mod 64.
Proof.
  intros Hs. unfold stream_offset. rewrite bb_eq. rewrite Z.rem_mod_nonneg by lia.
  assert (0 <= s mod 64 < 64) by (apply Z.mod_pos_bound; lia).
  rewrite (w64_small (s mod 64)) by lia. rewrite (w64_small (64 - s mod 64)) by lia.
  rewrite w64_small by lia. lia.
Qed.

Lemma mask_of_nonneg s : 0 <= s -> mask_of s = 2 ^ (63 - s mod 64).
Proof.
  intros Hs. unfold mask_of. rewrite stream_offset_nonneg by assumption.
  assert (0 <= s mod 64 < 64) by (apply Z.mod_pos_bound; lia).
  destruct (63 - s mod 64 <? 64) eqn:E; [|lia]. apply Z.shiftl_1_l.
Qed.

Lemma mask_of_w64 s : mask_of s = w64 (Z.shiftl 1 (stream_offset s)).
Proof.
  unfold mask_of. cbv zeta.
  assert (Hk : 0 <= stream_offset s < two64).
  { unfold stream_offset. rewrite w64_wrap. unfold wrap, two64. change (2^64) with 18446744073709551616.
    apply Z.mod_pos_bound. lia. }
  set (k := stream_offset s) in *.
  rewrite Z.shiftl_1_l. destruct (k <? 64) eqn:E.
  - rewrite w64_small; [reflexivity|]. split; [apply Z.pow_nonneg; lia|].
    change 18446744073709551616 with (2 ^ 64). apply Z.pow_lt_mono_r; lia.
  - rewrite w64_wrap. unfold wrap. symmetry.
    replace k with (64 + (k - 64)) by lia. rewrite Z.pow_add_r by lia.
    rewrite Z.mul_comm. apply Z.mod_mul. lia.
Qed.

(* single-bit facts *)
Lemma testbit_pow2 k n : 0 <= k -> 0 <= n -> Z.testbit (2 ^ k) n = (k =? n).
Proof. intros. apply Z.pow2_bits_eqb. assumption. Qed.

Lemma land_pow2_zero b k : 0 <= k -> (Z.land b (2 ^ k) =? 0) = negb (Z.testbit b k).
Proof.
  intros Hk. destruct (Z.testbit b k) eqn:E; cbn [negb].
  - apply Z.eqb_neq. intros H0. assert (Z.testbit (Z.land b (2^k)) k = false) by (rewrite H0; apply Z.bits_0).
    rewrite Z.land_spec, E, testbit_pow2, Z.eqb_refl in H by lia. discriminate.
  - apply Z.eqb_eq. apply Z.bits_inj'. intros n Hn. rewrite Z.land_spec, Z.bits_0, testbit_pow2 by lia.
    destruct (Z.eqb_spec k n) as [->|]; [rewrite E; reflexivity|apply andb_false_r].
Qed.

Lemma land_pow2_eq b k : 0 <= k -> (Z.land b (2 ^ k) =? 2 ^ k) = Z.testbit b k.
Proof.
  intros Hk. destruct (Z.testbit b k) eqn:E.
  - apply Z.eqb_eq. apply Z.bits_inj'. intros n Hn. rewrite Z.land_spec, testbit_pow2 by lia.
    destruct (Z.eqb_spec k n) as [->|]; [rewrite E; reflexivity|apply andb_false_r].
  - apply Z.eqb_neq. intros H0. assert (Z.testbit (Z.land b (2^k)) k = true) by (rewrite H0, testbit_pow2, Z.eqb_refl by lia; reflexivity).
    rewrite Z.land_spec, E in H. discriminate.
Qed.

Lemma testbit_lor_pow2 b k n : 0 <= k -> 0 <= n -> Z.testbit (Z.lor b (2 ^ k)) n = Z.testbit b n || (k =? n).
Proof. intros. rewrite Z.lor_spec, testbit_pow2 by lia. reflexivity. Qed.

Lemma testbit_ldiff_pow2 b k n : 0 <= k -> 0 <= n -> Z.testbit (Z.ldiff b (2 ^ k)) n = Z.testbit b n && negb (k =? n).
Proof. intros. rewrite Z.ldiff_spec, testbit_pow2 by lia. reflexivity. Qed.

Lemma testbit_max64 n : 0 <= n < 64 -> Z.testbit max64 n = true.
Proof.
  intros Hn. change max64 with (Z.ones 64). apply Z.ones_spec_low. lia.
Qed.

Lemma nth_upd_eq {A} (l : list A) i v d : (i < length l)%nat -> nth i (upd l i v) d = v.
Proof. revert i; induction l as [|x l IH]; intros [|i] H; simpl in *; try lia; auto. apply IH. lia. Qed.
Lemma nth_upd_neq {A} (l : list A) i k v d : i <> k -> nth k (upd l i v) d = nth k l d.
Proof. revert i k; induction l as [|x l IH]; intros [|i] [|k] H; simpl; auto; try congruence. Qed.

Lemma word_set_eq m pos v : 0 <= pos < Z.of_nat (length (words m)) -> word (set_word m pos v) pos = v.
Proof. intros H. unfold word, set_word; cbn [words]. apply nth_upd_eq. lia. Qed.
Lemma word_set_neq m pos pos' v : 0 <= pos -> 0 <= pos' -> pos <> pos' -> word (set_word m pos v) pos' = word m pos'.
Proof. intros H1 H2 H. unfold word, set_word; cbn [words]. apply nth_upd_neq. lia. Qed.

Lemma lookup_update_eq t p l : lookup t l <> None -> lookup t (update t p l) = Some p.
Proof.
  induction l as [|[t' p'] l IH]; simpl; [congruence|].
  destruct (t' =? t) eqn:E; simpl; rewrite E; auto.
Qed.
Lemma lookup_update_neq t t' p l : t <> t' -> lookup t' (update t p l) = lookup t' l.
Proof.
  intros H. induction l as [|[t0 p0] l IH]; simpl; [reflexivity|].
  destruct (t0 =? t) eqn:E; simpl.
  - apply Z.eqb_eq in E. subst. destruct (t =? t') eqn:E'; [lia|reflexivity].
  - destruct (t0 =? t'); auto.
Qed.
Lemma length_update t p l : length (update t p l) = length l.
Proof. induction l as [|[t0 p0] l IH]; simpl; [reflexivity|]. destruct (t0 =? t); simpl; auto. Qed.

Lemma cnt_c10_update t p p' l : lookup t l = Some p ->
  cnt_c10 (update t p' l) = cnt_c10 l - (if is_c10 p then 1 else 0) + (if is_c10 p' then 1 else 0).
Proof.
  induction l as [|[t0 p0] l IH]; simpl; [congruence|].
  destruct (t0 =? t) eqn:E; simpl.
  - intros H; inversion H; subst. lia.
  - intros H. rewrite IH by assumption. lia.
Qed.
Lemma cnt_c10_bounds l : 0 <= cnt_c10 l <= Z.of_nat (length l).
Proof. induction l as [|[t0 p0] l IH]; simpl length; cbn [cnt_c10]; [lia|]. destruct (is_c10 p0); lia. Qed.

(* ---- structural invariant: holds in every reachable state of every run (no discipline needed) ---- *)
Definition pos_ok (nb off i : Z) : Prop := 0 <= off < nb /\ 0 <= i < nb.

Definition pc_wf (nb : Z) (p : pc) : Prop :=
  match p with
  | G3 off i => pos_ok nb off i
  | G4 off i j b => pos_ok nb off i /\ 0 <= j < 64 /\ Z.testbit b (63 - j) = false
  | G5 pos j => 0 <= pos < nb /\ 0 <= j < 64
  | G6 off i j => pos_ok nb off i /\ 0 <= j < 64
  | _ => True
  end.

Definition mem_wf (nb : Z) (m : mem) : Prop :=
  nbk m = nb /\ Z.of_nat (length (words m)) = nb /\ 0 <= offset m < nb /\ nstreams m = 64 * nb
  /\ - 2147483648 <= inuse m < 2147483648.

Definition wf (nb : Z) (s : state) : Prop :=
  mem_wf nb (smem s) /\ 0 <= next s /\ Z.of_nat (length (threads s)) = next s
  /\ forall t p, lookup t (threads s) = Some p -> 0 <= t < next s /\ pc_wf nb p.

Lemma scan_some fuel b j j' : 0 <= j -> scan fuel b j = Some j' ->
  j <= j' < 64 /\ Z.testbit b (63 - j') = false /\ forall k, j <= k < j' -> Z.testbit b (63 - k) = true.
Proof.
  revert j. induction fuel as [|f IH]; intros j Hj; cbn [scan]; [discriminate|].
  rewrite bb_eq. destruct (j <? 64) eqn:Ej; [|discriminate].
  rewrite mask_of_nonneg by lia. rewrite Z.mod_small by lia. rewrite land_pow2_zero by lia.
  destruct (Z.testbit b (63 - j)) eqn:Eb; cbn [negb].
  - intros H. apply IH in H; [|lia]. destruct H as (H1 & H2 & H3). split; [lia|]. split; [assumption|].
    intros k Hk. destruct (Z.eq_dec k j) as [->|]; [assumption|apply H3; lia].
  - intros H; inversion H; subst. split; [lia|]. split; [assumption|]. intros; lia.
Qed.

Lemma scan_none fuel b j : 0 <= j -> 64 <= j + Z.of_nat fuel -> scan fuel b j = None ->
  forall k, j <= k < 64 -> Z.testbit b (63 - k) = true.
Proof.
  revert j. induction fuel as [|f IH]; intros j Hj Hf; cbn [scan].
  - intros _ k Hk. lia.
  - rewrite bb_eq. destruct (j <? 64) eqn:Ej; [|intros _ k Hk; lia].
    rewrite mask_of_nonneg by lia. rewrite Z.mod_small by lia. rewrite land_pow2_zero by lia.
    destruct (Z.testbit b (63 - j)) eqn:Eb; cbn [negb]; [|discriminate].
    intros H k Hk. destruct (Z.eq_dec k j) as [->|]; [assumption|]. apply (IH (j+1)); try lia. assumption.
Qed.

Lemma pos_of_range nb m off i : nbk m = nb -> 1 <= nb -> 0 <= pos_of m off i < nb.
Proof. intros H Hnb. unfold pos_of. rewrite H. apply Z.mod_pos_bound. lia. Qed.

Lemma next_word_wf nb m off i : nbk m = nb -> nb < 4294967296 -> pos_ok nb off i -> pc_wf nb (next_word m off i).
Proof.
  intros H Hnb [Ho Hi]. unfold next_word. rewrite H. rewrite w32_small by lia.
  destruct (i + 1 <? nb) eqn:E; cbn; [unfold pos_ok; lia|trivial].
Qed.

Lemma after_load_wf nb m off i b j : nbk m = nb -> nb < 4294967296 -> pos_ok nb off i -> 0 <= j ->
  pc_wf nb (after_load m off i b j).
Proof.
  intros H Hnb Hp Hj. unfold after_load. destruct (scan 64 b j) as [j'|] eqn:E.
  - apply scan_some in E; [|assumption]. cbn. intuition lia.
  - apply next_word_wf; assumption.
Qed.

Lemma s32_range x : - 2147483648 <= s32 x < 2147483648.
Proof.
  unfold s32. assert (0 <= w32 x < 4294967296).
  { rewrite w32_wrap. unfold wrap. change (2^32) with 4294967296. apply Z.mod_pos_bound. lia. }
  unfold two32. destruct (w32 x <? 2147483648) eqn:E; lia.
Qed.

Lemma tstep_wf nb m p m' p' : 1 <= nb < 4294967296 -> mem_wf nb m -> pc_wf nb p -> tstep m p = Some (m', p') ->
  mem_wf nb m' /\ pc_wf nb p'.
Proof.
  intros Hnb Hm Hp H. destruct Hm as (Hk & Hl & Ho & Hn & Hi).
  assert (Hm : mem_wf nb m) by (unfold mem_wf; auto).
  destruct p; cbn [tstep] in H; try discriminate.
  - injection H as <- <-. split; [assumption|exact I].
  - destruct (offset m =? off) eqn:E; injection H as <- <-.
    + split.
      * unfold mem_wf; cbn. repeat split; try assumption; try lia; rewrite Hk; apply Z.mod_pos_bound; lia.
      * rewrite Hk. destruct (0 <? nb) eqn:E0; [|exact I]. cbn. unfold pos_ok. split; [apply Z.mod_pos_bound|]; lia.
    + split; [assumption|exact I].
  - injection H as <- <-. split; [assumption|]. cbn in Hp.
    destruct (word m (pos_of m off i) =? max64).
    + apply next_word_wf; assumption || lia.
    + apply after_load_wf; assumption || lia.
  - cbn in Hp. destruct Hp as (Hp & Hj & Hb).
    destruct (word m (pos_of m off i) =? bucket) eqn:E; injection H as <- <-.
    + split.
      * unfold mem_wf, set_word; cbn. rewrite upd_length. auto.
      * cbn. split; [apply pos_of_range; assumption || lia|assumption].
    + split; [assumption|]. cbn. auto.
  - injection H as <- <-. split; [|exact I].
    unfold mem_wf, set_inuse; cbn. pose proof (s32_range (inuse m + 1)). repeat split; try assumption; lia.
  - injection H as <- <-. split; [assumption|]. cbn in Hp. destruct Hp as [Hp Hj]. apply after_load_wf; try assumption; lia.
  - destruct ((0 <=? bucket_offset id) && (bucket_offset id <? Z.of_nat (length (words m)))); injection H as <- <-;
      (split; [assumption|]).
    + destruct (Z.land _ _ =? _); exact I.
    + exact I.
  - destruct (word m (bucket_offset id) =? bucket); injection H as <- <-.
    + split; [|exact I]. unfold mem_wf, set_word; cbn. rewrite upd_length. auto.
    + split; [assumption|exact I].
  - injection H as <- <-. split; [assumption|]. destruct (Z.land _ _ =? _); exact I.
  - injection H as <- <-. split.
    + unfold mem_wf, set_inuse; cbn. pose proof (s32_range (inuse m - 1)). repeat split; try assumption; lia.
    + destruct (_ <? 0); exact I.
Qed.

Lemma step_wf nb s l s' : 1 <= nb < 4294967296 -> wf nb s -> step s l = Some s' -> wf nb s'.
Proof.
  intros Hnb (Hm & Hn0 & Hlen & Hth) H. destruct l as [o|t]; cbn [step] in H.
  - inversion H; subst; clear H. unfold wf; cbn [smem threads next]. split; [assumption|]. split; [lia|].
    split; [cbn [length]; lia|]. intros t p. cbn [lookup]. destruct (next s =? t) eqn:E.
    + intros Hp; inversion Hp; subst. apply Z.eqb_eq in E. split; [lia|]. destruct o; exact I.
    + intros Hp. apply Hth in Hp. split; [lia|tauto].
  - destruct (lookup t (threads s)) as [p|] eqn:El; [|discriminate].
    destruct (tstep (smem s) p) as [[m' p']|] eqn:Et; [|discriminate]. inversion H; subst; clear H.
    destruct (Hth _ _ El) as [Ht Hp]. destruct (tstep_wf nb _ _ _ _ Hnb Hm Hp Et) as [Hm' Hp'].
    unfold wf; cbn [smem threads next]. split; [assumption|]. split; [assumption|].
    split; [rewrite length_update; assumption|]. intros t0 p0.
    destruct (Z.eq_dec t t0) as [<-|Hne].
    + rewrite lookup_update_eq by congruence. intros H; inversion H; subst. auto.
    + rewrite lookup_update_neq by assumption. apply Hth.
Qed.

Lemma init_wf nb : 1 <= nb < 4294967296 -> wf nb (init_state nb).
Proof.
  intros Hnb. unfold wf, init_state, init_mem, mem_wf; cbn.
  rewrite upd_length, repeat_length. rewrite w32_small by lia.
  repeat split; try lia; discriminate.
Qed.

Lemma run_wf nb ls : 1 <= nb < 4294967296 -> forall s s', wf nb s -> run s ls = Some s' -> wf nb s'.
Proof.
  intros Hnb. induction ls as [|l ls IH]; intros s s' Hs H; cbn [run] in H.
  - inversion H; subst; assumption.
  - destruct (step s l) as [s1|] eqn:E; [|discriminate]. eapply IH; [|eassumption]. eapply step_wf; eassumption.
Qed.
