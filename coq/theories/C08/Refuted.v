(* C08/Refuted.v -- machine-checked witnesses (vm_compute on the faithful model) for the full statements
   that the real code violates: without the client discipline "Clear(id) only by the holder, once", a second
   Clear(id) whose CAS lands after another goroutine re-acquired id (the word is back to the value the second
   Clear loaded: ABA) takes the bit away from its new holder.  Known finding double-clear-racing-acquire. *)
From GocqlV Require Import Lib.Base Gen.Consts C08.Model C08.Ghost.
Open Scope Z_scope.

Definition steps (t : Z) (n : nat) : list label := repeat (Step t) n.

(* thread 0: GetStream -> 1.  threads 1, 2: Clear(1) twice; both load while the bit is set; thread 1 clears and
   decrements (counter 0).  threads 3, 4: GetStream, paused between their CAS and their counter add; thread 4 has
   re-set the bit of id 1, so word 0 again equals what thread 2 loaded.  thread 2: CAS succeeds, decrement -> -1. *)
Definition aba_prefix : list label :=
  [Spawn OGet] ++ steps 0 5 ++ [Spawn (OClear 1); Spawn (OClear 1); Step 1; Step 2; Step 1; Step 1]
  ++ [Spawn OGet] ++ steps 3 4 ++ [Spawn OGet] ++ steps 4 4.

Definition aba_panic : list label := aba_prefix ++ [Step 2; Step 2].

(* "the counter never goes negative and Clear never panics", for ALL runs: refuted *)
Theorem double_clear_racing_acquire_refuted :
  exists ls s, run (init_state 2) ls = Some s
    /\ inuse (smem s) < 0 /\ lookup 2 (threads s) = Some CPanic
    /\ 64 * 2 + next s < 2147483648.
Proof. exists aba_panic. eexists. split; [vm_compute; reflexivity|]. vm_compute. intuition congruence. Qed.

(* same race with the counter adds done first: no panic, but id 1 is acquired three times (threads 0, 4, 6)
   although Clear(1) was called only twice -- while thread 4 holds id 1, thread 6 is given it too *)
Definition aba_twice : list label :=
  aba_prefix ++ [Step 3; Step 4; Step 2; Step 2; Spawn OGet] ++ steps 5 5 ++ [Spawn OGet] ++ steps 6 5.

Definition clear_calls (id : Z) (ls : list label) : Z :=
  Z.of_nat (length (filter (fun l => match l with Spawn (OClear x) => x =? id | _ => false end) ls)).
Definition acquisitions (id : Z) (s : state) : Z :=
  Z.of_nat (length (filter (fun tp => match snd tp with GDone r true => r =? id | _ => false end) (threads s))).

(* "an id is handed out again only after a Clear call for it": #acquisitions <= #Clear calls + 1, for ALL runs: refuted *)
Theorem double_clear_hands_out_twice_refuted :
  exists ls s, run (init_state 2) ls = Some s
    /\ acquisitions 1 s = 3 /\ clear_calls 1 ls = 2
    /\ lookup 4 (threads s) = Some (GDone 1 true) /\ lookup 6 (threads s) = Some (GDone 1 true)
    /\ quiescent s /\ available (smem s) = 64 * 2 - 1 - 3.
Proof.
  exists aba_twice. eexists. split; [vm_compute; reflexivity|]. repeat split; try (vm_compute; reflexivity).
  unfold quiescent. vm_compute. repeat constructor.
Qed.

(* Clear(0) is outside the contract (id 0 is never handed out): on a fresh allocator it panics (counter -1)
   and un-reserves id 0, which the next GetStream hands out *)
Theorem clear_zero_unreserves_refuted :
  exists ls s, run (init_state 2) ls = Some s /\ lookup 0 (threads s) = Some CPanic /\ lookup 1 (threads s) = Some (GDone 0 true).
Proof.
  exists ([Spawn (OClear 0)] ++ steps 0 3 ++ [Spawn OGet] ++ steps 1 5).
  eexists. split; [|split]; vm_compute; reflexivity.
Qed.
