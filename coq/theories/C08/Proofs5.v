(* C08/Proofs5.v -- the counter: exact value, no panic, Available at quiescence; the final form of the
   exhaustion theorem; what [seen] means *)
From GocqlV Require Import Lib.Base Gen.Consts C08.Model C08.Ghost C08.Proofs1 C08.Proofs2 C08.Proofs3 C08.Proofs4.
Open Scope Z_scope.

Lemma lookup_In t p l : lookup t l = Some p -> In (t, p) l.
Proof.
  induction l as [|[t0 p0] l IH]; cbn [lookup]; [discriminate|].
  destruct (t0 =? t) eqn:E; intros H; [injection H as <-; apply Z.eqb_eq in E; subst; left; reflexivity|right; auto].
Qed.

Lemma cnt_c10_quiescent l : Forall (fun tp : Z * pc => point (snd tp) = 0) l -> cnt_c10 l = 0.
Proof.
  induction 1 as [|[t p] l Hp _ IH]; cbn [cnt_c10]; [reflexivity|]. rewrite IH. cbn [snd] in Hp.
  destruct p; cbn [is_c10]; try reflexivity. cbn [point] in Hp. discriminate.
Qed.

(* the counter is exact as long as fewer than 2^31 - 64 nb calls have been started *)
Lemma count_exact_lemma nb ls s g : 1 <= nb < 4294967296 -> disciplined nb ls s g -> 64 * nb + next s < 2147483648 ->
  inuse (smem s) = cnt_or g (64 * nb) + cnt_c10 (threads s) /\ 0 <= inuse (smem s)
  /\ forall t, lookup t (threads s) <> Some CPanic.
Proof.
  intros Hnb H Hb. destruct (disciplined_inv _ _ _ _ Hnb H) as [Hwf HI].
  pose proof (i_cnt _ _ _ HI) as Hc.
  pose proof (cnt_bounds (fun x => is_or (own g x)) (Z.to_nat (64 * nb))) as Hb1. fold (cnt_or g (64 * nb)) in Hb1.
  pose proof (cnt_c10_bounds (threads s)) as Hb2.
  destruct Hwf as ((_ & _ & _ & _ & Hr) & _ & Hlen & _).
  assert (He : inuse (smem s) = cnt_or g (64 * nb) + cnt_c10 (threads s)) by lia.
  split; [assumption|]. split; [lia|]. intros t Ht. apply (i_panic _ _ _ HI) in Ht. lia.
Qed.

(* at quiescence every id is either free or handed out, and Available() counts the free ones *)
Lemma count_quiescent_lemma nb ls s g : 1 <= nb -> 64 * nb < 2147483648 -> disciplined nb ls s g -> quiescent s ->
  (forall id, own g id = Free \/ own g id = Owned)
  /\ available (smem s) = 64 * nb - 1 - cnt_held g (64 * nb).
Proof.
  intros Hnb Hb H Hq. assert (Hnb' : 1 <= nb < 4294967296) by lia.
  destruct (disciplined_inv _ _ _ _ Hnb' H) as [Hwf HI]. unfold quiescent in Hq.
  assert (Hown : forall id, own g id = Free \/ own g id = Owned).
  { intros id. destruct (own g id) eqn:Eo; auto; exfalso.
    - destruct (i_acq _ _ _ HI _ _ Eo) as (p & Hp & (pos & j & -> & _)). apply lookup_In in Hp.
      rewrite Forall_forall in Hq. apply Hq in Hp. discriminate.
    - destruct (i_rel _ _ _ HI _ _ Eo) as (p & Hp & Hr). apply lookup_In in Hp.
      rewrite Forall_forall in Hq. apply Hq in Hp. destruct Hr as [->|[[? ->]| ->]]; discriminate. }
  split; [assumption|].
  pose proof (i_cnt _ _ _ HI) as Hc. rewrite (cnt_c10_quiescent _ Hq) in Hc.
  assert (Heq : cnt_or g (64 * nb) = cnt_held g (64 * nb)).
  { unfold cnt_or, cnt_held. apply cnt_ext. intros x _. destruct (Hown x) as [-> | ->]; reflexivity. }
  pose proof (cnt_bounds (fun x => is_or (own g x)) (Z.to_nat (64 * nb))) as Hb1. fold (cnt_or g (64 * nb)) in Hb1.
  destruct Hwf as ((_ & _ & _ & Hn & Hr) & _). unfold available. rewrite Hn. lia.
Qed.

(* ---- exhaustion, final form ---- *)
Lemma no_false_exhaustion_lemma nb ls1 s0 s1 ls2 s2 r : 1 <= nb < 2147483648 ->
  run (init_state nb) ls1 = Some s0 -> step s0 (Spawn OGet) = Some s1 -> run s1 ls2 = Some s2 ->
  lookup (next s0) (threads s2) = Some (GDone r false) ->
  forall id, 0 <= id < 64 * nb -> seen s1 ls2 id = true.
Proof.
  intros Hnb H0 H1 H2 Hd id Hid.
  assert (Hwf0 : wf nb s0) by (eapply run_wf; [|apply init_wf|eassumption]; lia).
  assert (Hwf1 : wf nb s1) by (eapply step_wf; try eassumption; lia).
  cbn [step] in H1. injection H1 as <-.
  destruct (exhaustion_gen nb (next s0) r s2 Hnb ls2 _ (fun _ => false) G1 Hwf1) with (id := id) as [H|H]; try assumption.
  - cbn [threads lookup]. rewrite Z.eqb_refl. reflexivity.
  - exact I.
  - discriminate.
Qed.

Lemma run_app s ls1 ls2 : run s (ls1 ++ ls2) = match run s ls1 with Some s' => run s' ls2 | None => None end.
Proof. revert s. induction ls1 as [|l ls1 IH]; intros s; cbn [run app]; [reflexivity|]. destruct (step s l); [apply IH|reflexivity]. Qed.

(* [seen s ls id] says exactly: the bit of id is set in the state reached after some prefix of ls *)
Lemma seen_spec s ls id : seen s ls id = true <->
  exists la lb s', ls = la ++ lb /\ run s la = Some s' /\ bit (smem s') id = true.
Proof.
  revert s. induction ls as [|l ls IH]; intros s; cbn [seen].
  - rewrite orb_false_r. split.
    + intros H. exists [], [], s. auto.
    + intros (la & lb & s' & Hl & Hr & Hb). destruct la; [|discriminate]. cbn [run] in Hr. injection Hr as <-. assumption.
  - split.
    + intros H. apply orb_true_iff in H. destruct H as [H|H].
      * exists [], (l :: ls), s. auto.
      * destruct (step s l) as [s1|] eqn:Es; [|discriminate]. apply IH in H. destruct H as (la & lb & s' & -> & Hr & Hb).
        exists (l :: la), lb, s'. cbn [run app]. rewrite Es. auto.
    + intros (la & lb & s' & Hl & Hr & Hb). destruct la as [|l0 la].
      * cbn [run] in Hr. injection Hr as <-. rewrite Hb. reflexivity.
      * cbn [app] in Hl. injection Hl as -> ->. cbn [run] in Hr. destruct (step s l0) as [s1|]; [|discriminate].
        apply orb_true_iff. right. apply IH. exists la, lb, s'. auto.
Qed.
