(* C08/Corr.v -- correspondence cases.  A case is a history recorded by the harness while it drove
   the real allocator (internal/streams through the verif shim) under its deterministic scheduler:
   every event carries what the implementation did (which yield point the goroutine was parked at
   before and after its atomic operation, the shared memory after it, the call's return values).
   [check] replays the same schedule through the model and compares after every event. *)
From GocqlV Require Import Lib.Base C08.Model.

Inductive res := RNone | RGet (r : Z) (ok : bool) | RClear (b : bool) | RPanic | RCrash.

Definition res_of (p : pc) : res :=
  match p with
  | GDone r ok => RGet r ok | CDone b => RClear b | CPanic => RPanic | CCrash => RCrash
  | _ => RNone
  end.

Definition res_eqb (a b : res) : bool :=
  match a, b with
  | RNone, RNone | RPanic, RPanic | RCrash, RCrash => true
  | RGet r ok, RGet r' ok' => (r =? r') && Bool.eqb ok ok'
  | RClear x, RClear y => Bool.eqb x y
  | _, _ => false
  end.

Inductive ev :=
| ESpawn (o : op) (tid pt : Z)
    (* a new call was started; the harness numbered it tid and it parked at yield point pt *)
| ES (t ptb pta : Z)
    (* thread t, parked at ptb, performed its atomic operation and ran on to yield point pta <> 0; the shared
       memory (offset, counter, every word) is what it was before *)
| EStep (t ptb pta off inu tog : Z) (r : res)
    (* same, in general: pta = 0 means the call returned, with result r; afterwards offset = off,
       inuseStreams = inu, and the words differ from the previous snapshot exactly in the bit of id tog
       (tog = -1: not at all) *)
| EStepD (t ptb pta off inu : Z) (diff : list (Z * Z)) (r : res)
    (* same with an arbitrary difference of the words: (index, new value) *)
| ERun (o : op) (r : res) (off inu : Z)
    (* a call run from start to end with nobody else moving (sequential use) *)
| EGets (rs : list Z)
    (* consecutive sequential GetStream calls, each run from start to end, returning (r, true) for r in rs *)
| EAvail (v : Z)                              (* Available() returned v *)
| ESnap (off inu : Z) (inv : bool) (ids : list Z).
    (* full snapshot of the shared memory: the ids whose bit is set (inv = false) or clear (inv = true), ascending *)

Inductive case :=
| CSched (proto : Z) (evs : list ev)
| CNew (proto nstr avail off inu : Z) (ws : list Z).      (* streams.New(proto): NumStreams, Available(), memory *)

Definition apply_diff (ws : list Z) (d : list (Z * Z)) : list Z :=
  fold_left (fun w (iv : Z * Z) => upd w (Z.to_nat (fst iv)) (snd iv)) d ws.

Definition toggle (ws : list Z) (id : Z) : list Z :=
  if id <? 0 then ws
  else let i := Z.to_nat (id / 64) in upd ws i (Z.lxor (nth i ws 0) (Z.shiftl 1 (63 - id mod 64))).

(* ids (ascending from base) whose bit in the words equals want *)
Fixpoint ids_word (w : Z) (base : Z) (k : nat) (want : bool) : list Z :=
  match k with
  | O => []
  | S k' =>
      let j := 63 - Z.of_nat k' in      (* k = 64 -> j = 0 first *)
      let rest := ids_word w base k' want in
      if Bool.eqb (Z.testbit w (63 - j)) want then (base + j) :: rest else rest
  end.
Fixpoint ids_words (ws : list Z) (base : Z) (want : bool) : list Z :=
  match ws with
  | [] => []
  | w :: ws' => ids_word w base 64 want ++ ids_words ws' (base + 64) want
  end.

Definition mem_eqb (a b : mem) : bool :=
  (offset a =? offset b) && (inuse a =? inuse b) && zlist_eqb (words a) (words b).

Definition check_step (s : state) (t ptb pta : Z) (k : state -> pc -> bool) : option state :=
  match lookup t (threads s) with
  | Some p =>
      if point p =? ptb then
        match step s (Step t) with
        | Some s' =>
            match lookup t (threads s') with
            | Some p' => if (point p' =? pta) && k s' p' then Some s' else None
            | None => None
            end
        | None => None
        end
      else None
  | None => None
  end.

Definition check_run (s : state) (o : op) (k : state -> pc -> bool) : option state :=
  match step s (Spawn o) with
  | Some s1 =>
      match run_solo (solo_fuel s) s1 (next s) with
      | Some s' =>
          match lookup (next s) (threads s') with
          | Some p' => if k s' p' then Some s' else None
          | None => None
          end
      | None => None
      end
  | None => None
  end.

Fixpoint check_gets (s : state) (rs : list Z) : option state :=
  match rs with
  | [] => Some s
  | r :: rs' =>
      match check_run s OGet (fun _ p' => res_eqb (res_of p') (RGet r true)) with
      | Some s' => check_gets s' rs'
      | None => None
      end
  end.

Definition check_ev (s : state) (e : ev) : option state :=
  match e with
  | ESpawn o tid pt =>
      if (next s =? tid) && (point (init_pc o) =? pt) then step s (Spawn o) else None
  | ES t ptb pta =>
      check_step s t ptb pta (fun s' p' => negb (pta =? 0) && mem_eqb (smem s') (smem s))
  | EStep t ptb pta off inu tog r =>
      check_step s t ptb pta (fun s' p' =>
        res_eqb (res_of p') r && (offset (smem s') =? off) && (inuse (smem s') =? inu)
        && zlist_eqb (words (smem s')) (toggle (words (smem s)) tog))
  | EStepD t ptb pta off inu diff r =>
      check_step s t ptb pta (fun s' p' =>
        res_eqb (res_of p') r && (offset (smem s') =? off) && (inuse (smem s') =? inu)
        && zlist_eqb (words (smem s')) (apply_diff (words (smem s)) diff))
  | ERun o r off inu =>
      check_run s o (fun s' p' => res_eqb (res_of p') r && (offset (smem s') =? off) && (inuse (smem s') =? inu))
  | EGets rs => check_gets s rs
  | EAvail v => if available (smem s) =? v then Some s else None
  | ESnap off inu inv ids =>
      if (offset (smem s) =? off) && (inuse (smem s) =? inu)
         && zlist_eqb (ids_words (words (smem s)) 0 (negb inv)) ids
      then Some s else None
  end.

Fixpoint check_evs (s : state) (es : list ev) : bool :=
  match es with
  | [] => true
  | e :: es' => match check_ev s e with Some s' => check_evs s' es' | None => false end
  end.

Definition check (c : case) : bool :=
  match c with
  | CSched proto evs => check_evs (new_state proto) evs
  | CNew proto nstr avail off inu ws =>
      let m := new_mem proto in
      (nstreams m =? nstr) && (available m =? avail) && (offset m =? off) && (inuse m =? inu)
      && zlist_eqb (words m) ws && (nbk m =? Z.of_nat (length ws))
  end.

Definition run (cs : list case) : list N := mismatches check cs.
