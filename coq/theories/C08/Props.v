(* C08/Props.v -- the proof obligations for property C08 (stream-id allocator), and nothing else.

   Vocabulary (Model.v, Ghost.v):
     init_state nb                the allocator of streams.New with nb 64-bit words (128 ids: nb = 2; 32768 ids: nb = 512)
     run s ls                     the state after the label list ls: Spawn o starts a GetStream / Clear(id) call in a new
                                  thread, Step t lets thread t perform ONE atomic operation (load, CAS or add)
     disciplined nb ls s g        ls is a run from init_state nb to s in which the client keeps the discipline (below);
                                  g is the ghost state: own g id = Free | Acquiring t | Owned | Releasing t
     disc nb s g l                the discipline, per label:  Clear(id) is called only on an id that is handed out
                                  (own = Owned: the holder's single release) or on a free id (a double release), and while
                                  such a double release is pending nobody's CAS acquires that same id
     bit m id                     the bit of id in the shared words
   Every theorem quantifies over all label lists = all interleavings of the atomic operations of any number of
   threads, and over every nb (number of words) within the stated bound. *)
From GocqlV Require Import Lib.Base Gen.Consts C08.Model C08.Ghost C08.Spec
  C08.Proofs1 C08.Proofs2 C08.Proofs3 C08.Proofs4 C08.Proofs5 C08.Proofs6 C08.Proofs7.
Open Scope Z_scope.

(* Both capacities of streams.New are instances of the generic allocator the theorems are about;
   bucketBits is the generated constant. *)
Theorem C08_capacities : forall p,
  new_state p = init_state (if p >? 2 then 512 else 2) /\ K.streams_bucketBits = 64.
Proof. exact capacities_lemma. Qed.
Print Assumptions C08_capacities.

(* The invariant: in every state of every disciplined run, a bit is set exactly for id 0 and for the ids that are
   not free; non-free ids are in 1 .. 64 nb - 1; and the counter equals, modulo 2^32, the number of ids that are
   handed out or being released plus the number of Clear calls between their CAS and their decrement. *)
Theorem C08_alloc_inv : forall nb ls s g, 1 <= nb < 4294967296 -> disciplined nb ls s g ->
  (forall id, 0 <= id < 64 * nb -> (bit (smem s) id = true <-> id = 0 \/ own g id <> Free))
  /\ (forall id, own g id <> Free -> 1 <= id < 64 * nb)
  /\ (inuse (smem s) - (cnt_or g (64 * nb) + cnt_c10 (threads s))) mod 4294967296 = 0.
Proof. exact alloc_inv_lemma. Qed.
Print Assumptions C08_alloc_inv.

(* Uniqueness, at the linearisation point: whenever a GetStream thread's CAS succeeds (it moves from program point 4
   to point 5, from where it returns id = pos*64+j), that id was free -- held by nobody, not being acquired, not being
   released -- and its bit was clear; it is in range and not 0; afterwards it belongs to this thread. *)
Theorem C08_unique : forall nb ls s g t off i j b s' pos j',
  1 <= nb < 4294967296 -> disciplined nb ls s g -> disc nb s g (Step t) ->
  lookup t (threads s) = Some (G4 off i j b) -> step s (Step t) = Some s' ->
  lookup t (threads s') = Some (G5 pos j') ->
  let id := pos * 64 + j' in
  own g id = Free /\ bit (smem s) id = false /\ 1 <= id < 64 * nb
  /\ own (gupd s g (Step t) s') id = Acquiring t /\ bit (smem s') id = true.
Proof. exact unique_lemma. Qed.
Print Assumptions C08_unique.

(* Range: GetStream returns (r, true) only with 1 <= r <= 64 nb - 1 (never 0, never out of range), and (0, false) otherwise. *)
Theorem C08_range : forall nb ls s g t r ok, 1 <= nb < 4294967296 -> disciplined nb ls s g ->
  lookup t (threads s) = Some (GDone r ok) -> if ok then 1 <= r < 64 * nb else r = 0.
Proof. exact range_lemma. Qed.
Print Assumptions C08_range.

(* No false exhaustion -- for EVERY run, disciplined or not: if a GetStream call (started in state s0, thread id
   next s0) returns (r, false), then every id was marked in use in some state between the call's start and its end.
   Contrapositive: while some id stays free for the whole call, the call does not report exhaustion. *)
Theorem C08_no_false_exhaustion : forall nb ls1 s0 s1 ls2 s2 r, 1 <= nb < 2147483648 ->
  run (init_state nb) ls1 = Some s0 -> step s0 (Spawn OGet) = Some s1 -> run s1 ls2 = Some s2 ->
  lookup (next s0) (threads s2) = Some (GDone r false) ->
  forall id, 0 <= id < 64 * nb -> seen s1 ls2 id = true.
Proof. exact no_false_exhaustion_lemma. Qed.
Print Assumptions C08_no_false_exhaustion.

(* ... where [seen] means what it should: the bit was set in the state after some prefix of the run. *)
Theorem C08_seen_meaning : forall s ls id, seen s ls id = true <->
  exists la lb s', ls = la ++ lb /\ run s la = Some s' /\ bit (smem s') id = true.
Proof. exact seen_spec. Qed.
Print Assumptions C08_seen_meaning.

(* Used sequentially ([seq_gets k] in Model.v: k GetStream calls, each run alone from start to end), a fresh
   allocator answers 64 nb calls with 64 nb - 1 successes carrying pairwise distinct ids from 1 .. 64 nb - 1 --
   that is, every non-reserved id -- followed by (0, false); in particular every one of these calls terminates. *)
Theorem C08_sequential_all_ids : forall nb, 1 <= nb < 2147483648 ->
  exists s ids, seq_gets (Z.to_nat (64 * nb)) (init_state nb) = Some (s, map (fun id => (id, true)) ids ++ [(0, false)])
    /\ Z.of_nat (length ids) = 64 * nb - 1 /\ NoDup ids /\ Forall (fun id => 1 <= id < 64 * nb) ids.
Proof. exact sequential_all_ids_lemma. Qed.
Print Assumptions C08_sequential_all_ids.

(* Clear reports whether the id was handed out: a Clear(id) call made while id is handed out returns true, one made
   while id is free returns false -- whatever else happens concurrently in the rest ls2 of the run. *)
Theorem C08_clear_reports : forall nb ls s g id s1 ls2 s2 g2 r, 1 <= nb < 4294967296 -> disciplined nb ls s g ->
  disc nb s g (Spawn (OClear id)) -> step s (Spawn (OClear id)) = Some s1 ->
  dsteps nb s1 (gupd s g (Spawn (OClear id)) s1) ls2 s2 g2 ->
  lookup (next s) (threads s2) = Some (CDone r) ->
  (own g id = Owned -> r = true) /\ (own g id = Free -> r = false).
Proof. exact clear_reports_lemma. Qed.
Print Assumptions C08_clear_reports.

(* Double release is harmless (as long as the id stays free during the call): a Clear thread that was called on a
   free id is only ever at its first load -- where the id is still free, so the load sees the bit clear -- or has
   returned false; it never reaches the CAS, the decrement or a panic, so it changes nothing. *)
Theorem C08_double_clear_harmless : forall nb ls s g t p, 1 <= nb < 4294967296 -> disciplined nb ls s g ->
  lookup t (threads s) = Some p -> kind g t = Stale ->
  match p with
  | C7 id => own g id = Free /\ 1 <= id < 64 * nb /\ bit (smem s) id = false
  | C8 _ _ | C9 _ | C10 _ | CDone true | CPanic | CCrash => False
  | _ => True
  end.
Proof. exact stale_clear_lemma. Qed.
Print Assumptions C08_double_clear_harmless.

(* The counter: as long as fewer than 2^31 - 64 nb calls have been started in total (int32 cannot wrap), it is
   exactly the number of ids handed out or being released plus the Clear calls between CAS and decrement; it is
   never negative, and Clear never panics. *)
Theorem C08_count_exact_no_panic : forall nb ls s g, 1 <= nb < 4294967296 -> disciplined nb ls s g ->
  64 * nb + next s < 2147483648 ->
  inuse (smem s) = cnt_or g (64 * nb) + cnt_c10 (threads s) /\ 0 <= inuse (smem s)
  /\ forall t, lookup t (threads s) <> Some CPanic.
Proof. exact count_exact_lemma. Qed.
Print Assumptions C08_count_exact_no_panic.

(* At quiescence (no call in progress; no bound on how many calls there were) every id is free or handed out and
   Available() = number of non-reserved ids not handed out. *)
Theorem C08_count_quiescent : forall nb ls s g, 1 <= nb -> 64 * nb < 2147483648 -> disciplined nb ls s g -> quiescent s ->
  (forall id, own g id = Free \/ own g id = Owned)
  /\ available (smem s) = 64 * nb - 1 - cnt_held g (64 * nb).
Proof. exact count_quiescent_lemma. Qed.
Print Assumptions C08_count_quiescent.

(* Refinement of the abstract allocator (Spec.v: a set of held ids within 1 .. N-1): every step of a disciplined run
   is, on the set of non-free ids, an acquire of an id that is not held, a release of a held id, or a stutter. *)
Theorem C08_refines_spec : forall nb ls s g l s', 1 <= nb < 4294967296 -> disciplined nb ls s g ->
  disc nb s g l -> step s l = Some s' ->
  exists e, spec_step (64 * nb) (held_of g) e (held_of (gupd s g l s')).
Proof. exact refines_spec_lemma. Qed.
Print Assumptions C08_refines_spec.

(* ---- non-vacuity: the hypotheses are satisfiable by non-trivial runs (tests, by computation) ---- *)

(* a disciplined run with three calls in flight: thread 0 got id 1 and its holder releases it (thread 1, Clear(1),
   parked before its CAS) while threads 2 and 4 race for the same free bit: 4's CAS fails against 2's *)
Example C08_nonvacuous_contention : exists s g,
  disciplined 2 nonvac_run s g
  /\ lookup 1 (threads s) = Some (C8 1 13835058055282163712)
  /\ lookup 2 (threads s) = Some (G5 1 0) /\ own g 64 = Acquiring 2
  /\ lookup 4 (threads s) = Some (G6 1 0 0)
  /\ own g 1 = Releasing 1.
Proof. exact nonvac_contention. Qed.

(* a complete disciplined history: GetStream = 1; the holder's Clear(1) returns true; a second Clear(1) (double release,
   the id staying free) returns false; at quiescence Available() = 127 = 128 - 1 - 0 *)
Example C08_nonvacuous_clear : exists s g,
  disciplined 2 nonvac_clear_run s g
  /\ lookup 0 (threads s) = Some (GDone 1 true)
  /\ lookup 1 (threads s) = Some (CDone true) /\ kind g 1 = Proper
  /\ lookup 2 (threads s) = Some (CDone false) /\ kind g 2 = Stale
  /\ quiescent s /\ available (smem s) = 127 /\ cnt_held g 128 = 0.
Proof. exact nonvac_clear. Qed.

(* an exhaustion result exists (cap 128, sequentially): the hypothesis of C08_no_false_exhaustion is satisfiable *)
Example C08_nonvacuous_exhaustion : exists s rs, seq_gets 128 (init_state 2) = Some (s, rs) /\ nth 127 rs (0, true) = (0, false).
Proof. eexists. eexists. split; vm_compute; reflexivity. Qed.

(* ---- the model's bit arithmetic is the code: generated-model equivalence (tools/go2coq, Gen/Code.v,
   C08/GenEquiv.v) -----------------------------------------------------------------------------------
   GC.f is the Gallina definition that tools/go2coq generates from the Go source of f
   (internal/streams/streams.go) on every run.  GetStream and Clear are concurrent code over atomics and stay
   tied to the model by the scheduled correspondence run; the pure helpers they call are tied by proof. *)
From GocqlV Require Import Gen.Code.
From GocqlV Require C08.GenEquiv.   (* not imported: its helper lemmas stay qualified *)

(* streamOffset: every int (Go's % truncates; the subtraction is uint64 arithmetic) *)
Theorem C08_generated_streamOffset_is_model : forall s, GC.streamOffset s = stream_offset s.
Proof. exact C08.GenEquiv.gen_streamOffset_eq. Qed.
Print Assumptions C08_generated_streamOffset_is_model.

Theorem C08_generated_bucketOffset_is_model : forall s, GC.bucketOffset s = bucket_offset s.
Proof. exact C08.GenEquiv.gen_bucketOffset_eq. Qed.
Print Assumptions C08_generated_bucketOffset_is_model.

(* streamFromBucket is the id the model's GetStream returns (pos * bb + j): no int overflow for any word index *)
Theorem C08_generated_streamFromBucket_is_model : forall pos j, 0 <= pos < 2 ^ 50 -> 0 <= j < 64 ->
  GC.streamFromBucket pos j = pos * bb + j.
Proof. exact C08.GenEquiv.gen_streamFromBucket_eq. Qed.
Print Assumptions C08_generated_streamFromBucket_is_model.

(* isSet on the word that holds id s is the model's in-use bit of s *)
Theorem C08_generated_isSet_is_model : forall m s, 0 <= s -> GC.isSet (word m (s / bb)) s = bit m s.
Proof. exact C08.GenEquiv.gen_isSet_eq. Qed.
Print Assumptions C08_generated_isSet_is_model.
