(* C08/Ghost.v -- ghost (history) state used to state the theorems: ownership of every id, the client discipline,
   disciplined runs, and 'was the bit of id set at some moment of this run'.  Definitions only; nothing here is
   executed by the correspondence check and nothing here influences the model's steps.

   own id = Free            nobody holds id
          | Acquiring t     GetStream thread t has set the bit (successful CAS) but not yet incremented the counter
          | Owned           the id is handed out (the acquiring call has done its counter add)
          | Releasing t     the holder has called Clear(id) (thread t), whose CAS has not happened yet
   kind t = Proper / Stale  whether Clear thread t was called on a handed-out id (the holder's release) or on a free id
                            (a double release) *)
From GocqlV Require Import Lib.Base Gen.Consts C08.Model.
Open Scope Z_scope.

(* ---- ghost state ---- *)
Inductive owner := Free | Acquiring (t : Z) | Owned | Releasing (t : Z).
Inductive ckind := Proper | Stale.
Record ghost := Gh { own : Z -> owner; kind : Z -> ckind }.

Definition set_own (g : ghost) (id : Z) (o : owner) : ghost :=
  {| own := fun x => if x =? id then o else own g x; kind := kind g |}.
Definition set_kind (g : ghost) (t : Z) (k : ckind) : ghost :=
  {| own := own g; kind := fun x => if x =? t then k else kind g x |}.
Definition ghost0 : ghost := {| own := fun _ => Free; kind := fun _ => Stale |}.

(* how the ghost follows a step s --l--> s'.  Four rules:
     Clear(id) is called on a handed-out id  -> Releasing by the new thread (kind Proper); on anything else: kind Stale
     a GetStream thread goes from its CAS (point 4) to the counter add (point 5)  -> the id is Acquiring by it
     that thread performs the add                                                -> Owned
     a Clear thread goes from its CAS (point 8) to the decrement (point 10)      -> Free *)
Definition gupd (s : state) (g : ghost) (l : label) (s' : state) : ghost :=
  match l with
  | Spawn OGet => g
  | Spawn (OClear id) =>
      match own g id with
      | Owned => set_kind (set_own g id (Releasing (next s))) (next s) Proper
      | _ => set_kind g (next s) Stale
      end
  | Step t =>
      match lookup t (threads s), lookup t (threads s') with
      | Some (G4 _ _ _ _), Some (G5 pos j) => set_own g (pos * bb + j) (Acquiring t)
      | Some (G5 pos j), _ => set_own g (pos * bb + j) Owned
      | Some (C8 id _), Some (C10 _) => set_own g id Free
      | _, _ => g
      end
  end.

(* the client discipline, as a condition on the next label of a run:
     - GetStream may be called at any time;
     - Clear(id) is called either on a handed-out id (this call is then its release: one release per acquisition)
       or on a free id in 1 .. 64 nb - 1 (a double release);
     - while such a double release of id has not yet performed its load, no GetStream CAS that would succeed on
       that same id is scheduled ("the id stays free during the call").
   C08/Refuted.v shows what happens without it. *)
Definition disc (nb : Z) (s : state) (g : ghost) (l : label) : Prop :=
  match l with
  | Spawn OGet => True
  | Spawn (OClear id) => own g id = Owned \/ (own g id = Free /\ 1 <= id < 64 * nb)
  | Step t => forall off i j b, lookup t (threads s) = Some (G4 off i j b) ->
                word (smem s) (pos_of (smem s) off i) = b ->
                forall t', lookup t' (threads s) = Some (C7 (pos_of (smem s) off i * 64 + j)) -> kind g t' = Proper
  end.


(* runs in which every label satisfies the discipline, with the ghost carried along *)
Inductive dsteps (nb : Z) : state -> ghost -> list label -> state -> ghost -> Prop :=
| ds_nil s g : dsteps nb s g [] s g
| ds_cons s g l s1 ls s' g' : disc nb s g l -> step s l = Some s1 ->
    dsteps nb s1 (gupd s g l s1) ls s' g' -> dsteps nb s g (l :: ls) s' g'.

Definition disciplined (nb : Z) (ls : list label) (s : state) (g : ghost) : Prop :=
  dsteps nb (init_state nb) ghost0 ls s g.


(* was id marked in use in some state along the run of ls from s (the state s itself included)? *)
Fixpoint seen (s : state) (ls : list label) (id : Z) : bool :=
  bit (smem s) id ||
  match ls with
  | [] => false
  | l :: ls' => match step s l with Some s' => seen s' ls' id | None => false end
  end.


(* every thread has left the allocator *)
Definition quiescent (s : state) : Prop := Forall (fun tp : Z * pc => point (snd tp) = 0) (threads s).

(* number of ids in [0, n) satisfying f, and the two counts the theorems speak about *)
Fixpoint cnt (f : Z -> bool) (n : nat) : Z :=
  match n with O => 0 | S k => (if f (Z.of_nat k) then 1 else 0) + cnt f k end.
Definition is_or (o : owner) : bool := match o with Owned | Releasing _ => true | _ => false end.
Definition cnt_or (g : ghost) (n : Z) : Z := cnt (fun id => is_or (own g id)) (Z.to_nat n).
Definition is_nonfree (o : owner) : bool := match o with Free => false | _ => true end.
Definition cnt_held (g : ghost) (n : Z) : Z := cnt (fun id => is_nonfree (own g id)) (Z.to_nat n).
Definition is_c10 (p : pc) : bool := match p with C10 _ => true | _ => false end.
Fixpoint cnt_c10 (l : list (Z * pc)) : Z :=
  match l with [] => 0 | (_, p) :: l' => (if is_c10 p then 1 else 0) + cnt_c10 l' end.

(* the abstract state (Spec.v) of a ghost state: the ids that are not free *)
Definition held_of (g : ghost) : Z -> bool := fun id => is_nonfree (own g id).
