(* C15/Corr.v -- correspondence cases.  One case = one iteration of a real gocql query against the
   scripted in-memory node: the input is the query's configuration, the consumer, the number of
   consumer calls made and the script of answers the node gave; the output is what the consumer
   saw (rows in order, the error of Close()/Err()/SliceMap, PageState() at the end) and every
   QUERY/EXECUTE frame the node received for it, decoded by the node's own codec.  [check] runs the
   model on the same script and compares everything. *)
From GocqlV Require Import Lib.Base Gen.Consts C15.Model.

(* what a page request carries on the wire apart from its paging state (node's decoder) *)
Record qobs := mkQobs {
  o_op : Z;                    (* opcode *)
  o_stmt : list Z;             (* statement text (for EXECUTE: the text the prepared id stands for) *)
  o_vals : list (list Z);      (* bound values *)
  o_psize : option Z;          (* result page size *)
  o_cons : Z;                  (* consistency *)
  o_flags : Z;                 (* query flags without the paging-state bit *)
  o_serial : option Z;         (* serial consistency *)
  o_ts : Z }.                  (* default timestamp when the caller fixed one, else 0 *)

(* the query as the harness configured it through the public API *)
Record qcfg := mkQcfg {
  c_prepared : bool;           (* statement starts with SELECT (prepared, EXECUTE) or not (QUERY) *)
  c_stmt : list Z;
  c_vals : list (list Z);      (* marshalled bound values (prepared statements only) *)
  c_psize : Z;                 (* Query.PageSize *)
  c_cons : Z;                  (* Query.Consistency *)
  c_noskip : bool;             (* Query.NoSkipMetadata *)
  c_serial : Z;                (* Query.SerialConsistency, 0 = not set *)
  c_tsflag : bool;             (* default timestamp on *)
  c_ts : Z }.                  (* Query.WithTimestamp value, 0 = none *)

(* conn.go:1334-1413 + frame.go writeQueryParams: the request the driver builds from the query *)
Definition wire_q (c : qcfg) : qobs :=
  let vals := if c_prepared c then c_vals c else [] in
  let flags :=
    (match vals with [] => 0 | _ => K.flagValues end)
    + (if c_prepared c && negb (c_noskip c) then K.flagSkipMetaData else 0)
    + (match wire_page_size (c_psize c) with Some _ => K.flagPageSize | None => 0 end)
    + (if 0 <? c_serial c then K.flagWithSerialConsistency else 0)
    + (if c_tsflag c then K.flagDefaultTimestamp else 0) in
  mkQobs (if c_prepared c then K.opExecute else K.opQuery) (c_stmt c) vals (wire_page_size (c_psize c)) (c_cons c) flags
         (if 0 <? c_serial c then Some (c_serial c) else None) (c_ts c).

(* result metadata is identified by a tag: the harness gives the metadata of the PREPARE result the
   column name "txt" (tag [prep_meta]) and the metadata sent with answer number k of the script the
   column name "t<k>" (tag k); the consumer reads the tag back from Iter.Columns() after each row *)
Definition prep_meta : Z := -1.

(* conn.go:1394 `params.skipMeta = !(cfg.DisableSkipMetadata || qry.disableSkipMetadata)` in the
   prepared branch only; :1439-1448 *)
Definition meta_mode_of (c : qcfg) : meta_mode Z :=
  if c_prepared c && negb (c_noskip c) then UsePrepared prep_meta else UseServer.

Inductive case :=
| CIter (consumer : Z)                 (* 0 Iter.Scan, 1 Scanner, 2 Iter.MapScan, 3 Iter.SliceMap *)
        (cfg : qcfg)
        (manual : option (list Z))     (* Some s: Query.PageState(s) was called (manual paging) *)
        (pf : Z * Z)                   (* Query.Prefetch(num/den) *)
        (ncalls : nat)                 (* consumer calls made (consumers 0-2) *)
        (retries : nat)                (* > 0: Query.RetryPolicy(retry on the same host, at most this many times per page).
                                          0 also stands for a policy that is consulted but answers Ignore, Rethrow or - with the
                                          single host used up - RetryNextHost (query_executor.go:170-185): none of them executes
                                          the query again, the failed Iter (its error) is what the iterator gets, as with no policy *)
        (script : list (reply Z Z))
        (rows : list Z)                (* row ids the consumer saw *)
        (tags : option (list Z))       (* consumers 0 and 2: the metadata tag of Iter.Columns() after each row *)
        (err : option Z) (reqs : list (request qobs)) (state : list Z).

Definition zll_eqb (a b : list (list Z)) : bool :=
  (length a =? length b)%nat && forallb (fun p => zlist_eqb (fst p) (snd p)) (combine a b).

Definition qobs_eqb (a b : qobs) : bool :=
  (o_op a =? o_op b) && zlist_eqb (o_stmt a) (o_stmt b) && zll_eqb (o_vals a) (o_vals b)
  && opt_eqb Z.eqb (o_psize a) (o_psize b) && (o_cons a =? o_cons b) && (o_flags a =? o_flags b)
  && opt_eqb Z.eqb (o_serial a) (o_serial b) && (o_ts a =? o_ts b).

Definition req_eqb (a b : request qobs) : bool :=
  qobs_eqb (r_q a) (r_q b) && opt_eqb zlist_eqb (r_ps a) (r_ps b).

Fixpoint reqs_eqb (a b : list (request qobs)) : bool :=
  match a, b with
  | [], [] => true
  | x :: a', y :: b' => req_eqb x y && reqs_eqb a' b'
  | _, _ => false
  end.

Fixpoint outs_eqb (a : list (option Z)) (b : list (option Z)) : bool :=
  match a, b with
  | [], [] => true
  | x :: a', y :: b' => opt_eqb Z.eqb x y && outs_eqb a' b'
  | _, _ => false
  end.

(* what the harness's consumer loop saw, as the list of results of its calls: the rows, then one
   `false` if it made one more call than it got rows *)
Definition outs_of (rows : list Z) (ncalls : nat) : list (option Z) :=
  map Some rows ++ repeat None (ncalls - length rows).

Fixpoint somes {A} (l : list (option A)) : list A :=
  match l with [] => [] | Some x :: t => x :: somes t | None :: t => somes t end.

(* In the handle-reuse streams of the harness the caller changes, re-binds or releases the *Query
   (or starts a second iterator from it) after Iter() returned.  The case still carries the
   configuration the query had at Iter(): by Props.C15_handle_reuse that is what every later page
   must be requested with, so [check] needs no special treatment for them. *)
Definition check (c : case) : bool :=
  match c with
  | CIter consumer cfg manual pf ncalls retries script rows tags err reqs state =>
      let q := wire_q cfg in
      let mm := meta_mode_of cfg in
      let auto := match manual with Some _ => false | None => true end in
      let ps0 := match manual with Some s => s | None => [] end in
      let posf := prefetch_pos (fst pf) (snd pf) in
      let m0 := open q auto posf mm retries ps0 script in
      let tags_ok (l : list (Z * Z)) := match tags with Some t => zlist_eqb (map snd l) t | None => true end in
      let fin (outs : list (option (Z * Z))) (m ms : mach Z Z qobs) :=
        (* the harness waits for a spawned prefetch to land before it reads the node's log;
           [ms] is the machine whose Iter the harness calls PageState() on *)
        let m' := async q auto posf mm retries m in
        outs_eqb (map (option_map fst) outs) (outs_of rows ncalls) && tags_ok (somes outs)
        && opt_eqb Z.eqb (close m') err
        && reqs_eqb (m_reqs m') reqs && zlist_eqb (page_state ms) state in
      if consumer =? 0 then let '(outs, m) := calls (scan q auto posf mm retries) ncalls m0 in fin outs m m
      (* a Scanner advances its own pointer (is.iter), the Iter it was made from stays on page one *)
      else if consumer =? 1 then let '(outs, m) := calls (next q auto posf mm retries) ncalls m0 in fin outs m m0
      else if consumer =? 2 then let '(outs, m) := calls (map_scan q auto posf mm retries) ncalls m0 in fin outs m m
      else if consumer =? 3 then
        match slice_map q auto posf mm retries m0 with
        | Some (l, e, m) =>
            zlist_eqb (map fst l) rows && opt_eqb Z.eqb e err
            && reqs_eqb (m_reqs (async q auto posf mm retries m)) reqs && zlist_eqb (page_state m) state
        | None => false
        end
      else false
  end.

Definition run (cs : list case) : list N := mismatches check cs.
