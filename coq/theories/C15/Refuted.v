(* C15/Refuted.v -- an observation, not a finding.  "Request i+1 carries exactly the paging state page
   i carried" needs the hypothesis that the state is not empty: a page that says has_more_pages with
   a paging state of length 0 is followed by a request that carries *no* paging state at all
   (conn.go:1343 `if len(qry.pageState) > 0`, frame.go writeQueryParams `if len(opts.pagingState) >
   0`), i.e. by the first request again.  No server sends such a page (a paging state is an opaque
   non-empty token; the protocol gives a client no way to ask for "the page after the empty state"
   other than the first request), so this lies outside the property's quantifier; the model and the
   real code agree on it (the correspondence includes such scripts), and theorem
   C15_request_carries_previous_state states the non-empty-state assumption on the server. *)
From GocqlV Require Import Lib.Base C15.Model C15.Spec C15.Proofs2 C15.Proofs3.

Theorem C15_request_carries_previous_state_refuted :
  exists (pages : list (list Z * list Z * Z)) (fin : reply Z Z) (ls : list label),
    continues fin = false
    /\ Nat.lt (length (concat (map (page_rows UseServer) pages) ++ fin_rows UseServer fin)) (ncalls ls)
    /\ m_reqs (snd (sched 0 true (prefetch_pos 1 4) UseServer 0 (open 0 true (prefetch_pos 1 4) UseServer 0 [] (map (@more_page Z Z) pages ++ [fin])) ls))
       <> mkReq 0 None :: map (fun p => mkReq 0 (Some (snd (fst p)))) pages
    (* what is sent instead: the first request once more *)
    /\ m_reqs (snd (sched 0 true (prefetch_pos 1 4) UseServer 0 (open 0 true (prefetch_pos 1 4) UseServer 0 [] (map (@more_page Z Z) pages ++ [fin])) ls))
       = [mkReq 0 None; mkReq 0 None].
Proof.
  exists [([1; 2], [], 0)], (RPage [3] false [] 1), [LScan; LScan; LScan; LScan].
  split; [reflexivity|]. split; [vm_compute; lia|]. split; [vm_compute; discriminate|vm_compute; reflexivity].
Qed.
