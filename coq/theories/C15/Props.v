(* C15/Props.v -- the proof obligations for property C15 (paged iteration), and nothing else.

   Vocabulary (Model.v / Spec.v).  A *script* [s : list (reply R)] is the list of answers the
   server gives to the successive page requests of one query ([RPage rows more state], [RErr e],
   [RVoid], [RUnprep]); a request beyond the script is never answered and fails with [E_noreply].
   [open q auto posf ps s] is Query.Iter(): the Iter after the first page was fetched, for a query
   whose fixed part is [q], with automatic paging iff [auto], prefetch position function [posf]
   (any function: the theorems hold for every prefetch threshold) and caller-supplied page state
   [ps].  [scan] / [next] / [map_scan] are one call of Iter.Scan / Scanner.Next / Iter.MapScan
   (result None = the call returned false), [calls f k m] is k successive calls, [slice_map] is
   Iter.SliceMap, [close] is Iter.Close() = Scanner.Err(), [page_state] is Iter.PageState(),
   [m_reqs] the requests sent so far in order, [sched m ls] runs the consumer's calls interleaved
   with the asynchronous prefetch goroutine in the order [ls] ([ncalls ls] = number of consumer
   calls in it).  [spec_rows], [spec_end], [spec_states] (Spec.v) say which rows must be seen,
   how the iteration must end and which paging state each request must carry. *)
From GocqlV Require Import Lib.Base C15.Model C15.Spec C15.Proofs1 C15.Proofs2 C15.Proofs3 C15.Proofs4.

(* the request for the page after a page that carried paging state [st] *)
Definition req {Q} (q : Q) (st : list Z) : request Q := mkReq q (wire_ps st).
(* what k calls must return when the result set is [rows]: its first k rows, then `false` *)
Definition yields {R} (rows : list R) (k : nat) : list (option R) :=
  map Some (firstn k rows) ++ repeat None (k - length rows).

(* 1. Every row of every page exactly once, in server order, then false for ever: for each of the
      per-call consumers, every script (any number of pages, empty pages, empty last page, errors,
      UNPREPARED anywhere), every prefetch threshold and every number of calls. *)
Theorem C15_rows_in_order : forall R Q (q : Q) posf (s : list (reply R)) k,
  fst (calls (scan q true posf) k (open q true posf [] s)) = yields (spec_rows true s) k
  /\ fst (calls (next q true posf) k (open q true posf [] s)) = yields (spec_rows true s) k
  /\ fst (calls (map_scan q true posf) k (open q true posf [] s)) = yields (spec_rows true s) k.
Proof.
  intros. split; [|split].
  - exact (proj1 (consumer_calls q posf true (scan q true posf) true [] s k (fun m => eq_refl))).
  - exact (proj1 (consumer_calls q posf true (next q true posf) false [] s k (fun m => eq_refl))).
  - exact (proj1 (consumer_calls q posf true (map_scan q true posf) true [] s k (map_scan_scan q true posf))).
Qed.
Print Assumptions C15_rows_in_order.

(* 2. SliceMap returns all rows and no error, or no rows and the error; either way the requests it
      sent are exactly the specified ones. *)
Theorem C15_slice_map : forall R Q (q : Q) posf (s : list (reply R)),
  exists m', slice_map q true posf (open q true posf [] s)
             = Some (match spec_end true s with None => spec_rows true s | Some _ => [] end, spec_end true s, m')
    /\ m_reqs m' = map (req q) (spec_states true [] s).
Proof. intros. exact (slice_map_open q true posf [] s). Qed.
Print Assumptions C15_slice_map.

(* 3. A failed fetch surfaces as the iteration's error, never as an early normal end: once a call
      has returned false, Close()/Err() is the specified end; it is nil only if a page without
      has_more_pages (or a void result) was reached through pages that all had more, and it is e
      only if the server answered e (or did not answer) at that point. *)
Theorem C15_error_surfaces : forall R Q (q : Q) posf (s : list (reply R)) k call,
  (call = scan q true posf \/ call = next q true posf \/ call = map_scan q true posf) ->
  (length (spec_rows true s) < k)%nat ->
  let e := close (snd (calls call k (open q true posf [] s))) in
  e = spec_end true s
  /\ (e = None -> exists pre r post, s = pre ++ r :: post /\ forallb (@continues R) pre = true
                    /\ (r = RVoid R \/ exists rows st, r = RPage rows false st))
  /\ (forall c, e = Some c ->
        (exists pre post, s = pre ++ RErr R c :: post /\ forallb (@continues R) pre = true)
        \/ (c = E_noreply /\ forallb (@continues R) s = true)).
Proof.
  intros R Q q posf s k call Hc Hk e.
  assert (E : e = spec_end true s).
  { unfold e. destruct Hc as [Hc|[Hc|Hc]]; subst call.
    - exact (proj1 (proj2 (proj2 (consumer_calls q posf true (scan q true posf) true [] s k (fun m => eq_refl))) Hk)).
    - exact (proj1 (proj2 (proj2 (consumer_calls q posf true (next q true posf) false [] s k (fun m => eq_refl))) Hk)).
    - exact (proj1 (proj2 (proj2 (consumer_calls q posf true (map_scan q true posf) true [] s k (map_scan_scan q true posf))) Hk)). }
  split; [exact E|]. rewrite E. split; [apply spec_end_normal|apply spec_end_error].
Qed.
Print Assumptions C15_error_surfaces.

(* 4. The requests.  Under every schedule of the prefetch and after any number of calls, the
      requests sent are a prefix of the specified sequence (first the caller's state, then for each
      page with more pages exactly the state it carried, the same again after UNPREPARED, nothing
      after a last page / error / void), all built from the same [q]; and once a call has returned
      false they are exactly that sequence.  Same for a Scanner (which never prefetches). *)
Theorem C15_requests : forall R Q (q : Q) posf (s : list (reply R)) ls,
  let m := snd (sched q true posf (open q true posf [] s) ls) in
  (exists tl, map (req q) (spec_states true [] s) = m_reqs m ++ tl)
  /\ ((length (spec_rows true s) < ncalls ls)%nat -> m_reqs m = map (req q) (spec_states true [] s)).
Proof.
  intros R Q q posf s ls m. destruct (any_schedule q posf true [] s ls) as (_ & _ & A & B).
  split; [exact A|]. intro H. exact (proj2 (proj2 (B H))).
Qed.
Print Assumptions C15_requests.

Theorem C15_requests_scanner : forall R Q (q : Q) posf (s : list (reply R)) k,
  let m := snd (calls (next q true posf) k (open q true posf [] s)) in
  (exists tl, map (req q) (spec_states true [] s) = m_reqs m ++ tl)
  /\ ((length (spec_rows true s) < k)%nat -> m_reqs m = map (req q) (spec_states true [] s)).
Proof.
  intros R Q q posf s k m.
  destruct (consumer_calls q posf true (next q true posf) false [] s k (fun m => eq_refl)) as (_ & A & B).
  split; [exact A|]. intro H. exact (proj2 (B H)).
Qed.
Print Assumptions C15_requests_scanner.

(* 5. Said for a script that is n pages with more pages followed by an answer that is not one:
      the rows are the concatenation of the pages, and there are exactly n+1 requests -- the first
      without paging state, request i+1 with exactly the state of page i -- whatever follows in
      the script (no request after the page that says it is last).  Assumption on the server: the
      paging states it hands out are not empty (every server; a zero-length state with
      has_more_pages is outside the property's quantifier -- Refuted.v shows what the code does
      then: it sends no state, i.e. the first request again). *)
Theorem C15_request_carries_previous_state :
  forall R Q (q : Q) posf (pages : list (list R * list Z)) (fin : reply R) rest ls,
  continues fin = false ->
  Forall (fun p => snd p <> []) pages ->
  let s := map (@more_page R) pages ++ fin :: rest in
  let r := sched q true posf (open q true posf [] s) ls in
  (length (concat (map fst pages) ++ match fin with RPage rows _ _ => rows | _ => [] end) < ncalls ls)%nat ->
  fst r = yields (concat (map fst pages) ++ match fin with RPage rows _ _ => rows | _ => [] end) (ncalls ls)
  /\ m_reqs (snd r) = mkReq q None :: map (fun p => mkReq q (Some (snd p))) pages
  /\ close (snd r) = match fin with RErr _ e => Some e | _ => None end.
Proof.
  intros R Q q posf pages fin rest ls Hc Hst s r Hk.
  destruct (any_schedule q posf true [] s ls) as (A & _ & _ & B).
  unfold s in *. rewrite spec_rows_pages in * by exact Hc. split; [exact A|].
  destruct (B Hk) as (_ & B2 & B3). rewrite spec_end_pages in B2 by exact Hc. split; [|exact B2].
  fold r in B3. rewrite B3, spec_states_pages by exact Hc. cbn [map]. f_equal.
  rewrite map_map. apply map_ext_in. intros p Hp. rewrite Forall_forall in Hst. specialize (Hst p Hp).
  unfold mk, wire_ps. destruct (snd p); [congruence|reflexivity].
Qed.
Print Assumptions C15_request_carries_previous_state.

(* 6. The number of requests never exceeds one plus the number of leading answers that keep the
      iteration going -- under any schedule, whatever the consumer does. *)
Theorem C15_no_request_after_last_page : forall R Q (q : Q) posf (s : list (reply R)) ls,
  (length (m_reqs (snd (sched q true posf (open q true posf [] s) ls))) <= S (length (leading s)))%nat.
Proof.
  intros. destruct (any_schedule q posf true [] s ls) as (_ & _ & [tl A] & _).
  apply (f_equal (@length _)) in A. rewrite map_length, app_length, spec_states_length in A. lia.
Qed.
Print Assumptions C15_no_request_after_last_page.

(* 7. Manual paging (Query.PageState(ps)): under every schedule and after any number of calls,
      exactly one page request was sent (repeated only for UNPREPARED), with the caller's state;
      the rows are those of that one page; PageState() exposes the state the page carried (empty =
      no more pages); a failed fetch is the error. *)
Theorem C15_manual_paging : forall R Q (q : Q) posf ps (s : list (reply R)) ls,
  let r := sched q false posf (open q false posf ps s) ls in
  fst r = yields (match first_answer s with Some (RPage rows _ _) => rows | _ => [] end) (ncalls ls)
  /\ m_reqs (snd r) = repeat (req q ps) (S (unpreps s))
  /\ (forall rows more st, first_answer s = Some (RPage rows more st) ->
        page_state (snd r) = (if more then st else []) /\ close (snd r) = None)
  /\ (forall e, first_answer s = Some (RErr R e) -> close (snd r) = Some e)
  /\ (first_answer s = None -> close (snd r) = Some E_noreply).
Proof. intros. exact (manual_any_schedule q posf ps s ls). Qed.
Print Assumptions C15_manual_paging.

(* 8. The asynchronous prefetch cannot be observed.  For every schedule: the consumer's calls
      return what they return with no prefetch at all; once a spawned prefetch has landed the whole
      state equals that of the prefetch-free run; and after a call has returned false the states
      are equal as they are.  (Both paging modes, any caller state.) *)
Theorem C15_prefetch_irrelevant : forall R Q (q : Q) auto posf ps (s : list (reply R)) ls,
  let m0 := open q auto posf ps s in
  let r := sched q auto posf m0 ls in
  let c := calls (scan q auto posf) (ncalls ls) m0 in
  fst r = fst c
  /\ async q auto posf (snd r) = async q auto posf (snd c)
  /\ ((length (spec_rows auto s) < ncalls ls)%nat -> snd r = snd c).
Proof.
  intros R Q q auto posf ps s ls m0 r c.
  destruct (any_schedule q posf auto ps s ls) as (A & B & _ & C).
  split; [|split; [exact B|intro H; exact (proj1 (C H))]].
  fold m0 in A. fold r in A. rewrite A.
  symmetry. exact (proj1 (consumer_calls q posf auto (scan q auto posf) true ps s (ncalls ls) (fun m => eq_refl))).
Qed.
Print Assumptions C15_prefetch_irrelevant.

(* 9. The recursion fuel of Scan / Next (Model.scan_go; the Go code recurses after a page switch) is
      never used up: more fuel changes nothing, so no statement above holds "because fuel ran out"
      (the out-of-fuel result would be the distinct error [E_fuel]). *)
Theorem C15_fuel_never_runs_out : forall R Q (q : Q) auto posf pre (m : mach R Q) extra,
  scan_go q auto posf pre (mu m + 2 + extra) m = scan_go q auto posf pre (mu m + 2) m.
Proof.
  intros. apply scan_go_fuel; [|apply enough_mu]. unfold enough. split; intros; lia.
Qed.
Print Assumptions C15_fuel_never_runs_out.

(* ---- non-vacuity: the hypotheses are satisfiable by non-trivial values ------------------------- *)
Example C15_nonvacuous :
  let pages := [([10; 11; 12], [7; 7]); ([], [8]); ([20], [9; 9; 9])] in
  let fin := RPage [30; 31] false [] in
  let s := map (@more_page Z) pages ++ fin :: [RPage [99] false []] in
  let ls := [LScan; LScan; LScan; LAsync; LMapScan; LScan; LAsync; LMapScan; LScan; LScan] in
  continues fin = false /\ Forall (fun p => snd p <> []) pages
  /\ Nat.lt (length (concat (map fst pages) ++ [30; 31])) (ncalls ls)
  /\ fst (sched 5 true (prefetch_pos 1 4) (open 5 true (prefetch_pos 1 4) [] s) ls)
     = [Some 10; Some 11; Some 12; Some 20; Some 30; Some 31; None; None]
  /\ m_reqs (snd (sched 5 true (prefetch_pos 1 4) (open 5 true (prefetch_pos 1 4) [] s) ls))
     = [mkReq 5 None; mkReq 5 (Some [7; 7]); mkReq 5 (Some [8]); mkReq 5 (Some [9; 9; 9])]
  (* the prefetch really fires: the third Scan spawns it, and once it has run page two is requested *)
  /\ length (m_reqs (snd (sched 5 true (prefetch_pos 1 4) (open 5 true (prefetch_pos 1 4) [] s) [LScan; LScan; LScan; LAsync]))) = 2%nat
  /\ length (m_reqs (snd (sched 5 true (prefetch_pos 1 4) (open 5 true (prefetch_pos 1 4) [] s) [LScan; LScan; LScan]))) = 1%nat.
Proof.
  cbv zeta. split; [reflexivity|]. split; [repeat constructor; discriminate|].
  split; [vm_compute; lia|]. repeat split; vm_compute; reflexivity.
Qed.

(* an error in the middle, and manual paging *)
Example C15_nonvacuous_error :
  let s := [RPage [1; 2] true [4]; RUnprep Z; RErr Z 4608; RPage [3] false []] in
  Nat.lt (length (spec_rows true s)) 4
  /\ fst (calls (next 0 true (prefetch_pos 1 4)) 4 (open 0 true (prefetch_pos 1 4) [] s)) = [Some 1; Some 2; None; None]
  /\ close (snd (calls (next 0 true (prefetch_pos 1 4)) 4 (open 0 true (prefetch_pos 1 4) [] s))) = Some 4608
  /\ m_reqs (snd (calls (next 0 true (prefetch_pos 1 4)) 4 (open 0 true (prefetch_pos 1 4) [] s)))
     = [mkReq 0 None; mkReq 0 (Some [4]); mkReq 0 (Some [4])]
  /\ first_answer s = Some (RPage [1; 2] true [4])
  /\ page_state (snd (sched 0 false (prefetch_pos 1 4) (open 0 false (prefetch_pos 1 4) [6] s) [LScan; LScan; LScan])) = [4]
  /\ m_reqs (snd (sched 0 false (prefetch_pos 1 4) (open 0 false (prefetch_pos 1 4) [6] s) [LScan; LScan; LScan])) = [mkReq 0 (Some [6])].
Proof. cbv zeta. split; [vm_compute; lia|]. repeat split; vm_compute; reflexivity. Qed.
