(* C15/Props.v -- the proof obligations for property C15 (paged iteration), and nothing else.

   Vocabulary (Model.v / Spec.v).  A *script* [s : list (reply R)] is the list of answers the
   server gives to the successive page requests of one query ([RPage rows more state], [RErr e],
   [RVoid], [RUnprep]); a request beyond the script is never answered and fails with [E_noreply].
   [RPage rows more state mt] carries the result metadata [mt] the server sent with the page.
   [open q auto posf mm nr ps s] is Query.Iter(): the Iter after the first page was fetched, for a
   query whose fixed part is [q], with automatic paging iff [auto], prefetch position function
   [posf] (any function: the theorems hold for every prefetch threshold), metadata mode [mm]
   ([UsePrepared pm]: prepared statement executed with skip_metadata, [UseServer] otherwise), a
   retry policy that retries a failed fetch up to [nr] times per page (0 = none, the default) and
   caller-supplied page state [ps].  A delivered row is a pair (row, metadata it was decoded with).  [scan] / [next] / [map_scan] are one call of Iter.Scan / Scanner.Next / Iter.MapScan
   (result None = the call returned false), [calls f k m] is k successive calls, [slice_map] is
   Iter.SliceMap, [close] is Iter.Close() = Scanner.Err(), [page_state] is Iter.PageState(),
   [m_reqs] the requests sent so far in order, [sched m ls] runs the consumer's calls interleaved
   with the asynchronous prefetch goroutine in the order [ls] ([ncalls ls] = number of consumer
   calls in it).  [spec_rows], [spec_end], [spec_states] (Spec.v) say which rows must be seen,
   how the iteration must end and which paging state each request must carry. *)
From GocqlV Require Import Lib.Base C15.Model C15.Spec C15.Proofs1 C15.Proofs2 C15.Proofs3 C15.Proofs4 C15.Proofs5.

(* the request for the page after a page that carried paging state [st] *)
Definition req {Q} (q : Q) (st : list Z) : request Q := mkReq q (wire_ps st).
(* what k calls must return when the result set is [rows]: its first k rows, then `false` *)
Definition yields {A} (rows : list A) (k : nat) : list (option A) :=
  map Some (firstn k rows) ++ repeat None (k - length rows).

(* 1. Every row of every page exactly once, in server order, each decoded with the specified
      metadata, then false for ever: for each of the per-call consumers, every script (any number of
      pages, empty pages, empty last page, errors, UNPREPARED anywhere), every prefetch threshold,
      metadata mode, retry budget and number of calls. *)
Theorem C15_rows_in_order : forall R M Q (q : Q) posf mm nr (s : list (reply R M)) k,
  fst (calls (scan q true posf mm nr) k (open q true posf mm nr [] s)) = yields (spec_rows true mm nr nr s) k
  /\ fst (calls (next q true posf mm nr) k (open q true posf mm nr [] s)) = yields (spec_rows true mm nr nr s) k
  /\ fst (calls (map_scan q true posf mm nr) k (open q true posf mm nr [] s)) = yields (spec_rows true mm nr nr s) k.
Proof.
  intros. split; [|split].
  - exact (proj1 (consumer_calls q posf mm nr true (scan q true posf mm nr) true [] s k (fun m => eq_refl))).
  - exact (proj1 (consumer_calls q posf mm nr true (next q true posf mm nr) false [] s k (fun m => eq_refl))).
  - exact (proj1 (consumer_calls q posf mm nr true (map_scan q true posf mm nr) true [] s k (map_scan_scan q true posf mm nr))).
Qed.
Print Assumptions C15_rows_in_order.

(* 1b. Which metadata: a prepared statement executed with skip_metadata decodes every page with the
      metadata of its PREPARE result; otherwise every row is decoded with the metadata of the very
      page it arrived in.  (Every delivered row, any consumer call sequence.) *)
Theorem C15_metadata_used : forall R M Q (q : Q) posf nr (s : list (reply R M)) k r m,
  (forall pm, In (Some (r, m)) (fst (calls (scan q true posf (UsePrepared pm) nr) k (open q true posf (UsePrepared pm) nr [] s))) -> m = pm)
  /\ (In (Some (r, m)) (fst (calls (scan q true posf UseServer nr) k (open q true posf UseServer nr [] s))) ->
      exists rows more st, In (RPage rows more st m) s /\ In r rows).
Proof.
  intros R M Q q posf nr s k r m.
  assert (X : forall mm, In (Some (r, m)) (fst (calls (scan q true posf mm nr) k (open q true posf mm nr [] s))) ->
                         In (r, m) (spec_rows true mm nr nr s)).
  { intros mm H. rewrite (proj1 (C15_rows_in_order R M Q q posf mm nr s k)) in H. unfold yields in H.
    apply in_app_or in H. destruct H as [H|H].
    - apply in_map_iff in H. destruct H as (d & E & Hd). inversion E; subst. eapply In_firstn; eauto.
    - apply repeat_spec in H. discriminate. }
  split.
  - intros pm H. pose proof (spec_rows_prepared_meta true pm nr s nr) as F. rewrite Forall_forall in F.
    exact (F _ (X _ H)).
  - intro H. exact (spec_rows_server_meta true nr s nr r m (X _ H)).
Qed.
Print Assumptions C15_metadata_used.

(* 2. SliceMap returns all rows and no error, or no rows and the error; either way the requests it
      sent are exactly the specified ones -- and this is so however the prefetch goroutine is
      scheduled between the Scan calls of its loop ([fires]). *)
Theorem C15_slice_map : forall R M Q (q : Q) posf mm nr (s : list (reply R M)) fires,
  exists m', slice_map_sched q true posf mm nr (open q true posf mm nr [] s) fires
             = Some (match spec_end true nr nr s with None => spec_rows true mm nr nr s | Some _ => [] end, spec_end true nr nr s, m')
    /\ m_reqs m' = map (req q) (spec_states true nr nr [] s)
    /\ slice_map q true posf mm nr (open q true posf mm nr [] s) = slice_map_sched q true posf mm nr (open q true posf mm nr [] s) fires.
Proof.
  intros. destruct (slice_map_open q true posf mm nr [] s) as (m' & A & B). exists m'.
  rewrite slice_map_any_schedule. split; [exact A|split; [exact B|reflexivity]].
Qed.
Print Assumptions C15_slice_map.

(* 3. A failed fetch surfaces as the iteration's error, never as an early normal end: once a call
      has returned false, Close()/Err() is the specified end (with a retry policy: the error of the
      last retry) ... *)
Theorem C15_error_surfaces : forall R M Q (q : Q) posf mm nr (s : list (reply R M)) k call,
  (call = scan q true posf mm nr \/ call = next q true posf mm nr \/ call = map_scan q true posf mm nr) ->
  (length (spec_rows true mm nr nr s) < k)%nat ->
  close (snd (calls call k (open q true posf mm nr [] s))) = spec_end true nr nr s.
Proof.
  intros R M Q q posf mm nr s k call Hc Hk. destruct Hc as [Hc|[Hc|Hc]]; subst call.
  - exact (proj1 (proj2 (proj2 (consumer_calls q posf mm nr true (scan q true posf mm nr) true [] s k (fun m => eq_refl))) Hk)).
  - exact (proj1 (proj2 (proj2 (consumer_calls q posf mm nr true (next q true posf mm nr) false [] s k (fun m => eq_refl))) Hk)).
  - exact (proj1 (proj2 (proj2 (consumer_calls q posf mm nr true (map_scan q true posf mm nr) true [] s k (map_scan_scan q true posf mm nr))) Hk)).
Qed.
Print Assumptions C15_error_surfaces.

(* 3b. ... and, without a retry policy, that end is nil only if a page without has_more_pages (or a
      void result) was reached through pages that all had more, and it is e only if the server
      answered e (or did not answer) at that point. *)
Theorem C15_end_is_what_the_server_said : forall R M (s : list (reply R M)),
  (spec_end true 0 0 s = None -> exists pre r post, s = pre ++ r :: post /\ forallb (@continues R M) pre = true
                    /\ (r = RVoid R M \/ exists rows st mt, r = RPage rows false st mt))
  /\ (forall c, spec_end true 0 0 s = Some c ->
        (exists pre post, s = pre ++ RErr R M c :: post /\ forallb (@continues R M) pre = true)
        \/ (c = E_noreply /\ forallb (@continues R M) s = true)).
Proof. intros. split; [apply spec_end_normal|apply spec_end_error]. Qed.
Print Assumptions C15_end_is_what_the_server_said.

(* 3c. With a retry policy, errors that are retried are invisible: rows and end are those of the
      script in which every retried error reads "the same request again" (like UNPREPARED). *)
Theorem C15_retried_errors_invisible : forall R M mm (s : list (reply R M)) auto nr,
  spec_rows auto mm nr nr s = spec_rows auto mm 0 0 (retried nr nr s)
  /\ spec_end auto nr nr s = spec_end auto 0 0 (retried nr nr s).
Proof. intros. apply spec_retried. Qed.
Print Assumptions C15_retried_errors_invisible.

(* 4. The requests.  Under every schedule of the prefetch and after any number of calls, the
      requests sent are a prefix of the specified sequence (first the caller's state, then for each
      page with more pages exactly the state it carried, the same again after UNPREPARED and after
      a failure that is retried, nothing after a last page / final error / void), all built from the
      same [q]; and once a call has returned false they are exactly that sequence. *)
Theorem C15_requests : forall R M Q (q : Q) posf mm nr (s : list (reply R M)) ls,
  let m := snd (sched q true posf mm nr (open q true posf mm nr [] s) ls) in
  (exists tl, map (req q) (spec_states true nr nr [] s) = m_reqs m ++ tl)
  /\ ((length (spec_rows true mm nr nr s) < ncalls ls)%nat -> m_reqs m = map (req q) (spec_states true nr nr [] s)).
Proof.
  intros R M Q q posf mm nr s ls m. destruct (any_schedule q posf mm nr true [] s ls) as (_ & _ & A & B).
  split; [exact A|]. intro H. exact (proj2 (proj2 (B H))).
Qed.
Print Assumptions C15_requests.

(* 4b. Same for a Scanner (which never prefetches). *)
Theorem C15_requests_scanner : forall R M Q (q : Q) posf mm nr (s : list (reply R M)) k,
  let m := snd (calls (next q true posf mm nr) k (open q true posf mm nr [] s)) in
  (exists tl, map (req q) (spec_states true nr nr [] s) = m_reqs m ++ tl)
  /\ ((length (spec_rows true mm nr nr s) < k)%nat -> m_reqs m = map (req q) (spec_states true nr nr [] s)).
Proof.
  intros R M Q q posf mm nr s k m.
  destruct (consumer_calls q posf mm nr true (next q true posf mm nr) false [] s k (fun m => eq_refl)) as (_ & A & B).
  split; [exact A|]. intro H. exact (proj2 (B H)).
Qed.
Print Assumptions C15_requests_scanner.

(* 5. Said for a script that is n pages with more pages followed by an answer that is not one, no
      retry policy: the rows are the concatenation of the pages, and there are exactly n+1 requests
      -- the first without paging state, request i+1 with exactly the state of page i -- whatever
      follows in the script (no request after the page that says it is last).  Assumption on the
      server: the paging states it hands out are not empty (every server; a zero-length state with
      has_more_pages is outside the property's quantifier -- Refuted.v shows what the code does
      then: it sends no state, i.e. the first request again). *)
Theorem C15_request_carries_previous_state :
  forall R M Q (q : Q) posf mm (pages : list (list R * list Z * M)) (fin : reply R M) rest ls,
  continues fin = false ->
  Forall (fun p => snd (fst p) <> []) pages ->
  let s := map (@more_page R M) pages ++ fin :: rest in
  let r := sched q true posf mm 0 (open q true posf mm 0 [] s) ls in
  (length (concat (map (page_rows mm) pages) ++ fin_rows mm fin) < ncalls ls)%nat ->
  fst r = yields (concat (map (page_rows mm) pages) ++ fin_rows mm fin) (ncalls ls)
  /\ m_reqs (snd r) = mkReq q None :: map (fun p => mkReq q (Some (snd (fst p)))) pages
  /\ close (snd r) = match fin with RErr _ _ e => Some e | _ => None end.
Proof.
  intros R M Q q posf mm pages fin rest ls Hc Hst s r Hk.
  destruct (any_schedule q posf mm 0 true [] s ls) as (A & _ & _ & B).
  unfold s in *. rewrite spec_rows_pages in * by exact Hc. split; [exact A|].
  destruct (B Hk) as (_ & B2 & B3). rewrite spec_end_pages in B2 by exact Hc. split; [|exact B2].
  fold r in B3. rewrite B3, spec_states_pages by exact Hc. cbn [map]. f_equal.
  rewrite map_map. apply map_ext_in. intros p Hp. rewrite Forall_forall in Hst. specialize (Hst p Hp).
  unfold mk, wire_ps. destruct (snd (fst p)); [congruence|reflexivity].
Qed.
Print Assumptions C15_request_carries_previous_state.

(* 6. Without a retry policy the number of requests never exceeds one plus the number of leading
      answers that keep the iteration going -- under any schedule, whatever the consumer does. *)
Theorem C15_no_request_after_last_page : forall R M Q (q : Q) posf mm (s : list (reply R M)) ls,
  (length (m_reqs (snd (sched q true posf mm 0 (open q true posf mm 0 [] s) ls))) <= S (length (leading s)))%nat.
Proof.
  intros. destruct (any_schedule q posf mm 0 true [] s ls) as (_ & _ & [tl A] & _).
  apply (f_equal (@length _)) in A. rewrite map_length, app_length, spec_states_length in A. lia.
Qed.
Print Assumptions C15_no_request_after_last_page.

(* 7. Manual paging (Query.PageState(ps)), no retry policy: under every schedule and after any
      number of calls, exactly one page request was sent (repeated only for UNPREPARED), with the
      caller's state; the rows are those of that one page; PageState() exposes the state the page
      carried (empty = no more pages); a failed fetch is the error. *)
Theorem C15_manual_paging : forall R M Q (q : Q) posf mm ps (s : list (reply R M)) ls,
  let r := sched q false posf mm 0 (open q false posf mm 0 ps s) ls in
  fst r = yields (match first_answer s with Some a => fin_rows mm a | None => [] end) (ncalls ls)
  /\ m_reqs (snd r) = repeat (req q ps) (S (unpreps s))
  /\ (forall rows more st mt, first_answer s = Some (RPage rows more st mt) ->
        page_state (snd r) = (if more then st else []) /\ close (snd r) = None)
  /\ (forall e, first_answer s = Some (RErr R M e) -> close (snd r) = Some e)
  /\ (first_answer s = None -> close (snd r) = Some E_noreply).
Proof. intros. exact (manual_any_schedule q posf mm ps s ls). Qed.
Print Assumptions C15_manual_paging.

(* 8. The asynchronous prefetch cannot be observed.  For every schedule: the consumer's calls
      (Scan and MapScan in any mix) return what they return with no prefetch at all; once a spawned
      prefetch has landed the whole state equals that of the prefetch-free run; and after a call
      has returned false the states are equal as they are.  (Both paging modes, any caller state,
      metadata mode and retry budget; SliceMap's loop: theorem 2.) *)
Theorem C15_prefetch_irrelevant : forall R M Q (q : Q) auto posf mm nr ps (s : list (reply R M)) ls,
  let m0 := open q auto posf mm nr ps s in
  let r := sched q auto posf mm nr m0 ls in
  let c := calls (scan q auto posf mm nr) (ncalls ls) m0 in
  fst r = fst c
  /\ async q auto posf mm nr (snd r) = async q auto posf mm nr (snd c)
  /\ ((length (spec_rows auto mm nr nr s) < ncalls ls)%nat -> snd r = snd c).
Proof.
  intros R M Q q auto posf mm nr ps s ls m0 r c.
  destruct (any_schedule q posf mm nr auto ps s ls) as (A & B & _ & C).
  split; [|split; [exact B|intro H; exact (proj1 (C H))]].
  fold m0 in A. fold r in A. rewrite A.
  symmetry. exact (proj1 (consumer_calls q posf mm nr auto (scan q auto posf mm nr) true ps s (ncalls ls) (fun m => eq_refl))).
Qed.
Print Assumptions C15_prefetch_irrelevant.

(* 9. The recursion fuel of Scan / Next (Model.scan_go; the Go code recurses after a page switch) is
      never used up: more fuel changes nothing, so no statement above holds "because fuel ran out"
      (the out-of-fuel result would be the distinct error [E_fuel]). *)
Theorem C15_fuel_never_runs_out : forall R M Q (q : Q) auto posf mm nr pre (m : mach R M Q) extra,
  scan_go q auto posf mm nr pre (mu m + 2 + extra) m = scan_go q auto posf mm nr pre (mu m + 2) m.
Proof.
  intros. apply scan_go_fuel; [|apply enough_mu]. unfold enough. split; intros; lia.
Qed.
Print Assumptions C15_fuel_never_runs_out.

(* 10. "... and otherwise the same statement, values and options" although the caller goes on using
      its *Query.  A program on one handle is any list of: overwrite the handle ([HSet]: re-bind,
      change options, Release and reuse), start an iterator from it ([HIter]), one step of iterator
      number j ([HStep j]: a consumer call or its prefetch goroutine).  For every program, the
      iterator started at any point of it has, at the end, exactly the outputs and the state
      (hence the requests, theorem 4) of running alone -- the steps addressed to it, in order --
      with the configuration the handle had at its Iter() call: nothing done to the handle
      afterwards, and no other iterator made from it, reaches it. *)
Theorem C15_handle_reuse : forall R M Q (h0 : qconf M Q) (pre post : list (hop R M Q)) (srv : list (reply R M)),
  let h1 := fst (hrun (h0, []) pre) in
  let j := length (snd (hrun (h0, []) pre)) in
  nth_error (snd (hrun (h0, []) (pre ++ @HIter R M Q srv :: post))) j
  = Some (mkItr h1 (snd (c_sched h1 (c_open h1 srv) (labels_for j post)))
                   (fst (c_sched h1 (c_open h1 srv) (labels_for j post)))).
Proof. exact handle_reuse. Qed.
Print Assumptions C15_handle_reuse.

(* ---- non-vacuity: the hypotheses are satisfiable by non-trivial values ------------------------- *)
Example C15_nonvacuous :
  let pages := [([10; 11; 12], [7; 7], 100); ([], [8], 101); ([20], [9; 9; 9], 102)] in
  let fin := RPage [30; 31] false [] 103 in
  let s := map (@more_page Z Z) pages ++ fin :: [RPage [99] false [] 104] in
  let ls := [LScan; LScan; LScan; LAsync; LMapScan; LScan; LAsync; LMapScan; LScan; LScan] in
  let mm := UsePrepared 55 in
  continues fin = false /\ Forall (fun p => snd (fst p) <> []) pages
  /\ Nat.lt (length (concat (map (page_rows mm) pages) ++ fin_rows mm fin)) (ncalls ls)
  /\ fst (sched 5 true (prefetch_pos 1 4) mm 0 (open 5 true (prefetch_pos 1 4) mm 0 [] s) ls)
     = [Some (10, 55); Some (11, 55); Some (12, 55); Some (20, 55); Some (30, 55); Some (31, 55); None; None]
  /\ map (fun o => match o with Some d => snd d | None => 0 end)
         (fst (sched 5 true (prefetch_pos 1 4) UseServer 0 (open 5 true (prefetch_pos 1 4) UseServer 0 [] s) ls))
     = [100; 100; 100; 102; 103; 103; 0; 0]
  /\ m_reqs (snd (sched 5 true (prefetch_pos 1 4) mm 0 (open 5 true (prefetch_pos 1 4) mm 0 [] s) ls))
     = [mkReq 5 None; mkReq 5 (Some [7; 7]); mkReq 5 (Some [8]); mkReq 5 (Some [9; 9; 9])]
  (* the prefetch really fires: the third Scan spawns it, and once it has run page two is requested *)
  /\ length (m_reqs (snd (sched 5 true (prefetch_pos 1 4) mm 0 (open 5 true (prefetch_pos 1 4) mm 0 [] s) [LScan; LScan; LScan; LAsync]))) = 2%nat
  /\ length (m_reqs (snd (sched 5 true (prefetch_pos 1 4) mm 0 (open 5 true (prefetch_pos 1 4) mm 0 [] s) [LScan; LScan; LScan]))) = 1%nat.
Proof.
  cbv zeta. split; [reflexivity|]. split; [repeat constructor; discriminate|].
  split; [vm_compute; lia|]. repeat split; vm_compute; reflexivity.
Qed.

(* an error in the middle (surfacing without a retry policy, invisible with one), and manual paging *)
Example C15_nonvacuous_error :
  let s := [RPage [1; 2] true [4] 7; RUnprep Z Z; RErr Z Z 4608; RPage [3] false [] 8] in
  let P := prefetch_pos 1 4 in
  Nat.lt (length (spec_rows true UseServer 0 0 s)) 4
  /\ fst (calls (next 0 true P UseServer 0) 4 (open 0 true P UseServer 0 [] s)) = [Some (1, 7); Some (2, 7); None; None]
  /\ close (snd (calls (next 0 true P UseServer 0) 4 (open 0 true P UseServer 0 [] s))) = Some 4608
  /\ m_reqs (snd (calls (next 0 true P UseServer 0) 4 (open 0 true P UseServer 0 [] s)))
     = [mkReq 0 None; mkReq 0 (Some [4]); mkReq 0 (Some [4])]
  /\ fst (calls (next 0 true P UseServer 1) 5 (open 0 true P UseServer 1 [] s)) = [Some (1, 7); Some (2, 7); Some (3, 8); None; None]
  /\ close (snd (calls (next 0 true P UseServer 1) 5 (open 0 true P UseServer 1 [] s))) = None
  /\ m_reqs (snd (calls (next 0 true P UseServer 1) 5 (open 0 true P UseServer 1 [] s)))
     = [mkReq 0 None; mkReq 0 (Some [4]); mkReq 0 (Some [4]); mkReq 0 (Some [4])]
  /\ first_answer s = Some (RPage [1; 2] true [4] 7)
  /\ page_state (snd (sched 0 false P UseServer 0 (open 0 false P UseServer 0 [6] s) [LScan; LScan; LScan])) = [4]
  /\ m_reqs (snd (sched 0 false P UseServer 0 (open 0 false P UseServer 0 [6] s) [LScan; LScan; LScan])) = [mkReq 0 (Some [6])].
Proof. cbv zeta. split; [vm_compute; lia|]. repeat split; vm_compute; reflexivity. Qed.

(* two iterators from one handle, re-bound in between and read side by side: each requests its
   following pages with its own query *)
Example C15_nonvacuous_handle :
  let P := prefetch_pos 1 4 in
  let hA : qconf Z Z := mkConf 1 true P UseServer 0 [] in
  let hB : qconf Z Z := mkConf 2 true P UseServer 0 [] in
  let sA := [RPage [10; 11] true [7] 0; RPage [12] false [] 1] in
  let sB := [RPage [20] true [8] 0; RPage [21; 22] false [] 1] in
  let prog := [@HIter Z Z Z sA; @HSet Z Z Z hB; @HIter Z Z Z sB; @HStep Z Z Z 0 LScan; @HStep Z Z Z 1 LScan; @HStep Z Z Z 0 LScan; @HStep Z Z Z 1 LScan;
               @HStep Z Z Z 0 LScan; @HStep Z Z Z 1 LScan; @HStep Z Z Z 0 LScan; @HStep Z Z Z 1 LScan; @HStep Z Z Z 1 LScan] in
  map (fun it => (it_outs it, m_reqs (it_mach it))) (snd (hrun (hA, []) prog))
  = [([Some (10, 0); Some (11, 0); Some (12, 1); None], [mkReq 1 None; mkReq 1 (Some [7])]);
     ([Some (20, 0); Some (21, 1); Some (22, 1); None; None], [mkReq 2 None; mkReq 2 (Some [8])])].
Proof. vm_compute. reflexivity. Qed.
