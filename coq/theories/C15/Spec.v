(* C15/Spec.v -- what paged iteration has to deliver, written from the property text and the
   native-protocol specification (section 8, "Result paging": a result with the Has_more_pages flag
   carries a paging state; a client that wants the next page re-issues *the same query* with that
   paging state; a result without the flag is the last page) -- not from the Go code.

   The server is the list of its answers to the successive requests of one query (type [reply]
   from Model.v, shared vocabulary only).  The specification says, for such a list,
     - which rows the application must see, in which order, and decoded with which
       result metadata                                         [spec_rows]
     - how the iteration must end                               [spec_end]
     - which paging state each request must carry               [spec_states]
   [auto] = false is manual paging (the caller supplied a page state): one page only. *)
From GocqlV Require Import Lib.Base C15.Model.

Set Implicit Arguments.

Section Spec.
Variable R M : Type.

Notation reply := (reply R M).

(* the metadata a page must be decoded with: the server's own, unless the request told the server
   to leave it out (skip_metadata, protocol section 4.1.4: "the client already has it from the
   PREPARE result") -- then the prepared statement's *)
Definition spec_meta (mm : meta_mode M) (mt : M) : M :=
  match mm with UsePrepared pm => pm | UseServer => mt end.

(* rows: those of every page in order, each with the metadata its page is decoded with, up to and
   including the first page that is not followed by another one; an answer that is not a page ends
   the rows, except that UNPREPARED is not an answer to the page request at all (the request is
   repeated) and neither is an error while the retry policy still has retries left for this page
   ([n] per page, [left] for the current one) *)
Fixpoint spec_rows (auto : bool) (mm : meta_mode M) (n left : nat) (s : list reply) : list (R * M) :=
  match s with
  | RPage rows more _ mt :: t =>
      map (fun r => (r, spec_meta mm mt)) rows ++ (if more && auto then spec_rows auto mm n n t else [])
  | RUnprep _ _ :: t => spec_rows auto mm n left t
  | RErr _ _ _ :: t => match left with S l => spec_rows auto mm n l t | O => [] end
  | _ => []
  end.

(* the end: None = normal end of the result set, Some e = the iteration's error *)
Fixpoint spec_end (auto : bool) (n left : nat) (s : list reply) : option Z :=
  match s with
  | [] => Some E_noreply                              (* a request that is never answered fails *)
  | RPage _ more _ _ :: t => if more && auto then spec_end auto n n t else None
  | RUnprep _ _ :: t => spec_end auto n left t
  | RErr _ _ e :: t => match left with S l => spec_end auto n l t | O => Some e end
  | RVoid _ _ :: _ => None
  end.

(* the paging state of every request, in order: the caller's for the first (empty = none), then for
   each page that has more pages the state that page carried; after UNPREPARED and after a retried
   failure the same one again; nothing after a last page, a final error, or a void result *)
Fixpoint spec_states (auto : bool) (n left : nat) (ps : list Z) (s : list reply) : list (list Z) :=
  ps :: match s with
        | RPage _ more st _ :: t => if more && auto then spec_states auto n n st t else []
        | RUnprep _ _ :: t => spec_states auto n left ps t
        | RErr _ _ _ :: t => match left with S l => spec_states auto n l ps t | O => [] end
        | RVoid _ _ :: _ => []
        | [] => repeat ps left                        (* every retry of an unanswered request *)
        end.

(* ---- the same, said directly for the two modes without retries (used to state theorems readably) *)

(* answers that keep an automatic iteration without retry policy going *)
Definition continues (r : reply) : bool :=
  match r with RPage _ true _ _ => true | RUnprep _ _ => true | _ => false end.

(* the leading answers that keep it going *)
Fixpoint leading (s : list reply) : list reply :=
  match s with
  | r :: t => if continues r then r :: leading t else []
  | [] => []
  end.

(* manual paging: the first answer that is not UNPREPARED *)
Fixpoint first_answer (s : list reply) : option reply :=
  match s with
  | RUnprep _ _ :: t => first_answer t
  | r :: _ => Some r
  | [] => None
  end.
Fixpoint unpreps (s : list reply) : nat :=
  match s with RUnprep _ _ :: t => S (unpreps t) | _ => O end.

(* has_more pages carry a non-empty paging state (what every real server does) *)
Definition state_ok (r : reply) : Prop :=
  match r with RPage _ true st _ => st <> [] | _ => True end.

End Spec.
