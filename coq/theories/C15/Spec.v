(* C15/Spec.v -- what paged iteration has to deliver, written from the property text and the
   native-protocol specification (section 8, "Result paging": a result with the Has_more_pages flag
   carries a paging state; a client that wants the next page re-issues *the same query* with that
   paging state; a result without the flag is the last page) -- not from the Go code.

   The server is the list of its answers to the successive requests of one query (type [reply]
   from Model.v, shared vocabulary only).  The specification says, for such a list,
     - which rows the application must see, in which order      [spec_rows]
     - how the iteration must end                               [spec_end]
     - which paging state each request must carry               [spec_states]
   [auto] = false is manual paging (the caller supplied a page state): one page only. *)
From GocqlV Require Import Lib.Base C15.Model.

Set Implicit Arguments.

Section Spec.
Variable R : Type.

(* rows: those of every page in order, up to and including the first page that is not followed by
   another one; an answer that is not a page ends the rows (UNPREPARED is not an answer to the page
   request at all: the request is repeated) *)
Fixpoint spec_rows (auto : bool) (s : list (reply R)) : list R :=
  match s with
  | RPage rows more _ :: t => rows ++ (if more && auto then spec_rows auto t else [])
  | RUnprep _ :: t => spec_rows auto t
  | _ => []
  end.

(* the end: None = normal end of the result set, Some e = the iteration's error *)
Fixpoint spec_end (auto : bool) (s : list (reply R)) : option Z :=
  match s with
  | [] => Some E_noreply                              (* a request that is never answered fails *)
  | RPage _ more _ :: t => if more && auto then spec_end auto t else None
  | RUnprep _ :: t => spec_end auto t
  | RErr _ e :: _ => Some e
  | RVoid _ :: _ => None
  end.

(* the paging state of every request, in order: the caller's for the first (empty = none), then for
   each page that has more pages the state that page carried; after UNPREPARED the same one again;
   nothing after a last page, an error, or a void result *)
Fixpoint spec_states (auto : bool) (ps : list Z) (s : list (reply R)) : list (list Z) :=
  ps :: match s with
        | RPage _ more st :: t => if more && auto then spec_states auto st t else []
        | RUnprep _ :: t => spec_states auto ps t
        | _ => []
        end.

(* ---- the same, said directly for the two modes (used to state the theorems readably) ---------- *)

(* answers that keep an automatic iteration going *)
Definition continues (r : reply R) : bool :=
  match r with RPage _ true _ => true | RUnprep _ => true | _ => false end.

(* the leading answers that keep it going *)
Fixpoint leading (s : list (reply R)) : list (reply R) :=
  match s with
  | r :: t => if continues r then r :: leading t else []
  | [] => []
  end.

(* manual paging: the first answer that is not UNPREPARED *)
Fixpoint first_answer (s : list (reply R)) : option (reply R) :=
  match s with
  | RUnprep _ :: t => first_answer t
  | r :: _ => Some r
  | [] => None
  end.
Fixpoint unpreps (s : list (reply R)) : nat :=
  match s with RUnprep _ :: t => S (unpreps t) | _ => O end.

(* has_more pages carry a non-empty paging state (what every real server does) *)
Definition state_ok (r : reply R) : Prop :=
  match r with RPage _ true st => st <> [] | _ => True end.

End Spec.
