(* C15/Proofs2.v -- SliceMap (the loop inside the driver), the readable forms of the specification
   (request sequence of a script made of pages, number of requests, normal end only after a last
   page, manual paging) and what never changes when there is no next page. *)
From GocqlV Require Import Lib.Base C15.Model C15.Spec C15.Proofs1.

Set Implicit Arguments.

Section P2.
Variables (R Q : Type) (q : Q) (auto : bool) (posf : nat -> Z).

Notation machT := (mach R Q).
Notation fut_rows := (fut_rows (Q:=Q) auto).
Notation fut_end := (fut_end (Q:=Q) auto).
Notation fut_states := (fut_states (Q:=Q) auto).
Notation total := (total q auto).
Notation scanp := (scanp q auto posf).
Notation mk := (mk q).

(* ---- the loop `for iter.Scan(...)` --------------------------------------------------------- *)
Lemma drain_spec pre : forall fuel (m : machT), m_fetched m = None -> (length (fut_rows m) < fuel)%nat ->
  exists m', drain (scanp pre) fuel m = Some (fut_rows m, m')
    /\ m_fetched m' = None /\ close m' = fut_end m /\ total m' = total m /\ fut_states m' = [].
Proof.
  induction fuel as [|fuel IH]; intros m Hf Hl; [lia|].
  cbn [drain]. destruct (scanp pre m) as [o m1] eqn:E.
  destruct (@scanp_step R Q q auto posf pre m o m1 Hf E) as (S1 & S2 & S3 & S4).
  destruct o as [r|].
  - rewrite S4 in Hl. cbn in Hl. destruct (IH m1 S1) as (m' & D & A & B & C & F); [lia|].
    rewrite D. exists m'. rewrite S4. repeat split; auto; congruence.
  - destruct S4 as (J1 & J2 & J3 & J4). exists m1. rewrite J1. repeat split; auto.
Qed.

Lemma spec_rows_le (s : list (reply R)) : (length (spec_rows auto s) <= script_rows s)%nat.
Proof.
  unfold script_rows. induction s as [|r s IH]; cbn [fold_right spec_rows length]; [lia|].
  destruct r as [rows more st|e| |]; cbn [reply_rows length]; try lia.
  rewrite app_length. destruct (more && auto); cbn [length]; lia.
Qed.

Lemma fut_rows_le (m : machT) : (length (fut_rows m) <= rows_left m)%nat.
Proof.
  unfold Proofs1.fut_rows, fut_rows_i, rows_left. destruct (i_err (m_cur m)); cbn; [lia|].
  rewrite app_length, skipn_length. pose proof (spec_rows_le (m_srv m)).
  destruct (i_next (m_cur m)); cbn; lia.
Qed.

Theorem slice_map_open ps (s : list (reply R)) :
  exists m', slice_map q auto posf (open q auto posf ps s)
             = Some (match spec_end auto s with None => spec_rows auto s | Some _ => [] end, spec_end auto s, m')
    /\ m_reqs m' = map mk (spec_states auto ps s).
Proof.
  destruct (open_spec q auto posf ps s) as (O1 & _ & O3 & O4 & O5).
  set (m := open q auto posf ps s) in *. unfold slice_map.
  destruct (i_err (m_cur m)) as [e|] eqn:He.
  - exists m. assert (X : fut_end m = Some e) by (unfold Proofs1.fut_end, fut_end_i; rewrite He; reflexivity).
    rewrite <- O4, X. split; [reflexivity|]. rewrite <- O5. unfold Proofs1.total, Proofs1.fut_states, fut_states_i.
    rewrite He. cbn. rewrite app_nil_r. reflexivity.
  - destruct (@drain_spec true (S (rows_left m)) m O1) as (m' & D & A & B & C & F).
    { pose proof (fut_rows_le m). lia. }
    change (scan q auto posf) with (@Proofs1.scanp R Q q auto posf true). rewrite D. exists m'.
    assert (Y : m_reqs m' = map mk (spec_states auto ps s)).
    { rewrite <- O5, <- C. unfold Proofs1.total. rewrite F. cbn. rewrite app_nil_r. reflexivity. }
    unfold close in B. rewrite B, O4, O3. destruct (spec_end auto s); auto.
Qed.

End P2.

(* ---- readable forms of the specification ------------------------------------------------------- *)
Section SpecFacts.
Variable R : Type.

(* a script that is a run of pages with more pages, then an answer that is not one *)
Definition more_page (p : list R * list Z) : reply R := RPage (fst p) true (snd p).

Lemma spec_states_pages : forall (pages : list (list R * list Z)) ps fin rest,
  continues fin = false ->
  spec_states true ps (map more_page pages ++ fin :: rest) = ps :: map snd pages.
Proof.
  induction pages as [|p pages IH]; intros ps fin rest Hc; cbn.
  - destruct fin as [rows more st|e| |]; cbn in *; try reflexivity; try discriminate.
    destruct more; [discriminate|reflexivity].
  - rewrite IH by exact Hc. reflexivity.
Qed.

Lemma spec_rows_pages : forall (pages : list (list R * list Z)) fin rest,
  continues fin = false ->
  spec_rows true (map more_page pages ++ fin :: rest)
  = concat (map fst pages) ++ match fin with RPage rows _ _ => rows | _ => [] end.
Proof.
  induction pages as [|p pages IH]; intros fin rest Hc; cbn.
  - destruct fin as [rows more st|e| |]; cbn in *; try reflexivity; try discriminate.
    destruct more; [discriminate|]. cbn. rewrite app_nil_r. reflexivity.
  - rewrite IH by exact Hc. rewrite app_assoc. reflexivity.
Qed.

Lemma spec_end_pages : forall (pages : list (list R * list Z)) fin rest,
  continues fin = false ->
  spec_end true (map more_page pages ++ fin :: rest)
  = match fin with RErr _ e => Some e | _ => None end.
Proof.
  induction pages as [|p pages IH]; intros fin rest Hc; cbn.
  - destruct fin as [rows more st|e| |]; cbn in *; try reflexivity; try discriminate.
    destruct more; [discriminate|reflexivity].
  - apply IH; exact Hc.
Qed.

Lemma spec_end_pages_noreply : forall (pages : list (list R * list Z)),
  spec_end true (map more_page pages) = Some E_noreply.
Proof. induction pages as [|p pages IH]; cbn; auto. Qed.

(* the number of requests: one, plus one per leading answer that keeps the iteration going *)
Lemma spec_states_length : forall (s : list (reply R)) ps,
  length (spec_states true ps s) = S (length (leading s)).
Proof.
  induction s as [|r s IH]; intros ps; cbn; [reflexivity|].
  destruct r as [rows more st|e| |]; cbn; try reflexivity.
  - destruct more; cbn; [rewrite IH|]; reflexivity.
  - rewrite IH. reflexivity.
Qed.

(* a normal end means a last page (or a void result) was reached through answers that continue *)
Lemma spec_end_normal : forall (s : list (reply R)), spec_end true s = None ->
  exists pre r post, s = pre ++ r :: post /\ forallb (@continues R) pre = true
    /\ (r = RVoid R \/ exists rows st, r = RPage rows false st).
Proof.
  induction s as [|r s IH]; cbn; intro H; [discriminate|].
  destruct r as [rows more st|e| |].
  - destruct more; cbn in H.
    + destruct (IH H) as (pre & r & post & A & B & C). exists (RPage rows true st :: pre), r, post.
      subst. cbn. rewrite B. auto.
    + exists [], (RPage rows false st), s. cbn. split; [reflexivity|]. split; [reflexivity|]. right. eauto.
  - discriminate.
  - exists [], (RVoid R), s. cbn. auto.
  - destruct (IH H) as (pre & r & post & A & B & C). exists (RUnprep R :: pre), r, post.
    subst. cbn. rewrite B. auto.
Qed.

(* an error end means an error answer, or no answer at all, after answers that continue *)
Lemma spec_end_error : forall (s : list (reply R)) e, spec_end true s = Some e ->
  (exists pre post, s = pre ++ RErr R e :: post /\ forallb (@continues R) pre = true)
  \/ (e = E_noreply /\ forallb (@continues R) s = true).
Proof.
  induction s as [|r s IH]; cbn; intros e H.
  - inversion H. right. auto.
  - destruct r as [rows more st|e0| |].
    + destruct more; cbn in H; [|discriminate].
      destruct (IH _ H) as [(pre & post & A & B)|[A B]].
      * left. exists (RPage rows true st :: pre), post. subst. cbn. rewrite B. auto.
      * right. cbn. auto.
    + inversion H; subst. left. exists [], s. auto.
    + discriminate.
    + destruct (IH _ H) as [(pre & post & A & B)|[A B]].
      * left. exists (RUnprep R :: pre), post. subst. cbn. rewrite B. auto.
      * right. cbn. auto.
Qed.

(* manual paging: one page *)
Lemma spec_rows_manual : forall (s : list (reply R)),
  spec_rows false s = match first_answer s with Some (RPage rows _ _) => rows | _ => [] end.
Proof.
  induction s as [|r s IH]; cbn; [reflexivity|]. destruct r as [rows more st|e| |]; cbn; auto.
  rewrite andb_false_r, app_nil_r. reflexivity.
Qed.

Lemma spec_end_manual : forall (s : list (reply R)),
  spec_end false s = match first_answer s with None => Some E_noreply | Some (RErr _ e) => Some e | Some _ => None end.
Proof.
  induction s as [|r s IH]; cbn; [reflexivity|]. destruct r as [rows more st|e| |]; cbn; auto.
  rewrite andb_false_r. reflexivity.
Qed.

Lemma spec_states_manual : forall (s : list (reply R)) ps,
  spec_states false ps s = repeat ps (S (unpreps s)).
Proof.
  induction s as [|r s IH]; intro ps; cbn; [reflexivity|]. destruct r as [rows more st|e| |]; cbn; auto.
  - rewrite andb_false_r. reflexivity.
  - rewrite IH. reflexivity.
Qed.

End SpecFacts.

(* ---- no next page: nothing is ever requested again, the exposed page state stays ------------------ *)
Section NoNext.
Variables (R Q : Type) (q : Q) (auto : bool) (posf : nat -> Z).
Notation machT := (mach R Q).

Definition quiet (m : machT) : Prop := i_next (m_cur m) = None /\ m_fetched m = None.
Definition same_page (m m' : machT) : Prop :=
  quiet m' /\ m_reqs m' = m_reqs m /\ i_ps (m_cur m') = i_ps (m_cur m) /\ i_err (m_cur m') = i_err (m_cur m).

Lemma scan_quiet (m : machT) o m' : quiet m -> scan q auto posf m = (o, m') -> same_page m m'.
Proof.
  intros [Hn Hf] H. unfold scan in H. replace (mu m + 2)%nat with (S (mu m + 1)) in H by lia.
  cbn [Model.scan_go] in H. unfold same_page, quiet.
  destruct (i_err (m_cur m)) eqn:He; [inversion H; subst; repeat split; auto; fail|].
  rewrite Hn in H. destruct (length (i_rows (m_cur m)) <=? i_pos (m_cur m))%nat.
  - inversion H; subst. repeat split; auto.
  - inversion H; subst. cbn. repeat split; auto.
Qed.

Lemma async_quiet (m : machT) : quiet m -> async q auto posf m = m.
Proof.
  intros [Hn Hf]. unfold async, fetch. rewrite Hf, Hn. destruct (m_oncea m); reflexivity.
Qed.

Lemma step_quiet (m : machT) l o m' : quiet m -> step q auto posf m l = (o, m') -> same_page m m'.
Proof.
  intros Hq H. destruct l; cbn [step] in H.
  - destruct (scan q auto posf m) as [o1 m1] eqn:E. inversion H; subst. eapply scan_quiet; eauto.
  - rewrite map_scan_scan in H. destruct (scan q auto posf m) as [o1 m1] eqn:E. inversion H; subst. eapply scan_quiet; eauto.
  - rewrite async_quiet in H by exact Hq. inversion H; subst. unfold same_page. repeat split; auto; apply Hq.
Qed.

Lemma sched_quiet : forall ls (m : machT) os m', quiet m -> sched q auto posf m ls = (os, m') -> same_page m m'.
Proof.
  induction ls as [|l ls IH]; intros m os m' Hq H; cbn [sched] in H.
  - inversion H; subst. unfold same_page. repeat split; auto; apply Hq.
  - destruct (step q auto posf m l) as [o m1] eqn:E1. destruct (sched q auto posf m1 ls) as [os2 m2] eqn:E2.
    inversion H; subst; clear H. destruct (step_quiet _ Hq E1) as (A & B & C & D).
    destruct (IH _ _ _ A E2) as (A2 & B2 & C2 & D2). unfold same_page. repeat split; try congruence; apply A2.
Qed.

End NoNext.
