(* C15/Proofs2.v -- SliceMap (the loop inside the driver), the readable forms of the specification
   (request sequence of a script made of pages, number of requests, normal end only after a last
   page, manual paging) and what never changes when there is no next page. *)
From GocqlV Require Import Lib.Base C15.Model C15.Spec C15.Proofs1.

Set Implicit Arguments.

Section P2.
Variables (R M Q : Type) (q : Q) (auto : bool) (posf : nat -> Z) (mm : meta_mode M) (nr : nat).

Notation machT := (mach R M Q).
Notation fut_rows := (fut_rows (Q:=Q) auto mm nr).
Notation fut_end := (fut_end (Q:=Q) auto nr).
Notation fut_states := (fut_states (Q:=Q) auto nr).
Notation total := (total q auto nr).
Notation scanp := (scanp q auto posf mm nr).
Notation mk := (mk q).
Notation spec_rows := (spec_rows auto mm nr).
Notation spec_end := (spec_end (R:=R) (M:=M) auto nr).
Notation spec_states := (spec_states (R:=R) (M:=M) auto nr).

(* ---- the loop `for iter.Scan(...)` --------------------------------------------------------- *)
Lemma drain_spec pre : forall fuel (m : machT), m_fetched m = None -> (length (fut_rows m) < fuel)%nat ->
  exists m', drain (scanp pre) fuel m = Some (fut_rows m, m')
    /\ m_fetched m' = None /\ close m' = fut_end m /\ total m' = total m /\ fut_states m' = [].
Proof.
  induction fuel as [|fuel IH]; intros m Hf Hl; [lia|].
  cbn [drain]. destruct (scanp pre m) as [o m1] eqn:E.
  destruct (@scanp_step R M Q q auto posf mm nr pre m o m1 Hf E) as (S1 & S2 & S3 & S4).
  destruct o as [r|].
  - rewrite S4 in Hl. cbn in Hl. destruct (IH m1 S1) as (m' & D & A & B & C & F); [lia|].
    rewrite D. exists m'. rewrite S4. repeat split; auto; congruence.
  - destruct S4 as (J1 & J2 & J3 & J4). exists m1. rewrite J1. repeat split; auto.
Qed.

Lemma spec_rows_le : forall (s : list (reply R M)) left, (length (Spec.spec_rows auto mm nr left s) <= script_rows s)%nat.
Proof.
  unfold script_rows. induction s as [|r s IH]; intro left; cbn [fold_right Spec.spec_rows length]; [lia|].
  destruct r as [rows more st mt|e| |]; cbn [reply_rows length].
  - rewrite app_length, map_length. destruct (more && auto); cbn [length]; [specialize (IH nr)|]; lia.
  - destruct left; [cbn; lia|]. specialize (IH left). lia.
  - lia.
  - specialize (IH left). lia.
Qed.

Lemma fut_rows_le (m : machT) : (length (fut_rows m) <= rows_left m)%nat.
Proof.
  unfold Proofs1.fut_rows, fut_rows_i, rows_left. destruct (i_err (m_cur m)); cbn; [lia|].
  rewrite app_length, skipn_length. pose proof (spec_rows_le (m_srv m) nr).
  unfold drow in *. destruct (m_fetched m); destruct (i_next (m_cur m)); cbn [length]; lia.
Qed.

Theorem slice_map_open ps (s : list (reply R M)) :
  exists m', slice_map q auto posf mm nr (open q auto posf mm nr ps s)
             = Some (match spec_end nr s with None => spec_rows nr s | Some _ => [] end, spec_end nr s, m')
    /\ m_reqs m' = map mk (spec_states nr ps s).
Proof.
  destruct (open_spec q auto posf mm nr ps s) as (O1 & _ & O3 & O4 & O5).
  set (m := open q auto posf mm nr ps s) in *. unfold slice_map.
  destruct (i_err (m_cur m)) as [e|] eqn:He.
  - exists m. assert (X : fut_end m = Some e) by (unfold Proofs1.fut_end, fut_end_i; rewrite He; reflexivity).
    rewrite <- O4, X. split; [reflexivity|]. rewrite <- O5. unfold Proofs1.total, Proofs1.fut_states, fut_states_i.
    rewrite He. cbn. rewrite app_nil_r. reflexivity.
  - destruct (@drain_spec true (S (rows_left m)) m O1) as (m' & D & A & B & C & F).
    { pose proof (fut_rows_le m). lia. }
    change (scan q auto posf mm nr) with (@Proofs1.scanp R M Q q auto posf mm nr true). rewrite D. exists m'.
    assert (Y : m_reqs m' = map mk (spec_states nr ps s)).
    { rewrite <- O5, <- C. unfold Proofs1.total. rewrite F. cbn. rewrite app_nil_r. reflexivity. }
    unfold close in B. rewrite B, O4, O3. destruct (spec_end nr s); auto.
Qed.

End P2.

(* ---- readable forms of the specification (no retry policy: nr = 0) ------------------------------- *)
Section SpecFacts.
Variables R M : Type.
Variable mm : meta_mode M.

Notation reply := (reply R M).
Notation spec_rows a := (spec_rows a mm 0 0).
Notation spec_end a := (spec_end (R:=R) (M:=M) a 0 0).
Notation spec_states a := (spec_states (R:=R) (M:=M) a 0 0).

(* a script that is a run of pages with more pages, then an answer that is not one *)
Definition more_page (p : list R * list Z * M) : reply := RPage (fst (fst p)) true (snd (fst p)) (snd p).
Definition page_rows (p : list R * list Z * M) : list (R * M) := map (fun r => (r, spec_meta mm (snd p))) (fst (fst p)).
Definition fin_rows (fin : reply) : list (R * M) :=
  match fin with RPage rows _ _ mt => map (fun r => (r, spec_meta mm mt)) rows | _ => [] end.

Lemma spec_states_pages : forall (pages : list (list R * list Z * M)) ps fin rest,
  continues fin = false ->
  spec_states true ps (map more_page pages ++ fin :: rest) = ps :: map (fun p => snd (fst p)) pages.
Proof.
  induction pages as [|p pages IH]; intros ps fin rest Hc; cbn.
  - destruct fin as [rows more st mt|e| |]; cbn in *; try reflexivity; try discriminate.
    destruct more; [discriminate|reflexivity].
  - rewrite IH by exact Hc. reflexivity.
Qed.

Lemma spec_rows_pages : forall (pages : list (list R * list Z * M)) fin rest,
  continues fin = false ->
  spec_rows true (map more_page pages ++ fin :: rest) = concat (map page_rows pages) ++ fin_rows fin.
Proof.
  induction pages as [|p pages IH]; intros fin rest Hc; cbn.
  - destruct fin as [rows more st mt|e| |]; cbn in *; try reflexivity; try discriminate.
    destruct more; [discriminate|]. cbn. rewrite app_nil_r. reflexivity.
  - rewrite IH by exact Hc. rewrite app_assoc. reflexivity.
Qed.

Lemma spec_end_pages : forall (pages : list (list R * list Z * M)) fin rest,
  continues fin = false ->
  spec_end true (map more_page pages ++ fin :: rest)
  = match fin with RErr _ _ e => Some e | _ => None end.
Proof.
  induction pages as [|p pages IH]; intros fin rest Hc; cbn.
  - destruct fin as [rows more st mt|e| |]; cbn in *; try reflexivity; try discriminate.
    destruct more; [discriminate|reflexivity].
  - apply IH; exact Hc.
Qed.

(* the number of requests: one, plus one per leading answer that keeps the iteration going *)
Lemma spec_states_length : forall (s : list reply) ps,
  length (spec_states true ps s) = S (length (leading s)).
Proof.
  induction s as [|r s IH]; intros ps; cbn; [reflexivity|].
  destruct r as [rows more st mt|e| |]; cbn; try reflexivity.
  - destruct more; cbn; [rewrite IH|]; reflexivity.
  - rewrite IH. reflexivity.
Qed.

(* a normal end means a last page (or a void result) was reached through answers that continue *)
Lemma spec_end_normal : forall (s : list reply), spec_end true s = None ->
  exists pre r post, s = pre ++ r :: post /\ forallb (@continues R M) pre = true
    /\ (r = RVoid R M \/ exists rows st mt, r = RPage rows false st mt).
Proof.
  induction s as [|r s IH]; cbn; intro H; [discriminate|].
  destruct r as [rows more st mt|e| |].
  - destruct more; cbn in H.
    + destruct (IH H) as (pre & r & post & A & B & C). exists (RPage rows true st mt :: pre), r, post.
      subst. cbn. rewrite B. auto.
    + exists [], (RPage rows false st mt), s. cbn. split; [reflexivity|]. split; [reflexivity|]. right. eauto.
  - discriminate.
  - exists [], (RVoid R M), s. cbn. auto.
  - destruct (IH H) as (pre & r & post & A & B & C). exists (RUnprep R M :: pre), r, post.
    subst. cbn. rewrite B. auto.
Qed.

(* an error end means an error answer, or no answer at all, after answers that continue *)
Lemma spec_end_error : forall (s : list reply) e, spec_end true s = Some e ->
  (exists pre post, s = pre ++ RErr R M e :: post /\ forallb (@continues R M) pre = true)
  \/ (e = E_noreply /\ forallb (@continues R M) s = true).
Proof.
  induction s as [|r s IH]; cbn; intros e H.
  - inversion H. right. auto.
  - destruct r as [rows more st mt|e0| |].
    + destruct more; cbn in H; [|discriminate].
      destruct (IH _ H) as [(pre & post & A & B)|[A B]].
      * left. exists (RPage rows true st mt :: pre), post. subst. cbn. rewrite B. auto.
      * right. cbn. auto.
    + inversion H; subst. left. exists [], s. auto.
    + discriminate.
    + destruct (IH _ H) as [(pre & post & A & B)|[A B]].
      * left. exists (RUnprep R M :: pre), post. subst. cbn. rewrite B. auto.
      * right. cbn. auto.
Qed.

(* manual paging: one page *)
Lemma spec_rows_manual : forall (s : list reply),
  spec_rows false s = match first_answer s with Some r => fin_rows r | None => [] end.
Proof.
  induction s as [|r s IH]; cbn; [reflexivity|]. destruct r as [rows more st mt|e| |]; cbn; auto.
  rewrite andb_false_r, app_nil_r. reflexivity.
Qed.

Lemma spec_end_manual : forall (s : list reply),
  spec_end false s = match first_answer s with None => Some E_noreply | Some (RErr _ _ e) => Some e | Some _ => None end.
Proof.
  induction s as [|r s IH]; cbn; [reflexivity|]. destruct r as [rows more st mt|e| |]; cbn; auto.
  rewrite andb_false_r. reflexivity.
Qed.

Lemma spec_states_manual : forall (s : list reply) ps,
  spec_states false ps s = repeat ps (S (unpreps s)).
Proof.
  induction s as [|r s IH]; intro ps; cbn; [reflexivity|]. destruct r as [rows more st mt|e| |]; cbn; auto.
  - rewrite andb_false_r. reflexivity.
  - rewrite IH. reflexivity.
Qed.

(* which metadata the delivered rows carry *)
Lemma spec_rows_prepared_meta : forall auto pm n (s : list reply) left,
  Forall (fun d => snd d = pm) (Spec.spec_rows auto (UsePrepared pm) n left s).
Proof.
  induction s as [|r s IH]; intro left; cbn; [constructor|].
  destruct r as [rows more st mt|e| |]; try constructor; [|destruct left; [constructor|apply IH]|apply IH].
  apply Forall_app. split.
  - apply Forall_forall. intros d Hd. apply in_map_iff in Hd. destruct Hd as (r & E & _). subst. reflexivity.
  - destruct (more && auto); [apply IH|constructor].
Qed.

Lemma spec_rows_server_meta : forall auto n (s : list reply) left r m,
  In (r, m) (Spec.spec_rows auto UseServer n left s) ->
  exists rows more st, In (RPage rows more st m) s /\ In r rows.
Proof.
  induction s as [|x s IH]; intros left r m H; cbn in H; [contradiction|].
  destruct x as [rows more st mt|e| |]; try contradiction.
  - apply in_app_or in H. destruct H as [H|H].
    + apply in_map_iff in H. destruct H as (r0 & E & Hin). inversion E; subst.
      exists rows, more, st. split; [left; reflexivity|exact Hin].
    + destruct (more && auto); [|contradiction].
      destruct (IH _ _ _ H) as (rows' & more' & st' & A & B). exists rows', more', st'. split; [right; exact A|exact B].
  - destruct left; [contradiction|]. destruct (IH _ _ _ H) as (rows' & more' & st' & A & B).
    exists rows', more', st'. split; [right; exact A|exact B].
  - destruct (IH _ _ _ H) as (rows' & more' & st' & A & B).
    exists rows', more', st'. split; [right; exact A|exact B].
Qed.

(* a retry policy with enough budget makes errors invisible: the script with retries is the script
   without, in which every retried error reads "the same request again" *)
Fixpoint retried (n left : nat) (s : list reply) : list reply :=
  match s with
  | [] => []
  | RErr _ _ e :: t => match left with S l => RUnprep R M :: retried n l t | O => s end
  | RUnprep _ _ :: t => RUnprep R M :: retried n left t
  | RPage rows more st mt :: t => RPage rows more st mt :: retried n n t
  | RVoid _ _ :: _ => s
  end.

Lemma spec_retried : forall auto n (s : list reply) left,
  Spec.spec_rows auto mm n left s = Spec.spec_rows auto mm 0 0 (retried n left s)
  /\ Spec.spec_end auto n left s = Spec.spec_end auto 0 0 (retried n left s).
Proof.
  induction s as [|r s IH]; intro left; cbn; [auto|].
  destruct r as [rows more st mt|e| |]; cbn.
  - destruct (IH n) as [A B]. destruct (more && auto); [rewrite A, B|]; auto.
  - destruct left as [|l]; cbn; [auto|]. apply IH.
  - auto.
  - apply IH.
Qed.

End SpecFacts.

(* ---- no next page: nothing is ever requested again, the exposed page state stays ------------------ *)
Section NoNext.
Variables (R M Q : Type) (q : Q) (auto : bool) (posf : nat -> Z) (mm : meta_mode M) (nr : nat).
Notation machT := (mach R M Q).

Definition quiet (m : machT) : Prop := i_next (m_cur m) = None /\ m_fetched m = None.
Definition same_page (m m' : machT) : Prop :=
  quiet m' /\ m_reqs m' = m_reqs m /\ i_ps (m_cur m') = i_ps (m_cur m) /\ i_err (m_cur m') = i_err (m_cur m).

Lemma scan_quiet (m : machT) o m' : quiet m -> scan q auto posf mm nr m = (o, m') -> same_page m m'.
Proof.
  intros [Hn Hf] H. unfold scan in H. replace (mu m + 2)%nat with (S (mu m + 1)) in H by lia.
  cbn [Model.scan_go] in H. unfold same_page, quiet.
  destruct (i_err (m_cur m)) eqn:He; [inversion H; subst; repeat split; auto; fail|].
  rewrite Hn in H. destruct (length (i_rows (m_cur m)) <=? i_pos (m_cur m))%nat.
  - inversion H; subst. repeat split; auto.
  - inversion H; subst. cbn. repeat split; auto.
Qed.

Lemma async_quiet (m : machT) : quiet m -> async q auto posf mm nr m = m.
Proof.
  intros [Hn Hf]. unfold async, fetch. rewrite Hf, Hn. destruct (m_oncea m); reflexivity.
Qed.

Lemma step_quiet (m : machT) l o m' : quiet m -> step q auto posf mm nr m l = (o, m') -> same_page m m'.
Proof.
  intros Hq H. destruct l; cbn [step] in H.
  - destruct (scan q auto posf mm nr m) as [o1 m1] eqn:E. inversion H; subst. eapply scan_quiet; eauto.
  - rewrite map_scan_scan in H. destruct (scan q auto posf mm nr m) as [o1 m1] eqn:E. inversion H; subst. eapply scan_quiet; eauto.
  - rewrite async_quiet in H by exact Hq. inversion H; subst. unfold same_page. repeat split; auto; apply Hq.
Qed.

Lemma sched_quiet : forall ls (m : machT) os m', quiet m -> sched q auto posf mm nr m ls = (os, m') -> same_page m m'.
Proof.
  induction ls as [|l ls IH]; intros m os m' Hq H; cbn [sched] in H.
  - inversion H; subst. unfold same_page. repeat split; auto; apply Hq.
  - destruct (step q auto posf mm nr m l) as [o m1] eqn:E1. destruct (sched q auto posf mm nr m1 ls) as [os2 m2] eqn:E2.
    inversion H; subst; clear H. destruct (step_quiet _ Hq E1) as (A & B & C & D).
    destruct (IH _ _ _ A E2) as (A2 & B2 & C2 & D2). unfold same_page. repeat split; try congruence; apply A2.
Qed.

End NoNext.
