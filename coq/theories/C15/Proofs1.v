(* C15/Proofs1.v -- the on-demand (no asynchronous prefetch) behaviour of the model against the
   specification: what is still to come from a machine state ([fut_rows], [fut_end],
   [fut_states]) is preserved by every consumer call, so k calls deliver the first k rows of
   [spec_rows], the requests sent plus the requests still to be sent are always [spec_states], and
   a call that returns false leaves the specified error. *)
From GocqlV Require Import Lib.Base C15.Model C15.Spec.

Set Implicit Arguments.

Section P1.
Variables (R M Q : Type) (q : Q) (auto : bool) (posf : nat -> Z) (mm : meta_mode M) (nr : nat).

Notation machT := (mach R M Q).
Notation exec := (exec q auto posf mm).
Notation scan_go := (scan_go q auto posf mm nr).
Notation fetch := (fetch q auto posf mm nr).
Notation spec_rows := (spec_rows auto mm nr).
Notation spec_end := (spec_end (R:=R) (M:=M) auto nr).
Notation spec_states := (spec_states (R:=R) (M:=M) auto nr).

Definition mk (st : list Z) : request Q := mkReq q (wire_ps st).

(* ---- what is still to come --------------------------------------------------------------- *)
Definition fut_rows_i (it : iter R M) (srv : list (reply R M)) : list (drow R M) :=
  match i_err it with
  | Some _ => []
  | None => skipn (i_pos it) (i_rows it) ++ match i_next it with Some _ => spec_rows nr srv | None => [] end
  end.
Definition fut_end_i (it : iter R M) (srv : list (reply R M)) : option Z :=
  match i_err it with
  | Some e => Some e
  | None => match i_next it with Some _ => spec_end nr srv | None => None end
  end.
Definition fut_states_i (it : iter R M) (srv : list (reply R M)) : list (list Z) :=
  match i_err it with
  | Some _ => []
  | None => match i_next it with Some (st, _) => spec_states nr st srv | None => [] end
  end.

Definition fut_rows (m : machT) := fut_rows_i (m_cur m) (m_srv m).
Definition fut_end (m : machT) := fut_end_i (m_cur m) (m_srv m).
Definition fut_states (m : machT) := fut_states_i (m_cur m) (m_srv m).
(* every request of the iteration: those sent and those still to be sent *)
Definition total (m : machT) : list (request Q) := m_reqs m ++ map mk (fut_states m).

(* ---- executeQuery against the script ------------------------------------------------------ *)
Lemma exec_spec : forall s ps left it s' l, exec ps left s = (it, s', l) ->
  fut_rows_i it s' = spec_rows left s /\ fut_end_i it s' = spec_end left s
  /\ l ++ map mk (fut_states_i it s') = map mk (spec_states left ps s).
Proof.
  induction s as [|r s IH]; intros ps left it s' l H; cbn [Model.exec] in H.
  - inversion H; subst. cbn. repeat split; auto. rewrite app_nil_r.
    unfold mk at 1. f_equal. clear. induction left; cbn; [reflexivity|]. unfold mk at 1. congruence.
  - destruct r as [rows more st mt|e| |].
    + inversion H; subst; clear H. unfold fut_rows_i, fut_end_i, fut_states_i. cbn.
      destruct (more && auto); cbn; auto.
    + destruct left as [|left'].
      * inversion H; subst. cbn. auto.
      * destruct (exec ps left' s) as [[it0 s0] l0] eqn:E. inversion H; subst; clear H.
        destruct (IH _ _ _ _ _ E) as (A & B & C). cbn [Spec.spec_rows Spec.spec_end Spec.spec_states map].
        repeat split; auto. cbn [app]. f_equal. exact C.
    + inversion H; subst. cbn. auto.
    + destruct (exec ps left s) as [[it0 s0] l0] eqn:E. inversion H; subst; clear H.
      destruct (IH _ _ _ _ _ E) as (A & B & C). cbn [Spec.spec_rows Spec.spec_end Spec.spec_states map].
      repeat split; auto. cbn [app]. f_equal. exact C.
Qed.

Lemma exec_srv_length : forall (s : list (reply R M)) ps left (it : iter R M) s' l, exec ps left s = (it, s', l) ->
  (s' = [] /\ i_err it <> None) \/ (length s' < length s)%nat.
Proof.
  induction s as [|r s IH]; intros ps left it s' l H; cbn [Model.exec] in H.
  - inversion H; subst. left. split; [reflexivity|discriminate].
  - destruct r as [rows more st mt|e| |]; try (right; inversion H; subst; cbn; lia).
    + destruct left as [|left']; [right; inversion H; subst; cbn; lia|].
      destruct (exec ps left' s) as [[it0 s0] l0] eqn:E. inversion H; subst; clear H.
      destruct (IH _ _ _ _ _ E) as [A|A]; [left; exact A|right; cbn; lia].
    + destruct (exec ps left s) as [[it0 s0] l0] eqn:E. inversion H; subst; clear H.
      destruct (IH _ _ _ _ _ E) as [A|A]; [left; exact A|right; cbn; lia].
Qed.

(* ---- fuel ---------------------------------------------------------------------------------- *)
Definition enough (f : nat) (m : machT) : Prop :=
  (1 <= f)%nat /\ (i_err (m_cur m) = None -> (mu m + 2 <= f)%nat).

Lemma enough_mu m : enough (mu m + 2) m.
Proof. clear q auto posf mm nr. unfold enough. split; intros; lia. Qed.

(* the state the recursive call of Scan runs in *)
Lemma enough_switch f m st np :
  enough (S f) m -> i_err (m_cur m) = None -> i_next (m_cur m) = Some (st, np) ->
  enough f (switch (fetch m)).
Proof.
  intros [_ H] He Hn. specialize (H He). unfold Model.fetch, switch, mu in *.
  destruct (m_fetched m) as [it|] eqn:Ef.
  - rewrite Ef. unfold enough, mu. cbn. split; intros; lia.
  - rewrite Hn. destruct (exec st nr (m_srv m)) as [[it s'] l] eqn:E. cbn.
    unfold enough, mu. cbn. destruct (exec_srv_length _ _ _ E) as [(A & C)|A].
    + subst. split; [lia|]. intro X. congruence.
    + split; intros; lia.
Qed.

Lemma scan_go_fuel pre : forall f1 f2 m, enough f1 m -> enough f2 m -> scan_go pre f1 m = scan_go pre f2 m.
Proof.
  induction f1 as [|f1 IH]; intros f2 m H1 H2; [destruct H1; lia|].
  destruct f2 as [|f2]; [destruct H2; lia|].
  cbn [Model.scan_go]. destruct (i_err (m_cur m)) eqn:He; [reflexivity|].
  destruct (length (i_rows (m_cur m)) <=? i_pos (m_cur m))%nat; [|reflexivity].
  destruct (i_next (m_cur m)) as [[st np]|] eqn:Hn; [|reflexivity].
  apply IH; eapply enough_switch; eauto.
Qed.

(* ---- one consumer call ---------------------------------------------------------------------- *)
Lemma skipn_nth_error {A} (l : list A) n x : nth_error l n = Some x -> skipn n l = x :: skipn (S n) l.
Proof.
  revert n; induction l as [|y l IH]; intros [|n] H; cbn in *; try discriminate.
  - inversion H; reflexivity.
  - apply IH; exact H.
Qed.

Lemma nth_error_lt {A} (l : list A) n : (n < length l)%nat -> exists x, nth_error l n = Some x.
Proof. intro H. destruct (nth_error l n) eqn:E; eauto. apply nth_error_None in E. lia. Qed.

Definition step_post (m : machT) (o : option (drow R M)) (m' : machT) : Prop :=
  m_fetched m' = None /\ fut_end m' = fut_end m /\ total m' = total m
  /\ match o with
     | Some r => fut_rows m = r :: fut_rows m'
     | None => fut_rows m = [] /\ fut_rows m' = [] /\ fut_states m' = [] /\ close m' = fut_end m
     end.

Lemma scan_go_step pre : forall f m o m', m_fetched m = None -> enough f m ->
  scan_go pre f m = (o, m') -> step_post m o m'.
Proof.
  induction f as [|f IH]; intros m o m' Hf Hen H; [destruct Hen; lia|].
  cbn [Model.scan_go] in H. unfold step_post.
  destruct (i_err (m_cur m)) as [e|] eqn:He.
  - inversion H; subst; clear H. unfold fut_rows, fut_states, fut_end, fut_rows_i, fut_states_i, fut_end_i, close.
    rewrite He. repeat split; auto.
  - destruct (length (i_rows (m_cur m)) <=? i_pos (m_cur m))%nat eqn:Hp.
    + apply Nat.leb_le in Hp.
      destruct (i_next (m_cur m)) as [[st np]|] eqn:Hn.
      * (* page switch *)
        assert (Hen' : enough f (switch (fetch m))) by (eapply enough_switch; eauto).
        assert (Hsw : exists it s' l, exec st nr (m_srv m) = (it, s', l)
                  /\ switch (fetch m) = mkMach it false None s' (m_reqs m ++ l)).
        { unfold Model.fetch, switch. rewrite Hf, Hn. destruct (exec st nr (m_srv m)) as [[it s'] l]. cbn. eauto. }
        destruct Hsw as (it & s' & l & E & Esw). rewrite Esw in *.
        destruct (exec_spec _ _ _ E) as (A & B & C).
        specialize (IH (mkMach it false None s' (m_reqs m ++ l)) o m' eq_refl Hen' H). unfold step_post in IH.
        destruct IH as (I1 & I2 & I3 & I4).
        assert (Xr : fut_rows m = fut_rows (mkMach it false None s' (m_reqs m ++ l))).
        { unfold fut_rows. cbn [m_cur m_srv]. rewrite A. unfold fut_rows_i. rewrite He, Hn.
          rewrite skipn_all2 by lia. reflexivity. }
        assert (Xe : fut_end m = fut_end (mkMach it false None s' (m_reqs m ++ l))).
        { unfold fut_end. cbn [m_cur m_srv]. rewrite B. unfold fut_end_i. rewrite He, Hn. reflexivity. }
        assert (Xt : total m = total (mkMach it false None s' (m_reqs m ++ l))).
        { unfold total, fut_states. cbn [m_cur m_srv m_reqs]. rewrite <- app_assoc, C. unfold fut_states_i. rewrite He, Hn. reflexivity. }
        split; [exact I1|]. split; [congruence|]. split; [congruence|].
        destruct o; [congruence|]. destruct I4 as (J1 & J2 & J3 & J4). repeat split; congruence.
      * inversion H; subst; clear H.
        unfold fut_rows, fut_states, fut_end, fut_rows_i, fut_states_i, fut_end_i, close. rewrite He, Hn.
        rewrite skipn_all2 by lia. repeat split; auto.
    + apply Nat.leb_gt in Hp. inversion H; subst; clear H.
      destruct (nth_error_lt _ Hp) as [x Hx]. rewrite Hx.
      set (m1 := match i_next (m_cur m) with
                 | Some (_, np) => if pre && (np <=? Z.of_nat (i_pos (m_cur m))) then set_oncea m else m
                 | None => m end).
      assert (Hm1 : m_cur m1 = m_cur m /\ m_fetched m1 = m_fetched m /\ m_srv m1 = m_srv m /\ m_reqs m1 = m_reqs m).
      { unfold m1. destruct (i_next (m_cur m)) as [[? np]|]; [|auto].
        destruct (pre && (np <=? Z.of_nat (i_pos (m_cur m)))); cbn; auto. }
      destruct Hm1 as (C1 & C2 & C3 & C4).
      unfold fut_rows, fut_end, fut_states, total, fut_states, fut_rows_i, fut_end_i, fut_states_i, bump, set_cur.
      cbn [m_cur m_srv m_reqs m_fetched i_err i_pos i_rows i_next]. rewrite C1, C2, C3, C4, He.
      repeat split; auto. rewrite (skipn_nth_error _ _ Hx). reflexivity.
Qed.

(* the three per-call consumer functions are scan_go with enough fuel *)
Definition scanp (pre : bool) (m : machT) : option (drow R M) * machT := scan_go pre (mu m + 2) m.

Lemma scan_scanp (m : machT) : scan q auto posf mm nr m = scanp true m. Proof. reflexivity. Qed.
Lemma next_scanp (m : machT) : next q auto posf mm nr m = scanp false m. Proof. reflexivity. Qed.
Lemma map_scan_scan (m : machT) : map_scan q auto posf mm nr m = scan q auto posf mm nr m.
Proof.
  unfold map_scan, scan. destruct (i_err (m_cur m)) eqn:He; [|reflexivity].
  replace (mu m + 2)%nat with (S (mu m + 1)) by lia. cbn [Model.scan_go]. rewrite He. reflexivity.
Qed.

Lemma scanp_step pre m o m' : m_fetched m = None -> scanp pre m = (o, m') -> step_post m o m'.
Proof. intros Hf H. eapply scan_go_step; eauto using enough_mu. Qed.

(* ---- k calls ---------------------------------------------------------------------------------- *)
Lemma calls_spec pre : forall k m outs m', m_fetched m = None -> calls (scanp pre) k m = (outs, m') ->
  outs = map Some (firstn k (fut_rows m)) ++ repeat None (k - length (fut_rows m))
  /\ m_fetched m' = None /\ fut_end m' = fut_end m /\ total m' = total m
  /\ fut_rows m' = skipn k (fut_rows m)
  /\ ((length (fut_rows m) < k)%nat -> close m' = fut_end m /\ fut_states m' = []).
Proof.
  induction k as [|k IH]; intros m outs m' Hf H; cbn [calls] in H.
  - inversion H; subst. cbn. repeat split; auto; lia.
  - destruct (scanp pre m) as [o m1] eqn:E1. destruct (calls (scanp pre) k m1) as [os m2] eqn:E2.
    inversion H; subst; clear H.
    destruct (@scanp_step pre m o m1 Hf E1) as (S1 & S2 & S3 & S4).
    destruct (IH _ _ _ S1 E2) as (I1 & I2 & I3 & I4 & I5 & I6).
    destruct o as [r|].
    + rewrite S4. cbn [firstn map length app skipn]. replace (S k - S (length (fut_rows m1)))%nat with (k - length (fut_rows m1))%nat by lia.
      rewrite <- I1. split; [reflexivity|]. split; [exact I2|]. split; [congruence|]. split; [congruence|]. split; [exact I5|].
      intro Hl. destruct I6 as [J1 J2]; [lia|]. split; congruence.
    + destruct S4 as (J1 & J2 & J3 & J4). rewrite J1. cbn [firstn map length app skipn].
      rewrite J2 in I1, I5, I6. cbn [firstn map length app] in I1. rewrite firstn_nil in I1. cbn [map app length] in I1.
      replace (k - 0)%nat with k in I1 by lia. replace (S k - 0)%nat with (S k) by lia. cbn [repeat]. rewrite <- I1.
      split; [reflexivity|]. split; [exact I2|]. split; [congruence|]. split; [congruence|]. split.
      * rewrite I5. destruct k; reflexivity.
      * intros _. destruct k as [|k].
        -- cbn in E2. inversion E2; subst. auto.
        -- destruct I6 as [K1 K2]; [cbn; lia|]. split; congruence.
Qed.

(* ---- from the opened query ---------------------------------------------------------------------- *)
Lemma open_spec ps s : let m := open q auto posf mm nr ps s in
  m_fetched m = None /\ m_oncea m = false /\ fut_rows m = spec_rows nr s /\ fut_end m = spec_end nr s
  /\ total m = map mk (spec_states nr ps s).
Proof.
  unfold open. destruct (exec ps nr s) as [[it s'] l] eqn:E. cbn.
  destruct (exec_spec _ _ _ E) as (A & B & C). unfold fut_rows, fut_end, total, fut_states. cbn. auto.
Qed.

Theorem calls_open pre ps s k outs m' :
  calls (scanp pre) k (open q auto posf mm nr ps s) = (outs, m') ->
  outs = map Some (firstn k (spec_rows nr s)) ++ repeat None (k - length (spec_rows nr s))
  /\ (exists tl, map mk (spec_states nr ps s) = m_reqs m' ++ tl)
  /\ ((length (spec_rows nr s) < k)%nat ->
      close m' = spec_end nr s /\ m_reqs m' = map mk (spec_states nr ps s)).
Proof.
  intro H. destruct (open_spec ps s) as (O1 & _ & O3 & O4 & O5).
  destruct (calls_spec _ _ _ O1 H) as (I1 & I2 & I3 & I4 & I5 & I6).
  rewrite O3 in *. rewrite O4 in *. rewrite O5 in I4. split; [exact I1|]. split.
  - exists (map mk (fut_states m')). rewrite <- I4. reflexivity.
  - intro Hl. destruct (I6 Hl) as [J1 J2]. split; [exact J1|].
    rewrite <- I4. unfold total. rewrite J2. cbn. rewrite app_nil_r. reflexivity.
Qed.

End P1.
