(* C15/Proofs5.v -- the caller's *Query handle: an iterator is not affected by anything done to the
   handle (or to other iterators made from it) after its Iter() call. *)
From GocqlV Require Import Lib.Base C15.Model.

Set Implicit Arguments.

Section P5.
Variables R M Q : Type.
Notation itrT := (itr R M Q).
Notation conf := (qconf M Q).

Lemma nth_upd_same {A} (f : A -> A) : forall (l : list A) j x, nth_error l j = Some x -> nth_error (upd_nth j f l) j = Some (f x).
Proof. induction l as [|y l IH]; intros [|j] x H; cbn in *; try discriminate; [congruence|auto]. Qed.

Lemma nth_upd_other {A} (f : A -> A) : forall (l : list A) i j, i <> j -> nth_error (upd_nth i f l) j = nth_error l j.
Proof. induction l as [|y l IH]; intros [|i] [|j] H; cbn; auto; congruence. Qed.

Lemma upd_nth_length {A} (f : A -> A) : forall (l : list A) j, length (upd_nth j f l) = length l.
Proof. induction l as [|y l IH]; intros [|j]; cbn; auto. Qed.

(* an existing iterator: after any program it has done exactly the steps addressed to it, with the
   configuration it stored *)
Lemma hrun_existing : forall (ops : list (hop R M Q)) (h : conf) (its : list itrT) j (it : itrT),
  nth_error its j = Some it ->
  nth_error (snd (hrun (h, its) ops)) j
  = Some (mkItr (it_conf it)
                (snd (c_sched (it_conf it) (it_mach it) (labels_for j ops)))
                (it_outs it ++ fst (c_sched (it_conf it) (it_mach it) (labels_for j ops)))).
Proof.
  induction ops as [|o ops IH]; intros h its j it H.
  - cbn. rewrite app_nil_r. destruct it; exact H.
  - unfold hrun. cbn [fold_left]. fold (hrun (hstep (h, its) o) ops). destruct o as [c|srv|i l]; cbn [hstep labels_for].
    + apply IH. exact H.
    + apply IH. rewrite nth_error_app1; [exact H|]. apply nth_error_Some. congruence.
    + destruct (Nat.eqb_spec i j) as [E|E].
      * subst i. rewrite (IH h _ j (itr_step l it) (nth_upd_same _ _ _ H)).
        unfold itr_step, c_sched, c_step. cbn [sched].
        destruct (step (f_q (it_conf it)) (f_auto (it_conf it)) (f_posf (it_conf it)) (f_mm (it_conf it)) (f_nr (it_conf it)) (it_mach it) l) as [o1 m1].
        cbn [it_conf it_mach it_outs].
        destruct (sched (f_q (it_conf it)) (f_auto (it_conf it)) (f_posf (it_conf it)) (f_mm (it_conf it)) (f_nr (it_conf it)) m1 (labels_for j ops)) as [os m2].
        cbn [fst snd]. rewrite app_assoc. reflexivity.
      * apply IH. rewrite nth_upd_other by exact E. exact H.
Qed.

(* an iterator started in the middle of a program: whatever the program does before and after, it
   behaves as if it ran alone with the configuration the handle had at its Iter() call *)
Theorem handle_reuse : forall (h0 : conf) (pre post : list (hop R M Q)) (srv : list (reply R M)),
  let h1 := fst (hrun (h0, []) pre) in
  let j := length (snd (hrun (h0, []) pre)) in
  nth_error (snd (hrun (h0, []) (pre ++ @HIter R M Q srv :: post))) j
  = Some (mkItr h1 (snd (c_sched h1 (c_open h1 srv) (labels_for j post)))
                   (fst (c_sched h1 (c_open h1 srv) (labels_for j post)))).
Proof.
  intros h0 pre post srv h1 j. unfold hrun at 1. rewrite fold_left_app. fold (hrun (h0, []) pre).
  destruct (hrun (h0, []) pre) as [h its] eqn:E. cbn [fold_left hstep]. fold (hrun (h, its ++ [mkItr h (c_open h srv) []]) post).
  unfold h1, j. cbn [fst snd].
  rewrite (@hrun_existing post h (its ++ [mkItr h (c_open h srv) []]) (length its) (mkItr h (c_open h srv) [])).
  - reflexivity.
  - rewrite nth_error_app2 by lia. rewrite Nat.sub_diag. reflexivity.
Qed.

End P5.
