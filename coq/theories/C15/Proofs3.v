(* C15/Proofs3.v -- the asynchronous prefetch cannot be observed.  Whatever the schedule (the
   goroutine spawned by fetchAsync runs at any time after it was spawned, or has not run yet), the
   consumer's calls return what they return without any prefetch, and once a spawned prefetch has
   landed the whole state -- current page, requests sent, the script position -- is the one the
   schedule-free run reaches: it is the same sync.Once. *)
From GocqlV Require Import Lib.Base C15.Model C15.Spec C15.Proofs1.

Set Implicit Arguments.

Section P3.
Variables (R M Q : Type) (q : Q) (auto : bool) (posf : nat -> Z) (mm : meta_mode M) (nr : nat).

Notation machT := (mach R M Q).
Notation fetch := (fetch q auto posf mm nr).
Notation scan_go := (scan_go q auto posf mm nr).
Notation scan := (scan q auto posf mm nr).
Notation async := (async q auto posf mm nr).

(* fetchAsync is only called on a page without error that has a next page *)
Definition wf (m : machT) : Prop :=
  m_oncea m = true -> i_err (m_cur m) = None /\ i_next (m_cur m) <> None.

(* a and b differ at most in whether the spawned prefetch has already run *)
Definition rel (a b : machT) : Prop :=
  (a = b /\ wf b)
  \/ (m_oncea a = true /\ m_oncea b = true /\ m_cur a = m_cur b /\ i_err (m_cur a) = None
      /\ i_next (m_cur a) <> None /\ fetch a = fetch b).

Lemma fetch_idem (m : machT) : fetch (fetch m) = fetch m.
Proof.
  destruct (m_fetched m) eqn:Ef.
  - assert (X : fetch m = m) by (unfold Model.fetch; rewrite Ef; reflexivity). rewrite X. exact X.
  - destruct (i_next (m_cur m)) as [[ps np]|] eqn:En.
    + assert (X : exists it s l, fetch m = mkMach (m_cur m) (m_oncea m) (Some it) s (m_reqs m ++ l)).
      { unfold Model.fetch. rewrite Ef, En. destruct (exec q auto posf mm ps nr (m_srv m)) as [[it s] l]. eauto. }
      destruct X as (it & s & l & X). rewrite X. reflexivity.
    + assert (X : fetch m = m) by (unfold Model.fetch; rewrite Ef, En; reflexivity). rewrite X. exact X.
Qed.

Lemma fetch_keeps (m : machT) : m_cur (fetch m) = m_cur m /\ m_oncea (fetch m) = m_oncea m.
Proof.
  unfold Model.fetch. destruct (m_fetched m); [auto|]. destruct (i_next (m_cur m)) as [[ps np]|]; [|auto].
  destruct (exec q auto posf mm ps nr (m_srv m)) as [[it s] l]. auto.
Qed.

Lemma fetch_bump (m : machT) : fetch (bump m) = bump (fetch m).
Proof.
  destruct m as [[e p rows pst nx] o f s r]. unfold Model.fetch, bump, set_cur. cbn. destruct f; [reflexivity|].
  destruct nx as [[ps np]|]; cbn; [|reflexivity].
  destruct (exec q auto posf mm ps nr s) as [[it s'] l]. reflexivity.
Qed.

Lemma fetch_set_oncea (m : machT) : fetch (set_oncea m) = set_oncea (fetch m).
Proof.
  destruct m as [[e p rows pst nx] o f s r]. unfold Model.fetch, set_oncea. cbn. destruct f; [reflexivity|].
  destruct nx as [[ps np]|]; cbn; [|reflexivity].
  destruct (exec q auto posf mm ps nr s) as [[it s'] l]. reflexivity.
Qed.

Lemma switch_fetch_oncea (m : machT) st np : i_next (m_cur m) = Some (st, np) -> m_oncea (switch (fetch m)) = false.
Proof.
  intro Hn. unfold Model.fetch, switch. destruct (m_fetched m) eqn:Ef; [rewrite Ef; reflexivity|].
  rewrite Hn. destruct (exec q auto posf mm st nr (m_srv m)) as [[it s] l]. reflexivity.
Qed.

Lemma wf_scan_go pre : forall f (m : machT) o m', enough f m -> wf m -> scan_go pre f m = (o, m') -> wf m'.
Proof.
  induction f as [|f IH]; intros m o m' Hen Hw H; [destruct Hen; lia|].
  cbn [Model.scan_go] in H. destruct (i_err (m_cur m)) eqn:He; [inversion H; subst; exact Hw|].
  destruct (length (i_rows (m_cur m)) <=? i_pos (m_cur m))%nat.
  - destruct (i_next (m_cur m)) as [[st np]|] eqn:Hn; [|inversion H; subst; exact Hw].
    eapply IH; [eapply enough_switch; eauto| |exact H].
    intro X. rewrite (switch_fetch_oncea _ Hn) in X. discriminate.
  - inversion H; subst; clear H. unfold wf, bump, set_cur. cbn [m_cur m_oncea i_err i_next].
    destruct (i_next (m_cur m)) as [[st np]|] eqn:Hn.
    + destruct (pre && (np <=? Z.of_nat (i_pos (m_cur m)))); cbn; intros _; rewrite He, Hn; split; congruence.
    + intro X. destruct (Hw X) as [_ Y]. congruence.
Qed.

Lemma rel_async (a b : machT) : rel a b -> rel (async a) b.
Proof.
  intros [[E W]|(A1 & A2 & A3 & A4 & A5 & A6)].
  - subst. unfold Model.async. destruct (m_oncea b) eqn:Ho; [|left; auto].
    destruct (W Ho) as [W1 W2]. destruct (fetch_keeps b) as [K1 K2]. right.
    rewrite K1, K2, fetch_idem. repeat split; auto.
  - unfold Model.async. rewrite A1. destruct (fetch_keeps a) as [K1 K2]. right.
    rewrite K1, K2, fetch_idem. repeat split; auto.
Qed.

Lemma rel_settle (a b : machT) : rel a b -> async a = async b.
Proof.
  intros [[E W]|(A1 & A2 & A3 & A4 & A5 & A6)]; [subst; reflexivity|].
  unfold Model.async. rewrite A1, A2. exact A6.
Qed.

Lemma rel_scan (a b : machT) oa a' ob b' : rel a b -> scan a = (oa, a') -> scan b = (ob, b') ->
  oa = ob /\ rel a' b'.
Proof.
  intros [[E W]|(A1 & A2 & A3 & A4 & A5 & A6)] Ha Hb.
  - subst. rewrite Ha in Hb. inversion Hb; subst. split; [reflexivity|]. left. split; [reflexivity|].
    exact (@wf_scan_go true (mu b + 2) b ob b' (enough_mu b) W Ha).
  - unfold Model.scan in Ha, Hb.
    replace (mu a + 2)%nat with (S (mu a + 1)) in Ha by lia. replace (mu b + 2)%nat with (S (mu b + 1)) in Hb by lia.
    assert (Ea : enough (S (mu a + 1)) a) by (unfold enough; split; intros; lia).
    assert (Eb : enough (S (mu b + 1)) b) by (unfold enough; split; intros; lia).
    cbn [Model.scan_go] in Ha, Hb. rewrite <- A3 in Hb. rewrite A4 in Ha, Hb.
    destruct (i_next (m_cur a)) as [[st np]|] eqn:Hn; [|congruence].
    destruct (length (i_rows (m_cur a)) <=? i_pos (m_cur a))%nat.
    + (* page switch: both wait on the same Once *)
      assert (Hnb : i_next (m_cur b) = Some (st, np)) by (rewrite <- A3; exact Hn).
      assert (A4b : i_err (m_cur b) = None) by (rewrite <- A3; exact A4).
      assert (E1 : enough (mu a + 1) (switch (fetch a))) by (eapply enough_switch; eauto).
      assert (E2 : enough (mu b + 1) (switch (fetch b))) by (eapply enough_switch; eauto).
      rewrite <- A6 in Hb, E2. rewrite (@scan_go_fuel R M Q q auto posf mm nr true _ _ _ E2 E1) in Hb. rewrite Ha in Hb. inversion Hb; subst.
      split; [reflexivity|]. left. split; [reflexivity|].
      eapply wf_scan_go; [exact E1| |exact Ha]. intro X. rewrite (switch_fetch_oncea _ Hn) in X. discriminate.
    + inversion Ha; subst; clear Ha. inversion Hb; subst; clear Hb. split; [reflexivity|].
      assert (Sa : forall (m : machT), m_oncea m = true -> set_oncea m = m) by (intros [c o f s r] X; cbn in X; subst; reflexivity).
      assert (Xa : (if (np <=? Z.of_nat (i_pos (m_cur a))) then set_oncea a else a) = a)
        by (destruct (np <=? Z.of_nat (i_pos (m_cur a))); [apply Sa; exact A1|reflexivity]).
      assert (Xb : (if (np <=? Z.of_nat (i_pos (m_cur a))) then set_oncea b else b) = b)
        by (destruct (np <=? Z.of_nat (i_pos (m_cur a))); [apply Sa; exact A2|reflexivity]).
      rewrite Xa, Xb. right. unfold bump at 1 2 3 4 5, set_cur. cbn [m_oncea m_cur i_err i_next].
      rewrite <- A3, Hn, !fetch_bump, A6. repeat split; auto. cbn. rewrite Hn. discriminate.
Qed.

(* number of consumer calls in a schedule *)
Fixpoint ncalls (ls : list label) : nat :=
  match ls with
  | LAsync :: t => ncalls t
  | _ :: t => S (ncalls t)
  | [] => O
  end.

Theorem sched_confluent : forall ls (a b : machT), rel a b ->
  fst (sched q auto posf mm nr a ls) = fst (calls scan (ncalls ls) b)
  /\ rel (snd (sched q auto posf mm nr a ls)) (snd (calls scan (ncalls ls) b)).
Proof.
  induction ls as [|l ls IH]; intros a b Hr; cbn [sched ncalls calls].
  - cbn. auto.
  - assert (Call : forall oa a1, scan a = (oa, a1) ->
       fst (let '(os, m2) := sched q auto posf mm nr a1 ls in ([oa] ++ os, m2))
       = fst (let '(o, m1) := scan b in let '(os, m2) := calls scan (ncalls ls) m1 in (o :: os, m2))
       /\ rel (snd (let '(os, m2) := sched q auto posf mm nr a1 ls in ([oa] ++ os, m2)))
              (snd (let '(o, m1) := scan b in let '(os, m2) := calls scan (ncalls ls) m1 in (o :: os, m2)))).
    { intros oa a1 Ha. destruct (scan b) as [ob b1] eqn:Hb.
      destruct (rel_scan Hr Ha Hb) as [Eo Hr1]. subst ob. specialize (IH a1 b1 Hr1).
      destruct (sched q auto posf mm nr a1 ls) as [os1 a2]. destruct (calls scan (ncalls ls) b1) as [os2 b2].
      cbn in *. destruct IH as [I1 I2]. split; [f_equal; exact I1|exact I2]. }
    destruct l; cbn [step].
    + destruct (scan a) as [oa a1] eqn:Ha. apply Call. reflexivity.
    + rewrite map_scan_scan. destruct (scan a) as [oa a1] eqn:Ha. apply Call. reflexivity.
    + specialize (IH (async a) b (rel_async Hr)).
      destruct (sched q auto posf mm nr (async a) ls) as [os1 a2]. cbn in *. exact IH.
Qed.

(* the loop of SliceMap with the prefetch firing between its Scan calls *)
Lemma drain_sched_rel : forall fuel (a b : machT) fires, rel a b ->
  match drain_sched q auto posf mm nr fuel a fires, drain scan fuel b with
  | Some (la, a'), Some (lb, b') => la = lb /\ rel a' b'
  | None, None => True
  | _, _ => False
  end.
Proof.
  induction fuel as [|fuel IH]; intros a b fires Hr; cbn [drain_sched drain]; [exact I|].
  set (a0 := match fires with true :: _ => async a | _ => a end).
  assert (Hr0 : rel a0 b).
  { unfold a0. destruct fires as [|[|] t]; [exact Hr|apply rel_async; exact Hr|exact Hr]. }
  destruct (scan a0) as [oa a1] eqn:Ha. destruct (scan b) as [ob b1] eqn:Hb.
  destruct (rel_scan Hr0 Ha Hb) as [Eo Hr1]. subst ob.
  destruct oa as [r|].
  - specialize (IH a1 b1 (tl fires) Hr1).
    destruct (drain_sched q auto posf mm nr fuel a1 (tl fires)) as [[la a2]|]; destruct (drain scan fuel b1) as [[lb b2]|]; try exact IH.
    destruct IH as [E Hr2]. split; [congruence|exact Hr2].
  - split; [reflexivity|exact Hr1].
Qed.

Lemma rel_refl_open ps s : rel (open q auto posf mm nr ps s) (open q auto posf mm nr ps s).
Proof.
  left. split; [reflexivity|]. intro X. destruct (open_spec q auto posf mm nr ps s) as (_ & O2 & _). congruence.
Qed.

End P3.
