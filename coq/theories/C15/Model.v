(* C15/Model.v -- executable model of paged iteration (session.go: Iter.Scan, iterScanner.Next,
   nextIter.fetch / fetchAsync, Iter.Close, Iter.PageState; helpers.go: Iter.MapScan, Iter.SliceMap;
   conn.go: the part of Conn.executeQuery that builds a page request from a Query and an Iter from
   the response).  Definitions only.

   Line numbers in the comments are those of the pinned commit (git HEAD of /repo), as in
   properties.jsonl; add-only verification hooks may shift them in the working tree.

   The server is a *script*: the list of answers it gives to the successive requests of one query,
   whatever those requests are.  A request beyond the end of the script gets no answer, which the
   driver turns into a failed fetch (request timeout), error code [E_noreply].

   Rows are an abstract type [R] (decoding cells is C04's business); what the consumer gets is a
   row together with the result metadata [M] the Iter decoded its page with ([drow], see
   [meta_mode] / [used_meta]: the PREPARE result's metadata for a prepared statement executed with
   skip_metadata, the metadata sent with the page otherwise).  Everything a request carries apart
   from its paging state (opcode, statement or prepared id, bound values, page size, consistency,
   skip-metadata flag, ...) is an abstract value [Q]: conn.go:1451-1453 builds the query for the
   next page as `*newQry = *qry` followed by the assignment of `pageState`, so all requests of one
   iteration are built from the same [Q] (what [Q] looks like on the wire is checked by the
   correspondence, Corr.v).  A retry policy is a per-page budget [n] of re-executions of the same
   query after a failed attempt (queryExecutor.do).

   The Go objects are flattened as follows.  An [iter] is one *Iter (one page).  A [mach] is the
   caller's Iter variable together with the nextIter that hangs off it: [m_oncea] is nextIter.oncea
   (has fetchAsync spawned the goroutine), [m_fetched] is nextIter.once + nextIter.next (the page
   the Once produced, if it ran), [m_srv] is the rest of the server's script and [m_reqs] the
   requests sent so far, in order.  When the consumer moves to the next page (`*iter =
   *iter.next.fetch()`) the new page has a fresh nextIter, so [m_oncea] and [m_fetched] are reset;
   a goroutine of the old nextIter that runs later finds its Once done and does nothing, which is
   what [async] does when [m_oncea] is false. *)
From GocqlV Require Import Lib.Base.

Set Implicit Arguments.

(* error codes of the model itself (server error codes are whatever the script says) *)
Definition E_noreply : Z := 1.       (* no answer to a request: the fetch fails (ErrTimeoutNoResponse) *)
Definition E_fuel : Z := -1.         (* recursion fuel exhausted: never happens, see Proofs1.scan_go_fuel *)

(* which result metadata an Iter decodes its page with (conn.go:1439-1448): with skip-metadata
   (only ever set for a prepared statement, conn.go:1394, so `info != nil` and the error branch at
   :1444 cannot be reached) the metadata of the PREPARE result, otherwise what the rows result
   itself carried *)
Inductive meta_mode (M : Type) := UseServer | UsePrepared (pm : M).
Arguments UseServer {M}.

Section Paging.
Variable R : Type.                   (* a row as the server sent it *)
Variable M : Type.                   (* result metadata (columns) *)
Variable Q : Type.                   (* a request minus its paging state *)

(* a row as the consumer gets it: decoded with some metadata *)
Definition drow : Type := (R * M)%type.

(* one answer of the server *)
Inductive reply :=
| RPage (rows : list R) (more : bool) (st : list Z) (mt : M)
      (* RESULT rows; [more] = has_more_pages, [st] = paging state, [mt] = the metadata the result carried *)
| RErr (e : Z)                                        (* ERROR (or connection loss / timeout): the fetch fails with e *)
| RVoid                                               (* RESULT void *)
| RUnprep.                                            (* ERROR unprepared *)

Record request := mkReq { r_q : Q; r_ps : option (list Z) }.

(* session.go:1429-1439.  [i_next] = Some (pageState of the copied query, nextIter.pos) *)
Record iter := mkIter { i_err : option Z; i_pos : nat; i_rows : list drow; i_ps : list Z; i_next : option (list Z * Z) }.

Record mach := mkMach { m_cur : iter; m_oncea : bool; m_fetched : option iter; m_srv : list reply; m_reqs : list request }.

Definition err_iter (e : Z) : iter := mkIter (Some e) 0 [] [] None.       (* &Iter{err: e} *)

(* conn.go:1343-1345 with frame.go writeQueryParams: a paging state is sent iff it is not empty *)
Definition wire_ps (ps : list Z) : option (list Z) := match ps with [] => None | _ => Some ps end.

(* conn.go:1461-1463 *)
Definition clamp1 (v : Z) : Z := if v <? 1 then 1 else v.

(* the per-query constants: q, !disableAutoPage, numRows -> int((1 - prefetch) * float64(numRows)),
   the metadata mode, and the retry budget: with a retry policy that answers Retry /
   RetryNextHost while q.Attempts() <= n, queryExecutor.do (query_executor.go:127-185) executes the
   same *Query again after a failed attempt, at most n times; the query of each page has its own
   attempt counter (conn.go:1454, fresh metrics).  n = 0 is the default (no retry policy). *)
Variable q : Q.
Variable auto : bool.
Variable posf : nat -> Z.
Variable mm : meta_mode M.
Variable n : nat.

Definition used_meta (mt : M) : M := match mm with UsePrepared pm => pm | UseServer => mt end.

(* session.executeQuery -> queryExecutor.do -> Conn.executeQuery for the query whose pageState is
   [ps] and which has [left] retries left, against the script: the resulting Iter, the rest of the
   script and the requests sent.  More than one request is sent after UNPREPARED (conn.go:1479-1482:
   the same query is executed again inside the attempt) and after a failed attempt that the retry
   policy retries (the same query again); a request that is never answered times out, which is a
   failed attempt like any other. *)
Fixpoint exec (ps : list Z) (left : nat) (srv : list reply) : iter * list reply * list request :=
  let rq := mkReq q (wire_ps ps) in
  match srv with
  | [] => (err_iter E_noreply, [], repeat rq (S left))                    (* conn.go:1415-1418, every retry times out too *)
  | RUnprep :: s => let '(it, s', l) := exec ps left s in (it, s', rq :: l)    (* :1479-1482 *)
  | RErr e :: s =>                                                        (* :1483-1484, query_executor.go:167-180 *)
      match left with
      | S left' => let '(it, s', l) := exec ps left' s in (it, s', rq :: l)
      | O => (err_iter e, s, [rq])
      end
  | RVoid :: s => (mkIter None 0 [] [] None, s, [rq])                     (* :1430-1431 *)
  | RPage rows more st mt :: s =>                                         (* :1432-1466 *)
      (mkIter None 0 (map (fun r => (r, used_meta mt)) rows) (if more then st else [])
              (if more && auto then Some (st, clamp1 (posf (length rows))) else None), s, [rq])
  end.

(* Query.Iter(): the first page is fetched synchronously *)
Definition open (ps : list Z) (srv : list reply) : mach :=
  let '(it, s, l) := exec ps n srv in mkMach it false None s l.

(* nextIter.fetch (session.go:1714-1725): the Once runs executeQuery at most once *)
Definition fetch (m : mach) : mach :=
  match m_fetched m with
  | Some _ => m
  | None =>
      match i_next (m_cur m) with
      | Some (ps, _) =>
          let '(it, s, l) := exec ps n (m_srv m) in
          mkMach (m_cur m) (m_oncea m) (Some it) s (m_reqs m ++ l)
      | None => m
      end
  end.

(* `*iter = *iter.next.fetch()` (after [fetch]): the caller's Iter becomes the fetched page *)
Definition switch (m : mach) : mach :=
  match m_fetched m with
  | Some it => mkMach it false None (m_srv m) (m_reqs m)
  | None => m
  end.

(* the goroutine spawned by fetchAsync (session.go:1708-1712) running `n.fetch()` *)
Definition async (m : mach) : mach := if m_oncea m then fetch m else m.

Definition set_oncea (m : mach) : mach := mkMach (m_cur m) true (m_fetched m) (m_srv m) (m_reqs m).
Definition set_cur (m : mach) (it : iter) : mach := mkMach it (m_oncea m) (m_fetched m) (m_srv m) (m_reqs m).
Definition bump (m : mach) : mach :=
  let it := m_cur m in set_cur m (mkIter (i_err it) (S (i_pos it)) (i_rows it) (i_ps it) (i_next it)).

(* Iter.Scan (session.go:1587-1631) with [pre] = true, iterScanner.Next (:1476-1502) with [pre] =
   false (Next has no fetchAsync).  The result is the row (None = the call returned false). *)
Fixpoint scan_go (pre : bool) (fuel : nat) (m : mach) : option drow * mach :=
  match fuel with
  | O => (None, set_cur m (err_iter E_fuel))
  | S f =>
      let it := m_cur m in
      match i_err it with
      | Some _ => (None, m)                                                   (* :1588 *)
      | None =>
          if (length (i_rows it) <=? i_pos it)%nat then                       (* :1592 pos >= numRows *)
            match i_next it with
            | Some _ => scan_go pre f (switch (fetch m))                      (* :1593-1595 *)
            | None => (None, m)                                               (* :1597 *)
            end
          else
            let m1 := match i_next it with
                      | Some (_, np) => if pre && (np <=? Z.of_nat (i_pos it)) then set_oncea m else m   (* :1600-1602 *)
                      | None => m
                      end in
            (nth_error (i_rows it) (i_pos it), bump m1)                       (* :1614-1630 *)
      end
  end.

(* enough fuel: every recursive call follows a page switch that uses up the prefetched page or one
   scripted answer, or produced an error page *)
Definition mu (m : mach) : nat := length (m_srv m) + (if m_fetched m then 1 else 0).

Definition scan (m : mach) : option drow * mach := scan_go true (mu m + 2) m.
Definition next (m : mach) : option drow * mach := scan_go false (mu m + 2) m.
(* helpers.go:433-452 *)
Definition map_scan (m : mach) : option drow * mach :=
  match i_err (m_cur m) with Some _ => (None, m) | None => scan m end.

(* k successive calls of a consumer function: what each returned, and the state afterwards *)
Fixpoint calls (call : mach -> option drow * mach) (k : nat) (m : mach) : list (option drow) * mach :=
  match k with
  | O => ([], m)
  | S k' => let '(o, m1) := call m in let '(os, m2) := calls call k' m1 in (o :: os, m2)
  end.

(* `for iter.Scan(...) { append }`: call until false.  None = out of fuel (never with [rows_left]) *)
Fixpoint drain (call : mach -> option drow * mach) (fuel : nat) (m : mach) : option (list drow * mach) :=
  match fuel with
  | O => None
  | S f =>
      match call m with
      | (Some r, m1) => match drain call f m1 with Some (l, m2) => Some (r :: l, m2) | None => None end
      | (None, m1) => Some ([], m1)
      end
  end.

Definition reply_rows (r : reply) : nat := match r with RPage rows _ _ _ => length rows | _ => 0%nat end.
Definition script_rows (s : list reply) : nat := fold_right (fun r n => (reply_rows r + n)%nat) 0%nat s.
Definition rows_left (m : mach) : nat :=
  (length (i_rows (m_cur m)) + match m_fetched m with Some it => length (i_rows it) | None => 0 end
   + script_rows (m_srv m))%nat.

(* helpers.go:376-393: (rows, nil) or (nil, err) *)
Definition slice_map (m : mach) : option (list drow * option Z * mach) :=
  match i_err (m_cur m) with
  | Some e => Some ([], Some e, m)
  | None =>
      match drain scan (S (rows_left m)) m with
      | Some (l, m') => match i_err (m_cur m') with Some e => Some ([], Some e, m') | None => Some (l, None, m') end
      | None => None
      end
  end.

(* Iter.Close() / Scanner.Err() return iter.err; Iter.PageState() returns meta.pagingState *)
Definition close (m : mach) : option Z := i_err (m_cur m).
Definition page_state (m : mach) : list Z := i_ps (m_cur m).

(* ---- schedules: the consumer's calls interleaved with the asynchronous prefetch ------------- *)
Inductive label := LScan | LMapScan | LAsync.

Definition step (m : mach) (l : label) : list (option drow) * mach :=
  match l with
  | LScan => let '(o, m') := scan m in ([o], m')
  | LMapScan => let '(o, m') := map_scan m in ([o], m')
  | LAsync => ([], async m)
  end.

Fixpoint sched (m : mach) (ls : list label) : list (option drow) * mach :=
  match ls with
  | [] => ([], m)
  | l :: t => let '(o, m1) := step m l in let '(os, m2) := sched m1 t in (o ++ os, m2)
  end.

(* Iter.SliceMap while the prefetch goroutine runs: [fires] says, for each successive Scan call of
   the loop, whether the spawned prefetch gets to run just before it (missing entries = no) *)
Fixpoint drain_sched (fuel : nat) (m : mach) (fires : list bool) : option (list drow * mach) :=
  match fuel with
  | O => None
  | S f =>
      let m0 := match fires with true :: _ => async m | _ => m end in
      match scan m0 with
      | (Some r, m1) => match drain_sched f m1 (tl fires) with Some (l, m2) => Some (r :: l, m2) | None => None end
      | (None, m1) => Some ([], m1)
      end
  end.

Definition slice_map_sched (m : mach) (fires : list bool) : option (list drow * option Z * mach) :=
  match i_err (m_cur m) with
  | Some e => Some ([], Some e, m)
  | None =>
      match drain_sched (S (rows_left m)) m fires with
      | Some (l, m') => match i_err (m_cur m') with Some e => Some ([], Some e, m') | None => Some (l, None, m') end
      | None => None
      end
  end.

End Paging.

(* ---- the caller's *Query handle ---------------------------------------------------------------
   Everything above takes the query's configuration as constants of one iteration.  In the Go code
   they are fields of the caller's *Query, which the caller may go on using after Iter() returned:
   re-bind it (Query.Bind), change options, start further iterators from it, Release it.  The
   iterator must not notice: Conn.executeQuery builds the query of the following page as a *copy*
   taken when the page arrived (`*newQry = *qry`, conn.go:1451-1454) and nextIter.fetch executes
   that copy (session.go:1716-1722), never the handle.  Here: an iterator [itr] stores the
   configuration it was started with and every later step of it reads that stored copy; the
   handle is a separate component that [HSet] overwrites. *)
Section Handle.
Variables R M Q : Type.

(* what Query.Iter() reads from the *Query *)
Record qconf := mkConf { f_q : Q; f_auto : bool; f_posf : nat -> Z; f_mm : meta_mode M; f_nr : nat; f_ps : list Z }.

Definition c_open (c : qconf) (srv : list (reply R M)) : mach R M Q :=
  open (f_q c) (f_auto c) (f_posf c) (f_mm c) (f_nr c) (f_ps c) srv.
Definition c_step (c : qconf) (m : mach R M Q) (l : label) := step (f_q c) (f_auto c) (f_posf c) (f_mm c) (f_nr c) m l.
Definition c_sched (c : qconf) (m : mach R M Q) (ls : list label) := sched (f_q c) (f_auto c) (f_posf c) (f_mm c) (f_nr c) m ls.

Record itr := mkItr { it_conf : qconf; it_mach : mach R M Q; it_outs : list (option (drow R M)) }.

(* the caller's program on one handle: overwrite the handle (any combination of Bind / option
   setters / Release+reuse), start an iterator from it against a server script, or let iterator
   number j do one step (a consumer call or its prefetch goroutine) *)
Inductive hop := HSet (c : qconf) | HIter (srv : list (reply R M)) | HStep (j : nat) (l : label).

Fixpoint upd_nth {A} (j : nat) (f : A -> A) (l : list A) : list A :=
  match l, j with
  | [], _ => []
  | x :: t, O => f x :: t
  | x :: t, S j' => x :: upd_nth j' f t
  end.

Definition itr_step (l : label) (it : itr) : itr :=
  let '(o, m') := c_step (it_conf it) (it_mach it) l in mkItr (it_conf it) m' (it_outs it ++ o).

Definition hstep (st : qconf * list itr) (o : hop) : qconf * list itr :=
  let '(h, its) := st in
  match o with
  | HSet c => (c, its)
  | HIter srv => (h, its ++ [mkItr h (c_open h srv) []])
  | HStep j l => (h, upd_nth j (itr_step l) its)
  end.

Definition hrun (st : qconf * list itr) (ops : list hop) : qconf * list itr := fold_left hstep ops st.

(* the steps of a program that are addressed to iterator j *)
Fixpoint labels_for (j : nat) (ops : list hop) : list label :=
  match ops with
  | [] => []
  | HStep i l :: t => if (i =? j)%nat then l :: labels_for j t else labels_for j t
  | _ :: t => labels_for j t
  end.

End Handle.

(* int((1 - prefetch) * float64(numRows)) for prefetch = num/den (den > 0): exact in float64 for the
   dyadic thresholds and page sizes the harness uses; int() truncates towards zero *)
Definition prefetch_pos (num den : Z) (n : nat) : Z := Z.quot ((den - num) * Z.of_nat n) den.

(* conn.go:1346-1348 with frame.go: a page size is sent iff it is positive *)
Definition wire_page_size (n : Z) : option Z := if 0 <? n then Some n else None.
