(* C15/Proofs4.v -- the lemmas Props.v closes its theorems with: the three per-call consumers,
   every schedule of the prefetch, manual paging. *)
From GocqlV Require Import Lib.Base C15.Model C15.Spec C15.Proofs1 C15.Proofs2 C15.Proofs3.

Set Implicit Arguments.

Section P4.
Variables (R M Q : Type) (q : Q) (posf : nat -> Z) (mm : meta_mode M) (nr : nat).

Notation machT := (mach R M Q).
Notation dr := (drow R M).

Notation req_of := (mk q).

Lemma map_repeat' {A B} (f : A -> B) x k : map f (repeat x k) = repeat (f x) k.
Proof. clear. induction k; cbn; congruence. Qed.

Lemma calls_ext (f g : machT -> option dr * machT) : (forall m, f m = g m) ->
  forall k m, calls f k m = calls g k m.
Proof.
  intros E. induction k as [|k IH]; intro m; cbn [calls]; [reflexivity|].
  rewrite E. destruct (g m) as [o m1]. rewrite IH. reflexivity.
Qed.

Definition outs_spec (rows : list dr) (k : nat) : list (option dr) :=
  map Some (firstn k rows) ++ repeat None (k - length rows).

(* ---- the per-call consumers, no prefetch running ---------------------------------------------- *)
Lemma consumer_calls auto (call : machT -> option dr * machT) pre ps (s : list (reply R M)) k :
  (forall m, call m = scanp q auto posf mm nr pre m) ->
  let r := calls call k (open q auto posf mm nr ps s) in
  fst r = outs_spec (spec_rows auto mm nr nr s) k
  /\ (exists tl, map req_of (spec_states auto nr nr ps s) = m_reqs (snd r) ++ tl)
  /\ ((length (spec_rows auto mm nr nr s) < k)%nat ->
      close (snd r) = spec_end auto nr nr s /\ m_reqs (snd r) = map req_of (spec_states auto nr nr ps s)).
Proof.
  intros E r. unfold r. rewrite (calls_ext _ _ E).
  destruct (calls (scanp q auto posf mm nr pre) k (open q auto posf mm nr ps s)) as [outs m'] eqn:H.
  exact (calls_open _ _ _ _ _ _ _ _ _ H).
Qed.

(* ---- every schedule --------------------------------------------------------------------------- *)
Lemma fetch_reqs auto (m : machT) : exists l, m_reqs (fetch q auto posf mm nr m) = m_reqs m ++ l.
Proof.
  unfold fetch. destruct (m_fetched m); [exists []; rewrite app_nil_r; reflexivity|].
  destruct (i_next (m_cur m)) as [[st np]|]; [|exists []; rewrite app_nil_r; reflexivity].
  destruct (exec q auto posf mm st nr (m_srv m)) as [[it s'] l]. exists l. reflexivity.
Qed.

Lemma async_reqs auto (m : machT) : exists l, m_reqs (async q auto posf mm nr m) = m_reqs m ++ l.
Proof.
  unfold async. destruct (m_oncea m); [apply fetch_reqs|exists []; rewrite app_nil_r; reflexivity].
Qed.

(* a landed prefetch has sent requests the iteration was going to send anyway *)
Lemma async_total auto (m : machT) : m_fetched m = None -> wf m ->
  exists tl, total q auto nr m = m_reqs (async q auto posf mm nr m) ++ tl.
Proof.
  intros Hf W. unfold async. destruct (m_oncea m) eqn:Ho; [|eexists; reflexivity].
  destruct (W Ho) as [He Hn]. unfold fetch. rewrite Hf.
  destruct (i_next (m_cur m)) as [[st np]|] eqn:En; [|congruence].
  destruct (exec q auto posf mm st nr (m_srv m)) as [[it s'] l] eqn:E.
  destruct (exec_spec q auto posf mm nr _ _ _ E) as (_ & _ & C). cbn [m_reqs].
  exists (map (mk q) (fut_states_i auto nr it s')). unfold total, fut_states, fut_states_i. rewrite He, En.
  rewrite <- app_assoc. f_equal. symmetry. exact C.
Qed.

Lemma rel_wf_right auto (a b : machT) : rel q auto posf mm nr a b -> wf b.
Proof.
  intros [[_ W]|(A1 & A2 & A3 & A4 & A5 & A6)]; [exact W|]. intros _. rewrite <- A3. auto.
Qed.

Lemma any_schedule auto ps (s : list (reply R M)) ls :
  let m0 := open q auto posf mm nr ps s in
  let r := sched q auto posf mm nr m0 ls in
  let c := calls (scan q auto posf mm nr) (ncalls ls) m0 in
  fst r = outs_spec (spec_rows auto mm nr nr s) (ncalls ls)
  /\ async q auto posf mm nr (snd r) = async q auto posf mm nr (snd c)
  /\ (exists tl, map req_of (spec_states auto nr nr ps s) = m_reqs (snd r) ++ tl)
  /\ ((length (spec_rows auto mm nr nr s) < ncalls ls)%nat ->
      snd r = snd c /\ close (snd r) = spec_end auto nr nr s /\ m_reqs (snd r) = map req_of (spec_states auto nr nr ps s)).
Proof.
  intros m0 r c.
  destruct (@sched_confluent R M Q q auto posf mm nr ls m0 m0 (@rel_refl_open R M Q q auto posf mm nr ps s)) as [S1 S2].
  fold m0 in S1, S2. fold r in S1, S2. fold c in S1, S2.
  assert (Hc : c = calls (scanp q auto posf mm nr true) (ncalls ls) m0) by reflexivity.
  destruct c as [outs mc] eqn:Ec. symmetry in Hc.
  destruct (open_spec q auto posf mm nr ps s) as (O1 & _ & O3 & O4 & O5). fold m0 in O1, O3, O4, O5.
  destruct (@calls_spec R M Q q auto posf mm nr true (ncalls ls) m0 outs mc O1 Hc) as (I1 & I2 & I3 & I4 & I5 & I6).
  cbn [fst snd] in *. pose proof (rel_settle S2) as St. pose proof (rel_wf_right S2) as W.
  split; [rewrite S1, I1, O3; reflexivity|]. split; [exact St|]. split.
  - destruct (@async_total auto mc I2 W) as [tl T]. destruct (async_reqs auto (snd r)) as [l L].
    exists (l ++ tl). rewrite app_assoc, <- L, St, <- T, I4, O5. reflexivity.
  - intro Hl. rewrite O3 in I6. destruct (I6 Hl) as [J1 J2].
    assert (Ho : m_oncea mc = false).
    { destruct (m_oncea mc) eqn:Ho; [|reflexivity]. destruct (W Ho) as [He Hn].
      unfold fut_states, fut_states_i in J2. rewrite He in J2.
      destruct (i_next (m_cur mc)) as [[st np]|]; [|congruence].
      destruct (m_srv mc) as [|x t]; cbn in J2; discriminate. }
    assert (E : snd r = mc).
    { destruct S2 as [[E _]|(A1 & A2 & _)]; [exact E|congruence]. }
    rewrite E. split; [reflexivity|]. split; [rewrite J1, O4; reflexivity|].
    rewrite <- O5, <- I4. unfold total. rewrite J2. cbn. rewrite app_nil_r. reflexivity.
Qed.

(* ---- SliceMap while the prefetch runs ---------------------------------------------------------- *)
Lemma slice_map_any_schedule auto ps (s : list (reply R M)) fires :
  slice_map_sched q auto posf mm nr (open q auto posf mm nr ps s) fires
  = slice_map q auto posf mm nr (open q auto posf mm nr ps s).
Proof.
  set (m0 := open q auto posf mm nr ps s).
  destruct (open_spec q auto posf mm nr ps s) as (O1 & _ & _ & _ & _). fold m0 in O1.
  unfold slice_map_sched, slice_map. destruct (i_err (m_cur m0)); [reflexivity|].
  pose proof (@drain_sched_rel R M Q q auto posf mm nr (S (rows_left m0)) m0 m0 fires (@rel_refl_open R M Q q auto posf mm nr ps s)) as D.
  fold m0 in D.
  destruct (@drain_spec R M Q q auto posf mm nr true (S (rows_left m0)) m0 O1) as (mb & Db & A & B & C & F).
  { pose proof (@fut_rows_le R M Q auto posf mm nr m0). lia. }
  change (scan q auto posf mm nr) with (@Proofs1.scanp R M Q q auto posf mm nr true) in *. rewrite Db in *.
  destruct (drain_sched q auto posf mm nr (S (rows_left m0)) m0 fires) as [[la ma]|]; [|contradiction].
  destruct D as [E Hr]. subst la.
  assert (Em : ma = mb).
  { pose proof (rel_wf_right Hr) as W.
    destruct Hr as [[E _]|(A1 & A2 & A3 & _)]; [exact E|]. exfalso.
    destruct (W A2) as [He Hn]. unfold fut_states, fut_states_i in F. rewrite He in F.
    destruct (i_next (m_cur mb)) as [[st np]|]; [|congruence].
    destruct (m_srv mb) as [|x t]; cbn in F; discriminate. }
  rewrite Em. reflexivity.
Qed.

End P4.

(* ---- manual paging (no retry policy) ------------------------------------------------------------ *)
Section P4m.
Variables (R M Q : Type) (q : Q) (posf : nat -> Z) (mm : meta_mode M).
Notation machT := (mach R M Q).
Notation req_of := (mk q).

Lemma exec_manual : forall (s : list (reply R M)) ps it s' l, exec q false posf mm ps 0 s = (it, s', l) ->
  i_next it = None
  /\ match first_answer s with
     | Some (RPage rows more st mt) => i_err it = None /\ i_ps it = (if more then st else [])
     | _ => True
     end.
Proof.
  induction s as [|r s IH]; intros ps it s' l H; cbn [exec] in H.
  - inversion H; subst. cbn. auto.
  - destruct r as [rows more st mt|e| |].
    + inversion H; subst. cbn. rewrite andb_false_r. auto.
    + inversion H; subst. cbn. auto.
    + inversion H; subst. cbn. auto.
    + destruct (exec q false posf mm ps 0 s) as [[it0 s0] l0] eqn:E. inversion H; subst. cbn [first_answer].
      exact (IH _ _ _ _ E).
Qed.

Lemma manual_any_schedule ps (s : list (reply R M)) ls :
  let r := sched q false posf mm 0 (open q false posf mm 0 ps s) ls in
  fst r = outs_spec (match first_answer s with Some r => fin_rows mm r | None => [] end) (ncalls ls)
  /\ m_reqs (snd r) = repeat (req_of ps) (S (unpreps s))
  /\ (forall rows more st mt, first_answer s = Some (RPage rows more st mt) ->
        page_state (snd r) = (if more then st else []) /\ close (snd r) = None)
  /\ (forall e, first_answer s = Some (RErr R M e) -> close (snd r) = Some e)
  /\ (first_answer s = None -> close (snd r) = Some E_noreply).
Proof.
  intro r. destruct (any_schedule q posf mm 0 false ps s ls) as (A1 & _ & _ & _). fold r in A1.
  rewrite spec_rows_manual in A1. split; [exact A1|].
  set (m0 := open q false posf mm 0 ps s) in *.
  assert (Hq : quiet m0 /\ m_reqs m0 = repeat (req_of ps) (S (unpreps s))
               /\ match first_answer s with
                  | Some (RPage rows more st mt) => i_err (m_cur m0) = None /\ i_ps (m_cur m0) = (if more then st else [])
                  | _ => True end
               /\ fut_end false 0 m0 = spec_end false 0 0 s).
  { destruct (open_spec q false posf mm 0 ps s) as (O1 & _ & _ & O4 & O5). fold m0 in O1, O4, O5.
    unfold m0, open in *. destruct (exec q false posf mm ps 0 s) as [[it s'] l] eqn:E. cbn in *.
    destruct (exec_manual _ _ E) as [N P]. split; [split; auto|]. split; [|split; [exact P|exact O4]].
    unfold total, fut_states, fut_states_i in O5. cbn in O5. rewrite N in O5.
    replace (match i_err it with Some _ => [] | None => [] end) with (@nil (list Z)) in O5 by (destruct (i_err it); reflexivity).
    cbn in O5. rewrite app_nil_r in O5. rewrite O5, spec_states_manual, map_repeat'. reflexivity. }
  destruct Hq as (Hq & Hr & Hp & He).
  destruct r as [os m'] eqn:Er. cbn [fst snd] in *.
  destruct (@sched_quiet R M Q q false posf mm 0 ls m0 os m' Hq Er) as (Q1 & Q2 & Q3 & Q4).
  split; [congruence|]. unfold page_state, close. rewrite Q3, Q4.
  assert (X : i_err (m_cur m0) = spec_end false 0 0 s).
  { rewrite <- He. unfold fut_end, fut_end_i. destruct Hq as [Hn _]. rewrite Hn. destruct (i_err (m_cur m0)); reflexivity. }
  rewrite X, spec_end_manual. split; [|split].
  - intros rows more st mt F. rewrite F in *. destruct Hp as [_ P]. auto.
  - intros e F. rewrite F. reflexivity.
  - intros F. rewrite F. reflexivity.
Qed.

End P4m.
