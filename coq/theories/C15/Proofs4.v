(* C15/Proofs4.v -- the lemmas Props.v closes its theorems with: the three per-call consumers,
   every schedule of the prefetch, manual paging. *)
From GocqlV Require Import Lib.Base C15.Model C15.Spec C15.Proofs1 C15.Proofs2 C15.Proofs3.

Set Implicit Arguments.

Section P4.
Variables (R Q : Type) (q : Q) (posf : nat -> Z).

Notation machT := (mach R Q).

Notation req_of := (mk q).

Lemma map_repeat' {A B} (f : A -> B) x n : map f (repeat x n) = repeat (f x) n.
Proof. induction n; cbn; congruence. Qed.

Lemma calls_ext (f g : machT -> option R * machT) : (forall m, f m = g m) ->
  forall k m, calls f k m = calls g k m.
Proof.
  intros E. induction k as [|k IH]; intro m; cbn [calls]; [reflexivity|].
  rewrite E. destruct (g m) as [o m1]. rewrite IH. reflexivity.
Qed.

Definition outs_spec (rows : list R) (k : nat) : list (option R) :=
  map Some (firstn k rows) ++ repeat None (k - length rows).

(* ---- the per-call consumers, no prefetch running ---------------------------------------------- *)
Lemma consumer_calls auto (call : machT -> option R * machT) pre ps (s : list (reply R)) k :
  (forall m, call m = scanp q auto posf pre m) ->
  let r := calls call k (open q auto posf ps s) in
  fst r = outs_spec (spec_rows auto s) k
  /\ (exists tl, map req_of (spec_states auto ps s) = m_reqs (snd r) ++ tl)
  /\ ((length (spec_rows auto s) < k)%nat ->
      close (snd r) = spec_end auto s /\ m_reqs (snd r) = map req_of (spec_states auto ps s)).
Proof.
  intros E r. unfold r. rewrite (calls_ext _ _ E).
  destruct (calls (scanp q auto posf pre) k (open q auto posf ps s)) as [outs m'] eqn:H.
  exact (calls_open _ _ _ _ _ _ _ H).
Qed.

(* ---- every schedule --------------------------------------------------------------------------- *)
Lemma fetch_reqs auto (m : machT) : exists l, m_reqs (fetch q auto posf m) = m_reqs m ++ l.
Proof.
  unfold fetch. destruct (m_fetched m); [exists []; rewrite app_nil_r; reflexivity|].
  destruct (i_next (m_cur m)) as [[st np]|]; [|exists []; rewrite app_nil_r; reflexivity].
  destruct (exec q auto posf st (m_srv m)) as [[it s'] l]. exists l. reflexivity.
Qed.

Lemma async_reqs auto (m : machT) : exists l, m_reqs (async q auto posf m) = m_reqs m ++ l.
Proof.
  unfold async. destruct (m_oncea m); [apply fetch_reqs|exists []; rewrite app_nil_r; reflexivity].
Qed.

(* a landed prefetch has sent requests the iteration was going to send anyway *)
Lemma async_total auto (m : machT) : m_fetched m = None -> wf m ->
  exists tl, total q auto m = m_reqs (async q auto posf m) ++ tl.
Proof.
  intros Hf W. unfold async. destruct (m_oncea m) eqn:Ho; [|eexists; reflexivity].
  destruct (W Ho) as [He Hn]. unfold fetch. rewrite Hf.
  destruct (i_next (m_cur m)) as [[st np]|] eqn:En; [|congruence].
  destruct (exec q auto posf st (m_srv m)) as [[it s'] l] eqn:E.
  destruct (exec_spec _ _ _ _ _ E) as (_ & _ & C). cbn [m_reqs].
  exists (map (mk q) (fut_states_i auto it s')). unfold total, fut_states, fut_states_i. rewrite He, En.
  rewrite <- app_assoc. f_equal. symmetry. exact C.
Qed.

Lemma rel_wf_right auto (a b : machT) : rel q auto posf a b -> wf b.
Proof.
  intros [[_ W]|(A1 & A2 & A3 & A4 & A5 & A6)]; [exact W|]. intros _. rewrite <- A3. auto.
Qed.

Lemma any_schedule auto ps (s : list (reply R)) ls :
  let m0 := open q auto posf ps s in
  let r := sched q auto posf m0 ls in
  let c := calls (scan q auto posf) (ncalls ls) m0 in
  fst r = outs_spec (spec_rows auto s) (ncalls ls)
  /\ async q auto posf (snd r) = async q auto posf (snd c)
  /\ (exists tl, map req_of (spec_states auto ps s) = m_reqs (snd r) ++ tl)
  /\ ((length (spec_rows auto s) < ncalls ls)%nat ->
      snd r = snd c /\ close (snd r) = spec_end auto s /\ m_reqs (snd r) = map req_of (spec_states auto ps s)).
Proof.
  intros m0 r c.
  destruct (@sched_confluent R Q q auto posf ls m0 m0 (@rel_refl_open R Q q auto posf ps s)) as [S1 S2].
  fold m0 in S1, S2. fold r in S1, S2. fold c in S1, S2.
  assert (Hc : c = calls (scanp q auto posf true) (ncalls ls) m0) by reflexivity.
  destruct c as [outs mc] eqn:Ec. symmetry in Hc.
  destruct (open_spec q auto posf ps s) as (O1 & _ & O3 & O4 & O5). fold m0 in O1, O3, O4, O5.
  destruct (@calls_spec R Q q auto posf true (ncalls ls) m0 outs mc O1 Hc) as (I1 & I2 & I3 & I4 & I5 & I6).
  cbn [fst snd] in *. pose proof (rel_settle S2) as St. pose proof (rel_wf_right S2) as W.
  split; [rewrite S1, I1, O3; reflexivity|]. split; [exact St|]. split.
  - destruct (@async_total auto mc I2 W) as [tl T]. destruct (async_reqs auto (snd r)) as [l L].
    exists (l ++ tl). rewrite app_assoc, <- L, St, <- T, I4, O5. reflexivity.
  - intro Hl. rewrite O3 in I6. destruct (I6 Hl) as [J1 J2].
    assert (Ho : m_oncea mc = false).
    { destruct (m_oncea mc) eqn:Ho; [|reflexivity]. destruct (W Ho) as [He Hn].
      unfold fut_states, fut_states_i in J2. rewrite He in J2.
      destruct (i_next (m_cur mc)) as [[st np]|]; [|congruence].
      destruct (m_srv mc) as [|x t]; cbn in J2; discriminate. }
    assert (E : snd r = mc).
    { destruct S2 as [[E _]|(A1 & A2 & _)]; [exact E|congruence]. }
    rewrite E. split; [reflexivity|]. split; [rewrite J1, O4; reflexivity|].
    rewrite <- O5, <- I4. unfold total. rewrite J2. cbn. rewrite app_nil_r. reflexivity.
Qed.

(* ---- manual paging ------------------------------------------------------------------------------ *)
Lemma exec_manual : forall (s : list (reply R)) ps it s' l, exec q false posf ps s = (it, s', l) ->
  i_next it = None
  /\ match first_answer s with
     | Some (RPage rows more st) => i_err it = None /\ i_ps it = (if more then st else [])
     | _ => True
     end.
Proof.
  induction s as [|r s IH]; intros ps it s' l H; cbn [exec] in H.
  - inversion H; subst. cbn. auto.
  - destruct r as [rows more st|e| |].
    + inversion H; subst. cbn. rewrite andb_false_r. auto.
    + inversion H; subst. cbn. auto.
    + inversion H; subst. cbn. auto.
    + destruct (exec q false posf ps s) as [[it0 s0] l0] eqn:E. inversion H; subst. cbn [first_answer].
      exact (IH _ _ _ _ E).
Qed.

Lemma manual_any_schedule ps (s : list (reply R)) ls :
  let r := sched q false posf (open q false posf ps s) ls in
  fst r = outs_spec (match first_answer s with Some (RPage rows _ _) => rows | _ => [] end) (ncalls ls)
  /\ m_reqs (snd r) = repeat (req_of ps) (S (unpreps s))
  /\ (forall rows more st, first_answer s = Some (RPage rows more st) ->
        page_state (snd r) = (if more then st else []) /\ close (snd r) = None)
  /\ (forall e, first_answer s = Some (RErr R e) -> close (snd r) = Some e)
  /\ (first_answer s = None -> close (snd r) = Some E_noreply).
Proof.
  intro r. destruct (any_schedule false ps s ls) as (A1 & _ & _ & _). fold r in A1.
  rewrite spec_rows_manual in A1. split; [exact A1|].
  set (m0 := open q false posf ps s) in *.
  assert (Hq : quiet m0 /\ m_reqs m0 = repeat (req_of ps) (S (unpreps s))
               /\ match first_answer s with
                  | Some (RPage rows more st) => i_err (m_cur m0) = None /\ i_ps (m_cur m0) = (if more then st else [])
                  | _ => True end
               /\ fut_end false m0 = spec_end false s).
  { destruct (open_spec q false posf ps s) as (O1 & _ & _ & O4 & O5). fold m0 in O1, O4, O5.
    unfold m0, open in *. destruct (exec q false posf ps s) as [[it s'] l] eqn:E. cbn in *.
    destruct (exec_manual _ _ E) as [N P]. split; [split; auto|]. split; [|split; [exact P|exact O4]].
    unfold total, fut_states, fut_states_i in O5. cbn in O5. rewrite N in O5.
    replace (match i_err it with Some _ => [] | None => [] end) with (@nil (list Z)) in O5 by (destruct (i_err it); reflexivity).
    cbn in O5. rewrite app_nil_r in O5. rewrite O5, spec_states_manual, map_repeat'. reflexivity. }
  destruct Hq as (Hq & Hr & Hp & He).
  destruct r as [os m'] eqn:Er. cbn [fst snd] in *.
  destruct (@sched_quiet R Q q false posf ls m0 os m' Hq Er) as (Q1 & Q2 & Q3 & Q4).
  split; [congruence|]. unfold page_state, close. rewrite Q3, Q4.
  assert (X : i_err (m_cur m0) = spec_end false s).
  { rewrite <- He. unfold fut_end, fut_end_i. destruct Hq as [Hn _]. rewrite Hn. destruct (i_err (m_cur m0)); reflexivity. }
  rewrite X, spec_end_manual. split; [|split].
  - intros rows more st F. rewrite F in *. destruct Hp as [_ P]. auto.
  - intros e F. rewrite F. reflexivity.
  - intros F. rewrite F. reflexivity.
Qed.

End P4.
