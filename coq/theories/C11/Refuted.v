(* C11/Refuted.v
   (a) a full statement the current model (= the current code) still violates: the pick counter beyond the
       stated range (needs 2^63 Picks; outside the property's quantifier);
   (b) regression facts about the three defects of tokenAwareHostPolicy.Pick that were repaired in /repo
       (tools/props/C11.findings.json, status fixed): the PRE-FIX generator, kept here as a separate
       definition, shows the defect on the recorded witness; the current model does not. *)
From GocqlV Require Import Lib.Base C11.Model C11.Spec C11.Proofs1 C11.Proofs2 C11.Proofs3 C11.Proofs4 C11.Proofs5.

Definition all_up : Z -> bool := fun _ => true.
Definition dA := mkHost 1 1 1 1.
Definition dB := mkHost 2 2 1 1.
Definition dC := mkHost 3 3 1 1.

(* ---- (a) the counter bound in the theorems is needed ------------------------------------------------------
   int(uint64 counter) is negative from 2^63 on, and shift+currentlyObserved wraps just below it. *)
Theorem rr_counter_wrap_panic_refuted :
  let c := mkCfg PRR false false false in
  exists s, run c (sys_init c)
              [LOp (OAdd dA); LOp (OAdd dB); LOp (OAdd dC); LSetState 1 node_up; LSetState 2 node_up; LSetState 3 node_up;
               LSetCtr (2 ^ 63 - 3); LPick 0 QFallback; LNext 0; LNext 0]
            = Some (s, [(0%nat, Offer dB); (0%nat, Panic)]).
Proof. cbn zeta. eexists. vm_compute. reflexivity. Qed.

(* ---- (b) the generator before the repairs ------------------------------------------------------------------ *)
Module Old.
  (* first loop: no look at `used` *)
  Fixpoint phase1 (k : pkind) (nlrf : bool) (up : Z -> bool) (reps : list host) (remote : list (list host)) : p1_res :=
    match reps with
    | [] => P1Done remote
    | h :: rest =>
        match host_tier k h with
        | O => if up (hid h) then P1Found h rest remote else phase1 k nlrf up rest remote
        | S t => phase1 k nlrf up rest (if nlrf then app_at remote t h else remote)
        end
    end.

  (* second loop: `for j < len(remote) && k < len(remote[j])` - an empty tier ends it *)
  Fixpoint p2_inner (up : Z -> bool) (rest : list (list host)) (next_tier : p2_res) (cur : list host) : p2_res :=
    match cur with
    | [] => P2Done ([] :: rest)
    | h :: cur' =>
        match cur' with
        | [] => if up (hid h) then P2Found h rest else next_tier
        | _ :: _ => if up (hid h) then P2Found h (cur' :: rest) else p2_inner up rest next_tier cur'
        end
    end.
  Fixpoint phase2 (up : Z -> bool) (rem : list (list host)) : p2_res :=
    match rem with
    | [] => P2Done []
    | cur :: rest => p2_inner up rest (phase2 up rest) cur
    end.

  Definition next (nlrf : bool) (up : Z -> bool) (p : policy) (it : ta_iter) : outcome * ta_iter * policy :=
    match phase1 (pk p) nlrf up (ti_reps it) (ti_remote it) with
    | P1Found h rest remote => (Offer h, mkTA rest remote (hid h :: ti_used it) (ti_fb it), p)
    | P1Done remote =>
        match (if nlrf then phase2 up remote else P2Done remote) with
        | P2Found h rem => (Offer h, mkTA [] rem (hid h :: ti_used it) (ti_fb it), p)
        | P2Done rem =>
            let '(fb, p') := match ti_fb it with Some fb => (fb, p) | None => rr_pick p end in
            let '(o, fb', used') := ta_phase3 up (ti_used it) fb (S (rr_size fb)) in
            (o, mkTA [] rem used' (Some fb'), p')
        end
    end.
  Definition step (nlrf : bool) (up : Z -> bool) (st : ta_iter * policy) : outcome * (ta_iter * policy) :=
    let '(o, it', p') := next nlrf up (snd st) (fst st) in (o, (it', p')).
End Old.

(* fixed: ta-tier-gap-remote-replica-late.  rack-aware (dc 1, rack 1) + NonLocalReplicasFallback; L1, L2 local,
   R1, R2 in data centre 2, all up; replicas [L1; R1] (none in tier 1, one in tier 2). *)
Definition gL1 := mkHost 1 1 1 1.
Definition gL2 := mkHost 2 2 1 1.
Definition gR1 := mkHost 3 3 2 1.
Definition gR2 := mkHost 4 4 2 1.
Definition gap_policy : policy := mkPolicy (PRack 1 1) [[gL1; gL2]; []; [gR1; gR2]] 0.

Example ta_tier_gap_before_fix :
  exists st', yields (Old.step true all_up) (ta_pick (PRack 1 1) true [gL1; gR1], gap_policy) [gL1; gL2; gR1; gR2] st'.
Proof.
  eexists. eapply yields_cons; [vm_compute; reflexivity|]. eapply yields_cons; [vm_compute; reflexivity|].
  eapply yields_cons; [vm_compute; reflexivity|]. eapply yields_cons; [vm_compute; reflexivity|].
  eapply yields_nil. vm_compute. reflexivity.
Qed.

Example ta_tier_gap_after_fix :
  exists st', yields (ta_step true all_up) (ta_pick (PRack 1 1) true [gL1; gR1], gap_policy) [gL1; gR1; gL2; gR2] st'
  /\ spec_ta all_up (host_tier (PRack 1 1)) 2 true [gL1; gR1] (plists gap_policy) (Z.to_nat (pctr gap_policy + 2))
     = [gL1; gR1; gL2; gR2].
Proof.
  eexists. split; [|vm_compute; reflexivity].
  eapply yields_cons; [vm_compute; reflexivity|]. eapply yields_cons; [vm_compute; reflexivity|].
  eapply yields_cons; [vm_compute; reflexivity|]. eapply yields_cons; [vm_compute; reflexivity|].
  eapply yields_nil. vm_compute. reflexivity.
Qed.

(* fixed: ta-duplicate-replica-offered-twice.  replicas [A; A] over plain round-robin. *)
Definition dup_policy : policy := mkPolicy PRR [[dA; dB; dC]] 0.

Example ta_duplicate_replica_before_fix :
  exists st', yields (Old.step false all_up) (ta_pick PRR false [dA; dA], dup_policy) [dA; dA; dC; dB] st'.
Proof.
  eexists. eapply yields_cons; [vm_compute; reflexivity|]. eapply yields_cons; [vm_compute; reflexivity|].
  eapply yields_cons; [vm_compute; reflexivity|]. eapply yields_cons; [vm_compute; reflexivity|].
  eapply yields_nil. vm_compute. reflexivity.
Qed.

Example ta_duplicate_replica_after_fix :
  exists st', yields (ta_step false all_up) (ta_pick PRR false [dA; dA], dup_policy) [dA; dC; dB] st'.
Proof.
  eexists. eapply yields_cons; [vm_compute; reflexivity|]. eapply yields_cons; [vm_compute; reflexivity|].
  eapply yields_cons; [vm_compute; reflexivity|]. eapply yields_nil. vm_compute. reflexivity.
Qed.

(* fixed: ta-empty-ring-nil-deref.  A ring without tokens: Pick now hands out the fallback's generator
   (before: replicas = [nil], nil dereference in the first call over a DC-/rack-aware fallback). *)
Example ta_empty_ring_after_fix :
  let c := mkCfg (PDC 1) true false false in
  exists s, run c (sys_init c) [LOp (OAdd dA); LSetState 1 node_up; LPick 0 (QKey None None []); LNext 0; LNext 0]
            = Some (s, [(0%nat, Offer dA); (0%nat, Nil)]).
Proof. cbn zeta. eexists. vm_compute. reflexivity. Qed.
