(* C11/Refuted.v -- full statements the faithful model (= the real code) violates: machine-checked
   witnesses of the known findings, each replayed on the real implementation by the harness
   (tools/props/C11.findings.json). *)
From GocqlV Require Import Lib.Base C11.Model C11.Spec C11.Proofs1 C11.Proofs2 C11.Proofs3 C11.Proofs4 C11.Proofs5.

Definition all_up : Z -> bool := fun _ => true.

(* ---- F-C11-1: ta-tier-gap-remote-replica-late ---------------------------------------------------------
   rack-aware (local dc 1, rack 1) + NonLocalReplicasFallback; L1, L2 local; R1, R2 in data centre 2; all
   up; replicas of the token [L1; R1]: no replica in tier 1, one in tier 2.  The generator offers
   [L1; L2; R1; R2]: the remote replica R1 comes after the non-replica L2.  The specification (and
   C11_ta_offers, whose [no_gap] hypothesis excludes exactly this) demands [L1; R1; L2; R2]. *)
Definition gL1 := mkHost 1 1 1 1.
Definition gL2 := mkHost 2 2 1 1.
Definition gR1 := mkHost 3 3 2 1.
Definition gR2 := mkHost 4 4 2 1.
Definition gap_policy : policy := mkPolicy (PRack 1 1) [[gL1; gL2]; []; [gR1; gR2]] 0.

Theorem ta_tier_gap_refuted :
  exists st',
    ctr_in_range gap_policy /\ NoDup (map hid [gL1; gR1]) /\ NoDup (map hid (concat (plists gap_policy))) /\
    yields (ta_step true all_up) (ta_pick (PRack 1 1) true (map Some [gL1; gR1]), gap_policy) [gL1; gL2; gR1; gR2] st' /\
    spec_ta all_up (host_tier (PRack 1 1)) 2 true [gL1; gR1] (plists gap_policy) (Z.to_nat (pctr gap_policy + 2))
      = [gL1; gR1; gL2; gR2] /\
    ~ no_gap (far_tiers (PRack 1 1) [gL1; gR1]).
Proof.
  eexists. split; [split; vm_compute; [discriminate | reflexivity]|].
  split; [repeat constructor; simpl; intuition discriminate|].
  split; [repeat constructor; simpl; intuition discriminate|].
  split; [|split; [vm_compute; reflexivity|]].
  - eapply yields_cons; [vm_compute; reflexivity|]. eapply yields_cons; [vm_compute; reflexivity|].
    eapply yields_cons; [vm_compute; reflexivity|]. eapply yields_cons; [vm_compute; reflexivity|].
    eapply yields_nil. vm_compute. reflexivity.
  - intros H. specialize (H 0%nat 1%nat (Nat.lt_0_succ 0) eq_refl). vm_compute in H. discriminate.
Qed.

(* ---- ta-duplicate-replica-offered-twice ------------------------------------------------------------------
   (consequence of C10's nts-duplicate-replica)  replicas [A; A] over plain round-robin: A is offered twice. *)
Definition dA := mkHost 1 1 1 1.
Definition dB := mkHost 2 2 1 1.
Definition dC := mkHost 3 3 1 1.
Definition dup_policy : policy := mkPolicy PRR [[dA; dB; dC]] 0.

Theorem ta_duplicate_replica_refuted :
  exists st',
    ctr_in_range dup_policy /\ NoDup (map hid (concat (plists dup_policy))) /\
    yields (ta_step false all_up) (ta_pick PRR false (map Some [dA; dA]), dup_policy) [dA; dA; dC; dB] st' /\
    ~ no_host_twice [dA; dA; dC; dB].
Proof.
  eexists. split; [split; vm_compute; [discriminate | reflexivity]|].
  split; [repeat constructor; simpl; intuition discriminate|]. split.
  - eapply yields_cons; [vm_compute; reflexivity|]. eapply yields_cons; [vm_compute; reflexivity|].
    eapply yields_cons; [vm_compute; reflexivity|]. eapply yields_cons; [vm_compute; reflexivity|].
    eapply yields_nil. vm_compute. reflexivity.
  - unfold no_host_twice. simpl. intros H. inversion H as [|? ? Hx _]; subst. apply Hx. left. reflexivity.
Qed.

(* ---- ta-empty-ring-nil-deref ------------------------------------------------------------------------------
   token-aware over DC-aware: the ring has no token, Pick builds replicas = [nil]; the first call panics.
   (C11_no_panic_any_interleaving excludes this through [label_ok].) *)
Theorem ta_empty_ring_panic_refuted :
  let c := mkCfg (PDC 1) true false false in
  exists s, run c (sys_init c) [LOp (OAdd dA); LSetState 1 node_up; LPick 0 (QKey None None []); LNext 0]
            = Some (s, [(0%nat, Panic)]).
Proof. cbn zeta. eexists. vm_compute. reflexivity. Qed.

(* the same history over the plain round-robin policy is harmless: the nil entry is skipped *)
Example ta_empty_ring_rr_ok :
  let c := mkCfg PRR true false false in
  exists s, run c (sys_init c) [LOp (OAdd dA); LSetState 1 node_up; LPick 0 (QKey None None []); LNext 0; LNext 0]
            = Some (s, [(0%nat, Offer dA); (0%nat, Nil)]).
Proof. cbn zeta. eexists. vm_compute. reflexivity. Qed.

(* ---- outside the stated quantifier (needs 2^63 Picks): the counter bound in the theorems is needed ----------
   int(uint64 counter) is negative from 2^63 on, and shift+currentlyObserved wraps just below it. *)
Theorem rr_counter_wrap_panic_refuted :
  let c := mkCfg PRR false false false in
  exists s, run c (sys_init c)
              [LOp (OAdd dA); LOp (OAdd dB); LOp (OAdd dC); LSetState 1 node_up; LSetState 2 node_up; LSetState 3 node_up;
               LSetCtr (2 ^ 63 - 3); LPick 0 QFallback; LNext 0; LNext 0]
            = Some (s, [(0%nat, Offer dB); (0%nat, Panic)]).
Proof. cbn zeta. eexists. vm_compute. reflexivity. Qed.
