(* C11/Proofs2.v -- the layered round-robin generator: one call characterised against the list of hosts
   still to come, the closed form of the whole sequence, exhaustion. *)
From Coq Require Import Permutation.
From GocqlV Require Import Lib.Base C11.Model C11.Spec C11.Proofs1.

(* the rotation the generator applies to a layer: it looks at indices (shift+1)%n, (shift+2)%n, ... *)
Definition rr_rot (shift : Z) (l : list host) : list host := rotl (Z.to_nat (shift + 1)) l.

Lemma rr_rot_length shift l : length (rr_rot shift l) = length l.
Proof. apply rotl_length. Qed.

Lemma rr_index_rot shift l c :
  0 <= shift -> shift + Z.of_nat (length l) < 2 ^ 63 -> (1 <= c <= length l)%nat ->
  0 <= rr_index shift c (length l) /\
  nth_error l (Z.to_nat (rr_index shift c (length l))) = nth_error (rr_rot shift l) (c - 1).
Proof.
  intros Hs Hb Hc. set (n := length l) in *. assert (Hn : (0 < n)%nat) by lia.
  unfold rr_index, signed.
  assert (Hx : 0 <= shift + Z.of_nat c < 2 ^ 63) by lia.
  assert (E64 : (2:Z) ^ 64 = 2 * 2 ^ 63) by reflexivity.
  rewrite (Z.mod_small (shift + Z.of_nat c) (2 ^ 64)) by lia.
  replace (64 - 1) with 63 by reflexivity.
  destruct (Z.ltb_spec (shift + Z.of_nat c) (2 ^ 63)) as [_|Hbad]; [|lia].
  rewrite Z.rem_mod_nonneg by lia.
  set (S1 := Z.to_nat (shift + 1)).
  assert (Ex : shift + Z.of_nat c = Z.of_nat (S1 + (c - 1))).
  { unfold S1. rewrite Nat2Z.inj_add, Z2Nat.id by lia. lia. }
  rewrite Ex, <- Nat2Z.inj_mod. split; [lia|]. rewrite Nat2Z.id.
  unfold rr_rot. fold S1. rewrite rotl_rot_at. fold n.
  rewrite nth_error_rot_at; fold n.
  - rewrite Nat.add_mod_idemp_l by lia. reflexivity.
  - apply Nat.mod_upper_bound. lia.
  - lia.
Qed.

(* a linear scan for the first up host *)
Fixpoint lin_scan (up : Z -> bool) (rest : list host) (co : nat) : scan_res :=
  match rest with
  | [] => SEnd
  | h :: t => if up (hid h) then SFound h (S co) else lin_scan up t (S co)
  end.

Lemma rr_scan_lin up shift l : 0 <= shift -> shift + Z.of_nat (length l) < 2 ^ 63 ->
  forall rem co, (co + rem = length l)%nat ->
  rr_scan up shift l co rem = lin_scan up (skipn co (rr_rot shift l)) co.
Proof.
  intros Hs Hb. induction rem as [|rem IH]; intros co Hc.
  - simpl. rewrite skipn_all2 by (rewrite rr_rot_length; lia). reflexivity.
  - cbn [rr_scan]. destruct (rr_index_rot shift l (S co) Hs Hb) as [Hi Hn]; [lia|].
    destruct (Z.ltb_spec (rr_index shift (S co) (length l)) 0) as [Hbad|_]; [lia|].
    rewrite Hn. replace (S co - 1)%nat with co by lia.
    assert (Hlt : (co < length (rr_rot shift l))%nat) by (rewrite rr_rot_length; lia).
    destruct (nth_error (rr_rot shift l) co) as [h|] eqn:E; [|apply nth_error_None in E; lia].
    rewrite (skipn_nth_error _ _ _ E). cbn [lin_scan].
    destruct (up (hid h)); [reflexivity|]. apply IH. lia.
Qed.

Definition downs (up : Z -> bool) (l : list host) : Prop := Forall (fun h => up (hid h) = false) l.

Lemma ups_downs up l : downs up l -> ups up l = [].
Proof.
  unfold ups. induction 1 as [|h l Hh _ IH]; simpl; [reflexivity|]. rewrite Hh. assumption.
Qed.

Lemma ups_split up pre h post : downs up pre -> up (hid h) = true -> ups up (pre ++ h :: post) = h :: ups up post.
Proof.
  intros Hd Hu. unfold ups. rewrite filter_app. fold (ups up pre). rewrite ups_downs by assumption.
  simpl. rewrite Hu. reflexivity.
Qed.

Lemma lin_scan_spec up rest co :
  match lin_scan up rest co with
  | SFound h co' => exists pre post, rest = pre ++ h :: post /\ downs up pre /\ up (hid h) = true
                                      /\ co' = (co + length pre + 1)%nat
  | SEnd => downs up rest
  | SPanic => False
  end.
Proof.
  revert co; induction rest as [|h t IH]; intros co; simpl; [constructor|].
  destruct (up (hid h)) eqn:E.
  - exists [], t. repeat split; [constructor | assumption | simpl; lia].
  - specialize (IH (S co)). destruct (lin_scan up t (S co)) as [h' co'| |]; [| |tauto].
    + destruct IH as [pre [post [E1 [E2 [E3 E4]]]]]. exists (h :: pre), post. subst.
      repeat split; [constructor; assumption | assumption | simpl; lia].
    + constructor; assumption.
Qed.

(* the hosts still to come from a (layers, currentlyObserved) state *)
Definition fut (shift : Z) (layers : list (list host)) (co : nat) : list host :=
  match layers with
  | [] => []
  | l :: rest => skipn co (rr_rot shift l) ++ concat (map (rr_rot shift) rest)
  end.

Definition layers_ok (shift : Z) (layers : list (list host)) (co : nat) : Prop :=
  0 <= shift /\ Forall (fun l => shift + Z.of_nat (length l) < 2 ^ 63) layers /\
  match layers with [] => co = 0%nat | l :: _ => (co <= length l)%nat end.

Lemma rr_layers_spec up shift layers : forall co, layers_ok shift layers co ->
  match rr_layers up shift layers co with
  | (Offer h, (ls', co')) =>
      exists pre post, fut shift layers co = pre ++ h :: post /\ downs up pre /\ up (hid h) = true
                       /\ fut shift ls' co' = post /\ layers_ok shift ls' co'
  | (Nil, (ls', co')) => downs up (fut shift layers co) /\ ls' = [] /\ co' = 0%nat
  | (Panic, _) | (OutOfFuel, _) => False
  end.
Proof.
  induction layers as [|l rest IH]; intros co [Hs [Hb Hco]]; cbn [rr_layers].
  - repeat split. constructor.
  - inversion Hb as [|? ? Hbl Hbr]; subst.
    rewrite (rr_scan_lin up shift l Hs Hbl) by lia.
    pose proof (lin_scan_spec up (skipn co (rr_rot shift l)) co) as Hsc.
    destruct (lin_scan up (skipn co (rr_rot shift l)) co) as [h co'| |]; [| |tauto].
    + destruct Hsc as [pre [post [E1 [E2 [E3 E4]]]]].
      exists pre, (post ++ concat (map (rr_rot shift) rest)). cbn [fut]. rewrite E1.
      assert (Hlen : (co + length pre + 1 + length post = length l)%nat).
      { apply (f_equal (@length host)) in E1. rewrite skipn_length, rr_rot_length, app_length in E1.
        simpl in E1. lia. }
      repeat split.
      * rewrite <- app_assoc. reflexivity.
      * assumption.
      * assumption.
      * f_equal. subst co'.
        replace (co + length pre + 1)%nat with (co + (length pre + 1))%nat by lia.
        rewrite <- skipn_skipn, E1.
        replace (length pre + 1)%nat with (length (pre ++ [h])) by (rewrite app_length; simpl; lia).
        replace (pre ++ h :: post) with ((pre ++ [h]) ++ post) by (rewrite <- app_assoc; reflexivity).
        rewrite skipn_app, skipn_all, Nat.sub_diag. reflexivity.
      * assumption.
      * constructor; assumption.
      * lia.
    + assert (Hok : layers_ok shift rest 0).
      { repeat split; [assumption | assumption | destruct rest; [reflexivity | lia]]. }
      specialize (IH 0%nat Hok).
      assert (Hf : fut shift rest 0 = concat (map (rr_rot shift) rest)).
      { destruct rest as [|l' rest']; [reflexivity|]. reflexivity. }
      destruct (rr_layers up shift rest 0) as [[h| | |] [ls' co']]; try tauto.
      * destruct IH as [pre [post [E1 [E2 [E3 [E4 E5]]]]]].
        exists (skipn co (rr_rot shift l) ++ pre), post. cbn [fut]. rewrite <- Hf, E1.
        split; [rewrite <- app_assoc; reflexivity|].
        split; [apply Forall_app; split; assumption|].
        split; [assumption|]. split; assumption.
      * destruct IH as [E1 [E2 E3]]. split; [|split; assumption].
        cbn [fut]. rewrite <- Hf. apply Forall_app; split; assumption.
Qed.

Definition rr_future (it : rr_iter) : list host := fut (ri_shift it) (ri_layers it) (ri_co it).
Definition rr_inv (it : rr_iter) : Prop := layers_ok (ri_shift it) (ri_layers it) (ri_co it).

(* one call, any oracle: the offered host is the first up host of the remaining list *)
Lemma rr_next_spec up it : rr_inv it ->
  match rr_next up it with
  | (Offer h, it') => exists pre post, rr_future it = pre ++ h :: post /\ downs up pre /\ up (hid h) = true
                                        /\ rr_future it' = post /\ rr_inv it' /\ ri_shift it' = ri_shift it
  | (Nil, it') => downs up (rr_future it) /\ it' = mkRR (ri_shift it) [] 0
  | (Panic, _) | (OutOfFuel, _) => False
  end.
Proof.
  intros Hinv. unfold rr_next. pose proof (rr_layers_spec up _ _ _ Hinv) as H.
  destruct (rr_layers up (ri_shift it) (ri_layers it) (ri_co it)) as [[h| | |] [ls' co']]; try tauto.
  - destruct H as [pre [post H]]. exists pre, post. unfold rr_future, rr_inv. simpl. intuition.
  - destruct H as [H1 [-> ->]]. split; [assumption | reflexivity].
Qed.

Lemma rr_exhausted up shift : rr_next up (mkRR shift [] 0) = (Nil, mkRR shift [] 0).
Proof. reflexivity. Qed.

(* the whole sequence under a fixed oracle *)
Lemma rr_yields up : forall n it, length (rr_future it) = n -> rr_inv it ->
  yields (rr_next up) it (ups up (rr_future it)) (mkRR (ri_shift it) [] 0).
Proof.
  induction n as [n IH] using lt_wf_ind. intros it Hn Hinv.
  pose proof (rr_next_spec up it Hinv) as H.
  destruct (rr_next up it) as [[h| | |] it'] eqn:E; try tauto.
  - destruct H as [pre [post [E1 [E2 [E3 [E4 [E5 E6]]]]]]].
    rewrite E1, ups_split by assumption. rewrite <- E6.
    eapply yields_cons; [exact E|]. rewrite <- E4. eapply IH; [|reflexivity|assumption].
    rewrite E4. rewrite <- Hn, E1, app_length. simpl. lia.
  - destruct H as [H1 ->]. rewrite ups_downs by assumption. apply yields_nil. assumption.
Qed.

Lemma yields_fun {St} (next : St -> outcome * St) st hs st' hs2 st2 :
  yields next st hs st' -> yields next st hs2 st2 -> hs = hs2 /\ st' = st2.
Proof.
  intros H; revert hs2 st2; induction H as [st st' E|st h st1 hs st' E _ IH]; intros hs2 st2 H2;
    inversion H2 as [? ? E2|? ? ? ? ? E2 H3]; subst; rewrite E in E2; inversion E2; subst; auto.
  destruct (IH _ _ H3); subst; auto.
Qed.

(* Pick: the generator starts on the current lists with shift = the incremented counter.
   The counter is a uint64 converted to int: the conversion is the identity below 2^63. *)
Definition ctr_in_range (p : policy) : Prop :=
  0 <= pctr p /\ pctr p + 1 + Z.of_nat (length (concat (plists p))) < 2 ^ 63.

Lemma concat_length_bound {A} (ls : list (list A)) l : In l ls -> (length l <= length (concat ls))%nat.
Proof.
  induction ls as [|x ls IH]; simpl; intros H; [tauto|]. rewrite app_length.
  destruct H as [->|H]; [lia|]. apply IH in H. lia.
Qed.

Lemma rr_pick_spec p : ctr_in_range p ->
  let it := fst (rr_pick p) in
  rr_inv it /\ ri_shift it = pctr p + 1 /\ ri_layers it = plists p /\ ri_co it = 0%nat
  /\ rr_future it = concat (map (rr_rot (pctr p + 1)) (plists p))
  /\ snd (rr_pick p) = mkPolicy (pk p) (plists p) (pctr p + 1).
Proof.
  intros [H0 Hb]. cbn zeta. unfold rr_pick. cbn [fst snd].
  assert (E64 : (2:Z) ^ 64 = 2 * 2 ^ 63) by reflexivity.
  assert (Hw : wrap 64 (pctr p + 1) = pctr p + 1) by (unfold wrap; apply Z.mod_small; lia).
  assert (Hs : signed 64 (pctr p + 1) = pctr p + 1).
  { unfold signed. rewrite Z.mod_small by lia. replace (64 - 1) with 63 by reflexivity.
    destruct (Z.ltb_spec (pctr p + 1) (2 ^ 63)); lia. }
  rewrite Hw, Hs. unfold rr_inv, rr_future, layers_ok. cbn [ri_shift ri_layers ri_co].
  repeat split; try reflexivity; try lia.
  - apply Forall_forall. intros l Hl. apply concat_length_bound in Hl. lia.
  - destruct (plists p); [reflexivity | lia].
  - destruct (plists p) as [|l ls]; reflexivity.
Qed.

(* ---- the closed form is the specification's tiered list ------------------------------------------ *)
Lemma ups_concat up (ls : list (list host)) : ups up (concat ls) = concat (map (ups up) ls).
Proof.
  unfold ups. induction ls as [|l ls IH]; simpl; [reflexivity|]. rewrite filter_app, IH. reflexivity.
Qed.

Lemma rr_future_spec up shift ls :
  ups up (concat (map (rr_rot shift) ls)) = spec_rr up ls (Z.to_nat (shift + 1)).
Proof. rewrite ups_concat, map_map. reflexivity. Qed.

Lemma rr_sequence_lemma up p : ctr_in_range p ->
  yields (rr_next up) (fst (rr_pick p)) (spec_rr up (plists p) (Z.to_nat (pctr p + 2)))
         (mkRR (pctr p + 1) [] 0).
Proof.
  intros Hr. destruct (rr_pick_spec p Hr) as [Hinv [Hs [_ [_ [Hf _]]]]].
  replace (pctr p + 2) with (pctr p + 1 + 1) by lia.
  rewrite <- rr_future_spec, <- Hf, <- Hs. eapply rr_yields; [reflexivity | assumption].
Qed.

(* ---- what the specification's list satisfies ----------------------------------------------------- *)
Lemma In_ups up l h : In h (ups up l) <-> In h l /\ up (hid h) = true.
Proof. unfold ups. apply filter_In. Qed.

Lemma In_spec_rr up tiers start h :
  In h (spec_rr up tiers start) <-> In h (concat tiers) /\ up (hid h) = true.
Proof.
  unfold spec_rr. rewrite in_concat. split.
  - intros [l [Hl Hh]]. apply in_map_iff in Hl. destruct Hl as [l0 [<- Hl0]].
    apply In_ups in Hh. destruct Hh as [Hh Hu]. apply In_rotl in Hh.
    split; [apply in_concat; eauto | assumption].
  - intros [Hh Hu]. apply in_concat in Hh. destruct Hh as [l0 [Hl0 Hh]].
    exists (ups up (rotl start l0)). split; [apply in_map_iff; eauto|].
    apply In_ups. split; [apply In_rotl; assumption | assumption].
Qed.

Lemma spec_rr_only_up up tiers start : only_up up (spec_rr up tiers start).
Proof. intros h H. apply In_spec_rr in H. tauto. Qed.

Lemma spec_rr_complete up tiers start : complete up (concat tiers) (spec_rr up tiers start).
Proof. intros h H Hu. apply in_map. apply In_spec_rr. tauto. Qed.

Lemma NoDup_map_app {A B} (f : A -> B) (a b : list A) :
  NoDup (map f (a ++ b)) <-> NoDup (map f a) /\ NoDup (map f b) /\ (forall x y, In x a -> In y b -> f x <> f y).
Proof.
  rewrite map_app. split.
  - induction a as [|z a IH]; simpl; intros H.
    + split; [constructor|]. split; [assumption|]. intros x y [].
    + inversion H as [|? ? Hz Hn]; subst. destruct (IH Hn) as [Ha [Hb Hd]].
      split; [constructor; [intros Hin; apply Hz; apply in_or_app; left; assumption | assumption]|].
      split; [assumption|]. intros x y [->|Hx] Hy E; [|apply (Hd x y); assumption].
      apply Hz. apply in_or_app. right. rewrite E. apply in_map. assumption.
  - intros [Ha [Hb Hd]]. apply NoDup_app_intro'; auto. intros z Hz1 Hz2.
    apply in_map_iff in Hz1. destruct Hz1 as [x [Ex Hx]]. apply in_map_iff in Hz2. destruct Hz2 as [y [Ey Hy]].
    apply (Hd x y); congruence.
Qed.

Lemma NoDup_ids_ups_rotl up n l : NoDup (map hid l) -> NoDup (map hid (ups up (rotl n l))).
Proof.
  intros H. apply NoDup_map_filter. eapply Permutation_NoDup; [|exact H].
  apply Permutation_map. symmetry. apply rotl_perm.
Qed.

Lemma spec_rr_no_host_twice up tiers start :
  NoDup (map hid (concat tiers)) -> no_host_twice (spec_rr up tiers start).
Proof.
  unfold no_host_twice, spec_rr. induction tiers as [|l ls IH]; simpl; intros H; [constructor|].
  apply NoDup_map_app in H. destruct H as [Hl [Hls Hd]]. apply NoDup_map_app. split; [|split].
  - apply NoDup_ids_ups_rotl. assumption.
  - apply IH. assumption.
  - intros x y Hx Hy. apply In_ups in Hx. destruct Hx as [Hx _]. apply In_rotl in Hx.
    change (In y (spec_rr up ls start)) in Hy. apply In_spec_rr in Hy. apply Hd; tauto.
Qed.

(* positions in a concatenation are ordered by the index of the part they come from *)
Lemma concat_positions {A} (ls : list (list A)) i j a b :
  (i < j)%nat -> nth_error (concat ls) i = Some a -> nth_error (concat ls) j = Some b ->
  exists ti tj la lb, (ti <= tj)%nat /\ nth_error ls ti = Some la /\ nth_error ls tj = Some lb /\ In a la /\ In b lb.
Proof.
  revert i j; induction ls as [|l ls IH]; intros i j Hij Ha Hb; simpl in *; [destruct i; discriminate|].
  destruct (Nat.lt_ge_cases j (length l)) as [Hj|Hj].
  - rewrite nth_error_app1 in Ha, Hb by lia. exists 0%nat, 0%nat, l, l.
    repeat split; auto; eapply nth_error_In; eauto.
  - rewrite (nth_error_app2 _ _ Hj) in Hb.
    destruct (Nat.lt_ge_cases i (length l)) as [Hi|Hi].
    + rewrite nth_error_app1 in Ha by lia.
      assert (Hb' : In b (concat ls)) by (eapply nth_error_In; eauto).
      apply In_concat_nth in Hb'. destruct Hb' as [t [lb [Ht Hlb]]].
      exists 0%nat, (S t), l, lb. repeat split; auto; [lia | eapply nth_error_In; eauto].
    + rewrite (nth_error_app2 _ _ Hi) in Ha.
      destruct (IH (i - length l)%nat (j - length l)%nat) as [ti [tj [la [lb [H1 [H2 [H3 [H4 H5]]]]]]]]; auto; [lia|].
      exists (S ti), (S tj), la, lb. repeat split; auto. lia.
Qed.

Definition tiers_consistent (tier : host -> nat) (tiers : list (list host)) : Prop :=
  forall t l h, nth_error tiers t = Some l -> In h l -> tier h = t.

Lemma spec_rr_tier_sorted up tier tiers start :
  tiers_consistent tier tiers -> tier_sorted tier (spec_rr up tiers start).
Proof.
  intros Hc i j a b Hij Ha Hb. unfold spec_rr in *.
  destruct (concat_positions _ i j a b Hij Ha Hb) as [ti [tj [la [lb [H1 [H2 [H3 [H4 H5]]]]]]]].
  rewrite nth_error_map in H2, H3.
  destruct (nth_error tiers ti) as [la0|] eqn:Ea; [|discriminate].
  destruct (nth_error tiers tj) as [lb0|] eqn:Eb; [|discriminate].
  inversion H2; inversion H3; subst.
  apply In_ups in H4. destruct H4 as [H4 _]. apply In_rotl in H4.
  apply In_ups in H5. destruct H5 as [H5 _]. apply In_rotl in H5.
  rewrite (Hc _ _ _ Ea H4), (Hc _ _ _ Eb H5). assumption.
Qed.

(* ---- rotation -------------------------------------------------------------------------------------- *)
Lemma nth_error_ext' {A} (a b : list A) : (forall i, nth_error a i = nth_error b i) -> a = b.
Proof.
  revert b; induction a as [|x a IH]; intros [|y b] H; auto.
  - specialize (H 0%nat). discriminate.
  - specialize (H 0%nat). discriminate.
  - pose proof (H 0%nat) as H0. simpl in H0. inversion H0; subst. f_equal. apply IH.
    intros i. apply (H (S i)).
Qed.

Lemma nth_error_rotl {A} n (l : list A) i : (i < length l)%nat ->
  nth_error (rotl n l) i = nth_error l ((n + i) mod length l).
Proof.
  intros Hi. rewrite rotl_rot_at, nth_error_rot_at; [|apply Nat.mod_upper_bound; lia|lia].
  rewrite Nat.add_mod_idemp_l by lia. reflexivity.
Qed.

(* rotating by n+1 is rotating by n and then by one more *)
Lemma rotl_succ {A} n (l : list A) : rotl (S n) l = rotl 1 (rotl n l).
Proof.
  apply nth_error_ext'. intros i. destruct (Nat.lt_ge_cases i (length l)) as [Hi|Hi].
  - rewrite (nth_error_rotl (S n) l i Hi).
    rewrite (nth_error_rotl 1 (rotl n l) i) by (rewrite rotl_length; lia). rewrite rotl_length.
    rewrite (nth_error_rotl n l) by (apply Nat.mod_upper_bound; lia).
    f_equal. rewrite Nat.add_mod_idemp_r by lia. f_equal. lia.
  - transitivity (@None A); [|symmetry]; apply nth_error_None; rewrite !rotl_length; lia.
Qed.

(* the hosts that are tried first in a tier by [length l] successive picks are all the hosts of the tier *)
Lemma first_choices_rotate {A} base (l : list A) :
  map (fun k => nth_error (rotl (base + k) l) 0) (seq 0 (length l)) = map Some (rotl base l).
Proof.
  apply nth_error_ext'. intros i. rewrite !nth_error_map.
  destruct (Nat.lt_ge_cases i (length l)) as [Hi|Hi].
  - assert (Es : nth_error (seq 0 (length l)) i = Some i).
    { rewrite nth_error_nth' with (d := 0%nat) by (rewrite seq_length; lia). rewrite seq_nth by lia. reflexivity. }
    rewrite Es. cbn [option_map].
    rewrite (nth_error_rotl (base + i) l 0) by lia. rewrite (nth_error_rotl base l i Hi).
    rewrite Nat.add_0_r. destruct (nth_error l ((base + i) mod length l)) eqn:E; [reflexivity|].
    apply nth_error_None in E. pose proof (Nat.mod_upper_bound (base + i) (length l)). lia.
  - replace (nth_error (seq 0 (length l)) i) with (@None nat) by (symmetry; apply nth_error_None; rewrite seq_length; lia).
    replace (nth_error (rotl base l) i) with (@None A) by (symmetry; apply nth_error_None; rewrite rotl_length; lia).
    reflexivity.
Qed.

(* k successive Picks on unchanged lists *)
Fixpoint pick_times (k : nat) (p : policy) : policy :=
  match k with O => p | S k' => pick_times k' (snd (rr_pick p)) end.

Lemma pick_times_spec k : forall p, 0 <= pctr p -> pctr p + Z.of_nat k + 1 + Z.of_nat (length (concat (plists p))) < 2 ^ 63 ->
  pick_times k p = mkPolicy (pk p) (plists p) (pctr p + Z.of_nat k).
Proof.
  induction k as [|k IH]; intros p H0 Hb.
  - simpl. rewrite Z.add_0_r. destruct p; reflexivity.
  - cbn [pick_times]. assert (Hr : ctr_in_range p) by (split; lia).
    destruct (rr_pick_spec p Hr) as [_ [_ [_ [_ [_ Hp]]]]]. rewrite Hp, IH; cbn [pk plists pctr]; try lia.
    f_equal. lia.
Qed.

Lemma rr_rotation_lemma up p k : 0 <= pctr p ->
  pctr p + Z.of_nat k + 1 + Z.of_nat (length (concat (plists p))) < 2 ^ 63 ->
  yields (rr_next up) (fst (rr_pick (pick_times k p)))
         (spec_rr up (plists p) (Z.to_nat (pctr p + 2) + k)) (mkRR (pctr p + Z.of_nat k + 1) [] 0).
Proof.
  intros H0 Hb. rewrite pick_times_spec by lia.
  set (q := mkPolicy (pk p) (plists p) (pctr p + Z.of_nat k)).
  assert (Hr : ctr_in_range q) by (split; cbn [pctr plists q]; lia).
  pose proof (rr_sequence_lemma up q Hr) as H. cbn [pctr plists q] in H.
  replace (Z.to_nat (pctr p + Z.of_nat k + 2)) with (Z.to_nat (pctr p + 2) + k)%nat in H by lia.
  exact H.
Qed.
