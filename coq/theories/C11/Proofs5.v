(* C11/Proofs5.v -- facts that hold for every call of a generator whatever happened before it (any
   interleaving of policy operations, host state changes, other Picks and other generators' calls):
   an offered host is up at the moment of the call; a generator that has returned nil keeps
   returning nil; and, over the transition system, no call ever panics. *)
From GocqlV Require Import Lib.Base C11.Model C11.Spec C11.Proofs1 C11.Proofs2 C11.Proofs3.

(* ---- offered => up, in any state --------------------------------------------------------------------- *)
Lemma rr_scan_up up shift l : forall rem co h co', rr_scan up shift l co rem = SFound h co' -> up (hid h) = true.
Proof.
  induction rem as [|rem IH]; intros co h co' H; cbn [rr_scan] in H; [discriminate|].
  destruct (rr_index shift (S co) (length l) <? 0); [discriminate|].
  destruct (nth_error l (Z.to_nat (rr_index shift (S co) (length l)))) as [x|]; [|discriminate].
  destruct (up (hid x)) eqn:E; [inversion H; subst; assumption | eapply IH; eauto].
Qed.

Lemma rr_layers_up up shift : forall layers co h st, rr_layers up shift layers co = (Offer h, st) -> up (hid h) = true.
Proof.
  induction layers as [|l rest IH]; intros co h st H; cbn [rr_layers] in H; [discriminate|].
  destruct (rr_scan up shift l co (length l - co)) as [x co'| |] eqn:E.
  - inversion H; subst. eapply rr_scan_up; eauto.
  - eapply IH; eauto.
  - discriminate.
Qed.

Lemma rr_next_up up it h it' : rr_next up it = (Offer h, it') -> up (hid h) = true.
Proof.
  unfold rr_next. destruct (rr_layers up (ri_shift it) (ri_layers it) (ri_co it)) as [o [ls co]] eqn:E.
  intros H. inversion H; subst. eapply rr_layers_up; eauto.
Qed.

Lemma p1_up k nlrf up used : forall reps remote h rest remote', ta_phase1 k nlrf up used reps remote = P1Found h rest remote' -> up (hid h) = true.
Proof.
  induction reps as [|x reps IH]; intros remote h rest remote' H; cbn [ta_phase1] in H; [discriminate|].
  destruct (host_tier k x) as [|t]; [|eapply IH; eauto].
  destruct (up (hid x)) eqn:E; simpl in H; [|eapply IH; eauto].
  destruct (zmem (hid x) used); simpl in H; [eapply IH; eauto|]. inversion H; subst. assumption.
Qed.

Lemma p2_inner_up up used rest nt : (forall h r, nt = P2Found h r -> up (hid h) = true) ->
  forall cur h r, p2_inner up used rest nt cur = P2Found h r -> up (hid h) = true.
Proof.
  intros Hnt. induction cur as [|x cur IH]; intros h r H; cbn [p2_inner] in H; [eapply Hnt; eauto|].
  destruct (up (hid x)) eqn:E; simpl in H; [|eapply IH; eauto].
  destruct (zmem (hid x) used); simpl in H; [eapply IH; eauto|]. inversion H; subst. assumption.
Qed.

Lemma phase2_up up used : forall rem h r, ta_phase2 up used rem = P2Found h r -> up (hid h) = true.
Proof.
  induction rem as [|cur rest IH]; intros h r H; cbn [ta_phase2] in H; [discriminate|].
  eapply p2_inner_up; [|exact H]. intros h' r' E. eapply IH; eauto.
Qed.

Lemma phase3_up up used : forall fuel fb h fb' used', ta_phase3 up used fb fuel = (Offer h, fb', used') -> up (hid h) = true.
Proof.
  induction fuel as [|fuel IH]; intros fb h fb' used' H; cbn [ta_phase3] in H; [discriminate|].
  destruct (rr_next up fb) as [[x| | |] fb1] eqn:E; try discriminate.
  destruct (zmem (hid x) used); [eapply IH; eauto|]. inversion H; subst. eapply rr_next_up; eauto.
Qed.

Lemma ta_next_up nlrf up p it h it' p' : ta_next nlrf up p it = (Offer h, it', p') -> up (hid h) = true.
Proof.
  unfold ta_next. destruct (ta_phase1 (pk p) nlrf up (ti_used it) (ti_reps it) (ti_remote it)) as [x rest remote|remote] eqn:E1.
  - intros H. inversion H; subst. eapply p1_up; eauto.
  - destruct (if nlrf then ta_phase2 up (ti_used it) remote else P2Done remote) as [x rem|rem] eqn:E2.
    + intros H. inversion H; subst. destruct nlrf; [eapply phase2_up; eauto | discriminate].
    + destruct (match ti_fb it with Some fb => (fb, p) | None => rr_pick p end) as [fb q].
      destruct (ta_phase3 up (ti_used it) fb (S (rr_size fb))) as [[o fb'] used'] eqn:E3.
      intros H. inversion H; subst. eapply phase3_up; eauto.
Qed.

Lemma step_offer_up c s n s' h : step c s (LNext n) = Some (s', Some (Offer h)) -> s_up s (hid h) = true.
Proof.
  cbn [step]. destruct (find_iter n (s_iters s)) as [[r|t]|]; [| |discriminate].
  - destruct (rr_next (s_up s) r) as [o r'] eqn:E. intros H. inversion H; subst. eapply rr_next_up; eauto.
  - destruct (ta_next (c_nlrf c) (s_up s) (s_pol s) t) as [[o t'] p'] eqn:E. intros H. inversion H; subst.
    eapply ta_next_up; eauto.
Qed.

(* ---- nil is absorbing ------------------------------------------------------------------------------- *)
Lemma rr_layers_nil up shift : forall layers co st, rr_layers up shift layers co = (Nil, st) -> st = ([], 0%nat).
Proof.
  induction layers as [|l rest IH]; intros co st H; cbn [rr_layers] in H; [inversion H; reflexivity|].
  destruct (rr_scan up shift l co (length l - co)); [discriminate | eapply IH; eauto | discriminate].
Qed.

Lemma rr_nil_absorbing up it it' : rr_next up it = (Nil, it') ->
  forall up', rr_next up' it' = (Nil, it').
Proof.
  unfold rr_next. destruct (rr_layers up (ri_shift it) (ri_layers it) (ri_co it)) as [o [ls co]] eqn:E.
  intros H. inversion H; subst. apply rr_layers_nil in E. inversion E; subst. intros up'. reflexivity.
Qed.

Lemma phase3_nil up used : forall fuel fb fb' used', ta_phase3 up used fb fuel = (Nil, fb', used') ->
  ri_layers fb' = [] /\ ri_co fb' = 0%nat /\ used' = used.
Proof.
  induction fuel as [|fuel IH]; intros fb fb' used' H; cbn [ta_phase3] in H; [discriminate|].
  destruct (rr_next up fb) as [[x| | |] fb1] eqn:E; try discriminate.
  - destruct (zmem (hid x) used); [eapply IH; eauto | discriminate].
  - inversion H; subst. unfold rr_next in E.
    destruct (rr_layers up (ri_shift fb) (ri_layers fb) (ri_co fb)) as [o [ls co]] eqn:E2.
    inversion E; subst. apply rr_layers_nil in E2. inversion E2; subst. auto.
Qed.

Lemma ta_nil_absorbing nlrf up p it it' p' : ta_next nlrf up p it = (Nil, it', p') ->
  forall up' q, ta_next nlrf up' q it' = (Nil, it', q).
Proof.
  unfold ta_next. destruct (ta_phase1 (pk p) nlrf up (ti_used it) (ti_reps it) (ti_remote it)) as [x rest remote|remote] eqn:E1;
    [discriminate|].
  destruct (if nlrf then ta_phase2 up (ti_used it) remote else P2Done remote) as [x rem|rem] eqn:E2; [discriminate|].
  destruct (match ti_fb it with Some fb => (fb, p) | None => rr_pick p end) as [fb q0].
  destruct (ta_phase3 up (ti_used it) fb (S (rr_size fb))) as [[o fb'] used'] eqn:E3.
  intros H. inversion H; subst. apply phase3_nil in E3. destruct E3 as [F1 [F2 F3]].
  assert (Hst : nlrf = true -> rem = []).
  { intros ->. pose proof (phase2_spec up (ti_used it) remote) as Hs. rewrite E2 in Hs. tauto. }
  intros up' q. cbn [ti_reps ti_remote ti_used ti_fb ta_phase1].
  assert (E : (if nlrf then ta_phase2 up' used' rem else P2Done rem) = P2Done rem).
  { destruct nlrf; [rewrite (Hst eq_refl) | ]; reflexivity. }
  rewrite E. destruct fb' as [sh ls co]. cbn [ri_layers ri_co] in *. subst. reflexivity.
Qed.

(* ---- no call panics: an invariant of the transition system ------------------------------------------- *)
Definition iter_ok (i : iter) : Prop :=
  match i with
  | IRR r => rr_inv r
  | ITA t => match ti_fb t with Some fb => rr_inv fb | None => True end
  end.

Definition sys_ok (c : cfg) (i : Z) (s : sys) : Prop :=
  pk (s_pol s) = c_kind c /\ 0 <= pctr (s_pol s) <= 2 ^ 62 + i
  /\ Z.of_nat (length (concat (plists (s_pol s)))) <= i
  /\ Forall (fun ni => iter_ok (snd ni)) (s_iters s).

(* the labels of the stated scope: the counter is not forced near 2^63 (LSetCtr is a test-only label) *)
Definition label_ok (l : label) : Prop :=
  match l with
  | LSetCtr v => 0 <= v <= 2 ^ 62
  | _ => True
  end.

Lemma concat_upd_length {A} (ls : list (list A)) t v :
  (length (concat (upd ls t v)) + length (nth t ls []) <= length (concat ls) + length v)%nat.
Proof.
  revert t; induction ls as [|l ls IH]; intros [|t]; simpl; try lia.
  - rewrite !app_length. lia.
  - rewrite !app_length. specialize (IH t). lia.
Qed.

Lemma cow_add_length h l : (length (fst (cow_add h l)) <= length l + 1)%nat.
Proof. unfold cow_add. destruct (existsb _ l); simpl; [lia | rewrite app_length; simpl; lia]. Qed.

Lemma cow_remove_length ip l : (length (fst (cow_remove ip l)) <= length l)%nat.
Proof. unfold cow_remove. destruct (existsb _ l); simpl; [rewrite firstn_length; lia | lia]. Qed.

Lemma pol_op_size p o :
  pk (pol_op p o) = pk p /\ pctr (pol_op p o) = pctr p /\
  (length (concat (plists (pol_op p o))) <= length (concat (plists p)) + 1)%nat.
Proof.
  assert (Ha : forall h, pk (pol_add p h) = pk p /\ pctr (pol_add p h) = pctr p /\
                         (length (concat (plists (pol_add p h))) <= length (concat (plists p)) + 1)%nat).
  { intros h. unfold pol_add. cbn [pk pctr plists]. split; [reflexivity|]. split; [reflexivity|].
    pose proof (concat_upd_length (plists p) (host_tier (pk p) h) (fst (cow_add h (nth (host_tier (pk p) h) (plists p) [])))).
    pose proof (cow_add_length h (nth (host_tier (pk p) h) (plists p) [])). lia. }
  assert (Hr : forall h, pk (pol_remove p h) = pk p /\ pctr (pol_remove p h) = pctr p /\
                         (length (concat (plists (pol_remove p h))) <= length (concat (plists p)) + 1)%nat).
  { intros h. unfold pol_remove. cbn [pk pctr plists]. split; [reflexivity|]. split; [reflexivity|].
    pose proof (concat_upd_length (plists p) (host_tier (pk p) h) (fst (cow_remove (haddr h) (nth (host_tier (pk p) h) (plists p) [])))).
    pose proof (cow_remove_length (haddr h) (nth (host_tier (pk p) h) (plists p) [])). lia. }
  destruct o; cbn [pol_op]; auto.
Qed.

Lemma find_iter_ok n its i : Forall (fun ni => iter_ok (snd ni)) its -> find_iter n its = Some i -> iter_ok i.
Proof.
  induction its as [|[m x] its IH]; simpl; intros Hf H; [discriminate|]. inversion Hf; subst.
  destruct (n =? m)%nat; [inversion H; subst; assumption | auto].
Qed.

Lemma rr_inv_exhausted shift : 0 <= shift -> rr_inv (mkRR shift [] 0).
Proof. intros H. unfold rr_inv, layers_ok. simpl. auto. Qed.

Lemma rr_inv_shift it : rr_inv it -> 0 <= ri_shift it.
Proof. intros [H _]. exact H. Qed.

Lemma ta_next_safe nlrf up p it : ctr_in_range p -> iter_ok (ITA it) ->
  match ta_next nlrf up p it with
  | (o, it', p') => o <> Panic /\ o <> OutOfFuel /\ iter_ok (ITA it')
                    /\ pk p' = pk p /\ plists p' = plists p /\ pctr p <= pctr p' <= pctr p + 1
  end.
Proof.
  intros Hr Hfb. cbn [iter_ok] in Hfb. unfold ta_next.
  destruct (ta_phase1 (pk p) nlrf up (ti_used it) (ti_reps it) (ti_remote it)) as [x rest remote|remote].
  - splits; try discriminate; try lia.
  - destruct (if nlrf then ta_phase2 up (ti_used it) remote else P2Done remote) as [x rem|rem].
    + splits; try discriminate; try lia.
    + assert (Hpick : exists fb q, (match ti_fb it with Some fb => (fb, p) | None => rr_pick p end) = (fb, q)
                                   /\ rr_inv fb /\ pk q = pk p /\ plists q = plists p /\ pctr p <= pctr q <= pctr p + 1).
      { destruct (ti_fb it) as [fb|].
        - exists fb, p. splits; auto; lia.
        - destruct (rr_pick_spec p Hr) as [Hi [_ [_ [_ [_ Hq]]]]]. exists (fst (rr_pick p)), (snd (rr_pick p)).
          split; [destruct (rr_pick p); reflexivity|]. split; [assumption|]. rewrite Hq. cbn [pk plists pctr]. splits; lia. }
      destruct Hpick as [fb [q [E [Hi [Q1 [Q2 Q3]]]]]]. rewrite E.
      assert (Hfuel : (length (rr_future fb) < S (rr_size fb))%nat).
      { unfold rr_future, rr_size. pose proof (fut_length_le (ri_shift fb) (ri_layers fb) (ri_co fb)). lia. }
      pose proof (phase3_spec up (ti_used it) _ fb Hi Hfuel) as H3.
      destruct (ta_phase3 up (ti_used it) fb (S (rr_size fb))) as [[[h| | |] fb'] used']; try tauto.
      * destruct H3 as [pre [post [_ [_ [_ [_ [_ [Hi' _]]]]]]]].
        splits; try discriminate; try lia.
      * destruct H3 as [_ [-> _]].
        splits; try discriminate; try lia. cbn [iter_ok ti_fb].
        apply rr_inv_exhausted. apply rr_inv_shift. assumption.
Qed.

Lemma step_safe c i s l s' o :
  sys_ok c i s -> label_ok l -> 0 <= i -> 2 * i + 4 <= 2 ^ 62 ->
  step c s l = Some (s', o) ->
  sys_ok c (i + 1) s' /\ o <> Some Panic /\ o <> Some OutOfFuel.
Proof.
  intros [Hk [Hc [Hsz Hit]]] Hl Hi0 Hi. assert (E63 : (2:Z) ^ 63 = 2 * 2 ^ 62) by reflexivity.
  assert (Hrange : ctr_in_range (s_pol s)) by (split; lia).
  destruct l as [o'|id st|v|n q|n]; cbn [step].
  - intros H. inversion H; subst. destruct (pol_op_size (s_pol s) o') as [P1 [P2 P3]].
    split; [|split; discriminate]. unfold sys_ok. cbn [s_pol s_iters]. rewrite P1, P2. splits; auto; lia.
  - intros H. inversion H; subst. split; [|split; discriminate]. unfold sys_ok. cbn [s_pol s_iters]. splits; auto; lia.
  - intros H. inversion H; subst. split; [|split; discriminate]. unfold sys_ok. cbn [s_pol s_iters pk plists pctr].
    simpl in Hl. assert (E64 : (2:Z) ^ 64 = 4 * 2 ^ 62) by reflexivity.
    unfold wrap. rewrite Z.mod_small by lia. splits; auto; lia.
  - destruct (pick_ok c q); [|discriminate].
    assert (Hrr : forall s1 o1, (let '(r, p') := rr_pick (s_pol s) in
                                 Some (mkSys p' (s_up s) ((n, IRR r) :: s_iters s), @None outcome)) = Some (s1, o1) ->
                  sys_ok c (i + 1) s1 /\ o1 <> Some Panic /\ o1 <> Some OutOfFuel).
    { intros s1 o1. destruct (rr_pick_spec (s_pol s) Hrange) as [Hinv [_ [_ [_ [_ Hq]]]]].
      destruct (rr_pick (s_pol s)) as [r p'] eqn:E. cbn [fst snd] in *. intros H. inversion H; subst.
      split; [|split; discriminate]. unfold sys_ok. cbn [s_pol s_iters pk plists pctr].
      splits; auto; try lia. }
    destruct q as [|ht primary order]; [apply Hrr|]. destruct (c_ta c); [|apply Hrr].
    destruct (ta_replicas ht primary order) as [reps|]; [|apply Hrr].
    intros H. inversion H; subst. split; [|split; discriminate]. unfold sys_ok. cbn [s_pol s_iters].
    splits; auto; try lia; try (constructor; [exact I | assumption]).
  - destruct (find_iter n (s_iters s)) as [[r|t]|] eqn:Ef; [| |discriminate].
    + pose proof (find_iter_ok _ _ _ Hit Ef) as Hr. cbn [iter_ok] in Hr.
      pose proof (rr_next_spec (s_up s) r Hr) as Hs. destruct (rr_next (s_up s) r) as [[h| | |] r'] eqn:E; try tauto.
      * destruct Hs as [pre [post [_ [_ [_ [_ [Hi' _]]]]]]]. intros H. inversion H; subst.
        split; [|split; discriminate]. unfold sys_ok. cbn [s_pol s_iters]. splits; auto; try lia.
      * destruct Hs as [_ ->]. intros H. inversion H; subst.
        split; [|split; discriminate]. unfold sys_ok. cbn [s_pol s_iters]. splits; auto; try lia.
        constructor; [|assumption]. apply rr_inv_exhausted. apply rr_inv_shift. assumption.
    + pose proof (find_iter_ok _ _ _ Hit Ef) as Ht.
      pose proof (ta_next_safe (c_nlrf c) (s_up s) (s_pol s) t Hrange Ht) as Hs.
      destruct (ta_next (c_nlrf c) (s_up s) (s_pol s) t) as [[o1 t'] p'] eqn:E.
      destruct Hs as [S1 [S2 [S3 [S4 [S5 S6]]]]]. intros H. inversion H; subst.
      split; [|split; congruence]. unfold sys_ok. cbn [s_pol s_iters]. rewrite S4, S5.
      splits; auto; try lia.
Qed.

Lemma sys_init_ok c : sys_ok c 0 (sys_init c).
Proof.
  assert (E62 : 0 <= (2:Z) ^ 62) by (apply Z.pow_nonneg; lia).
  assert (E : length (concat (repeat (@nil host) (ntiers (c_kind c)))) = 0%nat).
  { induction (ntiers (c_kind c)); simpl; auto. }
  unfold sys_ok, sys_init, policy_init. cbn [s_pol s_iters pk plists pctr]. rewrite E.
  split; [reflexivity|]. split; [lia|]. split; [simpl; lia | constructor].
Qed.

Lemma run_safe c : forall ls i s s' outs,
  sys_ok c i s -> Forall label_ok ls -> 0 <= i -> 2 * (i + Z.of_nat (length ls)) + 4 <= 2 ^ 62 ->
  run c s ls = Some (s', outs) ->
  forall n o, In (n, o) outs -> o <> Panic /\ o <> OutOfFuel.
Proof.
  induction ls as [|l ls IH]; intros i s s' outs Hok Hl Hi0 Hb H n o Hin.
  - simpl in H. inversion H; subst. destruct Hin.
  - cbn [run] in H. destruct (step c s l) as [[s1 o1]|] eqn:E; [|discriminate].
    destruct (run c s1 ls) as [[s2 outs2]|] eqn:E2; [|discriminate]. inversion H; subst. inversion Hl; subst.
    simpl length in Hb. rewrite Nat2Z.inj_succ in Hb.
    destruct (step_safe c i s l s1 o1 Hok) as [Hok1 [Hp Hf]]; auto; [lia|].
    assert (Hrest : forall n o, In (n, o) outs2 -> o <> Panic /\ o <> OutOfFuel).
    { eapply (IH (i + 1)); eauto; lia. }
    destruct l as [o'|id st|v|n' q|n']; try (apply (Hrest n o); assumption).
    destruct o1 as [x|]; [|apply (Hrest n o); assumption].
    destruct Hin as [Hin|Hin]; [|apply (Hrest n o); assumption]. inversion Hin; subst. split; congruence.
Qed.
