(* C11/Corr.v -- correspondence cases.  A case is a policy configuration and a history observed on the
   real implementation (package gocql, public HostSelectionPolicy API + the add-only verif shim):
   policy operations, host state changes, Picks (with what the ring lookup returned for the query), and
   every single call of a returned NextHost function with the host it returned (or nil, or a panic),
   plus read-backs of the copy-on-write tier lists and of the pick counter.  [check] replays the
   history through [Model.step] and compares every observation. *)
From GocqlV Require C10.Model.
From GocqlV Require Import Lib.Base C11.Model.

Inductive obs := OHost (id : Z) | ONil | OPanic.

Inductive ev :=
| EL (l : label)                 (* LOp / LSetState / LSetCtr / LPick: no output *)
| ENext (it : nat) (o : obs)     (* generator [it] was called once and returned [o] *)
| ELists (ls : list (list Z))    (* the tier lists (host pointers, as ids), nearest first *)
| ECtr (v : Z)                   (* lastUsedHostIdx *)
| ELookup (hs : list (Z * list Z * (list Z * list Z * Z)))
                                 (* the token-aware policy's hosts: pointer id, HostInfo.Tokens() as integers
                                    (Murmur3 / Random partitioner), (data centre, rack, address) *)
          (strat : option C10.Model.strategy)     (* the keyspace's placement strategy, None: no replica map *)
          (t : Z)                                 (* partitioner.Hash(routing key) *)
          (q : qinfo).           (* what the real Pick's lookup returned: must be what C10's model of newTokenRing,
                                    replicaMap, replicasFor and GetHostForToken computes from the hosts' tokens *)

Inductive case := Case (c : cfg) (evs : list ev).

Definition H := mkHost.

Definition obs_eqb (o : outcome) (b : obs) : bool :=
  match o, b with
  | Offer h, OHost id => hid h =? id
  | Nil, ONil => true
  | Panic, OPanic => true
  | _, _ => false
  end.

Fixpoint zll_eqb (a b : list (list Z)) : bool :=
  match a, b with
  | [], [] => true
  | x :: a', y :: b' => zlist_eqb x y && zll_eqb a' b'
  | _, _ => false
  end.

Definition lookup_info (hs : list (Z * list Z * (list Z * list Z * Z))) (h : Z) : C10.Model.hinfo :=
  match find (fun e => fst (fst e) =? h) hs with
  | Some (_, (dc, rack, addr)) => C10.Model.mkInfo dc rack addr
  | None => C10.Model.mkInfo [] [] 0
  end.

Definition check_lookup (hs : list (Z * list Z * (list Z * list Z * Z))) (strat : option C10.Model.strategy) (t : Z) (q : qinfo) : bool :=
  let ring := C10.Model.new_token_ring Z.ltb (map fst hs) in
  let m := match strat with
           | None => Some []
           | Some st => match C10.Model.replica_map (lookup_info hs) st (map (fun e => fst (fst e)) hs) ring with
                        | C10.Model.Ok m => Some m
                        | C10.Model.Crash _ => None
                        end
           end in
  match m, q with
  | Some m, QKey ht primary _ =>
      opt_eqb zlist_eqb (option_map snd (C10.Model.replicas_for Z.ltb m t)) (option_map (map hid) ht)
      && opt_eqb Z.eqb (option_map fst (C10.Model.get_host_for_token Z.ltb ring t)) (option_map hid primary)
  | _, _ => false
  end.

Fixpoint replay (c : cfg) (s : sys) (evs : list ev) : bool :=
  match evs with
  | [] => true
  | e :: evs' =>
      match e with
      | EL l => match step c s l with Some (s', _) => replay c s' evs' | None => false end
      | ENext n o =>
          match step c s (LNext n) with
          | Some (s', Some x) => obs_eqb x o && replay c s' evs'
          | _ => false
          end
      | ELists ls => zll_eqb (map (map hid) (plists (s_pol s))) ls && replay c s evs'
      | ECtr v => (pctr (s_pol s) =? v) && replay c s evs'
      | ELookup hs strat t q => check_lookup hs strat t q && replay c s evs'
      end
  end.

Definition check (cs : case) : bool :=
  match cs with Case c evs => replay c (sys_init c) evs end.

Definition run (cs : list case) : list N := mismatches check cs.
