(* C11/Proofs4.v -- the token-aware closed form against the specification's list (Spec.spec_ta), and
   what that list satisfies. *)
From Coq Require Import Permutation.
From GocqlV Require Import Lib.Base C11.Model C11.Spec C11.Proofs1 C11.Proofs2 C11.Proofs3.

(* ---- `remote` after the first loop = the replicas of each farther tier, in replica order ----------- *)
Lemma host_tier_le_max k h : (host_tier k h <= max_tier k)%nat.
Proof. destruct k; simpl; repeat match goal with |- context [if ?b then _ else _] => destruct b end; lia. Qed.

Lemma app_at_length remote i h : length (app_at remote i h) = length remote.
Proof. unfold app_at. apply upd_length. Qed.

Lemma nth_app_at remote i h t : (i < length remote)%nat ->
  nth t (app_at remote i h) [] = if (t =? i)%nat then nth i remote [] ++ [h] else nth t remote [].
Proof.
  intros Hi. unfold app_at. destruct (Nat.eqb_spec t i) as [->|Hne].
  - apply nth_nth_error. apply nth_error_upd_eq. assumption.
  - destruct (Nat.lt_ge_cases t (length remote)) as [Ht|Ht].
    + apply nth_nth_error. rewrite nth_error_upd_neq by congruence. apply nth_error_nth'. assumption.
    + rewrite !nth_overflow; try reflexivity; rewrite ?upd_length; lia.
Qed.

Lemma add_remotes_length k rs : forall remote, length (add_remotes k true remote rs) = length remote.
Proof.
  unfold add_remotes. induction rs as [|h rs IH]; intros remote; simpl; [reflexivity|].
  rewrite IH. unfold add_remote. destruct (host_tier k h); [reflexivity | apply app_at_length].
Qed.

Lemma add_remotes_nth k rs : forall remote t,
  (forall h, In h rs -> (host_tier k h <= length remote)%nat) -> (t < length remote)%nat ->
  nth t (add_remotes k true remote rs) [] = nth t remote [] ++ in_tier (host_tier k) (S t) rs.
Proof.
  unfold add_remotes. induction rs as [|h rs IH]; intros remote t Hb Ht; simpl; [rewrite app_nil_r; reflexivity|].
  assert (Hb' : forall x, In x rs -> (host_tier k x <= length (add_remote k true remote h))%nat).
  { intros x Hx. unfold add_remote. destruct (host_tier k h); [|rewrite app_at_length]; apply Hb; right; assumption. }
  assert (Ht' : (t < length (add_remote k true remote h))%nat).
  { unfold add_remote. destruct (host_tier k h); [|rewrite app_at_length]; assumption. }
  rewrite (IH _ t Hb' Ht'). unfold add_remote, in_tier. simpl.
  pose proof (Hb h (or_introl eq_refl)) as Hh.
  destruct (host_tier k h) as [|i] eqn:E.
  - simpl. reflexivity.
  - rewrite nth_app_at by lia. simpl. destruct (Nat.eqb_spec i t) as [->|Hne].
    + rewrite Nat.eqb_refl. rewrite <- app_assoc. reflexivity.
    + destruct (Nat.eqb_spec t i); [congruence|]. reflexivity.
Qed.

Definition far_tiers (k : pkind) (rs : list host) : list (list host) :=
  map (fun t => in_tier (host_tier k) (S t) rs) (seq 0 (max_tier k)).

Lemma add_remotes_tiers k rs : add_remotes k true (repeat [] (max_tier k)) rs = far_tiers k rs.
Proof.
  apply nth_error_ext'. intros t. unfold far_tiers.
  destruct (Nat.lt_ge_cases t (max_tier k)) as [Ht|Ht].
  - rewrite (nth_error_nth' _ t []) by (rewrite add_remotes_length, repeat_length; assumption).
    rewrite add_remotes_nth; [|intros h _; rewrite repeat_length; apply host_tier_le_max | rewrite repeat_length; assumption].
    rewrite nth_error_map, (nth_error_nth' _ t 0%nat) by (rewrite seq_length; assumption).
    rewrite seq_nth by assumption. simpl.
    replace (nth t (repeat [] (max_tier k)) []) with (@nil host); [reflexivity|].
    symmetry. apply nth_nth_error. rewrite (nth_error_nth' _ t []) by (rewrite repeat_length; assumption).
    f_equal. apply nth_repeat.
  - transitivity (@None (list host)); [|symmetry]; apply nth_error_None;
      rewrite ?add_remotes_length, ?repeat_length, ?map_length, ?seq_length; assumption.
Qed.

(* ---- the early exit of the second loop is invisible when no empty tier is followed by a non-empty one *)
Definition no_gap (ls : list (list host)) : Prop :=
  forall i j, (i < j)%nat -> nth i ls [] = [] -> nth j ls [] = [].

Lemma p2_seq_no_gap ls : no_gap ls -> p2_seq ls = concat ls.
Proof.
  induction ls as [|l ls IH]; intros Hg; [reflexivity|]. destruct l as [|h l].
  - simpl. assert (Hall : forall x, In x ls -> x = []).
    { intros x Hx. apply In_nth with (d := []) in Hx. destruct Hx as [j [Hj <-]].
      apply (Hg 0%nat (S j)); [lia | reflexivity]. }
    clear -Hall. induction ls as [|x ls IH]; [reflexivity|]. simpl. rewrite (Hall x (or_introl eq_refl)). simpl.
    apply IH. intros y Hy. apply Hall. right. assumption.
  - change (p2_seq ((h :: l) :: ls)) with ((h :: l) ++ p2_seq ls). simpl. rewrite IH; [reflexivity|].
    intros i j Hij Hi. apply (Hg (S i) (S j)); [lia | assumption].
Qed.

(* ---- `used` filtering --------------------------------------------------------------------------------- *)
Lemma zmem_In x l : zmem x l = true <-> In x l.
Proof.
  unfold zmem. rewrite existsb_exists. split.
  - intros [y [Hy E]]. apply Z.eqb_eq in E. subst. assumption.
  - intros H. exists x. split; [assumption | apply Z.eqb_refl].
Qed.

Lemma hmem_In h l : hmem h l = true <-> In (hid h) (map hid l).
Proof.
  unfold hmem. rewrite existsb_exists, in_map_iff. split; intros [y [H1 H2]]; exists y.
  - split; [lia | assumption].
  - split; [tauto | lia].
Qed.

Lemma bool_eq_iff (a b : bool) : (a = true <-> b = true) -> a = b.
Proof. destruct a, b; intuition congruence. Qed.

Lemma dedup_seq_filter used l : NoDup (map hid l) ->
  dedup_seq used l = filter (fun h => negb (zmem (hid h) used)) l.
Proof.
  revert used; induction l as [|h l IH]; intros used Hn; [reflexivity|]. simpl.
  inversion Hn as [|? ? Hh Hn']; subst. destruct (zmem (hid h) used) eqn:E; simpl; [apply IH; assumption|].
  f_equal. rewrite IH by assumption. apply filter_ext_in. intros x Hx. f_equal.
  unfold zmem. simpl. destruct (Z.eqb_spec (hid x) (hid h)) as [Ex|Ex]; [|reflexivity].
  exfalso. apply Hh. rewrite <- Ex. apply in_map. assumption.
Qed.

Lemma seq_S_map n m : seq (S n) m = map S (seq n m).
Proof. symmetry. apply seq_shift. Qed.

(* ---- the theorem: model sequence = specification ----------------------------------------------------- *)
Lemma ta_seq_spec nlrf up p rs :
  NoDup (map hid (concat (plists p))) ->
  (nlrf = true -> no_gap (far_tiers (pk p) rs)) ->
  ta_seq nlrf up p rs =
  spec_ta up (host_tier (pk p)) (max_tier (pk p)) nlrf rs (plists p) (Z.to_nat (pctr p + 2)).
Proof.
  intros Hn Hg. unfold ta_seq, spec_ta.
  assert (Ea : near (pk p) up rs = ups up (in_tier (host_tier (pk p)) 0 rs)) by reflexivity.
  assert (Eb : far (pk p) nlrf up rs =
               if nlrf then concat (map (fun t => ups up (in_tier (host_tier (pk p)) t rs)) (seq 1 (max_tier (pk p)))) else []).
  { unfold far. destruct nlrf; [|reflexivity]. rewrite add_remotes_tiers, (p2_seq_no_gap _ (Hg eq_refl)).
    unfold far_tiers. rewrite ups_concat, map_map, seq_S_map, map_map. reflexivity. }
  rewrite <- Ea, <- Eb. f_equal. f_equal.
  rewrite dedup_seq_filter by (apply spec_rr_no_host_twice; assumption).
  apply filter_ext. intros h. f_equal. apply bool_eq_iff.
  rewrite zmem_In, hmem_In, map_app, !in_app_iff, <- !in_rev. tauto.
Qed.

(* a filtered list keeps the order of the list it was filtered from *)
Lemma filter_tier_sorted (tier : host -> nat) (f : host -> bool) L :
  tier_sorted tier L -> tier_sorted tier (filter f L).
Proof.
  induction L as [|x L IH]; intros Hs i j a b Hij Ha Hb.
  - destruct i; discriminate.
  - assert (HsL : tier_sorted tier L).
    { intros i' j' a' b' H1 H2 H3. apply (Hs (S i') (S j') a' b'); [lia | exact H2 | exact H3]. }
    simpl in Ha, Hb. destruct (f x) eqn:Ef.
    + destruct i as [|i]; destruct j as [|j]; try lia.
      * simpl in Ha, Hb. inversion Ha; subst.
        assert (Hin : In b L) by (apply nth_error_In in Hb; apply filter_In in Hb; tauto).
        apply In_nth_error in Hin. destruct Hin as [m Hm]. apply (Hs 0%nat (S m) a b); [lia | reflexivity | exact Hm].
      * simpl in Ha, Hb. apply (IH HsL i j a b); [lia | assumption | assumption].
    + apply (IH HsL i j a b); assumption.
Qed.

(* ---- what the specification's list satisfies ------------------------------------------------------- *)
Section SpecTa.
  Variables (up : Z -> bool) (tier : host -> nat) (maxt : nat) (nlrf : bool).
  Variables (reps : list host) (tiers : list (list host)) (start : nat).

  Let nearL := ups up (in_tier tier 0 reps).
  Let farL := if nlrf then concat (map (fun t => ups up (in_tier tier t reps)) (seq 1 maxt)) else [].

  Lemma In_in_tier t h l : In h (in_tier tier t l) <-> In h l /\ tier h = t.
  Proof. unfold in_tier. rewrite filter_In. rewrite Nat.eqb_eq. tauto. Qed.

  Lemma In_farL h : In h farL <-> nlrf = true /\ In h reps /\ up (hid h) = true /\ (1 <= tier h <= maxt)%nat.
  Proof.
    unfold farL. destruct nlrf; [|simpl; intuition congruence]. rewrite in_concat. split.
    - intros [l [Hl Hh]]. apply in_map_iff in Hl. destruct Hl as [t [<- Ht]]. apply in_seq in Ht.
      apply In_ups in Hh. destruct Hh as [Hh Hu]. apply In_in_tier in Hh. intuition lia.
    - intros [_ [Hr [Hu Ht]]]. exists (ups up (in_tier tier (tier h) reps)). split.
      + apply in_map_iff. exists (tier h). split; [reflexivity|]. apply in_seq. lia.
      + apply In_ups. split; [apply In_in_tier; tauto | assumption].
  Qed.

  Lemma spec_ta_only_up : only_up up (spec_ta up tier maxt nlrf reps tiers start).
  Proof.
    intros h H. unfold spec_ta in H. fold nearL farL in H. rewrite !in_app_iff in H. destruct H as [H|[H|H]].
    - apply In_ups in H. tauto.
    - apply In_farL in H. tauto.
    - apply filter_In in H. destruct H as [H _]. apply In_spec_rr in H. tauto.
  Qed.

  (* every up host of the tier lists is offered, and every up replica the policy is to try first *)
  Lemma spec_ta_complete :
    complete up (concat tiers) (spec_ta up tier maxt nlrf reps tiers start) /\
    complete up (in_tier tier 0 reps) (spec_ta up tier maxt nlrf reps tiers start) /\
    (nlrf = true -> (forall h, In h reps -> (tier h <= maxt)%nat) ->
     complete up reps (spec_ta up tier maxt nlrf reps tiers start)).
  Proof.
    unfold spec_ta. fold nearL farL. split; [|split].
    - intros h Hh Hu. rewrite !map_app, !in_app_iff.
      destruct (hmem h (nearL ++ farL)) eqn:E.
      + apply hmem_In in E. rewrite map_app, in_app_iff in E. tauto.
      + right. right. apply in_map. apply filter_In. split; [apply In_spec_rr; tauto | rewrite E; reflexivity].
    - intros h Hh Hu. rewrite !map_app, !in_app_iff. left. apply in_map. apply In_ups. tauto.
    - intros Hn Hb h Hh Hu. rewrite !map_app, !in_app_iff.
      destruct (tier h) as [|t] eqn:Et.
      + left. apply in_map. apply In_ups. split; [apply In_in_tier; tauto | assumption].
      + right. left. apply in_map. apply In_farL. pose proof (Hb h Hh). intuition lia.
  Qed.

  (* no host twice, given that the replica list and the tier lists name no host twice *)
  Lemma spec_ta_no_host_twice :
    NoDup (map hid reps) -> NoDup (map hid (concat tiers)) ->
    no_host_twice (spec_ta up tier maxt nlrf reps tiers start).
  Proof.
    intros Hr Ht. unfold no_host_twice, spec_ta. fold nearL farL.
    assert (Hnear : NoDup (map hid nearL)) by (unfold nearL, ups, in_tier; do 2 apply NoDup_map_filter; assumption).
    assert (Hfar : NoDup (map hid farL)).
    { unfold farL. destruct nlrf; [|constructor]. generalize 1%nat as a. induction maxt as [|m IH]; intros a; simpl; [constructor|].
      apply NoDup_map_app. split; [unfold ups, in_tier; do 2 apply NoDup_map_filter; assumption|]. split; [apply IH|].
      intros x y Hx Hy E. apply In_ups in Hx. destruct Hx as [Hx _]. apply In_in_tier in Hx.
      apply in_concat in Hy. destruct Hy as [l [Hl Hy]]. apply in_map_iff in Hl. destruct Hl as [t [<- Hts]].
      apply in_seq in Hts. apply In_ups in Hy. destruct Hy as [Hy _]. apply In_in_tier in Hy.
      assert (x = y); [|subst; lia].
      clear -Hr Hx Hy E. destruct Hx as [Hx _]. destruct Hy as [Hy _]. revert Hr Hx Hy E. generalize reps as L.
      induction L as [|z L IHL]; simpl; intros Hn Hx Hy E; [tauto|]. inversion Hn as [|? ? Hz Hn']; subst.
      destruct Hx as [->|Hx], Hy as [->|Hy]; auto.
      - exfalso. apply Hz. rewrite E. apply in_map. assumption.
      - exfalso. apply Hz. rewrite <- E. apply in_map. assumption. }
    assert (Hnf : NoDup (map hid (nearL ++ farL))).
    { apply NoDup_map_app. split; [assumption|]. split; [assumption|].
      intros x y Hx Hy E. apply In_ups in Hx. destruct Hx as [Hx _]. apply In_in_tier in Hx.
      apply In_farL in Hy. destruct Hy as [_ [Hy [_ Hty]]].
      assert (x = y); [|subst; lia].
      destruct Hx as [Hx _]. clear -Hr Hx Hy E. revert Hr Hx Hy E. generalize reps as L.
      induction L as [|z L IHL]; simpl; intros Hn Hx Hy E; [tauto|]. inversion Hn as [|? ? Hz Hn']; subst.
      destruct Hx as [->|Hx], Hy as [->|Hy]; auto.
      - exfalso. apply Hz. rewrite E. apply in_map. assumption.
      - exfalso. apply Hz. rewrite <- E. apply in_map. assumption. }
    rewrite app_assoc. apply NoDup_map_app. split; [assumption|]. split.
    - apply NoDup_map_filter. apply spec_rr_no_host_twice. assumption.
    - intros x y Hx Hy E. apply filter_In in Hy. destruct Hy as [_ Hy].
      apply negb_true_iff in Hy. assert (hmem y (nearL ++ farL) = true); [|congruence].
      apply hmem_In. rewrite <- E. apply in_map. assumption.
  Qed.

  (* replicas first, nearest first; then the other hosts by tier *)
  Lemma spec_ta_order : tiers_consistent tier tiers ->
    exists rest,
      spec_ta up tier maxt nlrf reps tiers start = nearL ++ farL ++ rest
      /\ (forall h, In h nearL -> In h reps /\ tier h = 0%nat)
      /\ (forall h, In h farL -> In h reps /\ (1 <= tier h)%nat)
      /\ tier_sorted tier farL
      /\ tier_sorted tier rest
      /\ (forall h, In h rest -> ~ In (hid h) (map hid (nearL ++ farL))).
  Proof.
    intros Hc. eexists. split; [reflexivity|]. split; [|split; [|split; [|split]]].
    - intros h Hh. apply In_ups in Hh. destruct Hh as [Hh _]. apply In_in_tier in Hh. assumption.
    - intros h Hh. apply In_farL in Hh. intuition lia.
    - unfold farL. destruct nlrf; [|intros i j a b _ Ha; destruct i; discriminate].
      intros i j a b Hij Ha Hb.
      destruct (concat_positions _ i j a b Hij Ha Hb) as [ti [tj [la [lb [H1 [H2 [H3 [H4 H5]]]]]]]].
      rewrite nth_error_map in H2, H3.
      destruct (nth_error (seq 1 maxt) ti) as [ta|] eqn:Ea; [|discriminate].
      destruct (nth_error (seq 1 maxt) tj) as [tb|] eqn:Eb; [|discriminate].
      inversion H2; inversion H3; subst.
      apply In_ups in H4. destruct H4 as [H4 _]. apply In_in_tier in H4.
      apply In_ups in H5. destruct H5 as [H5 _]. apply In_in_tier in H5.
      assert (Hta : ta = (1 + ti)%nat).
      { assert (Hl : (ti < length (seq 1 maxt))%nat) by (apply nth_error_Some; congruence). rewrite seq_length in Hl.
        apply nth_error_nth with (d := 0%nat) in Ea. rewrite seq_nth in Ea by assumption. lia. }
      assert (Htb : tb = (1 + tj)%nat).
      { assert (Hl : (tj < length (seq 1 maxt))%nat) by (apply nth_error_Some; congruence). rewrite seq_length in Hl.
        apply nth_error_nth with (d := 0%nat) in Eb. rewrite seq_nth in Eb by assumption. lia. }
      lia.
    - intros i j a b Hij Ha Hb.
      apply (filter_tier_sorted tier _ _ (spec_rr_tier_sorted up tier tiers start Hc) i j a b Hij Ha Hb).
    - intros h Hh. apply filter_In in Hh. destruct Hh as [_ Hh]. apply negb_true_iff in Hh.
      intros Hin. apply hmem_In in Hin. exact (eq_true_false_abs _ Hin Hh).
  Qed.
End SpecTa.

(* ---- ShuffleReplicas: any rearrangement of the replica list only rearranges the replica prefix -------- *)
Lemma perm_filter {A} (f : A -> bool) (a b : list A) : Permutation a b -> Permutation (filter f a) (filter f b).
Proof.
  induction 1 as [|x a b _ IH|x y a|a b c _ IH1 _ IH2]; simpl.
  - constructor.
  - destruct (f x); [constructor|]; assumption.
  - destruct (f x), (f y); try reflexivity. constructor.
  - etransitivity; eassumption.
Qed.

Lemma shuffle_lemma up tier maxt nlrf rs rs' tiers start : Permutation rs' rs ->
  exists near near' far far' rest,
    spec_ta up tier maxt nlrf rs tiers start = near ++ far ++ rest /\
    spec_ta up tier maxt nlrf rs' tiers start = near' ++ far' ++ rest /\
    near = ups up (in_tier tier 0 rs) /\ Permutation near' near /\ Permutation far' far.
Proof.
  intros Hp. unfold spec_ta.
  set (near := ups up (in_tier tier 0 rs)). set (near' := ups up (in_tier tier 0 rs')).
  set (far := if nlrf then concat (map (fun t => ups up (in_tier tier t rs)) (seq 1 maxt)) else []).
  set (far' := if nlrf then concat (map (fun t => ups up (in_tier tier t rs')) (seq 1 maxt)) else []).
  assert (Hn : Permutation near' near) by (unfold near, near', ups, in_tier; do 2 apply perm_filter; assumption).
  assert (Hf : Permutation far' far).
  { unfold far, far'. destruct nlrf; [|reflexivity]. induction (seq 1 maxt) as [|t ts IH]; simpl; [reflexivity|].
    apply Permutation_app; [|exact IH]. unfold ups, in_tier. do 2 apply perm_filter. assumption. }
  exists near, near', far, far', (filter (fun h => negb (hmem h (near ++ far))) (spec_rr up tiers start)).
  split; [reflexivity|]. split; [|split; [reflexivity|split; assumption]].
  f_equal. f_equal. apply filter_ext. intros h. f_equal. apply bool_eq_iff. rewrite !hmem_In.
  assert (Hpp : Permutation (map hid (near' ++ far')) (map hid (near ++ far))).
  { apply Permutation_map. apply Permutation_app; assumption. }
  split; apply Permutation_in; [exact Hpp | symmetry; exact Hpp].
Qed.
