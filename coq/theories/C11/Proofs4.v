(* C11/Proofs4.v -- the token-aware closed form against the specification's list (Spec.spec_ta), and
   what that list satisfies. *)
From Coq Require Import Permutation.
From GocqlV Require Import Lib.Base C11.Model C11.Spec C11.Proofs1 C11.Proofs2 C11.Proofs3.

(* ---- `remote` after the first loop = the replicas of each farther tier, in replica order ----------- *)
Lemma host_tier_le_max k h : (host_tier k h <= max_tier k)%nat.
Proof. destruct k; simpl; repeat match goal with |- context [if ?b then _ else _] => destruct b end; lia. Qed.

Lemma app_at_length remote i h : length (app_at remote i h) = length remote.
Proof. unfold app_at. apply upd_length. Qed.

Lemma nth_app_at remote i h t : (i < length remote)%nat ->
  nth t (app_at remote i h) [] = if (t =? i)%nat then nth i remote [] ++ [h] else nth t remote [].
Proof.
  intros Hi. unfold app_at. destruct (Nat.eqb_spec t i) as [->|Hne].
  - apply nth_nth_error. apply nth_error_upd_eq. assumption.
  - destruct (Nat.lt_ge_cases t (length remote)) as [Ht|Ht].
    + apply nth_nth_error. rewrite nth_error_upd_neq by congruence. apply nth_error_nth'. assumption.
    + rewrite !nth_overflow; try reflexivity; rewrite ?upd_length; lia.
Qed.

Lemma add_remotes_length k rs : forall remote, length (add_remotes k true remote rs) = length remote.
Proof.
  unfold add_remotes. induction rs as [|h rs IH]; intros remote; simpl; [reflexivity|].
  rewrite IH. unfold add_remote. destruct (host_tier k h); [reflexivity | apply app_at_length].
Qed.

Lemma add_remotes_nth k rs : forall remote t,
  (forall h, In h rs -> (host_tier k h <= length remote)%nat) -> (t < length remote)%nat ->
  nth t (add_remotes k true remote rs) [] = nth t remote [] ++ in_tier (host_tier k) (S t) rs.
Proof.
  unfold add_remotes. induction rs as [|h rs IH]; intros remote t Hb Ht; simpl; [rewrite app_nil_r; reflexivity|].
  assert (Hb' : forall x, In x rs -> (host_tier k x <= length (add_remote k true remote h))%nat).
  { intros x Hx. unfold add_remote. destruct (host_tier k h); [|rewrite app_at_length]; apply Hb; right; assumption. }
  assert (Ht' : (t < length (add_remote k true remote h))%nat).
  { unfold add_remote. destruct (host_tier k h); [|rewrite app_at_length]; assumption. }
  rewrite (IH _ t Hb' Ht'). unfold add_remote, in_tier. simpl.
  pose proof (Hb h (or_introl eq_refl)) as Hh.
  destruct (host_tier k h) as [|i] eqn:E.
  - simpl. reflexivity.
  - rewrite nth_app_at by lia. simpl. destruct (Nat.eqb_spec i t) as [->|Hne].
    + rewrite Nat.eqb_refl. rewrite <- app_assoc. reflexivity.
    + destruct (Nat.eqb_spec t i); [congruence|]. reflexivity.
Qed.

Definition far_tiers (k : pkind) (rs : list host) : list (list host) :=
  map (fun t => in_tier (host_tier k) (S t) rs) (seq 0 (max_tier k)).

Lemma add_remotes_tiers k rs : add_remotes k true (repeat [] (max_tier k)) rs = far_tiers k rs.
Proof.
  apply nth_error_ext'. intros t. unfold far_tiers.
  destruct (Nat.lt_ge_cases t (max_tier k)) as [Ht|Ht].
  - rewrite (nth_error_nth' _ t []) by (rewrite add_remotes_length, repeat_length; assumption).
    rewrite add_remotes_nth; [|intros h _; rewrite repeat_length; apply host_tier_le_max | rewrite repeat_length; assumption].
    rewrite nth_error_map, (nth_error_nth' _ t 0%nat) by (rewrite seq_length; assumption).
    rewrite seq_nth by assumption. simpl.
    replace (nth t (repeat [] (max_tier k)) []) with (@nil host); [reflexivity|].
    symmetry. apply nth_nth_error. rewrite (nth_error_nth' _ t []) by (rewrite repeat_length; assumption).
    f_equal. apply nth_repeat.
  - transitivity (@None (list host)); [|symmetry]; apply nth_error_None;
      rewrite ?add_remotes_length, ?repeat_length, ?map_length, ?seq_length; assumption.
Qed.

(* ---- `used` filtering --------------------------------------------------------------------------------- *)
Lemma zmem_In x l : zmem x l = true <-> In x l.
Proof.
  unfold zmem. rewrite existsb_exists. split.
  - intros [y [Hy E]]. apply Z.eqb_eq in E. subst. assumption.
  - intros H. exists x. split; [assumption | apply Z.eqb_refl].
Qed.

Lemma hmem_In h l : hmem h l = true <-> In (hid h) (map hid l).
Proof.
  unfold hmem. rewrite existsb_exists, in_map_iff. split; intros [y [H1 H2]]; exists y.
  - split; [lia | assumption].
  - split; [tauto | lia].
Qed.

Lemma bool_eq_iff (a b : bool) : (a = true <-> b = true) -> a = b.
Proof. destruct a, b; intuition congruence. Qed.

Lemma dedup_seq_filter used l : NoDup (map hid l) ->
  dedup_seq used l = filter (fun h => negb (zmem (hid h) used)) l.
Proof.
  revert used; induction l as [|h l IH]; intros used Hn; [reflexivity|]. simpl.
  inversion Hn as [|? ? Hh Hn']; subst. destruct (zmem (hid h) used) eqn:E; simpl; [apply IH; assumption|].
  f_equal. rewrite IH by assumption. apply filter_ext_in. intros x Hx. f_equal.
  unfold zmem. simpl. destruct (Z.eqb_spec (hid x) (hid h)) as [Ex|Ex]; [|reflexivity].
  exfalso. apply Hh. rewrite <- Ex. apply in_map. assumption.
Qed.

Lemma seq_S_map n m : seq (S n) m = map S (seq n m).
Proof. symmetry. apply seq_shift. Qed.

(* ---- the theorem: model sequence = specification, for all inputs ------------------------------------ *)
Lemma first_occurrences_dedup l : forall seen, first_occurrences seen l = dedup_seq seen l.
Proof.
  induction l as [|h l IH]; intros seen; simpl; [reflexivity|]. unfold zmem.
  destruct (existsb (Z.eqb (hid h)) seen); rewrite IH; reflexivity.
Qed.

Lemma ta_seq_spec nlrf up p rs :
  ta_seq nlrf up p rs =
  spec_ta up (host_tier (pk p)) (max_tier (pk p)) nlrf rs (plists p) (Z.to_nat (pctr p + 2)).
Proof.
  unfold ta_seq, spec_ta. change (@first_occurrences) with dedup_seq. apply f_equal.
  apply f_equal2; [reflexivity|]. apply f_equal2; [|reflexivity].
  unfold far. destruct nlrf; [|reflexivity]. rewrite add_remotes_tiers.
  unfold far_tiers. rewrite ups_concat, map_map, seq_S_map, map_map. reflexivity.
Qed.

(* ---- first occurrences ------------------------------------------------------------------------------- *)
Lemma In_dedup_seq l : forall used h, In h (dedup_seq used l) -> In h l /\ zmem (hid h) used = false.
Proof.
  induction l as [|x l IH]; intros used h H; simpl in H; [tauto|].
  destruct (zmem (hid x) used) eqn:E.
  - apply IH in H. simpl. tauto.
  - destruct H as [->|H]; [simpl; auto|]. apply IH in H. destruct H as [H1 H2]. split; [simpl; auto|].
    unfold zmem in *. simpl in H2. apply orb_false_iff in H2. tauto.
Qed.

Lemma dedup_seq_nodup l : forall used, NoDup (map hid (dedup_seq used l)).
Proof.
  induction l as [|x l IH]; intros used; simpl; [constructor|].
  destruct (zmem (hid x) used) eqn:E; [apply IH|]. simpl. constructor; [|apply IH].
  intros Hin. apply in_map_iff in Hin. destruct Hin as [y [Ey Hy]]. apply In_dedup_seq in Hy. destruct Hy as [_ Hy].
  unfold zmem in Hy. simpl in Hy. rewrite Ey, Z.eqb_refl in Hy. discriminate.
Qed.

Lemma dedup_seq_complete l : forall used h, In h l -> zmem (hid h) used = false -> In (hid h) (map hid (dedup_seq used l)).
Proof.
  induction l as [|x l IH]; intros used h Hin Hm; simpl in *; [tauto|].
  destruct (zmem (hid x) used) eqn:E.
  - destruct Hin as [->|Hin]; [congruence | apply IH; assumption].
  - simpl. destruct (Z.eq_dec (hid x) (hid h)) as [Ex|Ex]; [left; assumption|]. right.
    destruct Hin as [->|Hin]; [congruence|]. apply IH; [assumption|]. unfold zmem in *. simpl.
    destruct (Z.eqb_spec (hid h) (hid x)); [congruence | assumption].
Qed.

(* on a list without repetitions, and nothing seen, nothing is dropped *)
Lemma dedup_seq_id l : forall used, NoDup (map hid l) -> (forall h, In h l -> zmem (hid h) used = false) -> dedup_seq used l = l.
Proof.
  induction l as [|x l IH]; intros used Hn Hu; cbn [dedup_seq]; [reflexivity|]. inversion Hn as [|? ? Hx Hn']; subst.
  rewrite (Hu x (or_introl eq_refl)). f_equal. apply IH; [assumption|]. intros h Hh. pose proof (Hu h (or_intror Hh)) as Hm. unfold zmem in *. simpl.
  rewrite Hm. destruct (Z.eqb_spec (hid h) (hid x)) as [E|E]; [|reflexivity].
  exfalso. apply Hx. rewrite <- E. apply in_map. assumption.
Qed.

Lemma dedup_tier_sorted (tier : host -> nat) L : forall used, tier_sorted tier L -> tier_sorted tier (dedup_seq used L).
Proof.
  induction L as [|x L IH]; intros used Hs i j a b Hij Ha Hb.
  - destruct i; discriminate.
  - assert (HsL : tier_sorted tier L).
    { intros i' j' a' b' H1 H2 H3. apply (Hs (S i') (S j') a' b'); [lia | exact H2 | exact H3]. }
    simpl in Ha, Hb. destruct (zmem (hid x) used) eqn:Ef.
    + apply (IH used HsL i j a b); assumption.
    + destruct i as [|i]; destruct j as [|j]; try lia.
      * simpl in Ha, Hb. inversion Ha; subst.
        assert (Hin : In b L) by (apply nth_error_In in Hb; apply In_dedup_seq in Hb; tauto).
        apply In_nth_error in Hin. destruct Hin as [m Hm]. apply (Hs 0%nat (S m) a b); [lia | reflexivity | exact Hm].
      * simpl in Ha, Hb. apply (IH (hid x :: used) HsL i j a b); [lia | assumption | assumption].
Qed.

Lemma zmem_used_after used l x : zmem x (used_after used l) = true <-> zmem x used = true \/ In x (map hid (dedup_seq used l)).
Proof. unfold used_after. rewrite !zmem_In, in_app_iff, <- in_rev. tauto. Qed.

(* ---- what the specification's list satisfies ------------------------------------------------------- *)
Section SpecTa.
  Variables (up : Z -> bool) (tier : host -> nat) (maxt : nat) (nlrf : bool).
  Variables (reps : list host) (tiers : list (list host)) (start : nat).

  Let nearL := ups up (in_tier tier 0 reps).
  Let farL := if nlrf then concat (map (fun t => ups up (in_tier tier t reps)) (seq 1 maxt)) else [].

  Lemma In_in_tier t h l : In h (in_tier tier t l) <-> In h l /\ tier h = t.
  Proof. unfold in_tier. rewrite filter_In. rewrite Nat.eqb_eq. tauto. Qed.

  Lemma In_farL h : In h farL <-> nlrf = true /\ In h reps /\ up (hid h) = true /\ (1 <= tier h <= maxt)%nat.
  Proof.
    unfold farL. destruct nlrf; [|simpl; intuition congruence]. rewrite in_concat. split.
    - intros [l [Hl Hh]]. apply in_map_iff in Hl. destruct Hl as [t [<- Ht]]. apply in_seq in Ht.
      apply In_ups in Hh. destruct Hh as [Hh Hu]. apply In_in_tier in Hh. intuition lia.
    - intros [_ [Hr [Hu Ht]]]. exists (ups up (in_tier tier (tier h) reps)). split.
      + apply in_map_iff. exists (tier h). split; [reflexivity|]. apply in_seq. lia.
      + apply In_ups. split; [apply In_in_tier; tauto | assumption].
  Qed.

  Lemma spec_ta_unfold : spec_ta up tier maxt nlrf reps tiers start = dedup_seq [] (nearL ++ farL ++ spec_rr up tiers start).
  Proof. unfold spec_ta. apply first_occurrences_dedup. Qed.

  Lemma spec_ta_only_up : only_up up (spec_ta up tier maxt nlrf reps tiers start).
  Proof.
    intros h H. rewrite spec_ta_unfold in H. apply In_dedup_seq in H. destruct H as [H _].
    rewrite !in_app_iff in H. destruct H as [H|[H|H]].
    - apply In_ups in H. tauto.
    - apply In_farL in H. tauto.
    - apply In_spec_rr in H. tauto.
  Qed.

  Lemma spec_ta_no_host_twice : no_host_twice (spec_ta up tier maxt nlrf reps tiers start).
  Proof. unfold no_host_twice. rewrite spec_ta_unfold. apply dedup_seq_nodup. Qed.

  (* every up host of the tier lists is offered, and every up replica the policy is to try first *)
  Lemma spec_ta_complete :
    complete up (concat tiers) (spec_ta up tier maxt nlrf reps tiers start) /\
    complete up (in_tier tier 0 reps) (spec_ta up tier maxt nlrf reps tiers start) /\
    (nlrf = true -> (forall h, In h reps -> (tier h <= maxt)%nat) ->
     complete up reps (spec_ta up tier maxt nlrf reps tiers start)).
  Proof.
    rewrite spec_ta_unfold. split; [|split].
    - intros h Hh Hu. apply dedup_seq_complete; [|reflexivity]. rewrite !in_app_iff. right. right. apply In_spec_rr. tauto.
    - intros h Hh Hu. apply dedup_seq_complete; [|reflexivity]. rewrite !in_app_iff. left. apply In_ups. tauto.
    - intros Hn Hb h Hh Hu. apply dedup_seq_complete; [|reflexivity]. rewrite !in_app_iff.
      destruct (tier h) as [|t] eqn:Et.
      + left. apply In_ups. split; [apply In_in_tier; tauto | assumption].
      + right. left. apply In_farL. pose proof (Hb h Hh). intuition lia.
  Qed.

  Lemma farL_tier_sorted : tier_sorted tier farL.
  Proof.
    unfold farL. destruct nlrf; [|intros i j a b _ Ha; destruct i; discriminate].
    intros i j a b Hij Ha Hb.
    destruct (concat_positions _ i j a b Hij Ha Hb) as [ti [tj [la [lb [H1 [H2 [H3 [H4 H5]]]]]]]].
    rewrite nth_error_map in H2, H3.
    destruct (nth_error (seq 1 maxt) ti) as [ta|] eqn:Ea; [|discriminate].
    destruct (nth_error (seq 1 maxt) tj) as [tb|] eqn:Eb; [|discriminate].
    inversion H2; inversion H3; subst.
    apply In_ups in H4. destruct H4 as [H4 _]. apply In_in_tier in H4.
    apply In_ups in H5. destruct H5 as [H5 _]. apply In_in_tier in H5.
    assert (Hta : ta = (1 + ti)%nat).
    { assert (Hl : (ti < length (seq 1 maxt))%nat) by (apply nth_error_Some; congruence). rewrite seq_length in Hl.
      apply nth_error_nth with (d := 0%nat) in Ea. rewrite seq_nth in Ea by assumption. lia. }
    assert (Htb : tb = (1 + tj)%nat).
    { assert (Hl : (tj < length (seq 1 maxt))%nat) by (apply nth_error_Some; congruence). rewrite seq_length in Hl.
      apply nth_error_nth with (d := 0%nat) in Eb. rewrite seq_nth in Eb by assumption. lia. }
    lia.
  Qed.

  (* the ids of near ++ far are distinct when the replica list names no host twice *)
  Lemma near_far_nodup : NoDup (map hid reps) -> NoDup (map hid (nearL ++ farL)).
  Proof.
    intros Hr.
    assert (Hinj : forall x y, In x reps -> In y reps -> hid x = hid y -> x = y).
    { clear -Hr. revert Hr. generalize reps as L. induction L as [|z L IHL]; simpl; intros Hn x y Hx Hy E; [tauto|].
      inversion Hn as [|? ? Hz Hn']; subst. destruct Hx as [->|Hx], Hy as [->|Hy]; auto.
      - exfalso. apply Hz. rewrite E. apply in_map. assumption.
      - exfalso. apply Hz. rewrite <- E. apply in_map. assumption. }
    assert (Hnear : NoDup (map hid nearL)) by (unfold nearL, ups, in_tier; do 2 apply NoDup_map_filter; assumption).
    assert (Hfar : NoDup (map hid farL)).
    { unfold farL. destruct nlrf; [|constructor]. generalize 1%nat as a. induction maxt as [|m IH]; intros a; simpl; [constructor|].
      apply NoDup_map_app. split; [unfold ups, in_tier; do 2 apply NoDup_map_filter; assumption|]. split; [apply IH|].
      intros x y Hx Hy E. apply In_ups in Hx. destruct Hx as [Hx _]. apply In_in_tier in Hx.
      apply in_concat in Hy. destruct Hy as [l [Hl Hy]]. apply in_map_iff in Hl. destruct Hl as [t [<- Hts]].
      apply in_seq in Hts. apply In_ups in Hy. destruct Hy as [Hy _]. apply In_in_tier in Hy.
      assert (x = y) by (apply Hinj; tauto). subst. lia. }
    apply NoDup_map_app. split; [assumption|]. split; [assumption|].
    intros x y Hx Hy E. apply In_ups in Hx. destruct Hx as [Hx _]. apply In_in_tier in Hx.
    apply In_farL in Hy. destruct Hy as [_ [Hy [_ Hty]]].
    assert (x = y) by (apply Hinj; tauto). subst. lia.
  Qed.

  (* replicas first, nearest first; then the other hosts by tier; with a duplicate-free replica list the
     replica parts are exactly the up replicas in replica order *)
  Lemma spec_ta_order : tiers_consistent tier tiers ->
    exists nearP farP rest,
      spec_ta up tier maxt nlrf reps tiers start = nearP ++ farP ++ rest
      /\ (forall h, In h nearP -> In h reps /\ tier h = 0%nat)
      /\ (forall h, In h farP -> In h reps /\ (1 <= tier h)%nat)
      /\ tier_sorted tier farP
      /\ tier_sorted tier rest
      /\ (forall h, In h rest -> ~ In (hid h) (map hid (nearP ++ farP)))
      /\ (NoDup (map hid reps) -> nearP = nearL /\ farP = farL).
  Proof.
    intros Hc. rewrite spec_ta_unfold, dedup_seq_app, dedup_seq_app.
    set (u1 := used_after [] nearL). set (u2 := used_after u1 farL).
    exists (dedup_seq [] nearL), (dedup_seq u1 farL), (dedup_seq u2 (spec_rr up tiers start)).
    split; [reflexivity|]. split; [|split; [|split; [|split; [|split]]]].
    - intros h Hh. apply In_dedup_seq in Hh. destruct Hh as [Hh _]. apply In_ups in Hh. destruct Hh as [Hh _].
      apply In_in_tier in Hh. assumption.
    - intros h Hh. apply In_dedup_seq in Hh. destruct Hh as [Hh _]. apply In_farL in Hh. intuition lia.
    - apply dedup_tier_sorted. apply farL_tier_sorted.
    - apply dedup_tier_sorted. apply spec_rr_tier_sorted. assumption.
    - intros h Hh Hin. apply In_dedup_seq in Hh. destruct Hh as [_ Hh].
      assert (Hz : zmem (hid h) u2 = true); [|congruence].
      unfold u2. apply zmem_used_after. rewrite map_app, in_app_iff in Hin. destruct Hin as [Hin|Hin]; [left|right; assumption].
      unfold u1. apply zmem_used_after. right. assumption.
    - intros Hn. pose proof (near_far_nodup Hn) as Hnf. apply NoDup_map_app in Hnf. destruct Hnf as [N1 [N2 N3]].
      assert (E1 : dedup_seq [] nearL = nearL) by (apply dedup_seq_id; [assumption | reflexivity]).
      split; [exact E1|]. apply dedup_seq_id; [assumption|]. intros h Hh.
      destruct (zmem (hid h) u1) eqn:Ez; [|reflexivity]. exfalso. unfold u1 in Ez. apply zmem_used_after in Ez.
      destruct Ez as [Ez|Ez]; [discriminate|]. rewrite E1 in Ez. apply in_map_iff in Ez. destruct Ez as [x [Ex Hx]].
      apply (N3 x h Hx Hh Ex).
  Qed.

  (* with duplicate-free inputs the list is the plain concatenation with the already offered hosts filtered out *)
  Lemma spec_ta_nodup_form : NoDup (map hid reps) -> NoDup (map hid (concat tiers)) ->
    spec_ta up tier maxt nlrf reps tiers start =
    nearL ++ farL ++ filter (fun h => negb (hmem h (nearL ++ farL))) (spec_rr up tiers start).
  Proof.
    intros Hr Ht. rewrite spec_ta_unfold, app_assoc, dedup_seq_app.
    pose proof (near_far_nodup Hr) as Hnf.
    rewrite (dedup_seq_id (nearL ++ farL) [] Hnf) by reflexivity. rewrite <- app_assoc. f_equal. f_equal.
    rewrite dedup_seq_filter by (apply spec_rr_no_host_twice; assumption).
    apply filter_ext. intros h. f_equal. apply bool_eq_iff. rewrite zmem_used_after, hmem_In.
    rewrite (dedup_seq_id (nearL ++ farL) [] Hnf) by reflexivity. split; [intros [H|H]; [discriminate | assumption] | auto].
  Qed.
End SpecTa.

(* ---- ShuffleReplicas: any rearrangement of the replica list only rearranges the replica prefix -------- *)
Lemma perm_filter {A} (f : A -> bool) (a b : list A) : Permutation a b -> Permutation (filter f a) (filter f b).
Proof.
  induction 1 as [|x a b _ IH|x y a|a b c _ IH1 _ IH2]; simpl.
  - constructor.
  - destruct (f x); [constructor|]; assumption.
  - destruct (f x), (f y); try reflexivity. constructor.
  - etransitivity; eassumption.
Qed.

Lemma shuffle_lemma up tier maxt nlrf rs rs' tiers start :
  NoDup (map hid rs) -> NoDup (map hid (concat tiers)) -> Permutation rs' rs ->
  exists near near' far far' rest,
    spec_ta up tier maxt nlrf rs tiers start = near ++ far ++ rest /\
    spec_ta up tier maxt nlrf rs' tiers start = near' ++ far' ++ rest /\
    near = ups up (in_tier tier 0 rs) /\ Permutation near' near /\ Permutation far' far.
Proof.
  intros Hn Ht Hp.
  assert (Hn' : NoDup (map hid rs')).
  { eapply Permutation_NoDup; [|exact Hn]. apply Permutation_map. symmetry. assumption. }
  rewrite (spec_ta_nodup_form up tier maxt nlrf rs tiers start Hn Ht).
  rewrite (spec_ta_nodup_form up tier maxt nlrf rs' tiers start Hn' Ht).
  set (near := ups up (in_tier tier 0 rs)). set (near' := ups up (in_tier tier 0 rs')).
  set (far := if nlrf then concat (map (fun t => ups up (in_tier tier t rs)) (seq 1 maxt)) else []).
  set (far' := if nlrf then concat (map (fun t => ups up (in_tier tier t rs')) (seq 1 maxt)) else []).
  assert (Hpn : Permutation near' near) by (unfold near, near', ups, in_tier; do 2 apply perm_filter; assumption).
  assert (Hf : Permutation far' far).
  { unfold far, far'. destruct nlrf; [|reflexivity]. induction (seq 1 maxt) as [|t ts IH]; simpl; [reflexivity|].
    apply Permutation_app; [|exact IH]. unfold ups, in_tier. do 2 apply perm_filter. assumption. }
  exists near, near', far, far', (filter (fun h => negb (hmem h (near ++ far))) (spec_rr up tiers start)).
  split; [reflexivity|]. split; [|split; [reflexivity|split; assumption]].
  f_equal. f_equal. apply filter_ext. intros h. f_equal. apply bool_eq_iff. rewrite !hmem_In.
  assert (Hpp : Permutation (map hid (near' ++ far')) (map hid (near ++ far))).
  { apply Permutation_map. apply Permutation_app; assumption. }
  split; apply Permutation_in; [exact Hpp | symmetry; exact Hpp].
Qed.
