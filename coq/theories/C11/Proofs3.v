(* C11/Proofs3.v -- the token-aware generator under a fixed oracle: each of its three loops is a scan, for
   the first host that is up and not yet offered, of a list it walks; the closed form of the whole
   sequence follows. *)
From Coq Require Import Permutation.
From GocqlV Require Import Lib.Base C11.Model C11.Spec C11.Proofs1 C11.Proofs2.

Ltac splits := repeat match goal with |- _ /\ _ => split end; try reflexivity; try assumption.

(* the generator as a function on (closure state, policy state) *)
Definition ta_step (nlrf : bool) (up : Z -> bool) (st : ta_iter * policy) : outcome * (ta_iter * policy) :=
  let '(o, it', p') := ta_next nlrf up (snd st) (fst st) in (o, (it', p')).

Lemma yields_head {St} (next : St -> outcome * St) st1 st2 hs st' :
  next st1 = next st2 -> yields next st2 hs st' -> yields next st1 hs st'.
Proof.
  intros E H. inversion H as [? ? E2|? ? ? ? ? E2 H3]; subst.
  - apply yields_nil. congruence.
  - eapply yields_cons; [|exact H3]. congruence.
Qed.

(* ---- hosts minus those already offered (the `used` map also absorbs repetitions) -------------------- *)
Fixpoint dedup_seq (used : list Z) (l : list host) : list host :=
  match l with
  | [] => []
  | h :: t => if zmem (hid h) used then dedup_seq used t else h :: dedup_seq (hid h :: used) t
  end.

(* the `used` set after the hosts of [l] have been walked *)
Definition used_after (used : list Z) (l : list host) : list Z := rev (map hid (dedup_seq used l)) ++ used.

Lemma rev_ids_cons (h : host) (l : list host) (used : list Z) :
  rev (map hid (h :: l)) ++ used = rev (map hid l) ++ hid h :: used.
Proof. simpl. rewrite <- app_assoc. reflexivity. Qed.

Lemma dedup_seq_app a : forall used b,
  dedup_seq used (a ++ b) = dedup_seq used a ++ dedup_seq (used_after used a) b.
Proof.
  unfold used_after. induction a as [|h a IH]; intros used b; [reflexivity|]. simpl.
  destruct (zmem (hid h) used); [apply IH|]. rewrite rev_ids_cons. simpl. f_equal. apply IH.
Qed.

Lemma used_after_app a used b : used_after used (a ++ b) = used_after (used_after used a) b.
Proof.
  unfold used_after. rewrite dedup_seq_app. unfold used_after. rewrite map_app, rev_app_distr, app_assoc. reflexivity.
Qed.

Definition skipped (up : Z -> bool) (used : list Z) (l : list host) : Prop :=
  Forall (fun h => up (hid h) = false \/ zmem (hid h) used = true) l.

Lemma dedup_seq_skipped up used pre l : skipped up used pre -> dedup_seq used (ups up (pre ++ l)) = dedup_seq used (ups up l).
Proof.
  induction 1 as [|h pre Hh _ IH]; [reflexivity|]. simpl. unfold ups in *. simpl.
  destruct (up (hid h)) eqn:Eu; [|assumption]. destruct Hh as [Hh|Hh]; [congruence|].
  simpl. rewrite Hh. assumption.
Qed.

Lemma dedup_seq_split up used pre h post :
  skipped up used pre -> up (hid h) = true -> zmem (hid h) used = false ->
  dedup_seq used (ups up (pre ++ h :: post)) = h :: dedup_seq (hid h :: used) (ups up post).
Proof.
  intros Hp Hu Hm. rewrite (dedup_seq_skipped up used pre _ Hp). unfold ups. simpl. rewrite Hu. simpl. rewrite Hm. reflexivity.
Qed.

Lemma dedup_seq_all_skipped up used l : skipped up used l -> dedup_seq used (ups up l) = [].
Proof. intros H. rewrite <- (app_nil_r l). rewrite (dedup_seq_skipped up used l [] H). reflexivity. Qed.

(* ---- first loop ------------------------------------------------------------------------------------ *)
Definition tier0 (k : pkind) (h : host) : bool := (host_tier k h =? 0)%nat.

(* what walking over a replica does to `remote` *)
Definition add_remote (k : pkind) (nlrf : bool) (remote : list (list host)) (h : host) : list (list host) :=
  match host_tier k h with
  | O => remote
  | S t => if nlrf then app_at remote t h else remote
  end.

Definition add_remotes (k : pkind) (nlrf : bool) (remote : list (list host)) (rs : list host) : list (list host) :=
  fold_left (add_remote k nlrf) rs remote.

Definition near (k : pkind) (up : Z -> bool) (rs : list host) : list host := ups up (filter (tier0 k) rs).

Lemma p1_hit k nlrf up used h reps remote :
  host_tier k h = 0%nat -> up (hid h) = true -> zmem (hid h) used = false ->
  ta_phase1 k nlrf up used (h :: reps) remote = P1Found h reps remote.
Proof. intros Ht Hu Hm. cbn [ta_phase1]. rewrite Ht, Hu, Hm. reflexivity. Qed.

Lemma p1_skip k nlrf up used h reps remote : tier0 k h && (up (hid h) && negb (zmem (hid h) used)) = false ->
  ta_phase1 k nlrf up used (h :: reps) remote = ta_phase1 k nlrf up used reps (add_remote k nlrf remote h).
Proof.
  intros H. cbn [ta_phase1]. unfold add_remote, tier0 in *.
  destruct (host_tier k h) as [|t]; [|reflexivity]. simpl in H. rewrite H. reflexivity.
Qed.

Lemma ta_next_phase1_ext nlrf up p reps1 rem1 reps2 rem2 used fb :
  ta_phase1 (pk p) nlrf up used reps1 rem1 = ta_phase1 (pk p) nlrf up used reps2 rem2 ->
  ta_next nlrf up p (mkTA reps1 rem1 used fb) = ta_next nlrf up p (mkTA reps2 rem2 used fb).
Proof. intros E. unfold ta_next. cbn [ti_reps ti_remote ti_used ti_fb]. rewrite E. reflexivity. Qed.

Lemma stage1 nlrf up p fb : forall rs remote used HS st',
  yields (ta_step nlrf up)
         (mkTA [] (add_remotes (pk p) nlrf remote rs) (used_after used (near (pk p) up rs)) fb, p) HS st' ->
  yields (ta_step nlrf up) (mkTA rs remote used fb, p) (dedup_seq used (near (pk p) up rs) ++ HS) st'.
Proof.
  induction rs as [|h rs IH]; intros remote used HS st' H; [exact H|].
  destruct (tier0 (pk p) h && up (hid h)) eqn:E.
  - apply andb_true_iff in E. destruct E as [Et Eu]. pose proof Et as Et'. unfold tier0 in Et'. apply Nat.eqb_eq in Et'.
    assert (En : near (pk p) up (h :: rs) = h :: near (pk p) up rs).
    { unfold near, ups. simpl. rewrite Et. simpl. rewrite Eu. reflexivity. }
    assert (Ea : add_remotes (pk p) nlrf remote (h :: rs) = add_remotes (pk p) nlrf remote rs).
    { unfold add_remotes. simpl. unfold add_remote at 2. rewrite Et'. reflexivity. }
    rewrite En, Ea in *. destruct (zmem (hid h) used) eqn:Em.
    + (* already offered: skipped *)
      unfold used_after in H. simpl in H. rewrite Em in H. simpl. rewrite Em.
      eapply yields_head; [|apply (IH remote used HS st' H)].
      unfold ta_step. cbn [fst snd]. erewrite ta_next_phase1_ext; [reflexivity|].
      rewrite p1_skip; [unfold add_remote; rewrite Et'; reflexivity|]. rewrite Et, Eu, Em. reflexivity.
    + unfold used_after in H. simpl in H. rewrite Em in H. rewrite rev_ids_cons in H. simpl. rewrite Em. simpl.
      eapply yields_cons.
      * unfold ta_step, ta_next. cbn [fst snd ti_reps ti_remote ti_used ti_fb].
        rewrite (p1_hit _ _ _ _ _ _ _ Et' Eu Em). reflexivity.
      * apply IH. exact H.
  - assert (En : near (pk p) up (h :: rs) = near (pk p) up rs).
    { unfold near, ups. simpl. destruct (tier0 (pk p) h) eqn:Et; [|reflexivity]. simpl in *. rewrite E. reflexivity. }
    rewrite En in *. eapply yields_head; [|apply (IH (add_remote (pk p) nlrf remote h) used HS st' H)].
    unfold ta_step. cbn [fst snd]. erewrite ta_next_phase1_ext; [reflexivity|].
    apply p1_skip. rewrite andb_assoc, E. reflexivity.
Qed.

(* ---- second loop ----------------------------------------------------------------------------------- *)
Lemma not_ok_skipped up used h : up (hid h) && negb (zmem (hid h) used) = false ->
  up (hid h) = false \/ zmem (hid h) used = true.
Proof. destruct (up (hid h)), (zmem (hid h) used); simpl; auto. Qed.

Lemma p2_inner_spec up used rest nt cur :
  (match nt with
   | P2Found h rem' => exists pre post, concat rest = pre ++ h :: post /\ skipped up used pre /\ up (hid h) = true
                                         /\ zmem (hid h) used = false /\ concat rem' = post
   | P2Done rem' => skipped up used (concat rest) /\ rem' = []
   end) ->
  match p2_inner up used rest nt cur with
  | P2Found h rem' => exists pre post, cur ++ concat rest = pre ++ h :: post /\ skipped up used pre /\ up (hid h) = true
                                        /\ zmem (hid h) used = false /\ concat rem' = post
  | P2Done rem' => skipped up used (cur ++ concat rest) /\ rem' = []
  end.
Proof.
  intros Hnt. induction cur as [|h cur IH]; [exact Hnt|]. cbn [p2_inner].
  destruct (up (hid h) && negb (zmem (hid h) used)) eqn:E.
  - apply andb_true_iff in E. destruct E as [Eu Em]. apply negb_true_iff in Em.
    exists [], (cur ++ concat rest). splits. constructor.
  - apply not_ok_skipped in E. destruct (p2_inner up used rest nt cur) as [h' rem'|rem'].
    + destruct IH as [pre [post [E1 [E2 [E3 [E4 E5]]]]]]. exists (h :: pre), post. simpl. rewrite E1. splits.
      constructor; assumption.
    + destruct IH as [E1 E2]. splits. simpl. constructor; assumption.
Qed.

Lemma phase2_spec up used rem :
  match ta_phase2 up used rem with
  | P2Found h rem' => exists pre post, concat rem = pre ++ h :: post /\ skipped up used pre /\ up (hid h) = true
                                        /\ zmem (hid h) used = false /\ concat rem' = post
  | P2Done rem' => skipped up used (concat rem) /\ rem' = []
  end.
Proof.
  induction rem as [|cur rest IH]; cbn [ta_phase2].
  - splits. constructor.
  - simpl concat. apply p2_inner_spec. exact IH.
Qed.

(* ---- third loop ------------------------------------------------------------------------------------ *)
Lemma fut_length_le shift layers co : (length (fut shift layers co) <= length (concat layers))%nat.
Proof.
  destruct layers as [|l rest]; simpl; [lia|]. rewrite !app_length, skipn_length, rr_rot_length.
  assert (length (concat (map (rr_rot shift) rest)) = length (concat rest)); [|lia].
  induction rest as [|x rest IH]; simpl; [reflexivity|]. rewrite !app_length, rr_rot_length, IH. reflexivity.
Qed.

Lemma phase3_spec up used : forall fuel fb, rr_inv fb -> (length (rr_future fb) < fuel)%nat ->
  match ta_phase3 up used fb fuel with
  | (Offer h, fb', used') =>
      exists pre post, rr_future fb = pre ++ h :: post /\ skipped up used pre /\ up (hid h) = true
                       /\ zmem (hid h) used = false /\ rr_future fb' = post /\ rr_inv fb'
                       /\ ri_shift fb' = ri_shift fb /\ used' = hid h :: used
  | (Nil, fb', used') => skipped up used (rr_future fb) /\ fb' = mkRR (ri_shift fb) [] 0 /\ used' = used
  | _ => False
  end.
Proof.
  induction fuel as [|fuel IH]; intros fb Hinv Hf; [lia|]. cbn [ta_phase3].
  pose proof (rr_next_spec up fb Hinv) as Hs. destruct (rr_next up fb) as [[h| | |] fb1]; try tauto.
  - destruct Hs as [pre [post [E1 [E2 [E3 [E4 [E5 E6]]]]]]].
    assert (Hpre : skipped up used pre).
    { unfold skipped, downs in *. eapply Forall_impl; [|exact E2]. simpl. tauto. }
    destruct (zmem (hid h) used) eqn:Em.
    + assert (Hlt : (length (rr_future fb1) < fuel)%nat).
      { rewrite E4. rewrite E1, app_length in Hf. simpl in Hf. lia. }
      specialize (IH fb1 E5 Hlt).
      destruct (ta_phase3 up used fb1 fuel) as [[[h'| | |] fb'] used']; try tauto.
      * destruct IH as [pre' [post' [F1 [F2 [F3 [F4 [F5 [F6 [F7 F8]]]]]]]]].
        exists (pre ++ h :: pre'), post'. rewrite E1, <- E4, F1, <- app_assoc. simpl.
        splits; try congruence.
        apply Forall_app. split; [assumption|]. constructor; [right; assumption | assumption].
      * destruct IH as [F1 [F2 F3]]. splits; try congruence.
        rewrite E1. apply Forall_app. split; [assumption|]. constructor; [right; assumption|]. rewrite <- E4. assumption.
    + exists pre, post. splits.
  - destruct Hs as [E1 E2]. splits.
    unfold skipped, downs in *. eapply Forall_impl; [|exact E1]. simpl. tauto.
Qed.

(* the state in which the generator stays exhausted *)
Definition ta_done (used : list Z) (shift : Z) : ta_iter := mkTA [] [] used (Some (mkRR shift [] 0)).

Lemma ta_done_stays nlrf used shift p :
  forall up, ta_step nlrf up (ta_done used shift, p) = (Nil, (ta_done used shift, p)).
Proof.
  intros up. unfold ta_step, ta_next, ta_done. cbn [fst snd ti_reps ti_remote ti_used ti_fb ta_phase1].
  destruct nlrf; reflexivity.
Qed.

Lemma stage3 nlrf up p :
  forall n fb, length (rr_future fb) = n -> rr_inv fb -> forall used,
  exists used', yields (ta_step nlrf up) (mkTA [] [] used (Some fb), p)
                       (dedup_seq used (ups up (rr_future fb))) (ta_done used' (ri_shift fb), p).
Proof.
  induction n as [n IH] using lt_wf_ind. intros fb Hn Hinv used.
  assert (Hfuel : (length (rr_future fb) < S (rr_size fb))%nat).
  { unfold rr_future, rr_size. pose proof (fut_length_le (ri_shift fb) (ri_layers fb) (ri_co fb)). lia. }
  pose proof (phase3_spec up used _ fb Hinv Hfuel) as Hs.
  assert (Estep : ta_step nlrf up (mkTA [] [] used (Some fb), p) =
                  (let '(o, fb', used') := ta_phase3 up used fb (S (rr_size fb)) in (o, (mkTA [] [] used' (Some fb'), p)))).
  { unfold ta_step, ta_next. cbn [fst snd ti_reps ti_remote ti_used ti_fb ta_phase1].
    destruct nlrf; cbn [ta_phase2]; destruct (ta_phase3 up used fb (S (rr_size fb))) as [[o fb'] used']; reflexivity. }
  destruct (ta_phase3 up used fb (S (rr_size fb))) as [[[h| | |] fb'] used']; try tauto.
  - destruct Hs as [pre [post [E1 [E2 [E3 [E4 [E5 [E6 [E7 E8]]]]]]]]].
    destruct (IH (length (rr_future fb'))) with (fb := fb') (used := used') as [u' Hy]; auto.
    { rewrite <- Hn, E1, E5, app_length. simpl. lia. }
    exists u'. rewrite E1, (dedup_seq_split up used pre h post E2 E3 E4), <- E5, <- E8, <- E7.
    eapply yields_cons; [exact Estep | exact Hy].
  - destruct Hs as [E1 [E2 E3]]. subst. exists used.
    rewrite (dedup_seq_all_skipped up used _ E1). apply yields_nil. exact Estep.
Qed.

(* creating the fallback generator in the call that first needs it = having created it just before *)
Lemma lazy_pick nlrf up p used :
  ta_step nlrf up (mkTA [] [] used None, p) =
  ta_step nlrf up (mkTA [] [] used (Some (fst (rr_pick p))), snd (rr_pick p)).
Proof.
  unfold ta_step, ta_next. cbn [fst snd ti_reps ti_remote ti_used ti_fb ta_phase1].
  destruct nlrf; cbn [ta_phase2]; destruct (rr_pick p) as [fb p']; reflexivity.
Qed.

(* ---- the whole sequence ----------------------------------------------------------------------------- *)
Definition far (k : pkind) (nlrf : bool) (up : Z -> bool) (rs : list host) : list host :=
  if nlrf then ups up (concat (add_remotes k true (repeat [] (max_tier k)) rs)) else [].

(* the sequence the model's token-aware generator offers *)
Definition ta_seq (nlrf : bool) (up : Z -> bool) (p : policy) (rs : list host) : list host :=
  dedup_seq [] (near (pk p) up rs ++ far (pk p) nlrf up rs ++ spec_rr up (plists p) (Z.to_nat (pctr p + 2))).

Lemma add_remotes_false k remote rs : add_remotes k false remote rs = remote.
Proof.
  unfold add_remotes. revert remote; induction rs as [|h rs IH]; intros remote; simpl; [reflexivity|].
  rewrite IH. unfold add_remote. destruct (host_tier k h); reflexivity.
Qed.

Lemma ta_sequence_lemma nlrf up p rs : ctr_in_range p ->
  exists used,
    let final := (ta_done used (pctr p + 1), mkPolicy (pk p) (plists p) (pctr p + 1)) in
    yields (ta_step nlrf up) (ta_pick (pk p) nlrf rs, p) (ta_seq nlrf up p rs) final
    /\ forall up', ta_step nlrf up' final = (Nil, final).
Proof.
  intros Hr. destruct (rr_pick_spec p Hr) as [Hinv [Hs [_ [_ [Hf Hp]]]]].
  unfold ta_seq, ta_pick. set (a := near (pk p) up rs). set (b := far (pk p) nlrf up rs).
  set (RR := spec_rr up (plists p) (Z.to_nat (pctr p + 2))).
  set (p' := mkPolicy (pk p) (plists p) (pctr p + 1)) in *.
  (* third stage *)
  assert (S3 : forall used, exists used', yields (ta_step nlrf up) (mkTA [] [] used None, p)
                                                 (dedup_seq used RR) (ta_done used' (pctr p + 1), p')).
  { intros used. destruct (stage3 nlrf up p' _ (fst (rr_pick p)) eq_refl Hinv used) as [u' Hy].
    exists u'. eapply yields_head; [apply lazy_pick|]. rewrite Hp. unfold RR.
    replace (pctr p + 2) with (pctr p + 1 + 1) by lia. rewrite <- rr_future_spec, <- Hf, <- Hs. exact Hy. }
  (* second stage, by induction on what it can still reach, ending in the third *)
  assert (S2 : nlrf = true -> forall n rem, length (concat rem) = n -> forall used,
            exists used_end, yields (ta_step nlrf up) (mkTA [] rem used None, p)
                         (dedup_seq used (ups up (concat rem)) ++ dedup_seq (used_after used (ups up (concat rem))) RR)
                         (ta_done used_end (pctr p + 1), p')).
  { intros En. induction n as [n IH] using lt_wf_ind. intros rem Hn used.
    pose proof (phase2_spec up used rem) as Hsp. destruct (ta_phase2 up used rem) as [h rem'|rem'] eqn:E.
    - destruct Hsp as [pre [post [E1 [E2 [E3 [E4 E5]]]]]].
      assert (Hlt : (length (concat rem') < n)%nat) by (rewrite <- Hn, E1, E5, app_length; simpl; lia).
      destruct (IH (length (concat rem')) Hlt rem' eq_refl (hid h :: used)) as [ue Hy].
      exists ue. unfold used_after in *. rewrite E1, (dedup_seq_split up used pre h post E2 E3 E4), <- E5.
      rewrite rev_ids_cons. simpl. eapply yields_cons; [|exact Hy].
      unfold ta_step, ta_next. cbn [fst snd ti_reps ti_remote ti_used ti_fb ta_phase1]. rewrite En, E. reflexivity.
    - destruct Hsp as [E1 E2]. subst rem'. unfold used_after. rewrite (dedup_seq_all_skipped up used _ E1). simpl.
      destruct (S3 used) as [u' Hy]. exists u'. eapply yields_head; [|exact Hy].
      unfold ta_step, ta_next. cbn [fst snd ti_reps ti_remote ti_used ti_fb ta_phase1]. rewrite En, E. cbn [ta_phase2]. reflexivity. }
  rewrite dedup_seq_app, dedup_seq_app.
  destruct nlrf eqn:En.
  - destruct (S2 eq_refl _ (add_remotes (pk p) true (repeat [] (max_tier (pk p))) rs) eq_refl (used_after [] a)) as [ue Hy].
    exists ue. split; [|intros up'; apply ta_done_stays]. apply stage1. unfold b, far. exact Hy.
  - destruct (S3 (used_after [] a)) as [u' Hy]. exists u'. split; [|intros up'; apply ta_done_stays].
    apply stage1. rewrite add_remotes_false. unfold b, far. simpl. exact Hy.
Qed.
