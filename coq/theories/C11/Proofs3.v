(* C11/Proofs3.v -- the token-aware generator under a fixed oracle: each of its three loops against the
   list it walks, and the closed form of the whole sequence (faithful to the code, including the
   early exit of the second loop on an empty tier). *)
From Coq Require Import Permutation.
From GocqlV Require Import Lib.Base C11.Model C11.Spec C11.Proofs1 C11.Proofs2.

Ltac splits := repeat match goal with |- _ /\ _ => split end; try reflexivity; try assumption.

(* the generator as a function on (closure state, policy state) *)
Definition ta_step (nlrf : bool) (up : Z -> bool) (st : ta_iter * policy) : outcome * (ta_iter * policy) :=
  let '(o, it', p') := ta_next nlrf up (snd st) (fst st) in (o, (it', p')).

Lemma yields_head {St} (next : St -> outcome * St) st1 st2 hs st' :
  next st1 = next st2 -> yields next st2 hs st' -> yields next st1 hs st'.
Proof.
  intros E H. inversion H as [? ? E2|? ? ? ? ? E2 H3]; subst.
  - apply yields_nil. congruence.
  - eapply yields_cons; [|exact H3]. congruence.
Qed.

(* ---- first loop ------------------------------------------------------------------------------------ *)
Definition tier0 (k : pkind) (h : host) : bool := (host_tier k h =? 0)%nat.

(* what walking over a replica that is not offered does to `remote` *)
Definition add_remote (k : pkind) (nlrf : bool) (remote : list (list host)) (h : host) : list (list host) :=
  match host_tier k h with
  | O => remote
  | S t => if nlrf then app_at remote t h else remote
  end.

Definition add_remotes (k : pkind) (nlrf : bool) (remote : list (list host)) (rs : list host) : list (list host) :=
  fold_left (add_remote k nlrf) rs remote.

Definition near (k : pkind) (up : Z -> bool) (rs : list host) : list host := ups up (filter (tier0 k) rs).

Lemma p1_hit k nlrf up h reps remote : host_tier k h = 0%nat -> up (hid h) = true ->
  ta_phase1 k nlrf up (Some h :: reps) remote = P1Found h reps remote.
Proof. intros Ht Hu. cbn [ta_phase1 ta_tier]. rewrite Ht, Hu. reflexivity. Qed.

Lemma p1_skip k nlrf up h reps remote : tier0 k h && up (hid h) = false ->
  ta_phase1 k nlrf up (Some h :: reps) remote = ta_phase1 k nlrf up reps (add_remote k nlrf remote h).
Proof.
  intros H. cbn [ta_phase1 ta_tier]. unfold add_remote, tier0 in *.
  destruct (host_tier k h) as [|t]; [|reflexivity].
  simpl in H. rewrite H. reflexivity.
Qed.

Lemma ta_next_phase1_ext nlrf up p reps1 rem1 reps2 rem2 used fb :
  ta_phase1 (pk p) nlrf up reps1 rem1 = ta_phase1 (pk p) nlrf up reps2 rem2 ->
  ta_next nlrf up p (mkTA reps1 rem1 used fb) = ta_next nlrf up p (mkTA reps2 rem2 used fb).
Proof. intros E. unfold ta_next. cbn [ti_reps ti_remote ti_used ti_fb]. rewrite E. reflexivity. Qed.

Lemma rev_ids_cons (h : host) (l : list host) (used : list Z) :
  rev (map hid (h :: l)) ++ used = rev (map hid l) ++ hid h :: used.
Proof. simpl. rewrite <- app_assoc. reflexivity. Qed.

Lemma stage1 nlrf up p fb : forall rs remote used HS st',
  yields (ta_step nlrf up)
         (mkTA [] (add_remotes (pk p) nlrf remote rs) (rev (map hid (near (pk p) up rs)) ++ used) fb, p) HS st' ->
  yields (ta_step nlrf up) (mkTA (map Some rs) remote used fb, p) (near (pk p) up rs ++ HS) st'.
Proof.
  induction rs as [|h rs IH]; intros remote used HS st' H; [exact H|].
  destruct (tier0 (pk p) h && up (hid h)) eqn:E.
  - apply andb_true_iff in E. destruct E as [Et Eu]. unfold tier0 in Et. apply Nat.eqb_eq in Et.
    assert (En : near (pk p) up (h :: rs) = h :: near (pk p) up rs).
    { unfold near, ups. simpl. unfold tier0 at 1. rewrite Et. simpl. rewrite Eu. reflexivity. }
    rewrite En in *. simpl. eapply yields_cons.
    + unfold ta_step, ta_next. cbn [fst snd ti_reps ti_remote ti_used ti_fb map].
      rewrite (p1_hit _ _ _ _ _ _ Et Eu). reflexivity.
    + apply IH. rewrite rev_ids_cons in H.
      unfold add_remotes in *. simpl in H. unfold add_remote at 2 in H. rewrite Et in H. exact H.
  - assert (En : near (pk p) up (h :: rs) = near (pk p) up rs).
    { unfold near, ups. simpl. destruct (tier0 (pk p) h) eqn:Et; [|reflexivity]. simpl in *. rewrite E. reflexivity. }
    rewrite En in *. eapply yields_head; [|apply (IH (add_remote (pk p) nlrf remote h) used HS st' H)].
    unfold ta_step. cbn [fst snd map]. erewrite ta_next_phase1_ext; [reflexivity|].
    apply p1_skip. assumption.
Qed.

(* ---- second loop ----------------------------------------------------------------------------------- *)
(* the hosts the second loop can reach: whole tiers up to the first empty one *)
Fixpoint p2_seq (rem : list (list host)) : list host :=
  match rem with
  | [] => []
  | [] :: _ => []
  | l :: rest => l ++ p2_seq rest
  end.

Definition p2_stuck (rem : list (list host)) : Prop := forall up, ta_phase2 up rem = P2Done rem.

Lemma p2_stuck_nil : p2_stuck [].
Proof. intros up. reflexivity. Qed.

Lemma p2_stuck_empty rest : p2_stuck ([] :: rest).
Proof. intros up. reflexivity. Qed.

Lemma p2_inner_spec up rest nt cur : cur <> [] ->
  (match nt with
   | P2Found h rem' => exists pre post, p2_seq rest = pre ++ h :: post /\ downs up pre /\ up (hid h) = true /\ p2_seq rem' = post
   | P2Done rem' => downs up (p2_seq rest) /\ p2_seq rem' = [] /\ p2_stuck rem'
   end) ->
  match p2_inner up rest nt cur with
  | P2Found h rem' => exists pre post, cur ++ p2_seq rest = pre ++ h :: post /\ downs up pre /\ up (hid h) = true /\ p2_seq rem' = post
  | P2Done rem' => downs up (cur ++ p2_seq rest) /\ p2_seq rem' = [] /\ p2_stuck rem'
  end.
Proof.
  intros Hne Hnt. induction cur as [|h cur IH]; [congruence|]. cbn [p2_inner].
  destruct cur as [|h2 cur].
  - destruct (up (hid h)) eqn:Eu.
    + exists [], (p2_seq rest). splits; try assumption; constructor.
    + destruct nt as [h' rem'|rem'].
      * destruct Hnt as [pre [post [E1 [E2 [E3 E4]]]]]. exists (h :: pre), post. simpl. rewrite E1.
        splits; try assumption. constructor; assumption.
      * destruct Hnt as [E1 [E2 E3]]. splits; try assumption. simpl. constructor; assumption.
  - destruct (up (hid h)) eqn:Eu.
    + exists [], ((h2 :: cur) ++ p2_seq rest). splits; try assumption; constructor.
    + assert (Hne' : h2 :: cur <> []) by discriminate. specialize (IH Hne').
      destruct (p2_inner up rest nt (h2 :: cur)) as [h' rem'|rem'].
      * destruct IH as [pre [post [E1 [E2 [E3 E4]]]]]. exists (h :: pre), post.
        change ((h :: h2 :: cur) ++ p2_seq rest) with (h :: ((h2 :: cur) ++ p2_seq rest)). rewrite E1.
        splits; try assumption. constructor; assumption.
      * destruct IH as [E1 [E2 E3]]. splits; try assumption.
        change ((h :: h2 :: cur) ++ p2_seq rest) with (h :: ((h2 :: cur) ++ p2_seq rest)). constructor; assumption.
Qed.

Lemma phase2_spec up rem :
  match ta_phase2 up rem with
  | P2Found h rem' => exists pre post, p2_seq rem = pre ++ h :: post /\ downs up pre /\ up (hid h) = true /\ p2_seq rem' = post
  | P2Done rem' => downs up (p2_seq rem) /\ p2_seq rem' = [] /\ p2_stuck rem'
  end.
Proof.
  induction rem as [|cur rest IH]; cbn [ta_phase2].
  - splits; try apply p2_stuck_nil; constructor.
  - destruct cur as [|h cur].
    + cbn [p2_inner p2_seq]. splits; try apply p2_stuck_empty; constructor.
    + change (p2_seq ((h :: cur) :: rest)) with ((h :: cur) ++ p2_seq rest).
      apply p2_inner_spec; [discriminate | exact IH].
Qed.

(* ---- third loop ------------------------------------------------------------------------------------ *)
Definition skipped (up : Z -> bool) (used : list Z) (l : list host) : Prop :=
  Forall (fun h => up (hid h) = false \/ zmem (hid h) used = true) l.

(* the fallback's hosts minus those already offered (the `used` map also absorbs repetitions) *)
Fixpoint dedup_seq (used : list Z) (l : list host) : list host :=
  match l with
  | [] => []
  | h :: t => if zmem (hid h) used then dedup_seq used t else h :: dedup_seq (hid h :: used) t
  end.

Lemma fut_length_le shift layers co : (length (fut shift layers co) <= length (concat layers))%nat.
Proof.
  destruct layers as [|l rest]; simpl; [lia|]. rewrite !app_length, skipn_length, rr_rot_length.
  assert (length (concat (map (rr_rot shift) rest)) = length (concat rest)); [|lia].
  induction rest as [|x rest IH]; simpl; [reflexivity|]. rewrite !app_length, rr_rot_length, IH. reflexivity.
Qed.

Lemma phase3_spec up used : forall fuel fb, rr_inv fb -> (length (rr_future fb) < fuel)%nat ->
  match ta_phase3 up used fb fuel with
  | (Offer h, fb', used') =>
      exists pre post, rr_future fb = pre ++ h :: post /\ skipped up used pre /\ up (hid h) = true
                       /\ zmem (hid h) used = false /\ rr_future fb' = post /\ rr_inv fb'
                       /\ ri_shift fb' = ri_shift fb /\ used' = hid h :: used
  | (Nil, fb', used') => skipped up used (rr_future fb) /\ fb' = mkRR (ri_shift fb) [] 0 /\ used' = used
  | _ => False
  end.
Proof.
  induction fuel as [|fuel IH]; intros fb Hinv Hf; [lia|]. cbn [ta_phase3].
  pose proof (rr_next_spec up fb Hinv) as Hs. destruct (rr_next up fb) as [[h| | |] fb1]; try tauto.
  - destruct Hs as [pre [post [E1 [E2 [E3 [E4 [E5 E6]]]]]]].
    assert (Hpre : skipped up used pre).
    { unfold skipped, downs in *. eapply Forall_impl; [|exact E2]. simpl. tauto. }
    destruct (zmem (hid h) used) eqn:Em.
    + assert (Hlt : (length (rr_future fb1) < fuel)%nat).
      { rewrite E4. rewrite E1, app_length in Hf. simpl in Hf. lia. }
      specialize (IH fb1 E5 Hlt).
      destruct (ta_phase3 up used fb1 fuel) as [[[h'| | |] fb'] used']; try tauto.
      * destruct IH as [pre' [post' [F1 [F2 [F3 [F4 [F5 [F6 [F7 F8]]]]]]]]].
        exists (pre ++ h :: pre'), post'. rewrite E1, <- E4, F1, <- app_assoc. simpl.
        splits; try assumption; try congruence.
        apply Forall_app. split; [assumption|]. constructor; [right; assumption | assumption].
      * destruct IH as [F1 [F2 F3]]. splits; try assumption; try congruence.
        rewrite E1. apply Forall_app. split; [assumption|]. constructor; [right; assumption|]. rewrite <- E4. assumption.
    + exists pre, post. splits; assumption.
  - destruct Hs as [E1 E2]. splits; try assumption.
    unfold skipped, downs in *. eapply Forall_impl; [|exact E1]. simpl. tauto.
Qed.

Lemma dedup_seq_skipped up used pre l : skipped up used pre -> dedup_seq used (ups up (pre ++ l)) = dedup_seq used (ups up l).
Proof.
  induction 1 as [|h pre Hh _ IH]; [reflexivity|]. simpl. unfold ups in *. simpl.
  destruct (up (hid h)) eqn:Eu; [|assumption]. destruct Hh as [Hh|Hh]; [congruence|].
  simpl. rewrite Hh. assumption.
Qed.

Lemma dedup_seq_split up used pre h post :
  skipped up used pre -> up (hid h) = true -> zmem (hid h) used = false ->
  dedup_seq used (ups up (pre ++ h :: post)) = h :: dedup_seq (hid h :: used) (ups up post).
Proof.
  intros Hp Hu Hm. rewrite (dedup_seq_skipped up used pre _ Hp). unfold ups. simpl. rewrite Hu. simpl. rewrite Hm. reflexivity.
Qed.

(* the state in which the generator stays exhausted *)
Definition ta_done (rem : list (list host)) (used : list Z) (shift : Z) : ta_iter :=
  mkTA [] rem used (Some (mkRR shift [] 0)).

Lemma ta_done_stays nlrf rem used shift p : p2_stuck rem ->
  forall up, ta_step nlrf up (ta_done rem used shift, p) = (Nil, (ta_done rem used shift, p)).
Proof.
  intros Hst up. unfold ta_step, ta_next, ta_done. cbn [fst snd ti_reps ti_remote ti_used ti_fb ta_phase1].
  destruct nlrf; [rewrite (Hst up)|]; reflexivity.
Qed.

Lemma stage3 nlrf up p rem : (nlrf = true -> p2_stuck rem) ->
  forall n fb, length (rr_future fb) = n -> rr_inv fb -> forall used,
  exists used', yields (ta_step nlrf up) (mkTA [] rem used (Some fb), p)
                       (dedup_seq used (ups up (rr_future fb))) (ta_done rem used' (ri_shift fb), p).
Proof.
  intros Hst. induction n as [n IH] using lt_wf_ind. intros fb Hn Hinv used.
  assert (Hfuel : (length (rr_future fb) < S (rr_size fb))%nat).
  { unfold rr_future, rr_size. pose proof (fut_length_le (ri_shift fb) (ri_layers fb) (ri_co fb)). lia. }
  pose proof (phase3_spec up used _ fb Hinv Hfuel) as Hs.
  assert (Estep : ta_step nlrf up (mkTA [] rem used (Some fb), p) =
                  (let '(o, fb', used') := ta_phase3 up used fb (S (rr_size fb)) in (o, (mkTA [] rem used' (Some fb'), p)))).
  { unfold ta_step, ta_next. cbn [fst snd ti_reps ti_remote ti_used ti_fb ta_phase1].
    destruct nlrf; [rewrite (Hst eq_refl up)|]; destruct (ta_phase3 up used fb (S (rr_size fb))) as [[o fb'] used']; reflexivity. }
  destruct (ta_phase3 up used fb (S (rr_size fb))) as [[[h| | |] fb'] used']; try tauto.
  - destruct Hs as [pre [post [E1 [E2 [E3 [E4 [E5 [E6 [E7 E8]]]]]]]]].
    destruct (IH (length (rr_future fb'))) with (fb := fb') (used := used') as [u' Hy]; auto.
    { rewrite <- Hn, E1, E5, app_length. simpl. lia. }
    exists u'. rewrite E1, (dedup_seq_split up used pre h post E2 E3 E4), <- E5, <- E8, <- E7.
    eapply yields_cons; [exact Estep | exact Hy].
  - destruct Hs as [E1 [E2 E3]]. subst. exists used.
    replace (dedup_seq used (ups up (rr_future fb))) with (@nil host).
    + apply yields_nil. exact Estep.
    + rewrite <- (app_nil_r (rr_future fb)). rewrite (dedup_seq_skipped up used _ [] E1). reflexivity.
Qed.

(* creating the fallback generator in the call that first needs it = having created it just before *)
Lemma lazy_pick nlrf up p rem used : (nlrf = true -> p2_stuck rem) ->
  ta_step nlrf up (mkTA [] rem used None, p) =
  ta_step nlrf up (mkTA [] rem used (Some (fst (rr_pick p))), snd (rr_pick p)).
Proof.
  intros Hst. unfold ta_step, ta_next. cbn [fst snd ti_reps ti_remote ti_used ti_fb ta_phase1].
  destruct nlrf; [rewrite (Hst eq_refl up)|]; destruct (rr_pick p) as [fb p']; reflexivity.
Qed.

(* ---- the whole sequence ----------------------------------------------------------------------------- *)
Definition far (k : pkind) (nlrf : bool) (up : Z -> bool) (rs : list host) : list host :=
  if nlrf then ups up (p2_seq (add_remotes k true (repeat [] (max_tier k)) rs)) else [].

(* the sequence the model's token-aware generator offers (faithful closed form) *)
Definition ta_seq (nlrf : bool) (up : Z -> bool) (p : policy) (rs : list host) : list host :=
  let a := near (pk p) up rs in
  let b := far (pk p) nlrf up rs in
  a ++ b ++ dedup_seq (rev (map hid b) ++ rev (map hid a)) (spec_rr up (plists p) (Z.to_nat (pctr p + 2))).

Lemma add_remotes_false k remote rs : add_remotes k false remote rs = remote.
Proof.
  unfold add_remotes. revert remote; induction rs as [|h rs IH]; intros remote; simpl; [reflexivity|].
  rewrite IH. unfold add_remote. destruct (host_tier k h); reflexivity.
Qed.

Lemma ta_sequence_lemma nlrf up p rs : ctr_in_range p ->
  exists rem used,
    yields (ta_step nlrf up) (ta_pick (pk p) nlrf (map Some rs), p) (ta_seq nlrf up p rs)
           (ta_done rem used (pctr p + 1), mkPolicy (pk p) (plists p) (pctr p + 1))
    /\ forall up', ta_step nlrf up' (ta_done rem used (pctr p + 1), mkPolicy (pk p) (plists p) (pctr p + 1))
                   = (Nil, (ta_done rem used (pctr p + 1), mkPolicy (pk p) (plists p) (pctr p + 1))).
Proof.
  intros Hr. destruct (rr_pick_spec p Hr) as [Hinv [Hs [_ [_ [Hf Hp]]]]].
  unfold ta_seq, ta_pick. set (a := near (pk p) up rs). set (b := far (pk p) nlrf up rs).
  set (p' := mkPolicy (pk p) (plists p) (pctr p + 1)) in *.
  (* third stage, from any stuck remainder *)
  assert (S3 : forall rem used, (nlrf = true -> p2_stuck rem) ->
            exists used', yields (ta_step nlrf up) (mkTA [] rem used None, p)
                                 (dedup_seq used (spec_rr up (plists p) (Z.to_nat (pctr p + 2))))
                                 (ta_done rem used' (pctr p + 1), p')).
  { intros rem used Hst.
    destruct (stage3 nlrf up p' rem Hst _ (fst (rr_pick p)) eq_refl Hinv used) as [u' Hy].
    exists u'. eapply yields_head; [apply lazy_pick; assumption|]. rewrite Hp.
    replace (pctr p + 2) with (pctr p + 1 + 1) by lia. rewrite <- rr_future_spec, <- Hf, <- Hs. exact Hy. }
  destruct nlrf.
  - (* with non-local fallback *)
    assert (S2 : exists st', yields (ta_step true up)
               (mkTA [] (add_remotes (pk p) true (repeat [] (max_tier (pk p))) rs) (rev (map hid a) ++ []) None, p)
               (b ++ dedup_seq (rev (map hid b) ++ rev (map hid a)) (spec_rr up (plists p) (Z.to_nat (pctr p + 2)))) st'
               /\ exists rem used, st' = (ta_done rem used (pctr p + 1), p') /\ p2_stuck rem).
    { unfold b, far.
      set (rem0 := add_remotes (pk p) true (repeat [] (max_tier (pk p))) rs).
      (* the second loop, by induction on what it can still reach, ending in the third *)
      assert (G : forall n rem, length (p2_seq rem) = n -> forall used,
                exists rem_end used_end, p2_stuck rem_end /\
                  yields (ta_step true up) (mkTA [] rem used None, p)
                         (ups up (p2_seq rem) ++ dedup_seq (rev (map hid (ups up (p2_seq rem))) ++ used)
                                                      (spec_rr up (plists p) (Z.to_nat (pctr p + 2))))
                         (ta_done rem_end used_end (pctr p + 1), p')).
      { induction n as [n IH] using lt_wf_ind. intros rem Hn used.
        pose proof (phase2_spec up rem) as Hsp. destruct (ta_phase2 up rem) as [h rem'|rem'] eqn:E.
        - destruct Hsp as [pre [post [E1 [E2 [E3 E4]]]]].
          assert (Eu : ups up (p2_seq rem) = h :: ups up (p2_seq rem')) by (rewrite E1, E4; apply ups_split; assumption).
          destruct (IH (length (p2_seq rem'))) with (rem := rem') (used := hid h :: used) as [re [ue [Hst Hy]]].
          { rewrite <- Hn, E1, E4, app_length. simpl. lia. }
          { reflexivity. }
          exists re, ue. split; [assumption|]. rewrite Eu, rev_ids_cons. simpl. eapply yields_cons; [|exact Hy].
          unfold ta_step, ta_next. cbn [fst snd ti_reps ti_remote ti_used ti_fb ta_phase1]. rewrite E. reflexivity.
        - destruct Hsp as [E1 [E2 E3]]. rewrite (ups_downs _ _ E1). simpl.
          destruct (S3 rem' used (fun _ => E3)) as [u' Hy]. exists rem', u'. split; [assumption|].
          eapply yields_head; [|exact Hy].
          unfold ta_step, ta_next. cbn [fst snd ti_reps ti_remote ti_used ti_fb ta_phase1]. rewrite E, (E3 up). reflexivity. }
      destruct (G _ rem0 eq_refl (rev (map hid a) ++ [])) as [re [ue [Hst Hy]]].
      exists (ta_done re ue (pctr p + 1), p'). rewrite app_nil_r in *. split; [exact Hy|]. exists re, ue. split; [reflexivity | assumption]. }
    destruct S2 as [st' [Hy [rem [used [-> Hst]]]]]. exists rem, used. split.
    + apply stage1. exact Hy.
    + intros up'. apply ta_done_stays. assumption.
  - (* without: remote is never touched and the second loop is skipped *)
    destruct (S3 [] (rev (map hid a) ++ []) (fun H => False_ind _ (Bool.diff_false_true H))) as [u' Hy].
    exists [], u'. split.
    + apply stage1. rewrite add_remotes_false. unfold b, far. simpl. fold a. rewrite app_nil_r in *. exact Hy.
    + intros up'. apply ta_done_stays. intros up''. reflexivity.
Qed.
