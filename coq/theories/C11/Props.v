(* C11/Props.v -- the proof obligations for property C11 (host selection policies), and nothing else.
   Each is closed by [exact] of lemmas from Proofs1..6.v and followed by Print Assumptions.

   Vocabulary (Model.v / Spec.v):
     host            record (hid: the *HostInfo pointer, haddr: connect address, hdc, hrack)
     up : Z -> bool  which hosts are up, read at every call (HostInfo.IsUp)
     policy          (pk: RoundRobin | DC-aware | rack-aware, plists: the copy-on-write tier lists, pctr: lastUsedHostIdx)
     rr_pick p       Pick of the three round-robin based policies: (generator, policy with the counter advanced)
     rr_next / ta_step   one call of the generator returned by Pick (plain / token-aware)
     yields next st hs st'   successive calls from st return exactly the hosts hs and then nil (Spec.v)
     spec_rr / spec_ta       the tiered list the property demands (Spec.v, written from the documentation)
     run c (sys_init c) ls   the transition system: any interleaving ls of AddHost/RemoveHost/HostUp/HostDown,
                             host state changes, Picks and single calls of any of the live generators.
   ctr_in_range p := 0 <= pctr p /\ pctr p + 1 + (number of hosts in the lists) < 2^63  (the pick counter is a
   uint64 converted to int; the property's "any number of successive picks" stays below 2^63). *)
From Coq Require Import Permutation.
From GocqlV Require Import Lib.Base Gen.Consts C11.Model C11.Spec
  C11.Proofs1 C11.Proofs2 C11.Proofs3 C11.Proofs4 C11.Proofs5 C11.Proofs6 C11.Refuted C11.Compose.

(* 0. The one source constant the model uses (typed in Model.v) is the generated one. *)
Theorem C11_node_up_is_source_constant : node_up = K.NodeUp.
Proof. reflexivity. Qed.
Print Assumptions C11_node_up_is_source_constant.

(* 1. Copy-on-write lists are sets keyed by address: add inserts (at the end) unless an Equal host is
      present, remove deletes the host with that address and nothing else; uniqueness is preserved.
      (In particular the reslice newL[:size-1:size-1] in remove never cuts a host off.) *)
Theorem C11_cow_set_semantics : forall l h ip x,
  NoDup (map haddr l) -> NoDup (map hid l) ->
  (In x (fst (cow_add h l)) <-> In x l \/ (x = h /\ existsb (host_equal h) l = false)) /\
  (In x (fst (cow_remove ip l)) <-> In x l /\ haddr x <> ip) /\
  NoDup (map haddr (fst (cow_add h l))) /\ NoDup (map hid (fst (cow_add h l))) /\
  NoDup (map haddr (fst (cow_remove ip l))) /\ NoDup (map hid (fst (cow_remove ip l))).
Proof.
  intros l h ip x Ha Hi. destruct (cow_set_semantics l Ha h ip x) as [H1 H2].
  destruct (cow_add_inv h l (conj Ha Hi)) as [A1 A2]. destruct (cow_remove_inv ip l (conj Ha Hi)) as [R1 R2].
  split; [exact H1|]. split; [exact H2|]. auto.
Qed.
Print Assumptions C11_cow_set_semantics.

(* 2. Over ANY history (any interleaving of operations, state changes, Picks and generator calls, from a
      fresh policy): there are as many tier lists as the policy has tiers, no list names an address or a
      pointer twice, every host sits in the tier its data centre and rack put it in, and - when the
      history uses one record per pointer - no host is in two tiers. *)
Theorem C11_tier_lists_invariant : forall c ls s outs,
  run c (sys_init c) ls = Some (s, outs) ->
  let p := s_pol s in
  pk p = c_kind c /\ length (plists p) = ntiers (c_kind c) /\
  (forall t l, nth_error (plists p) t = Some l ->
     NoDup (map haddr l) /\ NoDup (map hid l) /\
     forall h, In h l -> host_tier (c_kind c) h = t /\ In h (hosts_of ls)) /\
  (id_functional (hosts_of ls) -> NoDup (map hid (concat (plists p)))).
Proof.
  intros c ls s outs H. destruct (reachable_pol_inv c ls s outs H) as [Hinv Hk]. cbn zeta.
  split; [exact Hk|]. pose proof Hinv as [Hlen Hall]. rewrite Hk in Hlen.
  split; [exact Hlen|]. split.
  - intros t l Hl. destruct (Hall t l Hl) as [[A B] C]. rewrite Hk in C. auto.
  - intros Hid. eapply pol_inv_nodup; [exact Hinv | exact Hid].
Qed.
Print Assumptions C11_tier_lists_invariant.

(* 3. The round-robin generator, whatever the lists are: the hosts it returns are exactly the tiers in
      order, each rotated to start at index (counter+2) mod size and restricted to the up hosts; then nil. *)
Theorem C11_rr_sequence : forall up p, ctr_in_range p ->
  yields (rr_next up) (fst (rr_pick p)) (spec_rr up (plists p) (Z.to_nat (pctr p + 2))) (mkRR (pctr p + 1) [] 0).
Proof. exact rr_sequence_lemma. Qed.
Print Assumptions C11_rr_sequence.

(* 4. A Pick of a round-robin / DC-aware / rack-aware policy in any reachable state: finite (a list, then
      nil for ever), only up hosts, no host twice, every up host the policy knows, nearer tiers first. *)
Theorem C11_rr_offers : forall c ls s outs up,
  run c (sys_init c) ls = Some (s, outs) -> id_functional (hosts_of ls) -> ctr_in_range (s_pol s) ->
  let p := s_pol s in
  let offered := spec_rr up (plists p) (Z.to_nat (pctr p + 2)) in
  yields (rr_next up) (fst (rr_pick p)) offered (mkRR (pctr p + 1) [] 0)
  /\ (forall up', rr_next up' (mkRR (pctr p + 1) [] 0) = (Nil, mkRR (pctr p + 1) [] 0))
  /\ only_up up offered /\ no_host_twice offered /\ complete up (concat (plists p)) offered
  /\ tier_sorted (host_tier (c_kind c)) offered.
Proof. exact rr_reachable_offers. Qed.
Print Assumptions C11_rr_offers.

(* 5. Rotation: the k-th further Pick on unchanged lists ([pick_times k p]: Pick k times) starts every tier
      k hosts further; one more Pick = every tier rotated by one more; and over [length l] successive Picks
      the host tried first in a tier runs through the whole tier (load is spread). *)
Theorem C11_rr_rotation :
  (forall up p k, 0 <= pctr p -> pctr p + Z.of_nat k + 1 + Z.of_nat (length (concat (plists p))) < 2 ^ 63 ->
     yields (rr_next up) (fst (rr_pick (pick_times k p)))
            (spec_rr up (plists p) (Z.to_nat (pctr p + 2) + k)) (mkRR (pctr p + Z.of_nat k + 1) [] 0))
  /\ (forall n (l : list host), rotl (S n) l = rotl 1 (rotl n l))
  /\ (forall base (l : list host),
        map (fun k => nth_error (rotl (base + k) l) 0) (seq 0 (length l)) = map Some (rotl base l))
  /\ (forall base (l : list host), Permutation (rotl base l) l).
Proof.
  split; [exact rr_rotation_lemma|]. split; [intros; apply rotl_succ|].
  split; [intros; apply first_choices_rotate | intros; apply rotl_perm].
Qed.
Print Assumptions C11_rr_rotation.

(* 6. The token-aware generator for ANY replica list and any lists (closed form of the model):
      [ta_seq] = first occurrences ([dedup_seq]) of
                 up local replicas in replica order
                 ++ (with NonLocalReplicasFallback) up replicas of every farther tier, tier by tier
                 ++ the fallback policy's sequence;
      then nil for ever. *)
Theorem C11_ta_sequence : forall nlrf up p rs, ctr_in_range p ->
  exists used,
    let final := (ta_done used (pctr p + 1), mkPolicy (pk p) (plists p) (pctr p + 1)) in
    yields (ta_step nlrf up) (ta_pick (pk p) nlrf rs, p) (ta_seq nlrf up p rs) final
    /\ forall up', ta_step nlrf up' final = (Nil, final).
Proof. exact ta_sequence_lemma. Qed.
Print Assumptions C11_ta_sequence.

(* 7. A Pick of a token-aware policy (replica order rs: primary first, or any order ShuffleReplicas produced -
      ANY list, repetitions and tier gaps included) in any reachable state offers exactly the specification's
      list; hence: finite, only up hosts, no host twice, every up host of the lists, every up local replica,
      with fallback every up replica.  (Unconditional since the repairs of the second loop and of the replica
      loops; Refuted.v keeps the pre-fix generator and its two witnesses as regression facts.) *)
Theorem C11_ta_offers : forall c ls s outs up rs,
  run c (sys_init c) ls = Some (s, outs) -> ctr_in_range (s_pol s) ->
  let p := s_pol s in
  let k := c_kind c in
  let offered := spec_ta up (host_tier k) (max_tier k) (c_nlrf c) rs (plists p) (Z.to_nat (pctr p + 2)) in
  (exists st', yields (ta_step (c_nlrf c) up) (ta_pick k (c_nlrf c) rs, p) offered st'
               /\ forall up', ta_step (c_nlrf c) up' st' = (Nil, st'))
  /\ only_up up offered
  /\ no_host_twice offered
  /\ complete up (concat (plists p)) offered
  /\ complete up (in_tier (host_tier k) 0 rs) offered
  /\ (c_nlrf c = true -> complete up rs offered).
Proof. exact ta_reachable_offers. Qed.
Print Assumptions C11_ta_offers.

(* 8. Order of that list: replicas of the nearest tier first, then - with fallback - replicas of farther tiers,
      nearer tier first, then the remaining hosts, nearer tier first, none of them offered before; and when the
      replica list names no host twice, the two replica parts are exactly the up replicas in replica order
      (primary first unless shuffled). *)
Theorem C11_ta_replicas_first : forall c ls s outs up rs start,
  run c (sys_init c) ls = Some (s, outs) ->
  let k := c_kind c in
  let near := ups up (in_tier (host_tier k) 0 rs) in
  let far := if c_nlrf c then concat (map (fun t => ups up (in_tier (host_tier k) t rs)) (seq 1 (max_tier k))) else [] in
  exists nearP farP rest,
    spec_ta up (host_tier k) (max_tier k) (c_nlrf c) rs (plists (s_pol s)) start = nearP ++ farP ++ rest
    /\ (forall h, In h nearP -> In h rs /\ host_tier k h = 0%nat)
    /\ (forall h, In h farP -> In h rs /\ (1 <= host_tier k h)%nat)
    /\ tier_sorted (host_tier k) farP
    /\ tier_sorted (host_tier k) rest
    /\ (forall h, In h rest -> ~ In (hid h) (map hid (nearP ++ farP)))
    /\ (NoDup (map hid rs) -> nearP = near /\ farP = far).
Proof.
  intros c ls s outs up rs start H. destruct (reachable_pol_inv c ls s outs H) as [Hinv Hk]. cbn zeta.
  apply spec_ta_order. rewrite <- Hk. eapply pol_inv_consistent. exact Hinv.
Qed.
Print Assumptions C11_ta_replicas_first.

(* 9. ShuffleReplicas: whatever rearrangement of a (duplicate-free) replica list is used, the offered list
      differs only by a rearrangement inside the local-replica prefix and inside the far-replica part; what
      follows is identical. *)
Theorem C11_shuffle_only_permutes_replicas : forall up tier maxt nlrf rs rs' tiers start,
  NoDup (map hid rs) -> NoDup (map hid (concat tiers)) -> Permutation rs' rs ->
  exists near near' far far' rest,
    spec_ta up tier maxt nlrf rs tiers start = near ++ far ++ rest /\
    spec_ta up tier maxt nlrf rs' tiers start = near' ++ far' ++ rest /\
    near = ups up (in_tier tier 0 rs) /\ Permutation near' near /\ Permutation far' far.
Proof. exact shuffle_lemma. Qed.
Print Assumptions C11_shuffle_only_permutes_replicas.

(* 10. In ANY state of the system (reachable or not), a host returned by any generator call is up at the
       moment of that call. *)
Theorem C11_offered_host_is_up : forall c s n s' h,
  step c s (LNext n) = Some (s', Some (Offer h)) -> s_up s (hid h) = true.
Proof. exact step_offer_up. Qed.
Print Assumptions C11_offered_host_is_up.

(* 11. No generator call ever panics (and the model never runs out of fuel), over all interleavings of
       operations, state changes, Picks (any query, any ring - also one without tokens) and calls of all live
       generators - provided the counter is not forced within 2^62 of its wrap-around ([label_ok]: LSetCtr
       is a test-only label; Refuted.rr_counter_wrap_panic_refuted shows the panic beyond). *)
Theorem C11_no_panic_any_interleaving : forall c ls s outs,
  Forall label_ok ls -> 2 * Z.of_nat (length ls) + 4 <= 2 ^ 62 ->
  run c (sys_init c) ls = Some (s, outs) ->
  forall n o, In (n, o) outs -> o <> Panic /\ o <> OutOfFuel.
Proof.
  intros c ls s outs Hl Hb H. apply (run_safe c ls 0 (sys_init c) s outs (sys_init_ok c) Hl); [lia | lia | exact H].
Qed.
Print Assumptions C11_no_panic_any_interleaving.

(* 12. Once a generator has returned nil it returns nil for ever, whatever happens to the hosts or the
       policy in between (the sequence offered for one query is finite under every schedule). *)
Theorem C11_exhausted_stays_exhausted :
  (forall up it it', rr_next up it = (Nil, it') -> forall up', rr_next up' it' = (Nil, it')) /\
  (forall nlrf up p it it' p', ta_next nlrf up p it = (Nil, it', p') ->
     forall up' q, ta_next nlrf up' q it' = (Nil, it', q)).
Proof. split; [exact rr_nil_absorbing | exact ta_nil_absorbing]. Qed.
Print Assumptions C11_exhausted_stays_exhausted.

(* 13. Snapshot / frame: policy operations, host state changes, other Picks and other generators' calls leave
       the closure state of generator n untouched - the lists a Pick captured are values, so concurrent
       AddHost/RemoveHost/HostUp/HostDown cannot affect a generator already returned (its later calls depend
       only on its own state, the host states at the call, and - for a token-aware generator, once - the
       fallback policy's lists and counter at the moment its fallback generator is created). *)
Theorem C11_generator_frame : forall c s l s' o n,
  step c s l = Some (s', o) -> (forall q, l <> LPick n q) -> l <> LNext n ->
  find_iter n (s_iters s') = find_iter n (s_iters s).
Proof. exact generator_frame. Qed.
Print Assumptions C11_generator_frame.

(* 14. Composition with C10 (replica placement), SimpleStrategy.  [pick_lookup ltb hostof m r t order] is the
       query information of a Pick written with C10's model of what the real Pick looks up (replicasFor on
       the keyspace's replica map m, GetHostForToken on the ring r); hostof maps C10's host numbers to host
       records.  In any reachable state of a token-aware policy (no shuffling), for any ring in token order
       and any token: the Pick that finds the token in simpleStrategy.replicaMap's map creates the token-aware
       generator over CASSANDRA's natural endpoints (SimpleStrategy.calculateNaturalEndpoints, C10/Spec.v) in
       Cassandra's order, and it offers: the up ones of them in the nearest tier, in that order; then (with
       fallback) the up ones in farther tiers, nearer first; then every other up host by tier; no host twice. *)
Theorem C11_simple_cassandra_replicas_first :
  forall (T : Type) (ltb : T -> T -> bool) (hostof : Z -> host) c ls s outs up n rf r t,
  (forall h, hid (hostof h) = h) -> C10.Proofs1.strict_total ltb -> C10.Proofs1.sorted_toks ltb r -> r <> [] ->
  run c (sys_init c) ls = Some (s, outs) -> ctr_in_range (s_pol s) -> c_ta c = true -> c_shuffle c = false ->
  let cassandra := C10.Spec.simple_natural_endpoints ltb rf r t in
  let rs := map hostof cassandra in
  let k := c_kind c in
  let near := ups up (in_tier (host_tier k) 0 rs) in
  let far := if c_nlrf c then concat (map (fun i => ups up (in_tier (host_tier k) i rs)) (seq 1 (max_tier k))) else [] in
  let offered := spec_ta up (host_tier k) (max_tier k) (c_nlrf c) rs (plists (s_pol s)) (Z.to_nat (pctr (s_pol s) + 2)) in
  step c s (LPick n (pick_lookup ltb hostof (C10.Model.simple_replica_map rf r) r t rs))
    = Some (mkSys (s_pol s) (s_up s) ((n, ITA (ta_pick k (c_nlrf c) rs)) :: s_iters s), None)
  /\ (exists st', yields (ta_step (c_nlrf c) up) (ta_pick k (c_nlrf c) rs, s_pol s) offered st'
                  /\ forall up', ta_step (c_nlrf c) up' st' = (Nil, st'))
  /\ exists rest, offered = near ++ far ++ rest
       /\ tier_sorted (host_tier k) far /\ tier_sorted (host_tier k) rest
       /\ (forall h, In h rest -> ~ In (hid h) (map hid (near ++ far)))
       /\ only_up up offered /\ no_host_twice offered /\ complete up (concat (plists (s_pol s))) offered.
Proof. exact simple_cassandra_replicas_first. Qed.
Print Assumptions C11_simple_cassandra_replicas_first.

(* 15. The same for NetworkTopologyStrategy: with m the map networkTopology.replicaMap builds (it never panics:
       C10_nts_never_panics), whenever m has an entry for the token (it has none only when no ring token lies in
       a data centre with replicas; Pick then walks the primary owner alone), the replicas the generator walks
       are NetworkTopologyStrategy.calculateNaturalEndpoints, and the same order statement holds. *)
Theorem C11_nts_cassandra_replicas_first :
  forall (T : Type) (ltb : T -> T -> bool) (hostof : Z -> host) (info : Z -> C10.Model.hinfo)
         (dcs : C10.Model.amap Z) (hosts : list Z) c ls s outs up n r m t tok reps,
  (forall h, hid (hostof h) = h) -> C10.Proofs1.strict_total ltb ->
  Forall (fun e => 0 <= snd e) dcs -> NoDup (map fst dcs) ->
  C10.Proofs1.sorted_toks ltb r -> (forall h, In h hosts <-> In h (map snd r)) ->
  C10.Model.nts_replica_map info dcs hosts r = C10.Model.Ok m ->
  C10.Model.replicas_for ltb m t = Some (tok, reps) ->
  run c (sys_init c) ls = Some (s, outs) -> ctr_in_range (s_pol s) -> c_ta c = true -> c_shuffle c = false ->
  let rs := map hostof reps in
  let k := c_kind c in
  let near := ups up (in_tier (host_tier k) 0 rs) in
  let far := if c_nlrf c then concat (map (fun i => ups up (in_tier (host_tier k) i rs)) (seq 1 (max_tier k))) else [] in
  let offered := spec_ta up (host_tier k) (max_tier k) (c_nlrf c) rs (plists (s_pol s)) (Z.to_nat (pctr (s_pol s) + 2)) in
  reps = C10.Spec.nts_natural_endpoints ltb (C10.Model.dc_of info) (C10.Model.rack_of info) dcs r t
  /\ step c s (LPick n (pick_lookup ltb hostof m r t rs))
    = Some (mkSys (s_pol s) (s_up s) ((n, ITA (ta_pick k (c_nlrf c) rs)) :: s_iters s), None)
  /\ (exists st', yields (ta_step (c_nlrf c) up) (ta_pick k (c_nlrf c) rs, s_pol s) offered st'
                  /\ forall up', ta_step (c_nlrf c) up' st' = (Nil, st'))
  /\ exists rest, offered = near ++ far ++ rest
       /\ tier_sorted (host_tier k) far /\ tier_sorted (host_tier k) rest
       /\ (forall h, In h rest -> ~ In (hid h) (map hid (near ++ far)))
       /\ only_up up offered /\ no_host_twice offered /\ complete up (concat (plists (s_pol s))) offered.
Proof. exact nts_cassandra_replicas_first. Qed.
Print Assumptions C11_nts_cassandra_replicas_first.

(* ---- non-vacuity: the hypotheses are satisfiable by a concrete non-trivial history --------------------- *)
(* rack-aware + token-aware + fallback; five hosts over three tiers, one of them down; replicas in tiers
   0, 1 and 2; the history contains operations, a removal, state changes, Picks and calls *)
Definition ex_cfg : cfg := mkCfg (PRack 1 1) true false true.
Definition eA := mkHost 1 1 1 1.
Definition eB := mkHost 2 2 1 1.
Definition eC := mkHost 3 3 1 2.
Definition eD := mkHost 4 4 2 1.
Definition eE := mkHost 5 5 2 2.
Definition ex_history : list label :=
  [LOp (OAdd eA); LOp (OAdd eB); LOp (OAdd eC); LOp (OAdd eD); LOp (OAdd eE); LOp (ODown eB); LOp (OUp eB);
   LSetState 1 node_up; LSetState 2 node_up; LSetState 3 node_up; LSetState 5 node_up;
   LPick 0 (QKey (Some [eC; eA; eD]) (Some eC) [eC; eA; eD]); LNext 0; LNext 0; LPick 1 QFallback; LNext 1; LNext 0].

Example C11_nonvacuous :
  exists s outs,
    run ex_cfg (sys_init ex_cfg) ex_history = Some (s, outs)
    /\ outs = [(0%nat, Offer eA); (0%nat, Offer eC); (1%nat, Offer eA); (0%nat, Offer eB)]
    /\ id_functional (hosts_of ex_history) /\ ctr_in_range (s_pol s)
    /\ NoDup (map hid [eC; eA; eD])
    /\ Forall label_ok ex_history /\ 2 * Z.of_nat (length ex_history) + 4 <= 2 ^ 62
    /\ spec_ta (s_up s) (host_tier (c_kind ex_cfg)) 2 true [eC; eA; eD] (plists (s_pol s)) (Z.to_nat (pctr (s_pol s) + 2))
       = [eA; eC; eB; eE].
Proof.
  eexists. eexists. split; [vm_compute; reflexivity|]. split; [reflexivity|].
  split.
  { intros a b Ha Hb E. simpl in Ha, Hb.
    repeat (destruct Ha as [<-|Ha]; [repeat (destruct Hb as [<-|Hb]; [first [reflexivity | discriminate E]|]); destruct Hb|]).
    destruct Ha. }
  split; [split; vm_compute; [discriminate | reflexivity]|].
  split; [repeat constructor; simpl; intuition discriminate|].
  split; [repeat constructor|]. split; [vm_compute; discriminate|]. vm_compute. reflexivity.
Qed.

(* non-vacuity of 14: a four-token Murmur3 ring over the hosts of the history above, RF 2, a token between the
   first two ring tokens: Cassandra's endpoints are hosts 3 and 2, and after the history the policy offers
   the local-rack one (2) first, then (fallback) 3, then the rest *)
Definition ex_hostof (h : Z) : host :=
  match h with 1 => eA | 2 => eB | 3 => eC | 4 => eD | _ => mkHost h 5 2 2 end.
Definition ex_ring : list (Z * Z) := [(10, 1); (20, 3); (30, 2); (40, 4)].

Example C11_compose_nonvacuous :
  (forall h, hid (ex_hostof h) = h) /\ C10.Proofs1.sorted_toks Z.ltb ex_ring /\ ex_ring <> []
  /\ C10.Spec.simple_natural_endpoints Z.ltb 2 ex_ring 15 = [3; 2]
  /\ exists s outs, run ex_cfg (sys_init ex_cfg) ex_history = Some (s, outs)
       /\ spec_ta (s_up s) (host_tier (c_kind ex_cfg)) 2 true (map ex_hostof [3; 2]) (plists (s_pol s)) (Z.to_nat (pctr (s_pol s) + 2))
          = [eB; eC; eA; eE].
Proof.
  split; [intros h; unfold ex_hostof; repeat (destruct h as [|[h|h|]|]; try reflexivity)|].
  split; [|split; [discriminate|split; [vm_compute; reflexivity|]]].
  - unfold C10.Proofs1.sorted_toks. repeat constructor; reflexivity.
  - eexists. eexists. split; vm_compute; reflexivity.
Qed.
